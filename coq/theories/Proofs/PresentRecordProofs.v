(* Proofs/PresentRecordProofs.v — a whole record line (C05): the header
   printed by RR_Header.String / rfc3597Header is lexed and parsed back as the
   same owner, TTL, class and type; NewRR on the String() of a regular record
   yields the same header and the printer's normal form of every field; NewRR
   on the RFC 3597 generic form yields the same header and the same RDATA
   octets, for every type code and every RDATA. *)
From Dns Require Import Base.ListX Model.Present Proofs.EscapeProofs Proofs.PresentEscProofs
     Proofs.PresentCodeProofs Proofs.PresentLexProofs Proofs.PresentTxtProofs Proofs.PresentWordProofs
     Proofs.PresentAtomProofs Proofs.PresentGrammarProofs.
From Coq Require Import Lia ZifyN ZifyNat ZifyBool.
Open Scope N_scope.

(* ---- a TAB after a word, in the states the header passes through ---- *)
Lemma lex_tab_owner acc sp rt br rest : acc <> [] -> is_directive (upper_bytes (rev acc)) = false ->
  lex_go (mkL false sp true rt br) acc false (9 :: rest) =
  TOwner (rev acc) :: (if sp then [] else [TBlank]) ++ lex_go (mkL false true false rt br) [] false rest.
Proof.
  intros Ha Hd. cbn [lex_go l_quote l_space l_owner l_rrtype l_brace].
  replace ((9 =? 32) || (9 =? 9)) with true by reflexivity. cbn [orb].
  destruct acc; [congruence|]. cbn [is_nil]. now rewrite Hd.
Qed.

Lemma lex_tab_word acc sp rt br rest t rr : acc <> [] ->
  classify rt (rev acc) = (t, rr) -> is_err t = false ->
  lex_go (mkL false sp false rt br) acc false (9 :: rest) =
  t :: (if sp then [] else [TBlank]) ++ lex_go (mkL false true false rr br) [] false rest.
Proof.
  intros Ha Hc He. cbn [lex_go l_quote l_space l_owner l_rrtype l_brace].
  replace ((9 =? 32) || (9 =? 9)) with true by reflexivity. cbn [orb].
  destruct acc; [congruence|]. cbn [is_nil]. now rewrite Hc, He.
Qed.

(* ---- a decimal number is an ordinary word for the classifier ---- *)
Lemma lookup_name_digit_head tbl c r :
  forallb (fun e => match snd e with [] => true | x :: _ => negb (is_digit x) end) tbl = true ->
  is_digit c = true -> lookup_name tbl (c :: r) = None.
Proof.
  induction tbl as [|[k v] tbl IH]; intros H Hc; [reflexivity|].
  cbn [forallb snd] in H. apply andb_prop in H. destruct H as [H1 H2].
  cbn [lookup_name]. destruct (bytes_eqb v (c :: r)) eqn:E.
  - apply bytes_eqb_eq in E. subst v. rewrite Hc in H1. discriminate.
  - now apply IH.
Qed.
Lemma type_table_no_digit_head :
  forallb (fun e => match snd e with [] => true | x :: _ => negb (is_digit x) end) type_table = true.
Proof. vm_compute. reflexivity. Qed.
Lemma class_table_no_digit_head :
  forallb (fun e => match snd e with [] => true | x :: _ => negb (is_digit x) end) class_table = true.
Proof. vm_compute. reflexivity. Qed.

Lemma classify_dec n : classify false (dec_bytes n) = (TStr (dec_bytes n), false).
Proof.
  unfold classify. rewrite upper_digits by apply dec_bytes_digits.
  destruct (dec_bytes_head n) as (c & r & E & Hc). rewrite E.
  unfold string_to_type, string_to_class.
  rewrite (lookup_name_digit_head _ c r type_table_no_digit_head Hc).
  rewrite (lookup_name_digit_head _ c r class_table_no_digit_head Hc).
  assert (H84 : (84 =? c) = false) by (unfold is_digit in Hc; lia).
  assert (H67 : (67 =? c) = false) by (unfold is_digit in Hc; lia).
  unfold b_TYPE, b_CLASS. cbn [has_prefix]. now rewrite H84, H67.
Qed.

(* ---- the class and type columns ---- *)
Lemma classify_text rt w t rr : classify rt w = (t, rr) -> is_err t = false -> tok_text t = w.
Proof.
  unfold classify. destruct rt; [intro H; injection H as <- <-; reflexivity|].
  destruct (string_to_type (upper_bytes w)); [|destruct (has_prefix b_TYPE (upper_bytes w)); [destruct (type_to_int w)|]];
    destruct (string_to_class (upper_bytes w)); try (destruct (has_prefix b_CLASS (upper_bytes w)); [destruct (class_to_int w)|]);
    intro H; injection H as <- <-; cbn; try reflexivity; discriminate.
Qed.

Lemma class_mnemonics_flag :
  forallb (fun e => match string_to_type (snd e) with
                    | Some _ => true
                    | None => match classify false (snd e) with (TClass c _, false) => c =? fst e | _ => false end
                    end) class_table = true.
Proof. vm_compute. reflexivity. Qed.

Theorem classify_show_class c : c < 65536 ->
  classify false (show_class c) = (TClass c (show_class c), false).
Proof.
  intro Hc. unfold show_class. destruct (lookup_code class_table c) as [m|] eqn:L.
  - apply lookup_code_in in L.
    pose proof class_mnemonics_flag as C. rewrite forallb_forall in C. specialize (C _ L). cbn [fst snd] in C.
    destruct (string_to_type m); [apply classify_CLASSnnn; [exact Hc|reflexivity]|].
    destruct (classify false m) as [t b] eqn:E. destruct t; try discriminate. destruct b; [discriminate|].
    apply N.eqb_eq in C. subst c0.
    pose proof (classify_text false m _ _ E eq_refl) as T. cbn in T. now subst s.
  - apply classify_CLASSnnn; [exact Hc|reflexivity].
Qed.

Theorem classify_show_type t : t < 65536 -> odd_type t = false ->
  classify false (show_type t) = (TRrtype t (show_type t), true).
Proof.
  intros Ht Ho. destruct (type_string_reread t Ht Ho) as [s E]. rewrite E.
  pose proof (classify_text false _ _ _ E eq_refl) as T. cbn in T. now subst s.
Qed.

(* ---- lexing the header ---- *)
Definition hdr_toks (n ttl cw tw : bytes) (c t : N) : list tok :=
  [TOwner n; TBlank; TStr ttl; TBlank; TClass c cw; TBlank; TRrtype t tw; TBlank].

Lemma rev_nonempty (w : bytes) : w <> [] -> rev w <> [].
Proof. intros H E. apply H. apply (f_equal (@rev N)) in E. now rewrite rev_involutive in E. Qed.

Lemma lex_header_gen n ttl cw tw c t rd :
  word_ok n = true -> is_directive (upper_bytes n) = false ->
  word_ok cw = true -> classify false cw = (TClass c cw, false) ->
  word_ok tw = true -> classify false tw = (TRrtype t tw, true) ->
  lex_line (n ++ [9] ++ dec_bytes ttl ++ [9] ++ cw ++ [9] ++ tw ++ [9] ++ rd) =
  hdr_toks n (dec_bytes ttl) cw tw c t ++ lex_rdata rd.
Proof.
  intros Hn Hd Hcw Hc Htw Ht. unfold lex_line, l_init, hdr_toks.
  (* owner *)
  rewrite (lex_word n (mkL false false true false 0) [] false false); [|reflexivity|now apply word_ok_scan].
  cbn [l_owner l_rrtype l_brace app]. rewrite app_nil_r.
  rewrite lex_tab_owner; [|apply rev_nonempty; now apply word_ok_nonempty|now rewrite rev_involutive].
  rewrite rev_involutive. cbn [app]. f_equal. f_equal.
  (* TTL *)
  rewrite (lex_word (dec_bytes ttl) (mkL false true false false 0) [] false false);
    [|reflexivity|apply word_ok_scan, dec_word_ok].
  cbn [l_owner l_rrtype l_brace app]. rewrite app_nil_r.
  rewrite (lex_tab_word _ false false 0 _ (TStr (dec_bytes ttl)) false);
    [|apply rev_nonempty, dec_bytes_nonempty|rewrite rev_involutive; apply classify_dec|reflexivity].
  cbn [app]. f_equal. f_equal.
  (* class *)
  rewrite (lex_word cw (mkL false true false false 0) [] false false); [|reflexivity|now apply word_ok_scan].
  cbn [l_owner l_rrtype l_brace app]. rewrite app_nil_r.
  rewrite (lex_tab_word _ false false 0 _ (TClass c cw) false);
    [|apply rev_nonempty; now apply word_ok_nonempty|now rewrite rev_involutive|reflexivity].
  cbn [app]. f_equal. f_equal.
  (* type *)
  rewrite (lex_word tw (mkL false true false false 0) [] false false); [|reflexivity|now apply word_ok_scan].
  cbn [l_owner l_rrtype l_brace app]. rewrite app_nil_r.
  rewrite (lex_tab_word _ false false 0 _ (TRrtype t tw) true);
    [|apply rev_nonempty; now apply word_ok_nonempty|now rewrite rev_involutive|reflexivity].
  reflexivity.
Qed.

(* a header that can be printed and read: the owner is one word, not a
   directive, and a name toAbsoluteName accepts as it stands *)
Definition hdr_ok (h : hdr) : Prop :=
  let p := sprint_name (h_name h) in
  word_ok p = true /\ is_directive (upper_bytes p) = false /\ to_absolute_name p = Some p /\
  h_ttl h < 4294967296 /\ h_class h < 65536 /\ h_type h < 65536.

Definition hdr_norm (h : hdr) : hdr := mkH (sprint_name (h_name h)) (h_ttl h) (h_class h) (h_type h).

Lemma parse_hdr_toks n ttl cw tw c t rest : to_absolute_name n = Some n -> ttl < 4294967296 ->
  parse_hdr (hdr_toks n (dec_bytes ttl) cw tw c t ++ rest) = Ok (mkH n ttl c t, TBlank :: rest).
Proof.
  intros Hn Ht. cbv [parse_hdr hdr_toks app hdr_go]. rewrite Hn.
  cbv [hdr_go]. rewrite string_to_ttl_dec by exact Ht.
  cbv [hdr_go h_name h_ttl h_class h_type]. reflexivity.
Qed.

(* header round trip with the mnemonic spelling (RR_Header.String) *)
Theorem hdr_roundtrip h rd : hdr_ok h -> odd_type (h_type h) = false ->
  parse_hdr (lex_line (present_hdr h ++ rd)) = Ok (hdr_norm h, TBlank :: lex_rdata rd).
Proof.
  intros (Hw & Hd & Ha & Httl & Hc & Ht) Ho. unfold present_hdr. rewrite <- !app_assoc.
  rewrite (lex_header_gen _ _ _ _ (h_class h) (h_type h)); try assumption.
  - rewrite parse_hdr_toks by assumption. reflexivity.
  - apply show_class_word_ok.
  - now apply classify_show_class.
  - apply show_type_word_ok.
  - now apply classify_show_type.
Qed.

(* header round trip with the numeric spelling (rfc3597Header): every code point *)
Theorem hdr_roundtrip_numeric h rd : hdr_ok h ->
  parse_hdr (lex_line (present_hdr_3597 h ++ rd)) = Ok (hdr_norm h, TBlank :: lex_rdata rd).
Proof.
  intros (Hw & Hd & Ha & Httl & Hc & Ht). unfold present_hdr_3597. rewrite <- !app_assoc.
  assert (Wc : word_ok (b_CLASS ++ dec_bytes (h_class h)) = true).
  { apply word_ok_ordinary; [discriminate|]. rewrite ordinary_app.
    replace (forallb ordinary b_CLASS) with true by reflexivity. apply digits_ordinary, dec_bytes_digits. }
  assert (Wt : word_ok (b_TYPE ++ dec_bytes (h_type h)) = true).
  { apply word_ok_ordinary; [discriminate|]. rewrite ordinary_app.
    replace (forallb ordinary b_TYPE) with true by reflexivity. apply digits_ordinary, dec_bytes_digits. }
  pose proof (lex_header_gen (sprint_name (h_name h)) (h_ttl h) (b_CLASS ++ dec_bytes (h_class h))
                (b_TYPE ++ dec_bytes (h_type h)) (h_class h) (h_type h) rd Hw Hd Wc
                (classify_CLASSnnn (h_class h) b_CLASS Hc eq_refl) Wt (classify_TYPEnnn (h_type h) b_TYPE Ht eq_refl)) as L.
  rewrite <- !app_assoc in L. rewrite L.
  rewrite parse_hdr_toks by assumption. reflexivity.
Qed.

(* ---- the text never ends in a newline of its own: NewRR appends one ---- *)
Lemma wscan_no_lf w : forall esc sp r, wscan esc sp w = Some r -> ~ In 10 w.
Proof.
  induction w as [|x w IH]; intros esc sp r H; [intros []|].
  cbn [wscan] in H. intros [E|Hin].
  - subst x. destruct esc; cbn in H; discriminate.
  - destruct esc.
    + destruct ((x =? 13) || (x =? 10)); [discriminate|].
      destruct (word_special x || (x =? 92)); now apply (IH _ _ _ H).
    + destruct (word_special x); [discriminate|]. destruct (x =? 92); now apply (IH _ _ _ H).
Qed.

Lemma item_last i : item_ok i = true -> exists x c, render_item i = x ++ [c] /\ c <> 10.
Proof.
  destruct i as [w|q]; cbn [item_ok render_item]; intro H.
  - assert (Hne : w <> []) by now apply word_ok_nonempty.
    destruct (exists_last Hne) as (x & c & ->). exists x, c. split; [reflexivity|].
    unfold word_ok in H. destruct (wscan false true (x ++ [c])) as [r|] eqn:E; [|discriminate].
    intros ->. apply (wscan_no_lf _ _ _ _ E). apply in_or_app. right. now left.
  - exists (34 :: q), 34. split; [reflexivity|discriminate].
Qed.

Lemma items_last l : forallb item_ok l = true -> l <> [] ->
  exists x c, render_items l = x ++ [c] /\ c <> 10.
Proof.
  induction l as [|i r IH]; intros H Hne; [congruence|].
  cbn [forallb] in H. apply andb_prop in H. destruct H as [Hi Hr].
  destruct r as [|i2 r2].
  - cbn [render_items]. now apply item_last.
  - destruct (IH Hr ltac:(discriminate)) as (x & c & E & Hc).
    exists (render_item i ++ 32 :: x), c. split; [|exact Hc].
    rewrite render_items_cons by discriminate. rewrite E. now rewrite <- app_assoc.
Qed.

Lemma with_newline_snoc x c : c <> 10 -> with_newline (x ++ [c]) = x ++ [c] ++ [10].
Proof.
  intro Hc. unfold with_newline. destruct (x ++ [c]) eqn:E; [now destruct x|]. rewrite <- E.
  rewrite last_last. replace (c =? 10) with false by lia. now rewrite <- app_assoc.
Qed.

(* ---- a regular record: NewRR (rr.String()) ---- *)
Definition first_text (l : list item) : bytes :=
  match l with IWord w :: _ => w | IQuoted _ :: _ => [34] | [] => [10] end.

Lemma peek_items l : peek_text (items_toks l ++ [TNewline]) = first_text l.
Proof. destruct l as [|[w|q] [|i2 r]]; reflexivity. Qed.

Lemma first_text_nonempty l : forallb item_ok l = true -> is_nil (first_text l) = false.
Proof.
  destruct l as [|[w|q] r]; cbn [forallb item_ok first_text]; intro H; try reflexivity.
  apply andb_prop in H. destruct H as [H _]. apply word_ok_nonempty in H. now destruct w.
Qed.

Theorem record_roundtrip h G vs :
  hdr_ok h -> odd_type (h_type h) = false -> is_registered (h_type h) = true ->
  playout (h_type h) = Some G -> wf_playout G = true -> Forall2 wf_val G vs ->
  first_text (all_items G vs) <> b_generic ->
  parse_rr (present_rr h G vs) = Ok (hdr_norm h, R_fields (norm_all G vs)).
Proof.
  intros Hh Ho Hreg Hp Hg Hv Hgen.
  pose proof (all_items_ok G vs Hv) as Hok.
  unfold parse_rr, present_rr. rewrite present_fields_items by assumption.
  (* NewRR appends the newline *)
  assert (Hnl : with_newline (present_hdr h ++ render_items (all_items G vs)) =
                present_hdr h ++ render_items (all_items G vs) ++ [10]).
  { destruct (all_items G vs) as [|i0 its] eqn:Ea.
    - cbn [render_items]. rewrite app_nil_r. unfold present_hdr. rewrite !app_assoc.
      rewrite with_newline_snoc by discriminate. now rewrite <- !app_assoc.
    - destruct (items_last (i0 :: its) Hok ltac:(discriminate)) as (x & c & E & Hc). rewrite E.
      rewrite app_assoc, with_newline_snoc by exact Hc. now rewrite <- !app_assoc. }
  rewrite Hnl. rewrite hdr_roundtrip by assumption. cbn [bind].
  rewrite lexer_on_printed by exact Hok.
  cbn [is_err orb]. rewrite peek_items.
  destruct (items_toks (all_items G vs) ++ [TNewline]) as [|t0 ts0] eqn:Et.
  { destruct (items_toks (all_items G vs)); discriminate. }
  assert (He0 : is_err t0 = false).
  { destruct (all_items G vs) as [|[w|q] [|i2 r]]; cbn in Et; injection Et as <- _; reflexivity. }
  rewrite He0. cbn [orb].
  rewrite first_text_nonempty by exact Hok.
  replace (bytes_eqb (first_text (all_items G vs)) b_generic) with false.
  2:{ symmetry. apply not_true_iff_false. intro E. apply bytes_eqb_eq in E. contradiction. }
  cbn [hdr_norm h_type]. rewrite Hreg, Hp. cbn [negb].
  rewrite <- Et. rewrite <- lexer_on_printed by exact Hok.
  rewrite <- present_fields_items by assumption.
  rewrite present_roundtrip by assumption. reflexivity.
Qed.

(* ---- RFC 3597 generic form: every type code, every RDATA ---- *)
Lemma generic_word_ok : word_ok b_generic = true.
Proof. reflexivity. Qed.

Lemma hex_word_ok w : wfb w -> w <> [] -> word_ok (hex_bytes w) = true.
Proof.
  intros Hw Hne. apply word_ok_ordinary; [|now apply hex_bytes_ordinary].
  intro E. apply (f_equal (@length N)) in E. rewrite hex_bytes_length in E. destruct w; [congruence|cbn in E; lia].
Qed.

Lemma parse_3597_toks n hx : n < 65536 -> (N.to_nat n * 2)%nat = length hx ->
  parse_3597 (TStr b_generic :: TBlank :: TStr (dec_bytes n) :: TBlank ::
              (if is_nil hx then [] else [TStr hx]) ++ [TNewline]) = Ok hx.
Proof.
  intros Hn Hl. unfold parse_3597. cbn [tok_text bytes_eqb list_eqb negb tl is_err].
  replace (bytes_eqb b_generic b_generic) with true by reflexivity. cbn [negb].
  rewrite parse_uint_dec by (cbn; lia).
  destruct hx as [|x hx'].
  - cbn [is_nil app ending_to_string ets_go bind length]. cbn in Hl.
    replace (N.to_nat n * 2 =? 0)%nat with true by (symmetry; apply Nat.eqb_eq; lia). reflexivity.
  - cbn [is_nil app ending_to_string ets_go bind]. rewrite Hl, Nat.eqb_refl. reflexivity.
Qed.

Theorem generic_roundtrip h w :
  hdr_ok h -> wfb w -> lenN w < 65536 ->
  parse_rr (present_rr_3597 h w) = Ok (hdr_norm h, R_generic (hex_bytes w)) /\
  unhex (string_of_bytes (hex_bytes w)) = w.
Proof.
  intros Hh Hw Hlen. split.
  2:{ unfold hex_bytes. rewrite string_of_bytes_of_string. now apply unhex_hex. }
  unfold parse_rr, present_rr_3597, present_3597.
  destruct w as [|b w'].
  - (* no RDATA: the text ends with the blank after the length *)
    replace (hex_bytes []) with (@nil N) by reflexivity. rewrite app_nil_r.
    assert (Hnl : with_newline (present_hdr_3597 h ++ b_generic ++ [32] ++ dec_bytes (lenN (@nil N)) ++ [32]) =
                  present_hdr_3597 h ++ b_generic ++ [32] ++ dec_bytes (lenN (@nil N)) ++ [32] ++ [10]).
    { rewrite !app_assoc. rewrite with_newline_snoc by discriminate. now rewrite <- !app_assoc. }
    rewrite Hnl. rewrite hdr_roundtrip_numeric by exact Hh. cbn [bind].
    replace (lex_rdata (b_generic ++ [32] ++ dec_bytes (lenN (@nil N)) ++ [32] ++ [10]))
      with [TStr b_generic; TBlank; TStr (dec_bytes 0); TBlank; TNewline] by (vm_compute; reflexivity).
    cbn [is_err orb peek_text tok_text is_nil]. replace (is_nil b_generic) with false by reflexivity.
    replace (bytes_eqb b_generic b_generic) with true by reflexivity.
    pose proof (parse_3597_toks 0 [] ltac:(lia) eq_refl) as P. cbn [is_nil app] in P. rewrite P. reflexivity.
  - set (ws := b :: w') in *.
    assert (Hitems : b_generic ++ [32] ++ dec_bytes (lenN ws) ++ [32] ++ hex_bytes ws =
                     render_items [IWord b_generic; IWord (dec_bytes (lenN ws)); IWord (hex_bytes ws)]).
    { cbn [render_items render_item app]. reflexivity. }
    assert (Hok : forallb item_ok [IWord b_generic; IWord (dec_bytes (lenN ws)); IWord (hex_bytes ws)] = true).
    { cbn [forallb item_ok]. rewrite generic_word_ok, dec_word_ok, hex_word_ok; [reflexivity|exact Hw|discriminate]. }
    rewrite Hitems.
    destruct (items_last _ Hok ltac:(discriminate)) as (x & c & E & Hc).
    assert (Hnl : with_newline (present_hdr_3597 h ++ render_items [IWord b_generic; IWord (dec_bytes (lenN ws)); IWord (hex_bytes ws)]) =
                  present_hdr_3597 h ++ render_items [IWord b_generic; IWord (dec_bytes (lenN ws)); IWord (hex_bytes ws)] ++ [10]).
    { rewrite E, app_assoc, with_newline_snoc by exact Hc. now rewrite <- !app_assoc. }
    rewrite Hnl. rewrite hdr_roundtrip_numeric by exact Hh. cbn [bind].
    rewrite lexer_on_printed by exact Hok.
    cbn [items_toks item_toks app is_err orb peek_text tok_text].
    replace (is_nil b_generic) with false by reflexivity.
    replace (bytes_eqb b_generic b_generic) with true by reflexivity.
    pose proof (parse_3597_toks (lenN ws) (hex_bytes ws) Hlen) as P.
    rewrite hex_bytes_length in P. specialize (P ltac:(unfold lenN; lia)).
    assert (Hnn : is_nil (hex_bytes ws) = false).
    { destruct (hex_bytes ws) eqn:Eh; [|reflexivity].
      apply (f_equal (@length N)) in Eh. rewrite hex_bytes_length in Eh. cbn in Eh. lia. }
    rewrite Hnn in P. cbn [app] in P. rewrite P. reflexivity.
Qed.

(* non-vacuity: an MX record with an owner that needs escaping, and a generic record *)
Example record_example :
  let h := mkH (bytes_of_string "a\ b.example.") 4294967295 255 15 in
  let vs := [V_int 65535; V_name (bytes_of_string "mail\.x.example.")] in
  hdr_ok h /\ playout 15 = Some [P_uint 16; P_name] /\ Forall2 wf_val [P_uint 16; P_name] vs /\
  parse_rr (present_rr h [P_uint 16; P_name] vs) = Ok (hdr_norm h, R_fields vs) /\
  parse_rr (present_rr_3597 (mkH (bytes_of_string "x.") 0 65535 65535) [0; 255; 92]) =
    Ok (mkH (bytes_of_string "x.") 0 65535 65535, R_generic (bytes_of_string "00ff5c")).
Proof.
  cbv zeta. split; [|split; [|split; [|split]]].
  - unfold hdr_ok. cbn [h_name h_ttl h_class h_type]. repeat split; try (vm_compute; reflexivity); lia.
  - reflexivity.
  - repeat constructor; cbn [wf_val]; try lia; split; vm_compute; reflexivity.
  - vm_compute. reflexivity.
  - vm_compute. reflexivity.
Qed.

(* ---- every layout of the table is a well-formed layout ---- *)
Theorem layouts_wf t G : playout t = Some G -> wf_playout G = true.
Proof.
  unfold playout.
  repeat match goal with
         | |- (if ?c then _ else _) = Some _ -> _ => destruct c
         end;
    intro H; try discriminate; injection H as <-; reflexivity.
Qed.

(* every covered type is a registered type *)
Theorem layouts_registered :
  forallb (fun t => match playout t with Some _ => true | None => true end) registered_types = true /\
  forall t G, playout t = Some G -> is_registered t = true.
Proof.
  split; [reflexivity|]. intros t G. unfold playout.
  repeat match goal with
         | |- (if ?c then _ else _) = Some _ -> _ => destruct c eqn:?
         end;
    intro H; try discriminate; clear H;
    repeat match goal with
           | H : existsb _ _ = true |- _ => apply existsb_exists in H; destruct H as (x & Hin & Hx); apply N.eqb_eq in Hx; subst x
           | H : (_ || _) = true |- _ => apply orb_prop in H; destruct H as [H|H]
           | H : (_ =? _) = true |- _ => apply N.eqb_eq in H; subst
           end;
    try reflexivity;
    repeat (destruct Hin as [<-|Hin]; [reflexivity|]); try contradiction.
Qed.

(* ---- values that came from the wire are already in the printer's normal form ---- *)
Theorem norm_from_wire :
  (forall ls, Forall wfb ls -> norm_val P_name (V_name (show_name ls)) = V_name (show_name ls)) /\
  (forall ws, Forall wfb ws -> norm_val P_qstrs (V_strs (map esc_wire ws)) = V_strs (map esc_wire ws)) /\
  (forall lss, Forall (Forall wfb) lss -> norm_val P_names (V_strs (map show_name lss)) = V_strs (map show_name lss)).
Proof.
  split; [|split].
  - intros ls H. cbn [norm_val]. now rewrite sprint_name_canonical.
  - intros ws H. cbn [norm_val]. f_equal. rewrite map_map. apply map_ext_in. intros w Hw.
    rewrite Forall_forall in H. apply sprint_txt_body_canonical, (H w Hw).
  - intros lss H. cbn [norm_val]. f_equal. rewrite map_map. apply map_ext_in. intros ls Hl.
    rewrite Forall_forall in H. apply sprint_name_canonical, (H ls Hl).
Qed.

(* ---- the irregular printers and parsers ---- *)
Theorem time_roundtrip now t : (0 <= now)%Z -> t < 4294967296 ->
  string_to_time (time_to_string now t) = Some t.
Proof.
  intros Hn Ht. rewrite time_to_string_now by assumption. rewrite string_to_time_format by lia.
  now rewrite N2Z.id.
Qed.

(* with a clock before 1970 the serial-number correction of TimeToString is not undone by StringToTime *)
Theorem time_before_1970_refuted : string_to_time (time_to_string (-4294967296) 0) = Some 2147483648.
Proof. vm_compute. reflexivity. Qed.

Theorem mnemonic_roundtrip m n bits r : n < 2 ^ bits ->
  read_single (P_mnem m bits) (TStr (show_mnem m n) :: r) = Ok (V_int n, r).
Proof.
  intro H. destruct (single_ok (P_mnem m bits) (V_int n) eq_refl H) as (_ & Er). exact (Er r).
Qed.

(* B05b.  IPSECKEY with gateway type 2 whose address is ::ffff:192.0.2.38: net.IP.String prints the dotted
   quad, parseAddrHostUnion refuses it for type 2 (known finding v6-mapped) *)
Definition G_ipseckey : list pfield := [P_uint 8; P_ipsecgw; P_b64].
Theorem ipseckey_v4mapped_refuted :
  present_fields G_ipseckey [V_int 10; V_gw 2 2 (v4mapped [192; 0; 2; 38]) []; V_word [65; 65; 65; 65]]
    = bytes_of_string "10 2 2 192.0.2.38 AAAA" /\
  parse_fields G_ipseckey
    (lex_rdata (present_fields G_ipseckey [V_int 10; V_gw 2 2 (v4mapped [192; 0; 2; 38]) []; V_word [65; 65; 65; 65]] ++ [10]))
    = Err "gateway".
Proof. split; vm_compute; reflexivity. Qed.
(* the same text under gateway type 1 is read as the IPv4-mapped address *)
Theorem ipseckey_v4_reread :
  parse_fields G_ipseckey (lex_rdata (bytes_of_string "10 1 2 192.0.2.38 AAAA" ++ [10]))
    = Ok [V_int 10; V_gw 1 2 (v4mapped [192; 0; 2; 38]) []; V_word [65; 65; 65; 65]].
Proof. vm_compute. reflexivity. Qed.
(* HIP with an empty HIT: nothing is printed for it, the key is read as the HIT and the
   first rendezvous server as the key (known finding Hit/empty) *)
Definition G_hip : list pfield := [P_uint 8; P_hit; P_pk; P_names].
Theorem hip_empty_hit_refuted :
  parse_fields G_hip
    (lex_rdata (present_fields G_hip [V_int 2; V_sized 0 []; V_sized 3 [65; 119; 69; 65]; V_strs [[97; 46]]] ++ [10]))
    = Err "pk".
Proof. vm_compute. reflexivity. Qed.

(* X25 with an empty address prints nothing; the newline token is read as the address *)
Theorem x25_empty_refuted :
  parse_fields [P_word false] (lex_rdata (present_fields [P_word false] [V_word []] ++ [10])) = Ok [V_word [10]].
Proof. vm_compute. reflexivity. Qed.

(* CAA with an empty tag: the opening quote of the value stands where the tag is expected *)
Theorem caa_empty_tag_refuted :
  parse_fields [P_uint 8; P_word true; P_octet]
    (lex_rdata (present_fields [P_uint 8; P_word true; P_octet] [V_int 0; V_word []; V_octet [120]] ++ [10])) = Err "word".
Proof. vm_compute. reflexivity. Qed.

(* NSEC3: whatever HashLength the record had, the parser sets 20 *)
Theorem nsec3_hash_length_refuted n w r : word_ok w = true ->
  read_single P_b32 (TStr w :: r) = Ok (V_sized 20 w, r) /\
  (n <> 20 -> V_sized 20 w <> V_sized n w).
Proof.
  intro H. split.
  - apply word_ok_nonempty in H. destruct w; [congruence|reflexivity].
  - intros Hn E. injection E as E. congruence.
Qed.

(* non-vacuity: an RRSIG and a NAPTR row with well-formed values *)
Example irregular_example :
  let sig := [V_int 1; V_int 8; V_int 2; V_int 3600; V_time 1790000000%Z 4294967295; V_time 1790000000%Z 0;
              V_int 65535; V_name (bytes_of_string "example."); V_word (bytes_of_string "AAAA")] in
  let naptr := [V_int 100; V_int 10; V_word (bytes_of_string "u"); V_word []; V_word (bytes_of_string "!^.*$!a\""b!");
                V_name (bytes_of_string ".")] in
  let G1 := [P_type; P_algnum; P_uint 8; P_uint 32; P_time; P_time; P_uint 16; P_name; P_b64] in
  let G2 := [P_uint 16; P_uint 16; P_qstr; P_qstr; P_qstr; P_rawname] in
  playout 46 = Some G1 /\ playout 35 = Some G2 /\ Forall2 wf_val G1 sig /\ Forall2 wf_val G2 naptr /\
  parse_fields G2 (lex_rdata (present_fields G2 naptr ++ [10])) = Ok naptr.
Proof.
  cbv zeta. split; [reflexivity|]. split; [reflexivity|]. split; [|split].
  - constructor; [cbn [wf_val]; lia|]. constructor; [cbn [wf_val]; lia|]. constructor; [cbn [wf_val]; lia|].
    constructor; [cbn [wf_val]; lia|]. constructor; [cbn [wf_val]; lia|]. constructor; [cbn [wf_val]; lia|].
    constructor; [cbn [wf_val]; lia|]. constructor; [cbn [wf_val]; split; vm_compute; reflexivity|].
    constructor; [cbn [wf_val]; vm_compute; reflexivity|]. constructor.
  - constructor; [cbn [wf_val]; lia|]. constructor; [cbn [wf_val]; lia|].
    constructor; [cbn [wf_val]; vm_compute; reflexivity|]. constructor; [cbn [wf_val]; vm_compute; reflexivity|].
    constructor; [cbn [wf_val]; vm_compute; reflexivity|].
    constructor; [cbn [wf_val]; split; vm_compute; reflexivity|]. constructor.
  - vm_compute. reflexivity.
Qed.
