package main

// C17, concurrent use.  Key tags, DS digests, NSEC3 hashes, Match / Cover and
// the validity test are functions of their arguments alone ("for every key,
// digest type, owner name, salt and iteration count"), so the value of a call
// cannot depend on what other goroutines compute at the same time - a server
// answers many negative responses at once and a validator checks many
// signatures at once.  Every job below is a fixed call with a value derived
// from the RFC definition (or, for the key text, the value the same call gives
// when it runs alone); the jobs are first run one after the other, then from
// many goroutines that start together behind a barrier, with inputs of
// different cost (0..2500 hash iterations, names of 1..255 octets, keys of
// 0..600 octets) so that calls start and end inside each other, then once more
// alone.  The oracle does not depend on scheduling: whatever the interleaving,
// every single result has to be the sequential one.

import (
	"bytes"
	"crypto"
	"encoding/hex"
	"fmt"
	"runtime"
	"sort"
	"strings"
	"sync"
	"time"

	"github.com/miekg/dns"
	. "verif/harness/common"
)

type cjob struct {
	fn   string        // function under test (part of the finding key)
	in   any           // replayable description of the call
	call func() string // the call on the library, rendered canonically
	want string        // value by the RFC definition ("" = only the sequential value is known)
	src  string        // where want comes from
	seq  string        // the value of the call when it ran alone, before any goroutine started
	skip bool          // the sequential value already differs from the definition (reported by the ordinary streams)
}

type cIn struct {
	Function   string `json:"function"`
	Call       any    `json:"call"`
	Expected   string `json:"expected"`
	Source     string `json:"expected_from"`
	Got        string `json:"got"`
	Wrong      int    `json:"wrong_results"`
	Calls      int    `json:"calls"`
	Goroutines int    `json:"goroutines"`
	Phase      string `json:"phase"`
}

func safeCall(f func() string) (s string) {
	defer func() {
		if e := recover(); e != nil {
			s = "panic"
		}
	}()
	return f()
}

type cKeyIn struct {
	Owner  string `json:"owner"`
	Flags  uint16 `json:"flags"`
	Proto  uint8  `json:"protocol"`
	Alg    uint8  `json:"algorithm"`
	Pub    string `json:"public_key_hex"`
	Digest uint8  `json:"digest_type,omitempty"`
}

func concJobs(r *Rng, thorough bool) []*cjob {
	var jobs []*cjob
	add := func(j *cjob) { jobs = append(jobs, j) }

	// ---- HashName: names of every size, salts of 0..255 octets, iteration counts of very different cost
	iters := []uint16{0, 1, 2, 3, 5, 10, 12, 25, 50, 100, 150, 300, 500, 1000, 2500, 0, 1, 150}
	hsalts := []string{"", "aabb", "AABBCCDD", "00", "ffeeddccbbaa99887766554433221100", hex.EncodeToString(r.Bytes(255)), hex.EncodeToString(r.Bytes(64))}
	nh := 40
	for i := 0; i < nh; i++ {
		var ls [][]byte
		switch {
		case i == 0:
			ls = nil // the root
		case i%11 == 3:
			ls = nameOfWireLen(r, 255, 63)
		case i%7 == 2:
			ls = [][]byte{[]byte(fmt.Sprintf("w%d", i)), []byte("example")}
		default:
			ls = randName(r, 5, 9)
		}
		if !validWire(ls) {
			ls = [][]byte{[]byte(fmt.Sprintf("n%d", i)), []byte("Example"), []byte("ORG")}
		}
		name, it, salt := refShowName(ls), iters[i%len(iters)], hsalts[r.Intn(len(hsalts))]
		if i%7 == 2 {
			salt, it = "AABBCCDD", 150
		}
		sb, _ := saltBytes(salt)
		add(&cjob{fn: "HashName", in: hashIn{Labels: labelsIn(ls), Name: name, Alg: 1, Iter: it, Salt: salt},
			call: func() string { return dns.HashName(name, 1, it, salt) },
			want: b32.EncodeToString(refNsec3Hash(ls, sb, int(it))), src: "RFC 5155 section 5 (crypto/sha1, encoding/base32)"})
	}

	// ---- Match / Cover: the record of each job is its own value; matching, covering, not covering, outside the zone
	for i := 0; i < 24; i++ {
		zone := randName(r, 2, 6)
		if len(zone) == 0 {
			zone = [][]byte{[]byte("example")}
		}
		name := append(randName(r, 2, 6), flipCase(r, zone)...)
		if i%6 == 5 { // a sibling of the zone
			name = append([][]byte{[]byte("a")}, append([][]byte{append([]byte("x"), zone[0]...)}, zone[1:]...)...)
		}
		if !validWire(name) || !validWire(append([][]byte{bytes.Repeat([]byte("A"), 32)}, zone...)) {
			continue
		}
		it := []uint16{0, 1, 5, 12, 100, 400}[i%6]
		salt := hsalts[i%5]
		sb, _ := saltBytes(salt)
		xh := refNsec3Hash(name, sb, int(it))
		var oh, nhh []byte
		switch i % 4 {
		case 0:
			oh, nhh = xh, addHash(xh, 1+r.Intn(1000)) // matches
		case 1:
			oh, nhh = addHash(xh, -1-r.Intn(1000)), addHash(xh, 1+r.Intn(1000)) // covers
		case 2:
			oh, nhh = addHash(xh, 1+r.Intn(1000)), addHash(xh, -1-r.Intn(1000)) // wrapping interval that covers
		default:
			oh, nhh = addHash(xh, 1), addHash(xh, 2+r.Intn(1000)) // just above: not covered
		}
		ownerLs := append([][]byte{[]byte(b32.EncodeToString(oh))}, zone...)
		owner, nm, next := refShowName(ownerLs), refShowName(name), b32.EncodeToString(nhh)
		rr := &dns.NSEC3{Hdr: dns.RR_Header{Name: owner, Rrtype: dns.TypeNSEC3, Class: dns.ClassINET, Ttl: 300},
			Hash: 1, Iterations: it, SaltLength: uint8(len(salt) / 2), Salt: salt, HashLength: 20, NextDomain: next, TypeBitMap: []uint16{dns.TypeA}}
		inz := inZoneRef(zone, name)
		want := Btoa(inz && bytes.Equal(xh, oh)) + "," + Btoa(inz && refCovers(oh, xh, nhh))
		add(&cjob{fn: "MatchCover", in: n3In{Owner: owner, OwnerLbls: labelsIn(ownerLs), Alg: 1, Iter: it, Salt: salt, Next: next, Name: nm,
			NameLbls: labelsIn(name), NameHash: b32.EncodeToString(xh)},
			call: func() string { return Btoa(rr.Match(nm)) + "," + Btoa(rr.Cover(nm)) },
			want: want, src: "hash of the name by RFC 5155 section 5 compared with owner and next hash as 160-bit numbers"})
	}

	// ---- KeyTag and ToDS
	for i := 0; i < 24; i++ {
		n := []int{0, 1, 2, 5, 32, 33, 64, 65, 132, 260, 600, 4000}[i%12]
		pub := r.Bytes(n)
		flags, proto, alg := uint16(r.Next()), uint8(r.Next()), algs[r.Intn(len(algs))]
		ownerLs := randName(r, 4, 8)
		owner := refShowName(ownerLs)
		k := mkKey(owner, flags, proto, alg, pub)
		rd := dnskeyRdata(flags, proto, alg, pub)
		in := cKeyIn{Owner: owner, Flags: flags, Proto: proto, Alg: alg, Pub: Hx(pub)}
		add(&cjob{fn: "KeyTag", in: in, call: func() string { return Itoa(int(k.KeyTag())) },
			want: Itoa(int(refKeyTag(rd))), src: "RFC 4034 Appendix B"})
		dt := []uint8{1, 2, 4, 5}[i%4]
		in2 := in
		in2.Digest = dt
		pre := append(wireOf(lowerLabels(ownerLs)), rd...)
		add(&cjob{fn: "ToDS", in: in2, call: func() string {
			ds := k.ToDS(dt)
			if ds == nil {
				return "nil"
			}
			return fmt.Sprintf("%d,%d,%d,%s", ds.KeyTag, ds.Algorithm, ds.DigestType, strings.ToLower(ds.Digest))
		}, want: fmt.Sprintf("%d,%d,%d,%x", refKeyTag(rd), alg, dt, refDigest(dt, pre)), src: "RFC 4034 5.1.4 / RFC 4509 / RFC 6605 (crypto/sha*)"})
	}

	// ---- ValidityPeriod
	for i := 0; i < 12; i++ {
		inc := uint32(1600000000 + r.Intn(1<<27))
		exp := inc + uint32(r.Intn(1<<22))
		t := int64(inc) + int64(r.Intn(1<<22)) - int64(r.Intn(4))*1000
		switch i % 4 {
		case 1:
			t = int64(inc)
		case 2:
			t = int64(exp) + 1
		}
		rr := &dns.RRSIG{Inception: inc, Expiration: exp}
		add(&cjob{fn: "ValidityPeriod", in: valIn{inc, exp, t}, call: func() string { return Btoa(rr.ValidityPeriod(time.Unix(t, 0))) },
			want: Btoa(int64(inc) <= t && t <= int64(exp)), src: "inception <= t <= expiration"})
	}

	// ---- signatures of generated keys checked by many goroutines with one DNSKEY / RRSIG value,
	// key text written and re-read
	for _, alg := range []uint8{15, 13} {
		k := &dns.DNSKEY{Hdr: dns.RR_Header{Name: "example.org.", Rrtype: dns.TypeDNSKEY, Class: dns.ClassINET, Ttl: 3600}, Flags: 257, Protocol: 3, Algorithm: alg}
		bits := 256
		priv, err := k.Generate(bits)
		if err != nil {
			continue // reported by genCase
		}
		other := &dns.DNSKEY{Hdr: k.Hdr, Flags: 257, Protocol: 3, Algorithm: alg}
		if _, err := other.Generate(bits); err != nil {
			continue
		}
		sig := &dns.RRSIG{Hdr: dns.RR_Header{Ttl: 300}, Algorithm: alg, Expiration: 1700003600, Inception: 1700000000, KeyTag: k.KeyTag(), SignerName: "example.org."}
		signer, ok := priv.(crypto.Signer)
		if !ok || sig.Sign(signer, testRRset()) != nil {
			continue // reported by genCase
		}
		in := genIn{Alg: alg, Bits: bits, Pub: k.PublicKey}
		in.What = "RRSIG.Verify with the key that signed"
		add(&cjob{fn: "Verify", in: in, call: func() string {
			if err := sig.Verify(k, testRRset()); err != nil {
				return "err"
			}
			return "ok"
		}, want: "ok", src: "the signature was made with this key"})
		in2 := in
		in2.What = "RRSIG.Verify with another key of the same algorithm"
		add(&cjob{fn: "Verify", in: in2, call: func() string {
			if err := sig.Verify(other, testRRset()); err != nil {
				return "err"
			}
			return "ok"
		}, want: "err", src: "the signature was made with another key"})
		in3 := in
		in3.What = "PrivateKeyString, NewPrivateKey, PrivateKeyString"
		add(&cjob{fn: "PrivateKeyText", in: in3, call: func() string {
			text := k.PrivateKeyString(priv)
			p2, err := k.NewPrivateKey(text)
			if err != nil || p2 == nil {
				return "err"
			}
			if k.PrivateKeyString(p2) != text {
				return "differs"
			}
			return "same:" + Itoa(len(text))
		}})
	}
	return jobs
}

func runConcurrent(r *Rng, tier string) {
	thorough := tier == "thorough"
	if runtime.GOMAXPROCS(0) < 4 {
		runtime.GOMAXPROCS(4) // goroutines are preempted in any case; with several threads they also run at once
	}
	jobs := concJobs(r, thorough)

	// 1. alone, one after the other
	for _, j := range jobs {
		j.seq = safeCall(j.call)
		st["conc_sequential_checked"]++
		if j.want == "" {
			j.want, j.src = j.seq, "the same call run alone"
		} else if j.seq != j.want {
			j.skip = true // a defect of the sequential function: the ordinary streams report it
			st["conc_job_skipped_sequential_value_differs"]++
		}
	}
	byFn := map[string][]*cjob{}
	var fns []string
	for _, j := range jobs {
		if j.skip {
			continue
		}
		if _, ok := byFn[j.fn]; !ok {
			fns = append(fns, j.fn)
		}
		byFn[j.fn] = append(byFn[j.fn], j)
	}
	sort.Strings(fns)

	type tally struct {
		calls, wrong int
		got          string
	}
	// run: G goroutines behind one barrier; goroutine g executes plan(g), a list of (job, repetitions)
	type step struct {
		j *cjob
		n int
	}
	run := func(phase string, G int, plan func(g int) []step) {
		res := make([]map[*cjob]*tally, G)
		var ready, done sync.WaitGroup
		start := make(chan struct{})
		ready.Add(G)
		done.Add(G)
		for g := 0; g < G; g++ {
			g := g
			res[g] = map[*cjob]*tally{}
			steps := plan(g)
			go func() {
				defer done.Done()
				ready.Done()
				<-start
				for _, s := range steps {
					t := res[g][s.j]
					if t == nil {
						t = &tally{}
						res[g][s.j] = t
					}
					for i := 0; i < s.n; i++ {
						got := safeCall(s.j.call)
						t.calls++
						if got != s.j.want {
							if t.wrong == 0 {
								t.got = got
							}
							t.wrong++
						}
					}
				}
			}()
		}
		ready.Wait()
		close(start)
		done.Wait()
		// merge and report: one finding per function and phase, with the first wrong job as input
		type agg struct {
			calls, wrong int
			first        *cjob
			got          string
			jw, jc       int
		}
		per := map[string]*agg{}
		for _, j := range jobs {
			var calls, wrong int
			got := ""
			for g := 0; g < G; g++ {
				if t := res[g][j]; t != nil {
					calls += t.calls
					wrong += t.wrong
					if got == "" {
						got = t.got
					}
				}
			}
			if calls == 0 {
				continue
			}
			a := per[j.fn]
			if a == nil {
				a = &agg{}
				per[j.fn] = a
			}
			a.calls += calls
			a.wrong += wrong
			if wrong > 0 && a.first == nil {
				a.first, a.got, a.jw, a.jc = j, got, wrong, calls
			}
		}
		for _, fn := range fns {
			a := per[fn]
			if a == nil {
				continue
			}
			st["conc_"+fn+"_checked"] += a.calls
			st["conc_calls_"+phase] += a.calls
			if a.wrong > 0 {
				Viol("C17/concurrent/"+fn, fmt.Sprintf("%d of %d calls made while other goroutines were calling functions of this property returned a value that is not the one defined for the arguments (phase %s, %d goroutines; for the call shown: %d of %d, e.g. %s instead of %s)",
					a.wrong, a.calls, phase, G, a.jw, a.jc, a.got, a.first.want),
					cIn{Function: fn, Call: a.first.in, Expected: a.first.want, Source: a.first.src, Got: a.got, Wrong: a.jw, Calls: a.jc, Goroutines: G, Phase: phase})
			}
		}
	}

	G := 16
	mult := 1
	if thorough {
		mult = 8
	}
	// repetitions so that every goroutine works for a comparable time whatever its job costs
	reps := func(j *cjob, budget int) int {
		cost := 1
		switch in := j.in.(type) {
		case hashIn:
			cost = 1 + int(in.Iter)/4
		case n3In:
			cost = 2 + int(in.Iter)/2
		case genIn:
			cost = 60
		case cKeyIn:
			cost = 2 + len(in.Pub)/400
		}
		n := budget / cost
		if n < 3 {
			n = 3
		}
		return n
	}

	// 2. one function at a time, every goroutine its own argument (and, second half, all goroutines the same argument)
	for _, fn := range fns {
		js := byFn[fn]
		budget := 6000 * mult
		run("same-function", G, func(g int) []step {
			a, b := js[g%len(js)], js[(g*7+3)%len(js)]
			return []step{{a, reps(a, budget)}, {b, reps(b, budget)}}
		})
		run("same-call", G, func(g int) []step {
			a := js[len(js)/2]
			return []step{{a, reps(a, budget/2)}}
		})
	}
	// 3. everything at once: every goroutine walks the whole table in its own order
	all := []*cjob{}
	for _, fn := range fns {
		all = append(all, byFn[fn]...)
	}
	strides := []int{1, 3, 5, 7, 9, 11, 13, 15, 17, 19, 21, 23, 25, 27, 29, 31, 33, 35, 37, 39, 41, 43, 45, 47}
	coprime := func(a, b int) bool {
		for b != 0 {
			a, b = b, a%b
		}
		return a == 1
	}
	run("mixed", G+8, func(g int) []step {
		s := 1
		for _, c := range strides[g%len(strides):] {
			if coprime(c, len(all)) {
				s = c
				break
			}
		}
		var p []step
		for round := 0; round < 2*mult; round++ {
			for i := 0; i < len(all); i++ {
				j := all[(g*5+i*s)%len(all)]
				p = append(p, step{j, reps(j, 60)})
			}
		}
		return p
	})

	// 4. alone again: nothing that ran before may have left a trace
	for _, j := range jobs {
		if j.skip {
			continue
		}
		st["conc_sequential_checked"]++
		if got := safeCall(j.call); got != j.want {
			Viol("C17/after-concurrent-use/"+j.fn, fmt.Sprintf("after the concurrent phases the call, made alone, returns %s instead of %s", got, j.want),
				cIn{Function: j.fn, Call: j.in, Expected: j.want, Source: j.src, Got: got, Wrong: 1, Calls: 1, Goroutines: 1, Phase: "afterwards"})
		}
	}
	// the hash jobs are ordinary model cases as well
	for _, j := range byFn["HashName"] {
		if in := j.in.(hashIn); in.Iter <= 160 && len(in.Salt) <= 64 {
			ls := make([][]byte, len(in.Labels))
			for i, l := range in.Labels {
				ls[i] = Unhx(l)
			}
			Emit("hash_name", []string{labelsArg(ls), "1", Itoa(int(in.Iter)), in.Salt}, Hs(j.seq))
		}
	}
}
