(* Props/C19.v — property C19 (label helpers agree with the wire-format label
   sequence).  Only statements; each is closed by [exact] of a lemma proved in
   Proofs/. *)
From Dns Require Import Model.Labels Proofs.LabelsProofs.

(* IsFqdn: exactly the strings ending in a dot that is preceded by an even
   number (possibly zero) of backslashes. *)
Theorem fqdn_iff_unescaped_trailing_dot :
  forall s : bytes,
    is_fqdn s = true <->
    exists p k, s = p ++ repeat 92%N k ++ [46%N] /\ Nat.even k = true /\
                (forall q, p <> q ++ [92%N]).
Proof. exact is_fqdn_spec. Qed.
