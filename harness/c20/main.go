// C20: record equality is a TTL/case-insensitive equivalence; Dedup keeps one each.
package main

import (
	"bytes"
	"reflect"
	"strings"

	"github.com/miekg/dns"
	. "verif/harness/common"
)

func main() { Main(run) }

var st = map[string]int{}

func isDup(a, b dns.RR) string {
	return Protect(func() string { return "ok:" + Btoa(dns.IsDuplicate(a, b)) })
}

func flipNameCase(r *Rng, s string) string {
	b := []byte(s)
	for i := range b {
		if (b[i] >= 'a' && b[i] <= 'z' || b[i] >= 'A' && b[i] <= 'Z') && (i == 0 || b[i-1] != '\\') && r.Bool() {
			b[i] ^= 0x20
		}
	}
	return string(b)
}

// canonWire: type, class, lower-cased owner and RDATA with embedded names lower-cased, uncompressed
func canonWire(rr dns.RR) ([]byte, bool) {
	c := dns.Copy(rr)
	c.Header().Name = strings.ToLower(c.Header().Name)
	c.Header().Ttl = 0
	ForEachNameField(c, func(get func() string, set func(string)) { set(strings.ToLower(get())) })
	switch x := c.(type) {
	case *dns.HIP:
		for i := range x.RendezvousServers {
			x.RendezvousServers[i] = strings.ToLower(x.RendezvousServers[i])
		}
	case *dns.IPSECKEY:
		x.GatewayHost = strings.ToLower(x.GatewayHost)
	case *dns.AMTRELAY:
		x.GatewayHost = strings.ToLower(x.GatewayHost)
	}
	buf := make([]byte, dns.Len(c)+10)
	off, err := dns.PackRR(c, buf, 0, nil, false)
	if err != nil {
		return nil, false
	}
	return buf[:off], true
}

// mutateOneField changes one RDATA field so that the record denotes different data
func mutateOneField(r *Rng, rr dns.RR) bool {
	v := Flatten(reflect.ValueOf(rr).Elem())
	t := v.Type()
	var idx []int
	for i := 0; i < t.NumField(); i++ {
		if t.Field(i).Name != "Hdr" {
			idx = append(idx, i)
		}
	}
	if len(idx) == 0 {
		return false
	}
	i := idx[r.Intn(len(idx))]
	f := v.Field(i)
	tag := t.Field(i).Tag.Get("dns")
	switch f.Kind() {
	case reflect.Uint8, reflect.Uint16, reflect.Uint32, reflect.Uint64:
		if strings.HasSuffix(t.Field(i).Name, "Length") || strings.HasSuffix(t.Field(i).Name, "Len") || strings.HasSuffix(t.Field(i).Name, "Size") || t.Field(i).Name == "GatewayType" {
			return false
		}
		f.SetUint(f.Uint() ^ 1)
		return true
	case reflect.String:
		s := f.String()
		switch {
		case strings.Contains(tag, "domain-name"):
			f.SetString("changed." + s)
			_, ok := dns.IsDomainName(f.String())
			return ok
		case strings.Contains(tag, "hex") && !strings.Contains(tag, "size-"):
			f.SetString(s + "00")
			return true
		case tag == "" || tag == "octet" || tag == "any":
			if len(s) > 250 {
				return false
			}
			f.SetString(s + "x")
			return true
		}
	}
	return false
}

func run(r *Rng, tier string, n int) {
	per := 10
	ndedup := 150
	if tier == "thorough" {
		per, ndedup = 300, 5000
	}
	if n > 0 {
		per = n
	}
	pool := &NamePool{R: r}
	types := AllTypes()
	emitN := 0
	emit := func(a, b dns.RR, out string) {
		ta, oka := RRText(a)
		tb, okb := RRText(b)
		if oka && okb && emitN < 900 {
			emitN++
			Emit("is_dup", []string{ta, tb}, out)
		}
	}
	var wireRecs []dns.RR
	for _, t := range types {
		tname := dns.TypeToString[t]
		for i := 0; i < per; i++ {
			rr, info := GenRR(r, pool, t, false)
			if !info.WellFormed {
				continue
			}
			st["records_checked"]++
			in := func() map[string]string { x, _ := RRText(rr); return map[string]string{"rr": x} }
			// reflexive, holds for the copy
			cp := dns.Copy(rr)
			d := isDup(rr, rr)
			emit(rr, rr, d)
			if d != "ok:true" {
				key := "C20/" + tname + "/not-reflexive"
				Viol(key, "IsDuplicate(r, r) = "+d, in())
			}
			if d2 := isDup(rr, cp); d2 != d {
				Viol("C20/"+tname+"/copy-differs", "IsDuplicate(r, Copy(r)) = "+d2, in())
			}
			// ignores TTL and the case of the owner and of embedded names
			v := dns.Copy(rr)
			v.Header().Ttl ^= 0x55
			v.Header().Name = flipNameCase(r, v.Header().Name)
			ForEachNameField(v, func(get func() string, set func(string)) { set(flipNameCase(r, get())) })
			dv := isDup(rr, v)
			emit(rr, v, dv)
			if dv != d {
				Viol("C20/"+tname+"/ttl-or-case-matters", "IsDuplicate changes with TTL / letter case: "+dv, in())
			}
			if ds := isDup(v, rr); ds != dv {
				Viol("C20/"+tname+"/not-symmetric", "IsDuplicate(a,b) != IsDuplicate(b,a)", in())
			}
			// one field differs -> not a duplicate
			m := dns.Copy(rr)
			if mutateOneField(r, m) {
				dm := isDup(rr, m)
				emit(rr, m, dm)
				if dm == "ok:true" {
					tm, _ := RRText(m)
					Viol("C20/"+tname+"/differing-field-ignored", "records differing in one field are reported as duplicates", map[string]string{"a": in()["rr"], "b": tm})
				}
				// transitivity on the triple (rr, v, m): rr~v, so v~m iff rr~m
				if isDup(v, m) != dm {
					Viol("C20/"+tname+"/not-transitive", "IsDuplicate is not transitive", in())
				}
			}
			// header: class / type / owner differ
			h := dns.Copy(rr)
			h.Header().Class ^= 1
			if isDup(rr, h) == "ok:true" {
				Viol("C20/"+tname+"/class-ignored", "records of different class reported as duplicates", in())
			}
			// from the wire: duplicate iff canonical wire forms are equal
			buf := make([]byte, dns.Len(rr)+10)
			if off, err := dns.PackRR(rr, buf, 0, nil, false); err == nil {
				if w, _, err := dns.UnpackRR(buf[:off], 0); err == nil {
					wireRecs = append(wireRecs, w)
				}
			}
		}
	}
	// pairs of records obtained from the wire
	for i := 0; i < len(wireRecs); i++ {
		for k := 0; k < 3; k++ {
			j := r.Intn(len(wireRecs))
			if k == 0 {
				j = i
			}
			a, b := wireRecs[i], wireRecs[j]
			if a.Header().Rrtype == dns.TypeOPT || b.Header().Rrtype == dns.TypeOPT {
				continue
			}
			wa, oka := canonWire(a)
			wb, okb := canonWire(b)
			if !oka || !okb {
				continue
			}
			st["wire_pairs_checked"]++
			want := bytes.Equal(wa, wb)
			got := isDup(a, b)
			if got != "ok:"+Btoa(want) {
				ta, _ := RRText(a)
				tb, _ := RRText(b)
				Viol("C20/"+dns.TypeToString[a.Header().Rrtype]+"/wire-equality", "IsDuplicate="+got+" but canonical wire forms equal="+Btoa(want), map[string]string{"a": ta, "b": tb})
			}
		}
	}
	// Dedup
	for i := 0; i < ndedup; i++ {
		k := 1 + r.Intn(8)
		var base []dns.RR
		for j := 0; j < k; j++ {
			t := []uint16{dns.TypeA, dns.TypeMX, dns.TypeTXT, dns.TypeNS, dns.TypeAAAA, dns.TypeSRV}[r.Intn(6)]
			rr, _ := GenRR(r, pool, t, false)
			rr.Header().Class = 1
			base = append(base, rr)
		}
		var rrs []dns.RR
		var group []int
		for j := 0; j < 1+r.Intn(14); j++ {
			g := r.Intn(len(base))
			c := dns.Copy(base[g])
			c.Header().Ttl = uint32(r.Intn(1000))
			if r.Bool() {
				c.Header().Name = flipNameCase(r, c.Header().Name)
			}
			rrs = append(rrs, c)
			group = append(group, g)
		}
		// expected: first occurrence of each group, in order, with the group's minimum TTL
		type exp struct {
			idx int
			ttl uint32
		}
		var want []exp
		seen := map[int]int{}
		for j, g := range group {
			if p, ok := seen[g]; ok {
				if rrs[j].Header().Ttl < want[p].ttl {
					want[p].ttl = rrs[j].Header().Ttl
				}
				continue
			}
			seen[g] = len(want)
			want = append(want, exp{j, rrs[j].Header().Ttl})
		}
		var items []string
		for _, rr := range rrs {
			items = append(items, Hs(dns.VerifNormalizedString(rr))+":"+Itoa(int(rr.Header().Ttl)))
		}
		ptrs := append([]dns.RR{}, rrs...)
		out := dns.Dedup(rrs, nil)
		st["dedup_checked"]++
		var got []string
		okd := len(out) == len(want)
		for q, o := range out {
			idx := -1
			for j, p := range ptrs {
				if p == o {
					idx = j
				}
			}
			got = append(got, Itoa(idx)+":"+Itoa(int(o.Header().Ttl)))
			if okd && (idx != want[q].idx || o.Header().Ttl != want[q].ttl) {
				okd = false
			}
		}
		if !okd {
			Viol("C20/Dedup/wrong-result", "Dedup does not return the first occurrence of each group in order with the minimum TTL", map[string]any{"items": items, "got": got})
		}
		if i < 200 {
			Emit("dedup", []string{strings.Join(items, ",")}, strings.Join(got, ","))
		}
		if i < 60 {
			for _, rr := range ptrs[:1] {
				Emit("normalize", []string{Hs(rr.String())}, Hs(dns.VerifNormalizedString(rr)))
			}
		}
	}
	Stat(st)
}
