from .core import Check


class C19(Check):
    prop = "C19"
    props_rel = "Props/C19"
    corr_module = "Corr.C19"
    corr_rel = "Corr/C19"
    model_desc = ("Model/Labels.v: NextLabel, PrevLabel, Split, CountLabel, SplitDomainName, CompareDomainName, "
                  "equal, IsFqdn, Fqdn, CanonicalName, IsSubDomain, dnsutil.AddOrigin/TrimDomainName modelled "
                  "function by function on octet strings; Model/Name.v: presentation form of wire labels")
    rule = ("direct oracle: every label list over {a,A,0,'.','\\\\',NUL} with <=5 octets (thorough 7) printed by "
            "UnpackDomainName, with and without trailing dot, all pairs of the names with <=3 octets, plus random "
            "long names and related pairs; model cases: a sample of those plus every string over {a,A,0,.,\\\\} "
            "up to length 4 (thorough 6). A case is non-trivial when the name has at least one label; distinct by "
            "hash of (function, arguments, output).")
    trusted = ["octet-level model of strings.Map/LastIndexFunc (rune based in Go) is exact on ASCII input only"]

    def nontrivial(self, c):
        return len(c["args"][0]) > 2


CHECK = C19()
