package main

import (
	"strings"
	"time"

	"github.com/miekg/dns"
	. "verif/harness/common"
)

// Size limits of SIG.Sign / SIG.Verify, each approached from both sides, for
// every algorithm family, with and without compression: 65535 octets of signed
// message, the 12-octet header, RDLENGTH of the SIG itself and of the records
// Verify skips, ARCOUNT / the record total. The oracle is the property text:
// a message that fits can be signed, and what was signed verifies.

func filler(name string, n int, fill byte) *dns.RFC3597 {
	return &dns.RFC3597{Hdr: dns.RR_Header{Name: name, Rrtype: 65400, Class: dns.ClassINET},
		Rdata: strings.Repeat(Hx([]byte{fill}), n)}
}

// sizedMsg: a message of the given shape whose Pack() has exactly want octets
// under the given compression setting (nil when the shape cannot reach it).
func sizedMsg(shape int, compress bool, want int) *dns.Msg {
	m := new(dns.Msg)
	m.Id, m.Response, m.Compress = 0x5347, true, compress
	a := func(name string) dns.RR {
		return &dns.A{Hdr: dns.RR_Header{Name: name, Rrtype: dns.TypeA, Class: dns.ClassINET, Ttl: 60}, A: []byte{10, 0, 0, 1}}
	}
	var adj *dns.RFC3597 // the record whose RDATA is stretched; always the last one packed
	fill := byte('x')
	switch shape {
	case 0: // question and one record
		m.Question = []dns.Question{{Name: "big.example.org.", Qtype: dns.TypeNULL, Qclass: dns.ClassINET}}
		adj = filler("big.example.org.", 0, fill)
		m.Answer = append(m.Answer, adj)
	case 1: // 300 records that compress against the question, in all sections
		m.Question = []dns.Question{{Name: "www.example.org.", Qtype: dns.TypeA, Qclass: dns.ClassINET}}
		for i := 0; i < 100; i++ {
			m.Answer = append(m.Answer, a("www.example.org."))
			m.Ns = append(m.Ns, a("www.example.org."))
			m.Extra = append(m.Extra, a("www.example.org."))
		}
		fill = 'y'
		adj = filler("f.", 0, fill)
		m.Extra = append(m.Extra, adj)
	case 2: // so many compressible records that the uncompressed length exceeds 65535
		long := "a-rather-long-label-for-the-owner.of-these-records.example.org."
		m.Question = []dns.Question{{Name: long, Qtype: dns.TypeA, Qclass: dns.ClassINET}}
		for i := 0; i < 1500; i++ {
			m.Answer = append(m.Answer, a(long))
		}
		fill = 0xff
		adj = filler(".", 0, fill)
		m.Ns = append(m.Ns, adj)
	default: // no question; records whose RDLENGTH is 0, 1, 255, 256, 257; OPT; the rest
		for i, n := range []int{0, 1, 255, 256, 257} {
			m.Answer = append(m.Answer, filler("example.org.", n, byte('a'+i)))
		}
		o := &dns.OPT{Hdr: dns.RR_Header{Name: ".", Rrtype: dns.TypeOPT}}
		o.SetUDPSize(65535)
		fill = 0
		adj = filler("Example.ORG.", 0, fill)
		m.Extra = append(m.Extra, o, adj)
	}
	p0, err := m.Pack()
	if err != nil || want < len(p0) || want-len(p0) > 65535 {
		return nil
	}
	adj.Rdata = strings.Repeat(Hx([]byte{fill}), want-len(p0))
	if p1, err := m.Pack(); err != nil || len(p1) != want {
		return nil
	}
	return m
}

func renamed(kp keyPair, name string) keyPair {
	k := *kp.key
	k.Hdr.Name = name
	kp.key = &k
	return kp
}

// nameOfWire: a name of exactly w octets on the wire (3 <= w <= 255).
func nameOfWire(w int) string {
	var sb strings.Builder
	for rem := w - 1; rem > 0; {
		l := min(63, rem-1)
		if rem-(l+1) == 1 {
			l--
		}
		sb.WriteString(strings.Repeat("k", l) + ".")
		rem -= l + 1
	}
	return sb.String()
}

// signAndEmit: the model cases for m under kp: cases = 0 none, 1 sign, 2 sign and verify.
func signAndEmit(m *dns.Msg, kp keyPair, cases int) {
	now := uint32(time.Now().Unix())
	if cases >= 1 {
		emitSign(m, newSig(kp, now-3000, now+3000), kp)
	}
	if cases >= 2 {
		s := newSig(kp, now-3000, now+3000)
		if out, err := doSign(s, kp, m); err == nil {
			emitVerify(out, s, kp, kp.key)
		}
	}
}

// lightFor: P-384 and large RSA keys cost up to milliseconds per check; sample their alterations.
func lightFor(kp keyPair, mode int) int {
	if kp.key.Algorithm == dns.ECDSAP384SHA384 || sigLen(kp) >= 256 {
		return modeLight
	}
	return mode
}

func b2i(b bool) int {
	if b {
		return 1
	}
	return 0
}

func oracleSizes(r *Rng, keys []keyPair, tier string) {
	t0 := time.Now()
	defer func() { st["wall_ms_sizes"] = int(time.Since(t0).Milliseconds()) }()
	now := uint32(time.Now().Unix())
	overhead := func(kp keyPair) int { return 11 + len(sigRdata(newSig(kp, now, now))) + sigLen(kp) }
	// model cases for the large messages cost ~0.3 s each inside Coq: all of shape 0,
	// a rotating choice of the others (the direct oracles run on every one)
	sized := func(shape int, compress bool, total int, kp keyPair, cases int) {
		m := sizedMsg(shape, compress, total-overhead(kp))
		if m == nil {
			st["sized_message_unreachable"]++
			return
		}
		st["sized_messages"]++
		if tier == "thorough" && cases < 2 {
			cases++
		}
		oracleMessage(r, m, kp, nil, modeLight)
		signAndEmit(m, kp, cases)
	}
	// (a) the signed message is one octet below, exactly at, one octet above 65535
	for ki, kp := range keys {
		for _, total := range []int{65534, 65535, 65536} {
			at := b2i(total == 65535)
			for _, compress := range []bool{false, true} {
				sized(0, compress, total, kp, 1+b2i(!compress))
				if compress || ki%2 == 0 {
					sized(1, compress, total, kp, b2i(compress && total >= 65535)+b2i(compress && ki%2 == 0)*at)
				}
				if compress == (ki%3 != 0) {
					sized(3, compress, total, kp, at)
				}
			}
			sized(2, true, total, kp, b2i(total >= 65535)+b2i(ki%2 == 1)*at) // fits only when compressed
		}
		// the message alone fills 65535 octets: the SIG cannot be added
		sized(0, ki%2 == 0, 65535+overhead(kp), kp, b2i(ki%3 == 0))
	}
	// the same around other values a length might be held in or compared with
	// (512, 4096, the 14-bit pointer range, 15 bits), keys and settings rotating
	i := 0
	for _, lim := range []int{512, 4096, 16384, 32768, 49152} {
		for d := -1; d <= 1; d++ {
			sized(i%2*3, i%4 < 2, lim+d, keys[i%len(keys)], 1+b2i(lim+d < 5000))
			sized(1, i%4 >= 2, lim+d, keys[(i+3)%len(keys)], 0)
			i++
		}
	}
	// (b) the smallest messages: the header alone, a root question, a single record
	for _, kp := range keys {
		for _, compress := range []bool{false, true} {
			m0 := new(dns.Msg)
			m1 := new(dns.Msg)
			m1.Question = []dns.Question{{Name: ".", Qtype: dns.TypeSOA, Qclass: dns.ClassINET}}
			m2 := new(dns.Msg)
			m2.Ns = []dns.RR{&dns.RFC3597{Hdr: dns.RR_Header{Name: ".", Rrtype: 65300, Class: 1}}}
			for _, m := range []*dns.Msg{m0, m1, m2} {
				m.Id, m.Compress = uint16(r.Next()), compress
				oracleMessage(r, m, kp, nil, lightFor(kp, modeAll))
				signAndEmit(m, kp, 2)
			}
		}
	}
	// (c) RDLENGTH of the SIG: 18 + signer name (+ signature) at 255, 256, 257 and
	// the longest signer names
	for ki, kp := range keys {
		ws := map[int]bool{254: true, 255: true}
		for _, t := range []int{255, 256, 257} {
			ws[t-18] = true
			ws[t-18-sigLen(kp)] = true
		}
		for w := 3; w <= 255; w++ {
			if !ws[w] {
				continue
			}
			kn := renamed(kp, nameOfWire(w))
			m := genMsg(r, 3)
			m.Compress = (w+ki)%2 == 0
			oracleMessage(r, m, kn, nil, modeLight)
			signAndEmit(m, kn, 2*b2i(ki%2 == 0 || tier == "thorough")) // the model takes ~0.2 s on a long signer name
			st["sig_rdlength_boundaries"]++
		}
	}
	// (d) ARCOUNT and the record total around 255/256 for every key (minimal
	// records so that the octets fit a model case), in one section and spread
	rec := func() dns.RR { return &dns.RFC3597{Hdr: dns.RR_Header{Name: ".", Rrtype: 65300, Class: 1}} }
	for ki, kp := range keys {
		for _, na := range []int{254, 255, 256} {
			m := new(dns.Msg)
			m.SetQuestion(".", dns.TypeA)
			for i := 0; i < na; i++ {
				switch {
				case (ki+na)%2 == 0 && i%3 == 0:
					m.Answer = append(m.Answer, rec())
				case (ki+na)%2 == 0 && i%3 == 1:
					m.Ns = append(m.Ns, rec())
				default:
					m.Extra = append(m.Extra, rec())
				}
			}
			m.Compress = ki%2 == 1
			oracleMessage(r, m, kp, nil, modeLight)
			signAndEmit(m, kp, 2*b2i(ki%3 == 0 || tier == "thorough")) // ~1 s each in the model (256 names in 2.8 KiB)
		}
	}
	// as many records as 65535 octets can hold (ARCOUNT and the total far above 256)
	for ki, kp := range []keyPair{keys[0], keys[3], keys[2]} {
		n := (65535 - 12 - overhead(kp)) / 11
		st["record_count_max"] = n
		for _, d := range []int{0, 1} { // the last count that fits, the first that does not
			m := new(dns.Msg)
			for i := 0; i < n+d; i++ {
				if ki == 1 && i%2 == 0 {
					m.Ns = append(m.Ns, rec())
				} else {
					m.Extra = append(m.Extra, rec())
				}
			}
			m.Compress = d == 1
			oracleMessage(r, m, kp, nil, modeLight)
			signAndEmit(m, kp, 1) // the verify model would walk ~5900 names in a 64 KiB list
		}
	}
}
