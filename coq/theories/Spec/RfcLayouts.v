(* Spec/RfcLayouts.v — the RDATA field layout of every record type, as the RFCs
   define them (RFC 1035 3.3, 1183, 1706, 1712, 1876, 2163, 2230, 2782, 2915,
   3123, 3596, 4025, 4034, 4255, 4398, 4408, 4701, 5155, 5205, 6672, 6698, 6742,
   6844, 7043, 7344, 7477, 7553, 7929, 8005, 8162, 8777, 8976, 9460, 9606 and
   the IANA registry), written down once and FROZEN here: field names, order,
   widths, which names may be compressed (RFC 3597 section 4), which text fields
   are sized by an earlier length octet.  It is not regenerated; Gen/Layouts.v is,
   and Props/C01.v demands that the two agree.  A change of zmsg.go that alters
   the layout of a type consistently in pack and unpack therefore breaks that
   theorem even though pack/unpack still round-trip. *)
From Dns Require Import Model.Tables.
Local Open Scope N_scope.
Local Open Scope string_scope.

Definition rfc_layouts : list (string * list pfield) := [
  ("A", [("A", K_a)]);
  ("AAAA", [("AAAA", K_aaaa)]);
  ("AFSDB", [("Subtype", K_u16); ("Hostname", (K_name false))]);
  ("AMTRELAY", [("Precedence", K_u8); ("GatewayType", K_u8); ("GatewayHost", (K_gateway "GatewayType" "GatewayAddr" "GatewayHost" 127 false))]);
  ("ANY", []);
  ("APL", [("Prefixes", K_apl)]);
  ("AVC", [("Txt", K_txt)]);
  ("CAA", [("Flag", K_u8); ("Tag", K_string); ("Value", K_octet)]);
  ("CDNSKEY", [("Flags", K_u16); ("Protocol", K_u8); ("Algorithm", K_u8); ("PublicKey", (K_b64 ToEnd))]);
  ("CDS", [("KeyTag", K_u16); ("Algorithm", K_u8); ("DigestType", K_u8); ("Digest", (K_hex ToEnd))]);
  ("CERT", [("Type", K_u16); ("KeyTag", K_u16); ("Algorithm", K_u8); ("Certificate", (K_b64 ToEnd))]);
  ("CNAME", [("Target", (K_name true))]);
  ("CSYNC", [("Serial", K_u32); ("Flags", K_u16); ("TypeBitMap", K_nsec)]);
  ("DHCID", [("Digest", (K_b64 ToEnd))]);
  ("DLV", [("KeyTag", K_u16); ("Algorithm", K_u8); ("DigestType", K_u8); ("Digest", (K_hex ToEnd))]);
  ("DNAME", [("Target", (K_name false))]);
  ("DNSKEY", [("Flags", K_u16); ("Protocol", K_u8); ("Algorithm", K_u8); ("PublicKey", (K_b64 ToEnd))]);
  ("DS", [("KeyTag", K_u16); ("Algorithm", K_u8); ("DigestType", K_u8); ("Digest", (K_hex ToEnd))]);
  ("EID", [("Endpoint", (K_hex ToEnd))]);
  ("EUI48", [("Address", K_u48)]);
  ("EUI64", [("Address", K_u64)]);
  ("GID", [("Gid", K_u32)]);
  ("GPOS", [("Longitude", K_string); ("Latitude", K_string); ("Altitude", K_string)]);
  ("HINFO", [("Cpu", K_string); ("Os", K_string)]);
  ("HIP", [("HitLength", K_u8); ("PublicKeyAlgorithm", K_u8); ("PublicKeyLength", K_u16); ("Hit", (K_hex (SizedBy "HitLength"))); ("PublicKey", (K_b64 (SizedBy "PublicKeyLength"))); ("RendezvousServers", (K_names false))]);
  ("HTTPS", [("Priority", K_u16); ("Target", (K_name false)); ("Value", K_svcb)]);
  ("IPSECKEY", [("Precedence", K_u8); ("GatewayType", K_u8); ("Algorithm", K_u8); ("GatewayHost", (K_gateway "GatewayType" "GatewayAddr" "GatewayHost" 255 false)); ("PublicKey", (K_b64 ToEnd))]);
  ("ISDN", [("Address", K_string); ("SubAddress", K_string)]);
  ("KEY", [("Flags", K_u16); ("Protocol", K_u8); ("Algorithm", K_u8); ("PublicKey", (K_b64 ToEnd))]);
  ("KX", [("Preference", K_u16); ("Exchanger", (K_name false))]);
  ("L32", [("Preference", K_u16); ("Locator32", K_a)]);
  ("L64", [("Preference", K_u16); ("Locator64", K_u64)]);
  ("LOC", [("Version", K_u8); ("Size", K_u8); ("HorizPre", K_u8); ("VertPre", K_u8); ("Latitude", K_u32); ("Longitude", K_u32); ("Altitude", K_u32)]);
  ("LP", [("Preference", K_u16); ("Fqdn", (K_name false))]);
  ("MB", [("Mb", (K_name true))]);
  ("MD", [("Md", (K_name true))]);
  ("MF", [("Mf", (K_name true))]);
  ("MG", [("Mg", (K_name true))]);
  ("MINFO", [("Rmail", (K_name true)); ("Email", (K_name true))]);
  ("MR", [("Mr", (K_name true))]);
  ("MX", [("Preference", K_u16); ("Mx", (K_name true))]);
  ("NAPTR", [("Order", K_u16); ("Preference", K_u16); ("Flags", K_string); ("Service", K_string); ("Regexp", K_string); ("Replacement", (K_name false))]);
  ("NID", [("Preference", K_u16); ("NodeID", K_u64)]);
  ("NIMLOC", [("Locator", (K_hex ToEnd))]);
  ("NINFO", [("ZSData", K_txt)]);
  ("NS", [("Ns", (K_name true))]);
  ("NSAPPTR", [("Ptr", (K_name false))]);
  ("NSEC", [("NextDomain", (K_name false)); ("TypeBitMap", K_nsec)]);
  ("NSEC3", [("Hash", K_u8); ("Flags", K_u8); ("Iterations", K_u16); ("SaltLength", K_u8); ("Salt", (K_hexdash (SizedBy "SaltLength"))); ("HashLength", K_u8); ("NextDomain", (K_b32 (SizedBy "HashLength"))); ("TypeBitMap", K_nsec)]);
  ("NSEC3PARAM", [("Hash", K_u8); ("Flags", K_u8); ("Iterations", K_u16); ("SaltLength", K_u8); ("Salt", (K_hexdash (SizedBy "SaltLength")))]);
  ("NULL", [("Data", K_any)]);
  ("NXNAME", []);
  ("NXT", [("NextDomain", (K_name false)); ("TypeBitMap", K_nsec)]);
  ("OPENPGPKEY", [("PublicKey", (K_b64 ToEnd))]);
  ("OPT", [("Option", K_opt)]);
  ("PTR", [("Ptr", (K_name true))]);
  ("PX", [("Preference", K_u16); ("Map822", (K_name false)); ("Mapx400", (K_name false))]);
  ("RESINFO", [("Txt", K_txt)]);
  ("RFC3597", [("Rdata", (K_hex ToEnd))]);
  ("RKEY", [("Flags", K_u16); ("Protocol", K_u8); ("Algorithm", K_u8); ("PublicKey", (K_b64 ToEnd))]);
  ("RP", [("Mbox", (K_name false)); ("Txt", (K_name false))]);
  ("RRSIG", [("TypeCovered", K_u16); ("Algorithm", K_u8); ("Labels", K_u8); ("OrigTtl", K_u32); ("Expiration", K_u32); ("Inception", K_u32); ("KeyTag", K_u16); ("SignerName", (K_name false)); ("Signature", (K_b64 ToEnd))]);
  ("RT", [("Preference", K_u16); ("Host", (K_name false))]);
  ("SIG", [("TypeCovered", K_u16); ("Algorithm", K_u8); ("Labels", K_u8); ("OrigTtl", K_u32); ("Expiration", K_u32); ("Inception", K_u32); ("KeyTag", K_u16); ("SignerName", (K_name false)); ("Signature", (K_b64 ToEnd))]);
  ("SMIMEA", [("Usage", K_u8); ("Selector", K_u8); ("MatchingType", K_u8); ("Certificate", (K_hex ToEnd))]);
  ("SOA", [("Ns", (K_name true)); ("Mbox", (K_name true)); ("Serial", K_u32); ("Refresh", K_u32); ("Retry", K_u32); ("Expire", K_u32); ("Minttl", K_u32)]);
  ("SPF", [("Txt", K_txt)]);
  ("SRV", [("Priority", K_u16); ("Weight", K_u16); ("Port", K_u16); ("Target", (K_name false))]);
  ("SSHFP", [("Algorithm", K_u8); ("Type", K_u8); ("FingerPrint", (K_hex ToEnd))]);
  ("SVCB", [("Priority", K_u16); ("Target", (K_name false)); ("Value", K_svcb)]);
  ("TA", [("KeyTag", K_u16); ("Algorithm", K_u8); ("DigestType", K_u8); ("Digest", (K_hex ToEnd))]);
  ("TALINK", [("PreviousName", (K_name false)); ("NextName", (K_name false))]);
  ("TKEY", [("Algorithm", (K_name false)); ("Inception", K_u32); ("Expiration", K_u32); ("Mode", K_u16); ("Error", K_u16); ("KeySize", K_u16); ("Key", (K_hex (SizedBy "KeySize"))); ("OtherLen", K_u16); ("OtherData", (K_hex (SizedBy "OtherLen")))]);
  ("TLSA", [("Usage", K_u8); ("Selector", K_u8); ("MatchingType", K_u8); ("Certificate", (K_hex ToEnd))]);
  ("TSIG", [("Algorithm", (K_name false)); ("TimeSigned", K_u48); ("Fudge", K_u16); ("MACSize", K_u16); ("MAC", (K_hex (SizedBy "MACSize"))); ("OrigId", K_u16); ("Error", K_u16); ("OtherLen", K_u16); ("OtherData", (K_hex (SizedBy "OtherLen")))]);
  ("TXT", [("Txt", K_txt)]);
  ("UID", [("Uid", K_u32)]);
  ("UINFO", [("Uinfo", K_string)]);
  ("URI", [("Priority", K_u16); ("Weight", K_u16); ("Target", K_octet)]);
  ("X25", [("PSDNAddress", K_string)]);
  ("ZONEMD", [("Serial", K_u32); ("Scheme", K_u8); ("Hash", K_u8); ("Digest", (K_hex ToEnd))])
].
