package main

import (
	"bytes"
	"crypto"
	"crypto/ecdsa"
	"crypto/ed25519"
	"crypto/elliptic"
	"crypto/rsa"
	"crypto/sha1"
	"crypto/sha256"
	"crypto/sha512"
	"encoding/base32"
	"encoding/base64"
	"encoding/hex"
	"fmt"
	"math/big"
	"os"
	"sort"
	"strings"
	"time"
	"unicode/utf8"

	"github.com/miekg/dns"
	. "verif/harness/common"
)

// C17: key tags, DS digests, NSEC3 hash / Match / Cover, key import/export,
// validity period. All reference values are computed here from the RFC
// definitions on octets assembled from label lists, without miekg/dns.

func main() { Main(runC17) }

// ---------------------------------------------------------------- references
func wireOf(ls [][]byte) []byte {
	var w []byte
	for _, l := range ls {
		w = append(w, byte(len(l)))
		w = append(w, l...)
	}
	return append(w, 0)
}

func lowerASCII(b []byte) []byte {
	o := make([]byte, len(b))
	for i, c := range b {
		if c >= 'A' && c <= 'Z' {
			c += 32
		}
		o[i] = c
	}
	return o
}

func lowerLabels(ls [][]byte) [][]byte {
	o := make([][]byte, len(ls))
	for i, l := range ls {
		o[i] = lowerASCII(l)
	}
	return o
}

// presentation form of a wire label (RFC 1035 5.1; the library's documented escaping)
func refShowLabel(l []byte) string {
	var sb strings.Builder
	for _, b := range l {
		switch {
		case strings.IndexByte(`. '@;()"\`, b) >= 0:
			sb.WriteByte('\\')
			sb.WriteByte(b)
		case b < ' ' || b > '~':
			fmt.Fprintf(&sb, "\\%03d", b)
		default:
			sb.WriteByte(b)
		}
	}
	return sb.String()
}

func refShowName(ls [][]byte) string {
	if len(ls) == 0 {
		return "."
	}
	var sb strings.Builder
	for _, l := range ls {
		sb.WriteString(refShowLabel(l))
		sb.WriteByte('.')
	}
	return sb.String()
}

func validWire(ls [][]byte) bool {
	for _, l := range ls {
		if len(l) < 1 || len(l) > 63 {
			return false
		}
	}
	return len(wireOf(ls)) <= 255
}

// RFC 4034 Appendix B.1, the C code with a 32-bit accumulator
func refKeyTag(key []byte) uint16 {
	var ac uint32
	for i := 0; i < len(key); i++ {
		if i&1 != 0 {
			ac += uint32(key[i])
		} else {
			ac += uint32(key[i]) << 8
		}
	}
	ac += (ac >> 16) & 0xFFFF
	return uint16(ac & 0xFFFF)
}

func dnskeyRdata(flags uint16, proto, alg uint8, pub []byte) []byte {
	return append([]byte{byte(flags >> 8), byte(flags), proto, alg}, pub...)
}

func refDigest(dt uint8, pre []byte) []byte {
	switch dt {
	case 1:
		d := sha1.Sum(pre)
		return d[:]
	case 2:
		d := sha256.Sum256(pre)
		return d[:]
	case 4:
		d := sha512.Sum384(pre)
		return d[:]
	case 5:
		d := sha512.Sum512(pre)
		return d[:]
	}
	return nil
}

// RFC 5155 section 5: IH(salt, x, 0) = H(x || salt); IH(salt, x, k) = H(IH(salt, x, k-1) || salt)
func refIH(salt, x []byte, k int) []byte {
	if k == 0 {
		d := sha1.Sum(append(append([]byte{}, x...), salt...))
		return d[:]
	}
	d := sha1.Sum(append(refIH(salt, x, k-1), salt...))
	return d[:]
}

func refNsec3Hash(ls [][]byte, salt []byte, iter int) []byte {
	return refIH(salt, wireOf(lowerLabels(ls)), iter)
}

var b32 = base32.HexEncoding.WithPadding(base32.NoPadding)

func labelsArg(ls [][]byte) string {
	s := make([]string, len(ls))
	for i, l := range ls {
		s[i] = Hx(l)
	}
	return strings.Join(s, ".")
}

func labelsIn(ls [][]byte) []string {
	s := make([]string, len(ls))
	for i, l := range ls {
		s[i] = Hx(l)
	}
	return s
}

func expand(seed []byte, n int) []byte {
	if len(seed) == 0 {
		return nil
	}
	o := make([]byte, n)
	for i := range o {
		o[i] = seed[i%len(seed)]
	}
	return o
}

// ---------------------------------------------------------------- generators
var lblAlpha = []byte("abcxyzABCXYZ0189-_")
var lblSpecial = []byte(". '@;()\"\\\x00\x1f\x7f\x80\xff[`{")

func randLabel(r *Rng, n int) []byte {
	b := make([]byte, n)
	for j := range b {
		switch r.Intn(8) {
		case 0:
			b[j] = lblSpecial[r.Intn(len(lblSpecial))]
		case 1:
			b[j] = byte(r.Next())
		default:
			b[j] = lblAlpha[r.Intn(len(lblAlpha))]
		}
	}
	return b
}

func randName(r *Rng, maxLabels, maxLen int) [][]byte {
	n := r.Intn(maxLabels + 1)
	var ls [][]byte
	for i := 0; i < n; i++ {
		ls = append(ls, randLabel(r, 1+r.Intn(maxLen)))
	}
	return ls
}

// names at the 63 / 255 limits: wire length w (labels of length ll first)
func nameOfWireLen(r *Rng, w int, ll int) [][]byte {
	var ls [][]byte
	rest := w - 1
	for rest > 0 {
		l := ll
		if l+1 > rest {
			l = rest - 1
		}
		if l <= 0 {
			break
		}
		ls = append(ls, randLabel(r, l))
		rest -= l + 1
	}
	return ls
}

func flipCase(r *Rng, ls [][]byte) [][]byte {
	o := make([][]byte, len(ls))
	for i, l := range ls {
		l2 := append([]byte{}, l...)
		for j, c := range l2 {
			if ((c >= 'a' && c <= 'z') || (c >= 'A' && c <= 'Z')) && r.Bool() {
				l2[j] = c ^ 0x20
			}
		}
		o[i] = l2
	}
	return o
}

func hasLetter(ls [][]byte) bool {
	for _, l := range ls {
		for _, c := range l {
			if (c >= 'a' && c <= 'z') || (c >= 'A' && c <= 'Z') {
				return true
			}
		}
	}
	return false
}

var st = map[string]int{}

// ---------------------------------------------------------------- key tag
type keyIn struct {
	Flags  uint16   `json:"flags"`
	Proto  uint8    `json:"protocol"`
	Alg    uint8    `json:"algorithm"`
	Seed   string   `json:"pub_seed_hex"`
	N      int      `json:"pub_len"`
	Owner  []string `json:"owner_labels_hex,omitempty"`
	Digest uint8    `json:"digest_type,omitempty"`
}

func mkKey(owner string, flags uint16, proto, alg uint8, pub []byte) *dns.DNSKEY {
	return &dns.DNSKEY{Hdr: dns.RR_Header{Name: owner, Rrtype: dns.TypeDNSKEY, Class: dns.ClassINET, Ttl: 3600},
		Flags: flags, Protocol: proto, Algorithm: alg, PublicKey: base64.StdEncoding.EncodeToString(pub)}
}

func keyTagCase(r *Rng, flags uint16, proto, alg uint8, seed []byte, n int, emit bool) {
	pub := expand(seed, n)
	k := mkKey("example.", flags, proto, alg, pub)
	got := k.KeyTag()
	rd := dnskeyRdata(flags, proto, alg, pub)
	want := refKeyTag(rd)
	st["keytag_checked"]++
	in := keyIn{Flags: flags, Proto: proto, Alg: alg, Seed: Hx(seed), N: n}
	if alg != 1 && got != want {
		if len(rd) > 4096 && got == 0 {
			st["keytag_oversize_dev"]++
			Viol("C17/KeyTag/rdata-over-4096", fmt.Sprintf("KeyTag()=%d, RFC 4034 App. B gives %d (RDATA of %d octets does not fit the 4096-octet scratch buffer)", got, want, len(rd)), in)
		} else {
			Viol("C17/KeyTag/value", fmt.Sprintf("KeyTag()=%d, RFC 4034 App. B gives %d", got, want), in)
		}
	}
	if emit {
		Emit("key_tag", []string{Itoa(int(flags)), Itoa(int(proto)), Itoa(int(alg)), Hx(seed), Itoa(n)}, Itoa(int(got)))
		if len(rd) <= 80 {
			Emit("keytag", []string{Hx(rd)}, Itoa(int(got)))
			Emit("keytag_rfc", []string{Hx(rd)}, Itoa(int(want)))
			Emit("keytag_w", []string{"32", Hx(rd)}, Itoa(int(want)))
			if len(rd)%2 == 1 {
				Emit("keytag_w", []string{Itoa(33 + r.Intn(40)), Hx(rd)}, Itoa(int(want)))
			}
		}
	}
}

var algs = []uint8{3, 5, 7, 8, 10, 13, 14, 15, 16, 253}

func runKeyTag(r *Rng, n int) {
	// boundary lengths and carry-heavy contents
	for _, l := range []int{0, 1, 2, 3, 4, 5, 31, 32, 33, 64, 65, 255, 256, 257, 512, 1023, 4090, 4091, 4092, 4093, 4094, 4097, 5000} {
		for _, seed := range [][]byte{{0xff}, {0x00}, {0xff, 0x00}, {0x00, 0xff}, {0x12, 0x34, 0x56}} {
			keyTagCase(r, 0xffff, 0xff, 0xff, seed, l, true)
			keyTagCase(r, 256, 3, 8, seed, l, l < 6)
		}
	}
	for i := 0; i < n; i++ {
		l := r.Intn(70)
		if i%7 == 0 {
			l = r.Intn(600)
		}
		seed := r.Bytes(1 + r.Intn(40))
		if len(seed) > l && l > 0 {
			seed = seed[:l]
		}
		keyTagCase(r, uint16(r.Next()), uint8(r.Next()), algs[r.Intn(len(algs))], seed, l, i < 150)
	}
	// algorithm 1 uses another definition; only the model is compared there
	keyTagCase(r, 256, 3, 1, []byte{1, 2, 3}, 9, true)
}

// ---------------------------------------------------------------- DS
func dsCase(r *Rng, owner [][]byte, flags uint16, proto, alg uint8, seed []byte, n int, dt uint8, emit bool) {
	pub := expand(seed, n)
	name := refShowName(owner)
	k := mkKey(name, flags, proto, alg, pub)
	ds := k.ToDS(dt)
	rd := dnskeyRdata(flags, proto, alg, pub)
	pre := append(wireOf(lowerLabels(owner)), rd...)
	in := keyIn{Flags: flags, Proto: proto, Alg: alg, Seed: Hx(seed), N: n, Owner: labelsIn(owner), Digest: dt}
	st["ds_checked"]++
	want := refDigest(dt, pre)
	out := "nil"
	switch {
	case !validWire(owner):
		st["ds_invalid_owner"]++
		if ds != nil {
			Viol("C17/ToDS/invalid-owner-accepted", "ToDS returned a DS for an owner name that is not a valid wire name", in)
		}
	case len(rd) > 4096:
		st["ds_oversize"]++
		if ds == nil && want != nil {
			Viol("C17/ToDS/rdata-over-4096", fmt.Sprintf("ToDS returns nil for a DNSKEY RDATA of %d octets", len(rd)), in)
		}
	case want == nil:
		st["ds_unsupported_dt"]++
		if ds != nil {
			Viol("C17/ToDS/unsupported-digest-type", fmt.Sprintf("ToDS(%d) returned a DS", dt), in)
		}
	default:
		st[fmt.Sprintf("ds_dt%d", dt)]++
		if ds == nil {
			Viol("C17/ToDS/nil", "ToDS returned nil for a supported digest type", in)
			break
		}
		if !strings.EqualFold(ds.Digest, hex.EncodeToString(want)) {
			Viol("C17/ToDS/digest", fmt.Sprintf("Digest=%s, H(canonical owner | RDATA)=%x", ds.Digest, want), in)
		}
		if ds.KeyTag != refKeyTag(rd) || ds.Algorithm != alg || ds.DigestType != dt || ds.Hdr.Rrtype != dns.TypeDS ||
			ds.Hdr.Class != dns.ClassINET || ds.Hdr.Name != name {
			Viol("C17/ToDS/fields", fmt.Sprintf("DS fields wrong: %v", ds), in)
		}
		// letter case of the owner does not matter
		o2 := flipCase(r, owner)
		ds2 := mkKey(refShowName(o2), flags, proto, alg, pub).ToDS(dt)
		if ds2 == nil || ds2.Digest != ds.Digest {
			in2 := in
			in2.Owner = labelsIn(o2)
			Viol("C17/ToDS/case", "digest depends on the letter case of the owner", in2)
		}
	}
	if ds != nil {
		dg := strings.ToLower(ds.Digest)
		if dt == 4 || dt == 5 {
			// the model gives SHA-256 of its pre-image as a fingerprint; the digest itself was checked above
			f := sha256.Sum256(pre)
			if want != nil && strings.EqualFold(ds.Digest, hex.EncodeToString(want)) {
				dg = hex.EncodeToString(f[:])
			}
		}
		out = fmt.Sprintf("%d,%d,%d,%s", ds.KeyTag, ds.Algorithm, ds.DigestType, dg)
	}
	if emit {
		Emit("to_ds", []string{labelsArg(owner), Itoa(int(flags)), Itoa(int(proto)), Itoa(int(alg)), Hx(seed), Itoa(n), Itoa(int(dt))}, out)
	}
}

func runDS(r *Rng, n int) {
	dts := []uint8{1, 2, 4, 5, 1, 2, 4, 0, 3, 6, 255}
	for i := 0; i < n; i++ {
		var owner [][]byte
		switch {
		case i%23 == 0:
			owner = nameOfWireLen(r, 253+r.Intn(5), 63) // 253..257 wire octets
		case i%29 == 0:
			owner = append([][]byte{randLabel(r, 62+r.Intn(3))}, randName(r, 2, 5)...) // label 62..64
		case i%31 == 0:
			owner = nil
		default:
			owner = randName(r, 4, 8)
		}
		l := r.Intn(70)
		if i%37 == 0 {
			l = 4089 + r.Intn(6)
		}
		seed := r.Bytes(1 + r.Intn(20))
		emit := i < 260 && !(l > 4000 && i > 80)
		dsCase(r, owner, uint16(r.Next()), uint8(r.Next()), algs[r.Intn(len(algs))], seed, l, dts[i%len(dts)], emit)
	}
	// RFC vectors (they also anchor the reference computations of this harness)
	for _, v := range []struct {
		owner       string
		flags       uint16
		alg         uint8
		pub         string
		tag         uint16
		dt          uint8
		digest, src string
	}{
		{"dskey.example.com.", 256, 5, "AQOeiiR0GOMYkDshWoSKz9XzfwJr1AYtsmx3TGkJaNXVbfi/2pHm822aJ5iI9BMzNXxeYCmZDRD99WYwYqUSdjMmmAphXdvxegXd/M5+X7OrzKBaMbCVdFLUUh6DhweJBjEVv5f2wwjM9XzcnOf+EPbtG9DMBmADjFDc2w/rljwvFw==",
			60485, 1, "2BB183AF5F22588179A53B0A98631FAD1A292118", "RFC 4034 5.4"},
		{"dskey.example.com.", 256, 5, "AQOeiiR0GOMYkDshWoSKz9XzfwJr1AYtsmx3TGkJaNXVbfi/2pHm822aJ5iI9BMzNXxeYCmZDRD99WYwYqUSdjMmmAphXdvxegXd/M5+X7OrzKBaMbCVdFLUUh6DhweJBjEVv5f2wwjM9XzcnOf+EPbtG9DMBmADjFDc2w/rljwvFw==",
			60485, 2, "D4B7D520E7BB5F0F67674A0CCEB1E3E0614B93C4F9E99B8383F6A1E4469DA50A", "RFC 4509 2.3"},
		{"example.net.", 257, 14, "xKYaNhWdGOfJ+nPrL8/arkwf2EY3MDJ+SErKivBVSum1w/egsXvSADtNJhyem5RCOpgQ6K8X1DRSEkrbYQ+OB+v8/uX45NBwY8rp65F6Glur8I/mlVNgF6W/qTI37m40",
			10771, 4, "72d7b62976ce06438e9c0bf319013cf801f09ecc84b8d7e9495f27e305c6a9b0563a9b5f4d288405c3008a946df983d6", "RFC 6605 6.2"},
		{"example.net.", 257, 13, "GojIhhXUN/u4v54ZQqGSnyhWJwaubCvTmeexv7bR6edbkrSqQpF64cYbcB7wNcP+e+MAnLr+Wi9xMWyQLc8NAA==",
			55648, 2, "b4c8c1fe2e7477127b27115656ad6256f424625bf5c1e2770ce6d6e37df61d17", "RFC 6605 6.1"},
	} {
		k := &dns.DNSKEY{Hdr: dns.RR_Header{Name: v.owner, Rrtype: dns.TypeDNSKEY, Class: dns.ClassINET, Ttl: 86400}, Flags: v.flags, Protocol: 3, Algorithm: v.alg, PublicKey: v.pub}
		pub, _ := base64.StdEncoding.DecodeString(v.pub)
		st["rfc_vector_checked"]++
		if k.KeyTag() != v.tag || refKeyTag(dnskeyRdata(v.flags, 3, v.alg, pub)) != v.tag {
			Viol("C17/KeyTag/rfc-vector", fmt.Sprintf("key tag of the %s example is %d, expected %d", v.src, k.KeyTag(), v.tag), v.src)
		}
		if ds := k.ToDS(v.dt); ds == nil || !strings.EqualFold(ds.Digest, v.digest) {
			Viol("C17/ToDS/rfc-vector", "DS digest of the "+v.src+" example differs", v.src)
		}
		Emit("keytag", []string{Hx(dnskeyRdata(v.flags, 3, v.alg, pub))}, Itoa(int(v.tag)))
	}
	// presentation-format escapes of upper-case letters: \065 is the octet 'A'
	k1 := mkKey("\\065bc.example.", 257, 3, 8, []byte{1, 2, 3, 4})
	k2 := mkKey("abc.example.", 257, 3, 8, []byte{1, 2, 3, 4})
	if d1, d2 := k1.ToDS(2), k2.ToDS(2); d1 != nil && d2 != nil && d1.Digest != d2.Digest {
		Viol("C17/ToDS/ddd-escaped-uppercase", "ToDS of owner \\065bc.example. differs from ToDS of abc.example. (\\065 is the octet A)",
			map[string]string{"owner1": "\\065bc.example.", "owner2": "abc.example."})
	}
}

// ---------------------------------------------------------------- NSEC3 hash
type hashIn struct {
	Labels []string `json:"name_labels_hex"`
	Name   string   `json:"name"`
	Alg    uint8    `json:"hash_alg"`
	Iter   uint16   `json:"iterations"`
	Salt   string   `json:"salt"`
}

func saltBytes(s string) ([]byte, bool) {
	b, err := hex.DecodeString(s)
	return b, err == nil
}

func hashCase(r *Rng, ls [][]byte, ha uint8, iter uint16, salt string, emit bool) {
	name := refShowName(ls)
	in := hashIn{Labels: labelsIn(ls), Name: name, Alg: ha, Iter: iter, Salt: salt}
	// HashName terminates for every iteration count (a bounded number of SHA-1 rounds): watchdog
	done := make(chan string, 1)
	go func() { done <- dns.HashName(name, ha, iter, salt) }()
	var got string
	select {
	case got = <-done:
	case <-time.After(60 * time.Second):
		Viol("C17/HashName/does-not-terminate", fmt.Sprintf("HashName with %d iterations did not return within 60 s", iter), in)
		Stat(st)
		Flush()
		os.Exit(0) // the call is still spinning: report what was found and stop
	}
	sb, sok := saltBytes(salt)
	st["hash_checked"]++
	if ha == 1 && sok && validWire(ls) {
		want := b32.EncodeToString(refNsec3Hash(ls, sb, int(iter)))
		if got != want {
			Viol("C17/HashName/value", fmt.Sprintf("HashName=%s, RFC 5155 gives %s", got, want), in)
		}
		ls2 := flipCase(r, ls)
		if g2 := dns.HashName(refShowName(ls2), ha, iter, salt); g2 != got {
			in.Labels = labelsIn(ls2)
			Viol("C17/HashName/case", "hash depends on the letter case of the name", in)
		}
		if g3 := dns.HashName(name, ha, iter, strings.ToUpper(salt)); g3 != got {
			Viol("C17/HashName/salt-case", "hash depends on the case of the hex salt text", in)
		}
		st["hash_valid"]++
	} else {
		st["hash_rejected"]++
		if got != "" {
			Viol("C17/HashName/reject", "HashName returned a hash for an unsupported algorithm, bad salt or invalid name", in)
		}
	}
	if emit {
		Emit("hash_name", []string{labelsArg(ls), Itoa(int(ha)), Itoa(int(iter)), salt}, Hs(got))
	}
}

var salts = []string{"", "aabb", "AABBCCDD", "00", "ffeeddccbbaa99887766554433221100", "abc", "zz", "a"}

func runHash(r *Rng, n int) {
	iters := []uint16{0, 0, 1, 2, 3, 5, 10}
	for i := 0; i < n; i++ {
		var ls [][]byte
		switch {
		case i%19 == 0:
			ls = nameOfWireLen(r, 253+r.Intn(5), 63)
		case i%23 == 0:
			ls = append([][]byte{randLabel(r, 62+r.Intn(3))}, randName(r, 2, 5)...)
		case i%29 == 0:
			ls = nil
		default:
			ls = randName(r, 5, 9)
		}
		ha := uint8(1)
		if i%17 == 0 {
			ha = uint8(r.Intn(4)) * 2 // 0, 2, 4, 6
		}
		it := iters[r.Intn(len(iters))]
		emit := i < 330
		if i%41 == 0 {
			it = uint16(100 + r.Intn(60))
			emit = i < 90
		}
		if i%211 == 5 {
			it = uint16(65535 - r.Intn(3))
			emit = false
		}
		hashCase(r, ls, ha, it, salts[r.Intn(len(salts))], emit)
	}
	// RFC 5155 Appendix A: example zone, salt aabbccdd, 12 iterations
	for _, v := range [][2]string{{"example.", "0P9MHAVEQVM6T7VBL5LOP2U3T2RP3TOM"}, {"a.example.", "35MTHGPGCU1QG68FAB165KLNSNK3DPVL"},
		{"x.y.w.example.", "2VPTU5TIMAMQTTGL4LUU9KG21E0AOR3S"}, {"*.w.example.", "R53BQ7CC2UVMUBFU5OCMM6PERS9TK9EN"}} {
		if g := dns.HashName(v[0], 1, 12, "aabbccdd"); g != v[1] {
			Viol("C17/HashName/rfc5155-appendix-a", fmt.Sprintf("HashName(%s)=%s, RFC 5155 Appendix A says %s", v[0], g, v[1]), v[0])
		}
		st["hash_checked"]++
	}
	// \DDD escape of an upper-case letter
	if a, b := dns.HashName("\\065bc.example.", 1, 0, ""), dns.HashName("abc.example.", 1, 0, ""); a != b {
		Viol("C17/HashName/ddd-escaped-uppercase", "HashName(\\065bc.example.) differs from HashName(abc.example.) (\\065 is the octet A)",
			map[string]string{"name1": "\\065bc.example.", "name2": "abc.example."})
	}
	// b32hex model alone
	for i := 0; i < 40; i++ {
		b := r.Bytes(r.Intn(24))
		Emit("b32hex", []string{Hx(b)}, Hs(b32.EncodeToString(b)))
	}
}

// ---------------------------------------------------------------- NSEC3 Match / Cover
type n3In struct {
	Owner     string   `json:"owner"`
	OwnerLbls []string `json:"owner_labels_hex"`
	Alg       uint8    `json:"hash_alg"`
	Iter      uint16   `json:"iterations"`
	Salt      string   `json:"salt"`
	Next      string   `json:"next_domain"`
	Name      string   `json:"name"`
	NameLbls  []string `json:"name_labels_hex"`
	NameHash  string   `json:"name_hash_rfc5155"`
}

// hash arithmetic on 20-octet values
func addHash(h []byte, d int) []byte {
	x := new(big.Int).SetBytes(h)
	x.Add(x, big.NewInt(int64(d)))
	m := new(big.Int).Lsh(big.NewInt(1), 160)
	x.Mod(x, m)
	o := x.Bytes()
	return append(make([]byte, 20-len(o)), o...)
}

func inZoneRef(zone, name [][]byte) bool {
	if len(zone) > len(name) {
		return false
	}
	t := name[len(name)-len(zone):]
	for i := range zone {
		if !bytes.Equal(lowerASCII(zone[i]), lowerASCII(t[i])) {
			return false
		}
	}
	return true
}

// strictly between in circular order, on raw hash octets
func refCovers(o, x, n []byte) bool {
	co := bytes.Compare(o, n)
	switch {
	case co < 0:
		return bytes.Compare(o, x) < 0 && bytes.Compare(x, n) < 0
	case co > 0:
		return bytes.Compare(o, x) < 0 || bytes.Compare(x, n) < 0
	default:
		return !bytes.Equal(x, o)
	}
}

var n3shape = map[string]int{}

func n3Case(r *Rng, zone, name [][]byte, oh, nh []byte, ha uint8, iter uint16, salt string, lowerOwner, lowerNext bool, emit bool) {
	ohText := b32.EncodeToString(oh)
	nhText := b32.EncodeToString(nh)
	if lowerOwner {
		ohText = strings.ToLower(ohText)
	}
	if lowerNext {
		nhText = strings.ToLower(nhText)
	}
	ownerLs := append([][]byte{[]byte(ohText)}, zone...)
	owner := refShowName(ownerLs)
	nm := refShowName(name)
	rr := &dns.NSEC3{Hdr: dns.RR_Header{Name: owner, Rrtype: dns.TypeNSEC3, Class: dns.ClassINET, Ttl: 300},
		Hash: ha, Flags: 0, Iterations: iter, SaltLength: uint8(len(salt) / 2), Salt: salt, HashLength: 20, NextDomain: nhText,
		TypeBitMap: []uint16{dns.TypeA}}
	gm, gc := rr.Match(nm), rr.Cover(nm)
	sb, sok := saltBytes(salt)
	in := n3In{Owner: owner, OwnerLbls: labelsIn(ownerLs), Alg: ha, Iter: iter, Salt: salt, Next: nhText, Name: nm, NameLbls: labelsIn(name)}
	st["n3_checked"]++
	inz := inZoneRef(zone, name)
	if ha == 1 && sok && validWire(name) {
		xh := refNsec3Hash(name, sb, int(iter))
		in.NameHash = b32.EncodeToString(xh)
		wm := inz && bytes.Equal(xh, oh)
		wc := inz && refCovers(oh, xh, nh)
		pos := "other"
		switch {
		case bytes.Equal(xh, oh) && bytes.Equal(xh, nh):
			pos = "eq-both"
		case bytes.Equal(xh, oh):
			pos = "eq-owner"
		case bytes.Equal(xh, nh):
			pos = "eq-next"
		case bytes.Compare(xh, oh) < 0 && bytes.Compare(xh, nh) < 0:
			pos = "below"
		case bytes.Compare(xh, oh) > 0 && bytes.Compare(xh, nh) > 0:
			pos = "above"
		default:
			pos = "between"
		}
		shape := map[int]string{-1: "normal", 0: "empty", 1: "wrap"}[bytes.Compare(oh, nh)]
		zs := "in"
		if !inz {
			zs = "out"
		}
		n3shape[shape+"/"+pos+"/"+zs]++
		if gm != wm {
			switch {
			case len(zone) == 0 && wm && !gm:
				Viol("C17/Match/root-zone-owner", "Match is false for an NSEC3 RR of the root zone although the hashes are equal", in)
			default:
				Viol("C17/Match/value", fmt.Sprintf("Match=%v, expected %v", gm, wm), in)
			}
		}
		if gc != wc {
			switch {
			case len(zone) == 0 && wc && !gc:
				Viol("C17/Cover/root-zone-owner", "Cover is false for an NSEC3 RR of the root zone although the hash is strictly inside the interval", in)
			case lowerNext:
				Viol("C17/Cover/lowercase-next-hash", fmt.Sprintf("Cover=%v, expected %v: NextDomain in lower-case base32hex is compared as text with the upper-case name hash", gc, wc), in)
			case gc && inz && bytes.Equal(xh, oh) && bytes.Compare(oh, nh) < 0:
				Viol("C17/Cover/hash-equals-owner", "Cover is true for a name whose hash equals the owner hash (the name exists: Match is true as well)", in)
			default:
				Viol("C17/Cover/value", fmt.Sprintf("Cover=%v, expected %v", gc, wc), in)
			}
		}
	} else {
		st["n3_nohash"]++
		if gm {
			Viol("C17/Match/no-hash", "Match is true although the name has no hash (unsupported algorithm, bad salt or invalid name)", in)
		}
		if gc {
			switch {
			case ha != 1:
				Viol("C17/Cover/unsupported-hash-alg", fmt.Sprintf("Cover is true for hash algorithm %d, for which no hash is defined", ha), in)
			case !sok:
				Viol("C17/Cover/bad-salt", "Cover is true although the salt is not valid hex", in)
			default:
				Viol("C17/Cover/invalid-name", "Cover is true for a name that cannot be hashed", in)
			}
		}
	}
	if emit {
		Emit("n3", []string{labelsArg(ownerLs), Itoa(int(ha)), Itoa(int(iter)), salt, Hs(nhText), labelsArg(name)}, Btoa(gm)+","+Btoa(gc))
	}
}

func runN3(r *Rng, n int) {
	// every interval shape x every position of the name hash x inside/outside the zone
	deltas := []int{-2, -1, 0, 1, 2}
	cnt := 0
	for i := 0; i < n; i++ {
		zone := randName(r, 2, 6)
		if len(zone) == 0 {
			zone = [][]byte{[]byte("example")}
		}
		if i%13 == 0 {
			zone = nil // root zone
		}
		var name [][]byte
		switch r.Intn(6) {
		case 0: // outside: sibling
			name = append(randName(r, 2, 5), flipCase(r, zone)...)
			if len(name) > 0 && len(zone) > 0 {
				k := len(name) - len(zone)
				name[k] = append([]byte("x"), name[k]...)
			}
		case 1: // outside: the parent of the zone
			if len(zone) > 0 {
				name = flipCase(r, zone[1:])
			}
		case 2: // the apex
			name = flipCase(r, zone)
		default:
			name = append(randName(r, 3, 6), flipCase(r, zone)...)
		}
		if !validWire(name) {
			continue
		}
		iter := uint16(r.Intn(4))
		salt := salts[r.Intn(5)]
		sb, _ := saltBytes(salt)
		xh := refNsec3Hash(name, sb, int(iter))
		for _, do := range deltas {
			for _, dn := range deltas {
				if r.Intn(3) != 0 && cnt > 100 {
					continue
				}
				oh, nh := addHash(xh, do), addHash(xh, dn)
				// spread: sometimes far away values with the same ordering
				if do != 0 && r.Intn(3) == 0 {
					oh = addHash(xh, do*(1+r.Intn(1<<30)))
				}
				if dn != 0 && r.Intn(3) == 0 {
					nh = addHash(xh, dn*(1+r.Intn(1<<30)))
				}
				cnt++
				n3Case(r, zone, name, oh, nh, 1, iter, salt, r.Intn(3) == 0, false, cnt < 500 || cnt%20 == 0)
			}
		}
		// extreme hashes: 00..0 and ff..f as owner / next (wrap-around at the ends of the circle)
		zero, ones := make([]byte, 20), bytes.Repeat([]byte{0xff}, 20)
		n3Case(r, zone, name, ones, zero, 1, iter, salt, false, false, i < 30)
		n3Case(r, zone, name, zero, ones, 1, iter, salt, true, false, i < 30)
		n3Case(r, zone, name, r.Bytes(20), r.Bytes(20), 1, iter, salt, false, false, i < 60)
		if i%5 == 0 {
			// no hash: unsupported algorithm / bad salt, on all three shapes
			a, b := r.Bytes(20), r.Bytes(20)
			n3Case(r, zone, name, a, b, 2, iter, salt, false, false, i < 100)
			n3Case(r, zone, name, b, a, 0, iter, salt, false, false, i < 100)
			n3Case(r, zone, name, a, a, 1, iter, "abc", false, false, i < 100)
			// NextDomain in lower case (zone-file text is stored as written)
			n3Case(r, zone, name, addHash(xh, -5), addHash(xh, 5), 1, iter, salt, true, true, i < 100)
			n3Case(r, zone, name, addHash(xh, 5), addHash(xh, -5), 1, iter, salt, false, true, i < 100)
			m := 1 << (5 * r.Intn(6))
			n3Case(r, zone, name, addHash(xh, 10*m), addHash(xh, 5*m), 1, iter, salt, false, true, i < 100)
			n3Case(r, zone, name, addHash(xh, -5*m), addHash(xh, -10*m), 1, iter, salt, true, true, i < 100)
			n3Case(r, zone, name, addHash(xh, -5*m), addHash(xh, 7*m), 1, iter, salt, true, true, i < 100)
		}
	}
	for k, v := range n3shape {
		st["n3_"+k] = v
	}
}

// ---------------------------------------------------------------- validity period
type valIn struct {
	Inception  uint32 `json:"inception"`
	Expiration uint32 `json:"expiration"`
	T          int64  `json:"t_unix"`
}

func serialLe(a, b int64) bool { return uint32(b-a) < 1<<31 } // RFC 1982, a <= b
func serialDist(a, b int64) int64 {
	d1, d2 := int64(uint32(b-a)), int64(uint32(a-b))
	if d1 < d2 {
		return d1
	}
	return d2
}

func valCase(i, e uint32, t int64, emit bool) {
	if t == -62135596800 { // the zero time.Time means "now"
		return
	}
	rr := &dns.RRSIG{Inception: i, Expiration: e}
	got := rr.ValidityPeriod(time.Unix(t, 0))
	in := valIn{i, e, t}
	st["validity_checked"]++
	abs := func(x int64) int64 {
		if x < 0 {
			return -x
		}
		return x
	}
	if abs(int64(i)-t) < 1<<31 && abs(int64(e)-t) < 1<<31 {
		st["validity_within68"]++
		if got != (int64(i) <= t && t <= int64(e)) {
			Viol("C17/ValidityPeriod/plain", fmt.Sprintf("ValidityPeriod=%v but inception<=t<=expiration is %v", got, !got), in)
		}
	} else if t >= 0 && serialDist(int64(i), t) < 1<<30 && serialDist(int64(e), t) < 1<<30 && serialLe(int64(i), int64(e)) {
		// within 68 years of both in RFC 1982 serial arithmetic only: the interval or t crosses a 2^32 boundary.
		// Only unambiguous cases: lifetime below 2^31 and t within 34 years (2^30) of both fields.
		st["validity_serial_only"]++
		// observation only (docs/C17.md): the property reads "within 68 years" on the integers, which excludes these
		if want := serialLe(int64(i), t) && serialLe(t, int64(e)); got != want {
			st["validity_serial_only_differs_from_rfc1982"]++
		}
	}
	if emit {
		Emit("validity", []string{fmt.Sprint(i), fmt.Sprint(e), fmt.Sprint(t)}, Btoa(got))
	}
	// the instants of the second that begins at t (round 9b): t + 1 ns .. t + 999999999 ns
	for k, ns := range subSecond {
		valCaseNs(i, e, t, ns, emit && k%3 == 0)
	}
}

// Sub-second parts: the fields count whole seconds (RFC 4034 3.1.5), a time.Time counts nanoseconds. An instant
// sec + ns/1e9 with 0 < ns < 1e9 lies in the second numbered sec (seconds elapsed since the epoch), and
//   - before the inception when sec < inception (sec + 1 <= inception, the instant is below it as a real number):
//     not valid, however close to the inception it is (0.4 s, 1 ns before);
//   - inside when inception <= sec and sec < expiration: valid;
//   - after when sec > expiration: not valid;
//   - sec == expiration: the instant lies in the expiration second but after its start. "t <= expiration" read on
//     the real line says no, read on the seconds the fields count it says yes; the property does not decide, the
//     harness only counts what the library answers (st validity_subsecond_in_expiration_second_*).
// All of it for times within 68 years of both fields on either end of the second (sec and sec + 1).
var subSecond = []int64{1, 400000000, 499999999, 500000000, 500000001, 600000000, 999999999}
var otherZone = time.FixedZone("UTC+05:30:07", 5*3600+30*60+7)

type valNsIn struct {
	Inception  uint32 `json:"inception"`
	Expiration uint32 `json:"expiration"`
	Sec        int64  `json:"t_seconds"`
	Ns         int64  `json:"t_nanoseconds"`
	Zone       string `json:"zone"`
}

func valCaseNs(i, e uint32, sec, ns int64, emit bool) {
	abs := func(x int64) int64 {
		if x < 0 {
			return -x
		}
		return x
	}
	for _, d := range []int64{0, 1} {
		if abs(int64(i)-sec-d) >= 1<<31 || abs(int64(e)-sec-d) >= 1<<31 {
			return
		}
	}
	for zi, tm := range []time.Time{time.Unix(sec, ns), time.Unix(sec, ns).UTC(), time.Unix(sec, ns).In(otherZone)} {
		if tm.IsZero() {
			continue
		}
		rr := &dns.RRSIG{Inception: i, Expiration: e}
		got := rr.ValidityPeriod(tm)
		st["validity_subsecond_checked"]++
		in := valNsIn{i, e, sec, ns, tm.Location().String()}
		switch {
		case sec >= int64(i) && sec == int64(e):
			st["validity_subsecond_in_expiration_second_"+Btoa(got)]++
			continue
		case sec < int64(i) || sec > int64(e):
			if got {
				Viol("C17/ValidityPeriod/sub-second", fmt.Sprintf("ValidityPeriod=true for t = %d s + %d ns, which lies %s", sec, ns,
					map[bool]string{true: "before the inception", false: "after the expiration second"}[sec < int64(i)]), in)
			}
		default:
			if !got {
				Viol("C17/ValidityPeriod/sub-second", fmt.Sprintf("ValidityPeriod=false for t = %d s + %d ns with inception <= t < expiration", sec, ns), in)
			}
		}
		if emit && zi == 0 { // the model's verdict for the second the instant lies in
			Emit("validity", []string{fmt.Sprint(i), fmt.Sprint(e), fmt.Sprint(sec)}, Btoa(got))
		}
	}
}

func runValidity(r *Rng, n int) {
	pts := []int64{0, 1, 1 << 31, 1<<31 - 1, 1<<31 + 1, 1<<32 - 1, 1<<32 - 2, 1700000000, 1293942305, 1296534305}
	u32 := func(x int64) uint32 { return uint32(x) }
	// boundaries: t around inception and expiration
	for _, i := range pts {
		for _, e := range pts {
			for _, d := range []int64{-1, 0, 1} {
				valCase(u32(i), u32(e), int64(u32(i))+d, (i+e)%3 == 0)
				valCase(u32(i), u32(e), int64(u32(e))+d, (i+e)%3 == 1)
			}
		}
	}
	// distances around 2^31 and times around 2^32
	for _, b := range []int64{1 << 31, 1 << 32, 3 << 31, 0} {
		for _, d := range []int64{-2, -1, 0, 1, 2} {
			for _, i := range []int64{0, 100, 1<<31 - 1, 1 << 31, 1<<32 - 100, 1<<32 - 1} {
				valCase(u32(i), u32(i+1000), i+b+d, true)
				valCase(u32(i-1000), u32(i), i+b+d, true)
				valCase(u32(i), u32(i+1<<31+d), i+b/2, true)
			}
		}
	}
	// wrap-around intervals (inception numerically above expiration)
	valCase(4294967040, 256, 4294967168, true)
	valCase(4294967040, 256, 4294967296+100, true)
	valCase(50, 200, 4294967296+100, true)
	for k := 0; k < n; k++ {
		i := uint32(r.Next())
		var e uint32
		switch r.Intn(3) {
		case 0:
			e = uint32(r.Next())
		default:
			e = i + uint32(r.Intn(1<<25))
		}
		var t int64
		switch r.Intn(5) {
		case 0:
			t = int64(r.Next()%(1<<34)) - 1<<32
		case 1:
			t = int64(e) + int64(r.Intn(5)) - 2
		case 2:
			t = int64(i) + int64(r.Intn(5)) - 2 + int64(r.Intn(2))<<32
		default:
			t = int64(i) + int64(r.Intn(1<<26)) - 1<<24
		}
		valCase(i, e, t, k < 200)
	}
	// StringToTime (observation, tie of the model only)
	for _, u := range []int64{0, 1, 1<<31 - 1, 1 << 31, 1<<32 - 1, 1 << 32, 1<<32 + 1, 3<<31 - 1, 3 << 31, 1<<33 - 1, 1 << 33, 1700000000, 5000000000, 7000000000} {
		s := time.Unix(u, 0).UTC().Format("20060102150405")
		v, err := dns.StringToTime(s)
		if err == nil {
			Emit("s2t", []string{fmt.Sprint(u)}, fmt.Sprint(v))
			st["s2t_checked"]++
			if v != uint32(u) {
				st["s2t_not_mod_2_32"]++
			}
		}
	}
}

// ---------------------------------------------------------------- key encodings (hooks)
func bigOf(b []byte) *big.Int { return new(big.Int).SetBytes(b) }

func rsaDecCase(buf []byte) {
	k := mkKey("example.", 256, 3, 8, buf)
	e, n, ok := dns.VerifPublicKeyRSA(k)
	out := "nil"
	if ok {
		out = fmt.Sprintf("%d,%s", e, Hx(n))
	}
	st["rsa_dec_checked"]++
	Emit("rsa_dec", []string{Hx(buf)}, out)
}

func runKeyEnc(r *Rng, n int) {
	// exponentToBuf / setPublicKeyRSA / publicKeyRSA
	exps := []int{1, 3, 255, 256, 65537, 1<<24 - 1, 1 << 24, 1<<31 - 1, 1 << 31, 1<<32 + 1, 1 << 40}
	for _, e := range exps {
		Emit("exp2buf", []string{fmt.Sprint(e)}, Hx(dns.VerifExponentToBuf(e)))
	}
	mods := []int{63, 64, 65, 128, 511, 512, 513}
	for _, ml := range mods {
		for _, e := range exps {
			nb := r.Bytes(ml)
			nb[0] |= 0x80
			k := &dns.DNSKEY{Algorithm: 8}
			dns.VerifSetPublicKeyRSA(k, e, bigOf(nb))
			buf, _ := base64.StdEncoding.DecodeString(k.PublicKey)
			if ml < 200 || e == 65537 {
				Emit("rsa_enc", []string{fmt.Sprint(e), Hx(nb)}, Hx(buf))
				rsaDecCase(buf)
			}
			// direct oracle: what setPublicKeyRSA writes, publicKeyRSA reads back (where RFC 3110 / crypto limits allow)
			e2, n2, ok := dns.VerifPublicKeyRSA(&dns.DNSKEY{Algorithm: 8, PublicKey: k.PublicKey})
			st["rsa_roundtrip_checked"]++
			should := e <= 1<<31-1 && ml >= 64 && ml <= 512
			if should && (!ok || e2 != e || !bytes.Equal(n2, nb)) {
				Viol("C17/RSA/roundtrip", "publicKeyRSA(setPublicKeyRSA(E, N)) != (E, N)", map[string]string{"e": fmt.Sprint(e), "n": Hx(nb)})
			}
			if !should && ok {
				Viol("C17/RSA/accepts-out-of-range", "publicKeyRSA accepted an exponent or modulus outside its documented limits", map[string]string{"e": fmt.Sprint(e), "n": Hx(nb)})
			}
		}
	}
	// hand-made key buffers around every check of publicKeyRSA
	mk := func(hdr []byte, el int, e0 byte, ml int, m0 byte) []byte {
		b := append([]byte{}, hdr...)
		e := r.Bytes(el)
		if el > 0 {
			e[0] = e0
		}
		m := r.Bytes(ml)
		if ml > 0 {
			m[0] = m0
		}
		return append(append(b, e...), m...)
	}
	for _, ml := range []int{59, 60, 62, 63, 64, 65, 100, 512, 513} {
		for el := 0; el <= 5; el++ {
			rsaDecCase(mk([]byte{byte(el)}, el, 1, ml, 0x80))
			rsaDecCase(mk([]byte{0, 0, byte(el)}, el, 1, ml, 0x80))
		}
		rsaDecCase(mk([]byte{3}, 3, 0, ml, 0x80))         // leading zero in exponent
		rsaDecCase(mk([]byte{3}, 3, 1, ml, 0))            // leading zero in modulus
		rsaDecCase(mk([]byte{4}, 4, 0x7f, ml, 0x80))      // largest exponents
		rsaDecCase(mk([]byte{4}, 4, 0x80, ml, 0x80))      // > 2^31-1
		rsaDecCase(mk([]byte{0, 1, 0}, 256, 1, ml, 0x80)) // 256-octet exponent
	}
	for i := 0; i < n; i++ {
		rsaDecCase(r.Bytes(60 + r.Intn(12)))
	}
	// intToBytes / curveToBuf / publicKeyECDSA
	for i := 0; i < 40; i++ {
		l := []int{32, 48}[i%2]
		xl := []int{0, 1, l - 1, l, l, l, l + 1}[r.Intn(7)]
		x, y := r.Bytes(xl), r.Bytes([]int{l, l, l - 1, 1}[r.Intn(4)])
		if len(x) > 0 && i%3 == 0 {
			x[0] = 0
		}
		Emit("i2b", []string{Hx(x), Itoa(l)}, Hx(dns.VerifIntToBytes(bigOf(x), l)))
		buf := dns.VerifCurveToBuf(bigOf(x), bigOf(y), l)
		Emit("curve", []string{Hx(x), Hx(y), Itoa(l)}, Hx(buf))
		alg := uint8(13 + i%2)
		if i%11 == 0 {
			alg = 13 + uint8(1-i%2) // length does not fit the algorithm
		}
		k := mkKey("example.", 256, 3, alg, buf)
		gx, gy, ok := dns.VerifPublicKeyECDSA(k)
		out := "nil"
		if ok {
			out = Hx(gx) + "," + Hx(gy)
		}
		Emit("ecdsa_dec", []string{Itoa(int(alg)), Hx(buf)}, out)
		st["ecdsa_checked"]++
		if xl <= l && len(y) <= l && int(alg) == 13+i%2 {
			if !ok || bigOf(gx).Cmp(bigOf(x)) != 0 || bigOf(gy).Cmp(bigOf(y)) != 0 {
				Viol("C17/ECDSA/roundtrip", "publicKeyECDSA(curveToBuf(X, Y)) != (X, Y)", map[string]string{"x": Hx(x), "y": Hx(y)})
			}
		}
	}
}

// ---------------------------------------------------------------- private key text
func kvCases(text string, probes []string) {
	m, err := dns.VerifParseKey(text)
	for _, p := range probes {
		out := "err"
		if err == nil && m != nil {
			if v, ok := m[p]; ok {
				out = "ok:" + Hs(v)
			} else {
				out = "none"
			}
		}
		Emit("kvget", []string{Hs(text), Hs(p)}, out)
		st["kv_checked"]++
	}
}

func runKeyText(r *Rng) {
	texts := []string{
		"Private-key-format: v1.3\nAlgorithm: 15 (ED25519)\nPrivateKey: AAAA\n",
		"Private-key-format: v1.3\nAlgorithm: 15 (ED25519)\nPrivateKey: AAAA", // no final newline
		"; comment\nKey: value ; trailing comment\n\n\nOther:x\nThird:  two spaces\n",
		"Key: a:b:c\nKey: second\n", // colon inside a value, repeated key
		"novalue\n",                 // a value without a key
		": v\n",                     // empty key
		"K:\nL: v\n",                // the octet after the colon is skipped, even a newline
		"A: 1\r\nB: 2\r\n",
		"",
		"\n\n",
		"UPPER: V\nMiXed-Case: w\n",
	}
	for _, t := range texts {
		kvCases(t, []string{"private-key-format", "algorithm", "privatekey", "key", "other", "third", "k", "l", "a", "b", "upper", "mixed-case", "", "novalue", "kl"})
	}
	alpha := []byte("ab: ;\n\rK")
	for i := 0; i < 150; i++ {
		b := make([]byte, r.Intn(14))
		for j := range b {
			b[j] = alpha[r.Intn(len(alpha))]
		}
		kvCases(string(b), []string{"a", "b", "k"})
	}
}

// ---------------------------------------------------------------- generated keys: export, re-read, cross sign/verify
type genIn struct {
	Alg   uint8  `json:"algorithm"`
	Bits  int    `json:"bits"`
	Pub   string `json:"public_key"`
	What  string `json:"what"`
	Flags uint16 `json:"flags,omitempty"`
}

func testRRset() []dns.RR {
	a1, _ := dns.NewRR("www.Example.org. 300 IN A 192.0.2.1")
	a2, _ := dns.NewRR("www.Example.org. 300 IN A 192.0.2.2")
	return []dns.RR{a1, a2}
}

func pubFromDNSKEY(k *dns.DNSKEY) crypto.PublicKey {
	buf, err := base64.StdEncoding.DecodeString(k.PublicKey)
	if err != nil {
		return nil
	}
	switch k.Algorithm {
	case 15:
		return ed25519.PublicKey(buf)
	case 13, 14:
		h := len(buf) / 2
		return [2]*big.Int{bigOf(buf[:h]), bigOf(buf[h:])}
	default: // RFC 3110
		if len(buf) < 3 {
			return nil
		}
		el, off := int(buf[0]), 1
		if el == 0 {
			el, off = int(buf[1])<<8|int(buf[2]), 3
		}
		if off+el > len(buf) {
			return nil
		}
		return &rsa.PublicKey{E: int(bigOf(buf[off : off+el]).Int64()), N: bigOf(buf[off+el:])}
	}
}

func samePub(k *dns.DNSKEY, priv crypto.PrivateKey) bool {
	p := pubFromDNSKEY(k)
	switch pk := priv.(type) {
	case ed25519.PrivateKey:
		q, ok := p.(ed25519.PublicKey)
		return ok && bytes.Equal(q, pk.Public().(ed25519.PublicKey))
	case *ecdsa.PrivateKey:
		q, ok := p.([2]*big.Int)
		return ok && q[0].Cmp(pk.PublicKey.X) == 0 && q[1].Cmp(pk.PublicKey.Y) == 0
	case *rsa.PrivateKey:
		q, ok := p.(*rsa.PublicKey)
		return ok && q.E == pk.PublicKey.E && q.N.Cmp(pk.PublicKey.N) == 0
	}
	return false
}

func genCase(r *Rng, alg uint8, bits int) {
	k := &dns.DNSKEY{Hdr: dns.RR_Header{Name: "example.org.", Rrtype: dns.TypeDNSKEY, Class: dns.ClassINET, Ttl: 3600},
		Flags: genFlags(r), Protocol: 3, Algorithm: alg} // any flags value with the ZONE bit: 256, 257, 384, 385, 0x8100, 0xFFFF, random
	priv, err := k.Generate(bits)
	in := genIn{Alg: alg, Bits: bits, Flags: k.Flags}
	st["gen_checked"]++
	st[fmt.Sprintf("gen_alg%d", alg)]++
	if err != nil {
		Viol("C17/Generate/error", "Generate failed: "+err.Error(), in)
		return
	}
	in.Pub = k.PublicKey
	if !samePub(k, priv) {
		in.What = "public key in the DNSKEY (decoded per RFC 3110 / 6605 / 8080) is not the generated key's public key"
		Viol("C17/Generate/public-key-encoding", in.What, in)
	}
	buf, _ := base64.StdEncoding.DecodeString(k.PublicKey)
	if k.KeyTag() != refKeyTag(dnskeyRdata(k.Flags, 3, alg, buf)) {
		Viol("C17/KeyTag/value", "key tag of a generated key differs from RFC 4034 App. B", in)
	}
	text := k.PrivateKeyString(priv)
	priv2, err := k.NewPrivateKey(text)
	if err != nil || priv2 == nil {
		in.What = "NewPrivateKey(PrivateKeyString(key)) failed"
		Viol("C17/PrivateKey/reread", in.What, in)
		return
	}
	// text layout: every line "Field: base64", fields hold big-endian integers of the key
	lines := strings.Split(strings.TrimSuffix(text, "\n"), "\n")
	fields := map[string][]byte{}
	for i, l := range lines {
		kv := strings.SplitN(l, ": ", 2)
		if len(kv) != 2 {
			Viol("C17/PrivateKey/layout", "line without ': '", in)
			continue
		}
		if i >= 2 {
			b, err := base64.StdEncoding.DecodeString(kv[1])
			if err != nil {
				Viol("C17/PrivateKey/layout", "field is not base64", in)
			}
			fields[kv[0]] = b
		}
	}
	if lines[0] != "Private-key-format: v1.3" || !strings.HasPrefix(lines[1], fmt.Sprintf("Algorithm: %d (", alg)) {
		Viol("C17/PrivateKey/layout", "header lines", in)
	}
	switch pk := priv.(type) {
	case ed25519.PrivateKey:
		if !bytes.Equal(fields["PrivateKey"], pk.Seed()) {
			Viol("C17/PrivateKey/layout", "Ed25519 PrivateKey field is not the seed", in)
		}
	case *ecdsa.PrivateKey:
		il := map[uint8]int{13: 32, 14: 48}[alg]
		if len(fields["PrivateKey"]) != il || bigOf(fields["PrivateKey"]).Cmp(pk.D) != 0 {
			Viol("C17/PrivateKey/layout", "ECDSA PrivateKey field is not the fixed-width D", in)
		}
	case *rsa.PrivateKey:
		chk := func(name string, v *big.Int) {
			if !bytes.Equal(fields[name], v.Bytes()) {
				Viol("C17/PrivateKey/layout", "RSA field "+name+" is not the minimal big-endian integer", in)
			}
		}
		chk("Modulus", pk.N)
		chk("PublicExponent", big.NewInt(int64(pk.E)))
		chk("PrivateExponent", pk.D)
		chk("Prime1", pk.Primes[0])
		chk("Prime2", pk.Primes[1])
		p1 := new(big.Int).Sub(pk.Primes[0], big.NewInt(1))
		q1 := new(big.Int).Sub(pk.Primes[1], big.NewInt(1))
		chk("Exponent1", new(big.Int).Mod(pk.D, p1))
		chk("Exponent2", new(big.Int).Mod(pk.D, q1))
		chk("Coefficient", new(big.Int).ModInverse(pk.Primes[1], pk.Primes[0]))
	}
	// model of the lexer on the real text (short keys only: Ed25519 / ECDSA)
	if len(text) < 200 {
		kvCases(text, []string{"private-key-format", "algorithm", "privatekey", "modulus"})
	}
	// the same private key material
	same := false
	switch a := priv.(type) {
	case ed25519.PrivateKey:
		b, ok := priv2.(ed25519.PrivateKey)
		same = ok && bytes.Equal(a, b)
	case *ecdsa.PrivateKey:
		b, ok := priv2.(*ecdsa.PrivateKey)
		same = ok && a.D.Cmp(b.D) == 0 && a.PublicKey.X.Cmp(b.PublicKey.X) == 0 && a.PublicKey.Y.Cmp(b.PublicKey.Y) == 0 && a.Curve == b.Curve
	case *rsa.PrivateKey:
		b, ok := priv2.(*rsa.PrivateKey)
		same = ok && a.D.Cmp(b.D) == 0 && a.N.Cmp(b.N) == 0 && a.E == b.E && len(b.Primes) == 2 &&
			a.Primes[0].Cmp(b.Primes[0]) == 0 && a.Primes[1].Cmp(b.Primes[1]) == 0
	}
	if !same {
		in.What = "re-read private key differs from the original"
		Viol("C17/PrivateKey/reread", in.What, in)
	}
	// sign with either, verify with the DNSKEY and with a DNSKEY re-read from text
	krr, err := dns.NewRR(k.String())
	if err != nil {
		Viol("C17/Generate/dnskey-text", "DNSKEY text does not parse: "+err.Error(), in)
		return
	}
	k2 := krr.(*dns.DNSKEY)
	for which, p := range []crypto.PrivateKey{priv, priv2} {
		signer, ok := p.(crypto.Signer)
		if !ok {
			Viol("C17/PrivateKey/signer", "key is not a crypto.Signer", in)
			continue
		}
		sig := &dns.RRSIG{Hdr: dns.RR_Header{Ttl: 300}, Algorithm: alg, Expiration: 1700003600, Inception: 1700000000,
			KeyTag: k.KeyTag(), SignerName: "example.org."}
		rrset := testRRset()
		if err := sig.Sign(signer, rrset); err != nil {
			in.What = fmt.Sprintf("Sign with key %d failed: %v", which, err)
			signFailed(k, err, in.What, in)
			continue
		}
		for _, kk := range []*dns.DNSKEY{k, k2} {
			st["crosssign_checked"]++
			if err := sig.Verify(kk, rrset); err != nil {
				in.What = fmt.Sprintf("signature made with key %d (0 generated, 1 re-read) does not verify: %v", which, err)
				Viol("C17/PrivateKey/cross-verify", in.What, in)
			}
		}
	}
}

// ECDSA private keys whose D has leading zero octets: the PrivateKey field must still have the fixed width
func smallDCase(r *Rng, alg uint8, d *big.Int) {
	curve, il := elliptic.P256(), 32
	if alg == 14 {
		curve, il = elliptic.P384(), 48
	}
	x, y := curve.ScalarBaseMult(d.Bytes())
	priv := &ecdsa.PrivateKey{PublicKey: ecdsa.PublicKey{Curve: curve, X: x, Y: y}, D: d}
	k := &dns.DNSKEY{Hdr: dns.RR_Header{Name: "example.org.", Rrtype: dns.TypeDNSKEY, Class: dns.ClassINET, Ttl: 3600},
		Flags: 257, Protocol: 3, Algorithm: alg}
	dns.VerifSetPublicKeyECDSA(k, x, y)
	in := genIn{Alg: alg, Bits: il * 8, Pub: k.PublicKey, What: "D=" + d.Text(16)}
	st["ecdsa_small_d_checked"]++
	if !samePub(k, priv) {
		Viol("C17/Generate/public-key-encoding", "setPublicKeyECDSA does not write fixed-width X | Y", in)
	}
	text := k.PrivateKeyString(priv)
	for _, l := range strings.Split(text, "\n") {
		if v, ok := strings.CutPrefix(l, "PrivateKey: "); ok {
			b, err := base64.StdEncoding.DecodeString(v)
			if err != nil || len(b) != il || bigOf(b).Cmp(d) != 0 {
				Viol("C17/PrivateKey/layout", fmt.Sprintf("ECDSA PrivateKey field has %d octets, expected the fixed width %d", len(b), il), in)
			}
		}
	}
	p2, err := k.NewPrivateKey(text)
	if err != nil {
		Viol("C17/PrivateKey/reread", "NewPrivateKey failed: "+err.Error(), in)
		return
	}
	e2, ok := p2.(*ecdsa.PrivateKey)
	if !ok || e2.D.Cmp(d) != 0 || e2.X.Cmp(x) != 0 || e2.Y.Cmp(y) != 0 {
		Viol("C17/PrivateKey/reread", "re-read ECDSA key differs", in)
		return
	}
	sig := &dns.RRSIG{Hdr: dns.RR_Header{Ttl: 300}, Algorithm: alg, Expiration: 1700003600, Inception: 1700000000, KeyTag: k.KeyTag(), SignerName: "example.org."}
	rrset := testRRset()
	if err := sig.Sign(e2, rrset); err != nil {
		signFailed(k, err, "Sign with the re-read key failed: "+err.Error(), in)
		return
	}
	if err := sig.Verify(k, rrset); err != nil {
		Viol("C17/PrivateKey/cross-verify", "signature of the re-read key does not verify: "+err.Error(), in)
	}
}

func runGen(r *Rng, tier string) {
	for _, alg := range []uint8{13, 14} {
		il := map[uint8]int{13: 32, 14: 48}[alg]
		smallDCase(r, alg, big.NewInt(1))
		smallDCase(r, alg, big.NewInt(int64(2+r.Intn(1<<30))))
		for z := 1; z <= 3; z++ { // z leading zero octets
			b := r.Bytes(il - z)
			b[0] |= 1
			smallDCase(r, alg, bigOf(b))
		}
	}
	nEd, nP256, nP384 := 8, 4, 2
	rsaSizes := map[uint8][]int{8: {1024}, 5: {1024}, 7: {1024}, 10: {1024}} // Go >= 1.24 refuses to generate RSA keys below 1024 bits
	if tier == "thorough" {
		nEd, nP256, nP384 = 60, 30, 15
		rsaSizes = map[uint8][]int{8: {1024, 2048, 1536}, 5: {1024, 1280}, 7: {1024, 2048}, 10: {1024, 2048}}
	}
	for i := 0; i < nEd; i++ {
		genCase(r, 15, 256)
	}
	for i := 0; i < nP256; i++ {
		genCase(r, 13, 256)
	}
	for i := 0; i < nP384; i++ {
		genCase(r, 14, 384)
	}
	var as []int
	for a := range rsaSizes {
		as = append(as, int(a))
	}
	sort.Ints(as)
	for _, a := range as {
		for _, b := range rsaSizes[uint8(a)] {
			genCase(r, uint8(a), b)
		}
	}
	// size limits of Generate
	for _, c := range []struct {
		alg  uint8
		bits int
		ok   bool
	}{{8, 511, false}, {8, 4097, false}, {10, 1023, false}, {13, 255, false}, {13, 384, false}, {14, 256, false}, {15, 255, false}, {1, 1024, false}, {16, 456, false}} {
		k := &dns.DNSKEY{Algorithm: c.alg}
		_, err := k.Generate(c.bits)
		st["gen_limits_checked"]++
		if (err == nil) != c.ok {
			Viol("C17/Generate/size-limit", "Generate accepted an unsupported size or algorithm", genIn{Alg: c.alg, Bits: c.bits})
		}
	}
}

// ---------------------------------------------------------------- raw octets >= 0x80 in presentation names
// Names given to the library with unescaped high octets. DNS folds only ASCII A-Z (RFC 4343); Go's
// strings.ToLower / ToUpper / Map are rune based: they fold non-ASCII letters and replace invalid UTF-8 by
// U+FFFD. Fixed inputs, no randomness.
var rawSeqs = []string{
	"\xc3\x89", "\xc3\x9c", "\xce\xa9", // valid UTF-8 upper-case letters: E acute, U diaeresis, Omega
	"\xe2\x84\xaa", "\xc5\xbf", // Kelvin sign (lower-cases to k), long s (upper-cases to S)
	"\xc3\xa9",                     // e acute: lower case, no ASCII relation
	"\xff", "\xfe", "\xc3", "\x80", // invalid UTF-8
}

func rawShowName(ls [][]byte) string {
	var sb strings.Builder
	for _, l := range ls {
		sb.Write(l)
		sb.WriteByte('.')
	}
	return sb.String()
}

func asciiUpper(b []byte) []byte {
	o := make([]byte, len(b))
	for i, c := range b {
		if c >= 'a' && c <= 'z' {
			c -= 32
		}
		o[i] = c
	}
	return o
}

// class of a raw name: "invalid" (not UTF-8), "folded" (Unicode lower-casing changes more than A-Z), "plain"
func rawClass(name string) string {
	switch {
	case !utf8.ValidString(name):
		return "invalid"
	case strings.ToLower(name) != string(lowerASCII([]byte(name))):
		return "folded"
	}
	return "plain"
}

func rawNames() [][][]byte {
	var out [][][]byte
	for _, q := range rawSeqs {
		for _, x := range []string{"a" + q + "B", q, q + "Zz", "Zz" + q} {
			out = append(out,
				[][]byte{[]byte(x), []byte("Mid"), []byte("Org")},
				[][]byte{[]byte("Www"), []byte(x), []byte("Org")},
				[][]byte{[]byte("Www"), []byte("Mid"), []byte(x)})
		}
	}
	return out
}

func runRaw() {
	pub := []byte{1, 2, 3, 4, 5}
	rd := dnskeyRdata(257, 3, 8, pub)
	for ni, ls := range rawNames() {
		name := rawShowName(ls)
		cls := rawClass(name)
		st["raw_"+cls]++
		in := hashIn{Labels: labelsIn(ls), Name: name, Alg: 1}
		// ---- ToDS, all digest types
		for _, dt := range []uint8{1, 2, 4, 5} {
			ds := mkKey(name, 257, 3, 8, pub).ToDS(dt)
			pre := append(wireOf(lowerLabels(ls)), rd...)
			want := refDigest(dt, pre)
			st["raw_ds_checked"]++
			kin := keyIn{Flags: 257, Proto: 3, Alg: 8, Seed: Hx(pub), N: len(pub), Owner: labelsIn(ls), Digest: dt}
			if ds == nil || !strings.EqualFold(ds.Digest, hex.EncodeToString(want)) {
				switch cls {
				case "invalid":
					Viol("C17/ToDS/raw-invalid-utf8-replaced", "owner with a raw octet that is not UTF-8: CanonicalName (strings.Map) replaces it by U+FFFD (EF BF BD) before the digest is taken", kin)
				default:
					Viol("C17/ToDS/digest", "owner with raw non-ASCII octets: the digest is not over the owner's octets with only A-Z folded", kin)
				}
				continue
			}
			{ // the model takes the labels as octets
				dg := strings.ToLower(ds.Digest)
				if dt == 4 || dt == 5 {
					f := sha256.Sum256(pre)
					dg = hex.EncodeToString(f[:])
				}
				Emit("to_ds", []string{labelsArg(ls), "257", "3", "8", Hx(pub), Itoa(len(pub)), Itoa(int(dt))}, fmt.Sprintf("%d,8,%d,%s", ds.KeyTag, dt, dg))
			}
		}
		// ---- HashName
		for _, c := range []struct {
			iter uint16
			salt string
		}{{0, ""}, {2, "aabb"}} {
			sb, _ := saltBytes(c.salt)
			got := dns.HashName(name, 1, c.iter, c.salt)
			want := b32.EncodeToString(refNsec3Hash(ls, sb, int(c.iter)))
			in.Iter, in.Salt = c.iter, c.salt
			st["raw_hash_checked"]++
			if got != want {
				switch cls {
				case "invalid":
					Viol("C17/HashName/raw-invalid-utf8-replaced", fmt.Sprintf("HashName=%s, RFC 5155 gives %s: strings.ToLower replaces the raw non-UTF-8 octet by U+FFFD", got, want), in)
				case "folded":
					Viol("C17/HashName/raw-nonascii-folded", fmt.Sprintf("HashName=%s, RFC 5155 gives %s: strings.ToLower folds a non-ASCII letter (only A-Z are folded in DNS)", got, want), in)
				default:
					Viol("C17/HashName/value", fmt.Sprintf("HashName=%s, RFC 5155 gives %s", got, want), in)
				}
			} else {
				Emit("hash_name", []string{labelsArg(ls), "1", Itoa(int(c.iter)), c.salt}, Hs(got))
			}
		}
		// ---- Match / Cover for the name in the zone made of its last labels
		if ni%3 != 2 { // the raw octets are not in the zone part
			zone := ls[1:]
			if ni%3 == 1 {
				zone = ls[2:]
			}
			xh := refNsec3Hash(ls, nil, 0)
			for _, c := range []struct {
				oh, nh       []byte
				match, cover bool
			}{{xh, addHash(xh, 9), true, false}, {addHash(xh, -5), addHash(xh, 5), false, true}, {addHash(xh, 5), addHash(xh, -5), false, false}} {
				ownerLs := append([][]byte{[]byte(b32.EncodeToString(c.oh))}, zone...)
				rr := &dns.NSEC3{Hdr: dns.RR_Header{Name: rawShowName(ownerLs), Rrtype: dns.TypeNSEC3, Class: dns.ClassINET}, Hash: 1, HashLength: 20,
					NextDomain: b32.EncodeToString(c.nh)}
				gm, gc := rr.Match(name), rr.Cover(name)
				nin := n3In{Owner: rr.Hdr.Name, OwnerLbls: labelsIn(ownerLs), Alg: 1, Next: rr.NextDomain, Name: name, NameLbls: labelsIn(ls), NameHash: b32.EncodeToString(xh)}
				st["raw_n3_checked"]++
				if gm != c.match {
					if cls == "plain" {
						Viol("C17/Match/value", fmt.Sprintf("Match=%v, expected %v", gm, c.match), nin)
					} else {
						Viol("C17/Match/raw-nonascii-name", fmt.Sprintf("Match=%v, expected %v: the name has raw non-ASCII octets that HashName folds or replaces", gm, c.match), nin)
					}
				}
				if gc != c.cover {
					if cls == "plain" {
						Viol("C17/Cover/value", fmt.Sprintf("Cover=%v, expected %v", gc, c.cover), nin)
					} else {
						Viol("C17/Cover/raw-nonascii-name", fmt.Sprintf("Cover=%v, expected %v: the name has raw non-ASCII octets that HashName folds or replaces", gc, c.cover), nin)
					}
				}
				Emit("n3", []string{labelsArg(ownerLs), "1", "0", "", Hs(rr.NextDomain), labelsArg(ls)}, Btoa(gm)+","+Btoa(gc))
			}
		}
	}
	// ---- the zone test: labels that differ in octets but are equal after Unicode upper-casing / U+FFFD replacement
	for _, p := range [][2]string{{"\xc5\xbf", "s"}, {"\xc3\xa9", "\xc3\x89"}, {"\xff", "\xfe"}, {"z\xc3", "z\x80"}} {
		zone := [][]byte{[]byte(p[0])}
		nameLs := [][]byte{[]byte("a"), []byte(p[1])}
		name := rawShowName(nameLs)
		h := dns.HashName(name, 1, 0, "") // the library's own hash, so that only the zone test decides
		if h == "" {
			continue
		}
		mrr := &dns.NSEC3{Hdr: dns.RR_Header{Name: h + "." + rawShowName(zone), Rrtype: dns.TypeNSEC3, Class: dns.ClassINET}, Hash: 1, HashLength: 20, NextDomain: strings.Repeat("V", 32)}
		crr := &dns.NSEC3{Hdr: dns.RR_Header{Name: strings.Repeat("0", 32) + "." + rawShowName(zone), Rrtype: dns.TypeNSEC3, Class: dns.ClassINET}, Hash: 1, HashLength: 20, NextDomain: strings.Repeat("V", 32)}
		nin := n3In{Owner: mrr.Hdr.Name, Alg: 1, Next: mrr.NextDomain, Name: name, NameLbls: labelsIn(nameLs), OwnerLbls: labelsIn(zone)}
		st["raw_zone_checked"]++
		Emit("n3", []string{labelsArg(append([][]byte{[]byte(h)}, zone...)), "1", "0", "", Hs(mrr.NextDomain), labelsArg(nameLs)}, Btoa(mrr.Match(name))+","+Btoa(mrr.Cover(name)))
		Emit("n3", []string{labelsArg(append([][]byte{[]byte(strings.Repeat("0", 32))}, zone...)), "1", "0", "", Hs(crr.NextDomain), labelsArg(nameLs)}, Btoa(crr.Match(name))+","+Btoa(crr.Cover(name)))
		if mrr.Match(name) {
			Viol("C17/Match/raw-nonascii-zone-folded", "Match is true for a name outside the record's zone: the zone labels differ in octets and are equal only after strings.ToUpper (non-ASCII case folding / U+FFFD)", nin)
		}
		if crr.Cover(name) {
			nin.Owner = crr.Hdr.Name
			Viol("C17/Cover/raw-nonascii-zone-folded", "Cover is true for a name outside the record's zone: the zone labels differ in octets and are equal only after strings.ToUpper (non-ASCII case folding / U+FFFD)", nin)
		}
	}
}

// keyTagCollision: the key tag is a 16-bit checksum, not an identifier: two DNSKEYs with the same owner,
// algorithm and key tag but different key material are different keys, in whatever order they are used.
// The second key is made from a real one by swapping two aligned 16-bit words of the modulus, which keeps
// the Appendix B checksum.
func keyTagCollision() {
	rr, err := dns.NewRR(RSA4096Pub8)
	if err != nil {
		return
	}
	a := rr.(*dns.DNSKEY)
	priv, err := a.NewPrivateKey(RSA4096Priv8)
	if err != nil || priv == nil {
		Viol("C17/PrivateKey/reread", fmt.Sprintf("the text PrivateKeyString wrote for a 4096-bit RSA key cannot be re-read: %v", err), genIn{Alg: 8, Bits: 4096, Pub: a.PublicKey, Flags: a.Flags})
		return
	}
	raw, err := base64.StdEncoding.DecodeString(a.PublicKey)
	if err != nil || len(raw) < 200 {
		return
	}
	b := dns.Copy(a).(*dns.DNSKEY)
	for i := 100; i+3 < len(raw); i += 2 {
		if raw[i] != raw[i+2] || raw[i+1] != raw[i+3] {
			alt := append([]byte{}, raw...)
			alt[i], alt[i+1], alt[i+2], alt[i+3] = raw[i+2], raw[i+3], raw[i], raw[i+1]
			b.PublicKey = base64.StdEncoding.EncodeToString(alt)
			break
		}
	}
	if b.PublicKey == a.PublicKey || b.KeyTag() != a.KeyTag() {
		st["keytag_collision_not_built"]++
		return
	}
	rrset := []dns.RR{&dns.A{Hdr: dns.RR_Header{Name: "www.big.example.", Rrtype: dns.TypeA, Class: 1, Ttl: 60}, A: []byte{192, 0, 2, 1}}}
	sig := &dns.RRSIG{KeyTag: a.KeyTag(), SignerName: a.Hdr.Name, Algorithm: a.Algorithm, Inception: 1700000000, Expiration: 1800000000}
	if err := sig.Sign(priv.(crypto.Signer), rrset); err != nil {
		return
	}
	in := map[string]string{"key_a": a.String(), "key_b": b.String()}
	for round := 0; round < 2; round++ { // A then B, and again (whatever an earlier call may have remembered)
		st["keytag_collision_checked"]++
		if err := sig.Verify(a, rrset); err != nil {
			Viol("C17/keytag-collision/own-key-rejected", "a signature does not verify with the key that made it once a second key with the same tag exists: "+err.Error(), in)
		}
		if err := sig.Verify(b, rrset); err == nil {
			Viol("C17/keytag-collision/other-key-accepted", "a signature verifies with a different key that has the same owner, algorithm and key tag", in)
		}
	}
}

func runC17(r *Rng, tier string, n int) {
	keyTagCollision()
	nk, nds, nh, nn3, nv, nrsa := 400, 500, 420, 60, 1500, 20
	if tier == "thorough" {
		nk, nds, nh, nn3, nv, nrsa = 20000, 20000, 8000, 3000, 200000, 200
	}
	if n > 0 {
		nk, nds, nh, nv = n, n, n, n
	}
	runKeyTag(r, nk)
	runDS(r, nds)
	runHash(r, nh)
	runN3(r, nn3)
	runValidity(r, nv)
	runKeyEnc(r, nrsa)
	runKeyText(r)
	runRaw()
	runGen(r, tier)
	runFlags(r, tier)      // keys.go: every DNSKEY flags value
	runFixedKeys(r, tier)  // keys.go: every key size, fixed key pairs
	runKeyLines(r, tier)   // keys.go: key text with lines of any length
	runKeyFieldLens(r, tier) // keys.go: private-key fields whose decoded length is wrong for the algorithm
	runConcurrent(r, tier) // conc.go: the same calls from many goroutines at once
	Stat(st)
}
