(* Proofs/TruncateProofs.v — structural facts about Msg.Truncate. *)
From Dns Require Import Base.ListX Model.Truncate.
From Dns Require Import Gen.Consts.
From Coq Require Import Lia ZifyN ZifyNat ZifyBool.
Open Scope N_scope.

Definition is_prefix {A} (p l : list A) : Prop := exists r, l = p ++ r.
Lemma firstn_prefix {A} n (l : list A) : is_prefix (firstn n l) l.
Proof. exists (skipn n l). symmetry. apply firstn_skipn. Qed.

(* truncateLoop keeps i + (a number of) records, never more than there are *)
Lemma truncate_loop_count rrs : forall size l c i,
  let '(l', k, _) := truncate_loop rrs size l c i in
  (i <= k <= i + length rrs)%nat /\
  ((k < i + length rrs)%nat -> l' = size).
Proof.
  induction rrs as [|r t IH]; intros size l c i; cbn [truncate_loop length].
  - split; lia.
  - destruct (len_rr r (Z.to_N l) c) as [n c'].
    destruct (size <? l + Z.of_N n)%Z eqn:H1.
    + split; [lia|reflexivity].
    + destruct (l + Z.of_N n =? size)%Z eqn:H2.
      * split; [lia|]. intros _. lia.
      * specialize (IH size (l + Z.of_N n)%Z c' (S i)).
        destruct (truncate_loop t size (l + Z.of_N n) c' (S i)) as [[l' k] c''].
        destruct IH as [IH1 IH2]. split; [lia|]. intro H. apply IH2. lia.
Qed.

Lemma trunc_section_count rrs size st :
  let '(l', k, _) := trunc_section rrs size st in
  (k <= length rrs)%nat /\ ((k < length rrs)%nat -> (size <= l')%Z) /\ ((size <= fst st)%Z -> k = 0%nat /\ l' = fst st).
Proof.
  unfold trunc_section. destruct (fst st <? size)%Z eqn:E.
  - pose proof (truncate_loop_count rrs size (fst st) (snd st) 0) as H.
    destruct (truncate_loop rrs size (fst st) (snd st) 0) as [[l' k] c']. destruct H as [H1 H2].
    split; [lia|]. split; [intro H; rewrite H2 by lia; lia|]. intro H. lia.
  - split; [lia|]. split; [lia|]. auto.
Qed.

(* what Truncate does when the message does not fit uncompressed *)
Lemma truncate_drop m size :
  has_tsig m = false ->
  (Z.max size (Z.of_N c_MinMsgSize) < Z.of_N (msg_len_with m None))%Z ->
  exists na nn ne,
    let extra := snd (pop_edns0 (m_extra m)) in
    let opt := fst (pop_edns0 (m_extra m)) in
    truncate m size =
      set_sections m (m_tc m || Nat.ltb na (length (m_answer m)) || Nat.ltb nn (length (m_ns m)) || Nat.ltb ne (length extra))
                   true (firstn na (m_answer m)) (firstn nn (m_ns m))
                   (firstn ne extra ++ match opt with Some o => [o] | None => [] end) /\
    (na <= length (m_answer m))%nat /\ (nn <= length (m_ns m))%nat /\ (ne <= length extra)%nat /\
    ((na < length (m_answer m))%nat -> nn = 0%nat /\ ne = 0%nat) /\
    ((nn < length (m_ns m))%nat -> ne = 0%nat).
Proof.
  intros Ht Hl. unfold truncate. rewrite Ht.
  set (sz := if (size <? Z.of_N c_MinMsgSize)%Z then Z.of_N c_MinMsgSize else size).
  assert (Hsz : sz = Z.max size (Z.of_N c_MinMsgSize)) by (unfold sz; destruct (size <? _)%Z eqn:E; lia).
  replace (Z.of_N (msg_len_with m None) <=? sz)%Z with false by lia.
  destruct (pop_edns0 (m_extra m)) as [opt extra] eqn:Hpop. cbn [fst snd].
  set (sz' := match opt with Some o => (sz - Z.of_N (rr_len o))%Z | None => sz end).
  set (a := questions_len (m_question m)).
  pose proof (trunc_section_count (m_answer m) sz' (Z.of_N (fst a), snd a)) as HA.
  destruct (trunc_section (m_answer m) sz' (Z.of_N (fst a), snd a)) as [[l1 na] c1].
  pose proof (trunc_section_count (m_ns m) sz' (l1, c1)) as HN.
  destruct (trunc_section (m_ns m) sz' (l1, c1)) as [[l2 nn] c2].
  pose proof (trunc_section_count extra sz' (l2, c2)) as HE.
  destruct (trunc_section extra sz' (l2, c2)) as [[l3 ne] c3].
  cbn [fst snd] in *.
  destruct HA as [HA1 [HA2 _]]. destruct HN as [HN1 [HN2 HN3]]. destruct HE as [HE1 [_ HE3]].
  exists na, nn, ne. split; [reflexivity|].
  split; [exact HA1|]. split; [exact HN1|]. split; [exact HE1|]. split.
  - intro H. specialize (HA2 H). destruct (HN3 HA2) as [-> ->]. destruct (HE3 HA2) as [-> _]. auto.
  - intro H. specialize (HN2 H). destruct (HE3 HN2) as [-> _]. reflexivity.
Qed.

Lemma truncate_fits m size :
  has_tsig m = false ->
  (Z.of_N (msg_len_with m None) <= Z.max size (Z.of_N c_MinMsgSize))%Z ->
  truncate m size = set_sections m (m_tc m) false (m_answer m) (m_ns m) (m_extra m).
Proof.
  intros Ht Hl. unfold truncate. rewrite Ht.
  destruct (size <? Z.of_N c_MinMsgSize)%Z eqn:Hs.
  - replace (Z.of_N (msg_len_with m None) <=? Z.of_N c_MinMsgSize)%Z with true by lia. reflexivity.
  - replace (Z.of_N (msg_len_with m None) <=? size)%Z with true by lia. reflexivity.
Qed.

Lemma truncate_tsig m size : has_tsig m = true -> truncate m size = m.
Proof. intro H. unfold truncate. now rewrite H. Qed.

(* popEdns0 removes exactly the last OPT record and keeps the order of the rest *)
Lemma last_opt_index_spec ex : forall i acc,
  match last_opt_index ex i acc with
  | None => acc = None /\ forallb (fun r => negb (is_opt r)) ex = true
  | Some k =>
    (Some k = acc /\ forallb (fun r => negb (is_opt r)) ex = true) \/
    (exists pre o post, ex = pre ++ o :: post /\ is_opt o = true /\
                        forallb (fun r => negb (is_opt r)) post = true /\ k = (i + length pre)%nat)
  end.
Proof.
  induction ex as [|r t IH]; intros i acc; cbn [last_opt_index].
  - destruct acc; [left|]; auto.
  - specialize (IH (S i) (if is_opt r then Some i else acc)).
    destruct (last_opt_index t (S i) (if is_opt r then Some i else acc)) as [k|].
    + destruct IH as [[Hk Hall]|[pre [o [post [Ht [Ho [Hp Hk]]]]]]].
      * destruct (is_opt r) eqn:Hr.
        -- injection Hk as ->. right. exists [], r, t. cbn. repeat split; auto; lia.
        -- left. cbn. rewrite Hr. auto.
      * right. exists (r :: pre), o, post. cbn. rewrite Ht. repeat split; auto; lia.
    + destruct IH as [Hacc Hall]. destruct (is_opt r) eqn:Hr; [discriminate|]. cbn. rewrite Hr. auto.
Qed.

Lemma remove_nth_app {A} (pre : list A) x post : remove_nth (pre ++ x :: post) (length pre) = pre ++ post.
Proof. induction pre as [|y pre IH]; cbn; [reflexivity|]. now rewrite IH. Qed.
Lemma nth_error_app_exact {A} (pre : list A) x post : nth_error (pre ++ x :: post) (length pre) = Some x.
Proof. induction pre as [|y pre IH]; cbn; auto. Qed.

Lemma pop_edns0_spec ex :
  (pop_edns0 ex = (None, ex) /\ forallb (fun r => negb (is_opt r)) ex = true) \/
  (exists pre o post, ex = pre ++ o :: post /\ is_opt o = true /\
                      forallb (fun r => negb (is_opt r)) post = true /\
                      pop_edns0 ex = (Some o, pre ++ post)).
Proof.
  unfold pop_edns0. pose proof (last_opt_index_spec ex 0 None) as H.
  destruct (last_opt_index ex 0 None) as [k|].
  - destruct H as [[Hk _]|[pre [o [post [Hex [Ho [Hp Hk]]]]]]]; [discriminate|].
    right. exists pre, o, post. repeat split; auto. subst. cbn [Nat.add].
    now rewrite nth_error_app_exact, remove_nth_app.
  - left. tauto.
Qed.
