(* Props/C10.v — property C10: DNSSEC RRSIG Sign / Verify.  Only statements; each
   is closed by [exact] of a lemma proved in Proofs/.  The signature primitives
   (V: verification, S: signing) are universally quantified. *)
From Dns Require Import Model.Dnssec Proofs.DnssecProofs.
From Coq Require Import Permutation.
Open Scope N_scope.

(* ---- the canonical form of a record (RFC 4034 6.2) does not depend on ... *)
(* ... the current TTL (6.2 (5): the Original TTL of the RRSIG is used) *)
Theorem canon_ttl :
  forall sig o ty cl t1 t2 rd,
    canon_rr sig {| r_owner := o; r_type := ty; r_class := cl; r_ttl := t1; r_rdata := rd |} =
    canon_rr sig {| r_owner := o; r_type := ty; r_class := cl; r_ttl := t2; r_rdata := rd |}.
Proof. exact DnssecProofs.canon_ttl. Qed.

(* ... the letter case of the owner (6.2 (2)) *)
Theorem canon_case_owner :
  forall sig o1 o2 ty cl t rd,
    lower_name o1 = lower_name o2 ->
    canon_rr sig {| r_owner := o1; r_type := ty; r_class := cl; r_ttl := t; r_rdata := rd |} =
    canon_rr sig {| r_owner := o2; r_type := ty; r_class := cl; r_ttl := t; r_rdata := rd |}.
Proof. exact DnssecProofs.canon_case_owner. Qed.

(* ... the letter case of the names embedded in RDATA, for the types the code lower-cases (6.2 (3)) *)
Theorem canon_case_rdata :
  forall sig o ty cl t fs1 fs2,
    lowered ty = true -> Forall2 field_ci fs1 fs2 ->
    canon_rr sig {| r_owner := o; r_type := ty; r_class := cl; r_ttl := t; r_rdata := fs1 |} =
    canon_rr sig {| r_owner := o; r_type := ty; r_class := cl; r_ttl := t; r_rdata := fs2 |}.
Proof. exact DnssecProofs.canon_case_rdata. Qed.

(* the code's list against RFC 4034 6.2 (3) (with RFC 6840 5.1): only A6 (38, no Go
   type) and RRSIG (46, never the covered type) are in the RFC's list and not in the code's *)
Theorem lowered_types_vs_rfc4034_6_2 :
  forall ty, mem ty rfc4034_6_2_types = lowered ty || (ty =? 38) || (ty =? 46).
Proof. exact lowered_vs_rfc. Qed.

(* ... wildcard expansion consistent with the Labels field (6.2 (4)): an owner
   with more labels than Labels is signed as "*" followed by its last Labels labels *)
Theorem canon_wildcard :
  forall sig pre suf ty cl t rd,
    pre <> [] -> length suf = N.to_nat (s_labels sig) ->
    canon_rr sig {| r_owner := pre ++ suf; r_type := ty; r_class := cl; r_ttl := t; r_rdata := rd |} =
    canon_rr sig {| r_owner := [42] :: suf; r_type := ty; r_class := cl; r_ttl := t; r_rdata := rd |}.
Proof. exact DnssecProofs.canon_wildcard. Qed.

(* ---- the signed octets of an RRset (records of one owner / type / class) do
   not depend on record order, *)
Theorem canon_perm :
  forall sig rs1 rs2,
    Permutation rs1 rs2 -> same_header rs1 -> signed_octets sig rs1 = signed_octets sig rs2.
Proof. exact DnssecProofs.canon_perm. Qed.

(* ... on repeated records, *)
Theorem canon_dup :
  forall sig r rs,
    same_header (r :: rs) -> In r rs -> signed_octets sig (r :: rs) = signed_octets sig rs.
Proof. exact DnssecProofs.canon_dup. Qed.

(* ... nor on anything but the SET of canonical records (this subsumes order,
   duplicates, TTLs, case and wildcard expansion of whole RRsets) *)
Theorem signed_octets_depend_on_canonical_set_only :
  forall sig rs1 rs2,
    same_header (rs1 ++ rs2) ->
    (forall c, In c (map (canon_rr sig) rs1) <-> In c (map (canon_rr sig) rs2)) ->
    signed_octets sig rs1 = signed_octets sig rs2.
Proof. exact signed_octets_set. Qed.

(* ---- Sign output verifies with the matching key *)
Theorem sign_verify :
  forall (V : N -> bytes -> bytes -> bytes -> bool) (sk : Type) (S : sk -> N -> bytes -> bytes)
         key k sig sig' r0 rest,
    sign sk S key sig (r0 :: rest) = Ok sig' ->
    is_rrset (r0 :: rest) = true ->
    (length (r_owner r0) < 256)%nat ->
    s_keytag sig = key_tag (k_flags k) (k_proto k) (k_alg k) (k_pub k) ->
    k_class k = r_class r0 -> k_alg k = s_alg sig ->
    name_eq_ci (s_signer sig) (k_owner k) = true -> k_proto k = 3 -> N.testbit (k_flags k) 8 = true ->
    key_decodes (s_alg sig) (k_pub k) = true ->
    has_suffix (pres_lower (r_owner r0)) (pres_lower (s_signer sig)) = true ->
    (forall m, V (s_alg sig) (k_pub k) m (S key (s_alg sig) m) = true) ->
    verify V k sig' (r0 :: rest) = Ok tt.
Proof. exact DnssecProofs.sign_verify. Qed.

(* ---- Verify succeeds only if the signature is valid, under the key, for the
   canonical octet string of the RRSIG fields and RRset, the key is a zone key
   with protocol 3 whose tag, algorithm, class and name match the RRSIG, and
   the RRset matches the RRSIG's owner, class and covered type *)
Theorem verify_sound :
  forall (V : N -> bytes -> bytes -> bytes -> bool) k sig rrset,
    verify V k sig rrset = Ok tt ->
    is_rrset rrset = true /\
    (s_keytag sig = key_tag (k_flags k) (k_proto k) (k_alg k) (k_pub k) /\
     s_class sig = k_class k /\ s_alg sig = k_alg k /\
     name_eq_ci (s_signer sig) (k_owner k) = true /\ k_proto k = 3 /\ N.testbit (k_flags k) 8 = true) /\
    (exists r0 rest, rrset = r0 :: rest /\
       r_class r0 = s_class sig /\ r_type r0 = s_covered sig /\
       s_labels sig <= N.of_nat (length (r_owner r0)) mod 256 /\
       name_eq_ci (r_owner r0) (s_owner sig) = true /\
       has_suffix (pres_lower (r_owner r0)) (pres_lower (s_signer sig)) = true) /\
    supported_alg (s_alg sig) = true /\ key_decodes (s_alg sig) (k_pub k) = true /\
    exists m, signed_octets sig rrset = Ok m /\ V (s_alg sig) (k_pub k) m (s_signature sig) = true.
Proof.
  intros V k sig rrset H.
  destruct (DnssecProofs.verify_sound V k sig rrset H) as [A [B [[r0 [rest [C1 C2]]] [D [E F]]]]].
  split; [exact A|]. split; [now apply key_checks_spec|]. split.
  - exists r0, rest. split; [exact C1|]. now apply rrset_checks_spec.
  - split; [exact D|]. split; [exact E|exact F].
Qed.

(* ---- any alteration fails: under the idealisation that a signature is valid
   for at most one message per key, two accepted (RRSIG, RRset) pairs with the
   same signature have the same signed octets *)
Theorem accepted_with_same_signature_have_same_octets :
  forall (V : N -> bytes -> bytes -> bytes -> bool) k sig1 sig2 rs1 rs2,
    (forall a p m m' s, V a p m s = true -> V a p m' s = true -> m = m') ->
    verify V k sig1 rs1 = Ok tt -> verify V k sig2 rs2 = Ok tt ->
    s_signature sig1 = s_signature sig2 ->
    signed_octets sig1 rs1 = signed_octets sig2 rs2.
Proof. exact same_signature_same_octets. Qed.

(* ---- unique parsing: the signed octet string determines the RRSIG fields (the
   signer name up to letter case) and the list of canonical records *)
Theorem signed_octets_injective :
  forall s1 s2 rs1 rs2 m,
    wf_sig s1 -> wf_sig s2 -> Forall wf_rr rs1 -> Forall wf_rr rs2 ->
    signed_octets s1 rs1 = Ok m -> signed_octets s2 rs2 = Ok m ->
    s_covered s1 = s_covered s2 /\ s_alg s1 = s_alg s2 /\ s_labels s1 = s_labels s2 /\
    s_origttl s1 = s_origttl s2 /\ s_exp s1 = s_exp s2 /\ s_incep s1 = s_incep s2 /\
    s_keytag s1 = s_keytag s2 /\ lower_name (s_signer s1) = lower_name (s_signer s2) /\
    signed_rrs s1 rs1 = signed_rrs s2 rs2.
Proof. exact DnssecProofs.signed_octets_injective. Qed.

(* ---- any alteration fails: if (RRSIG, RRset) verifies and an altered pair with
   the same signature verifies too, then nothing that is signed was altered *)
Theorem any_alteration_fails :
  forall (V : N -> bytes -> bytes -> bytes -> bool) k s1 s2 rs1 rs2,
    (forall a p m m' s, V a p m s = true -> V a p m' s = true -> m = m') ->
    wf_sig s1 -> wf_sig s2 -> Forall wf_rr rs1 -> Forall wf_rr rs2 ->
    verify V k s1 rs1 = Ok tt -> verify V k s2 rs2 = Ok tt ->
    s_signature s1 = s_signature s2 ->
    s_covered s1 = s_covered s2 /\ s_alg s1 = s_alg s2 /\ s_labels s1 = s_labels s2 /\
    s_origttl s1 = s_origttl s2 /\ s_exp s1 = s_exp s2 /\ s_incep s1 = s_incep s2 /\
    s_keytag s1 = s_keytag s2 /\ lower_name (s_signer s1) = lower_name (s_signer s2) /\
    signed_rrs s1 rs1 = signed_rrs s2 rs2.
Proof.
  intros V k s1 s2 rs1 rs2 Hideal W1 W2 F1 F2 V1 V2 Hs.
  pose proof (same_signature_same_octets V k s1 s2 rs1 rs2 Hideal V1 V2 Hs) as E.
  apply DnssecProofs.verify_sound in V1 as [_ [_ [_ [_ [_ [m [E1 _]]]]]]].
  rewrite E1 in E. symmetry in E.
  exact (DnssecProofs.signed_octets_injective s1 s2 rs1 rs2 m W1 W2 F1 F2 E1 E).
Qed.
