(* Proofs/PresentGrammarProofs.v — the presentation grammar of the regular
   types (C05, layer 3): what present_fields prints is split by the lexer and
   read by parse_fields as the same field values (in the normal form the
   printer gives them), for every layout whose "to the end of the line" field
   is last and every well-formed value list. *)
From Dns Require Import Base.ListX Model.Present Proofs.EscapeProofs Proofs.PresentEscProofs
     Proofs.PresentCodeProofs Proofs.PresentLexProofs Proofs.PresentTxtProofs Proofs.PresentWordProofs
     Proofs.PresentAtomProofs.
From Coq Require Import Lia ZifyN ZifyNat ZifyBool.
Open Scope N_scope.

(* parseAddrHostUnion leaves the member the gateway type does not select empty *)
Definition gw_addr (k : N) (addr : bytes) : bytes := if (k =? 1) || (k =? 2) then addr else [].
Definition gw_host (k : N) (host : bytes) : bytes := if k =? 3 then host else [].

(* the value the parser hands back: the printer's normal form of v *)
Definition norm_val (f : pfield) (v : pval) : pval :=
  match f, v with
  | P_name, V_name s => V_name (sprint_name s)
  | P_qstrs, V_strs l => V_strs (map sprint_txt_body l)
  | P_octet, V_octet s => V_octet (stxo_loop (S (length s)) s)
  | P_hex true, V_word h => V_word (upper_bytes h)
  | P_hinfo, V_strs l => V_strs (map sprint_txt_body l)
  | P_uinfo, V_octet s => V_octet (sprint_txt_body s)
  | P_salt _, V_sized n h => V_sized n (upper_bytes h)
  | P_time, V_time _ t => V_int t
  | P_names, V_strs l => V_strs (map sprint_name l)
  | P_ipsecgw, V_gw gt alg addr host => V_gw gt alg (gw_addr gt addr) (gw_host gt host)
  | P_amtgw, V_gw gt _ addr host => V_gw gt 0 (gw_addr (gt mod 128) addr) (gw_host (gt mod 128) host)
  | _, _ => v
  end.

Definition name_wf (s : bytes) : Prop :=
  word_ok (sprint_name s) = true /\ to_absolute_name (sprint_name s) = Some (sprint_name s).

(* 16-octet addresses (gateway type 2: not IPv4-mapped, those are printed as dotted quads) *)
Definition gw6_ok (a : bytes) : Prop := length a = 16%nat /\ wfb a /\ is_v4mapped a = false.
Definition aaaa_ok (a : bytes) : Prop := length a = 16%nat /\ wfb a.

Lemma first_sep_exists s : first_sep s = 58 -> existsb (N.eqb 58) s = true.
Proof.
  induction s as [|c r IH]; cbn [first_sep existsb]; intro H; [discriminate|].
  destruct ((c =? 46) || (c =? 58) || (c =? 37)) eqn:E.
  - subst c. reflexivity.
  - rewrite IH by exact H. apply orb_true_r.
Qed.
(* net.ParseIP (net.IP.String ()) for every 16-octet address printed in IPv6 form *)
Theorem parse_ip_present_ip6 a : length a = 16%nat -> wfb a ->
  parse_ip (present_ip6 a) = Some a /\ word_ok (present_ip6 a) = true /\
  existsb (N.eqb 58) (present_ip6 a) = true.
Proof.
  intros Hl Hw. destruct (present_ip6_roundtrip a Hl Hw) as (P & W & F).
  split; [|split; [exact W|now apply first_sep_exists]].
  unfold parse_ip. rewrite F. exact P.
Qed.
Lemma v4mapped_inv a : length a = 16%nat -> is_v4mapped a = true -> a = v4mapped (skipn 12 a).
Proof.
  intros Hl H. do 16 (destruct a as [|?b a]; [discriminate|]). destruct a; [|discriminate].
  cbn [is_v4mapped forallb] in H.
  repeat match goal with
         | H : _ && _ = true |- _ => apply andb_prop in H; destruct H
         | H : (_ =? _) = true |- _ => apply N.eqb_eq in H; subst
         end.
  reflexivity.
Qed.
(* AAAA.String / AAAA.parse *)
Theorem aaaa_roundtrip a : aaaa_ok a ->
  word_ok (present_aaaa a) = true /\ parse_aaaa (present_aaaa a) = Some a.
Proof.
  intros [Hl Hw]. unfold present_aaaa, parse_aaaa.
  assert (Hn : is_nil a = false) by (destruct a; [discriminate|reflexivity]). rewrite Hn.
  destruct (is_v4mapped a) eqn:Hm.
  - pose proof (v4mapped_inv a Hl Hm) as E.
    assert (Hq : length (skipn 12 a) = 4%nat) by (rewrite skipn_length; lia).
    assert (Hwq : wfb (skipn 12 a)) by (now apply Forall_skipn').
    destruct (aaaa_v4mapped_roundtrip (skipn 12 a) Hq Hwq) as (P & W).
    split; [exact W|]. unfold parse_ip. change (first_sep (b_v4in6 ++ present_ip4 (skipn 12 a))) with 58.
    change (58 =? 46) with false. change (58 =? 58) with true. cbn iota. rewrite P, <- E. reflexivity.
  - destruct (parse_ip_present_ip6 a Hl Hw) as (P & W & X). split; [exact W|]. now rewrite P, X.
Qed.

Definition gw_wf (k : N) (addr host : bytes) : Prop :=
  if k =? 1 then exists q, length q = 4%nat /\ wfb q /\ addr = v4mapped q
  else if k =? 2 then gw6_ok addr
  else if k =? 3 then word_ok host = true /\ to_absolute_name host = Some host
  else True.

Definition wf_val (f : pfield) (v : pval) : Prop :=
  match f, v with
  | P_uint bits, V_int n => n < 2 ^ bits
  | P_u32ttl, V_int n => n < 2 ^ 32
  | P_name, V_name s =>
    word_ok (sprint_name s) = true /\ to_absolute_name (sprint_name s) = Some (sprint_name s)
  | P_ip4, V_ip4 a => length a = 4%nat /\ wfb a
  | P_qstrs, V_strs l => Forall str_ok l
  | P_octet, V_octet s => str_ok s
  | P_hex up, V_word h => word_ok (if up then upper_bytes h else h) = true /\ wfb h
  | P_b64, V_word w => word_ok w = true
  | P_types, V_types l => Forall (fun t => t < 65536 /\ t <> 0 /\ t <> 65535) l
  (* printed verbatim: the string itself must be one word (X25, CAA tag) *)
  | P_word _, V_word s => word_ok s = true
  | P_rawname, V_name s => word_ok s = true /\ to_absolute_name s = Some s
  (* printed verbatim between quotes: every quote escaped, no dangling backslash *)
  | P_qstr, V_word s => qbody_ok false s = true
  | P_hinfo, V_strs l => length l = 2%nat /\ Forall str_ok l
  | P_uinfo, V_octet s => str_ok s
  (* SaltLength is what the parser recomputes; the text is one word other than "-" *)
  | P_salt _, V_sized n h =>
    n = (lenN h / 2) mod 256 /\ wfb h /\ (h = [] \/ (word_ok (upper_bytes h) = true /\ upper_bytes h <> [45]))
  (* NSEC3.parse sets HashLength to 20 *)
  | P_b32, V_sized n w => n = 20 /\ word_ok w = true
  | P_hexsplit, V_word h => forallb word_ok (split_n h 1024) = true /\ wfb h
  | P_mnem _ bits, V_int n => n < 2 ^ bits
  | P_algnum, V_int n => n < 256
  | P_type, V_int t => t < 65536 /\ t <> 0 /\ t <> 65535
  | P_eui k, V_int n => eui_ok k n
  (* a plain decimal (what the model knows ParseFloat accepts) that is one word *)
  | P_float, V_word s => float_simple s = true /\ word_ok s = true
  | P_nodeid _, V_int n => n < 18446744073709551616
  (* the clock reads 1970 or later *)
  | P_time, V_time now t => (0 <= now)%Z /\ t < 4294967296
  (* HIP: HitLength and PublicKeyLength are what the parser recomputes; the HIT
     and the key are one word each; the key is text DecodeString accepts *)
  | P_hit, V_sized n h => n = (lenN h / 2) mod 256 /\ word_ok h = true
  | P_pk, V_sized n w => word_ok w = true /\ exists m, b64_declen w = Some m /\ n = m mod 65536
  | P_names, V_strs l => Forall name_wf l
  | P_ip6, V_ip4 a => aaaa_ok a
  (* the gateway in the form its type selects: type 1 an IPv4(-mapped) address,
     type 2 any other 16-octet address, type 3 a name printed verbatim that is
     one word toAbsoluteName returns unchanged, any other type: nothing *)
  | P_ipsecgw, V_gw gt alg addr host => gt < 256 /\ alg < 256 /\ gw_wf gt addr host
  | P_amtgw, V_gw gt _ addr host => gt < 256 /\ gw_wf (gt mod 128) addr host
  | _, _ => False
  end.

(* the items one field prints *)
Definition field_items (f : pfield) (v : pval) : list item :=
  match f, v with
  | P_uint _, V_int n | P_u32ttl, V_int n => [IWord (dec_bytes n)]
  | P_name, V_name s => [IWord (sprint_name s)]
  | P_ip4, V_ip4 a => [IWord (present_ip4 a)]
  | P_qstrs, V_strs l => map (fun s => IQuoted (sprint_txt_body s)) l
  | P_octet, V_octet s => [IQuoted (stxo_loop (S (length s)) s)]
  | P_hex up, V_word h => [IWord (if up then upper_bytes h else h)]
  | P_b64, V_word w => [IWord w]
  | P_types, V_types l => map (fun t => IWord (show_type t)) l
  | P_word _, V_word s => [IWord s]
  | P_rawname, V_name s => [IWord s]
  | P_qstr, V_word s => [IQuoted s]
  | P_hinfo, V_strs l => map (fun s => IQuoted (sprint_txt_body s)) l
  | P_uinfo, V_octet s => [IQuoted (sprint_txt_body s)]
  | P_salt _, V_sized _ h => [IWord (if is_nil h then [45] else upper_bytes h)]
  | P_b32, V_sized _ w => [IWord w]
  | P_hexsplit, V_word h => map IWord (split_n h 1024)
  | P_mnem m _, V_int n => [IWord (show_mnem m n)]
  | P_algnum, V_int n => [IWord (dec_bytes n)]
  | P_type, V_int t => [IWord (show_type t)]
  | P_time, V_time now t => [IWord (time_to_string now t)]
  | P_eui k, V_int n => [IWord (eui_to_string k n)]
  | P_nodeid up, V_int n => [IWord (nodeid_to_string up n)]
  | P_float, V_word s => [IWord s]
  | P_hit, V_sized _ h => [IWord h]
  | P_pk, V_sized _ w => [IWord w]
  | P_names, V_strs l => map (fun s => IWord (sprint_name s)) l
  | P_ip6, V_ip4 a => [IWord (present_aaaa a)]
  | P_ipsecgw, V_gw gt alg addr host => [IWord (dec_bytes gt); IWord (dec_bytes alg); IWord (gateway_text gt addr host)]
  | P_amtgw, V_gw gt _ addr host =>
    [IWord (if 128 <=? gt then [49] else [48]); IWord (dec_bytes (gt mod 128)); IWord (gateway_text (gt mod 128) addr host)]
  | _, _ => []
  end.

Definition is_simple (f : pfield) : bool := negb (is_rest f).

(* a layout: simple fields, then at most one field that reads to the end of
   the line; a list of quoted strings stands alone (TXT and its kin) *)
Fixpoint simple_then_rest (G : list pfield) : bool :=
  match G with
  | [] => true
  | [f] => true
  | f :: r => is_simple f && simple_then_rest r
  end.
(* fields that stand alone: lists of quoted strings *)
Definition is_lone (f : pfield) : bool := match f with P_qstrs | P_hinfo | P_uinfo => true | _ => false end.
Definition wf_playout (G : list pfield) : bool :=
  match G with
  | [] => false
  | [f] => true
  | _ => simple_then_rest G && negb (existsb is_lone G)
  end.

(* ---- rendering: fields joined by blanks = items joined by blanks ---- *)
Lemma render_items_cons i x : x <> [] -> render_items (i :: x) = render_item i ++ 32 :: render_items x.
Proof. destruct x; [congruence|reflexivity]. Qed.
Lemma items_toks_cons i x : x <> [] -> items_toks (i :: x) = item_toks i ++ TBlank :: items_toks x.
Proof. destruct x; [congruence|reflexivity]. Qed.

Lemma render_items_app a b : a <> [] -> b <> [] ->
  render_items (a ++ b) = render_items a ++ 32 :: render_items b.
Proof.
  induction a as [|i a IH]; intros Ha Hb; [congruence|].
  destruct a as [|i2 a2].
  - cbn [app]. now rewrite render_items_cons.
  - change ((i :: i2 :: a2) ++ b) with (i :: (i2 :: a2) ++ b).
    rewrite render_items_cons by discriminate. rewrite IH by (discriminate || exact Hb).
    rewrite (render_items_cons i (i2 :: a2)) by discriminate. now rewrite <- !app_assoc.
Qed.

Lemma items_toks_app a b : a <> [] -> b <> [] ->
  items_toks (a ++ b) = items_toks a ++ TBlank :: items_toks b.
Proof.
  induction a as [|i a IH]; intros Ha Hb; [congruence|].
  destruct a as [|i2 a2].
  - cbn [app]. now rewrite items_toks_cons.
  - change ((i :: i2 :: a2) ++ b) with (i :: (i2 :: a2) ++ b).
    rewrite items_toks_cons by discriminate. rewrite IH by (discriminate || exact Hb).
    rewrite (items_toks_cons i (i2 :: a2)) by discriminate. now rewrite <- !app_assoc.
Qed.

Lemma join_types_items l :
  join_bytes [32] (map show_type l) = render_items (map (fun t => IWord (show_type t)) l).
Proof.
  induction l as [|t r IH]; [reflexivity|]. cbn [map join_bytes render_items render_item].
  destruct r as [|t2 r2]; [reflexivity|]. cbn [map] in *. rewrite IH. reflexivity.
Qed.

Lemma present_field_items f v : wf_val f v -> present_field f v = render_items (field_items f v).
Proof.
  destruct f, v; cbn [wf_val]; try contradiction; intros _; cbn [present_field field_items render_items render_item];
    try reflexivity.
  - apply sprint_txt_items.
  - apply join_types_items.
  - apply sprint_txt_items.
  - apply join_words_items.
  - rewrite <- (map_map sprint_name IWord). apply join_words_items.
Qed.

Lemma field_items_nonempty f v : wf_val f v ->
  field_items f v = [] ->
  (f = P_qstrs /\ v = V_strs []) \/ (f = P_types /\ v = V_types []) \/ (f = P_names /\ v = V_strs []).
Proof.
  destruct f, v; cbn [wf_val field_items]; try contradiction; intros Hw H; try discriminate.
  - destruct l; [now left|discriminate].
  - destruct l; [right; now left|discriminate].
  - destruct Hw as [Hl _]. destruct l; discriminate.
  - apply map_eq_nil in H. now apply split_n_nonempty in H.
  - destruct l; [right; now right|discriminate].
Qed.

Fixpoint all_items (G : list pfield) (vs : list pval) : list item :=
  match G, vs with
  | f :: G', v :: vs' => field_items f v ++ all_items G' vs'
  | _, _ => []
  end.

Definition no_items (l : list item) : bool := match l with [] => true | _ => false end.

Lemma simple_then_rest_tl f G : simple_then_rest (f :: G) = true -> simple_then_rest G = true.
Proof. destruct G as [|g G]; [reflexivity|]. cbn [simple_then_rest]. intro H. apply andb_prop in H. now destruct H. Qed.

Lemma present_fields_go_items G : forall vs first, Forall2 wf_val G vs ->
  simple_then_rest G = true ->
  existsb is_lone G = false ->
  present_fields_go first G vs =
  (if first || no_items (all_items G vs) then [] else [32]) ++ render_items (all_items G vs).
Proof.
  induction G as [|f G IH]; intros vs first H Hs Hq.
  - inversion H; subst. cbn. destruct first; reflexivity.
  - inversion H as [|? v ? vs' Hv Hr]; subst. cbn [existsb] in Hq. apply orb_false_elim in Hq. destruct Hq as [Hf Hq].
    cbn [present_fields_go all_items].
    rewrite (IH vs' false Hr (simple_then_rest_tl _ _ Hs) Hq). rewrite present_field_items by exact Hv.
    destruct (field_items f v) as [|i0 its] eqn:Ei.
    + destruct (field_items_nonempty f v Hv Ei) as [[-> ->]|[[-> ->]|[-> ->]]]; [discriminate| |].
      (* an empty type list / name list: the field is the last one *)
      all: destruct G as [|g G2]; [|cbn in Hs; discriminate].
      all: inversion Hr; subst; cbn [all_items app render_items orb no_items].
      all: destruct first; reflexivity.
    + assert (Hsep : (if first then [] else match f, v with P_types, V_types [] => [] | P_names, V_strs [] => [] | _, _ => [32] end)
                     = (if first then [] else [32])).
      { destruct first; [reflexivity|]. destruct f, v; try reflexivity; (destruct l; [discriminate|reflexivity]). }
      rewrite Hsep.
      destruct (all_items G vs') as [|j0 jts] eqn:Ea.
      * cbn [orb no_items app render_items]. rewrite !app_nil_r.
        destruct first; cbn [orb app]; reflexivity.
      * rewrite render_items_app by discriminate. cbn [orb no_items app].
        rewrite orb_false_r. rewrite <- ?app_assoc. destruct first; reflexivity.
Qed.

Lemma present_fields_items G vs : wf_playout G = true -> Forall2 wf_val G vs ->
  present_fields G vs = render_items (all_items G vs).
Proof.
  intros Hg H. unfold present_fields.
  destruct G as [|f G']; [discriminate|].
  destruct G' as [|g G''].
  - (* a single field *)
    inversion H as [|? v ? vs' Hv Hr]; subst. inversion Hr; subst.
    cbn [present_fields_go all_items]. rewrite !app_nil_r.
    now apply present_field_items.
  - unfold wf_playout in Hg. apply andb_prop in Hg. destruct Hg as [Hs Hq]. apply negb_true_iff in Hq.
    rewrite present_fields_go_items by assumption. reflexivity.
Qed.

(* ---- every printed item is a good item ---- *)
Lemma forallb_map_word (ws : list bytes) : forallb item_ok (map IWord ws) = forallb word_ok ws.
Proof. induction ws as [|w r IH]; [reflexivity|]. cbn [map forallb item_ok]. now rewrite IH. Qed.

Lemma salt_word_ok h : h = [] \/ (word_ok (upper_bytes h) = true /\ upper_bytes h <> [45]) ->
  word_ok (if is_nil h then [45] else upper_bytes h) = true.
Proof. intros [->|[H _]]; [reflexivity|]. destruct h; [discriminate|exact H]. Qed.

Lemma first_sep_digits ds r : forallb is_digit ds = true -> first_sep (ds ++ 46 :: r) = 46.
Proof.
  induction ds as [|d ds IH]; intro H; [reflexivity|].
  cbn [forallb] in H. apply andb_prop in H. destruct H as [Hd Hr]. cbn [app first_sep].
  replace ((d =? 46) || (d =? 58) || (d =? 37)) with false by (unfold is_digit in Hd; lia).
  now apply IH.
Qed.

Lemma gateway_roundtrip k addr host : gw_wf k addr host ->
  word_ok (gateway_text k addr host) = true /\
  parse_gateway (gateway_text k addr host) k = Ok (gw_addr k addr, gw_host k host).
Proof.
  unfold gw_wf, gateway_text, parse_gateway, gw_addr, gw_host.
  destruct (k =? 1) eqn:E1.
  - apply N.eqb_eq in E1. subst k. intros (q & Hl & Hw & ->). cbn [N.eqb Pos.eqb orb].
    destruct q as [|q0 [|q1 [|q2 [|q3 [|? ?]]]]]; try discriminate.
    replace (ip_string (v4mapped [q0; q1; q2; q3])) with (present_ip4 [q0; q1; q2; q3]) by reflexivity.
    split; [now apply ip4_word_ok|].
    assert (Hp : parse_ip (present_ip4 [q0; q1; q2; q3]) = Some (v4mapped [q0; q1; q2; q3])).
    { unfold parse_ip. replace (first_sep (present_ip4 [q0; q1; q2; q3])) with 46.
      - rewrite parse_ip4_present by assumption. reflexivity.
      - symmetry. unfold present_ip4. cbn [map join_bytes app].
        apply first_sep_digits, dec_bytes_digits. }
    rewrite Hp. reflexivity.
  - destruct (k =? 2) eqn:E2.
    + apply N.eqb_eq in E2. subst k. intros (Hl & Hw & Hm). cbn [N.eqb Pos.eqb orb].
      destruct (parse_ip_present_ip6 addr Hl Hw) as (Hp & Hwo & _).
      unfold ip_string. rewrite Hm. destruct addr; [discriminate|]. cbn [is_nil].
      split; [exact Hwo|]. rewrite Hp, Hm. reflexivity.
    + cbn [orb]. destruct (k =? 3) eqn:E3.
      * apply N.eqb_eq in E3. subst k. intros [Hw Ha]. split; [exact Hw|]. cbn [N.eqb]. rewrite Ha. reflexivity.
      * intros _. split; [reflexivity|]. destruct (k =? 0); reflexivity.
Qed.

Lemma field_items_ok f v : wf_val f v -> forallb item_ok (field_items f v) = true.
Proof.
  destruct f, v; cbn [wf_val field_items]; try contradiction; intro H; cbn [forallb item_ok].
  - now rewrite dec_word_ok.
  - now rewrite dec_word_ok.
  - destruct H as [H _]. now rewrite H.
  - destruct H as [Hl _]. now rewrite ip4_word_ok.
  - rewrite forallb_forall. intros i Hi. apply in_map_iff in Hi. destruct Hi as (s & <- & Hs).
    rewrite Forall_forall in H. destruct (H s Hs) as [Hw _]. now apply printed_item_ok.
  - destruct H as [Hw _]. destruct (stxo_spec (S (length s)) s ltac:(lia) Hw) as [Q _]. now rewrite Q.
  - destruct H as [H _]. now rewrite H.
  - now rewrite H.
  - rewrite forallb_forall. intros i Hi. apply in_map_iff in Hi. destruct Hi as (t & <- & _).
    apply show_type_word_ok.
  - now rewrite H.
  - destruct H as [H _]. now rewrite H.
  - now rewrite H.
  - destruct H as [_ H]. rewrite forallb_forall. intros i Hi. apply in_map_iff in Hi. destruct Hi as (s & <- & Hs).
    rewrite Forall_forall in H. destruct (H s Hs) as [Hw _]. now apply printed_item_ok.
  - destruct H as [Hw _]. change (item_ok (IQuoted (sprint_txt_body s)) && true = true).
    now rewrite printed_item_ok.
  - destruct H as (_ & _ & H). now rewrite salt_word_ok.
  - destruct H as [_ H]. now rewrite H.
  - destruct H as [H _]. now rewrite forallb_map_word.
  - now rewrite show_mnem_word_ok.
  - now rewrite dec_word_ok.
  - now rewrite show_type_word_ok.
  - destruct (eui_roundtrip k n H) as [-> _]. reflexivity.
  - destruct (nodeid_roundtrip up n H) as [-> _]. reflexivity.
  - destruct H as [_ H]. now rewrite H.
  - destruct H as [Hn Ht]. rewrite time_to_string_now by assumption. rewrite format_time_word_ok; [reflexivity|lia].
  - destruct H as [_ H]. now rewrite H.
  - destruct H as [H _]. now rewrite H.
  - rewrite forallb_forall. intros i Hi. apply in_map_iff in Hi. destruct Hi as (s & <- & Hs).
    rewrite Forall_forall in H. destruct (H s Hs) as [Hw _]. exact Hw.
  - destruct (aaaa_roundtrip _ H) as [-> _]. reflexivity.
  - destruct H as (_ & _ & H). rewrite !dec_word_ok. rewrite (proj1 (gateway_roundtrip _ _ _ H)). reflexivity.
  - destruct H as (_ & H). rewrite dec_word_ok. rewrite (proj1 (gateway_roundtrip _ _ _ H)).
    destruct (128 <=? gt); reflexivity.
Qed.

Lemma all_items_ok G : forall vs, Forall2 wf_val G vs -> forallb item_ok (all_items G vs) = true.
Proof.
  induction G as [|f G IH]; intros vs H; inversion H as [|? v ? vs' Hv Hr]; subst; [reflexivity|].
  cbn [all_items]. rewrite forallb_app, field_items_ok by exact Hv. now rewrite IH.
Qed.

(* ---- reading the tokens back ---- *)

Lemma parse_types_words l : forall acc,
  Forall (fun t => t < 65536 /\ t <> 0 /\ t <> 65535) l ->
  parse_types_go (items_toks (map (fun t => IWord (show_type t)) l) ++ [TNewline]) acc = Ok (acc ++ l).
Proof.
  induction l as [|t r IH]; intros acc H.
  - cbn. now rewrite app_nil_r.
  - inversion H as [|? ? (Ht & H0 & H1) Hr]; subst. cbn [map items_toks item_toks].
    pose proof (bitmap_tok_show t Ht H0 H1) as B. unfold bitmap_tok in B.
    destruct r as [|t2 r2].
    + cbn [map app parse_types_go].
      destruct (string_to_type (upper_bytes (show_type t))) as [k|] eqn:E.
      * injection B as ->. reflexivity.
      * rewrite B. reflexivity.
    + cbn [map app parse_types_go].
      change (IWord (show_type t2) :: map (fun t0 => IWord (show_type t0)) r2)
        with (map (fun t0 => IWord (show_type t0)) (t2 :: r2)).
      destruct (string_to_type (upper_bytes (show_type t))) as [k|] eqn:E.
      * injection B as ->. rewrite IH by exact Hr. now rewrite <- app_assoc.
      * rewrite B. rewrite IH by exact Hr. now rewrite <- app_assoc.
Qed.

Lemma parse_names_words l : forall acc, Forall name_wf l ->
  parse_names_go (items_toks (map (fun s => IWord (sprint_name s)) l) ++ [TNewline]) acc = Ok (acc ++ map sprint_name l).
Proof.
  induction l as [|t r IH]; intros acc H.
  - cbn. now rewrite app_nil_r.
  - inversion H as [|? ? [_ Ht] Hr]; subst. cbn [map items_toks item_toks].
    destruct r as [|t2 r2].
    + cbn [map app parse_names_go]. rewrite Ht. reflexivity.
    + cbn [map app parse_names_go]. rewrite Ht.
      change (IWord (sprint_name t2) :: map (fun s => IWord (sprint_name s)) r2)
        with (map (fun s => IWord (sprint_name s)) (t2 :: r2)).
      rewrite IH by exact Hr. now rewrite <- app_assoc.
Qed.

(* a simple field: its one item is read back as the normal form of the value *)
Lemma single_ok f v : is_simple f = true -> wf_val f v ->
  field_items f v <> [] /\ forall r, read_single f (items_toks (field_items f v) ++ r) = Ok (norm_val f v, r).
Proof.
  destruct f, v; cbn [is_simple is_rest negb wf_val]; try discriminate; try contradiction; intros _ H;
    (split; [cbn [field_items]; discriminate|]); intro r;
    cbn [field_items items_toks item_toks app read_single is_err tok_text norm_val].
  - now rewrite parse_uint_dec.
  - now rewrite parse_uint_dec.
  - destruct H as [_ ->]. reflexivity.
  - destruct H as [Hl Hw]. now rewrite parse_ip4_present.
  - (* P_word *) destruct strict; reflexivity.
  - (* P_rawname *) destruct H as [_ ->]. reflexivity.
  - (* P_qstr *) destruct s; reflexivity.
  - (* P_salt *)
    destruct H as (Hn & _ & [->|[Hw Hne]]).
    + subst n. cbn [is_nil]. replace (bytes_eqb [45] [45]) with true by reflexivity.
      rewrite andb_false_r. reflexivity.
    + assert (Hnn : is_nil (upper_bytes s) = false) by (apply word_ok_nonempty in Hw; now destruct (upper_bytes s)).
      assert (Hs : is_nil s = false) by (destruct s; [discriminate|reflexivity]).
      rewrite Hs, Hnn, andb_false_r.
      replace (bytes_eqb (upper_bytes s) [45]) with false.
      2:{ symmetry. apply not_true_iff_false. intro E. apply bytes_eqb_eq in E. contradiction. }
      cbn [bind]. subst n. unfold lenN, upper_bytes. rewrite map_length. reflexivity.
  - (* P_b32 *) destruct H as [-> Hw]. apply word_ok_nonempty in Hw. destruct s; [congruence|reflexivity].
  - (* P_mnem *) pose proof (read_mnem tbl n bits H) as R.
    destruct (lookup_name (mtab tbl) (show_mnem tbl n)); [now subst|now rewrite R].
  - (* P_algnum *) rewrite read_algnum by exact H. reflexivity.
  - (* P_type *) destruct H as (Ht & H0 & H1). pose proof (read_type_show n Ht H0 H1) as R. unfold read_type in R.
    destruct (string_to_type (upper_bytes (show_type n))); [now injection R as ->|].
    destruct (has_prefix b_TYPE (upper_bytes (show_type n))); [now rewrite R|discriminate].
  - (* P_eui *) destruct (eui_roundtrip k n H) as [_ ->]. reflexivity.
  - (* P_nodeid *) destruct (nodeid_roundtrip up n H) as [_ ->]. reflexivity.
  - (* P_float *) destruct H as [-> _]. reflexivity.
  - (* P_time *) destruct H as [Hn Ht]. rewrite time_to_string_now by assumption.
    rewrite string_to_time_format by lia. cbn [bind]. now rewrite N2Z.id.
  - (* P_hit *) destruct H as [-> Hw]. apply word_ok_nonempty in Hw. destruct s; [congruence|reflexivity].
  - (* P_pk *) destruct H as (Hw & m & Hm & ->). apply word_ok_nonempty in Hw. destruct s; [congruence|].
    cbn [is_nil]. rewrite Hm. reflexivity.
  - (* P_ip6 *) destruct (aaaa_roundtrip _ H) as [_ ->]. reflexivity.
  - (* P_ipsecgw *) destruct H as (Hg & Ha & H). unfold read_gw.
    cbn [next_text is_err tok_text tl bind]. rewrite !parse_uint_dec by (cbn; lia).
    cbn [next_text is_err tok_text tl bind]. rewrite (proj2 (gateway_roundtrip _ _ _ H)). reflexivity.
  - (* P_amtgw *) destruct H as (Hg & H). unfold read_gw.
    cbn [next_text is_err tok_text tl bind].
    assert (Hm : gt mod 128 < 2 ^ 8) by (pose proof (N.mod_lt gt 128 ltac:(lia)); cbn; lia).
    destruct (N.leb_spec 128 gt) as [Hge|Hlt].
    + replace (negb (bytes_eqb [49] [48] || bytes_eqb [49] [49])) with false by reflexivity.
      rewrite parse_uint_dec by exact Hm.
      replace (bytes_eqb [49] [49]) with true by reflexivity.
      assert (Hmod : gt mod 128 = gt - 128).
      { symmetry. apply (N.mod_unique gt 128 1); lia. }
      replace (gt mod 128 <? 128) with true by (rewrite Hmod; lia). cbn [andb].
      replace (gt mod 128 + 128) with gt by (rewrite Hmod; lia).
      cbn [next_text is_err tok_text tl bind]. rewrite (proj2 (gateway_roundtrip _ _ _ H)). reflexivity.
    + replace (negb (bytes_eqb [48] [48] || bytes_eqb [48] [49])) with false by reflexivity.
      rewrite parse_uint_dec by exact Hm.
      replace (bytes_eqb [48] [49]) with false by reflexivity. cbn [andb].
      rewrite !(N.mod_small gt 128) by lia. rewrite (N.mod_small gt 128) in H by lia.
      cbn [next_text is_err tok_text tl bind]. rewrite (proj2 (gateway_roundtrip _ _ _ H)). reflexivity.
Qed.

(* one step of parse_fields on a simple field *)
Lemma parse_fields_single f G' ts : is_simple f = true ->
  parse_fields (f :: G') ts =
  (do p <- read_single f ts;
   let '(v, r) := p in
   let r' := match G' with
             | [] => r
             | g :: _ => if is_rest g then (match g with P_octet => tl r | _ => r end) else tl r
             end in
   do vs <- parse_fields G' r'; Ok (v :: vs)).
Proof. destruct f; cbn [is_simple is_rest negb]; try discriminate; intros _; reflexivity. Qed.

Lemma octet_chunk_ok s : str_ok s -> chunk_ok (stxo_loop (S (length s)) s).
Proof.
  intros [Hw Hl]. destruct (stxo_spec (S (length s)) s ltac:(lia) Hw) as [Q U]. right.
  apply txt_chunks_single; [now apply qbody_complete|now rewrite U].
Qed.

(* a field that reads to the end of the line, on exactly its own tokens *)
Lemma parse_rest_field f v : is_rest f = true -> wf_val f v ->
  parse_fields [f] (items_toks (field_items f v) ++ [TNewline]) = Ok [norm_val f v].
Proof.
  destruct f, v; cbn [is_rest wf_val]; try discriminate; try contradiction; intros _ H;
    cbn [parse_fields field_items norm_val].
  - unfold ending_to_txt_slice. rewrite <- (map_map sprint_txt_body IQuoted).
    rewrite etts_quoted_list; [reflexivity|].
    rewrite Forall_map. eapply Forall_impl; [|exact H]. intros s Hs. now apply printed_chunk_ok.
  - unfold ending_to_txt_slice. cbn [items_toks]. rewrite etts_quoted by now apply octet_chunk_ok.
    reflexivity.
  - destruct up; reflexivity.
  - reflexivity.
  - rewrite parse_types_words by exact H. reflexivity.
  - (* HINFO: two quoted strings *)
    destruct H as [Hl Hf]. unfold ending_to_txt_slice. rewrite <- (map_map sprint_txt_body IQuoted).
    rewrite etts_quoted_list.
    2:{ rewrite Forall_map. eapply Forall_impl; [|exact Hf]. intros s Hs. now apply printed_chunk_ok. }
    cbn [app bind]. destruct l as [|a [|b [|c l]]]; try discriminate. reflexivity.
  - (* UINFO *)
    unfold ending_to_txt_slice. cbn [items_toks]. rewrite etts_quoted by now apply printed_chunk_ok.
    reflexivity.
  - (* SMIMEA *)
    unfold ending_to_string. rewrite ets_words. cbn [app bind]. rewrite split_n_concat by lia. reflexivity.
  - (* HIP rendezvous servers *)
    rewrite parse_names_words by exact H. reflexivity.
Qed.

(* the same after the blank that separates it from a preceding field *)
Lemma parse_rest_after_blank g v : is_rest g = true -> is_lone g = false -> wf_val g v ->
  parse_fields [g]
    (match g with P_octet => items_toks (field_items g v) ++ [TNewline]
     | _ => match field_items g v with
            | [] => [TNewline]
            | _ => TBlank :: items_toks (field_items g v) ++ [TNewline]
            end
     end) = Ok [norm_val g v].
Proof.
  intros Hr Hq Hv. destruct g; try discriminate.
  - now apply parse_rest_field.
  - destruct v; cbn [wf_val] in Hv; try contradiction. cbn [field_items]. destruct up; reflexivity.
  - destruct v; cbn [wf_val] in Hv; try contradiction. reflexivity.
  - destruct v; cbn [wf_val] in Hv; try contradiction. cbn [field_items].
    destruct l as [|t l]; [reflexivity|]. cbn [map].
    change (IWord (show_type t) :: map (fun t0 => IWord (show_type t0)) l)
      with (map (fun t0 => IWord (show_type t0)) (t :: l)).
    cbn [parse_fields parse_types_go]. rewrite parse_types_words by exact Hv. reflexivity.
  - (* SMIMEA: endingToString skips the blank *)
    pose proof (parse_rest_field P_hexsplit v eq_refl Hv) as P.
    destruct (field_items P_hexsplit v) as [|j0 jts] eqn:Ej.
    + destruct (field_items_nonempty _ _ Hv Ej) as [[? _]|[[? _]|[? _]]]; discriminate.
    + cbn [parse_fields] in *. unfold ending_to_string in *. cbn [ets_go]. exact P.
  - destruct v; cbn [wf_val] in Hv; try contradiction. cbn [field_items].
    destruct l as [|t l]; [reflexivity|]. cbn [map].
    change (IWord (sprint_name t) :: map (fun s => IWord (sprint_name s)) l)
      with (map (fun s => IWord (sprint_name s)) (t :: l)).
    cbn [parse_fields parse_names_go]. rewrite parse_names_words by exact Hv. reflexivity.
Qed.

Definition norm_all (G : list pfield) (vs : list pval) : list pval :=
  map (fun p => norm_val (fst p) (snd p)) (combine G vs).

Lemma simple_items_nonempty f v : is_simple f = true -> wf_val f v -> field_items f v <> [].
Proof. intros Hs Hv. now destruct (single_ok f v Hs Hv). Qed.

Lemma lone_is_rest g : is_lone g = true -> is_rest g = true.
Proof. destruct g; try discriminate; reflexivity. Qed.

Lemma parse_all G : forall vs, G <> [] -> simple_then_rest G = true ->
  (existsb is_lone G = false \/ exists f, G = [f]) ->
  Forall2 wf_val G vs ->
  parse_fields G (items_toks (all_items G vs) ++ [TNewline]) = Ok (norm_all G vs).
Proof.
  induction G as [|f G' IH]; intros vs Hne Hs Hq H; [congruence|].
  inversion H as [|? v ? vs' Hv Hr]; subst.
  cbn [all_items]. unfold norm_all. cbn [combine map fst snd]. fold (norm_all G' vs').
  destruct (is_rest f) eqn:Ef.
  - (* a reading-to-the-end field must be the last *)
    destruct G' as [|g G'']; [|cbn [simple_then_rest] in Hs; unfold is_simple in Hs; rewrite Ef in Hs; discriminate].
    inversion Hr; subst. cbn [all_items]. rewrite app_nil_r. now apply parse_rest_field.
  - assert (Hsf : is_simple f = true) by (unfold is_simple; now rewrite Ef).
    destruct (single_ok f v Hsf Hv) as (Ei & Er).
    destruct G' as [|g G''].
    + inversion Hr; subst. cbn [all_items]. rewrite app_nil_r.
      rewrite parse_fields_single by exact Hsf. rewrite Er. cbn [bind parse_fields slurp_remainder]. reflexivity.
    + assert (Hq' : existsb is_lone (g :: G'') = false).
      { destruct Hq as [Hq|[f0 Hq]]; [|discriminate]. cbn [existsb] in Hq. apply orb_false_elim in Hq. now destruct Hq. }
      inversion Hr as [|? vg ? vs'' Hvg Hr']; subst.
      assert (Hs' : simple_then_rest (g :: G'') = true).
      { cbn [simple_then_rest] in Hs. apply andb_prop in Hs. now destruct Hs. }
      destruct (is_rest g) eqn:Eg.
      * (* the last field: it reads the rest of the line *)
        destruct G'' as [|g2 G3]; [|cbn [simple_then_rest] in Hs'; unfold is_simple in Hs'; rewrite Eg in Hs'; discriminate].
        inversion Hr'; subst. cbn [all_items]. rewrite app_nil_r.
        assert (Hgq : is_lone g = false).
        { cbn [existsb] in Hq'. apply orb_false_elim in Hq'. now destruct Hq'. }
        pose proof (parse_rest_after_blank g vg Eg Hgq Hvg) as P.
        unfold norm_all. cbn [combine map fst snd].
        destruct (field_items g vg) as [|j0 jts] eqn:Ej; rewrite ?Ej in P.
        -- (* only an empty type list prints nothing *)
           rewrite app_nil_r. rewrite parse_fields_single by exact Hsf. rewrite Er. cbn [bind].
           rewrite Eg. destruct g; try discriminate;
             try (destruct vg; cbn [wf_val] in Hvg; try contradiction; cbn [field_items] in Ej; discriminate).
           ++ cbn zeta. rewrite P. reflexivity.
           ++ destruct (field_items_nonempty _ _ Hvg Ej) as [[? _]|[[? _]|[? _]]]; discriminate.
           ++ cbn zeta. rewrite P. reflexivity.
        -- rewrite items_toks_app by (exact Ei || discriminate). rewrite <- app_assoc. cbn [app].
           rewrite parse_fields_single by exact Hsf. rewrite Er. cbn [bind]. rewrite Eg.
           destruct g; try discriminate; cbn zeta; cbn [tl]; rewrite P; reflexivity.
      * (* another simple field follows: skip the blank *)
        assert (Hsg : is_simple g = true) by (unfold is_simple; now rewrite Eg).
        pose proof (simple_items_nonempty g vg Hsg Hvg) as Hng.
        assert (Hna : all_items (g :: G'') (vg :: vs'') <> []).
        { cbn [all_items]. destruct (field_items g vg); [congruence|discriminate]. }
        destruct (all_items (g :: G'') (vg :: vs'')) as [|a0 ats] eqn:Ea; [congruence|].
        rewrite items_toks_app by (exact Ei || discriminate). rewrite <- app_assoc. cbn [app].
        rewrite parse_fields_single by exact Hsf. rewrite Er. cbn [bind]. rewrite Eg. cbn zeta. cbn [tl].
        rewrite <- Ea. rewrite IH; [reflexivity|discriminate|exact Hs'|now left|exact Hr].
Qed.

(* ---- the theorem ---- *)
Theorem present_roundtrip G vs : wf_playout G = true -> Forall2 wf_val G vs ->
  parse_fields G (lex_rdata (present_fields G vs ++ [10])) = Ok (norm_all G vs).
Proof.
  intros Hg H.
  rewrite present_fields_items by assumption.
  rewrite lexer_on_printed by now apply all_items_ok.
  destruct G as [|f G']; [discriminate|].
  destruct G' as [|g G''].
  - apply parse_all; [discriminate|reflexivity|right; now exists f|exact H].
  - unfold wf_playout in Hg. apply andb_prop in Hg. destruct Hg as [Hs Hq]. apply negb_true_iff in Hq.
    apply parse_all; [discriminate|exact Hs|now left|exact H].
Qed.

(* ---- what the normal form denotes ---- *)
Theorem norm_meaning f v : wf_val f v ->
  match f with P_name | P_names => True | _ => meaning f (norm_val f v) = meaning f v end.
Proof.
  destruct f, v; cbn [wf_val]; try contradiction; intro H; cbn [norm_val meaning]; try reflexivity; try exact I.
  - f_equal. f_equal. rewrite map_map. apply map_ext_in. intros s Hs. rewrite Forall_forall in H.
    destruct (H s Hs) as [Hw _]. now apply unescape_sprint_txt_body.
  - destruct H as [Hw _]. destruct (stxo_spec (S (length s)) s ltac:(lia) Hw) as [_ U]. now rewrite U.
  - destruct H as [_ Hw]. destruct up; cbn [norm_val meaning]; [|reflexivity]. f_equal. f_equal.
    now apply unhex_upper.
  - destruct H as [_ H]. f_equal. f_equal. rewrite map_map. apply map_ext_in. intros s Hs. rewrite Forall_forall in H.
    destruct (H s Hs) as [Hw _]. now apply unescape_sprint_txt_body.
  - destruct H as [Hw _]. f_equal. f_equal. now apply unescape_sprint_txt_body.
  - destruct H as (_ & Hw & _). f_equal. f_equal. now apply unhex_upper.
  - unfold gw_addr, gw_host. destruct ((gt =? 1) || (gt =? 2)); destruct (gt =? 3); reflexivity.
  - cbn zeta. unfold gw_addr, gw_host.
    destruct ((gt mod 128 =? 1) || (gt mod 128 =? 2)); destruct (gt mod 128 =? 3); reflexivity.
Qed.
