from .core import Check


class C20(Check):
    prop = "C20"
    props_rel = "Props/C20"
    corr_module = "Corr.C20"
    corr_rel = "Corr/C20"
    shard_size = 60
    gen_rels = ["Gen/Dups", "Gen/Layouts", "Gen/Structs", "Gen/Registry"]
    model_desc = ("Model/Dup.v: IsDuplicate interpreting the per-type comparison lists that tools/gotrans regenerates from "
                  "zduplicate.go each run (Gen/Dups.v), labels.go equal, net.IP.Equal, areSVCBPairArraysEqual, APLPrefix.equals; "
                  "sanitize.go normalizedString and Dedup")
    rule = ("every registered type x records, their copies, TTL/owner-case/embedded-name-case variants, one-field variants, "
            "class variants, triples for transitivity, pairs of records obtained from the wire compared through their "
            "lower-cased uncompressed wire form; Dedup on lists with random duplicate patterns, TTLs and owner case; model "
            "cases: IsDuplicate verdicts, normalizedString, Dedup kept indices and TTLs. Non-trivial: records with RDATA.")
    trusted = ["hex/base64/base32 text codecs of Go's encoding/* are outside the model (fields held as the octets they denote)",
               "EDNS0 option and SVCB parameter values are (code, packed value, reported length) triples at this level"]

    partial = ["'for records obtained from the wire, duplicates exactly when type, class and the lower-cased uncompressed owner and RDATA octets "
               "are equal': proved for names (name_equal_iff_lowercased_wire_equal) and as table cross-checks (every packed field is "
               "compared; name fields and only name fields case-insensitively); the RDATA-octet statement itself is checked by the "
               "harness oracle on wire-obtained pairs, not proved",
               "'holds between a record and its copy': reflexivity on typed values; the link to the copy model (C16) is by the harness"]

    def nontrivial(self, c):
        return len(c["args"][0]) > 80


CHECK = C20()
