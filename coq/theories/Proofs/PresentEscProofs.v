(* Proofs/PresentEscProofs.v — character-string escaping (C05, layer 1):
   the printers sprintTxt / unpackString and the reader packTxtString are
   inverse on every octet string; sprintTxt is the canonical re-escaping of
   what its argument denotes. *)
From Dns Require Import Base.ListX Model.Present Proofs.EscapeProofs.
From Coq Require Import Lia ZifyN ZifyNat ZifyBool.
Ltac Zify.zify_post_hook ::= Z.div_mod_to_equations.
Open Scope N_scope.

Arguments N.add : simpl never.
Arguments N.mul : simpl never.
Arguments N.sub : simpl never.
Arguments N.div : simpl never.
Arguments N.modulo : simpl never.
Arguments N.eqb : simpl never.
Arguments N.leb : simpl never.
Arguments N.ltb : simpl never.

(* ---- one octet ---- *)

Lemma ddd_value b : b < 256 ->
  ((48 + b / 100 - 48) * 100 + (48 + (b / 10) mod 10 - 48) * 10 + (48 + b mod 10 - 48)) mod 256 = b.
Proof. intro H. lia. Qed.

Lemma ddd_digits b : b < 256 ->
  is_digit (48 + b / 100) = true /\ is_digit (48 + (b / 10) mod 10) = true /\ is_digit (48 + b mod 10) = true.
Proof. intro H. unfold is_digit. repeat split; lia. Qed.

(* reading back the escaped form of one octet, whatever follows *)
Lemma unescape_write b r : b < 256 -> unescape (write_txt_byte b ++ r) = b :: unescape r.
Proof.
  intro Hb. unfold write_txt_byte.
  destruct ((b =? 34) || (b =? 92)) eqn:Hq.
  - (* backslash, then the quote or the backslash: never a digit *)
    cbn [app unescape]. rewrite N.eqb_refl.
    assert (Hd : is_digit b = false) by (unfold is_digit; lia).
    destruct r as [|d2 [|d3 r3]]; try reflexivity. now rewrite Hd.
  - destruct ((b <? 32) || (126 <? b)) eqn:Hn.
    + unfold ddd. cbn [app unescape]. rewrite N.eqb_refl.
      destruct (ddd_digits b Hb) as (H1 & H2 & H3). rewrite H1, H2, H3. cbn [andb].
      now rewrite ddd_value.
    + cbn [app unescape]. assert (Hne : (b =? 92) = false) by lia. now rewrite Hne.
Qed.

(* ---- unpackString then packTxtString: every octet string ---- *)
Theorem unescape_esc_wire w : wfb w -> unescape (esc_wire w) = w.
Proof.
  unfold esc_wire. induction 1 as [|b w Hb _ IH]; [reflexivity|].
  cbn [flat_map]. rewrite unescape_write by exact Hb. now rewrite IH.
Qed.

(* ---- the loop of sprintTxt is "escape what the string denotes" ---- *)
Lemma stxt_loop_spec fuel : forall s, (length s < fuel)%nat -> stxt_loop fuel s = esc_wire (unescape s).
Proof.
  induction fuel as [|f IH]; intros s Hl; [lia|].
  destruct s as [|b r]; [reflexivity|].
  cbn [stxt_loop next_byte unescape].
  destruct (b =? 92) eqn:Hb.
  - destruct r as [|d1 r1]; [reflexivity|].
    destruct r1 as [|d2 [|d3 r3]].
    + cbn [is_ddd]. cbn [skipn]. rewrite IH by (cbn in *; lia). reflexivity.
    + cbn [is_ddd]. cbn [skipn]. rewrite IH by (cbn in *; lia). reflexivity.
    + cbn [is_ddd ddd_to_byte].
      destruct (is_digit d1 && is_digit d2 && is_digit d3) eqn:Hd.
      * cbn [skipn]. rewrite IH by (cbn in *; lia). reflexivity.
      * cbn [skipn]. rewrite IH by (cbn in *; lia). reflexivity.
  - cbn [skipn]. rewrite IH by (cbn in *; lia). reflexivity.
Qed.

Theorem sprint_txt_body_spec s : sprint_txt_body s = esc_wire (unescape s).
Proof. unfold sprint_txt_body. apply stxt_loop_spec. lia. Qed.

(* what a string denotes is a string of octets *)
Lemma unescape_wfb_n n : forall s, (length s <= n)%nat -> wfb s -> wfb (unescape s).
Proof.
  induction n as [|n IH]; intros s Hl Hs.
  - destruct s; [constructor|cbn in Hl; lia].
  - destruct s as [|b r]; [constructor|].
    inversion Hs as [|? ? Hb Hr]; subst. cbn [unescape]. cbn [length] in Hl.
    destruct (b =? 92).
    + destruct r as [|d1 r1]; [constructor|].
      inversion Hr as [|? ? Hd1 Hr1]; subst. cbn [length] in Hl.
      destruct r1 as [|d2 [|d3 r3]].
      * constructor; [exact Hd1|constructor].
      * constructor; [exact Hd1|]. apply IH; [cbn; lia|exact Hr1].
      * destruct (is_digit d1 && is_digit d2 && is_digit d3).
        -- constructor; [lia|]. apply IH; [cbn [length] in *; lia|].
           inversion Hr1 as [|? ? _ Hr2]; subst. inversion Hr2; subst. assumption.
        -- constructor; [exact Hd1|]. apply IH; [cbn [length] in *; lia|exact Hr1].
    + constructor; [exact Hb|]. apply IH; [lia|exact Hr].
Qed.
Lemma unescape_wfb s : wfb s -> wfb (unescape s).
Proof. apply (unescape_wfb_n (length s)). lia. Qed.

(* printing preserves the denotation, for every in-memory string *)
Theorem unescape_sprint_txt_body s : wfb s -> unescape (sprint_txt_body s) = unescape s.
Proof. intro H. rewrite sprint_txt_body_spec. apply unescape_esc_wire, unescape_wfb, H. Qed.

(* the form unpackString produces is printed unchanged *)
Theorem sprint_txt_body_canonical w : wfb w -> sprint_txt_body (esc_wire w) = esc_wire w.
Proof. intro H. now rewrite sprint_txt_body_spec, unescape_esc_wire. Qed.

(* length of what a string denotes never exceeds the text *)
Lemma unescape_length_n n : forall s, (length s <= n)%nat -> (length (unescape s) <= length s)%nat.
Proof.
  induction n as [|n IH]; intros s Hl.
  - destruct s; [cbn; lia|cbn in Hl; lia].
  - destruct s as [|b r]; [cbn; lia|]. cbn [unescape]. cbn [length] in Hl.
    destruct (b =? 92).
    + destruct r as [|d1 r1]; [cbn; lia|]. cbn [length] in Hl.
      destruct r1 as [|d2 [|d3 r3]].
      * cbn; lia.
      * specialize (IH [d2]). cbn in *. lia.
      * destruct (is_digit d1 && is_digit d2 && is_digit d3).
        -- specialize (IH r3). cbn [length] in *. lia.
        -- specialize (IH (d2 :: d3 :: r3)). cbn [length] in *. lia.
    + specialize (IH r). cbn [length]. lia.
Qed.
Lemma unescape_length s : (length (unescape s) <= length s)%nat.
Proof. apply (unescape_length_n (length s)). lia. Qed.

(* non-vacuity: a string with every kind of octet *)
Example esc_example :
  let w := [97; 32; 34; 92; 59; 40; 41; 9; 10; 0; 127; 128; 255; 92; 49; 50; 51] in
  wfb w /\ esc_wire w <> w /\ unescape (esc_wire w) = w /\ sprint_txt_body (esc_wire w) = esc_wire w.
Proof.
  cbv zeta. split; [repeat constructor|]. split; [vm_compute; discriminate|]. split; vm_compute; reflexivity.
Qed.
