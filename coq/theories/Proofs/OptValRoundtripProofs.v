(* Proofs/OptValRoundtripProofs.v — EDNS0 option and SVCB parameter values at Go
   struct level: value -> wire -> value (up to the decoder's normal form) and
   wire -> value -> wire, tied to the octet-level views of Model/Options.v. *)
From Coq Require Import Lia ZifyN ZifyNat ZifyBool.
From Dns Require Import Model.OptValUnpack Proofs.EscapeProofs Proofs.RoundtripFieldProofs Proofs.NameRoundtripProofs Proofs.RoundtripConverseProofs Proofs.OptValProofs.
Open Scope list_scope.
Open Scope N_scope.
Ltac Zify.zify_post_hook ::= Z.div_mod_to_equations.

Local Arguments N.div : simpl never.
Local Arguments N.modulo : simpl never.
Local Arguments N.mul : simpl never.
Local Arguments N.add : simpl never.
Local Arguments N.sub : simpl never.
Local Arguments N.land : simpl never.
Local Arguments N.shiftl : simpl never.

Lemma wfbb_wfb l : wfbb l = true <-> wfb l.
Proof.
  unfold wfbb, wfb. rewrite forallb_forall, Forall_forall. split; intros H x Hx; specialize (H x Hx); lia.
Qed.

(* ---------------- hex text ---------------- *)
Lemma hexval_spec c a : hexval c = Some a ->
  a < 16 /\ hexchar a = (if (65 <=? c) && (c <=? 70) then c + 32 else c) /\ hexval (hexchar a) = Some a.
Proof.
  unfold hexval, hexchar. intro H.
  destruct ((48 <=? c) && (c <=? 57)) eqn:E1.
  { injection H as <-. repeat split; [lia| |].
    - destruct ((65 <=? c) && (c <=? 70)) eqn:E2; destruct (c - 48 <? 10) eqn:E3; lia.
    - destruct (c - 48 <? 10) eqn:E3; [|lia].
      replace ((48 <=? 48 + (c - 48)) && (48 + (c - 48) <=? 57)) with true by lia. f_equal. lia. }
  destruct ((97 <=? c) && (c <=? 102)) eqn:E2.
  { injection H as <-. repeat split; [lia| |].
    - destruct ((65 <=? c) && (c <=? 70)) eqn:E4; destruct (c - 87 <? 10) eqn:E3; lia.
    - destruct (c - 87 <? 10) eqn:E3; [lia|].
      replace ((48 <=? 87 + (c - 87)) && (87 + (c - 87) <=? 57)) with false by lia.
      replace ((97 <=? 87 + (c - 87)) && (87 + (c - 87) <=? 102)) with true by lia. f_equal. lia. }
  destruct ((65 <=? c) && (c <=? 70)) eqn:E3; [|discriminate].
  injection H as <-. repeat split; [lia| |].
  - destruct (c - 55 <? 10) eqn:E4; lia.
  - destruct (c - 55 <? 10) eqn:E4; [lia|].
    replace ((48 <=? 87 + (c - 55)) && (87 + (c - 55) <=? 57)) with false by lia.
    replace ((97 <=? 87 + (c - 55)) && (87 + (c - 55) <=? 102)) with true by lia. f_equal. lia.
Qed.

Lemma hex_decode_lower : forall n t b, (length t <= n)%nat -> hex_decode t = Ok b ->
  hex_encode b = hex_lower t /\ hex_decode (hex_lower t) = Ok b /\ wfb b.
Proof.
  induction n as [|n IH]; intros [|p [|q r]] b Hl H; cbn [hex_decode] in H; cbn [length] in Hl; try lia.
  - injection H as <-. repeat split. constructor.
  - injection H as <-. repeat split. constructor.
  - destruct (hexval p); discriminate.
  - destruct (hexval p) as [a|] eqn:Ep; [|discriminate]. destruct (hexval q) as [c|] eqn:Eq; [|discriminate].
    destruct (hex_decode r) as [t| | |] eqn:Er; cbn [bind] in H; try discriminate. injection H as <-.
    destruct (IH r t ltac:(lia) Er) as (I1 & I2 & I3).
    destruct (hexval_spec p a Ep) as (A1 & A2 & A3). destruct (hexval_spec q c Eq) as (C1 & C2 & C3).
    cbn [hex_encode flat_map app hex_lower map]. fold (hex_encode t). fold (hex_lower r).
    replace ((a * 16 + c) / 16) with a by lia. replace ((a * 16 + c) mod 16) with c by lia.
    rewrite A2, C2, I1. split; [reflexivity|]. split.
    + cbn [hex_decode]. rewrite <- A2, <- C2, A3, C3, I2. reflexivity.
    + constructor; [lia|exact I3].
Qed.

Lemma hex_encode_decode b : wfb b -> hex_decode (hex_encode b) = Ok b.
Proof.
  induction 1 as [|x r Hx Hr IH]; [reflexivity|].
  cbn [hex_encode flat_map app]. fold (hex_encode r). cbn [hex_decode].
  assert (H1 : hexval (hexchar (x / 16)) = Some (x / 16)).
  { unfold hexchar, hexval. destruct (x / 16 <? 10) eqn:E.
    - replace ((48 <=? 48 + x / 16) && (48 + x / 16 <=? 57)) with true by lia. f_equal. lia.
    - replace ((48 <=? 87 + x / 16) && (87 + x / 16 <=? 57)) with false by lia.
      replace ((97 <=? 87 + x / 16) && (87 + x / 16 <=? 102)) with true by lia. f_equal. lia. }
  assert (H2 : hexval (hexchar (x mod 16)) = Some (x mod 16)).
  { unfold hexchar, hexval. destruct (x mod 16 <? 10) eqn:E.
    - replace ((48 <=? 48 + x mod 16) && (48 + x mod 16 <=? 57)) with true by lia. f_equal. lia.
    - replace ((48 <=? 87 + x mod 16) && (87 + x mod 16 <=? 57)) with false by lia.
      replace ((97 <=? 87 + x mod 16) && (87 + x mod 16 <=? 102)) with true by lia. f_equal. lia. }
  rewrite H1, H2, IH. cbn [bind]. f_equal. f_equal. lia.
Qed.

(* ---------------- EDNS0: value -> wire -> value, the plain constructors ---------------- *)
Lemma llq_unpack a b c d e :
  a < 65536 -> b < 65536 -> c < 65536 -> d < 18446744073709551616 -> e < 4294967296 ->
  opt_unpack 1 (u16 a ++ u16 b ++ u16 c ++ u64 d ++ u32 e) = Ok (O_LLQ a b c d e).
Proof.
  intros Ha Hb Hc Hd He. unfold opt_unpack, beN, takeN, dropN, u64, u32, u16. cbn -[be].
  f_equal. f_equal; [exact (be_u16 a Ha)|exact (be_u16 b Hb)|exact (be_u16 c Hc)|exact (be_u64 d Hd)|exact (be_u32 e He)].
Qed.

Lemma ul_unpack4 l : l < 4294967296 -> opt_unpack 2 (u32 l) = Ok (O_UL l 0).
Proof.
  intro H. unfold opt_unpack, beN, takeN, dropN, u32. cbn -[be]. f_equal. f_equal. exact (be_u32 l H).
Qed.
Lemma ul_unpack8 l k : l < 4294967296 -> k < 4294967296 -> opt_unpack 2 (u32 l ++ u32 k) = Ok (O_UL l k).
Proof.
  intros H K. unfold opt_unpack, beN, takeN, dropN, u32. cbn -[be]. f_equal. f_equal; [exact (be_u32 l H)|exact (be_u32 k K)].
Qed.
Lemma expire_unpack e : e < 4294967296 -> opt_unpack 9 (u32 e) = Ok (O_EXPIRE e false).
Proof.
  intro H. unfold opt_unpack, beN, takeN, dropN, u32. cbn -[be]. f_equal. f_equal. exact (be_u32 e H).
Qed.
Lemma keepalive_unpack t : t < 65536 -> opt_unpack 11 (u16 t) = Ok (O_KEEPALIVE t).
Proof.
  intro H. unfold opt_unpack, beN, takeN, dropN, u16. cbn -[be]. f_equal. f_equal. exact (be_u16 t H).
Qed.
Lemma ede_unpack c t : c < 65536 -> opt_unpack 15 (u16 c ++ t) = Ok (O_EDE c t).
Proof.
  intro H. unfold opt_unpack. change (15 =? 1) with false. change (15 =? 2) with false. cbn match.
  unfold beN, takeN, dropN, u16, lenN. cbn -[be N.of_nat]. 
  replace (N.of_nat (S (S (length t))) <? 2) with false by lia.
  f_equal. f_equal. exact (be_u16 c H).
Qed.
Lemma zv_unpack l t x : l < 256 -> t < 256 -> opt_unpack 19 ([l mod 256; t mod 256] ++ x) = Ok (O_ZONEVERSION l t x).
Proof.
  intros L T. unfold opt_unpack, nthN, dropN, lenN. cbn -[N.of_nat].
  replace (N.of_nat (S (S (length x))) <? 2) with false by lia.
  f_equal. change (Pos.to_nat 1) with 1%nat. cbn iota. f_equal; lia.
Qed.


(* ---------------- SUBNET ---------------- *)
Local Arguments N.eqb : simpl never.
Local Arguments N.ltb : simpl never.
Local Arguments N.leb : simpl never.

Lemma subnet_unpack_shape f m s T : f < 65536 ->
  subnet_unpack (u16 f ++ [m; s] ++ T) =
    if f =? 0 then if negb (m =? 0) then Err "family" else Ok (O_SUBNET 0 m s zero4in6)
    else if f =? 1 then if (32 <? m) || (32 <? s) then Err "netmask" else Ok (O_SUBNET 1 m s (v4in6_prefix ++ pad_zero T 4))
    else if f =? 2 then if (128 <? m) || (128 <? s) then Err "netmask" else Ok (O_SUBNET 2 m s (pad_zero T 16))
    else Err "family".
Proof.
  intro Hf. unfold subnet_unpack.
  replace (lenN (u16 f ++ [m; s] ++ T) <? 4) with false by (unfold lenN, u16; cbn [app length]; lia).
  assert (E : beN (u16 f ++ [m; s] ++ T) 0 2 = f).
  { unfold beN, takeN, dropN, u16. cbn -[be]. exact (be_u16 f Hf). }
  rewrite E. unfold nthN, dropN, u16. cbn. reflexivity.
Qed.

Lemma mask_bytes_length ip : forall p, length (mask_bytes ip p) = length ip.
Proof. induction ip as [|b r IH]; intro p; cbn [mask_bytes]; [reflexivity|]. destruct (8 <=? p); cbn [length]; now rewrite IH. Qed.

Lemma mask_bytes_zero r : mask_bytes r 0 = pad_zero [] (length r).
Proof.
  induction r as [|b r IH]; [reflexivity|]. cbn [mask_bytes length pad_zero].
  replace (8 <=? 0) with false by reflexivity. rewrite IH.
  replace (256 - N.shiftl 1 (8 - 0)) with 0 by reflexivity. now rewrite N.land_0_r.
Qed.

Lemma mask_bytes_idem ip : forall p, mask_bytes (mask_bytes ip p) p = mask_bytes ip p.
Proof.
  induction ip as [|b r IH]; intro p; [reflexivity|]. cbn [mask_bytes].
  destruct (8 <=? p) eqn:E; cbn [mask_bytes]; rewrite E.
  - now rewrite IH.
  - rewrite IH. now rewrite <- N.land_assoc, N.land_diag.
Qed.

Lemma pad_take_masked ip : forall p, p <= 8 * lenN ip ->
  pad_zero (firstn (N.to_nat ((p + 7) / 8)) (mask_bytes ip p)) (length ip) = mask_bytes ip p.
Proof.
  induction ip as [|b r IH]; intros p Hp.
  - cbn [mask_bytes length]. now rewrite firstn_nil.
  - unfold lenN in Hp. cbn [length] in Hp. cbn [mask_bytes length].
    destruct (8 <=? p) eqn:E.
    + replace (N.to_nat ((p + 7) / 8)) with (S (N.to_nat ((p - 8 + 7) / 8))) by lia.
      cbn [firstn pad_zero]. f_equal. apply IH. unfold lenN. lia.
    + destruct (p =? 0) eqn:E0.
      * assert (p = 0) by lia. subst p. replace (N.to_nat ((0 + 7) / 8)) with 0%nat by reflexivity.
        cbn [firstn pad_zero]. rewrite mask_bytes_zero.
        replace (256 - N.shiftl 1 (8 - 0)) with 0 by reflexivity. now rewrite N.land_0_r.
      * replace (N.to_nat ((p + 7) / 8)) with 1%nat by lia.
        cbn [firstn pad_zero]. now rewrite mask_bytes_zero.
Qed.

Lemma to4_prefixed X : lenN X = 4 -> to4 (v4in6_prefix ++ X) = Some X.
Proof.
  intro H. destruct X as [|a [|b [|c [|d [|e r]]]]]; unfold lenN in H; cbn [length] in H; try lia.
  unfold to4, lenN, v4in6_prefix. cbn [app length].
  replace (N.of_nat 16 =? 4) with false by reflexivity. replace (N.of_nat 16 =? 16) with true by reflexivity.
  reflexivity.
Qed.

Lemma need_small m : m <= 248 -> need_length m = (m + 7) / 8.
Proof. intro H. unfold need_length. rewrite N.mod_small by lia. reflexivity. Qed.

Lemma subnet_pack_1 m s a : subnet_pack 1 m s a =
  if 32 <? m then Err "netmask"
  else match to4 a with
       | None => Err "address"
       | Some ip4 => Ok (u16 1 ++ [m mod 256; s mod 256] ++ takeN (need_length m) (mask_bytes ip4 m))
       end.
Proof. reflexivity. Qed.
Lemma subnet_pack_2 m s a : subnet_pack 2 m s a =
  if 128 <? m then Err "netmask"
  else if negb (lenN a =? 16) then Err "address"
  else Ok (u16 2 ++ [m mod 256; s mod 256] ++ takeN (need_length m) (mask_bytes a m)).
Proof. reflexivity. Qed.

Lemma to4_len' e x : to4 e = Some x -> lenN x = 4.
Proof.
  unfold to4. destruct (lenN e =? 4) eqn:E4; [intro H; inversion H; subst; lia|].
  destruct ((lenN e =? 16) && _) eqn:E16; [|discriminate]. intro H. injection H as <-.
  apply andb_prop in E16. destruct E16 as [E16 _]. unfold lenN in *. change (N.of_nat (length (skipn 12 e)) = 4). rewrite skipn_length. lia.
Qed.

Lemma subnet_pack_unpack f m s a b :
  f < 65536 -> m < 256 -> s < 256 ->
  (if f =? 1 then s <=? 32 else if f =? 2 then s <=? 128 else true) = true ->
  subnet_pack f m s a = Ok b ->
  subnet_unpack b = Ok (subnet_norm f m s a) /\ opt_pack (subnet_norm f m s a) = Ok b.
Proof.
  intros Hf Hm Hs Hrt H. unfold subnet_norm.
  destruct (f =? 0) eqn:F0.
  { assert (f = 0) by lia. subst f. unfold subnet_pack in H. change (0 =? 0) with true in H. cbv iota in H.
    destruct (negb (m =? 0)) eqn:M0; [discriminate|]. injection H as <-.
    assert (m = 0) by lia. subst m. split; [rewrite (N.mod_small s 256) by lia; reflexivity|reflexivity]. }
  destruct (f =? 1) eqn:F1.
  { assert (f = 1) by lia. subst f. rewrite subnet_pack_1 in H.
    destruct (32 <? m) eqn:E32; [discriminate|]. destruct (to4 a) as [ip4|] eqn:T4; [|discriminate].
    injection H as <-. pose proof (to4_len' a ip4 T4) as L4.
    assert (HP : pad_zero (takeN (need_length m) (mask_bytes ip4 m)) 4 = mask_bytes ip4 m).
    { rewrite need_small by lia. unfold takeN. replace 4%nat with (length ip4) by (unfold lenN in L4; lia).
      apply pad_take_masked. lia. }
    rewrite !(N.mod_small m 256), !(N.mod_small s 256) by lia. split.
    - change (subnet_unpack (u16 1 ++ [m; s] ++ takeN (need_length m) (mask_bytes ip4 m)) = Ok (O_SUBNET 1 m s (v4in6_prefix ++ pad_zero (takeN (need_length m) (mask_bytes ip4 m)) 4))).
      rewrite subnet_unpack_shape by lia. change (1 =? 0) with false. change (1 =? 1) with true. cbv iota.
      replace ((32 <? m) || (32 <? s)) with false by lia. reflexivity.
    - rewrite HP. cbn [opt_pack]. rewrite subnet_pack_1, E32, to4_prefixed.
      + rewrite mask_bytes_idem. rewrite !(N.mod_small m 256), !(N.mod_small s 256) by lia. reflexivity.
      + unfold lenN in *. rewrite mask_bytes_length. lia. }
  destruct (f =? 2) eqn:F2.
  { assert (f = 2) by lia. subst f. rewrite subnet_pack_2 in H.
    destruct (128 <? m) eqn:E128; [discriminate|]. destruct (negb (lenN a =? 16)) eqn:L16; [discriminate|].
    injection H as <-.
    assert (HP : pad_zero (takeN (need_length m) (mask_bytes a m)) 16 = mask_bytes a m).
    { rewrite need_small by lia. unfold takeN. replace 16%nat with (length a) by (unfold lenN in L16; lia).
      apply pad_take_masked. lia. }
    rewrite !(N.mod_small m 256), !(N.mod_small s 256) by lia. split.
    - change (subnet_unpack (u16 2 ++ [m; s] ++ takeN (need_length m) (mask_bytes a m)) = Ok (O_SUBNET 2 m s (pad_zero (takeN (need_length m) (mask_bytes a m)) 16))).
      rewrite subnet_unpack_shape by lia. change (2 =? 0) with false. change (2 =? 1) with false.
      change (2 =? 2) with true. cbv iota.
      replace ((128 <? m) || (128 <? s)) with false by lia. reflexivity.
    - rewrite HP. cbn [opt_pack]. rewrite subnet_pack_2, E128.
      replace (negb (lenN (mask_bytes a m) =? 16)) with false
        by (unfold lenN in *; rewrite mask_bytes_length; lia).
      rewrite mask_bytes_idem. rewrite !(N.mod_small m 256), !(N.mod_small s 256) by lia. reflexivity. }
  unfold subnet_pack in H. rewrite F0, F1, F2 in H. discriminate.
Qed.

(* ---------------- EDNS0: value -> wire -> value ---------------- *)
(* REPORTING (code 18) is not covered here: its codec is the domain name codec
   run with a 255 octet buffer; see opt_reporting_pack_unpack below *)
Theorem opt_pack_unpack_all v b :
  opt_wf v = true -> opt_rt_ok v = true -> opt_code v <> 18 -> opt_pack v = Ok b ->
  opt_unpack (opt_code v) b = Ok (opt_norm v) /\ opt_pack (opt_norm v) = Ok b.
Proof.
  intros Hwf Hrt H18 H. destruct v; cbn [opt_code opt_norm opt_wf opt_rt_ok opt_pack] in *.
  - injection H as <-. split; [apply llq_unpack; lia|reflexivity].
  - destruct (keylease =? 0) eqn:E; injection H as <-; split.
    + assert (keylease = 0) by lia. subst. apply ul_unpack4. lia.
    + reflexivity.
    + apply ul_unpack8; lia.
    + reflexivity.
  - destruct (hex_decode_lower _ nsid b (le_n _) H) as (I1 & I2 & I3). split; [|exact I2].
    change (opt_unpack 3 b) with (Ok (O_NSID (hex_encode b))). now rewrite I1.
  - injection H as <-. split; reflexivity.
  - injection H as <-. split; reflexivity.
  - injection H as <-. split; reflexivity.
  - injection H as <-. split; reflexivity.
  - change (opt_unpack 8 b) with (subnet_unpack b). apply subnet_pack_unpack; try lia; assumption.
  - destruct empty; injection H as <-; split; try reflexivity. apply expire_unpack. lia.
  - destruct (hex_decode_lower _ cookie b (le_n _) H) as (I1 & I2 & I3). split; [|exact I2].
    change (opt_unpack 10 b) with (Ok (O_COOKIE (hex_encode b))). now rewrite I1.
  - destruct (0 <? timeout) eqn:E; injection H as <-; split; try reflexivity.
    + apply keepalive_unpack. lia.
    + assert (timeout = 0) by lia. subst. reflexivity.
  - injection H as <-. split; reflexivity.
  - injection H as <-. split; [apply ede_unpack; lia|reflexivity].
  - exfalso. apply H18. reflexivity.
  - injection H as <-. split; [apply zv_unpack; lia|reflexivity].
  - injection H as <-. split; [|reflexivity]. unfold opt_known_code in Hrt. cbn [existsb] in Hrt.
    unfold opt_unpack.
    repeat match goal with |- context [code =? ?k] => replace (code =? k) with false by lia end.
    reflexivity.
Qed.

Theorem opt_canon_norm v : opt_canon v = true -> opt_norm v = v.
Proof.
  destruct v; cbn [opt_canon opt_norm]; intro H; try reflexivity.
  - apply bytes_eqb_eq in H. now rewrite H.
  - unfold subnet_norm in *.
    destruct (family =? 0) eqn:F0.
    { apply andb_prop in H. destruct H as [H1 H2]. apply bytes_eqb_eq in H2. assert (family = 0) by lia. now subst. }
    destruct (family =? 1) eqn:F1.
    { destruct (to4 address); [|reflexivity].
      apply andb_prop in H. destruct H as [H1 H2]. apply bytes_eqb_eq in H2. assert (family = 1) by lia.
      subst family. now rewrite <- H2. }
    destruct (family =? 2) eqn:F2; [|reflexivity].
    apply andb_prop in H. destruct H as [H1 H2]. apply bytes_eqb_eq in H2. assert (family = 2) by lia.
    subst family. now rewrite <- H2.
  - destruct empty; [|reflexivity]. assert (expire = 0) by lia. now subst.
  - apply bytes_eqb_eq in H. now rewrite H.
  - destruct (pack_name_plain (fqdn agent) 255) as [w| | |]; try reflexivity.
    destruct (unpack_name w 0) as [[name off]| | |]; try reflexivity.
    apply bytes_eqb_eq in H. now subst.
Qed.

(* refuted clauses: what opt_rt_ok excludes *)
(* &dns.EDNS0_SUBNET{Family: 1, SourceNetmask: 24, SourceScope: 33, Address: net.IP{192, 0, 2, 0}}:
   pack() writes 00011821c00002, unpack of those octets answers bad netmask *)
Theorem subnet_scope_refuted :
  let v := O_SUBNET 1 24 33 [192; 0; 2; 0] in
  opt_wf v = true /\ opt_pack v = Ok [0; 1; 24; 33; 192; 0; 2] /\
  opt_unpack (opt_code v) [0; 1; 24; 33; 192; 0; 2] = Err "netmask".
Proof. vm_compute. repeat split. Qed.
(* &dns.EDNS0_LOCAL{Code: 1, Data: nil} packs to no octets, which code 1 (LLQ) refuses;
   &dns.EDNS0_LOCAL{Code: 3, Data: []byte{0xAB}} comes back as an EDNS0_NSID *)
Theorem local_known_code_refuted :
  opt_pack (O_LOCAL 1 []) = Ok [] /\ opt_unpack 1 [] = Err "buf" /\
  opt_pack (O_LOCAL 3 [171]) = Ok [171] /\ opt_unpack 3 [171] = Ok (O_NSID [97; 98]).
Proof. vm_compute. repeat split. Qed.
(* the normal form differs from the value: upper-case hex text, unmasked / long-form
   addresses, an Expire value beside Empty *)
Theorem opt_not_canonical_refuted :
  opt_norm (O_NSID [65; 66]) = O_NSID [97; 98] /\
  opt_norm (O_SUBNET 1 8 0 [10; 1; 2; 3]) = O_SUBNET 1 8 0 (v4in6_prefix ++ [10; 0; 0; 0]) /\
  opt_norm (O_EXPIRE 7 true) = O_EXPIRE 0 true.
Proof. vm_compute. repeat split. Qed.

Example opt_pack_unpack_example :
  let v := O_SUBNET 1 20 0 [10; 1; 255; 3] in
  opt_wf v = true /\ opt_rt_ok v = true /\ opt_code v <> 18 /\
  opt_pack v = Ok [0; 1; 20; 0; 10; 1; 240] /\
  opt_norm v = O_SUBNET 1 20 0 (v4in6_prefix ++ [10; 1; 240; 0]) /\ opt_canon v = false /\
  opt_canon (opt_norm v) = true.
Proof. vm_compute. repeat split. discriminate. Qed.

(* ---------------- SVCB: value -> wire -> value ---------------- *)
Lemma firstn_len_app {A} (e t : list A) : firstn (length e) (e ++ t) = e.
Proof. induction e as [|x e IH]; cbn [length app firstn]; [now destruct t|now rewrite IH]. Qed.
Lemma skipn_len_app {A} (e t : list A) : skipn (length e) (e ++ t) = t.
Proof. induction e as [|x e IH]; cbn [length app skipn]; [reflexivity|exact IH]. Qed.
Lemma chunks_S k f (b : bytes) : b <> [] -> chunks k (S f) b = firstn k b :: chunks k f (skipn k b).
Proof. destruct b; [congruence|reflexivity]. Qed.

Lemma alpn_rt ids : forall b fuel, alpn_pack ids = Ok b -> (length b < fuel)%nat -> alpn_unpack fuel b = Ok ids.
Proof.
  induction ids as [|e r IH]; intros b fuel H Hf; cbn [alpn_pack] in H.
  - injection H as <-. destruct fuel; [cbn in Hf; lia|reflexivity].
  - destruct (lenN e =? 0) eqn:E0; [discriminate|]. destruct (255 <? lenN e) eqn:E1; [discriminate|].
    destruct (alpn_pack r) as [t| | |] eqn:Er; cbn [bind] in H; try discriminate. injection H as <-.
    destruct fuel as [|f]; [cbn in Hf; lia|]. cbn [alpn_unpack]. rewrite E0.
    replace (lenN (e ++ t) <? lenN e) with false by (unfold lenN; rewrite app_length; lia).
    unfold dropN, takeN, lenN. rewrite Nat2N.id, skipn_len_app, firstn_len_app.
    rewrite (IH t f eq_refl); [reflexivity|]. cbn [length] in Hf. rewrite app_length in Hf. lia.
Qed.

Lemma to4_of_len4 x : lenN x = 4 -> to4 x = Some x.
Proof. intro H. unfold to4. now replace (lenN x =? 4) with true by lia. Qed.

Lemma v4hint_rt h : forall b fuel, v4hint_pack h = Ok b -> (length b <= fuel)%nat ->
  chunks 4 fuel b = map the4 h /\ v4hint_pack (map the4 h) = Ok b /\ length b = (4 * length h)%nat.
Proof.
  induction h as [|e r IH]; intros b fuel H Hf; cbn [v4hint_pack] in H.
  - injection H as <-. repeat split. destruct fuel; reflexivity.
  - destruct (to4 e) as [x|] eqn:Ex; [|discriminate].
    destruct (v4hint_pack r) as [t| | |] eqn:Er; cbn [bind] in H; try discriminate. injection H as <-.
    pose proof (to4_len' e x Ex) as Lx. assert (Lx' : length x = 4%nat) by (unfold lenN in Lx; lia).
    rewrite app_length in Hf. destruct fuel as [|f]; [lia|].
    destruct (IH t f eq_refl ltac:(lia)) as (I1 & I2 & I3).
    assert (Hne : x ++ t <> []) by (destruct x; [cbn in Lx'; lia|discriminate]).
    rewrite chunks_S by exact Hne. rewrite <- Lx' at 1 3. rewrite firstn_len_app, skipn_len_app, I1.
    cbn [map v4hint_pack]. assert (Hthe : the4 e = x) by (unfold the4; now rewrite Ex). rewrite Hthe. rewrite (to4_of_len4 x Lx), I2. cbn [bind].
    repeat split. rewrite app_length. cbn [length]. lia.
Qed.

Lemma v6hint_rt h : forall b fuel, v6hint_pack h = Ok b -> (length b <= fuel)%nat ->
  chunks 16 fuel b = h /\ existsb is_v4 h = false /\ length b = (16 * length h)%nat.
Proof.
  induction h as [|e r IH]; intros b fuel H Hf; cbn [v6hint_pack] in H.
  - injection H as <-. repeat split. destruct fuel; reflexivity.
  - destruct (negb (lenN e =? 16) || match to4 e with Some _ => true | None => false end) eqn:Ee; [discriminate|].
    destruct (v6hint_pack r) as [t| | |] eqn:Er; cbn [bind] in H; try discriminate. injection H as <-.
    apply orb_false_elim in Ee. destruct Ee as [E16 Ev4].
    assert (Le : length e = 16%nat) by (unfold lenN in E16; lia).
    rewrite app_length in Hf. destruct fuel as [|f]; [lia|].
    destruct (IH t f eq_refl ltac:(lia)) as (I1 & I2 & I3).
    assert (Hne : e ++ t <> []) by (destruct e; [cbn in Le; lia|discriminate]).
    rewrite chunks_S by exact Hne. rewrite <- Le at 1 3. rewrite firstn_len_app, skipn_len_app, I1.
    cbn [existsb]. unfold is_v4 at 1. rewrite Ev4, I2. repeat split. rewrite app_length. cbn [length]. lia.
Qed.

Lemma forallb_Forall_lt l k : forallb (fun c => c <? k) l = true -> Forall (fun x => x < k) l.
Proof. rewrite forallb_forall, Forall_forall. intros H x Hx. specialize (H x Hx). lia. Qed.

Theorem svcb_pack_unpack_all v b :
  svcb_wf v = true -> svcb_rt_ok v = true -> svcb_pack v = Ok b ->
  svcb_unpack (svcb_key v) b = Ok (svcb_norm v) /\ svcb_pack (svcb_norm v) = Ok b.
Proof.
  intros Hwf Hrt H. destruct v; cbn [svcb_key svcb_norm svcb_wf svcb_rt_ok svcb_pack] in *.
  - injection H as <-. apply forallb_Forall_lt in Hwf.
    pose proof (sort_n_Forall _ _ Hwf) as Hs. split; [|now rewrite sort_n_idem].
    unfold svcb_unpack. change (0 =? 65535) with false. change (0 =? 0) with true. cbv iota.
    rewrite len_flat_u16. replace (2 * lenN (sort_n codes) mod 2 =? 0) with true by lia.
    now rewrite pairs16_u16.
  - split; [|exact H]. unfold svcb_unpack. change (1 =? 65535) with false. change (1 =? 0) with false.
    change (1 =? 1) with true. cbv iota. rewrite (alpn_rt ids b _ H) by lia. reflexivity.
  - injection H as <-. split; reflexivity.
  - injection H as <-. split; [|reflexivity]. change (svcb_unpack 3 (u16 port)) with (Ok (S_PORT (be (u16 port) 0))).
    rewrite be_u16 by lia. reflexivity.
  - destruct (v4hint_rt hint b (length b) H (le_n _)) as (I1 & I2 & I3). split; [|exact I2].
    unfold svcb_unpack. change (4 =? 65535) with false. change (4 =? 0) with false. change (4 =? 1) with false.
    change (4 =? 2) with false. change (4 =? 3) with false. change (4 =? 4) with true. cbv iota.
    replace ((lenN b =? 0) || negb (lenN b mod 4 =? 0)) with false by (unfold lenN in *; lia).
    now rewrite I1.
  - injection H as <-. split; reflexivity.
  - destruct (v6hint_rt hint b (length b) H (le_n _)) as (I1 & I2 & I3). split; [|exact H].
    unfold svcb_unpack. change (6 =? 65535) with false. change (6 =? 0) with false. change (6 =? 1) with false.
    change (6 =? 2) with false. change (6 =? 3) with false. change (6 =? 4) with false. change (6 =? 5) with false.
    change (6 =? 6) with true. cbv iota.
    replace ((lenN b =? 0) || negb (lenN b mod 16 =? 0)) with false by (unfold lenN in *; lia).
    rewrite I1, I2. reflexivity.
  - injection H as <-. split; reflexivity.
  - injection H as <-. split; reflexivity.
  - injection H as <-. split; [|reflexivity]. unfold svcb_known_key in Hrt. unfold svcb_unpack.
    repeat match goal with |- context [key =? ?k] => replace (key =? k) with false by lia end.
    reflexivity.
Qed.

Lemma list_eqb_N_eq a : forall b, list_eqb N.eqb a b = true -> a = b.
Proof.
  induction a as [|x a IH]; intros [|y b] H; cbn [list_eqb] in H; try discriminate; [reflexivity|].
  apply andb_prop in H. destruct H as [H1 H2]. f_equal; [lia|now apply IH].
Qed.
Theorem svcb_canon_norm v : svcb_canon v = true -> svcb_norm v = v.
Proof.
  destruct v; cbn [svcb_canon svcb_norm]; intro H; try reflexivity.
  - apply list_eqb_N_eq in H. now rewrite H.
  - f_equal. induction hint as [|e r IH]; [reflexivity|]. cbn [forallb] in H. apply andb_prop in H.
    destruct H as [H1 H2]. cbn [map]. rewrite IH by exact H2. f_equal. unfold the4.
    rewrite to4_of_len4 by lia. reflexivity.
Qed.

(* refuted clauses: what svcb_rt_ok excludes *)
(* &dns.SVCBIPv4Hint{Hint: nil} (also SVCBIPv6Hint): pack() returns no octets and no error, unpack of no
   octets fails; &dns.SVCBLocal{KeyCode: 3, Data: []byte{1}} packs to 01, which key 3 (port) refuses *)
Theorem svcb_roundtrip_refuted :
  svcb_pack (S_IPV4HINT []) = Ok [] /\ svcb_unpack 4 [] = Err "v4hint" /\
  svcb_pack (S_IPV6HINT []) = Ok [] /\ svcb_unpack 6 [] = Err "v6hintlen" /\
  svcb_pack (S_LOCAL 3 [1]) = Ok [1] /\ svcb_unpack 3 [1] = Err "port".
Proof. vm_compute. repeat split. Qed.
(* unsorted mandatory keys, 16 octet IPv4 hints are normalised *)
Theorem svcb_not_canonical_refuted :
  svcb_norm (S_MANDATORY [4; 1]) = S_MANDATORY [1; 4] /\
  svcb_norm (S_IPV4HINT [v4in6_prefix ++ [192; 0; 2; 1]]) = S_IPV4HINT [[192; 0; 2; 1]].
Proof. vm_compute. repeat split. Qed.

Example svcb_pack_unpack_example :
  let v := S_IPV4HINT [v4in6_prefix ++ [192; 0; 2; 1]; [10; 0; 0; 1]] in
  svcb_wf v = true /\ svcb_rt_ok v = true /\ svcb_pack v = Ok [192; 0; 2; 1; 10; 0; 0; 1] /\
  svcb_canon v = false /\ svcb_canon (svcb_norm v) = true.
Proof. vm_compute. repeat split. Qed.

(* ---------------- EDNS0: wire -> value -> wire, tied to opt_view ---------------- *)
Ltac ev_eqb :=
  repeat match goal with
  | |- context [N.eqb ?a ?b] =>
    let r := eval vm_compute in (N.eqb a b) in
    match r with true => change (N.eqb a b) with true | false => change (N.eqb a b) with false end
  | |- context [N.ltb ?a ?b] =>
    let r := eval vm_compute in (N.ltb a b) in
    match r with true => change (N.ltb a b) with true | false => change (N.ltb a b) with false end
  end; cbv iota.
Ltac ev_eqb_in H :=
  repeat match type of H with
  | context [N.eqb ?a ?b] =>
    let r := eval vm_compute in (N.eqb a b) in
    match r with true => change (N.eqb a b) with true in H | false => change (N.eqb a b) with false in H end
  | context [N.ltb ?a ?b] =>
    let r := eval vm_compute in (N.ltb a b) in
    match r with true => change (N.ltb a b) with true in H | false => change (N.ltb a b) with false in H end
  end; cbv iota in H.
Ltac ev_nat :=
  repeat match goal with
  | |- context [N.to_nat ?a] =>
    let r := eval vm_compute in (N.to_nat a) in
    match r with context [N.to_nat] => fail 1 | context [Pos.to_nat] => fail 1 | _ => change (N.to_nat a) with r end
  | |- context [Pos.to_nat ?a] =>
    let r := eval vm_compute in (Pos.to_nat a) in
    match r with context [Pos.to_nat] => fail 1 | _ => change (Pos.to_nat a) with r end
  end.
Ltac bounds Hw := repeat (apply Forall_cons_iff in Hw; let Hx := fresh "Hx" in destruct Hw as [Hx Hw]).

Lemma u16_be x y : x < 256 -> y < 256 -> u16 (be [x; y] 0) = [x; y].
Proof. intros. unfold u16. cbn [be]. f_equal; [|f_equal]; lia. Qed.
Lemma u32_be a b c d : a < 256 -> b < 256 -> c < 256 -> d < 256 -> u32 (be [a; b; c; d] 0) = [a; b; c; d].
Proof. intros. unfold u32. cbn [be]. f_equal; [|f_equal; [|f_equal; [|f_equal]]]; lia. Qed.
Lemma u64_be a b c d e f g h :
  a < 256 -> b < 256 -> c < 256 -> d < 256 -> e < 256 -> f < 256 -> g < 256 -> h < 256 ->
  u64 (be [a; b; c; d; e; f; g; h] 0) = [a; b; c; d; e; f; g; h].
Proof.
  intros. assert (E : be [a; b; c; d; e; f; g; h] 0 = be [a; b; c; d] 0 * 4294967296 + be [e; f; g; h] 0)
    by (cbn [be]; lia).
  assert (B : be [e; f; g; h] 0 < 4294967296) by (cbn [be]; lia).
  unfold u64. rewrite E. set (X := be [a; b; c; d] 0) in *. set (Y := be [e; f; g; h] 0) in *.
  replace ((X * 4294967296 + Y) / 4294967296) with X by lia.
  replace ((X * 4294967296 + Y) mod 4294967296) with Y by lia.
  unfold X, Y. rewrite !u32_be by assumption. reflexivity.
Qed.

Lemma ul_tie b v : wfb b -> opt_unpack 2 b = Ok v ->
  exists b', opt_pack v = Ok b' /\ opt_view 2 b = Some (b', lenN b').
Proof.
  intros Hw H. unfold opt_unpack in H. ev_eqb_in H. unfold opt_view. cbv zeta. ev_eqb.
  destruct (lenN b =? 4) eqn:E4.
  { destruct b as [|a [|b1 [|c [|d [|e r]]]]]; unfold lenN in E4; cbn [length] in E4; try lia.
    bounds Hw. injection H as <-. exists [a; b1; c; d]. split; [|reflexivity].
    cbn [opt_pack]. ev_eqb. unfold beN, takeN, dropN. ev_nat. cbn -[be u16 u32 u64]. now rewrite u32_be. }
  destruct (lenN b =? 8) eqn:E8; [|discriminate].
  destruct b as [|a [|b1 [|c [|d [|e [|f [|g [|h [|i r]]]]]]]]]; unfold lenN in E8; cbn [length] in E8; try lia.
  bounds Hw. injection H as <-. cbn [opt_pack]. unfold beN, takeN, dropN. ev_nat. cbn -[be u16 u32 u64].
  destruct (be [e; f; g; h] 0 =? 0) eqn:K.
  - assert (e = 0 /\ f = 0 /\ g = 0 /\ h = 0) as (-> & -> & -> & ->) by (cbn [be] in K; lia).
    exists [a; b1; c; d]. split; [now rewrite u32_be|reflexivity].
  - exists [a; b1; c; d; e; f; g; h]. split; [rewrite !u32_be by assumption; reflexivity|].
    replace ((0 =? e) && ((0 =? f) && ((0 =? g) && ((0 =? h) && true)))) with false by (cbn [be] in K; lia).
    reflexivity.
Qed.

Ltac short_list H := exfalso; vm_compute in H; discriminate H.

Lemma llq_tie b v : wfb b -> opt_unpack 1 b = Ok v ->
  exists b', opt_pack v = Ok b' /\ opt_view 1 b = Some (b', lenN b').
Proof.
  intros Hw H.
  destruct b as [|x0 b]; [short_list H|]. destruct b as [|x1 b]; [short_list H|].
  destruct b as [|x2 b]; [short_list H|]. destruct b as [|x3 b]; [short_list H|].
  destruct b as [|x4 b]; [short_list H|]. destruct b as [|x5 b]; [short_list H|].
  destruct b as [|x6 b]; [short_list H|]. destruct b as [|x7 b]; [short_list H|].
  destruct b as [|x8 b]; [short_list H|]. destruct b as [|x9 b]; [short_list H|].
  destruct b as [|x10 b]; [short_list H|]. destruct b as [|x11 b]; [short_list H|].
  destruct b as [|x12 b]; [short_list H|]. destruct b as [|x13 b]; [short_list H|].
  destruct b as [|x14 b]; [short_list H|]. destruct b as [|x15 b]; [short_list H|].
  destruct b as [|x16 b]; [short_list H|]. destruct b as [|x17 b]; [short_list H|].
  do 18 (apply Forall_cons_iff in Hw; let Hx := fresh "Hx" in destruct Hw as [Hx Hw]).
  unfold opt_unpack in H. ev_eqb_in H.
  assert (L : lenN (x0 :: x1 :: x2 :: x3 :: x4 :: x5 :: x6 :: x7 :: x8 :: x9 :: x10 :: x11 :: x12 :: x13 :: x14
                    :: x15 :: x16 :: x17 :: b) <? 18 = false) by (unfold lenN; cbn [length]; lia).
  rewrite L in H. injection H as <-.
  unfold opt_view. cbv zeta. ev_eqb. rewrite L.
  exists [x0; x1; x2; x3; x4; x5; x6; x7; x8; x9; x10; x11; x12; x13; x14; x15; x16; x17]. split; [|reflexivity].
  cbn [opt_pack]. unfold beN, takeN, dropN. ev_nat. cbn -[be u16 u32 u64].
  rewrite !u16_be, u64_be, u32_be by assumption. reflexivity.
Qed.

Lemma expire_tie b v : wfb b -> opt_unpack 9 b = Ok v ->
  exists b', opt_pack v = Ok b' /\ opt_view 9 b = Some (b', lenN b').
Proof.
  intros Hw H. unfold opt_view. cbv zeta. ev_eqb.
  destruct b as [|x0 b]. { vm_compute in H. injection H as <-. exists []. split; reflexivity. }
  destruct b as [|x1 b]; [short_list H|]. destruct b as [|x2 b]; [short_list H|].
  destruct b as [|x3 b]; [short_list H|].
  do 4 (apply Forall_cons_iff in Hw; let Hx := fresh "Hx" in destruct Hw as [Hx Hw]).
  unfold opt_unpack in H. ev_eqb_in H.
  assert (L0 : lenN (x0 :: x1 :: x2 :: x3 :: b) =? 0 = false) by (unfold lenN; cbn [length]; lia).
  assert (L : lenN (x0 :: x1 :: x2 :: x3 :: b) <? 4 = false) by (unfold lenN; cbn [length]; lia).
  try rewrite L0 in H; try rewrite L in H. injection H as <-. try rewrite L0; try rewrite L.
  exists [x0; x1; x2; x3]. split; [|reflexivity].
  cbn [opt_pack]. unfold beN, takeN, dropN. ev_nat. cbn -[be u16 u32 u64]. now rewrite u32_be.
Qed.

Lemma keepalive_tie b v : wfb b -> opt_unpack 11 b = Ok v ->
  exists b', opt_pack v = Ok b' /\ opt_view 11 b = Some (b', lenN b').
Proof.
  intros Hw H. unfold opt_view. cbv zeta. ev_eqb.
  destruct b as [|x0 b]. { vm_compute in H. injection H as <-. exists []. split; reflexivity. }
  destruct b as [|x1 b]; [short_list H|].
  destruct b as [|x2 b].
  2:{ exfalso. unfold opt_unpack in H. ev_eqb_in H.
      try replace (lenN (x0 :: x1 :: x2 :: b) =? 0) with false in H by (unfold lenN; cbn [length]; lia).
      try replace (lenN (x0 :: x1 :: x2 :: b) =? 2) with false in H by (unfold lenN; cbn [length]; lia).
      discriminate. }
  bounds Hw. unfold opt_unpack in H. ev_eqb_in H. injection H as <-.
  cbn [opt_pack]. unfold beN, takeN, dropN. ev_nat. cbn -[be u16 u32 u64].
  destruct (0 <? be [x0; x1] 0) eqn:K.
  - exists [x0; x1]. split; [now rewrite u16_be|].
    replace ((0 =? x0) && ((0 =? x1) && true)) with false by (cbn [be] in K; lia). reflexivity.
  - assert (x0 = 0 /\ x1 = 0) as (-> & ->) by (cbn [be] in K; lia). exists []. split; reflexivity.
Qed.

Lemma ede_tie b v : wfb b -> opt_unpack 15 b = Ok v ->
  exists b', opt_pack v = Ok b' /\ opt_view 15 b = Some (b', lenN b').
Proof.
  intros Hw H. unfold opt_view. cbv zeta. ev_eqb.
  destruct b as [|x0 b]; [short_list H|]. destruct b as [|x1 b]; [short_list H|].
  do 2 (apply Forall_cons_iff in Hw; let Hx := fresh "Hx" in destruct Hw as [Hx Hw]).
  unfold opt_unpack in H. ev_eqb_in H.
  assert (L : lenN (x0 :: x1 :: b) <? 2 = false) by (unfold lenN; cbn [length]; lia).
  try rewrite L in H. injection H as <-. try rewrite L. exists (x0 :: x1 :: b). split; [|reflexivity].
  cbn [opt_pack]. unfold beN, takeN, dropN. ev_nat. cbn -[be u16 u32 u64]. now rewrite u16_be.
Qed.

Lemma zv_tie b v : wfb b -> opt_unpack 19 b = Ok v ->
  exists b', opt_pack v = Ok b' /\ opt_view 19 b = Some (b', lenN b').
Proof.
  intros Hw H. unfold opt_view. cbv zeta. ev_eqb.
  destruct b as [|x0 b]; [short_list H|]. destruct b as [|x1 b]; [short_list H|].
  do 2 (apply Forall_cons_iff in Hw; let Hx := fresh "Hx" in destruct Hw as [Hx Hw]).
  unfold opt_unpack in H. ev_eqb_in H.
  assert (L : lenN (x0 :: x1 :: b) <? 2 = false) by (unfold lenN; cbn [length]; lia).
  try rewrite L in H. injection H as <-. try rewrite L. exists (x0 :: x1 :: b). split; [|reflexivity].
  cbn [opt_pack]. unfold nthN, dropN. ev_nat. cbn [nth skipn app].
  rewrite (N.mod_small x0 256), (N.mod_small x1 256) by lia. reflexivity.
Qed.

Lemma pad_zero_length n : forall l, length (pad_zero l n) = n.
Proof. induction n as [|n IH]; intro l; [reflexivity|]. destruct l; cbn [pad_zero length]; now rewrite IH. Qed.

Lemma subnet_view_shape f m s T : f < 65536 ->
  subnet_view (u16 f ++ [m; s] ++ T) =
    if f =? 0 then (if m =? 0 then Some [0; 0; 0; s] else None)
    else if f =? 1 then
      if (32 <? m) || (32 <? s) then None
      else Some ([0; 1; m; s] ++ takeN ((m + 7) / 8) (mask_bytes (pad_zero T 4) m))
    else if f =? 2 then
      if (128 <? m) || (128 <? s) then None
      else Some ([0; 2; m; s] ++ takeN ((m + 7) / 8) (mask_bytes (pad_zero T 16) m))
    else None.
Proof.
  intro Hf. unfold subnet_view.
  replace (lenN (u16 f ++ [m; s] ++ T) <? 4) with false by (unfold lenN, u16; cbn [app length]; lia).
  assert (E : be (firstn 2 (u16 f ++ [m; s] ++ T)) 0 = f).
  { unfold u16. cbn -[be]. exact (be_u16 f Hf). }
  cbv zeta. rewrite E. unfold nthN, u16. cbn. reflexivity.
Qed.

Lemma subnet_tie b v : wfb b -> subnet_unpack b = Ok v ->
  exists b', opt_pack v = Ok b' /\ subnet_view b = Some b'.
Proof.
  intros Hw H. destruct b as [|f1 [|f2 [|m [|s T]]]]; try short_list H.
  do 4 (apply Forall_cons_iff in Hw; let Hx := fresh "Hx" in destruct Hw as [Hx Hw]).
  assert (Eb : f1 :: f2 :: m :: s :: T = u16 (be [f1; f2] 0) ++ [m; s] ++ T) by (now rewrite u16_be).
  assert (Fb : be [f1; f2] 0 < 65536) by (cbn [be]; lia).
  rewrite Eb in *. set (f := be [f1; f2] 0) in *. clearbody f.
  rewrite subnet_unpack_shape in H by exact Fb. rewrite subnet_view_shape by exact Fb.
  destruct (f =? 0) eqn:F0.
  { destruct (m =? 0) eqn:M0; cbn [negb] in H; [|discriminate]. injection H as <-.
    exists [0; 0; 0; s]. split; [|reflexivity]. cbn [opt_pack]. unfold subnet_pack. ev_eqb. rewrite M0. cbn [negb].
    now rewrite N.mod_small by lia. }
  destruct (f =? 1) eqn:F1.
  { destruct ((32 <? m) || (32 <? s)) eqn:E; [discriminate|].
    assert (Ev : v = O_SUBNET 1 m s (v4in6_prefix ++ pad_zero T 4)) by congruence. subst v.
    eexists. split; [|reflexivity]. cbn [opt_pack]. rewrite subnet_pack_1.
    replace (32 <? m) with false by lia. rewrite to4_prefixed by (unfold lenN; now rewrite pad_zero_length).
    rewrite need_small by lia. rewrite (N.mod_small m 256), (N.mod_small s 256) by lia. reflexivity. }
  destruct (f =? 2) eqn:F2; [|discriminate].
  destruct ((128 <? m) || (128 <? s)) eqn:E; [discriminate|].
  assert (Ev : v = O_SUBNET 2 m s (pad_zero T 16)) by congruence. subst v.
  eexists. split; [|reflexivity]. cbn [opt_pack]. rewrite subnet_pack_2.
  replace (128 <? m) with false by lia.
  replace (negb (lenN (pad_zero T 16) =? 16)) with false by (unfold lenN; now rewrite pad_zero_length).
  rewrite need_small by lia. rewrite (N.mod_small m 256), (N.mod_small s 256) by lia. reflexivity.
Qed.

(* REPORTING (code 18) is excluded: see opt_pack_unpack_all *)
Theorem opt_unpack_pack_all c b v : wfb b -> c <> 18 -> opt_unpack c b = Ok v ->
  exists b', opt_pack v = Ok b' /\ opt_view c b = Some (b', lenN b').
Proof.
  intros Hw H18 H.
  destruct (c =? 1) eqn:C1; [assert (c = 1) by lia; subst c; now apply llq_tie|].
  destruct (c =? 2) eqn:C2; [assert (c = 2) by lia; subst c; now apply ul_tie|].
  destruct (c =? 8) eqn:C8.
  { assert (c = 8) by lia. subst c. change (opt_unpack 8 b) with (subnet_unpack b) in H.
    destruct (subnet_tie b v Hw H) as (b' & P & V). exists b'. split; [exact P|].
    unfold opt_view. cbv zeta. ev_eqb. now rewrite V. }
  destruct (c =? 9) eqn:C9; [assert (c = 9) by lia; subst c; now apply expire_tie|].
  destruct (c =? 11) eqn:C11; [assert (c = 11) by lia; subst c; now apply keepalive_tie|].
  destruct (c =? 15) eqn:C15; [assert (c = 15) by lia; subst c; now apply ede_tie|].
  destruct (c =? 19) eqn:C19; [assert (c = 19) by lia; subst c; now apply zv_tie|].
  assert (C18 : c =? 18 = false) by lia.
  assert (Hv : opt_view c b = Some (b, lenN b)).
  { unfold opt_view. cbv zeta. rewrite C1, C2, C8, C9, C11, C15, C18, C19. reflexivity. }
  exists b. split; [|exact Hv]. unfold opt_unpack in H. rewrite C1, C2, C8, C9, C11, C15, C18, C19 in H.
  destruct (c =? 3); [injection H as <-; cbn [opt_pack]; now apply hex_encode_decode|].
  destruct (c =? 4); [injection H as <-; reflexivity|].
  destruct (c =? 5); [injection H as <-; reflexivity|].
  destruct (c =? 6); [injection H as <-; reflexivity|].
  destruct (c =? 7); [injection H as <-; reflexivity|].
  destruct (c =? 10); [injection H as <-; cbn [opt_pack]; now apply hex_encode_decode|].
  destruct (c =? 12); [injection H as <-; reflexivity|].
  injection H as <-. reflexivity.
Qed.

(* the error side: what unpack refuses, the octet-level view refuses *)
Theorem opt_unpack_error_view c b e : c <> 18 -> opt_unpack c b = Err e -> opt_view c b = None.
Proof.
  intros H18 H. unfold opt_unpack in H. unfold opt_view. cbv zeta.
  destruct (c =? 1) eqn:C1. { destruct (lenN b <? 18); [reflexivity|discriminate]. }
  destruct (c =? 2) eqn:C2. { destruct (lenN b =? 4); [discriminate|]. destruct (lenN b =? 8); [discriminate|reflexivity]. }
  destruct (c =? 3); [discriminate|]. destruct (c =? 4); [discriminate|]. destruct (c =? 5); [discriminate|].
  destruct (c =? 6); [discriminate|]. destruct (c =? 7); [discriminate|].
  destruct (c =? 8) eqn:C8.
  { unfold subnet_unpack in H. unfold subnet_view. cbv zeta in *. unfold beN, takeN, dropN in H.
    change (N.to_nat 2) with 2%nat in H. change (N.to_nat 0) with 0%nat in H. cbn [skipn] in H.
    destruct (lenN b <? 4); [reflexivity|].
    destruct (be (firstn 2 b) 0 =? 0). { destruct (nthN b 2 0 =? 0); [discriminate|reflexivity]. }
    destruct (be (firstn 2 b) 0 =? 1). { destruct ((32 <? nthN b 2 0) || (32 <? nthN b 3 0)); [reflexivity|discriminate]. }
    destruct (be (firstn 2 b) 0 =? 2). { destruct ((128 <? nthN b 2 0) || (128 <? nthN b 3 0)); [reflexivity|discriminate]. }
    reflexivity. }
  destruct (c =? 9) eqn:C9. { destruct (lenN b =? 0); [discriminate|]. destruct (lenN b <? 4); [reflexivity|discriminate]. }
  destruct (c =? 10); [discriminate|].
  destruct (c =? 11) eqn:C11. { destruct (lenN b =? 0); [discriminate|]. destruct (lenN b =? 2); [discriminate|reflexivity]. }
  destruct (c =? 12); [discriminate|].
  destruct (c =? 15) eqn:C15. { destruct (lenN b <? 2); [reflexivity|discriminate]. }
  destruct (c =? 18) eqn:C18; [lia|].
  destruct (c =? 19) eqn:C19. { destruct (lenN b <? 2); [reflexivity|discriminate]. }
  discriminate.
Qed.

Example opt_unpack_pack_example :
  wfb [0; 1; 20; 0; 10; 1; 255; 3] /\
  opt_unpack 8 [0; 1; 20; 0; 10; 1; 255; 3] = Ok (O_SUBNET 1 20 0 (v4in6_prefix ++ [10; 1; 255; 3])) /\
  opt_pack (O_SUBNET 1 20 0 (v4in6_prefix ++ [10; 1; 255; 3])) = Ok [0; 1; 20; 0; 10; 1; 240] /\
  opt_view 8 [0; 1; 20; 0; 10; 1; 255; 3] = Some ([0; 1; 20; 0; 10; 1; 240], 7) /\
  opt_unpack 8 [0; 1; 33; 0] = Err "netmask".
Proof. split; [repeat constructor; lia|]. vm_compute. repeat split. Qed.

(* ---------------- SVCB: wire -> value -> wire, tied to svcb_view ---------------- *)
Lemma alpn_tie fuel : forall b ids, wfb b -> alpn_unpack fuel b = Ok ids ->
  alpn_pack ids = Ok b /\ alpn_scan fuel b = Some false.
Proof.
  induction fuel as [|f IH]; intros b ids Hw H; [discriminate|]. cbn [alpn_unpack alpn_scan] in *.
  destruct b as [|l r]; [injection H as <-; split; reflexivity|].
  apply Forall_cons_iff in Hw. destruct Hw as [Hl Hw].
  destruct (l =? 0) eqn:L0; [discriminate|]. destruct (lenN r <? l) eqn:Lr; [discriminate|].
  destruct (alpn_unpack f (dropN l r)) as [t| | |] eqn:Et; cbn [bind] in H; try discriminate. injection H as <-.
  assert (Hwd : wfb (dropN l r)).
  { unfold dropN, wfb. rewrite <- (firstn_skipn (N.to_nat l) r) in Hw. now apply Forall_app in Hw. }
  destruct (IH _ _ Hwd Et) as [I1 I2]. rewrite I2. split; [|reflexivity].
  cbn [alpn_pack]. assert (Lt : lenN (takeN l r) = l).
  { unfold lenN, takeN in *. rewrite firstn_length. lia. }
  rewrite Lt, L0. replace (255 <? l) with false by lia. rewrite I1. cbn [bind].
  unfold takeN, dropN. now rewrite firstn_skipn.
Qed.

Lemma v4chunks_tie fuel : forall b, (length b <= fuel)%nat -> Nat.modulo (length b) 4 = 0%nat ->
  v4hint_pack (chunks 4 fuel b) = Ok b /\ (4 * length (chunks 4 fuel b) = length b)%nat.
Proof.
  induction fuel as [|f IH]; intros b Hf Hm.
  - destruct b; [split; reflexivity|cbn in Hf; lia].
  - destruct b as [|x0 b]; [split; reflexivity|].
    destruct b as [|x1 [|x2 [|x3 r]]]; try (cbn in Hm; discriminate).
    cbn [chunks firstn skipn v4hint_pack length]. rewrite (to4_of_len4 [x0; x1; x2; x3]) by reflexivity.
    cbn [length] in Hf, Hm. destruct (IH r ltac:(lia)) as [I1 I2].
    { replace (S (S (S (S (length r))))) with (length r + 1 * 4)%nat in Hm by lia. now rewrite Nat.mod_add in Hm by lia. }
    rewrite I1. cbn [bind app]. split; [reflexivity|lia].
Qed.

Lemma svcb_tie_plain k b v : wfb b -> k <> 6 -> svcb_unpack k b = Ok v ->
  exists b', svcb_pack v = Ok b' /\ svcb_view k b = Some (b', svcb_len v).
Proof.
  intros Hw H6 H. unfold svcb_unpack in H. unfold svcb_view. cbv zeta in *.
  destruct (k =? 65535) eqn:K65; [discriminate|].
  destruct (k =? 0) eqn:K0.
  { destruct (lenN b mod 2 =? 0) eqn:Em; [|discriminate]. injection H as <-. eexists. split; [reflexivity|].
    cbn [svcb_len]. destruct (pairs16_spec b (length b) (le_n _) Hw) as [P1 P2].
    replace (2 * lenN (pairs16 b)) with (lenN b); [reflexivity|].
    assert (Nat.modulo (length b) 2 = 0)%nat by (unfold lenN in Em; lia). unfold lenN. lia. }
  destruct (k =? 1) eqn:K1.
  { destruct (alpn_unpack (S (length b)) b) as [ids| | |] eqn:Ea; cbn [bind] in H; try discriminate.
    injection H as <-. destruct (alpn_tie _ _ _ Hw Ea) as [I1 I2]. rewrite I2. exists b. split; [exact I1|].
    cbn [svcb_len]. rewrite (alpn_len ids b 0 I1). reflexivity. }
  destruct (k =? 2) eqn:K2.
  { destruct (lenN b =? 0) eqn:En; [|discriminate]. injection H as <-.
    assert (b = []) by (destruct b; [reflexivity|unfold lenN in En; cbn [length] in En; lia]). subst b.
    exists []. split; reflexivity. }
  destruct (k =? 3) eqn:K3.
  { destruct (lenN b =? 2) eqn:En; [|discriminate]. injection H as <-.
    destruct b as [|x [|y [|z r]]]; unfold lenN in En; cbn [length] in En; try lia. bounds Hw.
    exists [x; y]. split; [|reflexivity]. cbn [svcb_pack]. unfold beN, takeN, dropN. ev_nat.
    cbn -[be u16 u32 u64]. now rewrite u16_be. }
  destruct (k =? 4) eqn:K4.
  { destruct ((lenN b =? 0) || negb (lenN b mod 4 =? 0)) eqn:En; [discriminate|]. injection H as <-.
    assert (Hm : Nat.modulo (length b) 4 = 0%nat) by (unfold lenN in En; lia).
    destruct (v4chunks_tie (length b) b (le_n _) Hm) as [I1 I2]. exists b. split; [exact I1|].
    cbn [svcb_len]. replace (4 * lenN (chunks 4 (length b) b)) with (lenN b) by (unfold lenN; lia). reflexivity. }
  destruct (k =? 5) eqn:K5; [assert (k = 5) by lia; subst k; injection H as <-; exists b; split; [reflexivity|ev_eqb; reflexivity]|].
  destruct (k =? 6) eqn:K6; [lia|].
  destruct (k =? 7) eqn:K7; [assert (k = 7) by lia; subst k; injection H as <-; exists b; split; [reflexivity|ev_eqb; reflexivity]|].
  destruct (k =? 8) eqn:K8.
  { destruct (lenN b =? 0) eqn:En; [|discriminate]. injection H as <-.
    assert (b = []) by (destruct b; [reflexivity|unfold lenN in En; cbn [length] in En; lia]). subst b.
    exists []. split; reflexivity. }
  injection H as <-. exists b. split; reflexivity.
Qed.

Lemma is_v4_chunk b : (16 <= length b)%nat ->
  is_v4 (firstn 16 b) = bytes_eqb (firstn 12 b) [0;0;0;0;0;0;0;0;0;0;255;255].
Proof.
  intro H. unfold is_v4, to4. assert (L : lenN (firstn 16 b) = 16) by (unfold lenN; rewrite firstn_length; lia).
  rewrite L. change (16 =? 4) with false. change (16 =? 16) with true. cbv iota. cbn [andb].
  rewrite firstn_firstn. change (Nat.min 12 16) with 12%nat. unfold v4in6_prefix.
  now destruct (bytes_eqb (firstn 12 b) [0;0;0;0;0;0;0;0;0;0;255;255]).
Qed.

Lemma v6chunks_tie fuel : forall b, (length b <= fuel)%nat -> Nat.modulo (length b) 16 = 0%nat ->
  existsb is_v4 (chunks 16 fuel b) = false ->
  v6hint_pack (chunks 16 fuel b) = Ok b /\ (16 * length (chunks 16 fuel b) = length b)%nat /\
  forall fuel2, chunks16_has_v4 fuel2 b = false.
Proof.
  induction fuel as [|f IH]; intros b Hf Hm He.
  - destruct b; [|cbn in Hf; lia]. repeat split. intros [|g]; reflexivity.
  - destruct b as [|x0 r0] eqn:Eb; [repeat split; intros [|g]; reflexivity|]. rewrite <- Eb in *.
    assert (Hne : b <> []) by (rewrite Eb; discriminate).
    assert (L16 : (16 <= length b)%nat).
    { destruct (Nat.le_gt_cases 16 (length b)) as [|Hlt]; [assumption|].
      rewrite Nat.mod_small in Hm by lia. rewrite Eb in Hm. cbn in Hm. lia. }
    rewrite chunks_S in * by exact Hne. cbn [existsb] in He. apply orb_false_elim in He. destruct He as [He1 He2].
    assert (Ls : length (skipn 16 b) = (length b - 16)%nat) by apply skipn_length.
    assert (Hm' : Nat.modulo (length (skipn 16 b)) 16 = 0%nat).
    { rewrite Ls. replace (length b) with ((length b - 16) + 1 * 16)%nat in Hm by lia.
      now rewrite Nat.mod_add in Hm by lia. }
    destruct (IH (skipn 16 b) ltac:(lia) Hm' He2) as (I1 & I2 & I3).
    assert (Lf : lenN (firstn 16 b) = 16) by (unfold lenN; rewrite firstn_length; lia).
    cbn [v6hint_pack length]. rewrite Lf. change (16 =? 16) with true. cbn [negb orb].
    unfold is_v4 in He1. destruct (to4 (firstn 16 b)) eqn:T; [discriminate|]. rewrite I1. cbn [bind].
    rewrite firstn_skipn. split; [reflexivity|]. split; [lia|].
    intros [|g]; [reflexivity|]. cbn [chunks16_has_v4]. rewrite Eb. rewrite <- Eb.
    rewrite <- is_v4_chunk by exact L16. unfold is_v4. rewrite T. cbn [orb]. apply I3.
Qed.

Theorem svcb_unpack_pack_all k b v : wfb b -> svcb_unpack k b = Ok v ->
  exists b', svcb_pack v = Ok b' /\ svcb_view k b = Some (b', svcb_len v).
Proof.
  intros Hw H. destruct (N.eq_dec k 6) as [->|H6]; [|now apply svcb_tie_plain].
  unfold svcb_unpack in H. unfold svcb_view. cbv zeta in *. ev_eqb_in H. ev_eqb.
  destruct ((lenN b =? 0) || negb (lenN b mod 16 =? 0)) eqn:En; [discriminate|].
  destruct (existsb is_v4 (chunks 16 (length b) b)) eqn:Ev; [discriminate|]. injection H as <-.
  assert (Hm : Nat.modulo (length b) 16 = 0%nat) by (unfold lenN in En; lia).
  destruct (v6chunks_tie (length b) b (le_n _) Hm Ev) as (I1 & I2 & I3).
  rewrite I3. cbn [orb]. exists b. split; [exact I1|]. cbn [svcb_len].
  replace (16 * lenN (chunks 16 (length b) b)) with (lenN b) by (unfold lenN; lia). reflexivity.
Qed.

Example svcb_unpack_pack_example :
  svcb_unpack 0 [0; 4; 0; 1] = Ok (S_MANDATORY [4; 1]) /\
  svcb_pack (S_MANDATORY [4; 1]) = Ok [0; 1; 0; 4] /\
  svcb_view 0 [0; 4; 0; 1] = Some ([0; 1; 0; 4], 4) /\ svcb_len (S_MANDATORY [4; 1]) = 4 /\
  svcb_unpack 1 [2; 104; 50; 0] = Err "alpnempty" /\ svcb_view 1 [2; 104; 50; 0] = None.
Proof. vm_compute. repeat split. Qed.

(* REPORTING is outside the general statements; one evaluated instance: the agent domain is
   made fully qualified, the decoded value is the normal form and packs to the same octets *)
Example reporting_example :
  let v := O_REPORTING (bytes_of_string "Agent.example") in
  match opt_pack v with
  | Ok w => opt_unpack 18 w = Ok (opt_norm v) /\ opt_pack (opt_norm v) = Ok w /\
            opt_norm v = O_REPORTING (bytes_of_string "Agent.example.") /\ opt_canon v = false /\
            opt_canon (opt_norm v) = true
  | _ => False
  end.
Proof. vm_compute. repeat split. Qed.
