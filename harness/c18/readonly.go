package main

import (
	"bytes"
	"crypto"
	"crypto/sha1"
	"crypto/sha256"
	"crypto/sha512"
	"hash"
	"sync"
	"sync/atomic"
	"time"

	"github.com/miekg/dns"
	. "verif/harness/common"
)

// ---------------------------------------------------------------------------
// Verify only reads its inputs (round 5).
//
// "A message signed with SIG(0) ... verifies against the matching KEY" holds for
// the octets the caller has, whoever else is looking at them: Verify gets a
// []byte, a *SIG and a *KEY that stay the caller's. Three observations:
//
//  (a) after every Verify call the harness makes - accepted, rejected at any
//      point, or panicking - the buffer (with the octets behind its length, up
//      to its capacity), the SIG and the KEY are what they were before the call
//      (verifyClass; every other oracle goes through it);
//  (b) while a Verify call is running: the only points at which Verify hands
//      control to code it did not write are the Write/Sum calls of the hash it
//      took from the crypto registry, so the harness puts an observing hash
//      there; at every such point the inputs equal the copy taken before the
//      call, and an ordinary Verify of the very same octets gives the verdict it
//      gives when made alone (oracleObserved). No goroutines, no timing;
//  (c) many goroutines verifying one shared buffer (concurrent.go,
//      oracleSharedBuffer).
// ---------------------------------------------------------------------------

type roFail struct {
	key, desc string
	in        c18in
}

var (
	roMu      sync.Mutex
	roFails   []roFail
	roChecked atomic.Int64
)

func roReport(key, desc string, in c18in) {
	roMu.Lock()
	if len(roFails) < 64 {
		roFails = append(roFails, roFail{key, desc, in})
	}
	roMu.Unlock()
}

// flushRO: called from the main goroutine (Viol is not made for several).
func flushRO() {
	roMu.Lock()
	defer roMu.Unlock()
	for _, f := range roFails {
		Viol(f.key, f.desc, f.in)
	}
	roFails = nil
	st["verify_inputs_unchanged_checked"] += int(roChecked.Swap(0))
}

// snapshot of what a Verify call is given
type roSnap struct {
	buf  []byte // buf[:cap] up to 64 octets behind len
	n    int
	s    dns.SIG
	k    dns.KEY
	hasK bool
}

func takeSnap(s *dns.SIG, k *dns.KEY, buf []byte) roSnap {
	full := buf[:min(cap(buf), len(buf)+64)]
	sn := roSnap{buf: append([]byte(nil), full...), n: len(buf), s: *s}
	if k != nil {
		sn.k, sn.hasK = *k, true
	}
	return sn
}

// changed: which input differs from the snapshot ("" when none does).
func (sn *roSnap) changed(s *dns.SIG, k *dns.KEY, buf []byte) string {
	full := buf[:min(cap(buf), len(buf)+64)]
	if !bytes.Equal(full, sn.buf) {
		for i := range full {
			if i >= len(sn.buf) || full[i] != sn.buf[i] {
				where := "octet " + Itoa(i)
				if i >= sn.n {
					where += " (behind the end of the slice, inside its capacity)"
				}
				return "the message buffer, " + where + ": was " + Hx(sn.buf[i:min(i+1, len(sn.buf))]) + ", is " + Hx(full[i:i+1])
			}
		}
		return "the message buffer"
	}
	// the exported fields, one by one (a private cache inside the structs would be the library's business)
	a, b := s, &sn.s
	if a.Hdr != b.Hdr || a.TypeCovered != b.TypeCovered || a.Algorithm != b.Algorithm || a.Labels != b.Labels || a.OrigTtl != b.OrigTtl ||
		a.Expiration != b.Expiration || a.Inception != b.Inception || a.KeyTag != b.KeyTag || a.SignerName != b.SignerName || a.Signature != b.Signature {
		return "the SIG it was called on (" + b.String() + " -> " + a.String() + ")"
	}
	if sn.hasK && (k.Hdr != sn.k.Hdr || k.Flags != sn.k.Flags || k.Protocol != sn.k.Protocol || k.Algorithm != sn.k.Algorithm || k.PublicKey != sn.k.PublicKey) {
		return "the KEY it was given"
	}
	return ""
}

// verifyClass: SIG.Verify under Protect, its verdict as a class, and observation (a).
func verifyClass(s *dns.SIG, k *dns.KEY, buf []byte) string {
	sn := takeSnap(s, k, buf)
	got := Protect(func() string { return errClass(s.Verify(k, buf)) })
	roChecked.Add(1)
	if w := sn.changed(s, k, buf); w != "" {
		kr := ""
		if k != nil {
			kr = sn.k.String()
		}
		roReport("C18/Verify/input-modified", "SIG.Verify (verdict "+got+") changed "+w,
			c18in{Signed: Hx(sn.buf[:sn.n]), Alg: dns.AlgorithmToString[sn.s.Algorithm], KeyRR: kr})
	}
	return got
}

// ---------------------------------------------------------------------------
// (b) the observing hash
// ---------------------------------------------------------------------------

// obsHook is called at every Write and Sum of an observing hash. It is set and
// cleared by oracleObserved only, which runs while no other goroutine exists.
var obsHook func(point string)

type obsHash struct {
	inner hash.Hash     // a real hash ...
	ident *bytes.Buffer // ... or the identity (Ed25519 signs the data itself)
}

func (h *obsHash) call(p string) {
	if f := obsHook; f != nil {
		f(p)
	}
}
func (h *obsHash) Write(b []byte) (int, error) {
	h.call("before Write")
	var n int
	var err error
	if h.inner != nil {
		n, err = h.inner.Write(b)
	} else {
		n, err = h.ident.Write(b)
	}
	h.call("after Write")
	return n, err
}
func (h *obsHash) Sum(b []byte) []byte {
	h.call("Sum")
	if h.inner != nil {
		return h.inner.Sum(b)
	}
	return append(b, h.ident.Bytes()...)
}
func (h *obsHash) Reset() {
	if h.inner != nil {
		h.inner.Reset()
	} else {
		h.ident.Reset()
	}
}
func (h *obsHash) Size() int {
	if h.inner != nil {
		return h.inner.Size()
	}
	return h.ident.Len()
}
func (h *obsHash) BlockSize() int {
	if h.inner != nil {
		return h.inner.BlockSize()
	}
	return 1024
}

// an algorithm number nobody has assigned a hash to, and a crypto.Hash slot
// nothing is registered for: the way to give Verify an observing identity hash
// (the library's own one for Ed25519 does not come from the registry)
const obsAlg = dns.PRIVATEDNS
const obsSlot = crypto.MD4

// oracleObserved: for every key family, valid signed messages (no additional
// record, some, 255 - ARCOUNT with a non-zero high octet - and a large one);
// the outer Verify is made with the matching key, with a key of other material
// and with a key of another owner name; at every observation point: inputs
// unchanged, and Verify of the same octets with the matching key accepts.
func oracleObserved(r *Rng, keys []keyPair) {
	t0 := time.Now()
	defer func() { st["wall_ms_observed"] = int(time.Since(t0).Milliseconds()) }()
	// the registry entries the library uses, wrapped; restored at the end
	std := map[crypto.Hash]func() hash.Hash{crypto.SHA1: sha1.New, crypto.SHA256: sha256.New, crypto.SHA384: sha512.New384, crypto.SHA512: sha512.New}
	for ch, mk := range std {
		mk := mk
		crypto.RegisterHash(ch, func() hash.Hash { return &obsHash{inner: mk()} })
	}
	crypto.RegisterHash(obsSlot, func() hash.Hash { return &obsHash{ident: new(bytes.Buffer)} })
	oldAlg, hadAlg := dns.AlgorithmToHash[obsAlg]
	dns.AlgorithmToHash[obsAlg] = obsSlot
	defer func() {
		obsHook = nil
		for ch, mk := range std {
			crypto.RegisterHash(ch, mk)
		}
		if hadAlg {
			dns.AlgorithmToHash[obsAlg] = oldAlg
		} else {
			delete(dns.AlgorithmToHash, obsAlg)
		}
	}()

	now := uint32(time.Now().Unix())
	for ki, kp := range keys {
		// other material, same owner, same family: the call goes all the way to the signature check
		kOther := otherMaterial(kp)
		for mi, nextra := range []int{0, 3, 255, -1} {
			var m *dns.Msg
			if nextra < 0 {
				m = genMsg(r, 12)
				for i := 0; i < 60; i++ {
					m.Answer = append(m.Answer, &dns.TXT{Hdr: dns.RR_Header{Name: "big.example.org.", Rrtype: dns.TypeTXT, Class: 1, Ttl: uint32(i)}, Txt: []string{string(bytes.Repeat([]byte{byte('a' + i%26)}, 200))}})
				}
			} else {
				m = genMsg(r, 2)
				m.Extra = nil
				for i := 0; i < nextra; i++ {
					m.Extra = append(m.Extra, &dns.A{Hdr: dns.RR_Header{Name: "x.", Rrtype: dns.TypeA, Class: 1}, A: []byte{10, 0, byte(i >> 8), byte(i)}})
				}
			}
			m.Compress = (ki+mi)%2 == 0
			s := newSig(kp, now-3000, now+3000)
			out, err := doSign(s, kp, m)
			if err != nil {
				continue // judged by oracleMessage
			}
			lone, used, _, _ := receive(out, s, kp.key)
			if lone != "ok:" {
				continue // judged by oracleMessage
			}
			in := c18in{Signed: Hx(out), Alg: kp.name, Compress: m.Compress, Len: len(out), Extra: len(m.Extra) + 1, KeyRR: kp.key.String()}

			// outer calls: matching key; other material, same owner; other owner
			kName := *kp.key
			kName.Hdr.Name = "other." + kp.key.Hdr.Name
			for _, oc := range []struct {
				what string
				k    *dns.KEY
			}{{"the matching key", kp.key}, {"a key of other material", &kOther}, {"a key of another owner", &kName}} {
				outerSig := *used
				if kp.key.Algorithm == dns.ED25519 {
					outerSig.Algorithm = obsAlg // -> observing identity hash; the KEY still says Ed25519
				}
				wantOuter := verifyClass(&outerSig, oc.k, out) // without an observer
				points, inHook := 0, false
				sn := takeSnap(&outerSig, oc.k, out)
				failed := false
				obsHook = func(point string) {
					if inHook {
						return // the inner call's own hash
					}
					inHook = true
					defer func() { inHook = false }()
					points++
					st["verify_observed_points_checked"]++
					if failed {
						return
					}
					in2 := in
					in2.Detail = "outer Verify with " + oc.what + ", observed " + point + " number " + Itoa(points) + " of its hash"
					if w := sn.changed(&outerSig, oc.k, out); w != "" {
						failed = true
						Viol("C18/Verify/input-modified", "while SIG.Verify is running, "+w+" (it is put back before Verify returns)", in2)
						return
					}
					// somebody else verifies the same octets now
					if got := Protect(func() string { return errClass(used.Verify(kp.key, out)) }); got != lone {
						failed = true
						Viol("C18/Verify/shared-buffer-rejected", "a valid message is rejected ("+got+") when verified while another SIG.Verify of the same octets is in progress", in2)
					}
				}
				got := Protect(func() string { return errClass(outerSig.Verify(oc.k, out)) })
				obsHook = nil
				st["verify_observed_checked"]++
				if points == 0 {
					st["verify_observed_without_hash_call"]++
				}
				if w := sn.changed(&outerSig, oc.k, out); w != "" && !failed {
					in2 := in
					in2.Detail = "outer Verify with " + oc.what
					Viol("C18/Verify/input-modified", "SIG.Verify (verdict "+got+") changed "+w, in2)
				}
				if got != wantOuter && !failed {
					in2 := in
					in2.Detail = "outer Verify with " + oc.what + ": " + got + ", without observer " + wantOuter
					Viol("C18/Verify/shared-buffer-rejected", "SIG.Verify gives another verdict when a second Verify of the same octets runs during it", in2)
				}
			}
		}
	}
}

// otherMaterial: kp's KEY with the public key of another, freshly generated key of
// the same algorithm (made once per key).
var otherMaterialCache = map[*dns.KEY]string{}

func otherMaterial(kp keyPair) dns.KEY {
	pub, ok := otherMaterialCache[kp.key]
	if !ok {
		pub = mkKey(kp.key.Hdr.Name, kp.key.Algorithm, min(keyBits(kp), 1024)).key.PublicKey
		otherMaterialCache[kp.key] = pub
	}
	k := *kp.key
	k.PublicKey = pub
	return k
}

// keyBits: the size to hand Generate for another key like kp.
func keyBits(kp keyPair) int {
	switch kp.key.Algorithm {
	case dns.ED25519, dns.ECDSAP256SHA256:
		return 256
	case dns.ECDSAP384SHA384:
		return 384
	case dns.RSASHA512:
		return 2048
	}
	return 1024
}
