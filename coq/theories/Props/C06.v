(* Props/C06.v — property C06 (zone files denote what RFC 1035 section 5 says).
   Only statements; each is closed by [exact] of a lemma proved in Proofs/.
   The specification is Model/ZoneSpec.v: abstract zones, [denote] (a fold over
   origin, previous owner, $TTL value, last stated TTL, configured default),
   token skeletons [sk_zone] (what the lexer hands over, positions, comments and
   mnemonic spellings aside), $GENERATE templates.  The parser model is
   Model/Zone.v, shared with C07. *)
From Dns Require Import Model.ZoneSpec Proofs.ZoneProofs Proofs.ZoneSpecProofs Proofs.LexRenderProofs.
Open Scope list_scope.
Open Scope N_scope.

(* Relative names are completed with the current origin, @ is the origin,
   absolute names are kept: for every name that may be written. *)
Theorem name_completion :
  forall (origin n : bytes),
    origin <> [] -> (n = [64] \/ (is_domain_name n = true /\ n <> [10])) ->
    to_absolute_name n origin = Some (complete origin n).
Proof. exact to_absolute_complete. Qed.

(* TTL unit suffixes: the parser's value of a TTL text is the weighted sum
   (w d h m s, either case, a trailing number counts seconds) whenever the
   64-bit computation does not wrap; values above 2^32-1 are rejected. *)
Theorem ttl_units :
  forall s : bytes,
    ttl_nowrap s 0 0 = true ->
    string_to_ttl s = match ttl_of_text s with
                      | Some v => if 4294967295 <? v then None else Some v
                      | None => None
                      end.
Proof. exact string_to_ttl_spec. Qed.

(* The parser refines the denotation.  For every abstract zone whose entries are
   well formed (names valid, TTL texts meaningful and below 2^32, RDATA of the
   family of its type) and every token list with the zone's skeleton, whatever
   the positions, comments and spellings of mnemonics: the parser yields exactly
   the records the zone denotes - relative names completed with the current
   origin, @ the origin, an omitted owner the previous owner, an omitted TTL the
   $TTL value else the most recently stated TTL else the configured default, an
   omitted class IN, TTL and class in either order.  (Zones without a
   denotation - no owner to repeat, no TTL to take - are outside: [denote] is
   None for them.) *)
Theorem zp_refines :
  forall (fs_open os_open : bytes -> option bytes) (d : nat) (cf : cfg)
         (origin : bytes) (default : option N) (es : list entry) (toks : list tok) (recs : list rr),
    origin <> [] -> is_fqdn origin = true -> is_domain_name origin = true ->
    Forall wf_entry es ->
    Forall2 realizes toks (sk_zone es) ->
    denote origin default es = Some recs ->
    run_d fs_open os_open d cf origin
          (match default with Some t => Some (mkTtl t false) | None => None end) toks None
    = map ERec recs.
Proof. exact zp_refines_tokens. Qed.

(* $GENERATE: for a well-formed template (literal text without $ and backslash,
   the bare $, ${...} blocks whose modifier parses and passes the offset guard)
   the text handed to the sub parser is one line per iterator value start,
   start+step, ... <= stop, with every $ and ${offset,width,base} replaced by
   the value, formatted as the modifier says. *)
Theorem generate_expand :
  forall (tpl : list gpiece) (start stop step : Z),
    wf_tpl start stop tpl -> (0 < step < two63)%Z -> (0 <= start <= stop)%Z -> (stop < two63)%Z ->
    gen_bytes (render_tpl tpl) start stop step =
    (flat_map (fun i => subst_tpl i tpl ++ [10])
              (gen_values (gen_count start stop step) start stop step), None).
Proof. exact generate_expands. Qed.

(* ... and these are all the values of the range. *)
Theorem generate_values :
  forall (start stop step : Z),
    (0 < step)%Z -> (0 <= start <= stop)%Z ->
    length (gen_values (gen_count start stop step) start stop step) = gen_count start stop step /\
    (forall v, In v (gen_values (gen_count start stop step) start stop step) ->
               exists k : nat, (v = start + Z.of_nat k * step)%Z).
Proof. exact gen_values_all. Qed.

(* $INCLUDE: the origin argument of the directive is completed with the
   includer's origin, and the includer's own origin and TTL state are what they
   were ... *)
Theorem include_keeps_origin :
  forall (cf : cfg) (p : pst) (tD tB tF tB2 tO tNl : tok) (rest : list tok) (file o : bytes),
    c_inc cf = true -> p_origin p <> [] -> wf_name o -> file <> [] ->
    realizes tD (mkSk ZDirInclude [] 0) -> realizes tB sk_blank -> realizes tF (sk_str file) ->
    realizes tB2 sk_blank -> realizes tO (sk_str o) -> realizes tNl sk_nl ->
    exists p', zloop cf p XOwnerDir 0 (tD :: tB :: tF :: tB2 :: tO :: tNl :: rest)
               = NInclude tF (complete (p_origin p) o) p' (tNl :: rest) /\
               p_origin p' = p_origin p /\ p_defttl p' = p_defttl p.
Proof. exact include_line. Qed.

(* ... and the records of the file are spliced in: after the open come the
   events of the file's parser (run under the stated origin), then the
   includer continues in its own state. *)
Theorem include_splice :
  forall (fs_open os_open : bytes -> option bytes) (sub gen : sub_sig) (cf : cfg) (rerr : option perr)
         (k : pst -> list tok -> list ev) (p : pst) (toks : list tok) (l : tok) (neworigin : bytes)
         (p' : pst) (rest : list tok) (content : bytes),
    zloop cf p XOwnerDir 0 toks = NInclude l neworigin p' rest ->
    Nat.leb maxIncludeDepth (c_depth cf) = false ->
    (if c_fs cf then fs_open (include_path (c_fs cf) (c_file cf) (t_text l))
     else os_open (include_path (c_fs cf) (c_file cf) (t_text l))) = Some content ->
    let path := include_path (c_fs cf) (c_file cf) (t_text l) in
    let evs := sub (mkCfg path true (c_fs cf) false (S (c_depth cf))) neworigin (p_defttl p')
                   (lex content) None in
    failed evs = false ->
    level_body fs_open os_open (Some sub) gen cf rerr k p toks
    = EOpen (c_fs cf) path true (S (c_depth cf)) :: evs ++ k p' rest.
Proof. exact include_splices. Qed.

(* ---------- from the zone TEXT to the denotation ---------- *)
(* The plain rendering [render_zone] of an abstract zone (Proofs/LexRenderProofs.v):
   one entry per line, fields joined by one blank, ended by a newline; the owner
   as given (omitted: the line starts with the blank), the TTL text, the class
   and type as their mnemonic or CLASSnnn / TYPEnnn ([class_text], [type_text]:
   class 255 and types 0, 255, 65535 are written numerically, see the refuted
   statements below), the RDATA words, strings between double quotes, the generic
   form as backslash-hash, length, hex words; $ORIGIN and $TTL lines.
   [render_ok] says when a text IS such a rendering: every word is gathered by the
   lexer as one string (no unescaped blank, tab, newline, CR, semicolon, quote,
   parenthesis; a backslash escapes any octet but CR and LF; the word does not end
   in a backslash) and has at least one ordinary octet; a quoted string has no
   unescaped quote and does not end in a backslash; an owner does not spell a
   directive; a TTL text is not read as a type or class by the lexer; a
   directive's argument does not spell a type mnemonic; class and type codes are
   below 65536.  The lexer has no limit on the length of a token.
   Then the lexer delivers, for the text of the zone, exactly a token list that
   realizes the zone's skeleton: nothing follows the last newline. *)
Theorem lex_render_plain :
  forall es : list entry,
    forallb render_ok es = true ->
    Forall2 realizes (lex (render_zone es)) (sk_zone es).
Proof. exact lex_render_plain_proved. Qed.

(* ... and the parser applied to the lexer's output on the zone's text yields
   exactly the records the zone denotes. *)
Theorem zone_text_denotes :
  forall (fs_open os_open : bytes -> option bytes) (d : nat) (cf : cfg)
         (origin : bytes) (default : option N) (es : list entry) (recs : list rr),
    origin <> [] -> is_fqdn origin = true -> is_domain_name origin = true ->
    Forall wf_entry es -> forallb render_ok es = true ->
    denote origin default es = Some recs ->
    run_d fs_open os_open d cf origin
          (match default with Some t => Some (mkTtl t false) | None => None end)
          (lex (render_zone es)) None
    = map ERec recs.
Proof. exact zone_text_denotes_proved. Qed.

(* the hypotheses are satisfiable by a zone with $ORIGIN, $TTL, the owner @, an
   omitted owner, TTL and class in both orders, two strings (one with escapes),
   an escaped owner, CLASS255 and the generic RDATA form; both sides of the
   conclusion are evaluated *)
Example zone_text_denotes_nonvacuous :
  render_zone ex2_zone = ex2_text /\
  Forall wf_entry ex2_zone /\ forallb render_ok ex2_zone = true /\
  denote (B "test.") None ex2_zone = Some ex2_recs /\
  run_d no_files no_files maxIncludeDepth (mkCfg [] false false false O) (B "test.") None
        (lex (render_zone ex2_zone)) None = map ERec ex2_recs.
Proof.
  split; [exact ex2_render|]. split; [exact ex2_wf|]. split; [exact ex2_render_ok|].
  split; [exact ex2_denotes|]. rewrite ex2_render. exact ex2_parses.
Qed.

(* What the side conditions exclude.  The class mnemonic ANY cannot be written:
   the lexer takes the word for a type first and marks the type as seen, then
   makes the token a class; the type that follows stays a plain string and the
   parser stops with an error.  Written CLASS255 the record is read. *)
Theorem class_any_refuted :
  let z := [DRec (mkRecd (Some (B "x")) None (Some 255) false 1 (WAddr (B "192.0.2.1")))] in
  let text := B ("x ANY A 192.0.2.1" +++ nl1) in
  ~ Forall2 realizes (lex text) (sk_zone z) /\ failed (ex_run text) = true /\
  ex_run (render_zone z) = [ERec (mkRR (mkHdr (B "x.test.") 1 255 5) (RAddr [192; 0; 2; 1]) 0)].
Proof. exact LexRenderProofs.class_any_refuted. Qed.

(* The type mnemonics of 0 and 65535 are never recognised (the lexer looks the
   upper-cased word up in a table that spells them None and Reserved); NONE is
   then read as the class. *)
Theorem type_none_refuted :
  let z := [DRec (mkRecd (Some (B "x")) None None false 0 (WGen (B "0") []))] in
  let text := B ("x None \# 0" +++ nl1) in
  ~ Forall2 realizes (lex text) (sk_zone z) /\ failed (ex_run text) = true /\
  rlookup type_table 0 = Some (B "None") /\ rlookup type_table 65535 = Some (B "Reserved") /\
  word_kind (B "None") = Some (KClass 254) /\ word_kind (B "Reserved") = Some KPlain.
Proof. exact LexRenderProofs.type_none_refuted. Qed.

(* A word made of escaped special octets only does not clear the lexer's space
   flag: the blank that starts the next line is not delivered. *)
Theorem escaped_only_word_refuted :
  let z := [DRec (mkRecd (Some (B "x")) None None false 2 (WName (B "\(")));
            DRec (mkRecd None None None false 2 (WName (B "a")))] in
  render_zone z = B ("x NS \(" +++ nl1 +++ " NS a" +++ nl1) /\
  forallb render_ok z = false /\
  ~ Forall2 realizes (lex (render_zone z)) (sk_zone z).
Proof. exact LexRenderProofs.escaped_only_word_refuted. Qed.

(* A TTL text that spells a mnemonic (hs: zero hours zero seconds, and the class
   Hesiod) is read as the mnemonic; a directive argument that spells a type
   mnemonic is delivered as a type token. *)
Theorem ttl_mnemonic_refuted :
  let z := [DRec (mkRecd (Some (B "x")) (Some (B "hs")) None false 1 (WAddr (B "192.0.2.1")))] in
  ttl_of_text (B "hs") = Some 0 /\ forallb render_ok z = false /\
  ~ Forall2 realizes (lex (render_zone z)) (sk_zone z).
Proof. exact LexRenderProofs.ttl_mnemonic_refuted. Qed.
Theorem origin_mnemonic_refuted :
  let z := [DOrigin (B "mx")] in
  forallb render_ok z = false /\ ~ Forall2 realizes (lex (render_zone z)) (sk_zone z).
Proof. exact LexRenderProofs.origin_mnemonic_refuted. Qed.

(* ---------- robustness of the rendering ---------- *)
(* [zone_with Ls es] renders the zone with a layout per entry: the separators
   in the order of the text (a missing one is the single blank) and the line
   end (default: the newline).  [lays_ok] admits: as a separator any string of
   blanks, tabs, parentheses, CR, and newlines within parentheses, that has at
   least one blank or tab - a closing parenthesis only after an opening one;
   as a line end: parentheses and CR (and newlines while a parenthesis is
   open), then, all parentheses closed, the newline, possibly after a comment
   (semicolon, any octets but newline and a second semicolon).  A comment within
   parentheses is excluded (known deviation).  For every such layout the lexer
   delivers tokens realizing the same skeleton ... *)
Theorem lex_render_layout :
  forall (Ls : list layout) (es : list entry),
    forallb render_ok es = true -> lays_ok Ls es = true ->
    Forall2 realizes (lex (zone_with Ls es)) (sk_zone es).
Proof. exact lex_render_layout_proved. Qed.

(* ... and the parser yields the records the zone denotes. *)
Theorem zone_text_layout_denotes :
  forall (fs_open os_open : bytes -> option bytes) (d : nat) (cf : cfg)
         (origin : bytes) (default : option N) (Ls : list layout) (es : list entry) (recs : list rr),
    origin <> [] -> is_fqdn origin = true -> is_domain_name origin = true ->
    Forall wf_entry es -> forallb render_ok es = true -> lays_ok Ls es = true ->
    denote origin default es = Some recs ->
    run_d fs_open os_open d cf origin
          (match default with Some t => Some (mkTtl t false) | None => None end)
          (lex (zone_with Ls es)) None
    = map ERec recs.
Proof. exact zone_text_layout_denotes_proved. Qed.

(* the plain rendering is the rendering with no layout given, always admissible *)
Theorem plain_is_a_layout :
  forall es : list entry, zone_with [] es = render_zone es /\ lays_ok [] es = true.
Proof. intro es. split; [exact (zone_with_plain es)|exact (lays_ok_plain es)]. Qed.

(* a laid-out text of the worked zone: tab and runs of blanks, CR LF, comments
   after the last word, parentheses around one field, over two lines, around the
   strings of a TXT each on its own line; both sides evaluated *)
Example zone_text_layout_nonvacuous :
  zone_with ex2_layouts ex2_zone = ex2_laid /\ lays_ok ex2_layouts ex2_zone = true /\
  run_d no_files no_files maxIncludeDepth (mkCfg [] false false false O) (B "test.") None
        (lex ex2_laid) None = map ERec ex2_recs.
Proof. split; [exact ex2_laid_text|]. split; [exact ex2_lays_ok|exact ex2_laid_parses]. Qed.

(* Layouts that do not give the same skeleton: a blank before the line end or
   before a comment delivers one more blank token; an empty line or a comment
   line one more newline token.  (On these texts the parser model still reads
   the same record.) *)
Theorem extra_token_layouts_refuted :
  let z := [DRec (mkRecd (Some (B "x")) None None false 1 (WAddr (B "192.0.2.1")))] in
  let rec1 := [ERec (mkRR (mkHdr (B "x.test.") 1 1 5) (RAddr [192; 0; 2; 1]) 0)] in
  let t1 := B ("x A 192.0.2.1 " +++ nl1) in
  let t2 := B ("x A 192.0.2.1 ;c" +++ nl1) in
  let t3 := B (nl1 +++ "x A 192.0.2.1" +++ nl1) in
  let t4 := B (";c" +++ nl1 +++ "x A 192.0.2.1" +++ nl1) in
  Forall (fun t => ~ Forall2 realizes (lex t) (sk_zone z) /\ ex_run t = rec1) [t1; t2; t3; t4] /\
  ex_run (render_zone z) = rec1.
Proof. exact LexRenderProofs.extra_token_layouts_refuted. Qed.
