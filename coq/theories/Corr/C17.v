(* Corr/C17.v — case runner for C17.  The hash parameters of the models are
   instantiated with the executable SHA-1 / SHA-256 of Model/Sha.v. *)
From Dns Require Import Model.Sha Model.Nsec3 Model.KeyEnc.
Open Scope N_scope.

(* labels: hex strings joined by '.', the empty string is the root *)
Fixpoint split_dot (s : string) (cur : string) : list string :=
  match s with
  | EmptyString => [cur]
  | String c r =>
    if N_of_ascii c =? 46 then cur :: split_dot r EmptyString
    else split_dot r (cur +++ String c EmptyString)
  end.
Definition labels_of (s : string) : list bytes :=
  match s with EmptyString => [] | _ => map unhex (split_dot s EmptyString) end.

(* hex.DecodeString: None for odd length or a non-hex character *)
Definition is_hexdigit (c : ascii) : bool :=
  let n := N_of_ascii c in
  ((48 <=? n) && (n <=? 57)) || ((97 <=? n) && (n <=? 102)) || ((65 <=? n) && (n <=? 70)).
Fixpoint all_hex (s : string) : bool :=
  match s with EmptyString => true | String c r => is_hexdigit c && all_hex r end.
Definition unhex_opt (s : string) : option bytes :=
  if all_hex s && Nat.even (String.length s) then Some (unhex s) else None.

(* a long octet string described by a recipe: the first n octets of seed repeated *)
Definition expand (seed : bytes) (n : N) : bytes :=
  match seed with
  | [] => []
  | _ => firstn (N.to_nat n) (concat (repeat seed (S (N.to_nat n / length seed))))
  end.

Definition hash_of (dt : N) : bytes -> bytes :=
  if dt =? 1 then sha1 else sha256.

Definition show_ds (dt : N) (o : option ds) : string :=
  match o with
  | None => "nil"%string
  | Some d => join ","%string [dec (ds_keytag d); dec (ds_alg d); dec (ds_dt d); hex (ds_digest d)]
  end.

Definition show_nn (o : option (N * N)) : string :=
  match o with
  | None => "nil"%string
  | Some (a, b) => dec a +++ ","%string +++ hex (be_bytes b)
  end.

Definition run (fn : string) (args : list string) : string :=
  let a := arg args in
  if String.eqb fn "keytag" then dec (keytag (unhex (a 0%nat)))
  else if String.eqb fn "keytag_rfc" then dec (keytag_rfc (unhex (a 0%nat)))
  else if String.eqb fn "keytag_w" then dec (keytag_w (undec (a 0%nat)) (unhex (a 1%nat)))
  else if String.eqb fn "key_tag" then
    dec (key_tag (undec (a 0%nat)) (undec (a 1%nat)) (undec (a 2%nat))
                 (expand (unhex (a 3%nat)) (undec (a 4%nat))))
  else if String.eqb fn "to_ds" then
    (* digest types 1 and 2: the digest itself; 4 and 5: SHA-256 of the pre-image *)
    let dt := undec (a 6%nat) in
    show_ds dt (to_ds (fun dt => hash_of dt) (labels_of (a 0%nat)) (undec (a 1%nat)) (undec (a 2%nat))
                      (undec (a 3%nat)) (expand (unhex (a 4%nat)) (undec (a 5%nat))) dt)
  else if String.eqb fn "hash_name" then
    hex (hash_name sha1 (labels_of (a 0%nat)) (undec (a 1%nat)) (undec (a 2%nat)) (unhex_opt (a 3%nat)))
  else if String.eqb fn "n3" then
    let r := {| n3_owner := labels_of (a 0%nat); n3_alg := undec (a 1%nat); n3_iter := undec (a 2%nat);
                n3_salt := unhex_opt (a 3%nat); n3_next := unhex (a 4%nat) |} in
    let name := labels_of (a 5%nat) in
    showb (nsec3_match sha1 r name) +++ ","%string +++ showb (nsec3_cover sha1 r name)
  else if String.eqb fn "chain" then
    let o := unhex (a 0%nat) in let n := unhex (a 1%nat) in let x := unhex (a 2%nat) in
    showb (match_chain o x) +++ ","%string +++ showb (cover_chain o n x)
  else if String.eqb fn "b32hex" then hex (b32hex (unhex (a 0%nat)))
  else if String.eqb fn "validity" then
    showb (validity_period (undec (a 0%nat)) (undec (a 1%nat)) (undecZ (a 2%nat)))
  else if String.eqb fn "s2t" then decZ (string_to_time_u32 (undecZ (a 0%nat)))
  else if String.eqb fn "rsa_dec" then show_nn (rsa_pub_dec (unhex (a 0%nat)))
  else if String.eqb fn "rsa_enc" then hex (rsa_pub_enc (undec (a 0%nat)) (be (unhex (a 1%nat)) 0))
  else if String.eqb fn "exp2buf" then hex (exponent_to_buf (be_bytes (undec (a 0%nat))))
  else if String.eqb fn "i2b" then hex (int_to_bytes (be (unhex (a 0%nat)) 0) (undecn (a 1%nat)))
  else if String.eqb fn "curve" then
    hex (curve_to_buf (be (unhex (a 0%nat)) 0) (be (unhex (a 1%nat)) 0) (undecn (a 2%nat)))
  else if String.eqb fn "ecdsa_dec" then
    match ecdsa_pub_dec (undec (a 0%nat)) (unhex (a 1%nat)) with
    | None => "nil"%string
    | Some (x, y) => hex (be_bytes x) +++ ","%string +++ hex (be_bytes y)
    end
  else if String.eqb fn "kvget" then
    match parse_key (unhex (a 0%nat)) with
    | None => "err"%string
    | Some m => match kv_lookup m (unhex (a 1%nat)) with
                | None => "none"%string
                | Some v => "ok:"%string +++ hex v
                end
    end
  else "unknown-fn"%string.
