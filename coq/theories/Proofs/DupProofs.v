(* Proofs/DupProofs.v -- duplicate.go IsDuplicate, generic in the comparison
   table that tools/gotrans extracts from zduplicate.go (Gen/Dups.v).

   Plan.  [rawb c v1 v2] is the boolean a single generated comparison tests;
   [ideal c v1 v2] is that boolean in conjunction with the comparison it relies
   on (the length test before an element-wise loop, the gateway-type test before
   the gateway comparison).  For a well-formed comparison list ([cmps_wf], a
   boolean check run on the whole table) [dup_cmps] never panics and returns
   [all_ideal], the conjunction of the ideal comparisons; and every ideal
   comparison is an equivalence relation (reflexive on values of the right
   kind, symmetric and transitive on all values). *)
From Dns Require Import Base.ListX Model.Dup Gen.Dups Gen.Layouts Proofs.EscapeProofs Proofs.DedupProofs.
From Dns Require Import Proofs.LabelsProofs Proofs.NameRoundtripProofs Proofs.DnssecProofs.
From Coq Require Import Lia ZifyN ZifyNat ZifyBool.
Open Scope list_scope.
Open Scope N_scope.

(* ---------- list_eqb over an arbitrary element test ---------- *)
Section ListEqb.
  Context {A : Type} (e : A -> A -> bool).
  Lemma list_eqb_length a : forall b, list_eqb e a b = true -> length a = length b.
  Proof.
    induction a as [|x a IH]; intros [|y b] H; cbn in *; try discriminate; [reflexivity|].
    apply andb_prop in H. f_equal. apply IH. tauto.
  Qed.
  Lemma list_eqb_refl : (forall x, e x x = true) -> forall a, list_eqb e a a = true.
  Proof. intros R. induction a as [|x a IH]; cbn; [reflexivity|]. now rewrite R, IH. Qed.
  Lemma list_eqb_sym : (forall x y, e x y = e y x) -> forall a b, list_eqb e a b = list_eqb e b a.
  Proof.
    intros S. induction a as [|x a IH]; intros [|y b]; cbn; try reflexivity. now rewrite S, IH.
  Qed.
  Lemma list_eqb_trans : (forall x y z, e x y = true -> e y z = true -> e x z = true) ->
    forall a b c, list_eqb e a b = true -> list_eqb e b c = true -> list_eqb e a c = true.
  Proof.
    intros T. induction a as [|x a IH]; intros [|y b] [|z c] H1 H2; cbn in *; try discriminate; [reflexivity|].
    apply andb_prop in H1, H2. destruct H1, H2. apply andb_true_intro. split; [eapply T|eapply IH]; eauto.
  Qed.
  (* the generated loop "for i := range a: a[i] ? b[i]" after "len(a) = len(b)" is list equality *)
  Lemma list_eqb_firstn a b :
    Nat.eqb (length a) (length b) && list_eqb e a (firstn (length a) b) = list_eqb e a b.
  Proof.
    destruct (Nat.eqb (length a) (length b)) eqn:L.
    - apply Nat.eqb_eq in L. rewrite L, firstn_all. reflexivity.
    - cbn. symmetry. destruct (list_eqb e a b) eqn:E; [|reflexivity].
      apply list_eqb_length in E. apply Nat.eqb_neq in L. contradiction.
  Qed.
End ListEqb.

(* a test of the form  key a = key b  *)
Section KeyRel.
  Context {A : Type} (key : A -> bytes).
  Let R a b := bytes_eqb (key a) (key b).
  Lemma keyrel_refl a : R a a = true. Proof. apply bytes_eqb_refl. Qed.
  Lemma keyrel_sym a b : R a b = R b a. Proof. apply bytes_eqb_sym. Qed.
  Lemma keyrel_trans a b c : R a b = true -> R b c = true -> R a c = true.
  Proof. unfold R. rewrite !bytes_eqb_eq. congruence. Qed.
End KeyRel.

Lemma name_eq_ci_refl a : name_eq_ci a a = true. Proof. apply (keyrel_refl lower_bytes). Qed.
Lemma name_eq_ci_sym a b : name_eq_ci a b = name_eq_ci b a. Proof. apply (keyrel_sym lower_bytes). Qed.
Lemma name_eq_ci_trans a b c : name_eq_ci a b = true -> name_eq_ci b c = true -> name_eq_ci a c = true.
Proof. apply (keyrel_trans lower_bytes). Qed.
Lemma name_eq_ci_iff a b : name_eq_ci a b = true <-> lower_bytes a = lower_bytes b.
Proof. apply bytes_eqb_eq. Qed.
Lemma ip_equal_refl a : ip_equal a a = true. Proof. apply (keyrel_refl ip_norm). Qed.
Lemma ip_equal_sym a b : ip_equal a b = ip_equal b a. Proof. apply (keyrel_sym ip_norm). Qed.
Lemma ip_equal_trans a b c : ip_equal a b = true -> ip_equal b c = true -> ip_equal a c = true.
Proof. apply (keyrel_trans ip_norm). Qed.

Lemma Neqb_trans x y z : (x =? y) = true -> (y =? z) = true -> (x =? z) = true.
Proof. rewrite !N.eqb_eq. congruence. Qed.
Lemma booleqb_sym x y : Bool.eqb x y = Bool.eqb y x. Proof. now destruct x, y. Qed.
Lemma booleqb_trans x y z : Bool.eqb x y = true -> Bool.eqb y z = true -> Bool.eqb x z = true.
Proof. now destruct x, y, z. Qed.

Lemma apl_equals_refl p : apl_equals p p = true.
Proof. unfold apl_equals. now rewrite Bool.eqb_reflx, ip_equal_refl, !N.eqb_refl. Qed.
Lemma apl_equals_sym p q : apl_equals p q = apl_equals q p.
Proof.
  unfold apl_equals. now rewrite booleqb_sym, ip_equal_sym, (N.eqb_sym (snd (fst p))), (N.eqb_sym (lenN (snd p))).
Qed.
Lemma apl_equals_trans p q r : apl_equals p q = true -> apl_equals q r = true -> apl_equals p r = true.
Proof.
  unfold apl_equals. rewrite !andb_true_iff. intros [[[A B] C] D] [[[A' B'] C'] D'].
  repeat split; [eapply booleqb_trans|eapply ip_equal_trans|eapply Neqb_trans|eapply Neqb_trans]; eauto.
Qed.

Definition pair_eqb (p q : N * bytes * N) : bool := (pkey p =? pkey q) && bytes_eqb (snd (fst p)) (snd (fst q)).
Lemma pair_eqb_refl p : pair_eqb p p = true.
Proof. unfold pair_eqb. now rewrite N.eqb_refl, bytes_eqb_refl. Qed.
Lemma pair_eqb_sym p q : pair_eqb p q = pair_eqb q p.
Proof. unfold pair_eqb. now rewrite N.eqb_sym, bytes_eqb_sym. Qed.
Lemma pair_eqb_trans p q r : pair_eqb p q = true -> pair_eqb q r = true -> pair_eqb p r = true.
Proof.
  unfold pair_eqb. rewrite !andb_true_iff, !bytes_eqb_eq, !N.eqb_eq. intros [A B] [C D]. split; congruence.
Qed.

(* areSVCBPairArraysEqual on arrays of equal length: no index panic, and the
   result is element-wise equality of key and packed value *)
Lemma pairs_eq_go_eqlen a : forall b, length a = length b -> pairs_eq_go a b = Ok (list_eqb pair_eqb a b).
Proof.
  induction a as [|p a IH]; intros [|q b] L; cbn in L; try discriminate; [reflexivity|].
  cbn [pairs_eq_go list_eqb]. fold (pair_eqb p q). destruct (pair_eqb p q); [|reflexivity].
  cbn. apply IH. lia.
Qed.
Lemma ins_pair_length p l : length (ins_pair p l) = S (length l).
Proof. induction l as [|q l IH]; cbn; [reflexivity|]. destruct (pkey q <=? pkey p); cbn; now rewrite ?IH. Qed.
Lemma sort_pairs_length l : length (sort_pairs l) = length l.
Proof.
  unfold sort_pairs. assert (H : forall acc, length (fold_left (fun acc p => ins_pair p acc) l acc) = (length l + length acc)%nat).
  { induction l as [|p l IH]; intros acc; cbn; [reflexivity|]. rewrite IH, ins_pair_length. lia. }
  rewrite H. cbn. lia.
Qed.

Lemma fval_eqb_eq a b : fval_eqb a b = true -> a = b.
Proof.
  destruct a, b; cbn; try discriminate; intros H; f_equal;
    first [now apply N.eqb_eq|now apply bytes_eqb_eq].
Qed.
Lemma fval_eqb_sym a b : fval_eqb a b = fval_eqb b a.
Proof. destruct a, b; cbn; try reflexivity; first [apply N.eqb_sym|apply bytes_eqb_sym]. Qed.
(* equality of two fields where an absent field stands for the zero value *)
Definition val_agree (a b : option fval) : Prop :=
  match a, b with
  | Some x, Some y => x = y
  | None, None => True
  | Some x, None | None, Some x => x = zero_like x
  end.
Lemma opt_fval_eqb_agree a b : opt_fval_eqb a b = true -> val_agree a b.
Proof.
  destruct a as [x|], b as [y|]; cbn; try tauto; intros H; apply fval_eqb_eq in H; congruence.
Qed.
Lemma opt_fval_eqb_sym a b : opt_fval_eqb a b = opt_fval_eqb b a.
Proof. destruct a, b; cbn; try reflexivity; apply fval_eqb_sym. Qed.
Lemma val_agree_as_n a b : val_agree a b -> as_n a = as_n b.
Proof. destruct a as [[]|], b as [[]|]; cbn; try congruence; try discriminate; reflexivity. Qed.
(* Transitivity needs the two outer values to be of one Go type: untyped, an
   absent middle value is the zero of both a number and a string. *)
Inductive vclass := C_n | C_s | C_ss | C_b | C_enc | C_ns | C_pairs | C_apl.
Definition class_of (x : fval) : vclass :=
  match x with
  | V_n _ => C_n | V_s _ => C_s | V_ss _ => C_ss | V_b _ => C_b | V_enc _ => C_enc
  | V_ns _ => C_ns | V_pairs _ => C_pairs | V_apl _ => C_apl
  end.
Definition kinds_ok (a c : option fval) : Prop :=
  match a, c with Some x, Some y => class_of x = class_of y | _, _ => True end.
(* the two RDATA values hold the same kind of value wherever both hold one *)
Definition same_shape (v1 v3 : rdata) : Prop := forall f, kinds_ok (vget v1 f) (vget v3 f).

Lemma opt_fval_eqb_trans a b c : kinds_ok a c ->
  opt_fval_eqb a b = true -> opt_fval_eqb b c = true -> opt_fval_eqb a c = true.
Proof.
  intros K. destruct a as [[]|], c as [[]|]; cbn in K; try discriminate K; clear K;
    destruct b as [[]|]; cbn [opt_fval_eqb fval_eqb zero_like]; try discriminate; try reflexivity;
    rewrite ?N.eqb_eq, ?bytes_eqb_eq; congruence.
Qed.

(* which values a field compared with != may hold: a scalar, or absent (zero value) *)
Definition is_scalar (o : option fval) : bool :=
  match o with None | Some (V_n _) | Some (V_s _) | Some (V_enc _) | Some (V_b _) => true | _ => false end.
Lemma opt_fval_eqb_refl o : is_scalar o = true -> opt_fval_eqb o o = true.
Proof.
  destruct o as [[]|]; cbn; try discriminate; intros _;
    first [apply N.eqb_refl|apply bytes_eqb_refl|reflexivity].
Qed.

(* ---------- the boolean of one comparison ---------- *)
Definition gob (b : bool) : res (option bool) := if b then Ok None else Ok (Some false).

Definition gw_rel (tyf : string) (mask : N) (addrf hostf : string) (v1 v2 : rdata) : bool :=
  let ty := N.land (vget_n v1 tyf) mask in
  if (ty =? gw_v4) || (ty =? gw_v6) then ip_equal (as_b (vget v1 addrf)) (as_b (vget v2 addrf))
  else if ty =? gw_host then name_eq_ci (as_s (vget v1 hostf)) (as_s (vget v2 hostf))
  else true.

Definition rawb (c : dcmp) (v1 v2 : rdata) : bool :=
  match c with
  | D_eq f => opt_fval_eqb (vget v1 f) (vget v2 f)
  | D_name f => name_eq_ci (as_s (vget v1 f)) (as_s (vget v2 f))
  | D_len_eq f => len_rel (vget v1 f) (vget v2 f)
  | D_each_eq f => each_rel (vget v1 f) (vget v2 f)
  | D_each_name f =>
    list_eqb name_eq_ci (as_ss (vget v1 f)) (firstn (length (as_ss (vget v1 f))) (as_ss (vget v2 f)))
  | D_each_equals f =>
    list_eqb apl_equals (as_apl (vget v1 f)) (firstn (length (as_apl (vget v1 f))) (as_apl (vget v2 f)))
  | D_ip_equal f => ip_equal (as_b (vget v1 f)) (as_b (vget v2 f))
  | D_pairs f => list_eqb pair_eqb (sort_pairs (as_pairs (vget v1 f))) (sort_pairs (as_pairs (vget v2 f)))
  | D_gateway tyf mask addrf hostf => gw_rel tyf mask addrf hostf v1 v2
  | D_embedded _ => true
  | D_const b => b
  | D_other _ => false
  end.

(* the earlier comparison a comparison relies on *)
Definition pre_b (c : dcmp) (v1 v2 : rdata) : bool :=
  match c with
  | D_each_eq f | D_each_name f | D_each_equals f | D_pairs f => len_rel (vget v1 f) (vget v2 f)
  | D_gateway tyf _ _ _ => opt_fval_eqb (vget v1 tyf) (vget v2 tyf)
  | _ => true
  end.
Definition ideal (c : dcmp) (v1 v2 : rdata) : bool := pre_b c v1 v2 && rawb c v1 v2.

Definition is_plain (c : dcmp) : bool := match c with D_const _ | D_other _ => false | _ => true end.

Lemma len_rel_lengths o1 o2 : len_rel o1 o2 = true -> length (as_pairs o1) = length (as_pairs o2).
Proof.
  destruct o1 as [[]|], o2 as [[]|]; cbn; try discriminate; try reflexivity; intros H; now apply Nat.eqb_eq.
Qed.
Lemma len_rel_as_ss o1 o2 : len_rel o1 o2 = true -> length (as_ss o1) = length (as_ss o2).
Proof.
  destruct o1 as [[]|], o2 as [[]|]; cbn; try discriminate; try reflexivity; intros H; now apply Nat.eqb_eq.
Qed.
Lemma len_rel_as_ns o1 o2 : len_rel o1 o2 = true -> length (as_ns o1) = length (as_ns o2).
Proof.
  destruct o1 as [[]|], o2 as [[]|]; cbn; try discriminate; try reflexivity; intros H; now apply Nat.eqb_eq.
Qed.
Lemma len_rel_as_apl o1 o2 : len_rel o1 o2 = true -> length (as_apl o1) = length (as_apl o2).
Proof.
  destruct o1 as [[]|], o2 as [[]|]; cbn; try discriminate; try reflexivity; intros H; now apply Nat.eqb_eq.
Qed.
(* after the length test the element loop is plain list equality *)
Definition each_full (o1 o2 : option fval) : bool :=
  if kind_ss o1 && kind_ss o2 then list_eqb bytes_eqb (as_ss o1) (as_ss o2)
  else if kind_ns o1 && kind_ns o2 then list_eqb N.eqb (as_ns o1) (as_ns o2)
  else false.
Lemma each_rel_full o1 o2 : len_rel o1 o2 = true -> each_rel o1 o2 = each_full o1 o2.
Proof.
  intros L. unfold each_rel, each_full.
  now rewrite (len_rel_as_ss _ _ L), (len_rel_as_ns _ _ L), !firstn_all.
Qed.

Lemma dup_cmp_plain c v1 v2 : is_plain c = true -> pre_b c v1 v2 = true ->
  dup_cmp c v1 v2 = gob (rawb c v1 v2).
Proof.
  destruct c; intros P H; try discriminate P; try reflexivity.
  - (* D_pairs *) cbn [dup_cmp rawb pre_b] in *. apply len_rel_lengths in H.
    rewrite pairs_eq_go_eqlen by (now rewrite !sort_pairs_length). reflexivity.
  - (* D_gateway *) cbn [dup_cmp rawb]. unfold gw_rel.
    destruct ((N.land (vget_n v1 tyf) mask =? gw_v4) || (N.land (vget_n v1 tyf) mask =? gw_v6)); [reflexivity|].
    destruct (N.land (vget_n v1 tyf) mask =? gw_host); reflexivity.
Qed.

(* ---------- well-formed comparison lists ---------- *)
Definition has_len (f : string) (seen : list dcmp) : bool :=
  existsb (fun c => match c with D_len_eq g => String.eqb f g | _ => false end) seen.
Definition has_eq (f : string) (seen : list dcmp) : bool :=
  existsb (fun c => match c with D_eq g => String.eqb f g | _ => false end) seen.
Definition prereq (c : dcmp) (seen : list dcmp) : bool :=
  match c with
  | D_each_eq f | D_each_name f | D_each_equals f | D_pairs f => has_len f seen
  | D_gateway tyf _ _ _ => has_eq tyf seen
  | _ => true
  end.
Fixpoint wf_from (seen : list dcmp) (cs : list dcmp) : bool :=
  match cs with
  | [] => true
  | c :: r =>
    match c with
    | D_const _ => match r with [] => true | _ => false end
    | D_other _ => false
    | _ => prereq c seen && wf_from (c :: seen) r
    end
  end.
Definition cmps_wf (cs : list dcmp) : bool := wf_from [] cs.

(* the whole table, as extracted from the current zduplicate.go *)
Lemma dups_wf : forallb (fun t => cmps_wf (dp_cmps t)) dups = true.
Proof. vm_compute. reflexivity. Qed.

Fixpoint all_ideal (cs : list dcmp) (v1 v2 : rdata) : bool :=
  match cs with
  | [] => true
  | c :: r => match c with D_const b => b | _ => ideal c v1 v2 && all_ideal r v1 v2 end
  end.

Lemma prereq_pre_b c seen v1 v2 :
  (forall d, In d seen -> rawb d v1 v2 = true) -> prereq c seen = true -> pre_b c v1 v2 = true.
Proof.
  intros HS. destruct c; cbn [prereq pre_b]; try reflexivity; intros H;
    unfold has_len, has_eq in H; apply existsb_exists in H; destruct H as [d [Hin Hd]];
    destruct d; try discriminate Hd; apply String.eqb_eq in Hd; subst; exact (HS _ Hin).
Qed.

Lemma dup_cmps_from cs v1 v2 : forall seen,
  wf_from seen cs = true -> (forall d, In d seen -> rawb d v1 v2 = true) ->
  dup_cmps cs v1 v2 = Ok (all_ideal cs v1 v2).
Proof.
  induction cs as [|c r IH]; intros seen W HS; [reflexivity|].
  destruct (is_plain c) eqn:P.
  - assert (W' : prereq c seen = true /\ wf_from (c :: seen) r = true).
    { destruct c; try discriminate P; cbn [wf_from] in W; apply andb_prop in W; exact W. }
    destruct W' as [W1 W2]. pose proof (prereq_pre_b c seen v1 v2 HS W1) as HP.
    assert (E : all_ideal (c :: r) v1 v2 = rawb c v1 v2 && all_ideal r v1 v2).
    { destruct c; try discriminate P; cbn [all_ideal]; unfold ideal; rewrite HP; reflexivity. }
    rewrite E. cbn [dup_cmps]. rewrite (dup_cmp_plain c v1 v2 P HP).
    destruct (rawb c v1 v2) eqn:R; cbn [gob bind andb]; [|reflexivity].
    apply (IH (c :: seen) W2). intros d [<-|Hd]; [exact R|exact (HS d Hd)].
  - destruct c; try discriminate P; cbn [wf_from] in W; [|discriminate W].
    destruct r; [reflexivity|discriminate W].
Qed.

Lemma dup_cmps_ideal cs v1 v2 : cmps_wf cs = true -> dup_cmps cs v1 v2 = Ok (all_ideal cs v1 v2).
Proof. intros W. apply (dup_cmps_from cs v1 v2 [] W). intros d []. Qed.

(* ---------- every ideal comparison is an equivalence ---------- *)
(* values of the kind the Go field type dictates (an absent field is the zero value) *)
Definition is_str (o : option fval) : bool := match o with None | Some (V_s _) => true | _ => false end.
Definition is_ip (o : option fval) : bool := match o with None | Some (V_b _) => true | _ => false end.
Definition is_num (o : option fval) : bool := match o with None | Some (V_n _) => true | _ => false end.
Definition is_listv (o : option fval) : bool :=
  match o with None | Some (V_ss _) | Some (V_ns _) | Some (V_apl _) | Some (V_pairs _) => true | _ => false end.
Definition is_eachv (o : option fval) : bool :=
  match o with None | Some (V_ss _) | Some (V_ns _) => true | _ => false end.
Definition is_strs (o : option fval) : bool := match o with None | Some (V_ss _) => true | _ => false end.
Definition is_aplv (o : option fval) : bool := match o with None | Some (V_apl _) => true | _ => false end.
Definition is_pairsv (o : option fval) : bool := match o with None | Some (V_pairs _) => true | _ => false end.

Definition typed1 (v : rdata) (c : dcmp) : bool :=
  match c with
  | D_eq f => is_scalar (vget v f)
  | D_name f => is_str (vget v f)
  | D_len_eq f => is_listv (vget v f)
  | D_each_eq f => is_eachv (vget v f)
  | D_each_name f => is_strs (vget v f)
  | D_each_equals f => is_aplv (vget v f)
  | D_ip_equal f => is_ip (vget v f)
  | D_pairs f => is_pairsv (vget v f)
  | D_gateway tyf _ addrf hostf => is_num (vget v tyf) && is_ip (vget v addrf) && is_str (vget v hostf)
  | _ => true
  end.
Definition typed_for (cs : list dcmp) (v : rdata) : bool := forallb (typed1 v) cs.

Lemma ideal_refl c v : is_plain c = true -> typed1 v c = true -> ideal c v v = true.
Proof.
  unfold ideal. destruct c; intros P T; try discriminate P; cbn [pre_b rawb typed1 andb] in *.
  - now apply opt_fval_eqb_refl.
  - apply name_eq_ci_refl.
  - destruct (vget v f) as [[]|]; cbn in *; try discriminate; try apply Nat.eqb_refl; reflexivity.
  - destruct (vget v f) as [[]|]; cbn in *; try discriminate; try reflexivity;
      rewrite Nat.eqb_refl, firstn_all; cbn; apply list_eqb_refl; [apply bytes_eqb_refl|apply N.eqb_refl].
  - destruct (vget v f) as [[]|]; cbn in *; try discriminate; try reflexivity.
    rewrite Nat.eqb_refl, firstn_all. cbn. apply list_eqb_refl, name_eq_ci_refl.
  - destruct (vget v f) as [[]|]; cbn in *; try discriminate; try reflexivity.
    rewrite Nat.eqb_refl, firstn_all. cbn. apply list_eqb_refl, apl_equals_refl.
  - apply ip_equal_refl.
  - destruct (vget v f) as [[]|]; cbn in *; try discriminate; try reflexivity.
    rewrite Nat.eqb_refl. cbn. apply list_eqb_refl, pair_eqb_refl.
  - apply andb_prop in T. destruct T as [T _]. apply andb_prop in T. destruct T as [T _].
    rewrite opt_fval_eqb_refl by (destruct (vget v tyf) as [[]|]; cbn in *; congruence).
    cbn. unfold gw_rel. rewrite ip_equal_refl, name_eq_ci_refl. now repeat destruct (_ =? _).
  - reflexivity.
Qed.

Ltac lr := cbn [len_rel each_rel each_full kind_ss kind_ns kind_apl kind_pairs as_ss as_ns as_apl as_pairs andb].

Lemma len_rel_sym o1 o2 : len_rel o1 o2 = len_rel o2 o1.
Proof. destruct o1 as [[]|], o2 as [[]|]; lr; try reflexivity; apply Nat.eqb_sym. Qed.
Lemma len_rel_trans o1 o2 o3 : kinds_ok o1 o3 ->
  len_rel o1 o2 = true -> len_rel o2 o3 = true -> len_rel o1 o3 = true.
Proof.
  intros K. destruct o1 as [[]|], o3 as [[]|]; cbn in K; try discriminate K; clear K;
    destruct o2 as [[]|]; lr; try discriminate; rewrite ?Nat.eqb_eq; congruence.
Qed.

Lemma vget_n_eq v1 v2 f : opt_fval_eqb (vget v1 f) (vget v2 f) = true -> vget_n v1 f = vget_n v2 f.
Proof.
  unfold vget_n. destruct (vget v1 f) as [[]|], (vget v2 f) as [[]|]; cbn [opt_fval_eqb fval_eqb zero_like];
    try discriminate; try reflexivity; rewrite N.eqb_eq; congruence.
Qed.

Lemma each_full_sym o1 o2 : each_full o1 o2 = each_full o2 o1.
Proof.
  unfold each_full. rewrite (andb_comm (kind_ss o2)), (andb_comm (kind_ns o2)),
    (list_eqb_sym bytes_eqb bytes_eqb_sym (as_ss o2)), (list_eqb_sym N.eqb N.eqb_sym (as_ns o2)). reflexivity.
Qed.
Lemma each_full_trans o1 o2 o3 : kinds_ok o1 o3 ->
  each_full o1 o2 = true -> each_full o2 o3 = true -> each_full o1 o3 = true.
Proof.
  intros K. destruct o1 as [[]|], o3 as [[]|]; cbn in K; try discriminate K; clear K;
    destruct o2 as [[]|]; lr; try discriminate; try reflexivity; intros H1 H2;
    first [ eapply (list_eqb_trans bytes_eqb); [intros x y z; rewrite !bytes_eqb_eq; congruence|exact H1|exact H2]
          | eapply (list_eqb_trans N.eqb); [apply Neqb_trans|exact H1|exact H2]
          | (destruct l; [reflexivity|discriminate]) ].
Qed.

(* pre-test and element loop of a list field, as plain list equality *)
Lemma len_loop {A} (e : A -> A -> bool) (a b : list A) : length a = length b ->
  list_eqb e a (firstn (length a) b) = list_eqb e a b.
Proof. intros L. now rewrite L, firstn_all. Qed.

Lemma ideal_sym c v1 v2 : ideal c v1 v2 = ideal c v2 v1.
Proof.
  unfold ideal. destruct c; cbn [pre_b rawb andb].
  - apply opt_fval_eqb_sym.
  - apply name_eq_ci_sym.
  - apply len_rel_sym.
  - rewrite (len_rel_sym (vget v2 f)). destruct (len_rel (vget v1 f) (vget v2 f)) eqn:L; [|reflexivity].
    cbn [andb]. rewrite !each_rel_full by first [exact L|rewrite len_rel_sym; exact L]. apply each_full_sym.
  - rewrite (len_rel_sym (vget v2 f)). destruct (len_rel (vget v1 f) (vget v2 f)) eqn:L; [|reflexivity].
    cbn [andb]. pose proof (len_rel_as_ss _ _ L) as E. rewrite !len_loop by congruence.
    apply list_eqb_sym, name_eq_ci_sym.
  - rewrite (len_rel_sym (vget v2 f)). destruct (len_rel (vget v1 f) (vget v2 f)) eqn:L; [|reflexivity].
    cbn [andb]. pose proof (len_rel_as_apl _ _ L) as E. rewrite !len_loop by congruence.
    apply list_eqb_sym, apl_equals_sym.
  - apply ip_equal_sym.
  - rewrite len_rel_sym. f_equal. apply list_eqb_sym, pair_eqb_sym.
  - rewrite (opt_fval_eqb_sym (vget v2 tyf)).
    destruct (opt_fval_eqb (vget v1 tyf) (vget v2 tyf)) eqn:E; [|reflexivity].
    cbn. unfold gw_rel. rewrite (vget_n_eq _ _ _ E), ip_equal_sym, name_eq_ci_sym. reflexivity.
  - reflexivity.
  - reflexivity.
  - reflexivity.
Qed.

Lemma ideal_trans c v1 v2 v3 : same_shape v1 v3 ->
  ideal c v1 v2 = true -> ideal c v2 v3 = true -> ideal c v1 v3 = true.
Proof.
  intros SH. unfold ideal. destruct c; cbn [pre_b rawb andb].
  - apply opt_fval_eqb_trans, SH.
  - apply name_eq_ci_trans.
  - apply len_rel_trans, SH.
  - rewrite !andb_true_iff. intros [A B] [C D]. pose proof (len_rel_trans _ _ _ (SH f) A C) as L. split; [exact L|].
    rewrite each_rel_full in * by assumption. eapply each_full_trans; eauto.
  - rewrite !andb_true_iff. intros [A B] [C D]. pose proof (len_rel_trans _ _ _ (SH f) A C) as L. split; [exact L|].
    rewrite len_loop in * by (now apply len_rel_as_ss). eapply list_eqb_trans; [apply name_eq_ci_trans|exact B|exact D].
  - rewrite !andb_true_iff. intros [A B] [C D]. pose proof (len_rel_trans _ _ _ (SH f) A C) as L. split; [exact L|].
    rewrite len_loop in * by (now apply len_rel_as_apl). eapply list_eqb_trans; [apply apl_equals_trans|exact B|exact D].
  - apply ip_equal_trans.
  - rewrite !andb_true_iff. intros [A B] [C D]. split; [eapply len_rel_trans; eauto; apply SH|].
    eapply list_eqb_trans; [apply pair_eqb_trans|exact B|exact D].
  - rewrite !andb_true_iff. intros [A B] [C D]. split; [eapply opt_fval_eqb_trans; eauto; apply SH|].
    unfold gw_rel in *. rewrite <- (vget_n_eq _ _ _ A) in D.
    destruct ((N.land (vget_n v1 tyf) mask =? gw_v4) || (N.land (vget_n v1 tyf) mask =? gw_v6)).
    + eapply ip_equal_trans; eauto.
    + destruct (N.land (vget_n v1 tyf) mask =? gw_host); [eapply name_eq_ci_trans; eauto|reflexivity].
  - reflexivity.
  - cbn. intros ->. auto.
  - discriminate.
Qed.

(* ---------- the conjunction ---------- *)
Definition no_const_false (cs : list dcmp) : bool :=
  forallb (fun c => match c with D_const false | D_other _ => false | _ => true end) cs.

Lemma all_ideal_refl cs v : no_const_false cs = true -> typed_for cs v = true -> all_ideal cs v v = true.
Proof.
  induction cs as [|c r IH]; intros N T; [reflexivity|].
  cbn [no_const_false typed_for forallb] in N, T. apply andb_prop in N, T. destruct N as [N1 N2], T as [T1 T2].
  destruct (is_plain c) eqn:P.
  - assert (E : all_ideal (c :: r) v v = ideal c v v && all_ideal r v v) by (destruct c; try discriminate P; reflexivity).
    rewrite E, (ideal_refl c v P T1). now apply IH.
  - destruct c; try discriminate P; [|discriminate N1]. destruct b; [reflexivity|discriminate N1].
Qed.

Lemma all_ideal_sym cs v1 v2 : all_ideal cs v1 v2 = all_ideal cs v2 v1.
Proof.
  induction cs as [|c r IH]; [reflexivity|].
  destruct c; cbn [all_ideal]; try reflexivity; now rewrite IH, ideal_sym.
Qed.

Lemma all_ideal_trans cs v1 v2 v3 : same_shape v1 v3 ->
  all_ideal cs v1 v2 = true -> all_ideal cs v2 v3 = true -> all_ideal cs v1 v3 = true.
Proof.
  intros SH. induction cs as [|c r IH]; [reflexivity|].
  destruct c; cbn [all_ideal]; try (intros; assumption);
    rewrite !andb_true_iff; intros [A B] [C D]; (split; [eapply ideal_trans; eauto|now apply IH]).
Qed.

(* every comparison of the list held, when the verdict is true *)
Lemma all_ideal_in cs v1 v2 c : forall seen,
  wf_from seen cs = true ->
  all_ideal cs v1 v2 = true -> In c cs -> is_plain c = true -> ideal c v1 v2 = true.
Proof.
  induction cs as [|d r IH]; intros seen W H Hin P; [destruct Hin|].
  destruct Hin as [E|Hin].
  - subst d. destruct c; try discriminate P; cbn [all_ideal] in H; apply andb_prop in H; tauto.
  - destruct d; cbn [all_ideal wf_from] in H, W;
      try (apply andb_prop in H; destruct H as [_ H]; apply andb_prop in W; destruct W as [_ W]; now apply (IH _ W)).
    + destruct r; [destruct Hin|discriminate W].
    + discriminate W.
Qed.

(* ---------- dup_cmps on a well-formed list ---------- *)
Lemma dup_cmps_total cs v1 v2 : cmps_wf cs = true -> exists b, dup_cmps cs v1 v2 = Ok b.
Proof. intros W. eexists. now apply dup_cmps_ideal. Qed.

Lemma dup_cmps_refl cs v :
  cmps_wf cs = true -> no_const_false cs = true -> typed_for cs v = true -> dup_cmps cs v v = Ok true.
Proof. intros W N T. rewrite (dup_cmps_ideal cs v v W). f_equal. now apply all_ideal_refl. Qed.

Lemma dup_cmps_sym cs v1 v2 : cmps_wf cs = true -> dup_cmps cs v1 v2 = dup_cmps cs v2 v1.
Proof. intros W. rewrite !dup_cmps_ideal by exact W. f_equal. apply all_ideal_sym. Qed.

Lemma dup_cmps_trans cs v1 v2 v3 : cmps_wf cs = true -> same_shape v1 v3 ->
  dup_cmps cs v1 v2 = Ok true -> dup_cmps cs v2 v3 = Ok true -> dup_cmps cs v1 v3 = Ok true.
Proof.
  intros W SH. rewrite !dup_cmps_ideal by exact W. intros H1 H2. injection H1 as H1. injection H2 as H2.
  f_equal. eapply all_ideal_trans; eauto.
Qed.

Lemma dup_cmps_true_in cs v1 v2 c : cmps_wf cs = true ->
  dup_cmps cs v1 v2 = Ok true -> In c cs -> is_plain c = true -> ideal c v1 v2 = true.
Proof.
  intros W. rewrite dup_cmps_ideal by exact W. intros H. injection H as H. now apply (all_ideal_in cs v1 v2 c []).
Qed.

(* what a true verdict says about single fields *)
Lemma dup_cmps_true_eq_field cs v1 v2 f : cmps_wf cs = true ->
  dup_cmps cs v1 v2 = Ok true -> In (D_eq f) cs -> val_agree (vget v1 f) (vget v2 f).
Proof.
  intros W H Hin. apply opt_fval_eqb_agree.
  exact (dup_cmps_true_in cs v1 v2 (D_eq f) W H Hin eq_refl).
Qed.
Lemma dup_cmps_true_name_field cs v1 v2 f : cmps_wf cs = true ->
  dup_cmps cs v1 v2 = Ok true -> In (D_name f) cs ->
  lower_bytes (as_s (vget v1 f)) = lower_bytes (as_s (vget v2 f)).
Proof.
  intros W H Hin. apply name_eq_ci_iff.
  exact (dup_cmps_true_in cs v1 v2 (D_name f) W H Hin eq_refl).
Qed.

(* ---------- IsDuplicate on records ---------- *)
Lemma find_dup_in l k cs : find_dup l k = Some cs -> exists t, In t l /\ dp_name t = k /\ dp_cmps t = cs.
Proof.
  induction l as [|t r IH]; cbn; [discriminate|]. destruct (String.eqb (dp_name t) k) eqn:E.
  - intros H. injection H as H. apply String.eqb_eq in E. exists t. auto.
  - intros H. destruct (IH H) as [t' [A B]]. exists t'. auto.
Qed.
Lemma find_dup_wf k cs : find_dup dups k = Some cs -> cmps_wf cs = true.
Proof.
  intros H. apply find_dup_in in H. destruct H as [t [Hin [_ <-]]].
  pose proof dups_wf as W. rewrite forallb_forall in W. exact (W t Hin).
Qed.

Definition hdr_eq (r1 r2 : rr) : bool :=
  (rr_class r1 =? rr_class r2) && (rr_type r1 =? rr_type r2) && name_eq_ci (rr_name r1) (rr_name r2).
Lemma hdr_eq_refl r : hdr_eq r r = true.
Proof. unfold hdr_eq. now rewrite !N.eqb_refl, name_eq_ci_refl. Qed.
Lemma hdr_eq_sym r1 r2 : hdr_eq r1 r2 = hdr_eq r2 r1.
Proof. unfold hdr_eq. now rewrite (N.eqb_sym (rr_class r1)), (N.eqb_sym (rr_type r1)), name_eq_ci_sym. Qed.
Lemma hdr_eq_trans r1 r2 r3 : hdr_eq r1 r2 = true -> hdr_eq r2 r3 = true -> hdr_eq r1 r3 = true.
Proof.
  unfold hdr_eq. rewrite !andb_true_iff. intros [[A B] C] [[A' B'] C'].
  repeat split; [eapply Neqb_trans|eapply Neqb_trans|eapply name_eq_ci_trans]; eauto.
Qed.

Lemma is_duplicate_unfold r1 r2 :
  is_duplicate r1 r2 =
  if negb (hdr_eq r1 r2) then Ok false
  else if negb (String.eqb (rr_kind r1) (rr_kind r2)) then Ok false
  else match find_dup dups (rr_kind r1) with
       | Some cs => dup_cmps cs (rr_data r1) (rr_data r2)
       | None => Err "nodup"
       end.
Proof. reflexivity. Qed.

Local Opaque dups.

Lemma is_duplicate_true_inv r1 r2 : is_duplicate r1 r2 = Ok true ->
  hdr_eq r1 r2 = true /\ rr_kind r1 = rr_kind r2 /\
  exists cs, find_dup dups (rr_kind r1) = Some cs /\ dup_cmps cs (rr_data r1) (rr_data r2) = Ok true.
Proof.
  rewrite is_duplicate_unfold. destruct (hdr_eq r1 r2); cbn [negb]; [|discriminate].
  destruct (String.eqb (rr_kind r1) (rr_kind r2)) eqn:K; cbn [negb]; [|discriminate].
  apply String.eqb_eq in K. destruct (find_dup dups (rr_kind r1)) as [cs|]; [|discriminate].
  intros H. repeat split; auto. exists cs. auto.
Qed.

(* total: a verdict, or the record kind is not in the table; never a panic *)
Lemma is_duplicate_total r1 r2 :
  (exists b, is_duplicate r1 r2 = Ok b) \/
  (find_dup dups (rr_kind r1) = None /\ is_duplicate r1 r2 = Err "nodup").
Proof.
  rewrite is_duplicate_unfold. destruct (negb (hdr_eq r1 r2)); [left; eauto|].
  destruct (negb (String.eqb (rr_kind r1) (rr_kind r2))); [left; eauto|].
  destruct (find_dup dups (rr_kind r1)) as [cs|] eqn:F; [left|right; auto].
  apply dup_cmps_total. exact (find_dup_wf _ _ F).
Qed.

Lemma is_duplicate_sym r1 r2 : is_duplicate r1 r2 = is_duplicate r2 r1.
Proof.
  rewrite !is_duplicate_unfold, (hdr_eq_sym r2 r1), (String.eqb_sym (rr_kind r2)).
  destruct (negb (hdr_eq r1 r2)); [reflexivity|].
  destruct (String.eqb (rr_kind r1) (rr_kind r2)) eqn:K; cbn [negb]; [|reflexivity].
  apply String.eqb_eq in K. rewrite <- K.
  destruct (find_dup dups (rr_kind r1)) as [cs|] eqn:F; [|reflexivity].
  apply dup_cmps_sym. exact (find_dup_wf _ _ F).
Qed.

Lemma is_duplicate_trans r1 r2 r3 : same_shape (rr_data r1) (rr_data r3) ->
  is_duplicate r1 r2 = Ok true -> is_duplicate r2 r3 = Ok true -> is_duplicate r1 r3 = Ok true.
Proof.
  intros SH H1 H2. apply is_duplicate_true_inv in H1, H2.
  destruct H1 as [A [K [cs [F D]]]], H2 as [A' [K' [cs' [F' D']]]].
  rewrite <- K in F'. rewrite F in F'. injection F' as <-.
  rewrite is_duplicate_unfold, (hdr_eq_trans _ _ _ A A'). cbn [negb].
  rewrite <- K', <- K, String.eqb_refl. cbn [negb]. rewrite F.
  eapply dup_cmps_trans; eauto. exact (find_dup_wf _ _ F).
Qed.

Lemma is_duplicate_refl_cs r cs :
  find_dup dups (rr_kind r) = Some cs -> no_const_false cs = true -> typed_for cs (rr_data r) = true ->
  is_duplicate r r = Ok true.
Proof.
  intros F N T. rewrite is_duplicate_unfold, hdr_eq_refl, String.eqb_refl, F. cbn [negb].
  apply dup_cmps_refl; auto. exact (find_dup_wf _ _ F).
Qed.

Local Transparent dups.

(* the only generated comparisons that end in "return false" *)
Lemma const_false_only_opt_private :
  forallb (fun t => no_const_false (dp_cmps t) || String.eqb (dp_name t) "OPT" || String.eqb (dp_name t) "PrivateRR") dups = true.
Proof. vm_compute. reflexivity. Qed.

Lemma is_duplicate_refl r cs :
  rr_kind r <> "OPT"%string -> rr_kind r <> "PrivateRR"%string ->
  find_dup dups (rr_kind r) = Some cs -> typed_for cs (rr_data r) = true ->
  is_duplicate r r = Ok true.
Proof.
  intros K1 K2 F T. apply (is_duplicate_refl_cs r cs F); [|exact T].
  pose proof const_false_only_opt_private as W. rewrite forallb_forall in W.
  destruct (find_dup_in _ _ _ F) as [t [Hin [Hn Hc]]]. specialize (W t Hin). rewrite Hn, Hc in W.
  apply orb_prop in W. destruct W as [W|W]; [apply orb_prop in W; destruct W as [W|W]|]; [exact W| |];
    apply String.eqb_eq in W; contradiction.
Qed.

(* OPT and PrivateRR: isDuplicate is "return false", so not even r ~ r *)
Lemma is_duplicate_opt_false r1 r2 : rr_kind r1 = "OPT"%string -> is_duplicate r1 r2 = Ok false.
Proof.
  intros K. rewrite is_duplicate_unfold, K. destruct (negb (hdr_eq r1 r2)); [reflexivity|].
  destruct (negb (String.eqb "OPT" (rr_kind r2))); reflexivity.
Qed.
Lemma is_duplicate_private_false r1 r2 : rr_kind r1 = "PrivateRR"%string -> is_duplicate r1 r2 = Ok false.
Proof.
  intros K. rewrite is_duplicate_unfold, K. destruct (negb (hdr_eq r1 r2)); [reflexivity|].
  destruct (negb (String.eqb "PrivateRR" (rr_kind r2))); reflexivity.
Qed.

(* ---------- TTL, Rdlength and owner case are not looked at ---------- *)
Definition with_ttl (r : rr) (ttl rdlen : N) : rr :=
  {| rr_name := rr_name r; rr_type := rr_type r; rr_class := rr_class r; rr_ttl := ttl;
     rr_rdlength := rdlen; rr_kind := rr_kind r; rr_data := rr_data r |}.
Definition with_name (r : rr) (n : bytes) : rr :=
  {| rr_name := n; rr_type := rr_type r; rr_class := rr_class r; rr_ttl := rr_ttl r;
     rr_rdlength := rr_rdlength r; rr_kind := rr_kind r; rr_data := rr_data r |}.
Definition with_data (r : rr) (v : rdata) : rr :=
  {| rr_name := rr_name r; rr_type := rr_type r; rr_class := rr_class r; rr_ttl := rr_ttl r;
     rr_rdlength := rr_rdlength r; rr_kind := rr_kind r; rr_data := v |}.

Lemma is_duplicate_ignores_ttl r1 r2 t1 l1 t2 l2 :
  is_duplicate (with_ttl r1 t1 l1) (with_ttl r2 t2 l2) = is_duplicate r1 r2.
Proof. reflexivity. Qed.

Lemma is_duplicate_ignores_owner_case r1 r2 n1 n2 :
  lower_bytes n1 = lower_bytes (rr_name r1) -> lower_bytes n2 = lower_bytes (rr_name r2) ->
  is_duplicate (with_name r1 n1) (with_name r2 n2) = is_duplicate r1 r2.
Proof.
  intros H1 H2. rewrite !is_duplicate_unfold. unfold hdr_eq, name_eq_ci. cbn [with_name rr_name rr_class rr_type rr_kind rr_data].
  now rewrite H1, H2.
Qed.

(* ---------- letter case of embedded domain names ---------- *)
(* o' is o up to the letter case of a name or of a list of names *)
Inductive ci_variant : option fval -> option fval -> Prop :=
| CV_same o : ci_variant o o
| CV_s s s' : lower_bytes s = lower_bytes s' -> ci_variant (Some (V_s s)) (Some (V_s s'))
| CV_ss l l' : map lower_bytes l = map lower_bytes l' -> ci_variant (Some (V_ss l)) (Some (V_ss l')).

(* comparisons that do not look at field f other than case-insensitively *)
Definition ci_ok (f : string) (c : dcmp) : bool :=
  match c with
  | D_eq g | D_each_eq g | D_each_equals g | D_ip_equal g | D_pairs g => negb (String.eqb f g)
  | D_gateway tyf _ addrf _ => negb (String.eqb f tyf) && negb (String.eqb f addrf)
  | _ => true
  end.

Lemma cv_as_s o o' : ci_variant o o' -> lower_bytes (as_s o) = lower_bytes (as_s o').
Proof. intros [| |]; cbn; auto. Qed.
Lemma cv_as_ss o o' : ci_variant o o' -> map lower_bytes (as_ss o) = map lower_bytes (as_ss o').
Proof. intros [| |]; cbn; auto. Qed.
Lemma map_eq_length {A B} (g : A -> B) l l' : map g l = map g l' -> length l = length l'.
Proof. intros H. apply (f_equal (@length B)) in H. now rewrite !map_length in H. Qed.
Lemma cv_len_rel o1 o1' o2 o2' : ci_variant o1 o1' -> ci_variant o2 o2' -> len_rel o1' o2' = len_rel o1 o2.
Proof.
  intros [oa| |l1 l1' H1] [ob| |l2 l2' H2]; try apply map_eq_length in H1; try apply map_eq_length in H2;
    try (destruct oa as [[]|]); try (destruct ob as [[]|]); cbn; rewrite ?H1, ?H2; reflexivity.
Qed.

Lemma name_eq_ci_lower a a' b b' : lower_bytes a = lower_bytes a' -> lower_bytes b = lower_bytes b' ->
  name_eq_ci a' b' = name_eq_ci a b.
Proof. unfold name_eq_ci. now intros -> ->. Qed.

Lemma list_eqb_name_map a : forall b,
  list_eqb name_eq_ci a b = list_eqb bytes_eqb (map lower_bytes a) (map lower_bytes b).
Proof. induction a as [|x a IH]; intros [|y b]; cbn; try reflexivity. now rewrite IH. Qed.

Lemma each_name_lower a a' b b' : map lower_bytes a = map lower_bytes a' -> map lower_bytes b = map lower_bytes b' ->
  list_eqb name_eq_ci a' (firstn (length a') b') = list_eqb name_eq_ci a (firstn (length a) b).
Proof.
  intros Ha Hb. rewrite !list_eqb_name_map, <- !firstn_map, <- Ha, <- Hb.
  now rewrite (map_eq_length _ _ _ Ha).
Qed.

Section CaseVariant.
  Variables (f : string) (v1 v1' v2 v2' : rdata).
  Hypothesis Hother : forall g, g <> f -> vget v1' g = vget v1 g /\ vget v2' g = vget v2 g.
  Hypothesis Hf1 : ci_variant (vget v1 f) (vget v1' f).
  Hypothesis Hf2 : ci_variant (vget v2 f) (vget v2' f).

  Lemma cv_any g : ci_variant (vget v1 g) (vget v1' g) /\ ci_variant (vget v2 g) (vget v2' g).
  Proof.
    destruct (String.eqb g f) eqn:E.
    - apply String.eqb_eq in E. subst. auto.
    - apply String.eqb_neq in E. destruct (Hother g E) as [-> ->]. split; constructor.
  Qed.
  Lemma cv_other g : String.eqb f g = false -> vget v1' g = vget v1 g /\ vget v2' g = vget v2 g.
  Proof. intros E. apply Hother. apply String.eqb_neq in E. congruence. Qed.

  Lemma dup_cmp_case c : ci_ok f c = true -> dup_cmp c v1' v2' = dup_cmp c v1 v2.
  Proof.
    destruct c; cbn [ci_ok]; intros H; try apply negb_true_iff in H; cbn [dup_cmp]; try reflexivity.
    - destruct (cv_other _ H) as [-> ->]. reflexivity.
    - destruct (cv_any f0) as [A B]. now rewrite (name_eq_ci_lower _ _ _ _ (cv_as_s _ _ A) (cv_as_s _ _ B)).
    - destruct (cv_any f0) as [A B]. now rewrite (cv_len_rel _ _ _ _ A B).
    - destruct (cv_other _ H) as [-> ->]. reflexivity.
    - destruct (cv_any f0) as [A B]. now rewrite (each_name_lower _ _ _ _ (cv_as_ss _ _ A) (cv_as_ss _ _ B)).
    - destruct (cv_other _ H) as [-> ->]. reflexivity.
    - destruct (cv_other _ H) as [-> ->]. reflexivity.
    - destruct (cv_other _ H) as [-> ->]. reflexivity.
    - apply andb_prop in H. destruct H as [H1 H2]. apply negb_true_iff in H1, H2.
      destruct (cv_other _ H1) as [T1 T2]. destruct (cv_other _ H2) as [-> ->].
      unfold vget_n. rewrite T1. destruct (cv_any hostf) as [A B].
      now rewrite (name_eq_ci_lower _ _ _ _ (cv_as_s _ _ A) (cv_as_s _ _ B)).
  Qed.

  Lemma dup_cmps_case cs : forallb (ci_ok f) cs = true -> dup_cmps cs v1' v2' = dup_cmps cs v1 v2.
  Proof.
    induction cs as [|c r IH]; intros H; [reflexivity|]. cbn [forallb] in H. apply andb_prop in H. destruct H as [H1 H2].
    cbn [dup_cmps]. rewrite (dup_cmp_case c H1), (IH H2). reflexivity.
  Qed.
End CaseVariant.

Lemma is_duplicate_ignores_embedded_name_case r1 r2 v1' v2' f cs :
  find_dup dups (rr_kind r1) = Some cs -> forallb (ci_ok f) cs = true ->
  (forall g, g <> f -> vget v1' g = vget (rr_data r1) g /\ vget v2' g = vget (rr_data r2) g) ->
  ci_variant (vget (rr_data r1) f) (vget v1' f) -> ci_variant (vget (rr_data r2) f) (vget v2' f) ->
  is_duplicate (with_data r1 v1') (with_data r2 v2') = is_duplicate r1 r2.
Proof.
  intros F C H0 H1 H2. rewrite !is_duplicate_unfold.
  change (hdr_eq (with_data r1 v1') (with_data r2 v2')) with (hdr_eq r1 r2).
  cbn [with_data rr_kind rr_data]. rewrite F.
  now rewrite (dup_cmps_case f _ v1' _ v2' H0 H1 H2 cs C).
Qed.

(* ---------- cross-checks of the comparison table against the wire layouts ---------- *)
Definition mentions (c : dcmp) : list string :=
  match c with
  | D_eq f | D_name f | D_len_eq f | D_each_eq f | D_each_name f | D_each_equals f | D_ip_equal f | D_pairs f => [f]
  | D_gateway tyf _ addrf hostf => [tyf; addrf; hostf]
  | _ => []
  end.
(* struct fields a pack() statement writes *)
Definition pack_fields (p : pfield) : list string :=
  match snd p with K_gateway tyf addrf hostf _ _ => [addrf; hostf] | _ => [fst p] end.
(* wire fields of type t that its isDuplicate never looks at *)
Definition uncompared (t : tlayout) : list string :=
  match find_dup dups (tl_name t) with
  | None => ["<no entry>"%string]
  | Some cs => filter (fun f => negb (existsb (String.eqb f) (flat_map mentions cs))) (flat_map pack_fields (tl_pack t))
  end.
(* a wire domain-name field is compared by isDuplicateName and by nothing else *)
Definition name_field_ok (cs : list dcmp) (p : pfield) : bool :=
  match snd p with
  | K_name _ => existsb (fun c => match c with D_name g => String.eqb (fst p) g | _ => false end) cs && forallb (ci_ok (fst p)) cs
  | K_names _ => existsb (fun c => match c with D_each_name g => String.eqb (fst p) g | _ => false end) cs && forallb (ci_ok (fst p)) cs
  | K_gateway tyf addrf hostf mask _ =>
    existsb (fun c => match c with
                      | D_gateway t m a h => String.eqb t tyf && N.eqb m mask && String.eqb a addrf && String.eqb h hostf
                      | _ => false end) cs && forallb (ci_ok hostf) cs
  | _ => true
  end.
Definition kind_of (t : tlayout) (f : string) : option fkind :=
  match filter (fun p => String.eqb (fst p) f) (tl_pack t) with p :: _ => Some (snd p) | [] => None end.
(* and nothing that is not a wire domain name is compared case-insensitively *)
Definition ci_cmp_ok (t : tlayout) (c : dcmp) : bool :=
  match c with
  | D_name f => match kind_of t f with Some (K_name _) => true | _ => false end
  | D_each_name f => match kind_of t f with Some (K_names _) => true | _ => false end
  | _ => true
  end.

Lemma every_wire_field_compared :
  filter (fun x => negb (Nat.eqb (length (snd x)) 0)) (map (fun t => (tl_name t, uncompared t)) layouts)
  = [("OPT"%string, ["Option"%string])].
Proof. vm_compute. reflexivity. Qed.

Lemma wire_names_compared_ci :
  forallb (fun t => match find_dup dups (tl_name t) with
                    | Some cs => forallb (name_field_ok cs) (tl_pack t) && forallb (ci_cmp_ok t) cs
                    | None => false end) layouts = true.
Proof. vm_compute. reflexivity. Qed.

(* ---------- names obtained from the wire ---------- *)
(* a valid wire name ls (labels of 1..63 octets, at most 255 octets in all) is
   unpacked to the text show_name ls (NameRoundtripProofs.unpack_wire_name);
   isDuplicateName on two such texts says exactly that the lower-cased
   uncompressed wire forms are equal *)
Lemma lower_lt256 b : b < 256 -> lower b < 256.
Proof. unfold lower. destruct ((65 <=? b) && (b <=? 90)) eqn:E; lia. Qed.
Lemma lenN_lower l : lenN (lower_bytes l) = lenN l.
Proof. unfold lenN, lower_bytes. now rewrite map_length. Qed.
Lemma label_ok_lower l : label_ok l = true -> label_ok (lower_bytes l) = true.
Proof.
  unfold label_ok. rewrite lenN_lower, !andb_true_iff. intros [A B]. split; [exact A|].
  unfold wfbb, lower_bytes in *. rewrite forallb_forall in *. intros x Hx. apply in_map_iff in Hx.
  destruct Hx as [y [<- Hy]]. specialize (B y Hy). pose proof (lower_lt256 y). lia.
Qed.
Lemma labels_ok_lower ls : labels_ok ls = true -> labels_ok (map lower_bytes ls) = true.
Proof.
  unfold labels_ok. rewrite !forallb_forall. intros H x Hx. apply in_map_iff in Hx.
  destruct Hx as [y [<- Hy]]. apply label_ok_lower, H, Hy.
Qed.
Lemma lower_wire_labels ls : labels_ok ls = true ->
  lower_bytes (wire_labels ls) = wire_labels (map lower_bytes ls).
Proof.
  induction ls as [|l ls IH]; intros H; [reflexivity|].
  cbn [labels_ok forallb] in H. apply andb_prop in H. destruct H as [H1 H2].
  unfold wire_labels in *. cbn [flat_map map]. unfold lower_bytes in *. cbn [app map]. rewrite map_app, (IH H2).
  f_equal. fold (lower_bytes l). rewrite lenN_lower.
  unfold label_ok in H1. unfold lower. destruct ((65 <=? lenN l) && (lenN l <=? 90)) eqn:E; lia.
Qed.
Lemma lower_wire_name ls : labels_ok ls = true ->
  lower_bytes (wire_name ls) = wire_name (map lower_bytes ls).
Proof.
  intros H. unfold wire_name. unfold lower_bytes at 1. rewrite map_app. fold (lower_bytes (wire_labels ls)).
  now rewrite lower_wire_labels.
Qed.
Lemma valid_wire_lower ls : valid_wire ls = true -> valid_wire (map lower_bytes ls) = true.
Proof.
  unfold valid_wire. rewrite !andb_true_iff. intros [A B]. split; [now apply labels_ok_lower|].
  unfold wire_len in *. now rewrite <- lower_wire_name, lenN_lower.
Qed.
Lemma lower_show_name ls : valid_wire ls = true ->
  lower_bytes (show_name ls) = show_name (map lower_bytes ls).
Proof.
  intros V. unfold valid_wire in V. apply andb_prop in V. destruct V as [V _].
  destruct ls as [|l ls]; [reflexivity|]. unfold show_name. cbn [map].
  apply (lower_show_labels (l :: ls)). now apply labels_ok_wf.
Qed.

Lemma name_eq_ci_wire a b : valid_wire a = true -> valid_wire b = true ->
  (name_eq_ci (show_name a) (show_name b) = true <->
   lower_bytes (wire_name a) = lower_bytes (wire_name b)).
Proof.
  intros Va Vb. pose proof (valid_wire_lower a Va) as La. pose proof (valid_wire_lower b Vb) as Lb.
  assert (Oa : labels_ok a = true) by (unfold valid_wire in Va; apply andb_prop in Va; tauto).
  assert (Ob : labels_ok b = true) by (unfold valid_wire in Vb; apply andb_prop in Vb; tauto).
  rewrite name_eq_ci_iff, !lower_show_name, !lower_wire_name by assumption. split.
  - intros E. now rewrite (show_name_injective _ _ La Lb E).
  - intros E. destruct (wire_name_inj _ _ [] [] La Lb) as [-> _]; [now rewrite !app_nil_r|reflexivity].
Qed.

(* packaged statements for Props/C20.v *)
Lemma dup_cmps_true_fields cs v1 v2 f :
  cmps_wf cs = true -> dup_cmps cs v1 v2 = Ok true ->
  (In (D_eq f) cs -> val_agree (vget v1 f) (vget v2 f)) /\
  (In (D_name f) cs -> lower_bytes (as_s (vget v1 f)) = lower_bytes (as_s (vget v2 f))).
Proof.
  intros W H. split; intro Hin.
  - exact (dup_cmps_true_eq_field cs v1 v2 f W H Hin).
  - exact (dup_cmps_true_name_field cs v1 v2 f W H Hin).
Qed.

Lemma is_duplicate_true_header r1 r2 :
  is_duplicate r1 r2 = Ok true ->
  rr_class r1 = rr_class r2 /\ rr_type r1 = rr_type r2 /\ rr_kind r1 = rr_kind r2 /\
  lower_bytes (rr_name r1) = lower_bytes (rr_name r2).
Proof.
  intros H. destruct (is_duplicate_true_inv r1 r2 H) as [A [K _]].
  unfold hdr_eq in A. apply andb_prop in A. destruct A as [A C]. apply andb_prop in A. destruct A as [A B].
  apply N.eqb_eq in A, B. apply name_eq_ci_iff in C. auto.
Qed.

Lemma is_duplicate_opt_irrefl r : rr_kind r = "OPT"%string -> is_duplicate r r = Ok false.
Proof. apply is_duplicate_opt_false. Qed.
Lemma is_duplicate_private_irrefl r : rr_kind r = "PrivateRR"%string -> is_duplicate r r = Ok false.
Proof. apply is_duplicate_private_false. Qed.

(* without same_shape transitivity fails in the model: an absent field is the
   zero of a number and of a string *)
Lemma dup_cmps_trans_untyped_witness :
  let cs := [D_eq "X"; D_const true] in
  let v1 := [("X"%string, V_n 0)] in let v2 : rdata := [] in let v3 := [("X"%string, V_s [])] in
  cmps_wf cs = true /\ dup_cmps cs v1 v2 = Ok true /\ dup_cmps cs v2 v3 = Ok true /\ dup_cmps cs v1 v3 = Ok false.
Proof. vm_compute. repeat split. Qed.
