(* Model/OptVal.v — the EDNS0 option types of edns.go and the SVCB parameter
   value types of svcb.go at the level of their Go struct fields: what pack()
   returns (octets or an error class), the option code / key, and the length the
   record's len() adds for the value.

   EDNS0 options have no len() method at this commit: OPT.len does
   "lo, _ := o.pack(); l += len(lo)", and every error return of every pack() is
   (nil, err) — so the reported length of an option is the length of the octets
   its pack() returns, 0 when it fails.  SVCB values have their own len().

   Strings are octet lists.  Hex-text fields (Nsid, Cookie) are the TEXT;
   net.IP values are octet lists of any length.  Definitions only. *)
From Dns Require Export Model.Msg Model.Options.
Open Scope N_scope.

(* ---------- encoding/hex DecodeString ---------- *)
Definition hexval (c : N) : option N :=
  if (48 <=? c) && (c <=? 57) then Some (c - 48)
  else if (97 <=? c) && (c <=? 102) then Some (c - 87)
  else if (65 <=? c) && (c <=? 70) then Some (c - 55)
  else None.
(* pairs left to right, the first bad digit wins; an odd tail is a bad digit
   if it is one, else a length error *)
Fixpoint hex_decode (s : bytes) : res bytes :=
  match s with
  | [] => Ok []
  | [p] => match hexval p with None => Err "hexbyte" | Some _ => Err "hexlen" end
  | p :: q :: r =>
    match hexval p with
    | None => Err "hexbyte"
    | Some a =>
      match hexval q with
      | None => Err "hexbyte"
      | Some b => do t <- hex_decode r; Ok ((a * 16 + b) :: t)
      end
    end
  end.

(* ---------- net.IP.To4 ---------- *)
Definition v4in6_prefix : bytes := [0;0;0;0;0;0;0;0;0;0;255;255].
Definition to4 (ip : bytes) : option bytes :=
  if lenN ip =? 4 then Some ip
  else if (lenN ip =? 16) && bytes_eqb (firstn 12 ip) v4in6_prefix then Some (skipn 12 ip)
  else None.

(* ---------- EDNS0 ---------- *)
Inductive optval : Type :=
| O_LLQ (version opcode error id leaselife : N)
| O_UL (lease keylease : N)
| O_NSID (nsid : bytes)                       (* hex text *)
| O_ESU (uri : bytes)
| O_DAU (alg : bytes)
| O_DHU (alg : bytes)
| O_N3U (alg : bytes)
| O_SUBNET (family netmask scope : N) (address : bytes)
| O_EXPIRE (expire : N) (empty : bool)
| O_COOKIE (cookie : bytes)                   (* hex text *)
| O_KEEPALIVE (timeout : N)
| O_PADDING (padding : bytes)
| O_EDE (infocode : N) (extratext : bytes)
| O_REPORTING (agent : bytes)
| O_ZONEVERSION (labelcount type : N) (version : bytes)
| O_LOCAL (code : N) (data : bytes).

Definition opt_code (v : optval) : N :=
  match v with
  | O_LLQ _ _ _ _ _ => 1 | O_UL _ _ => 2 | O_NSID _ => 3 | O_ESU _ => 4 | O_DAU _ => 5 | O_DHU _ => 6 | O_N3U _ => 7
  | O_SUBNET _ _ _ _ => 8 | O_EXPIRE _ _ => 9 | O_COOKIE _ => 10 | O_KEEPALIVE _ => 11 | O_PADDING _ => 12
  | O_EDE _ _ => 15 | O_REPORTING _ => 18 | O_ZONEVERSION _ _ _ => 19 | O_LOCAL c _ => c
  end.

(* needLength := (e.SourceNetmask + 8 - 1) / 8 in uint8 arithmetic *)
Definition need_length (mask : N) : N := ((mask + 7) mod 256) / 8.

Definition subnet_pack (family netmask scope : N) (address : bytes) : res bytes :=
  if family =? 0 then
    if negb (netmask =? 0) then Err "family" else Ok [0; 0; 0; scope mod 256]
  else if family =? 1 then
    if 32 <? netmask then Err "netmask"
    else match to4 address with
         | None => Err "address"
         | Some ip4 =>
           Ok (u16 family ++ [netmask mod 256; scope mod 256] ++ takeN (need_length netmask) (mask_bytes ip4 netmask))
         end
  else if family =? 2 then
    if 128 <? netmask then Err "netmask"
    else if negb (lenN address =? 16) then Err "address"
    else Ok (u16 family ++ [netmask mod 256; scope mod 256] ++ takeN (need_length netmask) (mask_bytes address netmask))
  else Err "family".

Definition opt_pack (v : optval) : res bytes :=
  match v with
  | O_LLQ ver opc er id ll => Ok (u16 ver ++ u16 opc ++ u16 er ++ u64 id ++ u32 ll)
  | O_UL lease keylease =>
    if keylease =? 0 then Ok (u32 lease) else Ok (u32 lease ++ u32 keylease)
  | O_NSID t => hex_decode t
  | O_ESU u => Ok u
  | O_DAU a => Ok a
  | O_DHU a => Ok a
  | O_N3U a => Ok a
  | O_SUBNET f m s a => subnet_pack f m s a
  | O_EXPIRE e empty => if empty then Ok [] else Ok (u32 e)
  | O_COOKIE t => hex_decode t
  | O_KEEPALIVE t => if 0 <? t then Ok (u16 t) else Ok []
  | O_PADDING p => Ok p
  | O_EDE c t => Ok (u16 c ++ t)
  | O_REPORTING a =>
    match pack_name_plain (fqdn a) 255 with
    | Ok w => Ok w
    | Err _ => Err "agent"
    | Panic => Panic
    | OutOfFuel => OutOfFuel
    end
  | O_ZONEVERSION lc ty ver => Ok ([lc mod 256; ty mod 256] ++ ver)
  | O_LOCAL _ d => Ok d
  end.

(* OPT.len: lo, _ := o.pack(); l += len(lo) — nil on every error return *)
Definition opt_len (v : optval) : N :=
  match opt_pack v with Ok b => lenN b | _ => 0 end.

(* ---------- SVCB ---------- *)
Inductive svcbval : Type :=
| S_MANDATORY (codes : list N)
| S_ALPN (ids : list bytes)
| S_NODEFAULTALPN
| S_PORT (port : N)
| S_IPV4HINT (hint : list bytes)
| S_ECH (ech : bytes)
| S_IPV6HINT (hint : list bytes)
| S_DOHPATH (template : bytes)
| S_OHTTP
| S_LOCAL (key : N) (data : bytes).

Definition svcb_key (v : svcbval) : N :=
  match v with
  | S_MANDATORY _ => 0 | S_ALPN _ => 1 | S_NODEFAULTALPN => 2 | S_PORT _ => 3 | S_IPV4HINT _ => 4 | S_ECH _ => 5
  | S_IPV6HINT _ => 6 | S_DOHPATH _ => 7 | S_OHTTP => 8 | S_LOCAL k _ => k
  end.

Fixpoint alpn_pack (ids : list bytes) : res bytes :=
  match ids with
  | [] => Ok []
  | e :: r =>
    if lenN e =? 0 then Err "alpnempty"
    else if 255 <? lenN e then Err "alpnlong"
    else do t <- alpn_pack r; Ok (lenN e :: e ++ t)
  end.
Fixpoint v4hint_pack (h : list bytes) : res bytes :=
  match h with
  | [] => Ok []
  | e :: r => match to4 e with
              | None => Err "v4hint"
              | Some x => do t <- v4hint_pack r; Ok (x ++ t)
              end
  end.
Fixpoint v6hint_pack (h : list bytes) : res bytes :=
  match h with
  | [] => Ok []
  | e :: r =>
    if negb (lenN e =? 16) || match to4 e with Some _ => true | None => false end then Err "v6hint"
    else do t <- v6hint_pack r; Ok (e ++ t)
  end.

Definition svcb_pack (v : svcbval) : res bytes :=
  match v with
  | S_MANDATORY codes => Ok (flat_map u16 (sort_n codes))
  | S_ALPN ids => alpn_pack ids
  | S_NODEFAULTALPN => Ok []
  | S_PORT p => Ok (u16 p)
  | S_IPV4HINT h => v4hint_pack h
  | S_ECH e => Ok e
  | S_IPV6HINT h => v6hint_pack h
  | S_DOHPATH t => Ok t
  | S_OHTTP => Ok []
  | S_LOCAL _ d => Ok d
  end.

Definition svcb_len (v : svcbval) : N :=
  match v with
  | S_MANDATORY codes => 2 * lenN codes
  | S_ALPN ids => fold_left (fun l e => l + (1 + lenN e)) ids 0
  | S_NODEFAULTALPN => 0
  | S_PORT _ => 2
  | S_IPV4HINT h => 4 * lenN h
  | S_ECH e => lenN e
  | S_IPV6HINT h => 16 * lenN h
  | S_DOHPATH t => lenN t
  | S_OHTTP => 0
  | S_LOCAL _ d => lenN d
  end.

(* ---------- the triples of Model/Rdata.v built from values ---------- *)
Definition triple := (N * bytes * N)%type.
Fixpoint opt_triples (vs : list optval) : res (list triple) :=
  match vs with
  | [] => Ok []
  | v :: r => do b <- opt_pack v; do t <- opt_triples r; Ok ((opt_code v, b, opt_len v) :: t)
  end.
Fixpoint svcb_triples (vs : list svcbval) : res (list triple) :=
  match vs with
  | [] => Ok []
  | v :: r => do b <- svcb_pack v; do t <- svcb_triples r; Ok ((svcb_key v, b, svcb_len v) :: t)
  end.

(* an OPT record with these options, an SVCB / HTTPS record (kind SVCB: HTTPS
   embeds SVCB and runs its methods) with these parameters; header from h *)
Definition opt_record (h : rr) (ts : list triple) : rr :=
  {| rr_name := rr_name h; rr_type := rr_type h; rr_class := rr_class h; rr_ttl := rr_ttl h;
     rr_rdlength := rr_rdlength h; rr_kind := "OPT";
     rr_data := [("Option"%string, V_pairs ts)] |}.
Definition svcb_record (h : rr) (priority : N) (target : bytes) (ts : list triple) : rr :=
  {| rr_name := rr_name h; rr_type := rr_type h; rr_class := rr_class h; rr_ttl := rr_ttl h;
     rr_rdlength := rr_rdlength h; rr_kind := "SVCB";
     rr_data := [("Priority"%string, V_n priority); ("Target"%string, V_s target); ("Value"%string, V_pairs ts)] |}.
