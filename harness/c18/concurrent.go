package main

import (
	"bytes"
	"crypto"
	"crypto/ecdsa"
	"io"
	"runtime"
	"strings"
	"sync"
	"sync/atomic"
	"time"

	"github.com/miekg/dns"
	. "verif/harness/common"
)

// Concurrency: SIG.Sign and SIG.Verify called from many goroutines at once, on
// different messages, for every algorithm family. Nothing in the property
// restricts it to one caller at a time. Every result is compared with what the
// same call gave when made alone (computed before the goroutines start): the
// signed octets up to the signature are equal (and the signature too for the
// deterministic algorithms), the signer was handed exactly (the hash of) SIG
// RDATA | packed message, the signature checks with crypto/* directly, Verify
// accepts it and rejects it with one bit altered. No oracle depends on time or
// on the schedule: on the unchanged tree every interleaving gives these
// results. What the number of rounds buys is the chance that two calls overlap.

// watchSigner hands the digest to the real key and notes whether it was the
// expected one (RDATA | message for ED25519, its hash otherwise).
type watchSigner struct {
	inner crypto.Signer
	want  []byte
	calls int
	wrong bool
}

func (w *watchSigner) Public() crypto.PublicKey { return w.inner.Public() }
func (w *watchSigner) Sign(rnd io.Reader, digest []byte, opts crypto.SignerOpts) ([]byte, error) {
	w.calls++
	if !bytes.Equal(digest, w.want) {
		w.wrong = true
	}
	return w.inner.Sign(rnd, digest, opts)
}

type concJob struct {
	kp            keyPair
	m             *dns.Msg
	packed, rd    []byte
	incept, until uint32
	seq           []byte // what a lone caller got
	want          []byte // the octets the signer must be handed
	det           bool   // the algorithm is deterministic
	rounds        int
	// results (written by the job's goroutine, read after wg.Wait)
	key, desc, signed string
	round, done       int
	lastOut           []byte
	lastErr           error
	lastVerdict       string
	lastT0, lastT1    uint32
	lastSig           *dns.SIG
}

func (j *concJob) fail(round int, key, desc string, signed []byte) {
	if j.key == "" {
		j.key, j.desc, j.round, j.signed = key, desc, round, Hx(signed)
	}
}

func (j *concJob) run(start <-chan struct{}, wg *sync.WaitGroup) {
	defer wg.Done()
	defer func() {
		if e := recover(); e != nil {
			j.fail(j.done, "C18/Concurrent/panic", "panic in a concurrent Sign/Verify", nil)
		}
	}()
	<-start
	siglen := sigLen(j.kp)
	data := append(append([]byte(nil), j.rd...), j.packed...)
	for i := 0; i < j.rounds; i++ {
		s := newSig(j.kp, j.incept, j.until)
		ws := &watchSigner{inner: j.kp.priv, want: j.want}
		out, err := s.Sign(ws, j.m)
		j.lastOut, j.lastErr, j.lastSig, j.done = out, err, nil, i+1
		if err != nil {
			j.fail(i, "C18/Concurrent/sign-error", "Sign failed while other goroutines sign and verify: "+err.Error(), nil)
			continue
		}
		if ws.calls != 1 || ws.wrong {
			j.fail(i, "C18/Concurrent/signer-input", "the signer was not handed (the hash of) SIG RDATA | packed message", out)
		}
		switch {
		case len(out) != len(j.seq) || !bytes.Equal(out[:len(out)-siglen], j.seq[:len(j.seq)-siglen]):
			j.fail(i, "C18/Concurrent/signed-octets", "signed octets differ from those of the same call made alone", out)
			continue
		case j.det && !bytes.Equal(out, j.seq):
			j.fail(i, "C18/Concurrent/signed-octets", "deterministic algorithm: the signature differs from that of the same call made alone", out)
		}
		if directVerify(j.kp, s.Algorithm, data, out[len(out)-siglen:]) != "ok" {
			j.fail(i, "C18/Concurrent/signature", "signature does not verify over RDATA | message with crypto/* directly", out)
		}
		// a receiver: unpack, take the SIG, verify
		verdict, used, t0, t1 := receive(out, s, j.kp.key)
		j.lastVerdict, j.lastSig, j.lastT0, j.lastT1 = verdict, used, t0, t1
		if verdict != "ok:" {
			j.fail(i, "C18/Concurrent/verify-rejected", "untampered message rejected while other goroutines sign and verify: "+verdict, out)
		}
		// one altered bit of the message proper (the SIG stays the one unpacked)
		mut := append([]byte(nil), out...)
		bit := (i*7919 + len(out)) % (len(j.packed) * 8)
		mut[bit/8] ^= 0x80 >> (bit % 8)
		if v := verifyClass(s, j.kp.key, mut); v == "ok:" || v == "panic" {
			j.fail(i, "C18/Concurrent/tampered", "bit "+Itoa(bit)+" altered: "+v, mut)
		}
	}
}

func oracleConcurrent(r *Rng, keys []keyPair, tier string) {
	t0 := time.Now()
	defer func() { st["wall_ms_concurrent"] = int(time.Since(t0).Milliseconds()) }()
	if runtime.GOMAXPROCS(0) < 4 {
		defer runtime.GOMAXPROCS(runtime.GOMAXPROCS(4))
	}
	now := uint32(time.Now().Unix())
	// rounds per goroutine by the cost of the algorithm; four goroutines per key,
	// each with a message of its own (a few hundred octets to ~30 KiB)
	rounds := map[uint8]int{dns.ED25519: 1200, dns.ECDSAP256SHA256: 300, dns.ECDSAP384SHA384: 30,
		dns.RSASHA256: 300, dns.RSASHA1: 300, dns.RSASHA512: 80}
	var jobs []*concJob
	for ki, kp := range keys {
		for g, nrec := range []int{0, 6, 40, 150} {
			m := genMsg(r, 3)
			m.Compress = (ki+g)%2 == 0
			for i := 0; i < nrec; i++ {
				m.Answer = append(m.Answer, &dns.TXT{Hdr: dns.RR_Header{Name: "g" + Itoa(len(jobs)) + ".example.org.", Rrtype: dns.TypeTXT, Class: 1, Ttl: uint32(i)},
					Txt: []string{strings.Repeat(string(rune('a'+len(jobs)%26)), 100+r.Intn(100))}})
			}
			packed, err := m.Pack()
			if err != nil {
				continue
			}
			j := &concJob{kp: kp, m: m, packed: packed, incept: now - 3000, until: now + 3000, rounds: rounds[kp.key.Algorithm]}
			switch n := sigLen(kp); { // large RSA moduli: signing costs milliseconds
			case n >= 512:
				j.rounds = min(j.rounds, 30)
			case n >= 256:
				j.rounds = min(j.rounds, 80)
			}
			if tier == "thorough" {
				j.rounds *= 5
			}
			s := newSig(kp, j.incept, j.until)
			j.rd = sigRdata(s)
			j.seq, err = doSign(s, kp, m)
			if err != nil {
				continue // a lone Sign is judged by oracleMessage
			}
			j.want, _, _ = directHash(kp.key.Algorithm, append(append([]byte(nil), j.rd...), packed...))
			_, isECDSA := kp.priv.Public().(*ecdsa.PublicKey)
			j.det = !isECDSA
			jobs = append(jobs, j)
		}
	}
	start := make(chan struct{})
	var wg sync.WaitGroup
	for _, j := range jobs {
		wg.Add(1)
		go j.run(start, &wg)
	}
	close(start)
	wg.Wait()
	for _, j := range jobs {
		st["concurrent_rounds_checked"] += j.done
		if j.key != "" {
			Viol(j.key, j.desc, c18in{Msg: Hx(j.packed), Signed: j.signed, Alg: j.kp.name, Compress: j.m.Compress, Len: len(j.packed),
				Detail: "round " + Itoa(j.round) + " of " + Itoa(j.rounds) + ", " + Itoa(len(jobs)) + " goroutines, GOMAXPROCS " + Itoa(runtime.GOMAXPROCS(0)),
				KeyRR:  j.kp.key.String()})
		}
		if len(j.packed) < 12000 {
			// the last result of each goroutine against the model
			emitSignResult(j.m, newSig(j.kp, j.incept, j.until), j.kp, j.packed, j.lastOut, j.lastErr)
			if j.lastErr == nil && j.lastSig != nil && j.lastT0 == j.lastT1 {
				emitVerifyResult(j.lastOut, j.lastSig, j.kp, j.kp.key, j.lastVerdict, j.lastT0)
			}
		}
	}
}

// ---------------------------------------------------------------------------
// One buffer, many verifiers (round 5). A received message is one []byte; any
// number of goroutines may verify it at once (several candidate KEYs tried in
// parallel, two handlers sharing the packet), some sharing the *SIG and *KEY
// too. Verify only has to read: every call must give the verdict the same call
// gives when made alone - the matching key accepts, a key of other material and
// a key of another owner do not - and the octets stay what they were (compared
// by a reader goroutine all along and at the end). The goroutines of one buffer
// start together behind a barrier and run with real parallelism (GOMAXPROCS >=
// 4); all buffers are worked on at once. No oracle looks at time or at the
// schedule; on a tree where Verify only reads, every schedule gives these
// results.
// ---------------------------------------------------------------------------

type sharedBuf struct {
	kp       keyPair
	m        *dns.Msg
	buf      []byte // shared, never written by the harness
	snap     []byte
	sig      *dns.SIG // shared by half of the goroutines
	kOther   dns.KEY
	kName    dns.KEY
	rounds   int
	verdict  string
	t0, t1   uint32
	fails    []*sharedFail // one slot per goroutine
	verifies atomic.Int64
}

type sharedFail struct{ key, desc string }

func (sb *sharedBuf) verifier(g int, start <-chan struct{}, wg *sync.WaitGroup) {
	defer wg.Done()
	f := sb.fails[g]
	set := func(key, desc string) {
		if f.key == "" {
			f.key, f.desc = key, desc
		}
	}
	defer func() {
		if e := recover(); e != nil {
			set("C18/Concurrent/panic", "panic while several goroutines verify one buffer")
		}
	}()
	// a receiver of its own: unpacks the shared octets itself
	sig, key := sb.sig, sb.kp.key
	if g%2 == 1 {
		var um dns.Msg
		if um.Unpack(sb.buf) == nil && len(um.Extra) > 0 {
			if s, ok := um.Extra[len(um.Extra)-1].(*dns.SIG); ok {
				sig = s
			}
		}
		kc := *sb.kp.key
		key = &kc
	}
	<-start
	for i := 0; i < sb.rounds; i++ {
		var got string
		switch {
		case i%16 == 7:
			if got = Protect(func() string { return errClass(sig.Verify(&sb.kOther, sb.buf)) }); got == "ok:" || got == "panic" {
				set("C18/Concurrent/shared-buffer-wrong-key", "a key of other material, while other goroutines verify the same buffer: "+got)
			}
		case i%16 == 15:
			if got = Protect(func() string { return errClass(sig.Verify(&sb.kName, sb.buf)) }); got != "err:signer" {
				set("C18/Concurrent/shared-buffer-wrong-key", "a key of another owner, while other goroutines verify the same buffer: "+got)
			}
		default:
			t0 := uint32(time.Now().Unix())
			got = Protect(func() string { return errClass(sig.Verify(key, sb.buf)) })
			t1 := uint32(time.Now().Unix())
			if g == 0 {
				sb.verdict, sb.t0, sb.t1 = got, t0, t1
			}
			if got != "ok:" {
				set("C18/Verify/shared-buffer-rejected", "round "+Itoa(i)+": a valid message is rejected ("+got+") while other goroutines verify the same octets")
			}
		}
		sb.verifies.Add(1)
	}
}

// reader: compares the shared octets with the copy until the verifiers are done.
func (sb *sharedBuf) reader(g int, start <-chan struct{}, stop *atomic.Bool, wg *sync.WaitGroup) {
	defer wg.Done()
	f := sb.fails[g]
	<-start
	for n := 0; !stop.Load(); n++ {
		if !bytes.Equal(sb.buf, sb.snap) {
			if f.key == "" {
				f.key, f.desc = "C18/Verify/input-modified", "the message buffer differs from what was handed to SIG.Verify while Verify calls are running (check number "+Itoa(n)+")"
			}
			return
		}
		time.Sleep(50 * time.Microsecond)
	}
}

func oracleSharedBuffer(r *Rng, keys []keyPair, tier string) {
	t0 := time.Now()
	defer func() { st["wall_ms_shared_buffer"] = int(time.Since(t0).Milliseconds()) }()
	if runtime.GOMAXPROCS(0) < 4 {
		defer runtime.GOMAXPROCS(runtime.GOMAXPROCS(4))
	}
	now := uint32(time.Now().Unix())
	const verifiers = 6
	rounds := map[uint8]int{dns.ED25519: 320, dns.ECDSAP256SHA256: 160, dns.ECDSAP384SHA384: 24,
		dns.RSASHA256: 240, dns.RSASHA1: 240, dns.RSASHA512: 160}
	var bufs []*sharedBuf
	for ki, kp := range keys {
		// sizes: with the hash of the body taking a large and a small share of the call
		for _, nrec := range [][]int{{240, 0}, {3, 60}, {40, 250}, {0, 240}, {250, 5}, {12, 120}, {120, 2}}[ki%7] {
			m := genMsg(r, 2)
			m.Compress = (ki+nrec)%2 == 0
			for i := 0; i < nrec; i++ {
				m.Answer = append(m.Answer, &dns.TXT{Hdr: dns.RR_Header{Name: "shared" + Itoa(len(bufs)) + ".example.org.", Rrtype: dns.TypeTXT, Class: 1, Ttl: uint32(i)},
					Txt: []string{strings.Repeat(string(rune('a'+i%26)), 150+r.Intn(60))}})
			}
			s := newSig(kp, now-3000, now+3000)
			out, err := doSign(s, kp, m)
			if err != nil {
				continue // judged by oracleMessage
			}
			lone, used, _, _ := receive(out, s, kp.key)
			if lone != "ok:" {
				continue // judged by oracleMessage
			}
			sb := &sharedBuf{kp: kp, m: m, buf: out, snap: append([]byte(nil), out...), sig: used, rounds: rounds[kp.key.Algorithm]}
			if sigLen(kp) >= 512 {
				sb.rounds = min(sb.rounds, 120)
			}
			if tier == "thorough" {
				sb.rounds *= 5
			}
			sb.kOther = otherMaterial(kp)
			sb.kName = *kp.key
			sb.kName.Hdr.Name = "other." + kp.key.Hdr.Name
			for g := 0; g <= verifiers; g++ {
				sb.fails = append(sb.fails, new(sharedFail))
			}
			bufs = append(bufs, sb)
		}
	}
	start := make(chan struct{})
	var wg, rwg sync.WaitGroup
	var stop atomic.Bool
	for _, sb := range bufs {
		for g := 0; g < verifiers; g++ {
			wg.Add(1)
			go sb.verifier(g, start, &wg)
		}
		rwg.Add(1)
		go sb.reader(verifiers, start, &stop, &rwg)
	}
	close(start)
	wg.Wait()
	stop.Store(true)
	rwg.Wait()
	for _, sb := range bufs {
		st["shared_buffer_verifies_checked"] += int(sb.verifies.Load())
		in := c18in{Signed: Hx(sb.snap), Alg: sb.kp.name, Compress: sb.m.Compress, Len: len(sb.snap), KeyRR: sb.kp.key.String(),
			Detail: Itoa(verifiers) + " goroutines verify this one buffer " + Itoa(sb.rounds) + " times each, " + Itoa(len(bufs)) + " buffers at once, GOMAXPROCS " + Itoa(runtime.GOMAXPROCS(0))}
		if !bytes.Equal(sb.buf, sb.snap) {
			Viol("C18/Verify/input-modified", "after all SIG.Verify calls returned the message buffer differs from what was handed to them", in)
		}
		seen := map[string]bool{}
		for _, f := range sb.fails {
			if f.key != "" && !seen[f.key] {
				seen[f.key] = true
				Viol(f.key, f.desc, in)
			}
		}
		if len(sb.snap) < 12000 && sb.verdict != "" && sb.t0 == sb.t1 {
			emitVerifyResult(sb.snap, sb.sig, sb.kp, sb.kp.key, sb.verdict, sb.t0)
		}
	}
}
