"""Which properties MANIFEST.json claims, with the level text and technique."""
CLAIMED = {
    "C19": dict(
        text="Coq theorems for all printed names (any number of labels, any octets): CountLabel, Split, NextLabel, Fqdn, "
             "CanonicalName, IsFqdn agree with the wire label sequence; model of labels.go/dnsutil tied to /repo by "
             "vm_compute correspondence on bounded-exhaustive and random names each run; remaining helpers by "
             "correspondence and direct oracle",
        technique="machine-checked proof in Coq (induction over label lists, escape-parity automaton) + model/implementation correspondence by vm_compute"),
    "C03": dict(
        text="Coq theorems about an executable model of packDomainName/UnpackDomainName/IsDomainName; model tied to /repo "
             "by vm_compute correspondence (limits 63/255, all octets, all escape spellings, pointer chains) each run",
        technique="machine-checked proof in Coq (structural induction on presentation strings and label lists) + model/implementation correspondence by vm_compute"),
}
CLAIMED["C01"] = dict(
    text="Per-type field sequences regenerated from zmsg.go on every run and interpreted by a Coq model of the field "
         "codecs; Coq theorems over all layouts/values (see Props/C01.v); model tied to /repo by the translator plus "
         "vm_compute correspondence of pack octets, unpacked values and lengths for every registered type each run",
    technique="machine-checked proof in Coq over translator-regenerated layout tables + model/implementation correspondence by vm_compute")
CLAIMED["C09"] = dict(
    text="Coq theorems about an executable model of Msg.Truncate/truncateLoop/popEdns0 (section prefixes, OPT retained, TC "
         "iff dropped, no later section after a drop, fitting and TSIG messages untouched); the fit clause rests on C08; "
         "model tied to /repo by vm_compute correspondence at the exact packed length of every prefix +-1 each run",
    technique="machine-checked proof in Coq (case analysis over truncateLoop, induction over record lists) + model/implementation correspondence by vm_compute")
NOT_YET = {}
