(* Corr/C14.v — case runner for property C14: accept policy, serveDNS outcome,
   ServeMux routing, reply skeletons.  Renders the model's result in the same
   textual form as harness/c14/main.go prints the implementation's. *)
From Dns Require Import Model.Serve Model.Mux.
Open Scope N_scope.
Open Scope string_scope.

(* ---- small string helpers ---- *)
Fixpoint split_aux (c : ascii) (s : string) (cur : string -> string) : list string :=
  match s with
  | EmptyString => [cur EmptyString]
  | String a r =>
    if Ascii.eqb a c then cur EmptyString :: split_aux c r (fun x => x)
    else split_aux c r (fun x => cur (String a x))
  end.
(* split_on c "" = [] ; otherwise the fields between occurrences of c *)
Definition split_on (c : ascii) (s : string) : list string :=
  match s with EmptyString => [] | _ => split_aux c s (fun x => x) end.

Fixpoint drop_str (n : nat) (s : string) : string :=
  match n, s with
  | O, _ => s
  | S k, String _ r => drop_str k r
  | S _, EmptyString => EmptyString
  end.
Definition has_prefix (p s : string) : bool := String.prefix p s.

Definition comma : ascii := ","%char.
Definition colon : ascii := ":"%char.

(* ---- accept policy sweep ---- *)
Definition cvals : list N := [0; 1; 2; 3; 65535].
Definition action_letter (a : action) : string :=
  match a with MsgAccept => "A" | MsgReject => "R" | MsgIgnore => "I" | MsgRejectNotImplemented => "N" end.
Definition accept_sweep (bits : N) : string :=
  String.concat ""
    (flat_map (fun qd => flat_map (fun an => flat_map (fun ns => map (fun ar =>
       action_letter (accept_default (mkHeader 7 bits qd an ns ar))) cvals) cvals) cvals) cvals).

(* ---- header <-> convenient form ---- *)
Definition bn (b : bool) : string := if b then "1" else "0".
Definition nb (s : string) : bool := String.eqb s "1".
Definition show_mhdr (h : mhdr) : string :=
  join "," [dec (m_id h); bn (m_response h); dec (m_opcode h); bn (m_aa h); bn (m_tc h); bn (m_rd h);
            bn (m_ra h); bn (m_z h); bn (m_ad h); bn (m_cd h); dec (m_rcode h)].
Definition parse_mhdr (s : string) : mhdr :=
  let f := split_on comma s in
  let g i := nth i f "" in
  mkMhdr (undec (g 0%nat)) (nb (g 1%nat)) (undec (g 2%nat)) (nb (g 3%nat)) (nb (g 4%nat)) (nb (g 5%nat))
         (nb (g 6%nat)) (nb (g 7%nat)) (nb (g 8%nat)) (nb (g 9%nat)) (undec (g 10%nat)).

(* ---- serve ---- *)
Definition policy_of (s : string) : header -> action :=
  if String.eqb s "default" then accept_default
  else if String.eqb s "accept" then fun _ => MsgAccept
  else if String.eqb s "reject" then fun _ => MsgReject
  else if String.eqb s "ignore" then fun _ => MsgIgnore
  else fun _ => MsgRejectNotImplemented.

(* the unpack oracle as reported by the harness: ok:<digest> or err:<q>,<q>... *)
Definition unpack_of (s : string) : bytes -> unpack_result string :=
  if has_prefix "ok:" s then fun _ => UOk (drop_str 3 s)
  else fun _ => UErr (map unhex (split_on comma (drop_str 4 s))).

Definition show_event (e : event string) : string :=
  match e with
  | EvInvalid c _ => "inv:" +++ c
  | EvWrite b => "w:" +++ hex b
  | EvHandler r => "h:" +++ r
  end.
Definition show_events (es : list (event string)) : string :=
  match es with [] => "none" | _ => join ";" (map show_event es) end.

Definition run_serve (tr pol m unp : string) : string :=
  let t := if String.eqb tr "udp" then Udp else Tcp in
  show_events (serve (policy_of pol) (unpack_of unp) t (unhex m)).

(* ---- stream: several frames on one connection ---- *)
(* limit as Server.MaxTCPQueries: 0 = the default of 128, -1 = no limit (here:
   more frames than the stream can hold) *)
Definition limit_of (s : string) (stream : bytes) : nat :=
  if String.eqb s "0" then 128%nat
  else if String.eqb s "-1" then S (length stream)
  else N.to_nat (undec s).
Fixpoint serve_frames (pol : string) (fs : list bytes) (us : list string) : list (event string) :=
  match fs with
  | [] => []
  | f :: r => serve (policy_of pol) (unpack_of (hd "" us)) Tcp f ++ serve_frames pol r (tl us)
  end.
(* args: policy, limit, the octet stream, then the decoder outcome of each message *)
Definition run_stream (args : list string) : string :=
  let s := unhex (arg args 2) in
  show_events (serve_frames (arg args 0) (read_frames (limit_of (arg args 1) s) s) (skipn 3 args)).

(* ---- mux ---- *)
(* ops: comma separated, h:<pattern hex>:<id> or r:<pattern hex> *)
Fixpoint apply_ops (ops : list string) (z : mux N) : res (mux N) :=
  match ops with
  | [] => Ok z
  | o :: r =>
    let f := split_on colon o in
    let p := unhex (nth 1 f "") in
    do z' <- (if String.eqb (nth 0 f "") "h" then mux_handle z p (undec (nth 2 f "")) else mux_remove z p);
    apply_ops r z'
  end.

Definition show_match (r : res (option N)) : string :=
  match r with
  | Ok (Some h) => "some:" +++ dec h
  | Ok None => "none"
  | Panic => "panic"
  | _ => "outoffuel"
  end.
Definition run_mux (ops q t : string) : string :=
  match apply_ops (split_on comma ops) [] with
  | Ok z => show_match (mux_match z (unhex q) (undec t))
  | Panic => "panic"
  | _ => "outoffuel"
  end.

(* qs: comma separated <name hex>:<qtype> *)
Definition parse_qs (s : string) : list (bytes * N) :=
  map (fun x => let f := split_on colon x in (unhex (nth 0 f ""), undec (nth 1 f ""))) (split_on comma s).
Definition run_muxserve (ops qs : string) : string :=
  match apply_ops (split_on comma ops) [] with
  | Ok z =>
    match mux_serve z (parse_qs qs) with
    | Ok (ToHandler h) => "handler:" +++ dec h
    | Ok Refused => "refused"
    | Panic => "panic"
    | _ => "outoffuel"
    end
  | Panic => "panic"
  | _ => "outoffuel"
  end.

(* ---- skeletons ---- *)
Definition parse_ids (s : string) : list N := map undec (split_on comma s).
Definition show_smsg (m : smsg N N) : string :=
  show_mhdr (s_hdr m) +++ "|" +++ show_ns (s_question m) +++ "|" +++
  dec (lenN (s_answer m)) +++ "," +++ dec (lenN (s_ns m)) +++ "," +++ dec (lenN (s_extra m)).
Definition run_skel (kind dh dq rh rq : string) : string :=
  (* the receiver carries one record per section so that their survival is observable *)
  let d : smsg N N := mkSmsg (parse_mhdr dh) (parse_ids dq) [1] [2] [3] in
  let r : smsg N N := mkSmsg (parse_mhdr rh) (parse_ids rq) [] [] [] in
  if String.eqb kind "reply" then show_smsg (set_reply d r)
  else if String.eqb kind "fe" then show_smsg (set_rcode_format_error d r)
  else if String.eqb kind "refused" then show_smsg (handle_refused r)
  else if has_prefix "rcode:" kind then show_smsg (set_rcode d r (undec (drop_str 6 kind)))
  else "unknown-kind".

Definition run (fn : string) (args : list string) : string :=
  if String.eqb fn "accept" then accept_sweep (undec (arg args 0))
  else if String.eqb fn "sethdr" then show_mhdr (set_hdr (mkHeader (undec (arg args 0)) (undec (arg args 1)) 0 0 0 0))
  else if String.eqb fn "packbits" then dec (pack_bits (parse_mhdr (arg args 0)))
  else if String.eqb fn "serve" then run_serve (arg args 0) (arg args 1) (arg args 2) (arg args 3)
  else if String.eqb fn "stream" then run_stream args
  else if String.eqb fn "mux" then run_mux (arg args 0) (arg args 1) (arg args 2)
  else if String.eqb fn "muxserve" then run_muxserve (arg args 0) (arg args 1)
  else if String.eqb fn "skel" then run_skel (arg args 0) (arg args 1) (arg args 2) (arg args 3) (arg args 4)
  else "unknown-fn".
