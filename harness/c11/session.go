package main

// C11, sessions: the library entry points that verify TSIG on receive
// (Transfer.In -> inAxfr/inIxfr -> Transfer.ReadMsg, Transfer.ReadMsg called
// directly, Conn.ReadMsg, Client.ExchangeWithConn, Server -> TsigStatus) and
// the ones that sign on send (Transfer.WriteMsg, Conn.WriteMsg,
// response.WriteMsg, Transfer.Out) are driven over scripted in-memory
// connections (harness/netfake). The peer is the harness: it signs with an
// independent RFC 8945 implementation (refDigest + crypto/hmac) or with
// dns.TsigGenerate, as a chain (first envelope: request MAC + full variables,
// later envelopes: previous MAC + timers only), and then tampers with one
// envelope position at a time.
//
// Oracles (from the property text): an untampered chain of any length and
// split verifies; an envelope that is not the RFC 8945 HMAC for its position
// in the chain (TSIG removed, moved, followed by a record, MAC altered or
// computed with another secret / prior MAC / variable mode, other key name,
// stale time, envelope dropped / duplicated / reordered / injected / replayed
// from another session) is reported with an error and never delivered as
// verified; whatever is delivered as verified has exactly the content the key
// holder signed.

import (
	"bytes"
	"crypto/hmac"
	"encoding/base64"
	"encoding/binary"
	"encoding/hex"
	"errors"
	"net"
	"strings"
	"sync"
	"time"

	"github.com/miekg/dns"
	. "verif/harness/common"
	"verif/harness/netfake"
)

const sessWait = 3 * time.Minute // infrastructure watchdog, never an oracle
const longIO = 10 * time.Minute  // read/write deadlines handed to the library

// ---------------------------------------------------------------------------
// keys
// ---------------------------------------------------------------------------

// harnessProvider is a dns.TsigProvider built on crypto/hmac directly (the
// TsigProvider field of Transfer / Client / Server); it ignores the key name.
type harnessProvider struct{ secret []byte }

func algByName(n string) *algInfo {
	n = strings.ToLower(n)
	for i := range algs {
		if algs[i].name == n {
			return &algs[i]
		}
	}
	return nil
}

func (p harnessProvider) Generate(msg []byte, t *dns.TSIG) ([]byte, error) {
	a := algByName(t.Algorithm)
	if a == nil {
		return nil, dns.ErrKeyAlg
	}
	return macOf(a, p.secret, msg), nil
}

func (p harnessProvider) Verify(msg []byte, t *dns.TSIG) error {
	want, err := p.Generate(msg, t)
	if err != nil {
		return err
	}
	got, err := hex.DecodeString(t.MAC)
	if err != nil {
		return err
	}
	if !hmac.Equal(want, got) {
		return dns.ErrSig
	}
	return nil
}

type sessKeys struct {
	provider bool // receiver configured with TsigProvider instead of TsigSecret
	key      string
	b64      string
	secret   []byte
	other    string            // another key of the store, different secret (map store only)
	secrets  map[string]string // TsigSecret
	rs       *recvStore        // when set: what the receiver is configured with instead (stores.go)
}

func genSessKeys(r *Rng, provider bool) *sessKeys {
	k := &sessKeys{provider: provider}
	k.key = []string{"key.example.", "k.", "xfr-key.example.org."}[r.Intn(3)]
	k.b64 = genSecret(r)
	k.secret, _ = rawSecret(k.b64)
	if !provider {
		k.other = "other.example."
		k.secrets = map[string]string{k.key: k.b64, k.other: genSecret(r), "third.": genSecret(r)}
	}
	return k
}

// store is the receiver's key material in the form the model cases describe it.
func (k *sessKeys) store() keyStore {
	if k.rs != nil {
		if k.rs.prov != nil {
			return keyStore{single: true, secret: base64.StdEncoding.EncodeToString(k.rs.provSecret)}
		}
		return keyStore{secrets: k.rs.secrets}
	}
	if k.provider {
		return keyStore{single: true, secret: k.b64}
	}
	return keyStore{secrets: k.secrets}
}

func (k *sessKeys) tsigProvider() dns.TsigProvider {
	if k.provider {
		return harnessProvider{k.secret}
	}
	return nil
}

// ---------------------------------------------------------------------------
// independent signer and verifier
// ---------------------------------------------------------------------------

type signOpt struct {
	key    string
	alg    *algInfo
	secret []byte
	fudge  uint16
	ts     uint64
	rm     []byte
	timers bool
}

type tsigParts struct {
	name         []byte
	class        uint16
	ttl          uint32
	alg          []byte
	time         uint64
	fudge        uint16
	mac          []byte
	origid, errc uint16
	other        []byte
}

func (p tsigParts) wire() []byte {
	rd := rawTsigRdata(p.alg, p.time, p.fudge, p.mac, p.origid, p.errc, p.other)
	return rawRR(p.name, dns.TypeTSIG, p.class, p.ttl, len(rd), rd)
}

func partsOf(t *refTsig) tsigParts {
	return tsigParts{name: wireOf(t.rr.name), class: t.rr.class, ttl: t.rr.ttl, alg: wireOf(t.alg), time: t.time, fudge: t.fudge,
		mac: append([]byte(nil), t.mac...), origid: t.origid, errc: t.errc, other: append([]byte(nil), t.other...)}
}

func clone(b []byte) []byte { return append([]byte(nil), b...) }

func addCount(b []byte, off, d int) {
	binary.BigEndian.PutUint16(b[off:], uint16(int(binary.BigEndian.Uint16(b[off:]))+d))
}

// withTsig replaces the trailing TSIG record of env.
func withTsig(env []byte, t *refTsig, p tsigParts) []byte {
	return append(clone(env[:t.rr.start]), p.wire()...)
}

// refSign appends a TSIG record to the packed message (RFC 8945 4.2, 4.3, 5.3.1).
func refSign(packed []byte, o signOpt) (signed, mac []byte) {
	keyLabels, _, _ := refName(nameWire(o.key), 0)
	algLabels, _, _ := refName(nameWire(o.alg.name), 0)
	t := &refTsig{rr: refRR{name: keyLabels, class: dns.ClassANY}, alg: algLabels, time: o.ts, fudge: o.fudge,
		origid: binary.BigEndian.Uint16(packed), stripped: packed}
	mac = macOf(o.alg, o.secret, refDigest(t, o.rm, o.timers))
	p := partsOf(t)
	p.mac = mac
	signed = append(clone(packed), p.wire()...)
	addCount(signed, 10, 1)
	return signed, mac
}

// refVerify: the RFC 8945 acceptance condition for one message, computed
// without tsig.go: TSIG last, key known, HMAC-SHA algorithm, MAC equal, time
// inside the fudge window.
func refVerify(env []byte, k *sessKeys, rm []byte, timers bool, now uint64) bool {
	t, ok := refFindTsig(env)
	if !ok {
		return false
	}
	a := algByLabels(t.alg)
	if a == nil {
		return false
	}
	secret := k.secret
	secrets := k.secrets
	byName := !k.provider
	if k.rs != nil {
		if k.rs.provErr {
			return false
		}
		secret, secrets, byName = k.rs.provSecret, k.rs.secrets, k.rs.prov == nil
	}
	if byName {
		b64, ok := secrets[present(t.rr.name)]
		if !ok {
			return false
		}
		if secret, ok = rawSecret(b64); !ok {
			return false
		}
	}
	if !hmac.Equal(macOf(a, secret, refDigest(t, rm, timers)), t.mac) {
		return false
	}
	d := int64(now) - int64(t.time)
	if d < 0 {
		d = -d
	}
	return d <= int64(t.fudge)
}

func macOfEnv(env []byte) []byte {
	if t, ok := refFindTsig(env); ok {
		return clone(t.mac)
	}
	return nil
}

// ---------------------------------------------------------------------------
// chains
// ---------------------------------------------------------------------------

const (
	polXfr       = iota // first: request MAC + full variables; then previous MAC + timers only (Transfer.In)
	polLoop             // previous MAC + full variables (Transfer.ReadMsg called directly: the mode flag is only set by In)
	polStateless        // request MAC + full variables for every message (Conn.ReadMsg, Client, Server)
)

type chain struct {
	k       *sessKeys
	alg     *algInfo
	fudge   uint16
	now     uint64
	libSign bool
	pol     int
	msgs    []*dns.Msg
	packed  [][]byte
	envs    [][]byte
	macs    [][]byte
	rm0     []byte
}

func (c *chain) timers(i int) bool { return c.pol == polXfr && i > 0 }

func (c *chain) prior(i int) []byte {
	if i == 0 || c.pol == polStateless {
		return c.rm0
	}
	return c.macs[i-1]
}

func (c *chain) opt(i int) signOpt {
	return signOpt{key: c.k.key, alg: c.alg, secret: c.k.secret, fudge: c.fudge, ts: c.now, rm: c.prior(i), timers: c.timers(i)}
}

func (c *chain) signOne(i int, o signOpt) ([]byte, []byte) {
	if c.libSign {
		mc := c.msgs[i].Copy()
		mc.SetTsig(o.key, o.alg.name, o.fudge, int64(o.ts))
		out, mac, err := dns.TsigGenerate(mc, base64.StdEncoding.EncodeToString(o.secret), Hx(o.rm), o.timers)
		if err == nil {
			mb, _ := hex.DecodeString(mac)
			return out, mb
		}
	}
	return refSign(c.packed[i], o)
}

// build signs every message of the chain over the request MAC rm0.
func (c *chain) build(rm0 []byte) bool {
	c.rm0 = rm0
	c.packed, c.envs, c.macs = nil, nil, nil
	for i, m := range c.msgs {
		p, err := m.Pack()
		if err != nil {
			return false
		}
		c.packed = append(c.packed, p)
		c.envs = append(c.envs, nil)
		c.macs = append(c.macs, nil)
		c.envs[i], c.macs[i] = c.signOne(i, c.opt(i))
	}
	return true
}

func (c *chain) rebuilt(rm0 []byte) *chain {
	c2 := *c
	c2.build(rm0)
	return &c2
}

// content of a message as the receiver's caller sees it (TSIG excluded).
func contentOf(m *dns.Msg, answersOnly bool) string {
	var sb strings.Builder
	sec := func(tag string, rrs []dns.RR) {
		sb.WriteString(tag)
		for _, rr := range rrs {
			if rr.Header().Rrtype == dns.TypeTSIG {
				continue
			}
			sb.WriteString(rr.String())
			sb.WriteByte('\n')
		}
	}
	sec("AN\n", m.Answer)
	if !answersOnly {
		sb.WriteString(m.MsgHdr.String())
		for _, q := range m.Question {
			sb.WriteString(q.String())
		}
		sec("NS\n", m.Ns)
		sec("AR\n", m.Extra)
	}
	return sb.String()
}

func wireContent(b []byte, answersOnly bool) (string, bool) {
	var m dns.Msg
	if m.Unpack(b) != nil {
		return "", false
	}
	m.Id = 0
	return contentOf(&m, answersOnly), true
}

func rrsContent(rrs []dns.RR) string { return contentOf(&dns.Msg{Answer: rrs}, true) }

// forge returns a copy of m whose answer data differs (types and order kept,
// so the transfer logic sees the same shape).
func forge(m *dns.Msg) *dns.Msg {
	f := m.Copy()
	if len(f.Answer) == 0 {
		f.Answer = append(f.Answer, &dns.A{Hdr: dns.RR_Header{Name: "forged.example.", Rrtype: dns.TypeA, Class: dns.ClassINET, Ttl: 1}, A: []byte{203, 0, 113, 66}})
		return f
	}
	for _, rr := range f.Answer {
		if a, ok := rr.(*dns.A); ok {
			a.A = []byte{203, 0, 113, 66}
			a.Hdr.Ttl ^= 1
			return f
		}
	}
	f.Answer[len(f.Answer)/2].Header().Ttl ^= 1
	return f
}

// ---------------------------------------------------------------------------
// tampering
// ---------------------------------------------------------------------------

type tamperRes struct {
	envs   [][]byte
	failAt int  // index in envs of the first envelope that is not the signer's for that position (len(envs): the stream ends early)
	must   bool // the property demands an error at failAt (false: only the content oracle applies)
}

type tamper struct {
	name  string
	chain bool // acts on the order of envelopes (not applicable to stateless receivers)
	f     func(c *chain, k int, r *Rng) (tamperRes, bool)
}

func cloneEnvs(e [][]byte) [][]byte { return append([][]byte(nil), e...) }

func perEnv(f func(c *chain, k int, t *refTsig, r *Rng) ([]byte, bool, bool)) func(c *chain, k int, r *Rng) (tamperRes, bool) {
	return func(c *chain, k int, r *Rng) (tamperRes, bool) {
		t, ok := refFindTsig(c.envs[k])
		if !ok {
			return tamperRes{}, false
		}
		mut, must, ok := f(c, k, t, r)
		if !ok || bytes.Equal(mut, c.envs[k]) {
			return tamperRes{}, false
		}
		es := cloneEnvs(c.envs)
		es[k] = mut
		return tamperRes{es, k, must}, true
	}
}

func resign(f func(c *chain, k int, o *signOpt, r *Rng) bool) func(c *chain, k int, r *Rng) (tamperRes, bool) {
	return perEnv(func(c *chain, k int, _ *refTsig, r *Rng) ([]byte, bool, bool) {
		o := c.opt(k)
		if !f(c, k, &o, r) {
			return nil, false, false
		}
		out, _ := refSign(c.packed[k], o)
		return out, true, true
	})
}

func editTsig(f func(c *chain, k int, p *tsigParts, r *Rng) (must, ok bool)) func(c *chain, k int, r *Rng) (tamperRes, bool) {
	return perEnv(func(c *chain, k int, t *refTsig, r *Rng) ([]byte, bool, bool) {
		p := partsOf(t)
		must, ok := f(c, k, &p, r)
		if !ok {
			return nil, false, false
		}
		return withTsig(c.envs[k], t, p), must, true
	})
}

var extraRR = rawRR([]byte{1, 'x', 7, 'e', 'x', 'a', 'm', 'p', 'l', 'e', 0}, dns.TypeA, dns.ClassINET, 60, 4, []byte{192, 0, 2, 1})

var tampers = []tamper{
	// --- the TSIG record is not where RFC 8945 5.2 wants it
	{"strip-tsig", false, perEnv(func(c *chain, k int, t *refTsig, _ *Rng) ([]byte, bool, bool) {
		b := clone(c.envs[k][:t.rr.start])
		addCount(b, 10, -1)
		return b, true, true
	})},
	{"strip-tsig-forged-content", false, perEnv(func(c *chain, k int, _ *refTsig, _ *Rng) ([]byte, bool, bool) {
		b, err := forge(c.msgs[k]).Pack()
		return b, true, err == nil
	})},
	{"strip-tsig-arcount-kept", false, perEnv(func(c *chain, k int, t *refTsig, _ *Rng) ([]byte, bool, bool) {
		return clone(c.envs[k][:t.rr.start]), true, true
	})},
	{"forged-content-tsig-kept", false, perEnv(func(c *chain, k int, t *refTsig, _ *Rng) ([]byte, bool, bool) {
		b, err := forge(c.msgs[k]).Pack()
		if err != nil {
			return nil, false, false
		}
		b = append(b, c.envs[k][t.rr.start:]...)
		addCount(b, 10, 1)
		return b, true, true
	})},
	{"tsig-moved", false, perEnv(func(c *chain, k int, t *refTsig, _ *Rng) ([]byte, bool, bool) {
		e := c.envs[k]
		counts, rrs, _, ok := refParse(e)
		if !ok {
			return nil, false, false
		}
		ts := e[t.rr.start:t.rr.end]
		if counts[3] >= 2 { // in front of the additional record before it
			prev := rrs[len(rrs)-2]
			b := append(clone(e[:prev.start]), ts...)
			return append(b, e[prev.start:prev.end]...), true, true
		}
		if counts[1] == 0 {
			return nil, false, false
		}
		// to the end of the answer section
		aEnd := rrs[counts[1]-1].end
		b := append(clone(e[:aEnd]), ts...)
		b = append(b, e[aEnd:t.rr.start]...)
		addCount(b, 6, 1)
		addCount(b, 10, -1)
		return b, true, true
	})},
	{"record-after-tsig", false, perEnv(func(c *chain, k int, _ *refTsig, _ *Rng) ([]byte, bool, bool) {
		b := append(clone(c.envs[k]), extraRR...)
		addCount(b, 10, 1)
		return b, true, true
	})},
	{"octets-after-tsig", false, perEnv(func(c *chain, k int, _ *refTsig, _ *Rng) ([]byte, bool, bool) {
		// ARCOUNT unchanged: nothing reads these octets, the delivered message is the signed one
		return append(clone(c.envs[k]), extraRR...), false, true
	})},
	// --- MAC
	{"mac-bit", false, editTsig(func(_ *chain, _ int, p *tsigParts, r *Rng) (bool, bool) {
		p.mac[r.Intn(len(p.mac))] ^= 1 << r.Intn(8)
		return true, true
	})},
	{"mac-truncated", false, editTsig(func(_ *chain, _ int, p *tsigParts, r *Rng) (bool, bool) {
		p.mac = p.mac[:len(p.mac)-1-r.Intn(len(p.mac)/2)]
		return true, true
	})},
	{"mac-emptied", false, editTsig(func(_ *chain, _ int, p *tsigParts, _ *Rng) (bool, bool) {
		p.mac = nil
		return true, true
	})},
	{"mac-of-previous", false, editTsig(func(c *chain, k int, p *tsigParts, r *Rng) (bool, bool) {
		p.mac = clone(c.prior(k))
		if len(p.mac) == 0 {
			p.mac = r.Bytes(32)
		}
		return true, true
	})},
	{"signed-other-secret", false, resign(func(_ *chain, _ int, o *signOpt, r *Rng) bool {
		o.secret = r.Bytes(len(o.secret) + 1)
		return true
	})},
	{"signed-without-prior-mac", false, resign(func(_ *chain, _ int, o *signOpt, r *Rng) bool {
		if len(o.rm) > 0 {
			o.rm = nil
		} else {
			o.rm = r.Bytes(32)
		}
		return true
	})},
	{"signed-wrong-prior-mac", false, resign(func(c *chain, k int, o *signOpt, r *Rng) bool {
		var w []byte
		switch {
		case k >= 2:
			w = c.macs[k-2]
		case k == 1:
			w = c.rm0
		}
		if len(w) == 0 || bytes.Equal(w, o.rm) {
			w = r.Bytes(max(len(o.rm), 20))
		}
		o.rm = w
		return true
	})},
	{"variables-mode-swapped", false, resign(func(_ *chain, _ int, o *signOpt, _ *Rng) bool {
		o.timers = !o.timers
		return true
	})},
	{"signed-stale", false, resign(func(_ *chain, _ int, o *signOpt, _ *Rng) bool {
		o.ts -= uint64(o.fudge) + 120
		return true
	})},
	{"signed-postdated", false, resign(func(_ *chain, _ int, o *signOpt, _ *Rng) bool {
		o.ts += uint64(o.fudge) + 7200
		return true
	})},
	// signing time off by k*2^32 +- d seconds, d <= fudge: the upper 16 bits of the 48-bit field in use
	{"signed-time-high-bits", false, resign(func(_ *chain, _ int, o *signOpt, r *Rng) bool {
		o.ts += uint64(1+r.Intn(65000)) << 32
		d := uint64(r.Intn(int(o.fudge) + 1))
		if r.Intn(2) == 0 && d < o.ts {
			o.ts -= d
		} else {
			o.ts += d
		}
		return o.ts < 1<<48
	})},
	// --- fields of the TSIG record
	{"key-renamed-absent", false, editTsig(func(c *chain, k int, p *tsigParts, _ *Rng) (bool, bool) {
		p.name = nameWire("absent.example.")
		// with timers only the name is not in the digest (RFC 8945 5.3.1): only a name-indexed store notices
		return !c.timers(k) || !c.k.provider, true
	})},
	{"key-renamed-other", false, editTsig(func(c *chain, _ int, p *tsigParts, _ *Rng) (bool, bool) {
		if c.k.provider {
			return false, false
		}
		p.name = nameWire(c.k.other)
		return true, true
	})},
	{"alg-renamed", false, editTsig(func(c *chain, _ int, p *tsigParts, r *Rng) (bool, bool) {
		j := 0
		for i := range algs {
			if algs[i].name == c.alg.name {
				j = i
			}
		}
		p.alg = nameWire(algs[(j+1+r.Intn(len(algs)-1))%len(algs)].name)
		return true, true
	})},
	{"time-field", false, editTsig(func(_ *chain, _ int, p *tsigParts, _ *Rng) (bool, bool) { p.time++; return true, true })},
	{"fudge-field", false, editTsig(func(_ *chain, _ int, p *tsigParts, _ *Rng) (bool, bool) { p.fudge++; return true, true })},
	{"origid-field", false, editTsig(func(_ *chain, _ int, p *tsigParts, _ *Rng) (bool, bool) { p.origid ^= 1; return true, true })},
	{"body-bit", false, perEnv(func(c *chain, k int, _ *refTsig, _ *Rng) ([]byte, bool, bool) {
		counts, rrs, _, ok := refParse(c.envs[k])
		if !ok || counts[1] == 0 {
			return nil, false, false
		}
		b := clone(c.envs[k])
		b[rrs[0].rdStart-3] ^= 1 // low bit of the TTL of the first answer record
		return b, true, true
	})},
	// --- order of envelopes
	{"envelope-dropped", true, func(c *chain, k int, _ *Rng) (tamperRes, bool) {
		es := append(cloneEnvs(c.envs[:k]), c.envs[k+1:]...)
		return tamperRes{es, k, true}, true
	}},
	{"envelope-duplicated", true, func(c *chain, k int, _ *Rng) (tamperRes, bool) {
		es := append(cloneEnvs(c.envs[:k+1]), c.envs[k:]...)
		return tamperRes{es, k + 1, true}, true
	}},
	{"envelopes-reordered", true, func(c *chain, k int, _ *Rng) (tamperRes, bool) {
		if k+1 >= len(c.envs) {
			return tamperRes{}, false
		}
		es := cloneEnvs(c.envs)
		es[k], es[k+1] = es[k+1], es[k]
		return tamperRes{es, k, true}, true
	}},
	{"unsigned-envelope-injected", true, func(c *chain, k int, _ *Rng) (tamperRes, bool) {
		b, err := forge(c.msgs[k]).Pack()
		if err != nil {
			return tamperRes{}, false
		}
		es := append(cloneEnvs(c.envs[:k]), b)
		es = append(es, c.envs[k:]...)
		return tamperRes{es, k, true}, true
	}},
	{"envelope-of-other-session", false, func(c *chain, k int, r *Rng) (tamperRes, bool) {
		rm := r.Bytes(32)
		if len(c.rm0) > 0 && r.Bool() {
			rm = nil
		}
		c2 := c.rebuilt(rm)
		if bytes.Equal(c2.envs[k], c.envs[k]) {
			return tamperRes{}, false
		}
		es := cloneEnvs(c.envs)
		es[k] = c2.envs[k]
		return tamperRes{es, k, true}, true
	}},
}

func posClass(k, n int) string {
	switch {
	case n == 1:
		return "only"
	case k == 0:
		return "first"
	case k >= n-1:
		return "last"
	}
	return "middle"
}

// ---------------------------------------------------------------------------
// scenarios
// ---------------------------------------------------------------------------

type scenario struct {
	kind      string // axfr | ixfr | loop | conn | client | connudp | clientudp
	k         *sessKeys
	alg       *algInfo
	fudge     uint16
	now       uint64
	libSign   bool
	signQuery bool
	msgs      []*dns.Msg
	qid       uint16
	serial    uint32
	segSeed   uint64
	msgKind   string // stores.go: what the peer sends ("" = signed with its key)
	qExtra    []dns.RR // counts.go: additional records of the request (in front of the TSIG)
}

const xfrZone = "xfr.example."

func soaRR(serial uint32) dns.RR {
	return &dns.SOA{Hdr: dns.RR_Header{Name: xfrZone, Rrtype: dns.TypeSOA, Class: dns.ClassINET, Ttl: 3600}, Ns: "ns." + xfrZone, Mbox: "root." + xfrZone,
		Serial: serial, Refresh: 7200, Retry: 600, Expire: 86400, Minttl: 60}
}

func bodyRRs(r *Rng, n int) []dns.RR {
	var rrs []dns.RR
	for i := 0; i < n; i++ {
		rrs = append(rrs, genRR(r, true))
	}
	return rrs
}

// splitStream cuts the record stream into n non-empty envelopes at random points.
func splitStream(r *Rng, stream []dns.RR, n int) [][]dns.RR {
	if n > len(stream) {
		n = len(stream)
	}
	cut := map[int]bool{}
	for len(cut) < n-1 {
		cut[1+r.Intn(len(stream)-1)] = true
	}
	var out [][]dns.RR
	start := 0
	for i := 1; i <= len(stream); i++ {
		if i == len(stream) || cut[i] {
			out = append(out, stream[start:i])
			start = i
		}
	}
	return out
}

func (s *scenario) query() *dns.Msg {
	q := new(dns.Msg)
	switch s.kind {
	case "axfr", "loop":
		q.SetAxfr(xfrZone)
	case "ixfr":
		q.SetIxfr(xfrZone, s.serial-2, "ns."+xfrZone, "root."+xfrZone)
	default:
		q.SetQuestion("www."+xfrZone, dns.TypeA)
	}
	q.Id = s.qid
	for _, rr := range s.qExtra {
		q.Extra = append(q.Extra, dns.Copy(rr))
	}
	if s.signQuery {
		q.SetTsig(s.k.key, s.alg.name, s.fudge, int64(s.now))
	}
	return q
}

// genScenario builds the unsigned envelope messages of one exchange of n messages.
func genScenario(r *Rng, kind string, n int, provider bool) *scenario {
	s := &scenario{kind: kind, k: genSessKeys(r, provider), alg: &algs[r.Intn(len(algs))], now: uint64(time.Now().Unix()),
		libSign: r.Intn(3) == 0, signQuery: r.Intn(6) != 0, qid: uint16(r.Next()), serial: 100 + uint32(r.Intn(1000)), segSeed: r.Next()}
	s.fudge = []uint16{300, 600, 3600, 65535}[r.Intn(4)]
	var groups [][]dns.RR
	switch kind {
	case "axfr", "loop":
		stream := append([]dns.RR{soaRR(s.serial)}, bodyRRs(r, n-1+r.Intn(6))...)
		stream = append(stream, soaRR(s.serial))
		groups = splitStream(r, stream, n)
	case "ixfr":
		var stream []dns.RR
		if r.Intn(4) == 0 { // AXFR-style answer
			stream = append([]dns.RR{soaRR(s.serial)}, bodyRRs(r, n-1+r.Intn(5))...)
		} else {
			stream = append([]dns.RR{soaRR(s.serial), soaRR(s.serial - 1)}, bodyRRs(r, n/2+r.Intn(3))...)
			stream = append(stream, soaRR(s.serial))
			stream = append(stream, bodyRRs(r, (n+1)/2+r.Intn(3))...)
		}
		stream = append(stream, soaRR(s.serial))
		groups = splitStream(r, stream, n)
	default:
		for i := 0; i < n; i++ {
			groups = append(groups, bodyRRs(r, 1+r.Intn(3)))
		}
	}
	q := s.query()
	for i, g := range groups {
		m := new(dns.Msg)
		m.SetReply(q)
		m.Extra = nil
		m.Authoritative = true
		m.Compress = r.Bool()
		if i > 0 && r.Intn(3) == 0 {
			m.Question = nil // later envelopes may omit the question
		}
		m.Answer = g
		if r.Intn(3) == 0 {
			m.Extra = append(m.Extra, genRR(r, true))
		}
		s.msgs = append(s.msgs, m)
	}
	return s
}

func (s *scenario) pol() int {
	switch s.kind {
	case "axfr", "ixfr":
		return polXfr
	case "loop":
		return polLoop
	}
	return polStateless
}

func (s *scenario) chain(rm0 []byte) *chain {
	c := &chain{k: s.k, alg: s.alg, fudge: s.fudge, now: s.now, libSign: s.libSign, pol: s.pol(), msgs: s.msgs}
	if s.msgKind == "unknown-key" {
		k2 := *s.k
		k2.key = unknownKeyName
		c.k = &k2
	}
	if !c.build(rm0) {
		return nil
	}
	return c
}

func frames(envs [][]byte) []byte {
	var b []byte
	for _, e := range envs {
		b = binary.BigEndian.AppendUint16(b, uint16(len(e)))
		b = append(b, e...)
	}
	return b
}

// segment cuts the octet stream into read chunks (whole, per frame, or at random points).
func segment(seed uint64, stream []byte) [][]byte {
	r := &Rng{S: seed}
	if len(stream) < 4 || r.Intn(3) == 0 {
		return [][]byte{stream}
	}
	var out [][]byte
	for len(stream) > 0 {
		n := 1 + r.Intn(len(stream))
		if r.Bool() && n > 700 {
			n = 1 + r.Intn(700)
		}
		out = append(out, stream[:n])
		stream = stream[n:]
	}
	return out
}

// ---------------------------------------------------------------------------
// running one exchange through a receiving entry point
// ---------------------------------------------------------------------------

type delivered struct {
	err      error
	content  string // what was handed to the caller
	hasTsig  bool   // the delivered message ends in a TSIG (always true for Transfer.In: it verifies every message)
	verified bool   // reported as verified: no error (and, where the API shows it, a TSIG present)
}

type sessObs struct {
	c       *chain
	tr      tamperRes
	applied bool
	items   []delivered
	query   []byte // what the library wrote as its request
	infra   string // non-empty: the test infrastructure gave up (not an oracle)
	setup   error
}

type sessIn struct {
	Entry    string   `json:"entry"`
	Tamper   string   `json:"tamper"`
	Position int      `json:"position"`
	Of       int      `json:"envelopes"`
	Key      string   `json:"key"`
	Secret   string   `json:"secret_b64"`
	Provider bool     `json:"tsig_provider"`
	Alg      string   `json:"alg"`
	Fudge    uint16   `json:"fudge"`
	Signed   uint64   `json:"time_signed"`
	ReqMAC   string   `json:"request_mac"`
	Query    string   `json:"query_hex,omitempty"`
	Sent     []string `json:"envelopes_hex"`
	Got      []string `json:"delivered"`
	Detail   string   `json:"detail,omitempty"`
}

func (s *scenario) input(o *sessObs, tname string, k int) sessIn {
	in := sessIn{Entry: s.kind, Tamper: tname, Position: k, Of: len(s.msgs), Key: s.k.key, Secret: s.k.b64, Provider: s.k.provider,
		Alg: s.alg.name, Fudge: s.fudge, Signed: s.now, Query: Hx(o.query)}
	if o.c != nil {
		in.ReqMAC = Hx(o.c.rm0)
	}
	for _, e := range o.tr.envs {
		in.Sent = append(in.Sent, Hx(e))
	}
	for _, d := range o.items {
		g := "ok"
		if d.err != nil {
			g = "error: " + d.err.Error()
		} else if !d.verified {
			g = "no error, no TSIG in the delivered message"
		}
		in.Got = append(in.Got, g)
	}
	return in
}

// script prepares the peer's answer once the library has written its request:
// sign the chain over the request's MAC, apply the tampering, return the envelopes.
func (s *scenario) script(o *sessObs, written []byte, tm *tamper, k int, salt uint64) [][]byte {
	o.query = written
	var rm0 []byte
	if t, ok := refFindTsig(written); ok {
		rm0 = clone(t.mac)
	}
	o.c = s.chain(rm0)
	if o.c == nil {
		return nil
	}
	if tm == nil {
		o.tr, o.applied = tamperRes{messagesOfKind(s.msgKind, o.c), -1, false}, true
		return o.tr.envs
	}
	o.tr, o.applied = tm.f(o.c, k, &Rng{S: salt})
	if !o.applied {
		return nil
	}
	return o.tr.envs
}

func (s *scenario) configure(secret *map[string]string, prov *dns.TsigProvider) {
	s.k.configure(secret, prov)
}

// configure sets the TsigSecret / TsigProvider fields of a receiver.
func (k *sessKeys) configure(secret *map[string]string, prov *dns.TsigProvider) {
	switch {
	case k.rs != nil:
		*secret = k.rs.secrets
		if k.rs.prov != nil {
			*prov = k.rs.prov
		}
	case k.provider:
		*prov = k.tsigProvider()
	default:
		*secret = k.secrets
	}
}

// runStream drives Transfer.In, a Transfer.ReadMsg loop, a Conn.ReadMsg loop or
// Client.ExchangeWithConn over a scripted stream connection.
func (s *scenario) runStream(tm *tamper, k int, salt uint64) *sessObs {
	o := &sessObs{}
	fc := netfake.NewConn(nil)
	fc.HoldOpen = true
	fired := false
	fc.OnWrite = func([]byte) {
		if fired {
			return
		}
		fired = true
		w := fc.Written()
		if len(w) < 2 {
			fc.Finish()
			return
		}
		envs := s.script(o, clone(w[2:]), tm, k, salt)
		if len(envs) > 0 {
			fc.Feed(segment(s.segSeed, frames(envs))...)
		}
		fc.Finish()
	}
	q := s.query()
	switch s.kind {
	case "axfr", "ixfr":
		t := &dns.Transfer{Conn: &dns.Conn{Conn: fc}, ReadTimeout: longIO, WriteTimeout: longIO}
		s.configure(&t.TsigSecret, &t.TsigProvider)
		ch, err := t.In(q, "fake:53")
		if err != nil {
			o.setup = err
			return o
		}
		wd := time.NewTimer(sessWait)
		defer wd.Stop()
		for {
			select {
			case e, ok := <-ch:
				if !ok {
					return o
				}
				o.items = append(o.items, delivered{err: e.Error, content: rrsContent(e.RR), hasTsig: true, verified: e.Error == nil})
			case <-wd.C:
				o.infra = "Transfer.In did not finish"
				return o
			}
		}
	case "loop":
		t := &dns.Transfer{Conn: &dns.Conn{Conn: fc}}
		s.configure(&t.TsigSecret, &t.TsigProvider)
		if err := t.WriteMsg(q); err != nil {
			o.setup = err
			return o
		}
		for i := 0; i < len(o.tr.envs); i++ {
			m, err := t.ReadMsg()
			d := delivered{err: err, hasTsig: true, verified: err == nil}
			if m != nil {
				m.Id = 0
				d.content = contentOf(m, false)
			}
			o.items = append(o.items, d)
		}
	case "conn":
		co := &dns.Conn{Conn: fc}
		s.configure(&co.TsigSecret, &co.TsigProvider)
		if err := co.WriteMsg(q); err != nil {
			o.setup = err
			return o
		}
		for i := 0; i < len(o.tr.envs); i++ {
			o.items = append(o.items, connItem(co.ReadMsg()))
		}
	case "client":
		cl := &dns.Client{Net: "tcp", Timeout: longIO}
		s.configure(&cl.TsigSecret, &cl.TsigProvider)
		m, _, err := cl.ExchangeWithConn(q, &dns.Conn{Conn: fc})
		if !fired {
			o.setup = err
			return o
		}
		o.items = append(o.items, connItem(m, err))
	}
	return o
}

func connItem(m *dns.Msg, err error) delivered {
	d := delivered{err: err}
	if m != nil {
		d.hasTsig = m.IsTsig() != nil
		id := m.Id
		m.Id = 0
		d.content = contentOf(m, false)
		m.Id = id
	}
	d.verified = err == nil && d.hasTsig
	return d
}

// runDgram drives Conn.ReadMsg / Client.ExchangeWithConn over a scripted datagram socket.
func (s *scenario) runDgram(tm *tamper, k int, salt uint64) *sessObs {
	o := &sessObs{}
	dc := netfake.NewDgramConn(nil)
	// a read beyond the scripted datagrams fails at once (no waiting for a deadline)
	finished := make(chan struct{})
	defer close(finished)
	armed := make(chan struct{})
	go func() {
		select {
		case <-armed:
		case <-finished:
			return
		}
		select {
		case <-dc.Drained:
			dc.Close()
		case <-finished:
		}
	}()
	fired := false
	dc.OnWrite = func(_ net.Addr, b []byte) {
		if fired {
			return
		}
		fired = true
		for _, e := range s.script(o, clone(b), tm, k, salt) {
			dc.Push(e, nil)
		}
		close(armed)
	}
	q := s.query()
	switch s.kind {
	case "connudp":
		co := &dns.Conn{Conn: dc, UDPSize: 65535}
		s.configure(&co.TsigSecret, &co.TsigProvider)
		co.SetReadDeadline(time.Now().Add(longIO))
		if err := co.WriteMsg(q); err != nil {
			o.setup = err
			return o
		}
		for i := 0; i < len(o.tr.envs); i++ {
			o.items = append(o.items, connItem(co.ReadMsg()))
		}
	case "clientudp":
		cl := &dns.Client{Timeout: longIO, UDPSize: 65535}
		s.configure(&cl.TsigSecret, &cl.TsigProvider)
		m, _, err := cl.ExchangeWithConn(q, &dns.Conn{Conn: dc})
		if !fired {
			o.setup = err
			return o
		}
		o.items = append(o.items, connItem(m, err))
	}
	dc.Close()
	return o
}

func (s *scenario) run(tm *tamper, k int, salt uint64) *sessObs {
	var o *sessObs
	res := Protect(func() string {
		if strings.HasSuffix(s.kind, "udp") {
			o = s.runDgram(tm, k, salt)
		} else {
			o = s.runStream(tm, k, salt)
		}
		return ""
	})
	if res == "panic" {
		if o == nil {
			o = &sessObs{}
		}
		o.items = append(o.items, delivered{err: errors.New("panic")})
		o.setup = errors.New("panic")
	}
	return o
}

// ---------------------------------------------------------------------------
// oracles on one run
// ---------------------------------------------------------------------------

var entryName = map[string]string{"axfr": "Transfer", "ixfr": "Transfer", "loop": "Transfer", "conn": "Conn", "connudp": "Conn",
	"client": "Client", "clientudp": "Client"}

func (s *scenario) answersOnly() bool { return s.pol() == polXfr }

// legit is the set of contents the key holder signed in this session.
func (s *scenario) legit(c *chain) (byPos []string, set map[string]bool) {
	set = map[string]bool{}
	for _, e := range c.envs {
		ct, _ := wireContent(e, s.answersOnly())
		byPos = append(byPos, ct)
		set[ct] = true
	}
	return
}

func (s *scenario) check(o *sessObs, tm *tamper, k int) {
	tname := "none"
	if tm != nil {
		tname = tm.name
	}
	ent := entryName[s.kind]
	if o.setup != nil || o.c == nil || !o.applied {
		if o.setup != nil {
			st["sess_setup_failed"]++
			if tm == nil {
				Viol("C11/"+ent+"/request", "the library could not send its request: "+o.setup.Error(), s.input(o, tname, k))
			}
		} else {
			st["sess_tamper_not_applicable"]++
		}
		return
	}
	if o.infra != "" {
		st["sess_infra_timeout"]++
		return
	}
	n := len(s.msgs)
	in := func(detail string) sessIn {
		i := s.input(o, tname, k)
		i.Detail = detail
		return i
	}
	// the request the library wrote is itself an RFC 8945 signed message
	if s.signQuery {
		st["sess_requests_checked"]++
		if !refVerify(o.query, s.k, nil, false, s.now) {
			Viol("C11/"+ent+"/request-signature", "the request written by the library does not carry the RFC 8945 MAC", in(""))
		}
	}
	byPos, set := s.legit(o.c)
	stateless := s.pol() == polStateless
	if tm == nil {
		st["sess_chains_checked"]++
		st["sess_chain_len_"+Itoa(min(n, 9))]++
		if len(o.items) != n {
			Viol("C11/"+ent+"/chain-rejected", "untampered chain of "+Itoa(n)+": "+Itoa(len(o.items))+" envelopes delivered", in(""))
			return
		}
		for i, d := range o.items {
			if !d.verified {
				Viol("C11/"+ent+"/chain-rejected", "untampered chain of "+Itoa(n)+": envelope "+Itoa(i)+" not verified", in(""))
				return
			}
			if d.content != byPos[i] {
				Viol("C11/"+ent+"/content", "untampered chain: envelope "+Itoa(i)+" delivered with other content than signed", in(d.content))
			}
		}
		return
	}
	st["sess_tampered_checked"]++
	st["sess_pos_"+posClass(k, n)]++
	fa := o.tr.failAt
	// the independent verifier must agree that the envelope at failAt is not the RFC MAC for its position
	if o.tr.must && fa < len(o.tr.envs) {
		prior := o.c.rm0
		if fa > 0 && !stateless {
			prior = macOfEnv(o.tr.envs[fa-1])
		}
		if refVerify(o.tr.envs[fa], s.k, prior, o.c.timers(fa), s.now) {
			st["sess_degenerate_tamper"]++
			return
		}
	}
	// (1) envelopes in front of the tampered position are the signer's and must be delivered as verified
	for i := 0; i < fa && i < len(o.tr.envs); i++ {
		if i >= len(o.items) || !o.items[i].verified {
			Viol("C11/"+ent+"/chain-rejected", tname+" at "+Itoa(k)+": untampered envelope "+Itoa(i)+" in front of it was not delivered as verified", in(""))
			return
		}
	}
	// (2) the tampered position must be reported with an error and not be delivered as verified
	if o.tr.must {
		switch {
		case len(o.items) <= fa:
			if s.pol() == polXfr {
				st["sess_ended_before_tampered"]++
			}
		case o.items[fa].verified:
			Viol("C11/"+ent+"/"+tname, tname+" at envelope "+Itoa(k)+" ("+posClass(k, n)+" of "+Itoa(n)+"): delivered as verified", in(""))
		case o.items[fa].err == nil:
			// no error and no TSIG in the delivered message (Conn.ReadMsg verifies only messages that end in a TSIG)
			st["sess_unsigned_delivered_without_error"]++
		}
	}
	// (3) stateless receivers: every other message is the signer's and must verify
	if stateless && !tm.chain {
		for i, d := range o.items {
			if i != fa && !d.verified {
				Viol("C11/"+ent+"/chain-rejected", tname+" at "+Itoa(k)+": untampered message "+Itoa(i)+" was not verified", in(""))
			}
		}
	}
	// (4) whatever is delivered as verified has content the key holder signed
	for i, d := range o.items {
		if d.verified && !set[d.content] {
			Viol("C11/"+ent+"/forged-content-verified", tname+" at "+Itoa(k)+": item "+Itoa(i)+" delivered as verified with content nobody signed", in(d.content))
		}
	}
}

// ---------------------------------------------------------------------------
// model cases
// ---------------------------------------------------------------------------

var tsigClasses = map[string]bool{"ok:": true, "err:sig": true, "err:time": true, "err:nosig": true, "err:auth": true,
	"err:secret": true, "err:keyalg": true}

func allUnpack(envs [][]byte) bool {
	for _, e := range envs {
		if new(dns.Msg).Unpack(e) != nil || !modelled(e) {
			return false
		}
	}
	return true
}

// hmacTableFor walks envs the way the model does and records the HMAC the real
// digest input yields for each.
func hmacTableFor(ks keyStore, envs [][]byte, rm0 []byte, pol int) string {
	var table []string
	rm, timers := Hx(rm0), false
	for _, e := range envs {
		s, t, err := dns.VerifStripTsig(e)
		if err != nil {
			break
		}
		if d, t2, berr := dns.VerifTsigBuffer(s, t, rm, timers); berr == nil {
			if he := hmacEntry(ks, t2, d); he != "" {
				table = append(table, he)
			}
		}
		if pol != polStateless {
			rm = t.MAC
		}
		timers = pol == polXfr
	}
	return strings.Join(table, ",")
}

// Session cases are queued and handed out a few at a time between the other
// model cases (drainSess), so that they are spread over the Coq shards; quota
// is the number of argument octets a caller may still spend.
type pendingCase struct {
	fn   string
	args []string
	out  string
}

var sessPending []pendingCase

func queueCase(quota *int, fn string, args []string, out string) bool {
	size := 0
	for _, a := range args {
		size += len(a)
	}
	if size > *quota {
		return false
	}
	*quota -= size
	sessPending = append(sessPending, pendingCase{fn, args, out})
	return true
}

func drainSess(n int) {
	for ; n != 0 && len(sessPending) > 0; n-- {
		c := sessPending[0]
		sessPending = sessPending[1:]
		Emit(c.fn, c.args, c.out)
	}
}

// emitSession ties the verdict of the real receive path to the model:
// Transfer.In to chain_verify, the others to tsig_verify per message.
func (s *scenario) emitSession(o *sessObs, quota *int) {
	if o.setup != nil || o.c == nil || !o.applied || o.infra != "" || len(o.items) == 0 {
		return
	}
	ks := s.k.store()
	if s.pol() == polXfr {
		n := len(o.items)
		if n > len(o.tr.envs) {
			n = len(o.tr.envs) // the last item reports the end of the stream
			if n == 0 || o.items[n-1].err != nil {
				return
			}
		}
		envs := o.tr.envs[:n]
		got := errClass(o.items[n-1].err)
		for _, d := range o.items[:n-1] {
			if d.err != nil {
				return
			}
		}
		if len(o.items) > n {
			got = "ok:" // n envelopes verified, then the stream ended
		}
		if !tsigClasses[got] || !allUnpack(envs) {
			return
		}
		var hs []string
		for _, e := range envs {
			hs = append(hs, Hx(e))
		}
		if queueCase(quota, "chain", []string{strings.Join(hs, ","), Hx(o.c.rm0), u(s.now), "0", ks.desc(), hmacTableFor(ks, envs, o.c.rm0, polXfr)}, got) {
			st["sess_model_chain"]++
		}
		return
	}
	// per message, up to the first one that is not the signer's
	last := o.tr.failAt
	for i, d := range o.items {
		if i > last && last >= 0 && s.pol() == polLoop {
			break
		}
		if i > 0 && o.items[i-1].err != nil && s.pol() == polLoop {
			break // the running MAC after a rejected message is the library's own business
		}
		if i >= len(o.tr.envs) {
			break
		}
		e := o.tr.envs[i]
		if !d.hasTsig && s.pol() == polStateless {
			continue // Conn.ReadMsg did not call the verifier
		}
		got := errClass(d.err)
		if !tsigClasses[got] || !allUnpack([][]byte{e}) {
			continue
		}
		prior := o.c.rm0
		if s.pol() == polLoop && i > 0 {
			prior = macOfEnv(o.tr.envs[i-1])
		}
		if queueCase(quota, "verify", []string{Hx(e), Hx(prior), "false", u(s.now), "0", ks.desc(), hmacTableFor(ks, [][]byte{e}, prior, polStateless)}, got) {
			st["sess_model_verify"]++
		}
	}
}

// ---------------------------------------------------------------------------
// server side: TsigStatus on receive, response.WriteMsg / Transfer.Out on send
// ---------------------------------------------------------------------------

type srvRec struct {
	hasTsig bool
	status  error
	called  int
}

// serveQueries runs a real dns.Server configured with keys over a scripted TCP
// connection (all queries on one connection) or UDP socket and returns what the
// handler saw for each query ID and what the server wrote.
func serveQueries(udp bool, envs [][]byte, keys *sessKeys, outEnvs int) (map[uint16]*srvRec, [][]byte, bool) {
	var mu sync.Mutex
	recs := map[uint16]*srvRec{}
	handler := dns.HandlerFunc(func(w dns.ResponseWriter, req *dns.Msg) {
		mu.Lock()
		rec := recs[req.Id]
		if rec == nil {
			rec = &srvRec{}
			recs[req.Id] = rec
		}
		rec.called++
		rec.hasTsig = req.IsTsig() != nil
		rec.status = w.TsigStatus()
		status := rec.status
		verified := rec.hasTsig && rec.status == nil
		mu.Unlock()
		failed := req.IsTsig() != nil && !verified
		if len(req.Question) == 1 && req.Question[0].Qtype == dns.TypeAXFR && !failed {
			ch := make(chan *dns.Envelope)
			go func() {
				for i := 0; i < outEnvs; i++ {
					rrs := []dns.RR{&dns.A{Hdr: dns.RR_Header{Name: "h" + Itoa(i) + "." + xfrZone, Rrtype: dns.TypeA, Class: dns.ClassINET, Ttl: 5}, A: []byte{10, 0, 0, byte(i)}}}
					if i == 0 {
						rrs = append([]dns.RR{soaRR(7)}, rrs...)
					}
					if i == outEnvs-1 {
						rrs = append(rrs, soaRR(7))
					}
					ch <- &dns.Envelope{RR: rrs}
				}
				close(ch)
			}()
			new(dns.Transfer).Out(w, req, ch)
			return
		}
		m := new(dns.Msg)
		m.SetReply(req)
		m.Answer = append(m.Answer, &dns.A{Hdr: dns.RR_Header{Name: req.Question[0].Name, Rrtype: dns.TypeA, Class: dns.ClassINET, Ttl: 5}, A: []byte{192, 0, 2, 7}})
		// the additional records of the query (TSIG aside) come back in the response, so
		// that the response's additional count follows the query's (counts.go)
		for _, rr := range req.Extra {
			if rr.Header().Rrtype != dns.TypeTSIG {
				m.Extra = append(m.Extra, dns.Copy(rr))
			}
		}
		if verified {
			t := req.IsTsig()
			m.SetTsig(t.Hdr.Name, t.Algorithm, t.Fudge, time.Now().Unix())
		} else if failed {
			// RFC 8945 5.2.x / 5.3.2: a request whose TSIG does not verify is answered with
			// NOTAUTH and a TSIG carrying the error: BADTIME (signed: Time Signed of the
			// request, the server's time in Other Data), BADSIG, BADKEY (both unsigned: the
			// library leaves the MAC of such a reply empty)
			t := req.IsTsig()
			m.Answer = nil
			m.Rcode = dns.RcodeNotAuth
			m.SetTsig(t.Hdr.Name, t.Algorithm, t.Fudge, int64(t.TimeSigned))
			rt := m.IsTsig()
			switch {
			case errors.Is(status, dns.ErrTime):
				rt.Error = dns.RcodeBadTime
				var ot [8]byte
				binary.BigEndian.PutUint64(ot[:], uint64(time.Now().Unix()))
				rt.OtherLen = 6
				rt.OtherData = hex.EncodeToString(ot[2:])
			case errors.Is(status, dns.ErrSig):
				rt.Error = dns.RcodeBadSig
			default:
				rt.Error = dns.RcodeBadKey
			}
		}
		w.WriteMsg(m)
	})
	srv := &dns.Server{Handler: handler, ReadTimeout: longIO, WriteTimeout: longIO, IdleTimeout: func() time.Duration { return longIO }}
	keys.configure(&srv.TsigSecret, &srv.TsigProvider)
	if srvQueryExtra != nil {
		// the default MsgAcceptFunc answers FORMERR to a query with more than two additional records
		srv.MsgAcceptFunc = func(dns.Header) dns.MsgAcceptAction { return dns.MsgAccept }
	}
	var written [][]byte
	done := make(chan error, 1)
	if udp {
		pc := netfake.NewPacketConn(envs, nil)
		srv.PacketConn = pc
		go func() { done <- srv.ActivateAndServe() }()
		if !netfake.WaitChan(pc.Drained, sessWait) {
			st["sess_infra_timeout"]++
			return nil, nil, false
		}
		srv.Shutdown()
		if !waitErr(done) {
			st["sess_infra_timeout"]++
			return nil, nil, false
		}
		for _, w := range pc.Writes() {
			written = append(written, w.Data)
		}
	} else {
		fc := netfake.NewConn([][]byte{frames(envs)})
		srv.Listener = netfake.NewListener(fc)
		go func() { done <- srv.ActivateAndServe() }()
		if !netfake.WaitClosed(fc, sessWait) {
			st["sess_infra_timeout"]++
			return nil, nil, false
		}
		srv.Shutdown()
		if !waitErr(done) {
			st["sess_infra_timeout"]++
			return nil, nil, false
		}
		w := fc.Written()
		for len(w) >= 2 {
			l := int(binary.BigEndian.Uint16(w))
			if 2+l > len(w) {
				break
			}
			written = append(written, w[2:2+l])
			w = w[2+l:]
		}
	}
	mu.Lock()
	defer mu.Unlock()
	return recs, written, true
}

// srvQueryExtra, when set (counts.go), supplies the additional section of query i.
var srvQueryExtra func(i int) []dns.RR

// runServer feeds nq queries (one tampered, at position k) to a real dns.Server
// over a scripted TCP connection or UDP socket and checks TsigStatus for each
// and the signatures of what the server wrote back.
func runServer(r *Rng, udp bool, nq int, provider bool, tm *tamper, k int, quota *int) {
	keys := genSessKeys(r, provider)
	alg := &algs[r.Intn(len(algs))]
	now := uint64(time.Now().Unix())
	fudge := []uint16{300, 3600, 65535}[r.Intn(3)]
	c := &chain{k: keys, alg: alg, fudge: fudge, now: now, libSign: r.Intn(3) == 0, pol: polStateless}
	xfrAt := -1
	if !udp && r.Intn(2) == 0 {
		xfrAt = r.Intn(nq)
	}
	outEnvs := 1 + r.Intn(4)
	for i := 0; i < nq; i++ {
		q := new(dns.Msg)
		if i == xfrAt {
			q.SetAxfr(xfrZone)
		} else {
			q.SetQuestion(genOwner(r), dns.TypeA)
		}
		q.Id = uint16(1000 + i)
		q.Compress = r.Bool()
		if srvQueryExtra != nil {
			q.Extra = srvQueryExtra(i)
		} else if r.Intn(3) == 0 {
			q.Extra = append(q.Extra, genRR(r, true))
		}
		c.msgs = append(c.msgs, q)
	}
	if !c.build(nil) {
		return
	}
	tr := tamperRes{c.envs, -1, false}
	tname := "none"
	if tm != nil {
		var ok bool
		if tr, ok = tm.f(c, k, &Rng{S: r.Next()}); !ok {
			st["sess_tamper_not_applicable"]++
			return
		}
		tname = tm.name
	}
	recs, written, ok := serveQueries(udp, tr.envs, keys, outEnvs)
	if !ok {
		return
	}
	in := func(detail string) sessIn {
		i := sessIn{Entry: map[bool]string{true: "server-udp", false: "server-tcp"}[udp], Tamper: tname, Position: k, Of: nq, Key: keys.key, Secret: keys.b64,
			Provider: provider, Alg: alg.name, Fudge: fudge, Signed: now, Detail: detail}
		for _, e := range tr.envs {
			i.Sent = append(i.Sent, Hx(e))
		}
		return i
	}
	st["sess_server_runs"]++
	if tm != nil && tr.must && tr.failAt < len(tr.envs) && refVerify(tr.envs[tr.failAt], keys, nil, false, now) {
		st["sess_degenerate_tamper"]++
		return
	}
	ks := keys.store()
	for i, e := range tr.envs {
		id := binary.BigEndian.Uint16(e)
		rec := recs[id]
		tampered := tm != nil && i == tr.failAt
		if rec == nil || rec.called != 1 {
			if !tampered && (rec == nil || !udp) {
				st["sess_server_query_not_handled"]++
			}
			continue
		}
		verified := rec.hasTsig && rec.status == nil
		st["sess_server_queries_checked"]++
		if tampered {
			st["sess_pos_"+posClass(k, nq)]++
			if tr.must && verified {
				Viol("C11/Server/"+tname, tname+" on query "+Itoa(k)+" ("+posClass(k, nq)+" of "+Itoa(nq)+"): TsigStatus nil with a TSIG present", in(""))
			}
			if tr.must && !verified && rec.status == nil {
				st["sess_unsigned_delivered_without_error"]++
			}
		} else if !verified {
			Viol("C11/Server/chain-rejected", "signed query "+Itoa(i)+" of "+Itoa(nq)+" not verified: "+errClass(rec.status), in(""))
		}
		if quota != nil && rec.hasTsig && tsigClasses[errClass(rec.status)] && allUnpack([][]byte{e}) &&
			queueCase(quota, "verify", []string{Hx(e), "", "false", u(now), "0", ks.desc(), hmacTableFor(ks, [][]byte{e}, nil, polStateless)}, errClass(rec.status)) {
			st["sess_model_verify"]++
		}
		if rec.hasTsig && errors.Is(rec.status, dns.ErrTime) {
			// a request that fails for another reason than its MAC: the handler has answered
			// with a signed BADTIME reply (RFC 8945 5.2.3), whose MAC covers the MAC of ITS
			// request (5.3.2) - on UDP, as first and as later request of a TCP connection
			checkErrorReply(e, id, written, keys, ks, quota, in, Itoa(i)+" ("+posClass(i, nq)+" of "+Itoa(nq)+")")
		}
		if !verified || tampered {
			continue
		}
		// what the server wrote back for a verified query: a chain over the query's MAC
		var resp [][]byte
		for _, w := range written {
			if len(w) >= 2 && binary.BigEndian.Uint16(w) == id {
				resp = append(resp, w)
			}
		}
		if len(resp) == 0 {
			Viol("C11/Server/response-signature", "no response to verified query "+Itoa(i), in(""))
			continue
		}
		prior := macOfEnv(e)
		for j, w := range resp {
			st["sess_server_responses_checked"]++
			// the time is the server's clock reading: take it from the record, it must be near now
			t, ok := refFindTsig(w)
			if !ok || !refVerify(w, keys, prior, j > 0, t.time) || t.time+5 < now || t.time > uint64(time.Now().Unix())+5 {
				Viol("C11/Server/response-signature", "response "+Itoa(j)+" to query "+Itoa(i)+" is not the RFC 8945 chain MAC over the request MAC", in(Hx(w)))
				break
			}
			prior = clone(t.mac)
		}
	}
}

// argument octets of model cases about error replies when the caller has no quota
var errReplyQuota = 12000

// checkErrorReply: query e has a TSIG whose MAC is right (checked here without
// tsig.go) and whose time the server refused; the reply must be signed under the
// same key with the MAC of e as request MAC.
func checkErrorReply(e []byte, id uint16, written [][]byte, keys *sessKeys, ks keyStore, quota *int, in func(string) sessIn, which string) {
	tq, ok := refFindTsig(e)
	if !ok || !refVerify(e, keys, nil, false, tq.time) {
		st["sess_server_badtime_with_wrong_mac"]++ // the status is judged by the verdict oracles
		return
	}
	var resp [][]byte
	for _, w := range written {
		if len(w) >= 2 && binary.BigEndian.Uint16(w) == id {
			resp = append(resp, w)
		}
	}
	st["sess_server_badtime_replies_checked"]++
	if len(resp) != 1 {
		Viol("C11/Server/error-response-signature", Itoa(len(resp))+" responses to query "+which+", whose MAC is right and whose time is outside the fudge window", in(""))
		return
	}
	w := resp[0]
	prior := clone(tq.mac)
	t, ok := refFindTsig(w)
	switch {
	case !ok:
		Viol("C11/Server/error-response-signature", "the BADTIME response to query "+which+" carries no TSIG as last record", in(Hx(w)))
		return
	case t.errc != dns.RcodeBadTime || len(t.other) != 6:
		Viol("C11/Server/error-response-signature", "the response to query "+which+" does not carry the TSIG error BADTIME and the server time the handler put there", in(Hx(w)))
		return
	case !refVerify(w, keys, prior, false, t.time):
		why := "another MAC"
		if len(t.mac) == 0 {
			why = "no MAC"
		} else if refVerify(w, keys, nil, false, t.time) {
			why = "a MAC computed without any request MAC"
		}
		Viol("C11/Server/error-response-signature", "the signed BADTIME response to query "+which+" is not the RFC 8945 MAC over the MAC of its request (it carries "+why+")", in(Hx(w)))
	}
	if quota == nil {
		quota = &errReplyQuota
	}
	if allUnpack([][]byte{w}) {
		got := protectVerify(ks, w, Hx(prior), false, t.time)
		if tsigClasses[got] && queueCase(quota, "verify", []string{Hx(w), Hx(prior), "false", u(t.time), "0", ks.desc(), hmacTableFor(ks, [][]byte{w}, prior, polStateless)}, got) {
			st["sess_model_verify_error_reply"]++
		}
	}
}

func waitErr(ch chan error) bool {
	select {
	case <-ch:
		return true
	case <-time.After(sessWait):
		return false
	}
}

// probeReusedConn records (as a counter, not as an oracle: the property speaks
// about TsigGenerate under a given request MAC) what Conn.WriteMsg does with a
// second signed request on the same connection: the running MAC of the first
// request is still in place, so the second request is signed over it and is not
// an RFC 8945 request (a server verifies requests without a request MAC).
func probeReusedConn(r *Rng) {
	k := genSessKeys(r, false)
	now := uint64(time.Now().Unix())
	fc := netfake.NewConn(nil)
	fc.HoldOpen = true
	co := &dns.Conn{Conn: fc, TsigSecret: k.secrets}
	for i := 0; i < 2; i++ {
		q := new(dns.Msg)
		q.SetQuestion("reuse."+xfrZone, dns.TypeA)
		q.SetTsig(k.key, dns.HmacSHA256, 300, int64(now))
		if co.WriteMsg(q) != nil {
			return
		}
	}
	w := fc.Written()
	for i := 0; len(w) >= 2; i++ {
		l := int(binary.BigEndian.Uint16(w))
		if 2+l > len(w) {
			break
		}
		if refVerify(w[2:2+l], k, nil, false, now) {
			st["sess_reused_conn_request_"+Itoa(i)+"_rfc_valid"]++
		} else {
			st["sess_reused_conn_request_"+Itoa(i)+"_signed_over_stale_mac"]++
		}
		w = w[2+l:]
	}
}

// ---------------------------------------------------------------------------
// driver
// ---------------------------------------------------------------------------

func positionsFor(r *Rng, n int, all bool) []int {
	if all || n <= 6 {
		ps := make([]int, n)
		for i := range ps {
			ps[i] = i
		}
		return ps
	}
	return []int{0, 1, 1 + r.Intn(n-2), n - 2, n - 1}
}

func runSessions(r *Rng, tier string) {
	thorough := tier == "thorough"
	type plan struct {
		kind string
		lens []int
	}
	plans := []plan{
		{"axfr", []int{1, 2, 3, 4, 5, 6, 9}},
		{"ixfr", []int{1, 2, 3, 4, 6}},
		{"loop", []int{1, 2, 3, 5}},
		{"conn", []int{1, 3}},
		{"connudp", []int{1, 3}},
		{"client", []int{1}},
		{"clientudp", []int{1}},
	}
	if thorough {
		plans[0].lens = append(plans[0].lens, 7, 8, 12, 33, 101, 120)
		plans[1].lens = append(plans[1].lens, 5, 7, 8, 15, 101)
		plans[2].lens = append(plans[2].lens, 4, 6, 10, 40)
		plans[3].lens = append(plans[3].lens, 2, 5)
		plans[4].lens = append(plans[4].lens, 2, 5)
	}
	// argument octets of model cases one scenario may queue
	chainQuota, verifyQuota, serverQuota := 16000, 8000, 80000
	if thorough {
		chainQuota, verifyQuota, serverQuota = 60000, 30000, 600000
	}
	sc := 0
	for _, p := range plans {
		for _, n := range p.lens {
			reps := 1
			if thorough {
				reps = 3
			}
			for rep := 0; rep < reps; rep++ {
				sc++
				s := genScenario(r, p.kind, n, sc%3 == 0)
				quota := verifyQuota
				if s.pol() == polXfr {
					quota = chainQuota
				}
				o := s.run(nil, -1, 0)
				s.check(o, nil, -1)
				s.emitSession(o, &quota)
				// further splits of the same stream lengths, untampered
				for extra := 0; extra < 2; extra++ {
					s2 := genScenario(r, p.kind, n, (sc+extra)%2 == 0)
					o2 := s2.run(nil, -1, 0)
					s2.check(o2, nil, -1)
					if extra == 0 {
						q2 := quota / 3
						s2.emitSession(o2, &q2)
					}
				}
				for ti := range tampers {
					tm := &tampers[ti]
					if tm.chain && s.pol() == polStateless {
						continue
					}
					for _, k := range positionsFor(r, len(s.msgs), false) {
						if tm.name == "envelope-duplicated" && s.pol() == polXfr && k == len(s.msgs)-1 {
							continue // the transfer has ended: the copy is never read
						}
						o := s.run(tm, k, r.Next())
						s.check(o, tm, k)
						if r.Intn(20) == 0 || (tm.name == "strip-tsig" && r.Intn(3) == 0) {
							s.emitSession(o, &quota)
						}
					}
				}
			}
		}
	}
	probeReusedConn(r)
	runStores(r, tier)
	// server side
	nsrv := 3
	if thorough {
		nsrv = 12
	}
	for i := 0; i < nsrv; i++ {
		for _, udp := range []bool{false, true} {
			nq := 1 + (i+r.Intn(3))%5
			runServer(r, udp, nq, i%3 == 1, nil, -1, &serverQuota)
			for ti := range tampers {
				tm := &tampers[ti]
				if tm.chain {
					continue
				}
				for _, k := range positionsFor(r, nq, false) {
					var q *int
					if r.Intn(30) == 0 {
						q = &serverQuota
					}
					runServer(r, udp, nq, (i+ti)%3 == 1, tm, k, q)
				}
			}
		}
	}
}
