(* Proofs/OptValProofs.v — the length a record's len() adds for an EDNS0 option /
   SVCB parameter VALUE (Go struct level, Model/OptVal.v) covers the octets the
   value's pack() returns; hence OPT / SVCB records built from such values
   satisfy rr_okb without the per-triple hypothesis. *)
From Coq Require Import Lia ZifyN ZifyNat ZifyBool.
From Dns Require Import Gen.Layouts Gen.Lens.
From Dns Require Import Model.OptVal Proofs.LenFieldProofs Proofs.LenRRProofs.
Open Scope list_scope.
Open Scope N_scope.

(* ---------------- EDNS0: the length IS len(pack()) ---------------- *)
Theorem opt_len_eq_pack v b : opt_pack v = Ok b -> opt_len v = lenN b.
Proof. intro H. unfold opt_len. rewrite H. reflexivity. Qed.
Theorem opt_len_ge_pack v b : opt_pack v = Ok b -> lenN b <= opt_len v.
Proof. intro H. rewrite (opt_len_eq_pack v b H). lia. Qed.
(* a failing pack() contributes nothing to Len (and the record does not pack) *)
Lemma opt_len_fail v : is_ok (opt_pack v) = false -> opt_len v = 0.
Proof. unfold opt_len. destruct (opt_pack v); [discriminate| | |]; reflexivity. Qed.

(* ---------------- SVCB: each len() against its pack() ---------------- *)
Lemma lenN_app' {A} (a b : list A) : lenN (a ++ b) = lenN a + lenN b.
Proof. unfold lenN. rewrite app_length. lia. Qed.
Lemma lenN_cons' {A} (x : A) l : lenN (x :: l) = 1 + lenN l.
Proof. unfold lenN. cbn [length]. lia. Qed.

Lemma ins_n_length x l : length (ins_n x l) = S (length l).
Proof.
  induction l as [|y r IH]; [reflexivity|]. cbn [ins_n]. destruct (y <=? x); cbn [length]; [now rewrite IH|reflexivity].
Qed.
Lemma sort_n_go_length l : forall acc, length (fold_left (fun a x => ins_n x a) l acc) = (length l + length acc)%nat.
Proof.
  induction l as [|x r IH]; intro acc; [reflexivity|]. cbn [fold_left length]. rewrite IH, ins_n_length. lia.
Qed.
Lemma sort_n_length l : length (sort_n l) = length l.
Proof. unfold sort_n. rewrite sort_n_go_length. cbn [length]. lia. Qed.
Lemma flat_u16_len l : lenN (flat_map u16 l) = 2 * lenN l.
Proof.
  induction l as [|x r IH]; [reflexivity|]. cbn [flat_map]. rewrite lenN_app', lenN_u16, IH, lenN_cons'. lia.
Qed.

Lemma alpn_len ids : forall b a, alpn_pack ids = Ok b ->
  fold_left (fun l e => l + (1 + lenN e)) ids a = a + lenN b.
Proof.
  induction ids as [|e r IH]; intros b a H; cbn [alpn_pack] in H.
  - inversion H. cbn [fold_left]. unfold lenN. cbn [length]. lia.
  - destruct (lenN e =? 0) eqn:E0; [discriminate|]. destruct (255 <? lenN e) eqn:E1; [discriminate|].
    destruct (alpn_pack r) as [t| | |] eqn:Er; cbn [bind] in H; try discriminate.
    inversion H. cbn [fold_left]. rewrite (IH t _ eq_refl). rewrite lenN_cons', lenN_app'. lia.
Qed.

Lemma to4_len e x : to4 e = Some x -> lenN x = 4.
Proof.
  unfold to4. destruct (lenN e =? 4) eqn:E4; [intro H; inversion H; subst; lia|].
  destruct ((lenN e =? 16) && _) eqn:E16; [|discriminate]. intro H. inversion H.
  apply andb_prop in E16. destruct E16 as [E16 _]. apply lenN_skipn_12_of_16. lia.
Qed.
Lemma v4hint_len h : forall b, v4hint_pack h = Ok b -> lenN b = 4 * lenN h.
Proof.
  induction h as [|e r IH]; intros b H; cbn [v4hint_pack] in H.
  - inversion H. reflexivity.
  - destruct (to4 e) as [x|] eqn:Ex; [|discriminate].
    destruct (v4hint_pack r) as [t| | |] eqn:Er; cbn [bind] in H; try discriminate.
    inversion H. rewrite lenN_app', (to4_len _ _ Ex), (IH t eq_refl), lenN_cons'. lia.
Qed.
Lemma v6hint_len h : forall b, v6hint_pack h = Ok b -> lenN b = 16 * lenN h.
Proof.
  induction h as [|e r IH]; intros b H; cbn [v6hint_pack] in H.
  - inversion H. reflexivity.
  - destruct (negb (lenN e =? 16) || _) eqn:E; [discriminate|].
    apply orb_false_elim in E. destruct E as [E _].
    destruct (v6hint_pack r) as [t| | |] eqn:Er; cbn [bind] in H; try discriminate.
    inversion H. rewrite lenN_app', (IH t eq_refl), lenN_cons'. lia.
Qed.

Theorem svcb_len_eq_pack v b : svcb_pack v = Ok b -> svcb_len v = lenN b.
Proof.
  destruct v; cbn [svcb_pack svcb_len]; intro H.
  - inversion H. rewrite flat_u16_len. unfold lenN. now rewrite sort_n_length.
  - rewrite (alpn_len _ _ 0 H). lia.
  - inversion H. reflexivity.
  - inversion H. now rewrite lenN_u16.
  - now rewrite (v4hint_len _ _ H).
  - now inversion H.
  - now rewrite (v6hint_len _ _ H).
  - now inversion H.
  - inversion H. reflexivity.
  - now inversion H.
Qed.
Theorem svcb_len_ge_pack v b : svcb_pack v = Ok b -> lenN b <= svcb_len v.
Proof. intro H. rewrite (svcb_len_eq_pack v b H). lia. Qed.

(* ---------------- composition with C08 ---------------- *)
Lemma opt_triples_okb vs : forall ts, opt_triples vs = Ok ts -> pairs_okb ts = true.
Proof.
  induction vs as [|v r IH]; intros ts H; cbn [opt_triples] in H.
  - inversion H. reflexivity.
  - destruct (opt_pack v) as [b| | |] eqn:Ev; cbn [bind] in H; try discriminate.
    destruct (opt_triples r) as [t| | |] eqn:Er; cbn [bind] in H; try discriminate.
    inversion H. unfold pairs_okb. cbn [forallb fst snd]. fold (pairs_okb t). rewrite (IH t eq_refl), andb_true_r.
    apply N.leb_le. now apply opt_len_ge_pack.
Qed.
Lemma svcb_triples_okb vs : forall ts, svcb_triples vs = Ok ts -> pairs_okb ts = true.
Proof.
  induction vs as [|v r IH]; intros ts H; cbn [svcb_triples] in H.
  - inversion H. reflexivity.
  - destruct (svcb_pack v) as [b| | |] eqn:Ev; cbn [bind] in H; try discriminate.
    destruct (svcb_triples r) as [t| | |] eqn:Er; cbn [bind] in H; try discriminate.
    inversion H. unfold pairs_okb. cbn [forallb fst snd]. fold (pairs_okb t). rewrite (IH t eq_refl), andb_true_r.
    apply N.leb_le. now apply svcb_len_ge_pack.
Qed.

Lemma kind_ok_opt : kind_ok "OPT" = true.
Proof. vm_compute. reflexivity. Qed.
Lemma kind_ok_svcb : kind_ok "SVCB" = true.
Proof. vm_compute. reflexivity. Qed.

Theorem opt_record_okb h vs ts : opt_triples vs = Ok ts -> rr_okb (opt_record h ts) = true.
Proof.
  intro H. unfold rr_okb. cbn [opt_record rr_kind rr_data]. rewrite kind_ok_opt.
  unfold rdata_pairs_ok. cbn [forallb snd]. now rewrite (opt_triples_okb vs ts H).
Qed.
Theorem svcb_record_okb h p t vs ts : svcb_triples vs = Ok ts -> rr_okb (svcb_record h p t ts) = true.
Proof.
  intro H. unfold rr_okb. cbn [svcb_record rr_kind rr_data]. rewrite kind_ok_svcb.
  unfold rdata_pairs_ok. cbn [forallb snd]. now rewrite (svcb_triples_okb vs ts H).
Qed.

Theorem opt_record_len_ge_pack h vs ts cap cp st st' :
  opt_triples vs = Ok ts -> pack_rr (opt_record h ts) cap cp st = Ok st' ->
  lenN (pn_out st') - lenN (pn_out st) <= rr_len (opt_record h ts).
Proof. intros H. apply rr_len_ge_pack. exact (opt_record_okb h vs ts H). Qed.
Theorem svcb_record_len_ge_pack h p t vs ts cap cp st st' :
  svcb_triples vs = Ok ts -> pack_rr (svcb_record h p t ts) cap cp st = Ok st' ->
  lenN (pn_out st') - lenN (pn_out st) <= rr_len (svcb_record h p t ts).
Proof. intros H. apply rr_len_ge_pack. exact (svcb_record_okb h p t vs ts H). Qed.

(* ---------------- non-vacuity ---------------- *)
Definition ex_hdr (nm : string) (ty : N) : rr :=
  {| rr_name := bytes_of_string nm; rr_type := ty; rr_class := 1232; rr_ttl := 0; rr_rdlength := 0;
     rr_kind := ""; rr_data := [] |}.
Definition ex_opts : list optval :=
  [O_NSID (bytes_of_string "aAbB01"); O_SUBNET 1 20 0 [0;0;0;0;0;0;0;0;0;0;255;255;192;0;2;255];
   O_UL 3600 0; O_UL 3600 7; O_KEEPALIVE 0; O_KEEPALIVE 300; O_EXPIRE 5 true; O_COOKIE (bytes_of_string "0011223344556677");
   O_REPORTING (bytes_of_string "agent.example"); O_EDE 18 (bytes_of_string "x"); O_LOCAL 65001 [1; 2; 3];
   O_LLQ 1 2 3 4 5; O_ZONEVERSION 2 0 [0; 0; 0; 9]; O_SUBNET 2 56 0 [32;1;13;184;1;2;3;255;9;9;9;9;9;9;9;9]].
Example ex_opt_hypotheses :
  match opt_triples ex_opts with
  | Ok ts =>
    lenN ts = 14 /\
    match pack_rr (opt_record (ex_hdr "." 41) ts) 300 false {| pn_out := []; pn_cm := None |} with
    | Ok st => lenN (pn_out st) = rr_len (opt_record (ex_hdr "." 41) ts) /\ lenN (pn_out st) = 155
    | _ => False
    end
  | _ => False
  end.
Proof. vm_compute. repeat split; reflexivity. Qed.
Definition ex_svcbs : list svcbval :=
  [S_ALPN [bytes_of_string "h2"; bytes_of_string "h3"]; S_MANDATORY [4; 1]; S_PORT 8443;
   S_IPV4HINT [[192; 0; 2; 1]; [0;0;0;0;0;0;0;0;0;0;255;255;192;0;2;2]];
   S_IPV6HINT [[32;1;13;184;0;0;0;0;0;0;0;0;0;0;0;1]]; S_NODEFAULTALPN; S_ECH [254; 13]; S_DOHPATH (bytes_of_string "/q{?dns}");
   S_OHTTP; S_LOCAL 65400 [97; 98; 99]].
Example ex_svcb_hypotheses :
  match svcb_triples ex_svcbs with
  | Ok ts =>
    lenN ts = 10 /\
    match pack_rr (svcb_record (ex_hdr "v.example." 64) 1 (bytes_of_string "svc.example.") ts) 300 false {| pn_out := []; pn_cm := None |} with
    | Ok st => lenN (pn_out st) = rr_len (svcb_record (ex_hdr "v.example." 64) 1 (bytes_of_string "svc.example.") ts) /\ 100 < lenN (pn_out st)
    | _ => False
    end
  | _ => False
  end.
Proof. vm_compute. repeat split; reflexivity. Qed.
(* the error branches are reachable: values whose pack() fails *)
Example ex_optval_errors :
  opt_pack (O_NSID (bytes_of_string "abc")) = Err "hexlen" /\ opt_pack (O_COOKIE (bytes_of_string "zz")) = Err "hexbyte" /\
  opt_pack (O_SUBNET 1 33 0 [1;2;3;4]) = Err "netmask" /\ opt_pack (O_SUBNET 1 24 0 [1;2;3;4;5;6;7;8;9;10;11;12;13;14;15;16]) = Err "address" /\
  opt_pack (O_SUBNET 0 1 0 []) = Err "family" /\ opt_len (O_NSID (bytes_of_string "abc")) = 0 /\
  svcb_pack (S_ALPN [[]]) = Err "alpnempty" /\ svcb_pack (S_ALPN [repeat 97 256]) = Err "alpnlong" /\
  svcb_pack (S_IPV6HINT [[0;0;0;0;0;0;0;0;0;0;255;255;192;0;2;2]]) = Err "v6hint" /\
  svcb_pack (S_IPV4HINT [[32;1;13;184;0;0;0;0;0;0;0;0;0;0;0;1]]) = Err "v4hint".
Proof. vm_compute. repeat split; reflexivity. Qed.
