// C20: record equality is a TTL/case-insensitive equivalence; Dedup keeps one each.
package main

import (
	"bytes"
	"encoding/hex"
	"net"
	"reflect"
	"runtime"
	"strings"
	"sync"

	"github.com/miekg/dns"
	. "verif/harness/common"
)

func main() { Main(run) }

var st = map[string]int{}

func isDup(a, b dns.RR) string {
	return Protect(func() string { return "ok:" + Btoa(dns.IsDuplicate(a, b)) })
}

func flipNameCase(r *Rng, s string) string {
	b := []byte(s)
	for i := range b {
		if (b[i] >= 'a' && b[i] <= 'z' || b[i] >= 'A' && b[i] <= 'Z') && (i == 0 || b[i-1] != '\\') && r.Bool() {
			b[i] ^= 0x20
		}
	}
	return string(b)
}

// canonWire: type, class, lower-cased owner and RDATA with embedded names lower-cased, uncompressed
func canonWire(rr dns.RR) ([]byte, bool) {
	c := dns.Copy(rr)
	c.Header().Name = strings.ToLower(c.Header().Name)
	c.Header().Ttl = 0
	ForEachNameField(c, func(get func() string, set func(string)) { set(strings.ToLower(get())) })
	switch x := c.(type) {
	case *dns.HIP:
		for i := range x.RendezvousServers {
			x.RendezvousServers[i] = strings.ToLower(x.RendezvousServers[i])
		}
	case *dns.IPSECKEY:
		x.GatewayHost = strings.ToLower(x.GatewayHost)
	case *dns.AMTRELAY:
		x.GatewayHost = strings.ToLower(x.GatewayHost)
	}
	buf := make([]byte, dns.Len(c)+10)
	off, err := dns.PackRR(c, buf, 0, nil, false)
	if err != nil {
		return nil, false
	}
	return buf[:off], true
}

// mutateOneField changes one RDATA field so that the record denotes different data
func mutateOneField(r *Rng, rr dns.RR) bool {
	v := Flatten(reflect.ValueOf(rr).Elem())
	t := v.Type()
	var idx []int
	for i := 0; i < t.NumField(); i++ {
		if t.Field(i).Name != "Hdr" {
			idx = append(idx, i)
		}
	}
	if len(idx) == 0 {
		return false
	}
	i := idx[r.Intn(len(idx))]
	f := v.Field(i)
	tag := t.Field(i).Tag.Get("dns")
	switch f.Kind() {
	case reflect.Uint8, reflect.Uint16, reflect.Uint32, reflect.Uint64:
		if strings.HasSuffix(t.Field(i).Name, "Length") || strings.HasSuffix(t.Field(i).Name, "Len") || strings.HasSuffix(t.Field(i).Name, "Size") || t.Field(i).Name == "GatewayType" {
			return false
		}
		f.SetUint(f.Uint() ^ 1)
		return true
	case reflect.String:
		s := f.String()
		switch {
		case strings.Contains(tag, "domain-name"):
			f.SetString("changed." + s)
			_, ok := dns.IsDomainName(f.String())
			return ok
		case strings.Contains(tag, "hex") && !strings.Contains(tag, "size-"):
			f.SetString(s + "00")
			return true
		case tag == "" || tag == "octet" || tag == "any":
			if len(s) > 250 {
				return false
			}
			f.SetString(s + "x")
			return true
		}
	}
	return false
}

func run(r *Rng, tier string, n int) {
	per := 10
	ndedup := 150
	if tier == "thorough" {
		per, ndedup = 300, 5000
	}
	if n > 0 {
		per = n
	}
	pool := &NamePool{R: r}
	types := AllTypes()
	emitN := 0
	emit := func(a, b dns.RR, out string) {
		ta, oka := RRText(a)
		tb, okb := RRText(b)
		if oka && okb && emitN < 900 {
			emitN++
			Emit("is_dup", []string{ta, tb}, out)
		}
	}
	privateRecords(r)
	var wireRecs []dns.RR
	for _, t := range types {
		tname := dns.TypeToString[t]
		for i := 0; i < per; i++ {
			rr, info := GenRR(r, pool, t, false)
			if !info.WellFormed {
				continue
			}
			st["records_checked"]++
			in := func() map[string]string { x, _ := RRText(rr); return map[string]string{"rr": x} }
			// reflexive, holds for the copy
			cp := dns.Copy(rr)
			d := isDup(rr, rr)
			emit(rr, rr, d)
			if d != "ok:true" {
				key := "C20/" + tname + "/not-reflexive"
				Viol(key, "IsDuplicate(r, r) = "+d, in())
			}
			if d2 := isDup(rr, cp); d2 != d {
				Viol("C20/"+tname+"/copy-differs", "IsDuplicate(r, Copy(r)) = "+d2, in())
			}
			// ignores TTL and the case of the owner and of embedded names
			v := dns.Copy(rr)
			v.Header().Ttl ^= 0x55
			v.Header().Name = flipNameCase(r, v.Header().Name)
			ForEachNameField(v, func(get func() string, set func(string)) { set(flipNameCase(r, get())) })
			dv := isDup(rr, v)
			emit(rr, v, dv)
			if dv != d {
				Viol("C20/"+tname+"/ttl-or-case-matters", "IsDuplicate changes with TTL / letter case: "+dv, in())
			}
			if ds := isDup(v, rr); ds != dv {
				Viol("C20/"+tname+"/not-symmetric", "IsDuplicate(a,b) != IsDuplicate(b,a)", in())
			}
			// one field differs -> not a duplicate
			m := dns.Copy(rr)
			if mutateOneField(r, m) {
				dm := isDup(rr, m)
				emit(rr, m, dm)
				if dm == "ok:true" {
					tm, _ := RRText(m)
					Viol("C20/"+tname+"/differing-field-ignored", "records differing in one field are reported as duplicates", map[string]string{"a": in()["rr"], "b": tm})
				}
				// transitivity on the triple (rr, v, m): rr~v, so v~m iff rr~m
				if isDup(v, m) != dm {
					Viol("C20/"+tname+"/not-transitive", "IsDuplicate is not transitive", in())
				}
			}
			// header: class / type / owner differ
			h := dns.Copy(rr)
			h.Header().Class ^= 1
			if isDup(rr, h) == "ok:true" {
				Viol("C20/"+tname+"/class-ignored", "records of different class reported as duplicates", in())
			}
			// from the wire: duplicate iff canonical wire forms are equal
			buf := make([]byte, dns.Len(rr)+10)
			if off, err := dns.PackRR(rr, buf, 0, nil, false); err == nil {
				if w, _, err := dns.UnpackRR(buf[:off], 0); err == nil {
					wireRecs = append(wireRecs, w)
				}
			}
		}
	}
	// pairs of records obtained from the wire
	for i := 0; i < len(wireRecs); i++ {
		for k := 0; k < 3; k++ {
			j := r.Intn(len(wireRecs))
			if k == 0 {
				j = i
			}
			a, b := wireRecs[i], wireRecs[j]
			if a.Header().Rrtype == dns.TypeOPT || b.Header().Rrtype == dns.TypeOPT {
				continue
			}
			wa, oka := canonWire(a)
			wb, okb := canonWire(b)
			if !oka || !okb {
				continue
			}
			st["wire_pairs_checked"]++
			want := bytes.Equal(wa, wb)
			got := isDup(a, b)
			if got != "ok:"+Btoa(want) {
				ta, _ := RRText(a)
				tb, _ := RRText(b)
				Viol("C20/"+dns.TypeToString[a.Header().Rrtype]+"/wire-equality", "IsDuplicate="+got+" but canonical wire forms equal="+Btoa(want), map[string]string{"a": ta, "b": tb})
			}
		}
	}
	// letter case means A-Z only: every octet value against its 0x20-flipped twin, in the owner
	// and in an embedded name; escaped backslashes in front of letters
	for b := 0; b < 256; b++ {
		for _, where := range []int{0, 1} {
			l1 := []byte{'x', byte(b), 'y'}
			l2 := []byte{'x', byte(b) ^ 0x20, 'y'}
			n1 := ShowLabel(l1) + ".example."
			n2 := ShowLabel(l2) + ".example."
			var a, c dns.RR
			if where == 0 {
				a = &dns.A{Hdr: dns.RR_Header{Name: n1, Rrtype: dns.TypeA, Class: 1, Ttl: 5}, A: []byte{1, 2, 3, 4}}
				c = &dns.A{Hdr: dns.RR_Header{Name: n2, Rrtype: dns.TypeA, Class: 1, Ttl: 7}, A: []byte{1, 2, 3, 4}}
			} else {
				a = &dns.MX{Hdr: dns.RR_Header{Name: "o.example.", Rrtype: dns.TypeMX, Class: 1, Ttl: 5}, Preference: 1, Mx: n1}
				c = &dns.MX{Hdr: dns.RR_Header{Name: "o.example.", Rrtype: dns.TypeMX, Class: 1, Ttl: 7}, Preference: 1, Mx: n2}
			}
			isLetter := byte(b)|0x20 >= 'a' && byte(b)|0x20 <= 'z'
			got := isDup(a, c)
			st["octet_fold_checked"]++
			if got != "ok:"+Btoa(isLetter) {
				ta, _ := RRText(a)
				tc, _ := RRText(c)
				Viol("C20/case-fold-beyond-letters", "IsDuplicate="+got+" for names differing in octet "+Itoa(b)+" vs "+Itoa(b^0x20), map[string]string{"a": ta, "b": tc})
			}
			if b%8 == 0 || b >= 0x40 && b < 0x80 {
				emit(a, c, got)
			}
			// Dedup groups by text identical up to owner-name case and TTL
			if where == 0 {
				rrs := []dns.RR{dns.Copy(a), dns.Copy(c)}
				Emit("normalize", []string{Hs(a.String())}, Hs(dns.VerifNormalizedString(a)))
				out := dns.Dedup(rrs, nil)
				want := 2
				if isLetter {
					want = 1
				}
				if len(out) != want || want == 1 && out[0].Header().Ttl != 5 {
					Viol("C20/Dedup/case-grouping", "Dedup of two records whose owners differ in octet "+Itoa(b)+"/"+Itoa(b^0x20)+" keeps "+Itoa(len(out)), map[string]string{"a": a.String(), "b": c.String()})
				}
			}
		}
	}
	for _, pre := range []string{"a\\\\", "\\\\", "a\\\\\\.", "\\046", "a\\.\\\\"} {
		n1 := pre + "B.example."
		n2 := pre + "b.example."
		a := &dns.A{Hdr: dns.RR_Header{Name: n1, Rrtype: dns.TypeA, Class: 1, Ttl: 300}, A: []byte{1, 2, 3, 4}}
		c := &dns.A{Hdr: dns.RR_Header{Name: n2, Rrtype: dns.TypeA, Class: 1, Ttl: 100}, A: []byte{1, 2, 3, 4}}
		if _, ok := dns.IsDomainName(n1); !ok {
			continue
		}
		Emit("normalize", []string{Hs(a.String())}, Hs(dns.VerifNormalizedString(a)))
		// is the letter after the prefix a plain (unescaped) octet of the label?
		wa, oka := canonWire(a)
		wc, okc := canonWire(c)
		if !oka || !okc {
			continue
		}
		same := bytes.Equal(wa, wc)
		out := dns.Dedup([]dns.RR{dns.Copy(a), dns.Copy(c)}, nil)
		st["escaped_backslash_checked"]++
		if same && (len(out) != 1 || out[0].Header().Ttl != 100) || !same && len(out) != 2 {
			Viol("C20/Dedup/escaped-backslash-case", "Dedup of "+n1+" / "+n2+" keeps "+Itoa(len(out)), map[string]string{"a": a.String(), "b": c.String()})
		}
		if got := isDup(a, c); got != "ok:"+Btoa(same) {
			Viol("C20/escaped-backslash-case", "IsDuplicate="+got+" but canonical wire equal="+Btoa(same), map[string]string{"a": a.String(), "b": c.String()})
		}
	}
	// APL from the wire: an IPv4 prefix and the IPv4-mapped IPv6 prefix of the same length are different data
	for _, plen := range []int{0, 8, 24, 32} {
		v4 := []byte{0, 1, byte(plen), 3, 192, 0, 2}
		v6 := append([]byte{0, 2, byte(plen), 15, 0, 0, 0, 0, 0, 0, 0, 0, 0, 0, 0xff, 0xff}, 192, 0, 2)
		mk := func(rd []byte) dns.RR {
			w := append([]byte{1, 'x', 0, 0, 42, 0, 1, 0, 0, 0, 9, byte(len(rd) >> 8), byte(len(rd))}, rd...)
			rr, _, err := dns.UnpackRR(w, 0)
			if err != nil {
				return nil
			}
			return rr
		}
		a, c := mk(v4), mk(v6)
		if a == nil || c == nil {
			continue
		}
		st["apl_family_checked"]++
		got := isDup(a, c)
		emit(a, c, got)
		if got != "ok:false" {
			ta, _ := RRText(a)
			tc, _ := RRText(c)
			Viol("C20/APL/family-ignored", "APL prefixes of different address family reported as duplicates", map[string]string{"a": ta, "b": tc})
		}
	}
	// records whose RDATA ends early: the generated unpack() methods return at `off == len(msg)`, the
	// missing fields become zero values; re-packing such a record gives RDATA with different octets,
	// so by the wire clause the two are NOT duplicates
	for _, t := range types {
		rr, info := GenRR(r, pool, t, false)
		if rr == nil || !info.WellFormed || t == dns.TypeOPT {
			continue
		}
		rr.Header().Name = "x."
		rr.Header().Class = 1
		buf := make([]byte, dns.Len(rr)+10)
		off, err := dns.PackRR(rr, buf, 0, nil, false)
		if err != nil || off < 13 {
			continue
		}
		rdata := buf[13:off]
		for p := 1; p < len(rdata); p++ {
			w := append(append([]byte{}, buf[:11]...), byte(p>>8), byte(p))
			w = append(w, rdata[:p]...)
			var a dns.RR
			if Protect(func() string {
				x, _, e := dns.UnpackRR(w, 0)
				if e != nil {
					return "err"
				}
				a = x
				return "ok"
			}) != "ok" || a == nil {
				continue
			}
			b2 := make([]byte, dns.Len(a)+10)
			o2, err := dns.PackRR(a, b2, 0, nil, false)
			if err != nil || o2 < 13 || bytes.Equal(b2[13:o2], rdata[:p]) {
				continue
			}
			c, _, err := dns.UnpackRR(b2[:o2], 0)
			if err != nil {
				continue
			}
			st["truncated_rdata_pairs_checked"]++
			if got := isDup(a, c); got != "ok:false" {
				Viol("C20/wire/truncated-rdata-equals-zero-padded", "IsDuplicate="+got+" for two records from the wire whose RDATA octets differ ("+dns.TypeToString[t]+": "+Hx(rdata[:p])+" vs "+Hx(b2[13:o2])+")", map[string]string{"a": Hx(w), "b": Hx(b2[:o2])})
			}
		}
	}
	// SVCB / HTTPS parameters in any order: the comparison sorts both sides by key, so a record is a
	// duplicate of itself, of its copy and of every permutation of its parameters, as either argument
	{
		mkv := func() []dns.SVCBKeyValue {
			return []dns.SVCBKeyValue{
				&dns.SVCBMandatory{Code: []dns.SVCBKey{dns.SVCB_ALPN}}, &dns.SVCBAlpn{Alpn: []string{"h2", "h3"}}, &dns.SVCBPort{Port: 8443},
				&dns.SVCBIPv4Hint{Hint: []net.IP{{192, 0, 2, 1}}}, &dns.SVCBECHConfig{ECH: []byte{1, 2}}, &dns.SVCBLocal{KeyCode: 65400, Data: []byte("x")},
			}
		}
		for k := 0; k < 24; k++ {
			n := 2 + k%5
			sorted := mkv()[:n]
			perm := mkv()[:n]
			switch k % 3 {
			case 0: // descending
				for i, j := 0, n-1; i < j; i, j = i+1, j-1 {
					perm[i], perm[j] = perm[j], perm[i]
				}
			default:
				for i := n - 1; i > 0; i-- {
					j := r.Intn(i + 1)
					perm[i], perm[j] = perm[j], perm[i]
				}
			}
			mk := func(v []dns.SVCBKeyValue) dns.RR {
				sv := dns.SVCB{Hdr: dns.RR_Header{Name: "s.example.", Rrtype: dns.TypeSVCB, Class: 1, Ttl: 7}, Priority: 1, Target: "t.example.", Value: v}
				if k%2 == 0 {
					sv.Hdr.Rrtype = dns.TypeHTTPS
					return &dns.HTTPS{SVCB: sv}
				}
				return &sv
			}
			a, b := mk(sorted), mk(perm)
			st["svcb_param_orders_checked"]++
			for _, p := range [][2]dns.RR{{b, b}, {b, dns.Copy(b)}, {a, b}, {b, a}} {
				got := isDup(p[0], p[1])
				emit(p[0], p[1], got)
				if got != "ok:true" {
					Viol("C20/SVCB/parameter-order", "records that differ only in the order of their SVCB parameters: "+got, map[string]string{"a": p[0].String(), "b": p[1].String()})
				}
			}
		}
	}
	// unknown types (RFC 3597): one Go type holds every unknown type code, so only the header comparison
	// tells TYPE65280 from TYPE65281: same owner, class and RDATA, different type code = different data
	for _, pair := range [][2]uint16{{65280, 65281}, {65280, 65280}, {1234, 1235}, {0xFFFE, 0xFF00}} {
		mk := func(t uint16) dns.RR {
			w := []byte{1, 'u', 0, byte(t >> 8), byte(t), 0, 1, 0, 0, 0, 9, 0, 2, 0xab, 0xcd}
			rr, _, err := dns.UnpackRR(w, 0)
			if err != nil {
				return nil
			}
			return rr
		}
		a, b := mk(pair[0]), mk(pair[1])
		if a == nil || b == nil {
			continue
		}
		st["unknown_type_pairs_checked"]++
		want := "ok:" + Btoa(pair[0] == pair[1])
		for _, p := range [][2]dns.RR{{a, b}, {b, a}} {
			got := isDup(p[0], p[1])
			emit(p[0], p[1], got)
			if got != want {
				Viol("C20/RFC3597/type-code-ignored", "unknown-type records TYPE"+Itoa(int(pair[0]))+" / TYPE"+Itoa(int(pair[1]))+" with equal RDATA: IsDuplicate = "+got, map[string]string{"a": p[0].String(), "b": p[1].String()})
			}
		}
		if out := dns.Dedup([]dns.RR{dns.Copy(a), dns.Copy(b)}, nil); (len(out) == 1) != (pair[0] == pair[1]) {
			Viol("C20/Dedup/type-code-ignored", "Dedup of TYPE"+Itoa(int(pair[0]))+" / TYPE"+Itoa(int(pair[1]))+" keeps "+Itoa(len(out)), nil)
		}
	}
	// type bitmaps (NSEC, CSYNC, NSEC3) in every encoding a decoder might accept: the canonical one, a window
	// split over two blocks, windows out of order, a block with a trailing zero octet, an empty block. Every
	// RDATA that unpacks is compared with the canonical one: duplicates exactly when the RDATA octets are equal
	{
		variants := map[string][]byte{
			"canonical":       {0, 1, 0x60},
			"repeated-window": {0, 1, 0x40, 0, 1, 0x20},
			"trailing-zero":   {0, 2, 0x60, 0},
			"windows-swapped": {1, 1, 0x80, 0, 1, 0x60},
			"empty-block":     {0, 0, 0, 1, 0x60},
			"two-windows":     {0, 1, 0x60, 1, 1, 0x80},
		}
		for _, typ := range []uint16{dns.TypeNSEC, dns.TypeCSYNC} {
			mk := func(bm []byte) dns.RR {
				rd := []byte{0} // NSEC: next domain = root
				if typ == dns.TypeCSYNC {
					rd = []byte{0, 0, 0, 1, 0, 3}
				}
				rd = append(rd, bm...)
				w := append([]byte{1, 'n', 0, byte(typ >> 8), byte(typ), 0, 1, 0, 0, 0, 9, byte(len(rd) >> 8), byte(len(rd))}, rd...)
				rr, _, err := dns.UnpackRR(w, 0)
				if err != nil {
					return nil
				}
				return rr
			}
			canon := mk(variants["canonical"])
			if canon == nil {
				continue
			}
			for name, bm := range variants {
				v := mk(bm)
				if v == nil {
					st["bitmap_variant_rejected_"+name]++
					continue
				}
				st["bitmap_variants_checked"]++
				want := "ok:" + Btoa(name == "canonical")
				if got := isDup(canon, v); got != want {
					Viol("C20/wire/bitmap-encoding/"+name, dns.TypeToString[typ]+" records whose RDATA octets differ ("+name+" bitmap encoding) : IsDuplicate = "+got, map[string]string{"a": canon.String(), "b": v.String(), "bitmap": Hx(bm)})
				}
			}
		}
	}
	// SVCB/HTTPS parameters from the wire in degenerate but possibly accepted encodings: every accepted
	// record is its own duplicate and the duplicate of its copy, can be packed again, and two accepted
	// records are duplicates exactly when their RDATA octets are equal
	{
		type pv struct {
			name string
			val  []byte // the parameter list after priority + target
		}
		par := func(key uint16, v ...byte) []byte {
			return append([]byte{byte(key >> 8), byte(key), byte(len(v) >> 8), byte(len(v))}, v...)
		}
		cat := func(bs ...[]byte) []byte {
			var o []byte
			for _, b := range bs {
				o = append(o, b...)
			}
			return o
		}
		rep := func(b byte, n int) []byte { return bytes.Repeat([]byte{b}, n) }
		groups := [][]pv{
			// values at the upper bounds of their encodings
			{{"alpn-id-254", par(1, append([]byte{254}, rep('a', 254)...)...)}, {"alpn-id-255", par(1, append([]byte{255}, rep('a', 255)...)...)}, {"alpn-two-ids-255", par(1, append(append([]byte{255}, rep('a', 255)...), append([]byte{255}, rep('b', 255)...)...)...)}},
			{{"ipv4hint-64", par(4, rep(9, 256)...)}, {"ipv6hint-16", par(6, rep(0x20, 256)...)}, {"ech-1000", par(5, rep(7, 1000)...)}, {"dohpath-300", par(7, rep('/', 300)...)}, {"local-2000", par(65280, rep(1, 2000)...)}, {"mandatory-many", cat(par(0, 0, 1, 0, 3, 0, 4, 0, 5, 0, 6), par(1, 2, 'h', '2'), par(3, 1, 187), par(4, 1, 2, 3, 4), par(5, 1), par(6, rep(0x20, 16)...))}},
			{{"alpn-canonical", par(1, 2, 'h', '2')}, {"alpn-empty-id", par(1, 0)}, {"alpn-empty-id-then-h2", par(1, 0, 2, 'h', '2')}, {"alpn-h2-then-empty-id", par(1, 2, 'h', '2', 0)}, {"alpn-empty-value", par(1)}},
			{{"mandatory-sorted", cat(par(0, 0, 1, 0, 3), par(1, 2, 'h', '2'), par(3, 1, 187))}, {"mandatory-unsorted", cat(par(0, 0, 3, 0, 1), par(1, 2, 'h', '2'), par(3, 1, 187))}, {"mandatory-repeated", cat(par(0, 0, 1, 0, 1), par(1, 2, 'h', '2'), par(3, 1, 187))}},
			{{"port", par(3, 1, 187)}, {"port-short", par(3, 1)}, {"port-long", par(3, 1, 187, 0)}},
			{{"ipv4hint", par(4, 192, 0, 2, 1)}, {"ipv4hint-empty", par(4)}, {"ipv4hint-5", par(4, 192, 0, 2, 1, 0)}},
			{{"ipv6hint", par(6, 0x20, 1, 0xd, 0xb8, 0, 0, 0, 0, 0, 0, 0, 0, 0, 0, 0, 1)}, {"ipv6hint-mapped-v4", par(6, 0, 0, 0, 0, 0, 0, 0, 0, 0, 0, 0xff, 0xff, 192, 0, 2, 1)}},
			{{"no-default-alpn", cat(par(1, 2, 'h', '2'), par(2))}, {"no-default-alpn-with-value", cat(par(1, 2, 'h', '2'), par(2, 0))}},
			{{"keys-sorted", cat(par(3, 1, 187), par(5, 1, 2))}, {"keys-unsorted", cat(par(5, 1, 2), par(3, 1, 187))}, {"keys-repeated", cat(par(3, 1, 187), par(3, 1, 187))}},
			{{"dohpath", par(7, '/', 'q')}, {"dohpath-empty", par(7)}, {"ohttp", par(8)}, {"ohttp-with-value", par(8, 1)}, {"local", par(65280, 1, 2, 3)}, {"local-empty", par(65280)}, {"reserved-key", par(65535)}},
		}
		for _, typ := range []uint16{dns.TypeSVCB, dns.TypeHTTPS} {
			for _, g := range groups {
				var rrs []dns.RR
				var rds [][]byte
				var names []string
				for _, v := range g {
					rd := append([]byte{0, 1, 0}, v.val...)
					w := append([]byte{1, 's', 0, byte(typ >> 8), byte(typ), 0, 1, 0, 0, 0, 9, byte(len(rd) >> 8), byte(len(rd))}, rd...)
					rr, _, err := dns.UnpackRR(w, 0)
					if err != nil {
						st["svcb_wire_rejected_"+v.name]++
						continue
					}
					st["svcb_wire_accepted"]++
					if got := isDup(rr, rr); got != "ok:true" {
						Viol("C20/wire/svcb/"+v.name+"/not-own-duplicate", "a "+dns.TypeToString[typ]+" record taken from the wire is not a duplicate of itself: "+got, map[string]string{"rdata": Hx(rd)})
					}
					var cp dns.RR
					if Protect(func() string { cp = dns.Copy(rr); return "ok" }) == "ok" {
						if got := isDup(rr, cp); got != "ok:true" {
							Viol("C20/wire/svcb/"+v.name+"/not-duplicate-of-copy", "a "+dns.TypeToString[typ]+" record taken from the wire is not a duplicate of its copy: "+got, map[string]string{"rdata": Hx(rd)})
						}
					}
					buf := make([]byte, 8192)
					if _, err := dns.PackRR(rr, buf, 0, nil, false); err != nil {
						Viol("C20/wire/svcb/"+v.name+"/not-packable", "a "+dns.TypeToString[typ]+" record taken from the wire cannot be packed again: "+err.Error(), map[string]string{"rdata": Hx(rd)})
					}
					rrs, rds, names = append(rrs, rr), append(rds, rd), append(names, v.name)
				}
				for i := range rrs {
					for j := i + 1; j < len(rrs); j++ {
						want := "ok:" + Btoa(Hx(rds[i]) == Hx(rds[j]))
						got, back := isDup(rrs[i], rrs[j]), isDup(rrs[j], rrs[i])
						if got != want || back != want {
							Viol("C20/wire/svcb/"+names[i]+"-vs-"+names[j], dns.TypeToString[typ]+" records from the wire with different RDATA octets: IsDuplicate = "+got+" / "+back, map[string]string{"a": Hx(rds[i]), "b": Hx(rds[j])})
						}
					}
				}
			}
		}
	}
	// records obtained from the wire through ONE receive buffer that is reused for the next message (what a
	// server or client loop does): the comparison of the first record with the second must be what it is for
	// the same two records decoded from buffers of their own
	for _, t := range AllTypes() {
		reps := 3
		if t == dns.TypeSVCB || t == dns.TypeHTTPS || t == dns.TypeOPT || t == dns.TypeAPL {
			reps = 40 // many parameter / option kinds, each with a decoder of its own
		}
		for k := 0; k < reps; k++ {
			r1, i1 := GenRR(r, pool, t, false)
			r2, i2 := GenRR(r, pool, t, false)
			if r1 == nil || r2 == nil || !i1.WellFormed || !i2.WellFormed {
				continue
			}
			r2.Header().Name, r2.Header().Class = r1.Header().Name, r1.Header().Class
			b1, b2 := make([]byte, 4096), make([]byte, 4096)
			o1, e1 := dns.PackRR(r1, b1, 0, nil, false)
			o2, e2 := dns.PackRR(r2, b2, 0, nil, false)
			if e1 != nil || e2 != nil {
				continue
			}
			own1, _, e3 := dns.UnpackRR(append([]byte{}, b1[:o1]...), 0)
			own2, _, e4 := dns.UnpackRR(append([]byte{}, b2[:o2]...), 0)
			if e3 != nil || e4 != nil {
				continue
			}
			shared := make([]byte, 4096)
			copy(shared, b1[:o1])
			a, _, e5 := dns.UnpackRR(shared[:o1], 0)
			for i := range shared {
				shared[i] = 0xAA
			}
			copy(shared, b2[:o2])
			b, _, e6 := dns.UnpackRR(shared[:o2], 0)
			if e5 != nil || e6 != nil {
				continue
			}
			st["buffer_reuse_pairs_checked"]++
			if got, want := isDup(a, b), isDup(own1, own2); got != want {
				Viol("C20/wire/receive-buffer-reused/"+dns.TypeToString[t], "two records decoded one after the other from one reused buffer: IsDuplicate = "+got+", decoded from buffers of their own: "+want, map[string]string{"a": own1.String(), "b": own2.String()})
			}
			if got := isDup(a, own1); got != "ok:true" && t != dns.TypeOPT {
				Viol("C20/wire/receive-buffer-reused/"+dns.TypeToString[t], "a record decoded from a buffer that was reused afterwards is no longer a duplicate of the same record decoded from its own buffer: "+got, map[string]string{"a": own1.String(), "now": a.String()})
			}
		}
	}
	// IsDuplicate and Dedup called from many goroutines at once, each on lists and records of its own: every
	// result equals the one computed sequentially beforehand (a correct library gives it under any schedule)
	{
		type job struct {
			list []dns.RR
			want string
		}
		show := func(out []dns.RR) string {
			var sb strings.Builder
			for _, rr := range out {
				sb.WriteString(rr.String())
				sb.WriteByte('\n')
			}
			return sb.String()
		}
		mk := func(g, i int) []dns.RR {
			var l []dns.RR
			for k := 0; k < 5; k++ {
				name := "Host" + Itoa(g) + "-" + Itoa(i%7) + ".Example.org."
				if k%2 == 1 {
					name = strings.ToLower(name)
				}
				rr, _ := dns.NewRR(name + " " + Itoa(300-k*10+g) + " IN TXT \"job " + Itoa(g) + "/" + Itoa(i%7) + "/" + Itoa(k/2) + "\"")
				l = append(l, rr)
			}
			return l
		}
		const G, N = 8, 400
		jobs := make([][]job, G)
		for g := 0; g < G; g++ {
			for i := 0; i < N; i++ {
				l := mk(g, i)
				cp := make([]dns.RR, len(l))
				for k := range l {
					cp[k] = dns.Copy(l[k])
				}
				jobs[g] = append(jobs[g], job{list: l, want: show(dns.Dedup(cp, nil))})
			}
		}
		if runtime.GOMAXPROCS(0) < 4 {
			runtime.GOMAXPROCS(4)
		}
		var wg sync.WaitGroup
		var mu sync.Mutex
		bad := map[string]string{}
		start := make(chan struct{})
		for g := 0; g < G; g++ {
			wg.Add(1)
			go func(g int) {
				defer wg.Done()
				<-start
				for _, j := range jobs[g] {
					got, dup := "", false
					if res := Protect(func() string {
						got = show(dns.Dedup(j.list, nil))
						dup = dns.IsDuplicate(j.list[0], j.list[0])
						return "ok"
					}); res != "ok" {
						got = res
					}
					if got != j.want || !dup {
						mu.Lock()
						if len(bad) < 3 {
							bad[j.want] = got
						}
						mu.Unlock()
					}
				}
			}(g)
		}
		close(start)
		wg.Wait()
		st["concurrent_dedup_jobs"] = G * N
		for want, got := range bad {
			Viol("C20/Dedup/concurrent", "Dedup called from 8 goroutines on lists of their own gives another result than the same call alone", map[string]string{"alone": want, "concurrent": got})
		}
	}
	// Dedup when the SAME record value occurs more than once in the list (a cached record appended twice)
	{
		a, _ := dns.NewRR("same.example. 300 IN A 192.0.2.1")
		b, _ := dns.NewRR("other.example. 300 IN A 192.0.2.2")
		a2, _ := dns.NewRR("SAME.example. 100 IN A 192.0.2.1")
		for _, list := range [][]dns.RR{{a, a}, {a, b, a}, {b, a, a, b, a2}, {a, a2, a}, {a}} {
			groups := map[string]bool{}
			for _, rr := range list {
				groups[strings.ToLower(rr.Header().Name)] = true
			}
			for _, withMap := range []bool{false, true} {
				var m map[string]dns.RR
				if withMap {
					m = map[string]dns.RR{}
				}
				in := append([]dns.RR{}, list...)
				out := dns.Dedup(in, m)
				st["dedup_same_value_checked"]++
				if len(out) != len(groups) {
					Viol("C20/Dedup/same-value-twice", "Dedup of a list of "+Itoa(len(list))+" in which one record value occurs several times keeps "+Itoa(len(out))+" records for "+Itoa(len(groups))+" groups", nil)
				}
			}
		}
	}
	// slices of different length
	{
		a := &dns.TXT{Hdr: dns.RR_Header{Name: "t.", Rrtype: dns.TypeTXT, Class: 1}, Txt: []string{"a", "b"}}
		c := &dns.TXT{Hdr: dns.RR_Header{Name: "t.", Rrtype: dns.TypeTXT, Class: 1}, Txt: []string{"a"}}
		for _, p := range [][2]dns.RR{{a, c}, {c, a}} {
			got := isDup(p[0], p[1])
			emit(p[0], p[1], got)
			if got != "ok:false" {
				Viol("C20/TXT/length-ignored", "TXT records with a different number of strings: "+got, nil)
			}
		}
		s1, _ := dns.NewRR("s. 1 IN SVCB 1 . alpn=h2")
		s2, _ := dns.NewRR("s. 1 IN SVCB 1 . alpn=h2 port=53")
		for _, p := range [][2]dns.RR{{s1, s2}, {s2, s1}} {
			got := isDup(p[0], p[1])
			emit(p[0], p[1], got)
			if got != "ok:false" {
				Viol("C20/SVCB/length-ignored", "SVCB records with a different number of parameters: "+got, nil)
			}
		}
	}
	// Dedup
	for i := 0; i < ndedup; i++ {
		k := 1 + r.Intn(8)
		var base []dns.RR
		for j := 0; j < k; j++ {
			t := []uint16{dns.TypeA, dns.TypeMX, dns.TypeTXT, dns.TypeNS, dns.TypeAAAA, dns.TypeSRV}[r.Intn(6)]
			rr, _ := GenRR(r, pool, t, false)
			rr.Header().Class = 1
			base = append(base, rr)
		}
		var rrs []dns.RR
		var group []int
		for j := 0; j < 1+r.Intn(14); j++ {
			g := r.Intn(len(base))
			c := dns.Copy(base[g])
			c.Header().Ttl = uint32(r.Intn(1000))
			if i%3 == 0 { // the whole 32-bit range, around the sign bit and the ends
				c.Header().Ttl = []uint32{0, 1, 1<<31 - 1, 1 << 31, 1<<31 + 1, 1<<32 - 2, 1<<32 - 1, uint32(r.Intn(1 << 30)), 1<<31 + uint32(r.Intn(1<<30))}[r.Intn(9)]
			}
			if r.Bool() {
				c.Header().Name = flipNameCase(r, c.Header().Name)
			}
			rrs = append(rrs, c)
			group = append(group, g)
		}
		// expected: first occurrence of each group, in order, with the group's minimum TTL
		type exp struct {
			idx int
			ttl uint32
		}
		var want []exp
		seen := map[int]int{}
		for j, g := range group {
			if p, ok := seen[g]; ok {
				if rrs[j].Header().Ttl < want[p].ttl {
					want[p].ttl = rrs[j].Header().Ttl
				}
				continue
			}
			seen[g] = len(want)
			want = append(want, exp{j, rrs[j].Header().Ttl})
		}
		var items []string
		for _, rr := range rrs {
			items = append(items, Hs(dns.VerifNormalizedString(rr))+":"+Itoa(int(rr.Header().Ttl)))
		}
		ptrs := append([]dns.RR{}, rrs...)
		out := dns.Dedup(rrs, nil)
		st["dedup_checked"]++
		var got []string
		okd := len(out) == len(want)
		for q, o := range out {
			idx := -1
			for j, p := range ptrs {
				if p == o {
					idx = j
				}
			}
			got = append(got, Itoa(idx)+":"+Itoa(int(o.Header().Ttl)))
			if okd && (idx != want[q].idx || o.Header().Ttl != want[q].ttl) {
				okd = false
			}
		}
		if !okd {
			Viol("C20/Dedup/wrong-result", "Dedup does not return the first occurrence of each group in order with the minimum TTL", map[string]any{"items": items, "got": got})
		}
		if i < 200 {
			Emit("dedup", []string{strings.Join(items, ",")}, strings.Join(got, ","))
		}
		if i < 60 {
			for _, rr := range ptrs[:1] {
				Emit("normalize", []string{Hs(rr.String())}, Hs(dns.VerifNormalizedString(rr)))
			}
		}
	}
	Stat(st)
}

// a private record type (dns.PrivateHandle): IsDuplicate must be an equivalence on these too
type privData struct{ b []byte }

func (d *privData) String() string { return hex.EncodeToString(d.b) }
func (d *privData) Parse(s []string) error {
	b, err := hex.DecodeString(strings.Join(s, ""))
	d.b = b
	return err
}
func (d *privData) Pack(buf []byte) (int, error) {
	if len(buf) < len(d.b) {
		return 0, dns.ErrBuf
	}
	return copy(buf, d.b), nil
}
func (d *privData) Unpack(buf []byte) (int, error) {
	d.b = append([]byte(nil), buf...)
	return len(buf), nil
}
func (d *privData) Copy(dst dns.PrivateRdata) error {
	dst.(*privData).b = append([]byte(nil), d.b...)
	return nil
}
func (d *privData) Len() int { return len(d.b) }

func privateRecords(r *Rng) {
	const code = 65301
	dns.PrivateHandle("VPRIV", code, func() dns.PrivateRdata { return new(privData) })
	defer dns.PrivateHandleRemove(code)
	for i := 0; i < 8; i++ {
		rr := dns.TypeToRR[code]().(*dns.PrivateRR) // made by the registered generator, as the decoder and the zone parser do
		rr.Hdr = dns.RR_Header{Name: "p.example.", Rrtype: code, Class: 1, Ttl: uint32(r.Intn(1000))}
		rr.Data.(*privData).b = r.Bytes(r.Intn(12))
		st["private_records_checked"]++
		in := map[string]string{"rr": rr.String()}
		d := isDup(rr, rr)
		if d != "ok:true" {
			Viol("C20/PrivateRR/not-reflexive", "IsDuplicate(r, r) = "+d, in)
		}
		if d2 := isDup(rr, dns.Copy(rr)); d2 != d {
			Viol("C20/PrivateRR/copy-differs", "IsDuplicate(r, Copy(r)) = "+d2, in)
		}
	}
}
