package main

// C13 family Q: input that reaches no handler FOLLOWED BY several requests in flight at once.
//
// "For every interleaving of start, connection accept, request arrival, handler execution and
// Shutdown ... with 0..k in-flight requests ... replies written by those handlers are still
// delivered ... none of this involves a data race."  Family N put every kind of input that reaches
// no handler on every path to Shutdown, but what came after such input was at most ONE query at a
// time, and the only thing ever looked at was the order of events.  Whether the k requests that are
// in flight together afterwards are still k DIFFERENT requests - each worker working on the
// datagram it was started for, each reply going to the peer that asked - was never observed: the
// event log says "handler of c entered", not what that handler was given.  The paths that dispose
// of a datagram without a handler (short datagram in serveUDP; response, unsupported opcode,
// over-populated query, undecodable body, MsgAcceptFunc ignore / reject / not-implemented in
// serveDNS) all hand the receive buffer back to the server's pool on their own; a mistake there
// (back twice, or back while still in use) is invisible until two later datagrams are in flight
// together, when the serve loop reads the second into the memory the first worker has not decoded
// yet - an unsynchronised write / read between the serve loop and a worker.
//
// The class, in general form: {each of 10 kinds of datagram that reaches no handler} x {one or two
// of them} x {first thing the server sees | after a served query} x {3..6 requests in flight
// together} x {where the workers are parked: inside MsgAcceptFunc, i.e. after the header but BEFORE
// the body is decoded, datagram j+1 delivered only when worker j is parked there | inside the
// handler, same sequencing | all k datagrams readable at once, workers parked in the handler} x
// {UDPSize default, 4096} x {release in arrival order, in reverse}.
//
// Oracle, from the property text (every handler that was started belongs to a request that arrived;
// its reply is delivered): the worker started for the datagram of peer j hands the handler exactly
// that datagram's request (ID and question), exactly once, and exactly one reply with that ID and
// question goes to peer j; nothing goes to anybody else; the no-handler datagrams start no handler.
// Verdicts are given only when every step of the script happened (a wait that expires is counted
// as infrastructure, never reported).
//
// Forcing: a single P (GOMAXPROCS(1)) and no garbage collection for the length of a scenario, so
// that which buffer sync.Pool hands out next is a function of the Put / Get history and not of the
// scheduler; the workers are parked on channels; after a no-handler datagram the harness waits for
// the user callback that precedes its disposal (MsgAcceptFunc / MsgInvalidFunc) and then for the
// goroutine count to be back at the idle value (the worker has returned, so whatever it does with
// the buffer is done).  None of this is needed for soundness: on a correct server the oracle holds
// under every schedule.
//
// No model case: what a worker's buffer contains is not part of the LTS (Model/ServerLts.v has
// workers and events, not octets).

import (
	"fmt"
	"net"
	"runtime"
	"runtime/debug"
	"strings"
	"sync"
	"time"

	"github.com/miekg/dns"
	. "verif/harness/common"
	"verif/harness/netfake"
)

type pdCase struct {
	Kind    string `json:"no_handler_datagram"`
	NDrop   int    `json:"how_many"`
	After   bool   `json:"after_a_served_query"`
	K       int    `json:"requests_in_flight"`
	Park    string `json:"workers_parked"`
	UDPSize int    `json:"udpsize"`
	Rev     bool   `json:"released_in_reverse"`
}

var pdKinds = []string{"short-0", "short-11", "response", "opcode-3", "two-questions", "bad-body", "self-pointer",
	"user-ignore", "user-reject", "user-notimp"}

const (
	pdServedID = 0x0f00
	pdReqID    = 0x1000
	pdDropID   = 0x2000
)

func pdQuery(id uint16, name string) []byte {
	m := new(dns.Msg)
	m.SetQuestion(name, dns.TypeA)
	m.Id = id
	b, err := m.Pack()
	if err != nil {
		panic(err)
	}
	return b
}

// pdDrop builds the i-th datagram of the given kind and says what the user's MsgAcceptFunc is to
// answer for its ID (0 = the default policy decides).
func pdDrop(kind string, i int) (b []byte, verdict dns.MsgAcceptAction, viaAccept bool) {
	id := uint16(pdDropID + i)
	q := pdQuery(id, fmt.Sprintf("nohandler%d.q.test.", i))
	switch kind {
	case "short-0":
		return []byte{}, 0, false
	case "short-11":
		return q[:11], 0, false
	case "response":
		q[2] |= 0x80
		return q, 0, true
	case "opcode-3":
		q[2] = q[2]&^0x78 | 3<<3
		return q, 0, true
	case "two-questions":
		q[5] = 2
		q = append(q, 1, 'x', 0, 0, 1, 0, 1)
		return q, 0, true
	case "bad-body": // a label that runs past the end
		return append(q[:12:12], 0x3f, 'a', 'b'), 0, true
	case "self-pointer":
		return append(q[:12:12], 0xc0, 12, 0, 1, 0, 1), 0, true
	case "user-ignore":
		return q, dns.MsgIgnore, true
	case "user-reject":
		return q, dns.MsgReject, true
	case "user-notimp":
		return q, dns.MsgRejectNotImplemented, true
	}
	panic(kind)
}

type pdSeen struct {
	Peer int
	ID   uint16
	Name string
}

func pooledBufferCases(r *Rng, thorough bool) []pdCase {
	var cs []pdCase
	i := 0
	for _, kind := range pdKinds {
		for _, park := range []string{"accept", "handler", "burst"} {
			cs = append(cs, pdCase{Kind: kind, NDrop: 1 + i%2, After: i%3 == 1, K: []int{3, 4, 6}[i%3], Park: park,
				UDPSize: []int{0, 4096}[(i/2)%2], Rev: i%4 >= 2})
			i++
		}
	}
	n := 30
	if thorough {
		n = 400
	}
	for ; n > 0; n-- {
		cs = append(cs, pdCase{Kind: pdKinds[r.Intn(len(pdKinds))], NDrop: 1 + r.Intn(3), After: r.Bool(), K: 3 + r.Intn(6),
			Park: []string{"accept", "handler", "burst"}[r.Intn(3)], UDPSize: []int{0, 512, 1232, 4096}[r.Intn(4)], Rev: r.Bool()})
	}
	return cs
}

func inFlightAfterNoHandlerInput(r *Rng, thorough bool) {
	for _, c := range pooledBufferCases(r, thorough) {
		st["family_inflight_after_no_handler_input"]++
		pooledBufferScenario(c)
	}
}

func pooledBufferScenario(c pdCase) {
	oldP := runtime.GOMAXPROCS(1)
	defer runtime.GOMAXPROCS(oldP)
	oldGC := debug.SetGCPercent(-1)
	defer debug.SetGCPercent(oldGC)

	const wait = 10 * time.Second
	infra := func(what string) {
		st["inflight_infra_"+what]++
	}

	var mu sync.Mutex
	var handled, replied []pdSeen
	verdicts := map[uint16]dns.MsgAcceptAction{}
	tokens := make(chan struct{}, 64) // one per MsgAcceptFunc / MsgInvalidFunc call that disposes of a datagram
	parked := make([]chan struct{}, c.K)
	release := make([]chan struct{}, c.K)
	for j := range parked {
		parked[j] = make(chan struct{}, 4)
		release[j] = make(chan struct{})
	}
	servedReply := make(chan struct{}, 4)
	park := func(j int) {
		if j < 0 || j >= c.K {
			return
		}
		parked[j] <- struct{}{}
		select {
		case <-release[j]:
		case <-time.After(3 * wait):
		}
	}

	pc := netfake.NewPacketConn(nil, nil)
	pc.OnWrite = func(to net.Addr, b []byte) {
		s := pdSeen{Peer: -99, ID: 0, Name: "undecodable"}
		if a, ok := to.(netfake.Addr); ok {
			s.Peer = a.N
		}
		var m dns.Msg
		if err := m.Unpack(b); err == nil {
			s.ID = m.Id
			s.Name = "no-question"
			if len(m.Question) > 0 {
				s.Name = m.Question[0].Name
			}
		}
		mu.Lock()
		replied = append(replied, s)
		mu.Unlock()
		if s.Peer == 1000 {
			servedReply <- struct{}{}
		}
	}
	started := make(chan struct{})
	srv := &dns.Server{PacketConn: pc, UDPSize: c.UDPSize, NotifyStartedFunc: func() { close(started) }}
	srv.MsgInvalidFunc = func(m []byte, err error) {
		select {
		case tokens <- struct{}{}:
		default:
		}
	}
	srv.MsgAcceptFunc = func(dh dns.Header) dns.MsgAcceptAction {
		mu.Lock()
		v, user := verdicts[dh.Id]
		mu.Unlock()
		act := dns.DefaultMsgAcceptFunc(dh)
		if user {
			act = v
		}
		if dh.Id >= pdDropID {
			select {
			case tokens <- struct{}{}:
			default:
			}
		}
		if act == dns.MsgAccept && c.Park == "accept" && dh.Id >= pdReqID && dh.Id < pdDropID {
			park(int(dh.Id) - pdReqID)
		}
		return act
	}
	srv.Handler = dns.HandlerFunc(func(w dns.ResponseWriter, req *dns.Msg) {
		s := pdSeen{Peer: -99, ID: req.Id, Name: "no-question"}
		if a, ok := w.RemoteAddr().(netfake.Addr); ok {
			s.Peer = a.N
		}
		if len(req.Question) > 0 {
			s.Name = req.Question[0].Name
		}
		mu.Lock()
		handled = append(handled, s)
		mu.Unlock()
		if c.Park != "accept" {
			park(s.Peer)
		}
		m := new(dns.Msg)
		m.SetReply(req)
		w.WriteMsg(m)
	})

	done := make(chan error, 1)
	go func() { done <- srv.ActivateAndServe() }()
	ok := netfake.WaitChan(started, wait) && netfake.WaitChan(pc.Drained, wait)
	if !ok {
		infra("start")
	}
	idle := runtime.NumGoroutine()
	settle := func() { // the worker of the last datagram has returned
		for t0 := time.Now(); runtime.NumGoroutine() > idle; {
			if time.Since(t0) > time.Second {
				st["inflight_settle_not_observed"]++
				return
			}
			time.Sleep(200 * time.Microsecond)
		}
	}
	token := func(what string) bool {
		select {
		case <-tokens:
			return true
		case <-time.After(wait):
			infra(what)
			return false
		}
	}

	if ok && c.After {
		pc.Push(pdQuery(pdServedID, "served.q.test."), netfake.Addr{N: 1000})
		select {
		case <-servedReply:
			settle()
		case <-time.After(wait):
			infra("served-query")
			ok = false
		}
	}
	for i := 0; ok && i < c.NDrop; i++ {
		b, v, _ := pdDrop(c.Kind, i)
		if strings.HasPrefix(c.Kind, "user-") {
			mu.Lock()
			verdicts[uint16(pdDropID+i)] = v
			mu.Unlock()
		}
		pc.Push(b, netfake.Addr{N: 2000 + i})
		ok = token("no-handler-datagram")
		// an undecodable body calls both callbacks: drain the second token
		settle()
		for len(tokens) > 0 {
			<-tokens
		}
	}
	names := make([]string, c.K)
	for j := range names {
		names[j] = fmt.Sprintf("inflight%d.of%d.q.test.", j, c.K)
	}
	nparked := 0
	if ok {
		for j := 0; j < c.K; j++ {
			pc.Push(pdQuery(uint16(pdReqID+j), names[j]), netfake.Addr{N: j})
			if c.Park != "burst" {
				select {
				case <-parked[j]:
					nparked++
				case <-time.After(wait):
					infra("request-not-parked")
					ok = false
				}
				if !ok {
					break
				}
			}
		}
		if c.Park == "burst" {
			for j := 0; j < c.K; j++ {
				select {
				case <-parked[j]:
					nparked++
				case <-time.After(wait):
					infra("request-not-parked")
					ok = false
				}
			}
		}
	}
	// everything that arrived is in flight now: let the workers go on
	for x := 0; x < c.K; x++ {
		j := x
		if c.Rev {
			j = c.K - 1 - x
		}
		close(release[j])
		if ok {
			for t0 := time.Now(); time.Since(t0) < wait; time.Sleep(100 * time.Microsecond) {
				mu.Lock()
				n := 0
				for _, s := range replied {
					if s.Peer >= 0 && s.Peer < c.K {
						n++
					}
				}
				mu.Unlock()
				if n >= x+1 {
					break
				}
			}
		}
	}
	sd := make(chan error, 1)
	go func() { sd <- srv.Shutdown() }()
	select {
	case <-sd:
	case <-time.After(wait):
		infra("shutdown")
		ok = false
	}
	select {
	case <-done:
	case <-time.After(wait):
		infra("serve-return")
		ok = false
	}
	if !ok {
		st["inflight_scenarios_without_verdict"]++
		return
	}
	st["inflight_scenarios_checked"]++
	st["inflight_requests_checked"] += c.K

	mu.Lock()
	defer mu.Unlock()
	in := struct {
		Case    pdCase   `json:"scenario"`
		Handled []pdSeen `json:"handler_calls_peer_id_question"`
		Replied []pdSeen `json:"replies_peer_id_question"`
	}{c, handled, replied}
	for j := 0; j < c.K; j++ {
		want := pdSeen{Peer: j, ID: uint16(pdReqID + j), Name: names[j]}
		var hs, rs []pdSeen
		for _, s := range handled {
			if s.Peer == j {
				hs = append(hs, s)
			}
		}
		for _, s := range replied {
			if s.Peer == j {
				rs = append(rs, s)
			}
		}
		if len(hs) != 1 {
			Viol("C13/in-flight-request-handler-count", fmt.Sprintf("the request of peer %d (%s) was in flight together with %d others after a datagram that reaches no handler; its worker started %d handlers, want 1", j, names[j], c.K-1, len(hs)), in)
		} else if hs[0] != want {
			Viol("C13/in-flight-request-mixed-up", fmt.Sprintf("the worker started for the datagram of peer %d (ID %#04x, %s) gave the handler the request ID %#04x, %s: a request that was in flight at the same time", j, want.ID, want.Name, hs[0].ID, hs[0].Name), in)
		}
		if len(rs) != 1 {
			Viol("C13/in-flight-reply-count", fmt.Sprintf("peer %d (%s) got %d replies, want the one its handler wrote", j, names[j], len(rs)), in)
		} else if rs[0] != want {
			Viol("C13/in-flight-reply-mixed-up", fmt.Sprintf("peer %d asked ID %#04x, %s and was sent the reply ID %#04x, %s", j, want.ID, want.Name, rs[0].ID, rs[0].Name), in)
		}
	}
	nreq := 0
	for _, s := range handled {
		switch {
		case s.Peer >= 0 && s.Peer < c.K:
			nreq++
		case s.Peer == 1000 && s.ID == pdServedID:
		default:
			Viol("C13/handler-for-no-handler-input", fmt.Sprintf("a handler was started for peer %d, request ID %#04x, %s: no such request arrived", s.Peer, s.ID, s.Name), in)
		}
	}
}
