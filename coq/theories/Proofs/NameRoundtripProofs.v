(* Proofs/NameRoundtripProofs.v — wire labels -> text -> wire, and wire -> text by
   UnpackDomainName. *)
From Dns Require Import Base.ListX Model.Labels Model.NameWire Spec.NameSpec
  Proofs.EscapeProofs Proofs.TokenProofs Proofs.LabelsProofs Proofs.NameWireProofs.
From Coq Require Import Lia ZifyN ZifyNat ZifyBool.
Open Scope N_scope.

(* ---------- reading back the printed form of one octet ---------- *)
Lemma parse_go_show_octet b rest lab acc : b < 256 ->
  parse_go (show_octet b ++ rest) lab acc = parse_go rest (lab ++ [b]) acc.
Proof.
  intro Hb. unfold show_octet.
  destruct (label_special b) eqn:Hsp.
  - (* \c with c special: never a digit, so not a \DDD *)
    assert (Hnd : is_digit b = false).
    { assert (H : implb (label_special b) (negb (is_digit b)) = true).
      { revert b Hb Hsp. intros b Hb _. revert b Hb. apply octet_sweep. vm_compute. reflexivity. }
      rewrite Hsp in H. cbn in H. now destruct (is_digit b). }
    cbn [app]. rewrite parse_go_esc; [reflexivity|].
    destruct rest as [|x [|y r]]; cbn; rewrite ?Hnd; reflexivity.
  - destruct ((b <? 32) || (126 <? b)) eqn:Hnp.
    + (* \DDD *)
      unfold ddd. cbn [app].
      assert (Hd : ddd3 (48 + b / 100) (48 + (b / 10) mod 10) (48 + b mod 10) = true).
      { unfold ddd3, is_digit. lia. }
      rewrite parse_go_ddd by exact Hd. f_equal. f_equal. f_equal.
      unfold ddd_to_byte. lia.
    + (* printable, not special: a plain octet *)
      cbn [app]. apply parse_go_plain.
      * intro E. subst b. discriminate.
      * intro E. subst b. discriminate.
Qed.

Lemma parse_go_show_label l : forall rest lab acc, wfb l ->
  parse_go (show_label l ++ rest) lab acc = parse_go rest (lab ++ l) acc.
Proof.
  unfold show_label. induction l as [|b l IH]; intros rest lab acc Hw.
  - cbn. now rewrite app_nil_r.
  - inversion Hw as [|? ? Hb Hl]; subst. cbn [flat_map]. rewrite <- app_assoc.
    rewrite parse_go_show_octet by exact Hb. rewrite IH by exact Hl.
    now rewrite <- app_assoc.
Qed.

Lemma parse_go_show_labels ls : forall acc, Forall wfb ls ->
  parse_go (show_labels ls) [] acc = Some (rev acc ++ ls).
Proof.
  induction ls as [|l ls IH]; intros acc Hw.
  - cbn. now rewrite app_nil_r.
  - inversion Hw as [|? ? Hl Hls]; subst. rewrite show_labels_cons.
    rewrite parse_go_show_label by exact Hl. cbn [app parse_go].
    rewrite IH by exact Hls. cbn [rev]. now rewrite <- app_assoc.
Qed.

Lemma labels_ok_wf ls : labels_ok ls = true -> labels_wf ls /\ Forall wfb ls.
Proof.
  unfold labels_ok, labels_wf. rewrite forallb_forall. intro H. split; apply Forall_forall; intros l Hl;
    specialize (H l Hl); unfold label_ok in H; apply andb_prop in H; destruct H as [H1 H2];
    apply andb_prop in H1; destruct H1 as [H0 H1].
  - split.
    + destruct l; [cbn in H0; discriminate|discriminate].
    + unfold wfbb in H2. rewrite forallb_forall in H2. apply Forall_forall. intros b Hb. specialize (H2 b Hb). lia.
  - unfold wfbb in H2. rewrite forallb_forall in H2. apply Forall_forall. intros b Hb. specialize (H2 b Hb). lia.
Qed.

(* the text of a valid wire name denotes exactly its labels *)
Theorem parse_show_name ls : valid_wire ls = true -> parse_name (show_name ls) = Some ls.
Proof.
  unfold valid_wire. intro H. apply andb_prop in H. destruct H as [Hok _].
  destruct (labels_ok_wf ls Hok) as [Hwf Hw].
  destruct ls as [|l ls]; [reflexivity|].
  unfold show_name. rewrite parse_name_nonroot.
  - now rewrite parse_go_show_labels.
  - apply show_labels_nonempty.
  - intro E. rewrite show_labels_cons in E.
    inversion Hwf as [|? ? [Hne Hlw] _]; subst.
    pose proof (show_label_hd_not_dot l Hne Hlw) as Hh. pose proof (show_label_nonempty l Hne) as Hn.
    destruct (show_label l) as [|a t]; [congruence|]. cbn in E, Hh. injection E as E1 E2. congruence.
Qed.

Lemma is_fqdn_show_name ls : valid_wire ls = true -> is_fqdn (show_name ls) = true.
Proof.
  unfold valid_wire. intro H. apply andb_prop in H. destruct H as [Hok _].
  destruct (labels_ok_wf ls Hok) as [Hwf _].
  destruct ls as [|l ls]; [reflexivity|]. unfold show_name.
  destruct (exists_last (l:=l :: ls) ltac:(discriminate)) as [mid [last E]]. rewrite E in *.
  apply Forall_app in Hwf. destruct Hwf as [H1 H2]. inversion H2; subst.
  now apply is_fqdn_show_labels.
Qed.

Lemma valid_wire_len_ok ls : valid_wire ls = true -> name_len_ok ls = true.
Proof.
  unfold valid_wire, name_len_ok, wire_len, wire_name, labels_ok. intro H.
  apply andb_prop in H. destruct H as [H1 H2]. apply andb_true_intro. split.
  - rewrite forallb_forall in *. intros l Hl. specialize (H1 l Hl). unfold label_ok in H1. unfold label_len_ok.
    apply andb_prop in H1. tauto.
  - rewrite lenN_app in H2. cbn in H2. lia.
Qed.

(* wire -> text -> wire: the printed form packs back to the identical octets *)
Theorem pack_show_name ls cap : valid_wire ls = true -> 320 <= cap ->
  pack_name_plain (show_name ls) cap = Ok (wire_name ls).
Proof.
  intros Hv Hcap.
  destruct (pack_name_plain_spec (show_name ls) ls cap (is_fqdn_show_name ls Hv) (parse_show_name ls Hv) Hcap) as [H _].
  apply H, valid_wire_len_ok, Hv.
Qed.

(* the escaping is unambiguous: different label sequences print differently *)
Theorem show_name_injective a b :
  valid_wire a = true -> valid_wire b = true -> show_name a = show_name b -> a = b.
Proof.
  intros Ha Hb E. pose proof (parse_show_name a Ha) as Pa. pose proof (parse_show_name b Hb) as Pb.
  rewrite E in Pa. congruence.
Qed.

(* ---------- UnpackDomainName on an uncompressed name ---------- *)
Ltac bfalse X := let H := fresh in assert (H : X = false) by lia; rewrite H; clear H.
Ltac btrue X := let H := fresh in assert (H : X = true) by lia; rewrite H; clear H.
Lemma nthN_app_exact {A} (pre : list A) x r d : nthN (pre ++ x :: r) (lenN pre) d = x.
Proof. unfold nthN, lenN. rewrite Nat2N.id, app_nth2, Nat.sub_diag by lia. reflexivity. Qed.
Lemma dropN_app_exact {A} (pre r : list A) : dropN (lenN pre) (pre ++ r) = r.
Proof. unfold dropN, lenN. rewrite Nat2N.id. apply skipn_app_exact. Qed.
Lemma takeN_app_exact {A} (l r : list A) : takeN (lenN l) (l ++ r) = l.
Proof. unfold takeN, lenN. rewrite Nat2N.id. apply firstn_app_exact. Qed.

Definition label_ok_p (l : label) : Prop := 1 <= lenN l <= 63 /\ wfb l.

Lemma un_go_labels ls : forall fuel pre post s off1 budget,
  Forall label_ok_p ls -> (length ls < fuel)%nat ->
  (Z.of_N (lenN (wire_labels ls)) < budget)%Z ->
  un_go fuel (pre ++ wire_labels ls ++ 0 :: post) (lenN pre) s off1 budget 0 =
  Ok (match s ++ show_labels ls with [] => [46] | x => x end,
      lenN pre + lenN (wire_labels ls) + 1).
Proof.
  induction ls as [|l ls IH]; intros fuel pre post s off1 budget Hok Hfuel Hbud.
  - destruct fuel as [|fuel]; [cbn [length] in Hfuel; lia|]. cbn [wire_labels flat_map app un_go].
    rewrite lenN_app, lenN_cons. bfalse (lenN pre + (1 + lenN post) <=? lenN pre).
    rewrite nthN_app_exact. cbn. rewrite app_nil_r. destruct s; f_equal; f_equal; lia.
  - destruct fuel as [|fuel]; [cbn [length] in Hfuel; lia|].
    inversion Hok as [|? ? [[Hl1 Hl63] Hlw] Hok']; subst.
    rewrite wire_labels_cons. cbn [app un_go].
    rewrite lenN_app, lenN_cons, !lenN_app, lenN_cons.
    match goal with |- context [?a <=? lenN pre] => bfalse (a <=? lenN pre) end.
    rewrite nthN_app_exact.
    btrue (lenN l <? 64). bfalse (lenN l =? 0).
    match goal with |- context [?a <? lenN pre + 1 + lenN l] => bfalse (a <? lenN pre + 1 + lenN l) end.
    rewrite wire_labels_cons, lenN_cons, lenN_app in Hbud.
    match goal with |- context [(?b <=? 0)%Z] => bfalse (b <=? 0)%Z end.
    (* the label octets *)
    replace (pre ++ lenN l :: (l ++ wire_labels ls) ++ 0 :: post)
      with ((pre ++ [lenN l]) ++ l ++ wire_labels ls ++ 0 :: post)
      by (rewrite <- !app_assoc; reflexivity).
    replace (lenN pre + 1) with (lenN (pre ++ [lenN l])) by (rewrite lenN_app, lenN_cons, lenN_nil; lia).
    rewrite dropN_app_exact, takeN_app_exact.
    replace ((pre ++ [lenN l]) ++ l ++ wire_labels ls ++ 0 :: post)
      with ((pre ++ lenN l :: l) ++ wire_labels ls ++ 0 :: post)
      by (rewrite <- !app_assoc; reflexivity).
    replace (lenN (pre ++ [lenN l]) + lenN l) with (lenN (pre ++ lenN l :: l))
      by (rewrite !lenN_app, !lenN_cons, lenN_nil; lia).
    rewrite IH; [|exact Hok'|cbn [length] in Hfuel; lia|clear - Hbud; lia].
    rewrite show_labels_cons, <- !app_assoc. cbn [app].
    f_equal. f_equal. repeat rewrite ?lenN_app, ?lenN_cons. lia.
Qed.

Lemma valid_wire_labels_ok ls : valid_wire ls = true -> Forall label_ok_p ls.
Proof.
  unfold valid_wire, labels_ok. intro H. apply andb_prop in H. destruct H as [H _].
  rewrite forallb_forall in H. apply Forall_forall. intros l Hl. specialize (H l Hl).
  unfold label_ok in H. unfold label_ok_p. apply andb_prop in H. destruct H as [H1 H2].
  apply andb_prop in H1. split; [lia|].
  unfold wfbb in H2. rewrite forallb_forall in H2. apply Forall_forall. intros b Hb. specialize (H2 b Hb). lia.
Qed.

Lemma wire_labels_length_ge ls : Forall label_ok_p ls -> N.of_nat (length ls) <= lenN (wire_labels ls).
Proof.
  induction 1 as [|l ls [[H1 _] _] _ IH]; [cbn; lia|].
  rewrite wire_labels_cons, lenN_cons, lenN_app. cbn [length]. lia.
Qed.

(* wire -> text: every valid wire name unpacks to its presentation form and the
   decoder consumes exactly the name *)
Theorem unpack_wire_name ls post : valid_wire ls = true ->
  unpack_name (wire_name ls ++ post) 0 = Ok (show_name ls, wire_len ls).
Proof.
  intro Hv. pose proof (valid_wire_labels_ok ls Hv) as Hok.
  unfold unpack_name, wire_name. rewrite <- app_assoc. cbn [app].
  pose proof (un_go_labels ls unpack_name_fuel [] post [] 0 (Z.of_N max_name_wire) Hok) as H.
  change (lenN (@nil N)) with 0 in H. cbn [app] in H.
  unfold valid_wire, wire_len, wire_name in Hv. apply andb_prop in Hv. destruct Hv as [_ Hlen].
  rewrite lenN_app in Hlen. cbn in Hlen.
  rewrite H.
  - unfold show_name, wire_len, wire_name. rewrite lenN_app. cbn.
    destruct ls as [|l ls]; [reflexivity|].
    pose proof (show_labels_nonempty l ls). destruct (show_labels (l :: ls)); [congruence|].
    reflexivity.
  - pose proof (wire_labels_length_ge ls Hok). unfold unpack_name_fuel. lia.
  - unfold max_name_wire. lia.
Qed.

(* ---------- the library never emits a name it would itself reject ---------- *)
Lemma parse_go_wfb s : forall lab acc ls, wfb s -> wfb lab -> Forall wfb acc ->
  parse_go s lab acc = Some ls -> Forall wfb ls.
Proof.
  induction s as [| a b c r3 Hd IH | a r1 Hd IH | | r IH | x r H1 H2 IH] using tok_ind;
    intros lab acc ls Hs Hlab Hacc Hp.
  - cbn in Hp. destruct lab; [|discriminate]. injection Hp as <-. now apply Forall_rev.
  - rewrite parse_go_ddd in Hp by auto. eapply IH; [| |exact Hacc|exact Hp].
    + unfold wfb in *. do 4 (apply Forall_inv_tail in Hs). exact Hs.
    + unfold wfb. apply Forall_app. split; [exact Hlab|]. constructor; [|constructor].
      unfold ddd_to_byte. lia.
  - rewrite parse_go_esc in Hp by auto. eapply IH; [| |exact Hacc|exact Hp].
    + unfold wfb in *. do 2 (apply Forall_inv_tail in Hs). exact Hs.
    + unfold wfb in *. apply Forall_app. split; [exact Hlab|]. constructor; [|constructor].
      apply Forall_inv_tail in Hs. now apply Forall_inv in Hs.
  - discriminate.
  - cbn [parse_go] in Hp. eapply IH; [| | |exact Hp].
    + unfold wfb in *. now apply Forall_inv_tail in Hs.
    + constructor.
    + constructor; assumption.
  - rewrite parse_go_plain in Hp by auto. eapply IH; [| |exact Hacc|exact Hp].
    + unfold wfb in *. now apply Forall_inv_tail in Hs.
    + unfold wfb in *. apply Forall_app. split; [exact Hlab|]. constructor; [|constructor].
      now apply Forall_inv in Hs.
Qed.

Lemma parse_name_wfb s ls : wfb s -> parse_name s = Some ls -> Forall wfb ls.
Proof.
  intros Hs Hp. unfold parse_name in Hp.
  destruct s as [|x r]; [discriminate|].
  destruct (list_eq_dec N.eq_dec (x :: r) [46]) as [E|E].
  { injection E as -> ->. injection Hp as <-. constructor. }
  fold (parse_name (x :: r)) in Hp. rewrite parse_name_nonroot in Hp by (congruence || discriminate).
  eapply parse_go_wfb; [exact Hs| | |exact Hp]; constructor.
Qed.

Lemma name_len_ok_valid_wire ls : Forall wfb ls -> name_len_ok ls = true -> valid_wire ls = true.
Proof.
  intros Hw H. unfold name_len_ok in H. apply andb_prop in H. destruct H as [H1 H2].
  unfold valid_wire, labels_ok, wire_len, wire_name. apply andb_true_intro. split.
  - rewrite forallb_forall in *. intros l Hl. specialize (H1 l Hl). unfold label_len_ok in H1.
    unfold label_ok. rewrite H1. cbn [andb]. rewrite Forall_forall in Hw. specialize (Hw l Hl).
    unfold wfbb. rewrite forallb_forall. intros b Hb. unfold wfb in Hw. rewrite Forall_forall in Hw.
    specialize (Hw b Hb). lia.
  - rewrite lenN_app. cbn. lia.
Qed.

Theorem packed_name_unpacks s cap w :
  is_fqdn s = true -> wfb s -> 320 <= cap -> pack_name_plain s cap = Ok w ->
  exists ls, parse_name s = Some ls /\ valid_wire ls = true /\ w = wire_name ls /\
             unpack_name w 0 = Ok (show_name ls, lenN w).
Proof.
  intros Hf Hw Hcap Hp. destruct (fqdn_parses s Hf) as [ls Hls].
  destruct (pack_name_plain_spec s ls cap Hf Hls Hcap) as [Hok Hbad].
  destruct (name_len_ok ls) eqn:Hlen.
  - rewrite (Hok eq_refl) in Hp. injection Hp as <-.
    pose proof (name_len_ok_valid_wire ls (parse_name_wfb s ls Hw Hls) Hlen) as Hv.
    exists ls. repeat split; auto.
    pose proof (unpack_wire_name ls [] Hv) as H. rewrite app_nil_r in H. exact H.
  - destruct (Hbad eq_refl) as [e He]. congruence.
Qed.

(* non-vacuity *)
Example name_example :
  let ls := [[119; 46; 119]; [0; 255; 92]; [65]] in
  valid_wire ls = true /\
  show_name ls = bytes_of_string "w\.w.\000\255\\.A." /\
  pack_name_plain (show_name ls) 320 = Ok (wire_name ls) /\
  unpack_name (wire_name ls) 0 = Ok (show_name ls, 11).
Proof. vm_compute. repeat split. Qed.
