package main

// Generators for C05: for every registered RR type the wire RDATA is built
// field by field from the struct tags (an encoder written independently of
// the library's packers), each field drawn from a named value class.

import (
	"encoding/binary"
	"reflect"
	"sort"
	"strconv"
	"strings"

	"github.com/miekg/dns"
	. "verif/harness/common"
)

// one generated field
type fval struct {
	Field string // struct field name
	Class string // value class name
	wire  []byte
}

// a generated record
type grec struct {
	Type   uint16
	Name   [][]byte // owner labels
	NameC  string
	Ttl    uint32
	TtlC   string
	Class  uint16
	ClassC string
	Fields []fval
}

func (g *grec) rdata() []byte {
	var b []byte
	for _, f := range g.Fields {
		b = append(b, f.wire...)
	}
	return b
}

func wireName(ls [][]byte) []byte {
	var w []byte
	for _, l := range ls {
		w = append(w, byte(len(l)))
		w = append(w, l...)
	}
	return append(w, 0)
}

func (g *grec) wire() []byte {
	w := wireName(g.Name)
	var h [10]byte
	binary.BigEndian.PutUint16(h[0:], g.Type)
	binary.BigEndian.PutUint16(h[2:], g.Class)
	binary.BigEndian.PutUint32(h[4:], g.Ttl)
	rd := g.rdata()
	binary.BigEndian.PutUint16(h[8:], uint16(len(rd)))
	w = append(w, h[:]...)
	return append(w, rd...)
}

// ---- flattened struct description ----
type fdesc struct {
	Name string
	Kind string // u8 u16 u32 u48 u64 str name hex b64 octet any txt a aaaa nsec names apl pairs sizehex sizeb64 sizeb32 gateway skip opt
	Size string // name of the length field for size-*
}

func describe(t reflect.Type, out *[]fdesc) {
	for i := 0; i < t.NumField(); i++ {
		f := t.Field(i)
		if f.Name == "Hdr" {
			continue
		}
		if f.Anonymous && f.Type.Kind() == reflect.Struct {
			describe(f.Type, out)
			continue
		}
		tag := f.Tag.Get("dns")
		d := fdesc{Name: f.Name}
		switch {
		case tag == "-":
			d.Kind = "skip"
		case strings.HasPrefix(tag, "size-hex:"):
			d.Kind, d.Size = "sizehex", tag[len("size-hex:"):]
		case strings.HasPrefix(tag, "size-base64:"):
			d.Kind, d.Size = "sizeb64", tag[len("size-base64:"):]
		case strings.HasPrefix(tag, "size-base32:"):
			d.Kind, d.Size = "sizeb32", tag[len("size-base32:"):]
		case tag == "cdomain-name" || tag == "domain-name":
			if f.Type.Kind() == reflect.Slice {
				d.Kind = "names"
			} else {
				d.Kind = "name"
			}
		case tag == "hex":
			d.Kind = "hex"
		case tag == "base64":
			d.Kind = "b64"
		case tag == "octet":
			d.Kind = "octet"
		case tag == "any":
			d.Kind = "any"
		case tag == "txt":
			d.Kind = "txt"
		case tag == "a":
			d.Kind = "a"
		case tag == "aaaa":
			d.Kind = "aaaa"
		case tag == "nsec":
			d.Kind = "nsec"
		case tag == "apl":
			d.Kind = "apl"
		case tag == "pairs":
			d.Kind = "pairs"
		case tag == "opt":
			d.Kind = "opt"
		case tag == "ipsechost" || tag == "amtrelayhost":
			d.Kind = "gateway"
		case tag == "uint48":
			d.Kind = "u48"
		case tag == "":
			switch f.Type.Kind() {
			case reflect.Uint8:
				d.Kind = "u8"
			case reflect.Uint16:
				d.Kind = "u16"
			case reflect.Uint32:
				d.Kind = "u32"
			case reflect.Uint64:
				d.Kind = "u64"
			case reflect.String:
				d.Kind = "str"
			default:
				d.Kind = "unknown:" + f.Type.String()
			}
		default:
			d.Kind = "unknown:" + tag
		}
		*out = append(*out, d)
	}
}

func typeDesc(t uint16) []fdesc {
	rr := dns.TypeToRR[t]()
	var out []fdesc
	describe(reflect.TypeOf(rr).Elem(), &out)
	return out
}

// ---- value classes ----

// character-string classes: octet strings of 0..255 octets
var strClasses = []string{"digits", "alnum", "empty", "blank", "quote", "backslash", "bsl-digits", "bsl-dot",
	"semicolon", "paren", "punct", "nonprint", "float", "len255", "len255esc", "mixed"}

func repeatByte(b byte, n int) []byte {
	o := make([]byte, n)
	for i := range o {
		o[i] = b
	}
	return o
}

func randAlnum(r *Rng, n int) []byte {
	const al = "abcdefghijklmnopqrstuvwxyz0123456789ABCXYZ"
	o := make([]byte, n)
	for i := range o {
		o[i] = al[r.Intn(len(al))]
	}
	return o
}

func randDigits(r *Rng, n int) []byte {
	o := make([]byte, n)
	for i := range o {
		o[i] = byte('0' + r.Intn(10))
	}
	if n > 0 && o[0] == '0' {
		o[0] = '1'
	}
	return o
}

// variant cycles 0,1,2,3,... within one (type, field, class) cell so that the
// placement of the special octets (alone, first, last, inside) does not
// depend on the random stream.
var variant int

// withSpecial puts the octets sp alone / first / last / inside a short alnum string
func withSpecial(r *Rng, sp []byte) []byte {
	pre := randAlnum(r, 1+r.Intn(3))
	post := randAlnum(r, 1+r.Intn(3))
	switch variant % 4 {
	case 0:
		pre, post = nil, nil
	case 1:
		pre = nil
	case 2:
		post = nil
	}
	return append(append(pre, sp...), post...)
}

func genStr(r *Rng, class string) []byte {
	switch class {
	case "digits":
		return randDigits(r, 1+r.Intn(8))
	case "alnum":
		return append([]byte{byte('a' + r.Intn(26))}, randAlnum(r, r.Intn(9))...)
	case "empty":
		return nil
	case "blank":
		return withSpecial(r, []byte(" "))
	case "nonprint":
		// tab, newline, CR, other controls, DEL, non-ASCII: all are printed as \DDD
		sp := []byte{9, 10, 13, byte(r.Intn(32)), 127, byte(128 + r.Intn(128)), 0, 255}
		return withSpecial(r, []byte{sp[variant%len(sp)]})
	case "punct":
		sp := "@$#-'.,=!*/:<>?[]^_`{|}~+%&"
		return withSpecial(r, []byte{sp[r.Intn(len(sp))]})
	case "quote":
		return withSpecial(r, []byte(`"`))
	case "backslash":
		return withSpecial(r, []byte(`\`))
	case "bsl-digits":
		return withSpecial(r, append([]byte(`\`), randDigits(r, 1+r.Intn(4))...))
	case "bsl-dot":
		return withSpecial(r, []byte(`\.`))
	case "semicolon":
		return withSpecial(r, []byte(";"))
	case "paren":
		return withSpecial(r, []byte{"()"[variant%2]})
	case "float":
		f := []string{"12.5", "-32.6882", "0", "116.2", "-1", "10.0"}
		return []byte(f[variant%len(f)])
	case "len256":
		return randAlnum(r, 256)
	case "len300":
		return randAlnum(r, 300)
	case "len255":
		return randAlnum(r, 255)
	case "len255esc":
		o := make([]byte, 255)
		for i := range o {
			o[i] = byte(128 + r.Intn(128))
		}
		return o
	case "mixed":
		// every special octet at least once, in random order, plus random octets
		o := []byte("\" \\;()\t\n\r@$.'09ab\x00\x7f\x80\xff\\7\\123")
		for i := 0; i < r.Intn(20); i++ {
			o = append(o, byte(r.Next()))
		}
		for i := len(o) - 1; i > 0; i-- {
			j := r.Intn(i + 1)
			o[i], o[j] = o[j], o[i]
		}
		return o
	}
	panic("genStr " + class)
}

// name classes: label lists
var nameClasses = []string{"plain", "root", "one", "upper", "digits", "punct", "dot", "blank", "quote",
	"backslash", "semicolon", "paren", "at", "nonprint", "label63", "label63esc", "wire255", "wire255esc", "typeword", "mixed"}

func genName(r *Rng, class string) [][]byte {
	tail := [][]byte{[]byte("example"), []byte("org")}
	lab := func(l []byte) [][]byte { return append([][]byte{l}, tail...) }
	switch class {
	case "plain":
		return lab(append([]byte{byte('a' + r.Intn(26))}, randAlnum(r, r.Intn(6))...))
	case "root":
		return nil
	case "one":
		return [][]byte{[]byte("local")}
	case "upper":
		return lab([]byte("MiXeD"))
	case "digits":
		return lab(randDigits(r, 1+r.Intn(4)))
	case "punct":
		w := []string{"*", "_tcp", "'", "$", "$a", "-", "a-b", "=", ","}
		return lab([]byte(w[r.Intn(len(w))]))
	case "dot":
		return lab(withSpecial(r, []byte(".")))
	case "blank":
		return lab(withSpecial(r, []byte(" ")))
	case "quote":
		return lab(withSpecial(r, []byte(`"`)))
	case "backslash":
		return lab(withSpecial(r, []byte(`\`)))
	case "semicolon":
		return lab(withSpecial(r, []byte(";")))
	case "paren":
		return lab(withSpecial(r, []byte{"()"[variant%2]}))
	case "at":
		return lab(withSpecial(r, []byte("@")))
	case "nonprint":
		sp := []byte{9, 10, 13, byte(r.Intn(32)), 127, byte(128 + r.Intn(128)), 0, 255}
		return lab(withSpecial(r, []byte{sp[variant%len(sp)]}))
	case "label63":
		return lab(randAlnum(r, 63))
	case "label63esc":
		// a maximal label most of whose octets are printed with a one-character escape:
		// the text is far longer than 63 characters, the label is exactly 63 (or 62) octets
		return lab(escHeavy(r, 63-r.Intn(2)))
	case "wire255esc":
		// 255 (or 254) wire octets, labels full of one-character escapes
		return [][]byte{escHeavy(r, 63), escHeavy(r, 63), escHeavy(r, 63), escHeavy(r, 61-r.Intn(2))}
	case "wire255":
		// 3 labels of 63 + one of 61 + root = 255 octets; all octets need \DDD
		mk := func(n int) []byte {
			o := make([]byte, n)
			for i := range o {
				o[i] = byte(128 + r.Intn(128))
			}
			return o
		}
		return [][]byte{mk(63), mk(63), mk(63), mk(61)}
	case "typeword":
		w := []string{"IN", "A", "TYPE1", "CLASS1", "ANY", "TXT", "in", "\\#"}
		return lab([]byte(w[r.Intn(len(w))]))
	case "mixed":
		o := []byte("\" \\;()\t\n@$.'09ab\x00\x7f\x80\xff\\7")
		for i := 0; i < r.Intn(12); i++ {
			o = append(o, byte(r.Next()))
		}
		for i := len(o) - 1; i > 0; i-- {
			j := r.Intn(i + 1)
			o[i], o[j] = o[j], o[i]
		}
		k := 1 + r.Intn(len(o)-2)
		return [][]byte{o[:k], o[k:]}
	}
	panic("genName " + class)
}

// escHeavy: n octets, about half of them characters that sprintName escapes with a single backslash
func escHeavy(r *Rng, n int) []byte {
	sp := []byte(". \"();@$\\")
	o := make([]byte, n)
	for i := range o {
		if r.Intn(2) == 0 {
			o[i] = sp[r.Intn(len(sp))]
		} else {
			o[i] = byte('a' + r.Intn(26))
		}
	}
	return o
}

var blobClasses = []string{"plain", "empty", "one", "long"}

func genBlob(r *Rng, class string) []byte {
	switch class {
	case "plain":
		return r.Bytes(4 + r.Intn(29))
	case "empty":
		return nil
	case "one":
		return r.Bytes(1)
	case "long":
		return r.Bytes(600 + r.Intn(1200))
	}
	panic("genBlob " + class)
}

var intClasses = []string{"plain", "zero", "max", "rand"}

func genInt(r *Rng, class string, bits uint) uint64 {
	max := uint64(1)<<bits - 1
	if bits == 64 {
		max = ^uint64(0)
	}
	switch class {
	case "plain":
		return uint64(1 + r.Intn(9))
	case "zero":
		return 0
	case "max":
		return max
	case "rand", "msec-truncated":
		return r.Next() & max
	}
	panic("genInt " + class)
}

func putUint(v uint64, bits uint) []byte {
	var b [8]byte
	binary.BigEndian.PutUint64(b[:], v)
	return b[8-bits/8:]
}

var txtClasses = []string{"one", "two", "none", "many", "emptystr", "twoempty"}

// returns the list of strings' classes too
func genTxt(r *Rng, class string, strClass string) [][]byte {
	switch class {
	case "one":
		return [][]byte{genStr(r, strClass)}
	case "two":
		return [][]byte{genStr(r, strClass), genStr(r, "alnum")}
	case "none":
		return nil
	case "many":
		var o [][]byte
		for i := 0; i < 3+r.Intn(6); i++ {
			o = append(o, genStr(r, strClasses[r.Intn(len(strClasses))]))
		}
		return o
	case "emptystr":
		return [][]byte{nil}
	case "twoempty":
		return [][]byte{nil, nil}
	}
	panic("genTxt " + class)
}

var nsecClasses = []string{"plain", "none", "one", "unknown", "type0", "type65535", "meta", "window", "allnamed", "rand"}

func genNsec(r *Rng, class string) []uint16 {
	var ts []uint16
	switch class {
	case "plain":
		ts = []uint16{1, 2, 6, 15, 16, 28, 46, 47}
	case "none":
	case "one":
		ts = []uint16{dns.TypeA}
	case "unknown":
		ts = []uint16{1, 1234, 65280}
	case "type0":
		ts = []uint16{0, 1}
	case "type65535":
		ts = []uint16{1, 65535}
	case "meta":
		ts = []uint16{41, 249, 250, 251, 252, 253, 254, 255}
	case "window":
		ts = []uint16{255, 256, 257, 511, 512, 65279}
	case "allnamed":
		for t := range dns.TypeToString {
			if t != 0 && t != 65535 {
				ts = append(ts, t)
			}
		}
	case "rand":
		m := map[uint16]bool{}
		for i := 0; i < 1+r.Intn(12); i++ {
			m[uint16(1+r.Intn(65534))] = true
		}
		for t := range m {
			ts = append(ts, t)
		}
	}
	sort.Slice(ts, func(i, j int) bool { return ts[i] < ts[j] })
	return ts
}

func encNsec(ts []uint16) []byte {
	var out []byte
	i := 0
	for i < len(ts) {
		w := ts[i] >> 8
		var bm [32]byte
		n := 0
		for i < len(ts) && ts[i]>>8 == w {
			lo := ts[i] & 0xff
			bm[lo/8] |= 0x80 >> (lo % 8)
			if int(lo/8)+1 > n {
				n = int(lo/8) + 1
			}
			i++
		}
		out = append(out, byte(w), byte(n))
		out = append(out, bm[:n]...)
	}
	return out
}

// ---- APL ----
var aplClasses = []string{"plain", "none", "v4-0", "v4-32", "v4-neg", "v6", "v6-128", "v6-mapped", "many"}

func aplItem(fam uint16, prefix int, neg bool, addr []byte) []byte {
	// trim trailing zero octets
	n := len(addr)
	for n > 0 && addr[n-1] == 0 {
		n--
	}
	b := []byte{byte(fam >> 8), byte(fam), byte(prefix), byte(n)}
	if neg {
		b[3] |= 0x80
	}
	return append(b, addr[:n]...)
}

func maskAddr(a []byte, prefix int) []byte {
	o := append([]byte{}, a...)
	for i := range o {
		bits := prefix - 8*i
		switch {
		case bits >= 8:
		case bits <= 0:
			o[i] = 0
		default:
			o[i] &= ^byte(0xff >> bits)
		}
	}
	return o
}

func genApl(r *Rng, class string) []byte {
	v4 := func(p int, neg bool) []byte { return aplItem(1, p, neg, maskAddr(r.Bytes(4), p)) }
	v6 := func(p int, neg bool) []byte { return aplItem(2, p, neg, maskAddr(r.Bytes(16), p)) }
	switch class {
	case "plain":
		return v4(24, false)
	case "none":
		return nil
	case "v4-0":
		return v4(0, false)
	case "v4-32":
		return v4(32, false)
	case "v4-neg":
		return v4(1+r.Intn(31), true)
	case "v6":
		return v6(1+r.Intn(127), r.Bool())
	case "v6-128":
		return v6(128, false)
	case "v6-mapped":
		a := append(append(make([]byte, 10), 0xff, 0xff), r.Bytes(4)...)
		p := 96 + r.Intn(33)
		return aplItem(2, p, false, maskAddr(a, p))
	case "many":
		var o []byte
		for i := 0; i < 2+r.Intn(4); i++ {
			if r.Bool() {
				o = append(o, v4(r.Intn(33), r.Bool())...)
			} else {
				o = append(o, v6(r.Intn(129), r.Bool())...)
			}
		}
		return o
	}
	panic("genApl " + class)
}

// ---- SVCB ----
var svcbClasses = []string{"none", "plain", "mandatory", "mandatory-odd", "alpn", "alpn-comma", "alpn-backslash", "alpn-quote",
	"alpn-blank", "alpn-nonascii", "alpn-semicolon", "alpn-none", "nodefaultalpn", "port", "ipv4hint", "ipv4hint-many", "ipv4hint-none",
	"ech", "ech-empty", "ipv6hint", "ipv6hint-mapped", "ipv6hint-none", "dohpath", "dohpath-special", "dohpath-empty", "ohttp",
	"local", "local-special", "local-empty", "local-65534", "all"}

func svcbKV(k uint16, v []byte) []byte {
	b := []byte{byte(k >> 8), byte(k), byte(len(v) >> 8), byte(len(v))}
	return append(b, v...)
}

func alpnList(ids ...[]byte) []byte {
	var b []byte
	for _, id := range ids {
		b = append(b, byte(len(id)))
		b = append(b, id...)
	}
	return b
}

func genSvcb(r *Rng, class string) []byte {
	sp := func(c string) []byte { return genStr(r, c) }
	nz := func(b []byte) []byte {
		if len(b) == 0 {
			return []byte("x")
		}
		return b
	}
	switch class {
	case "none":
		return nil
	case "plain":
		return append(svcbKV(1, alpnList([]byte("h2"), []byte("h3"))), svcbKV(3, []byte{1, 187})...)
	case "mandatory":
		return append(svcbKV(0, []byte{0, 1, 0, 3}), append(svcbKV(1, alpnList([]byte("h2"))), svcbKV(3, []byte{0, 53})...)...)
	case "mandatory-odd":
		return svcbKV(0, []byte{0, 0, 0, 9, 2, 154, 255, 254})
	case "alpn":
		return svcbKV(1, alpnList([]byte("http/1.1")))
	case "alpn-comma":
		return svcbKV(1, alpnList(nz(withSpecial(r, []byte(","))), []byte("h2")))
	case "alpn-backslash":
		return svcbKV(1, alpnList(nz(sp("backslash")), nz(sp("bsl-digits"))))
	case "alpn-quote":
		return svcbKV(1, alpnList(nz(sp("quote"))))
	case "alpn-blank":
		return svcbKV(1, alpnList(nz(sp("blank"))))
	case "alpn-nonascii":
		return svcbKV(1, alpnList(nz(sp("nonprint")), nz(sp("nonprint"))))
	case "alpn-semicolon":
		return svcbKV(1, alpnList(nz(sp("semicolon")), nz(sp("paren"))))
	case "alpn-none":
		return svcbKV(1, nil)
	case "nodefaultalpn":
		return append(svcbKV(1, alpnList([]byte("h2"))), svcbKV(2, nil)...)
	case "port":
		return svcbKV(3, putUint(genInt(r, intClasses[r.Intn(4)], 16), 16))
	case "ipv4hint":
		return svcbKV(4, r.Bytes(4))
	case "ipv4hint-many":
		return svcbKV(4, r.Bytes(4*(2+r.Intn(4))))
	case "ipv4hint-none":
		return svcbKV(4, nil)
	case "ech":
		return svcbKV(5, r.Bytes(1+r.Intn(60)))
	case "ech-empty":
		return svcbKV(5, nil)
	case "ipv6hint":
		b := r.Bytes(16 * (1 + r.Intn(3)))
		b[0] = 0x20
		if len(b) > 16 {
			b[16] = 0x20
		}
		if len(b) > 32 {
			b[32] = 0x20
		}
		return svcbKV(6, b)
	case "ipv6hint-mapped":
		return svcbKV(6, append(append(make([]byte, 10), 0xff, 0xff), r.Bytes(4)...))
	case "ipv6hint-none":
		return svcbKV(6, nil)
	case "dohpath":
		return svcbKV(7, []byte("/dns-query{?dns}"))
	case "dohpath-special":
		return svcbKV(7, sp("mixed"))
	case "dohpath-empty":
		return svcbKV(7, nil)
	case "ohttp":
		return svcbKV(8, nil)
	case "local":
		return svcbKV(uint16(9+r.Intn(60000)), randAlnum(r, 1+r.Intn(10)))
	case "local-special":
		return svcbKV(65280, sp(strClasses[r.Intn(len(strClasses))]))
	case "local-empty":
		return svcbKV(667, nil)
	case "local-65534":
		return svcbKV(65534, r.Bytes(r.Intn(20)))
	case "all":
		var b []byte
		b = append(b, svcbKV(0, []byte{0, 1, 0, 4})...)
		b = append(b, svcbKV(1, alpnList([]byte("h2"), nz(sp("mixed"))))...)
		b = append(b, svcbKV(2, nil)...)
		b = append(b, svcbKV(3, []byte{0x1f, 0x90})...)
		b = append(b, svcbKV(4, r.Bytes(8))...)
		b = append(b, svcbKV(5, r.Bytes(20))...)
		b6 := r.Bytes(16)
		b6[0] = 0x20
		b = append(b, svcbKV(6, b6)...)
		b = append(b, svcbKV(7, []byte("/q{?dns}"))...)
		b = append(b, svcbKV(8, nil)...)
		b = append(b, svcbKV(9, sp("mixed"))...)
		b = append(b, svcbKV(65280, sp("mixed"))...)
		return b
	}
	panic("genSvcb " + class)
}

// ---- gateway (IPSECKEY / AMTRELAY) ----
var gatewayClasses = []string{"none", "v4", "v6", "v6-mapped", "host", "host-root", "host-special"}

func genGateway(r *Rng, class string) (gtype byte, wire []byte) {
	switch class {
	case "none":
		return 0, nil
	case "v4":
		return 1, r.Bytes(4)
	case "v6":
		b := r.Bytes(16)
		b[0] = 0x20
		return 2, b
	case "v6-mapped":
		return 2, append(append(make([]byte, 10), 0xff, 0xff), r.Bytes(4)...)
	case "host":
		return 3, wireName(genName(r, "plain"))
	case "host-root":
		return 3, wireName(nil)
	case "host-special":
		return 3, wireName(genName(r, "mixed"))
	}
	panic("genGateway " + class)
}

// classes for a field kind
func classesFor(kind string) []string {
	switch kind {
	case "u8", "u16", "u32", "u48", "u64":
		return intClasses
	case "str":
		return strClasses
	case "octet":
		return strClasses
	case "name":
		return nameClasses
	case "names":
		return []string{"none", "one", "two", "special"}
	case "hex", "b64", "any", "sizehex", "sizeb64", "sizeb32":
		return blobClasses
	case "txt":
		out := []string{}
		for _, c := range txtClasses {
			out = append(out, c)
		}
		for _, c := range strClasses {
			out = append(out, "one:"+c, "two:"+c)
		}
		return out
	case "a", "aaaa":
		return []string{"plain", "zero", "ones", "mapped", "rand"}
	case "nsec":
		return nsecClasses
	case "apl":
		return aplClasses
	case "pairs":
		return svcbClasses
	case "gateway":
		return gatewayClasses
	}
	return []string{"plain"}
}

func plainClass(kind string) string {
	switch kind {
	case "str", "octet":
		return "digits"
	case "txt":
		return "one:alnum"
	case "names":
		return "one"
	case "pairs":
		return "plain"
	case "gateway":
		return "v4"
	}
	return "plain"
}

func bitsOf(kind string) uint {
	switch kind {
	case "u8":
		return 8
	case "u16":
		return 16
	case "u32":
		return 32
	case "u48":
		return 48
	}
	return 64
}

// genField produces the wire octets of one field. sizes receives the length
// of size-* data fields keyed by the name of their length field.
func genField(r *Rng, d fdesc, class string, sizes map[string]int) []byte {
	switch d.Kind {
	case "u8", "u16", "u32", "u48", "u64":
		return putUint(genInt(r, class, bitsOf(d.Kind)), bitsOf(d.Kind))
	case "str":
		s := genStr(r, class)
		return append([]byte{byte(len(s))}, s...)
	case "octet":
		return genStr(r, class)
	case "name":
		return wireName(genName(r, class))
	case "names":
		switch class {
		case "none":
			return nil
		case "one":
			return wireName(genName(r, "plain"))
		case "two":
			return append(wireName(genName(r, "plain")), wireName(genName(r, "upper"))...)
		default:
			return append(wireName(genName(r, "mixed")), wireName(genName(r, "root"))...)
		}
	case "hex", "b64", "any":
		return genBlob(r, class)
	case "sizehex", "sizeb64", "sizeb32":
		b := genBlob(r, class)
		if class == "long" {
			b = b[:255]
		}
		if d.Kind == "sizeb32" && class == "plain" {
			b = r.Bytes(20) // NSEC3: SHA-1 is the only defined hash
		}
		sizes[d.Size] = len(b)
		return b
	case "txt":
		var ss [][]byte
		if i := strings.IndexByte(class, ':'); i >= 0 {
			ss = genTxt(r, class[:i], class[i+1:])
		} else {
			ss = genTxt(r, class, "alnum")
		}
		var b []byte
		for _, s := range ss {
			b = append(b, byte(len(s)))
			b = append(b, s...)
		}
		return b
	case "a", "aaaa":
		n := 4
		if d.Kind == "aaaa" {
			n = 16
		}
		switch class {
		case "plain":
			b := r.Bytes(n)
			b[0] = 0x20
			return b
		case "zero":
			return make([]byte, n)
		case "ones":
			return repeatByte(0xff, n)
		case "mapped":
			if n == 4 {
				return []byte{127, 0, 0, 1}
			}
			return append(append(make([]byte, 10), 0xff, 0xff), r.Bytes(4)...)
		default:
			return r.Bytes(n)
		}
	case "nsec":
		return encNsec(genNsec(r, class))
	case "apl":
		return genApl(r, class)
	case "pairs":
		return genSvcb(r, class)
	case "skip":
		return nil
	}
	panic("genField kind " + d.Kind)
}

// hdr classes
var ttlClasses = []string{"plain", "zero", "one", "max31", "max", "rand"}
var classClasses = []string{"IN", "CH", "HS", "CS", "NONE", "ANY", "zero", "two", "max", "rand"}

func genTtl(r *Rng, c string) uint32 {
	switch c {
	case "plain":
		return 3600
	case "zero":
		return 0
	case "one":
		return 1
	case "max31":
		return 1<<31 - 1
	case "max":
		return 1<<32 - 1
	}
	return uint32(r.Next())
}

func genClass(r *Rng, c string) uint16 {
	switch c {
	case "IN":
		return 1
	case "CH":
		return 3
	case "HS":
		return 4
	case "CS":
		return 2
	case "NONE":
		return 254
	case "ANY":
		return 255
	case "zero":
		return 0
	case "two":
		return 2
	case "max":
		return 65535
	}
	return uint16(r.Next())
}

// genRecord builds a record of type t. special maps field name -> class for
// the fields that are not to be "plain"; the pseudo fields "Name", "Ttl",
// "Class" address the header. If randAll is set every field gets a random
// class.
func genRecord(r *Rng, t uint16, special map[string]string, randAll bool) *grec {
	g := &grec{Type: t}
	pick := func(field string, classes []string, plain string) string {
		if c, ok := special[field]; ok {
			return c
		}
		if randAll {
			return classes[r.Intn(len(classes))]
		}
		return plain
	}
	if t == dns.TypeGPOS {
		// RFC 1712: the three fields are floating point numbers in text
		for _, f := range []string{"Longitude", "Latitude", "Altitude"} {
			if _, ok := special[f]; !ok && !randAll {
				special = copyMap(special)
				special[f] = "float"
			}
		}
	}
	g.NameC = pick("Name", nameClasses, "plain")
	g.Name = genName(r, g.NameC)
	g.TtlC = pick("Ttl", ttlClasses, "plain")
	g.Ttl = genTtl(r, g.TtlC)
	g.ClassC = pick("Class", classClasses, "IN")
	g.Class = genClass(r, g.ClassC)

	ds := typeDesc(t)
	sizes := map[string]int{}
	wires := make([][]byte, len(ds))
	classes := make([]string, len(ds))
	// pass 1: everything except integer fields that are the size of a later field
	isSize := map[string]bool{}
	for _, d := range ds {
		if d.Size != "" {
			isSize[d.Size] = true
		}
	}
	var gwType byte
	gwSet := false
	for i, d := range ds {
		if isSize[d.Name] || d.Kind == "skip" || d.Name == "GatewayType" {
			continue
		}
		c := pick(d.Name, classesFor(d.Kind), plainClass(d.Kind))
		classes[i] = c
		if d.Kind == "gateway" {
			gwType, wires[i] = genGateway(r, c)
			gwSet = true
			continue
		}
		wires[i] = genField(r, d, c, sizes)
	}
	for i, d := range ds {
		if isSize[d.Name] {
			classes[i] = "size"
			wires[i] = putUint(uint64(sizes[d.Name]), bitsOf(d.Kind))
		}
		if gwSet && d.Name == "GatewayType" {
			classes[i] = "gwtype"
			v := gwType
			if t == dns.TypeAMTRELAY && special["GatewayType"] == "discovery" {
				v |= 0x80
			} else if t == dns.TypeAMTRELAY && randAll && r.Bool() {
				v |= 0x80
			}
			wires[i] = []byte{v}
		}
	}
	// type-specific well-formedness (RFC value ranges the text form can express)
	fix := func(name string, f func(b []byte) []byte) {
		for i, d := range ds {
			if d.Name == name {
				wires[i] = f(wires[i])
			}
		}
	}
	if t == dns.TypeLOC {
		fix("Version", func(b []byte) []byte { return []byte{0} })
		sz := func(b []byte) []byte {
			m, e := (b[0]>>4)%10, (b[0]&0xf)%10
			if m == 0 {
				e = 0 // zero has one canonical encoding
			}
			return []byte{m<<4 | e}
		}
		fix("Size", sz)
		fix("HorizPre", sz)
		fix("VertPre", sz)
		coord := func(max uint32) func(b []byte) []byte {
			return func(b []byte) []byte {
				v := binary.BigEndian.Uint32(b)
				switch {
				case v < 16:
					v = 1<<31 - max + v // near the lower bound
				case v > 1<<32-16:
					v = 1<<31 + max - (1<<32 - 1 - v)
				default:
					v = 1<<31 - max + v%(2*max+1)
				}
				return putUint(uint64(v), 32)
			}
		}
		fix("Latitude", coord(90*3600000))
		fix("Longitude", coord(180*3600000))
		// the parser reads the seconds through a float and truncates: 372 of the
		// 60000 millisecond values come back one less.  Class "msec-truncated"
		// takes such a value, every other class avoids them.
		msec := func(field string) func(b []byte) []byte {
			return func(b []byte) []byte {
				v := binary.BigEndian.Uint32(b)
				want := special[field] == "msec-truncated"
				for k := 0; k < 70000; k++ {
					var a uint32
					if v > 1<<31 {
						a = v - 1<<31
					} else {
						a = 1<<31 - v
					}
					if locMsecTruncates(a%60000) == want && (!want || a%60000 == 1001+2*uint32(variant%8)) {
						break
					}
					if v > 1<<31 {
						v--
					} else {
						v++
					}
				}
				return putUint(uint64(v), 32)
			}
		}
		fix("Latitude", msec("Latitude"))
		fix("Longitude", msec("Longitude"))
		// altitude: centimetres above -100000.00 m; the sign and the fraction change around 10000000
		fix("Altitude", func(b []byte) []byte {
			v := binary.BigEndian.Uint32(b)
			switch variant % 7 {
			case 1:
				v = 10000000 - 1 - v%99 // between -1 m and 0 m
			case 2:
				v = 10000000 + 1 + v%99 // between 0 m and 1 m
			case 3:
				v = 10000000
			case 4:
				v = 10000000 - 100*(1+v%3) // whole negative metres
			case 5:
				v = []uint32{0, 1, 99, 100, 1<<32 - 1, 1<<32 - 100}[v%6]
			}
			return putUint(uint64(v), 32)
		})
	}
	for i, d := range ds {
		if d.Kind == "skip" {
			continue
		}
		g.Fields = append(g.Fields, fval{Field: d.Name, Class: classes[i], wire: wires[i]})
	}
	return g
}

// locMsecTruncates reports whether LOC seconds of ms milliseconds, printed
// with three decimals and read back as uint32(1000 * float), lose a millisecond.
func locMsecTruncates(ms uint32) bool {
	s := strconv.FormatFloat(float64(ms)/1000, 'f', 3, 64)
	f, _ := strconv.ParseFloat(s, 64)
	return uint32(1000*f) != ms
}

func copyMap(m map[string]string) map[string]string {
	o := map[string]string{}
	for k, v := range m {
		o[k] = v
	}
	return o
}
