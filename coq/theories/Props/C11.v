(* Props/C11.v — property C11 (TSIG: generated MACs verify; only RFC 8945-valid,
   timely MACs are accepted).  Only statements; each is closed by [exact] of a
   lemma of Proofs/TsigProofs.v.  Every theorem quantifies over the HMAC
   function, the key store and the RDATA decoders of the other record types
   (the Section variables of Model/Tsig.v). *)
From Dns Require Import Model.Tsig Proofs.WireProofs Proofs.TsigProofs.
Open Scope N_scope.

(* --- RFC 8945 4.3: what is handed to the HMAC.  Request MAC with its 16-bit
   length (absent when empty); the message with the TSIG's original ID in the
   first two octets; then either the two timers, or NAME CLASS TTL
   ALGORITHM TIME FUDGE ERROR OTHERLEN OTHERDATA with both names lower-cased.
   A zero time is replaced by the clock, a zero fudge by 300. *)
Theorem digest_input_layout :
  forall msgbuf t rm timers wall buf t' mb,
    tsig_buffer msgbuf t rm timers wall = Ok (buf, t', mb) ->
    let time := if k_time t =? 0 then wall else k_time t in
    let fudge := if k_fudge t =? 0 then 300 else k_fudge t in
    put_u16 msgbuf 0 (k_origid t) = Ok mb /\
    buf = (if lenN rm =? 0 then [] else u16 (lenN rm) ++ rm) ++ mb ++
          (if timers then u48 time ++ u16 fudge
           else wire_name (canon (k_name t)) ++ u16 (k_class t) ++ u32 (k_ttl t) ++
                wire_name (canon (k_alg t)) ++ u48 time ++ u16 fudge ++
                u16 (k_error t) ++ u16 (k_otherlen t) ++ k_other t).
Proof.
  intros msgbuf t rm timers wall buf t' mb H.
  destruct (tsig_buffer_spec _ _ _ _ _ _ _ _ H) as (_ & P & E). split; [exact P|exact E].
Qed.

(* --- TsigGenerate: the signed octets are the packed message (ID := the stub's
   original ID, ARCOUNT := number of additional records + 1) followed by the
   TSIG record; unless the stub's error is BADKEY/BADSIG the MAC is the HMAC,
   under the named key's secret and the stub's algorithm, of the digest input. *)
Theorem generate_layout :
  forall hmac key_of h body nextra t rm timers wall out mac,
    tsig_generate hmac key_of (hdr_wire h ++ body) nextra t rm timers wall = Ok (out, mac) ->
    exists time,
      (((k_error t = 17 \/ k_error t = 16) /\ time = 0 /\ mac = []) \/
       (k_error t <> 17 /\ k_error t <> 16 /\
        time = (if k_time t =? 0 then wall else k_time t) /\
        exists secret a, key_of (k_name t) = Ok secret /\ alg_of (k_alg t) = Some a /\
                         mac = hmac a secret (digest_of h body t rm timers wall))) /\
      let t2 := set_time_mac (set_time_fudge t (if k_time t =? 0 then wall else k_time t)
                                               (if k_fudge t =? 0 then 300 else k_fudge t)) time mac in
      valid_wire (k_name t) = true /\ valid_wire (k_alg t) = true /\
      lenN (tsig_rdata (k_rd t2)) <= 65535 /\
      out = hdr_wire (set_ar (set_id h (k_origid t)) ((nextra + 1) mod 65536)) ++ body ++ tsig_rr_wire t2.
Proof. exact generate_spec. Qed.

(* --- every generated message verifies: any HMAC function, key store, request
   MAC, timers-only setting and clock reading of the verifier, for every
   well-framed message and in-range stub, exactly when |now - signed| <= fudge
   holds (see also verify_sound for the converse). *)
Theorem generate_verify :
  forall hmac key_of chk h body t rm timers wall wall2 now out mac,
    hdr_ok h -> h_ar h + 1 < 65536 -> h_bits h mod 16 <> 9 -> wf_body chk h body ->
    k_class t < 65536 -> k_ttl t < 4294967296 ->
    (if k_time t =? 0 then wall else k_time t) < 281474976710656 ->
    (if k_time t =? 0 then wall else k_time t) <> 0 ->
    k_fudge t < 65536 -> k_origid t < 65536 -> k_error t < 65536 ->
    k_error t <> 16 -> k_error t <> 17 -> k_otherlen t = lenN (k_other t) ->
    tsig_generate hmac key_of (hdr_wire h ++ body) (h_ar h) t rm timers wall = Ok (out, mac) ->
    time_delta now (if k_time t =? 0 then wall else k_time t)
      <= (if k_fudge t =? 0 then 300 else k_fudge t) ->
    tsig_verify hmac key_of chk out rm timers now wall2 = Ok tt.
Proof. exact generate_verify_ok. Qed.

(* --- TsigVerify succeeds only if: a TSIG record was found; the named key
   exists; the algorithm is one of the five HMAC-SHA ones; the MAC equals the
   HMAC over request MAC, stripped message with original ID, variables or
   timers; and the signing time is within the fudge of now (unsigned 64-bit
   arithmetic: the smaller is subtracted from the larger). *)
Theorem verify_sound :
  forall hmac key_of chk msg rm timers now wall,
    tsig_verify hmac key_of chk msg rm timers now wall = Ok tt ->
    exists s t mb secret a,
      strip_tsig chk msg = Ok (s, t, true) /\ put_u16 s 0 (k_origid t) = Ok mb /\
      key_of (k_name t) = Ok secret /\ alg_of (k_alg t) = Some a /\
      let time := if k_time t =? 0 then wall else k_time t in
      let fudge := if k_fudge t =? 0 then 300 else k_fudge t in
      k_mac t = hmac a secret
                  ((if lenN rm =? 0 then [] else u16 (lenN rm) ++ rm) ++ mb ++
                   (if timers then u48 time ++ u16 fudge
                    else wire_name (canon (k_name t)) ++ u16 (k_class t) ++ u32 (k_ttl t) ++
                         wire_name (canon (k_alg t)) ++ u48 time ++ u16 fudge ++
                         u16 (k_error t) ++ u16 (k_otherlen t) ++ k_other t)) /\
      (if now <? time then time - now else now - time) <= fudge.
Proof. exact TsigProofs.verify_sound. Qed.

(* --- and it is exactly that: success is equivalent to the five conditions *)
Theorem verify_iff_conditions :
  forall hmac key_of chk msg rm timers now wall,
    tsig_verify hmac key_of chk msg rm timers now wall = Ok tt <->
    exists s t found buf t' mb secret a,
      strip_tsig chk msg = Ok (s, t, found) /\
      tsig_buffer s t rm timers wall = Ok (buf, t', mb) /\
      key_of (k_name t') = Ok secret /\ alg_of (k_alg t') = Some a /\
      hmac a secret buf = k_mac t' /\ time_delta now (k_time t') <= k_fudge t'.
Proof. exact verify_iff. Qed.

(* --- what stripTsig returns: the octets before the first TSIG record of the
   additional section, with ARCOUNT lowered by one *)
Theorem stripped_message :
  forall chk msg s t,
    strip_tsig chk msg = Ok (s, t, true) ->
    exists h off rr o' msg',
      unpack_hdr msg = Ok (h, 12) /\ h_ar h <> 0 /\ h_bits h mod 16 <> 9 /\
      unpack_rr chk false msg off = Ok (rr, o') /\ rv_type rr = 250 /\ t = tsig_of_rr rr /\
      put_u16 msg 10 ((h_ar h + 65535) mod 65536) = Ok msg' /\ s = takeN off msg' /\ off <= lenN msg.
Proof. exact (strip_found (fun _ _ d => d)). Qed.

(* --- a message in which no TSIG record is found is never reported verified *)
Theorem no_tsig_never_ok :
  forall hmac key_of chk msg rm timers now wall s t,
    strip_tsig chk msg = Ok (s, t, false) ->
    tsig_verify hmac key_of chk msg rm timers now wall <> Ok tt.
Proof. exact no_tsig_never_verified. Qed.

(* --- the digest input determines its parts (timers-only form) *)
Theorem digest_injective_timers :
  forall rm m1 m2 ti1 f1 ti2 f2,
    ti1 < 281474976710656 -> ti2 < 281474976710656 -> f1 < 65536 -> f2 < 65536 ->
    (if lenN rm =? 0 then [] else u16 (lenN rm) ++ rm) ++ m1 ++ u48 ti1 ++ u16 f1 =
    (if lenN rm =? 0 then [] else u16 (lenN rm) ++ rm) ++ m2 ++ u48 ti2 ++ u16 f2 ->
    m1 = m2 /\ ti1 = ti2 /\ f1 = f2.
Proof. exact digest_timers_injective. Qed.

(* --- ... and the full form, for well-framed messages *)
Theorem digest_injective_full :
  forall chk rm h1 b1 h2 b2 t1 ti1 f1 t2 ti2 f2,
    hdr_ok h1 -> hdr_ok h2 -> wf_body chk h1 b1 -> wf_body chk h2 b2 ->
    valid_wire (canon (k_name t1)) = true -> valid_wire (canon (k_name t2)) = true ->
    valid_wire (canon (k_alg t1)) = true -> valid_wire (canon (k_alg t2)) = true ->
    k_class t1 < 65536 -> k_class t2 < 65536 ->
    k_ttl t1 < 4294967296 -> k_ttl t2 < 4294967296 ->
    ti1 < 281474976710656 -> ti2 < 281474976710656 -> f1 < 65536 -> f2 < 65536 ->
    k_error t1 < 65536 -> k_error t2 < 65536 -> k_otherlen t1 < 65536 -> k_otherlen t2 < 65536 ->
    (if lenN rm =? 0 then [] else u16 (lenN rm) ++ rm) ++ (hdr_wire h1 ++ b1) ++
      (wire_name (canon (k_name t1)) ++ u16 (k_class t1) ++ u32 (k_ttl t1) ++ wire_name (canon (k_alg t1)) ++
       u48 ti1 ++ u16 f1 ++ u16 (k_error t1) ++ u16 (k_otherlen t1) ++ k_other t1) =
    (if lenN rm =? 0 then [] else u16 (lenN rm) ++ rm) ++ (hdr_wire h2 ++ b2) ++
      (wire_name (canon (k_name t2)) ++ u16 (k_class t2) ++ u32 (k_ttl t2) ++ wire_name (canon (k_alg t2)) ++
       u48 ti2 ++ u16 f2 ++ u16 (k_error t2) ++ u16 (k_otherlen t2) ++ k_other t2) ->
    h1 = h2 /\ b1 = b2 /\ canon (k_name t1) = canon (k_name t2) /\ k_class t1 = k_class t2 /\
    k_ttl t1 = k_ttl t2 /\
    canon (k_alg t1) = canon (k_alg t2) /\ ti1 = ti2 /\ f1 = f2 /\ k_error t1 = k_error t2 /\
    k_otherlen t1 = k_otherlen t2 /\ k_other t1 = k_other t2.
Proof. exact digest_full_injective. Qed.

(* --- any alteration fails, idealised MAC.  [mac_binding] is the idealisation
   (for one algorithm and secret, different data never share a MAC); under it
   two accepted messages with the same key, algorithm and MAC have the same
   digest input, hence by the two theorems above the same stripped message
   and the same variables/timers. *)
Theorem same_mac_same_digest :
  forall hmac key_of chk,
    (forall a k d1 d2, hmac a k d1 = hmac a k d2 -> d1 = d2) ->
    forall msg1 msg2 rm1 rm2 to1 to2 now1 now2 wall s1 t1 f1 s2 t2 f2 b1 t1' mb1 b2 t2' mb2,
      tsig_verify hmac key_of chk msg1 rm1 to1 now1 wall = Ok tt ->
      tsig_verify hmac key_of chk msg2 rm2 to2 now2 wall = Ok tt ->
      strip_tsig chk msg1 = Ok (s1, t1, f1) -> strip_tsig chk msg2 = Ok (s2, t2, f2) ->
      tsig_buffer s1 t1 rm1 to1 wall = Ok (b1, t1', mb1) ->
      tsig_buffer s2 t2 rm2 to2 wall = Ok (b2, t2', mb2) ->
      k_name t1 = k_name t2 -> alg_of (k_alg t1) = alg_of (k_alg t2) -> k_mac t1 = k_mac t2 ->
      b1 = b2.
Proof. exact TsigProofs.same_mac_same_digest. Qed.

(* --- chains.  An envelope verifies against at most one previous MAC, so a
   removed, repeated or reordered envelope makes the next one fail (unless two
   MACs coincide); the chain check is the conjunction of the link checks; and
   envelopes generated one over the other's MAC verify as a chain, whatever
   its length. *)
Theorem envelope_binds_previous_mac :
  forall hmac key_of chk,
    (forall a k d1 d2, hmac a k d1 = hmac a k d2 -> d1 = d2) ->
    forall msg rm1 rm2 timers now1 now2 wall,
      tsig_verify hmac key_of chk msg rm1 timers now1 wall = Ok tt ->
      tsig_verify hmac key_of chk msg rm2 timers now2 wall = Ok tt ->
      rm1 = rm2.
Proof. exact TsigProofs.envelope_binds_previous_mac. Qed.

Theorem chain_is_links :
  forall hmac key_of chk m r rm timers now wall,
    chain_verify hmac key_of chk (m :: r) rm timers now wall = Ok tt <->
    tsig_verify hmac key_of chk m rm timers now wall = Ok tt /\
    exists s t f, strip_tsig chk m = Ok (s, t, f) /\
                  chain_verify hmac key_of chk r (k_mac t) true now wall = Ok tt.
Proof. exact chain_verify_cons. Qed.

Theorem chain_ok :
  forall hmac key_of chk specs rm timers wall wall2 now envs,
    Forall (fun x : hdr * bytes * tsig => let '(h, body, t) := x in
              sign_pre chk h body t wall /\ time_delta now (eff_time t wall) <= eff_fudge t) specs ->
    chain_generate hmac key_of
      (map (fun x : hdr * bytes * tsig => let '(h, body, t) := x in (hdr_wire h ++ body, h_ar h, t)) specs)
      rm timers wall = Ok envs ->
    chain_verify hmac key_of chk envs rm timers now wall2 = Ok tt.
Proof. exact chain_generate_verify. Qed.

(* --- the name decoder's recursion budget (the model's own device) is never the
   reason for a result: 255 octets of labels and 127 pointers bound the loop *)
Theorem name_decoder_total : forall msg off, unpack_name msg off <> OutOfFuel.
Proof. exact unpack_name_total. Qed.

(* --- the fudge works both ways *)
Theorem fudge_window_symmetric : forall now signed, time_delta now signed = time_delta signed now.
Proof. exact time_delta_sym. Qed.
