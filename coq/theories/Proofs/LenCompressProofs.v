(* Proofs/LenCompressProofs.v — Stage 3, names: the length walk's suffix set
   (compressionLenSearch) against the packer's compression map (packDomainName).
   Both visit the same suffixes of a name — the name itself and what follows each
   unescaped dot but the last — the first with NextLabel (backslash-run parity),
   the second with its own token reader. *)
From Dns Require Import Base.ListX Model.Len Spec.NameSpec Proofs.EscapeProofs Proofs.TokenProofs
  Proofs.LabelsProofs Proofs.NameWireProofs Proofs.LenNameProofs Proofs.LenFieldProofs.
From Coq Require Import Lia ZifyN ZifyNat ZifyBool.
Open Scope N_scope.
Open Scope list_scope.

(* ================================================================== *)
(* 1. the suffixes of a name that both walks visit                      *)
(* ================================================================== *)
(* what follows each unescaped dot that is not the last octet (token reading) *)
Fixpoint tsufs (s : bytes) : list bytes :=
  match s with
  | [] => []
  | 92 :: r =>
    match r with
    | a :: ((b :: c :: r3) as r1) => if is_digit a && is_digit b && is_digit c then tsufs r3 else tsufs r1
    | a :: r1 => tsufs r1
    | [] => []
    end
  | 46 :: r => match r with [] => [] | _ => r :: tsufs r end
  | _ :: r => tsufs r
  end.
(* number of octets up to and including the first such dot *)
Fixpoint first_sep (s : bytes) : option nat :=
  match s with
  | [] => None
  | 92 :: r =>
    match r with
    | a :: ((b :: c :: r3) as r1) =>
      if is_digit a && is_digit b && is_digit c then option_map (Nat.add 4) (first_sep r3)
      else option_map (Nat.add 2) (first_sep r1)
    | a :: r1 => option_map (Nat.add 2) (first_sep r1)
    | [] => None
    end
  | 46 :: r => match r with [] => None | _ => Some 1%nat end
  | _ :: r => option_map S (first_sep r)
  end.

Lemma tsufs_ddd a b c r3 : ddd3 a b c = true -> tsufs (92 :: a :: b :: c :: r3) = tsufs r3.
Proof. intro H. cbn. unfold ddd3 in H. now rewrite H. Qed.
Lemma tsufs_esc a r1 : is_ddd (a :: r1) = false -> tsufs (92 :: a :: r1) = tsufs r1.
Proof. intro H. destruct r1 as [|b [|c r3]]; try reflexivity. cbn. unfold is_ddd in H. now rewrite H. Qed.
Lemma tsufs_plain x r : x <> 92 -> x <> 46 -> tsufs (x :: r) = tsufs r.
Proof. intros H1 H2. plain_octet x. Qed.
Lemma tsufs_dot r : tsufs (46 :: r) = match r with [] => [] | _ => r :: tsufs r end.
Proof. reflexivity. Qed.

Lemma first_sep_ddd a b c r3 : ddd3 a b c = true ->
  first_sep (92 :: a :: b :: c :: r3) = option_map (Nat.add 4) (first_sep r3).
Proof. intro H. cbn [first_sep]. unfold ddd3 in H. now rewrite H. Qed.
Lemma first_sep_esc a r1 : is_ddd (a :: r1) = false ->
  first_sep (92 :: a :: r1) = option_map (Nat.add 2) (first_sep r1).
Proof. intro H. destruct r1 as [|b [|c r3]]; try reflexivity. cbn [first_sep]. unfold is_ddd in H. now rewrite H. Qed.
Lemma first_sep_plain x r : x <> 92 -> x <> 46 -> first_sep (x :: r) = option_map S (first_sep r).
Proof. intros H1 H2. plain_octet x. Qed.

Lemma tsufs_first_sep s :
  tsufs s = match first_sep s with Some k => skipn k s :: tsufs (skipn k s) | None => [] end.
Proof.
  induction s as [| a b c r3 Hd IH | a r1 Hd IH | | r IH | x r H1 H2 IH] using tok_ind.
  - reflexivity.
  - rewrite tsufs_ddd, first_sep_ddd by auto. rewrite IH. destruct (first_sep r3); reflexivity.
  - rewrite tsufs_esc, first_sep_esc by auto. rewrite IH. destruct (first_sep r1); reflexivity.
  - reflexivity.
  - destruct r; reflexivity.
  - rewrite tsufs_plain, first_sep_plain by auto. rewrite IH. destruct (first_sep r); reflexivity.
Qed.

(* the prefix up to a separator ends with the dot, and something follows *)
Lemma first_sep_spec s : forall k, first_sep s = Some k ->
  (exists p, firstn k s = p ++ [46]) /\ skipn k s <> [] /\ (k < length s)%nat.
Proof.
  induction s as [| a b c r3 Hd IH | a r1 Hd IH | | r IH | x r H1 H2 IH] using tok_ind; intros k H.
  - discriminate.
  - rewrite first_sep_ddd in H by auto. destruct (first_sep r3) as [k'|]; [|discriminate]. injection H as <-.
    destruct (IH k' eq_refl) as [[p Hp] [Hs Hl]]. cbn [Nat.add firstn skipn length]. rewrite Hp.
    split; [exists (92 :: a :: b :: c :: p); reflexivity|]. split; [exact Hs|lia].
  - rewrite first_sep_esc in H by auto. destruct (first_sep r1) as [k'|]; [|discriminate]. injection H as <-.
    destruct (IH k' eq_refl) as [[p Hp] [Hs Hl]]. cbn [Nat.add firstn skipn length]. rewrite Hp.
    split; [exists (92 :: a :: p); reflexivity|]. split; [exact Hs|lia].
  - discriminate.
  - cbn [first_sep] in H. destruct r as [|y r]; [discriminate|]. injection H as <-.
    split; [exists []; reflexivity|]. split; [discriminate|cbn; lia].
  - rewrite first_sep_plain in H by auto. destruct (first_sep r) as [k'|]; [|discriminate]. injection H as <-.
    destruct (IH k' eq_refl) as [[p Hp] [Hs Hl]]. cbn [firstn skipn length]. rewrite Hp.
    split; [exists (x :: p); reflexivity|]. split; [exact Hs|lia].
Qed.

Lemma first_sep_pos s k : first_sep s = Some k -> (0 < k)%nat.
Proof.
  intro H. destruct k; [|lia]. destruct (first_sep_spec s 0 H) as [[p Hp] _]. cbn in Hp. destruct p; discriminate.
Qed.

Lemma tsufs_shorter (s : bytes) : forall Z, In Z (tsufs s) -> (length Z < length s)%nat /\ Z <> [].
Proof.
  induction s as [| a b c r3 Hd IH | a r1 Hd IH | | r IH | x r H1 H2 IH] using tok_ind; intros Z H.
  - destruct H.
  - rewrite tsufs_ddd in H by auto. apply IH in H. cbn [length]. split; [lia|tauto].
  - rewrite tsufs_esc in H by auto. apply IH in H. cbn [length]. split; [lia|tauto].
  - destruct H.
  - rewrite tsufs_dot in H. destruct r as [|y r']; [destruct H|]. destruct H as [<-|H].
    + cbn [length]. split; [lia|discriminate].
    + apply IH in H. cbn [length] in *. split; [lia|tauto].
  - rewrite tsufs_plain in H by auto. apply IH in H. cbn [length]. split; [lia|tauto].
Qed.

(* the suffixes visited after a visited suffix are among those of the name *)
Lemma tsufs_trans (s : bytes) : forall Z, In Z (tsufs s) -> forall Z', In Z' (tsufs Z) -> In Z' (tsufs s).
Proof.
  induction s as [| a b c r3 Hd IH | a r1 Hd IH | | r IH | x r H1 H2 IH] using tok_ind; intros Z H Z' H'.
  - destruct H.
  - rewrite tsufs_ddd in * by auto. eauto.
  - rewrite tsufs_esc in * by auto. eauto.
  - destruct H.
  - rewrite tsufs_dot in *. destruct r as [|y r']; [destruct H|]. destruct H as [<-|H].
    + now right.
    + right. eauto.
  - rewrite tsufs_plain in * by auto. eauto.
Qed.

(* ================================================================== *)
(* 2. NextLabel steps from one visited suffix to the next               *)
(* ================================================================== *)
Lemma even_bs_run_cons x pre : x <> 92 -> Nat.even (bs_run (x :: pre)) = true.
Proof. intro H. cbn [bs_run]. replace (x =? 92) with false by lia. reflexivity. Qed.

Lemma nl_go_first_sep (rest : bytes) : forall pre i,
  Nat.even (bs_run pre) = true -> rest <> [] ->
  nl_go pre rest i = match first_sep rest with
                     | Some k => ((i + k)%nat, false)
                     | None => ((i + length rest)%nat, true)
                     end.
Proof.
  induction rest as [| a b c r3 Hd IH | a r1 Hd IH | | r IH | x r H1 H2 IH] using tok_ind; intros pre i Hev Hne.
  - congruence.
  - rewrite first_sep_ddd by auto.
    unfold ddd3 in Hd. apply andb_prop in Hd. destruct Hd as [Hd Hc]. apply andb_prop in Hd. destruct Hd as [Ha Hb].
    destruct (is_digit_not_special a Ha) as [Ha1 Ha2]. destruct (is_digit_not_special b Hb) as [Hb1 Hb2].
    destruct (is_digit_not_special c Hc) as [Hc1 Hc2].
    rewrite nl_go_cons by discriminate. cbn [N.eqb Pos.eqb andb].
    rewrite nl_go_cons by discriminate. replace (a =? 46) with false by lia. cbn [andb].
    rewrite nl_go_cons by discriminate. replace (b =? 46) with false by lia. cbn [andb].
    destruct r3 as [|y r3'].
    + cbn. f_equal. lia.
    + rewrite nl_go_cons by discriminate. replace (c =? 46) with false by lia. cbn [andb].
      rewrite IH; [|now apply even_bs_run_cons|discriminate].
      destruct (first_sep (y :: r3')); cbn [option_map length]; f_equal; lia.
  - rewrite first_sep_esc by auto.
    rewrite nl_go_cons by discriminate. cbn [N.eqb Pos.eqb andb].
    destruct r1 as [|y r1'].
    + cbn. f_equal. lia.
    + rewrite nl_go_cons by discriminate.
      assert (E : Nat.even (bs_run (92 :: pre)) = false).
      { cbn [bs_run N.eqb Pos.eqb]. rewrite Nat.even_succ, <- Nat.negb_even, Hev. reflexivity. }
      rewrite E, andb_false_r.
      rewrite IH; [| |discriminate].
      * destruct (first_sep (y :: r1')); cbn [option_map length]; f_equal; lia.
      * cbn [bs_run]. destruct (a =? 92); [|reflexivity]. cbn [N.eqb Pos.eqb].
        rewrite Nat.even_succ, Nat.odd_succ. exact Hev.
  - cbn. f_equal. lia.
  - cbn [first_sep]. destruct r as [|y r'].
    + cbn. f_equal. lia.
    + rewrite nl_go_cons by discriminate. rewrite Hev. cbn. f_equal. lia.
  - rewrite first_sep_plain by auto. destruct r as [|y r'].
    + cbn. f_equal. lia.
    + rewrite nl_go_cons by discriminate. replace (x =? 46) with false by lia. cbn [andb].
      rewrite IH; [|now apply even_bs_run_cons|discriminate].
      destruct (first_sep (y :: r')); cbn [option_map length]; f_equal; lia.
Qed.

Lemma firstn_add {A} (l : list A) : forall a b, firstn (a + b) l = firstn a l ++ firstn b (skipn a l).
Proof.
  induction l as [|x r IH]; intros a b.
  - now rewrite !firstn_nil, skipn_nil, firstn_nil.
  - destruct a; [reflexivity|]. cbn [Nat.add firstn skipn app]. now rewrite IH.
Qed.

(* ================================================================== *)
(* 3. compressionLenSearch as a walk over the visited suffixes           *)
(* ================================================================== *)
Definition mco : N := max_compression_offset.

(* n = len(s); the string offset of a suffix Z is n - len(Z) *)
Fixpoint cls_list (c : lset) (V : list bytes) (n : nat) (msgoff : N) : lset * option nat :=
  match V with
  | [] => (c, None)
  | Z :: V' =>
    if ls_mem c Z then (c, Some (n - length Z)%nat)
    else cls_list (if msgoff + N.of_nat (n - length Z) <? mco then Z :: c else c) V' n msgoff
  end.

Lemma cls_go_spec fuel : forall c s off msgoff Z,
  s <> [] -> skipn off s = Z -> Z <> [] ->
  Nat.even (bs_run (rev (firstn off s))) = true -> (length Z < fuel)%nat ->
  cls_go fuel c s off msgoff = cls_list c (Z :: tsufs Z) (length s) msgoff.
Proof.
  induction fuel as [|f IH]; intros c s off msgoff Z Hs HZ Hne Hev Hf; [lia|].
  assert (Hoff : (length s - length Z = off)%nat /\ (off < length s)%nat).
  { subst Z. rewrite skipn_length.
    assert (length (skipn off s) <> 0)%nat by (destruct (skipn off s); [congruence|discriminate]).
    rewrite skipn_length in H. lia. }
  destruct Hoff as [Ho Hlt].
  cbn [cls_go cls_list]. rewrite HZ, Ho. destruct (ls_mem c Z); [reflexivity|].
  fold mco.
  set (c' := if msgoff + N.of_nat off <? mco then Z :: c else c).
  unfold next_label. destruct s as [|x0 s0] eqn:Es; [congruence|]. rewrite <- Es in *.
  rewrite HZ, (nl_go_first_sep Z _ off Hev Hne), (tsufs_first_sep Z).
  destruct (first_sep Z) as [k|] eqn:Ek; [|reflexivity].
  destruct (first_sep_spec Z k Ek) as [[p Hp] [Hsk Hkl]].
  apply IH.
  - exact Hs.
  - rewrite <- HZ, skipn_skipn. f_equal. lia.
  - exact Hsk.
  - rewrite firstn_add, HZ, Hp, !rev_app_distr. cbn [rev app]. reflexivity.
  - pose proof (first_sep_pos Z k Ek). rewrite skipn_length. lia.
Qed.

Lemma compression_len_search_spec c s msgoff : s <> [] ->
  compression_len_search c s msgoff = cls_list c (s :: tsufs s) (length s) msgoff.
Proof.
  intro Hs. unfold compression_len_search. apply cls_go_spec; auto.
Qed.

Lemma ls_mem_In c k : ls_mem c k = true <-> In k c.
Proof.
  unfold ls_mem. rewrite existsb_exists. split.
  - intros [x [Hx E]]. apply bytes_eqb_eq in E. now subst.
  - intro H. exists k. split; [exact H|apply bytes_eqb_refl].
Qed.

(* what the walk returns: entries are only added, each a visited suffix whose
   estimated offset is below 16384; a hit is a visited suffix that was in the
   set before the walk started *)
Lemma cls_walk n msgoff c0 : forall m Z c c' hit,
  (length Z <= m)%nat ->
  (forall k, In k c -> In k c0 \/ (length Z < length k)%nat) ->
  cls_list c (Z :: tsufs Z) n msgoff = (c', hit) ->
  (forall k, In k c -> In k c') /\
  (forall k, In k c' -> In k c \/ In k (Z :: tsufs Z) /\ msgoff + N.of_nat (n - length k) < mco) /\
  (forall l, hit = Some l -> exists Z', In Z' (Z :: tsufs Z) /\ In Z' c0 /\ l = (n - length Z')%nat).
Proof.
  induction m as [|m IH]; intros Z c c' hit Hm Hc H.
  - (* the empty suffix has no successors *)
    destruct Z; [|cbn in Hm; lia]. cbn [tsufs cls_list] in H.
    destruct (ls_mem c []) eqn:Em.
    + injection H as <- <-. split; [auto|]. split; [auto|]. intros l E. injection E as <-.
      apply ls_mem_In in Em. destruct (Hc _ Em) as [H0|H0]; [|cbn in H0; lia].
      exists []. split; [now left|]. split; [exact H0|reflexivity].
    + cbn [cls_list] in H. injection H as <- <-. split; [|split; [|discriminate]].
      * intros k Hk. destruct (_ <? _); [now right|exact Hk].
      * intros k Hk. destruct (_ <? _) eqn:E; [|now left]. destruct Hk as [<-|Hk]; [|now left].
        right. split; [now left|lia].
  - cbn [cls_list] in H. destruct (ls_mem c Z) eqn:Em.
    + injection H as <- <-. split; [auto|]. split; [auto|]. intros l E. injection E as <-.
      apply ls_mem_In in Em. destruct (Hc _ Em) as [H0|H0]; [|lia].
      exists Z. split; [now left|]. split; [exact H0|reflexivity].
    + rewrite (tsufs_first_sep Z) in *. destruct (first_sep Z) as [k|] eqn:Ek.
      * destruct (first_sep_spec Z k Ek) as [_ [Hsk Hkl]]. pose proof (first_sep_pos Z k Ek) as Hk0.
        set (Z1 := skipn k Z) in *.
        assert (Hl1 : (length Z1 < length Z)%nat) by (unfold Z1; rewrite skipn_length; lia).
        assert (Hm1 : (length Z1 <= m)%nat) by lia.
        set (c1 := if msgoff + N.of_nat (n - length Z) <? mco then Z :: c else c) in *.
        assert (Hc1 : forall q, In q c1 -> In q c0 \/ (length Z1 < length q)%nat).
        { intros q Hq.
          assert (Hq' : q = Z \/ In q c) by (unfold c1 in Hq; destruct (_ <? _); [destruct Hq; auto|auto]).
          destruct Hq' as [->|Hq']; [now right|].
          destruct (Hc q Hq') as [H0|Hl]; [now left|right; lia]. }
        destruct (IH Z1 c1 c' hit Hm1 Hc1 H) as [I1 [I2 I3]]. unfold c1 in *. clear c1 Hc1.
        split; [|split].
        -- intros q Hq. apply I1. destruct (_ <? _); [now right|exact Hq].
        -- intros q Hq. destruct (I2 q Hq) as [Hq'|[Hq' Ho]].
           ++ destruct (_ <? _) eqn:E; [|now left]. destruct Hq' as [<-|Hq']; [|now left].
              right. split; [now left|lia].
           ++ right. split; [now right|exact Ho].
        -- intros l El. destruct (I3 l El) as [Z' [Hin [H0 Hl]]]. exists Z'. split; [now right|]. split; assumption.
      * cbn [cls_list] in H. injection H as <- <-. split; [|split; [|discriminate]].
        -- intros q Hq. destruct (_ <? _); [now right|exact Hq].
        -- intros q Hq. destruct (_ <? _) eqn:E; [|now left]. destruct Hq as [<-|Hq]; [|now left].
           right. split; [now left|lia].
Qed.

(* ================================================================== *)
(* 4. domainNameLen with a suffix set                                   *)
(* ================================================================== *)
Definition hit_est (s : bytes) (l : nat) : N :=
  if has_backslash s then escaped_name_len (firstn l s) + 2 else N.of_nat l + 2.

Lemma dnl_some s off cs cp n c' :
  domain_name_len s off (Some cs) cp = (n, c') ->
  exists cs', c' = Some cs' /\
    (forall k, In k cs -> In k cs') /\
    (forall k, In k cs' -> In k cs \/ In k (s :: tsufs s) /\ off + N.of_nat (length s - length k) < mco) /\
    (n = name_est s \/
     cp = true /\ exists Z, In Z (s :: tsufs s) /\ In Z cs /\ n = hit_est s (length s - length Z)).
Proof.
  unfold domain_name_len, name_est. intro H.
  destruct (bytes_eqb s [] || bytes_eqb s [46]) eqn:Eroot.
  { injection H as <- <-. exists cs. repeat split; auto. }
  assert (Hs : s <> []).
  { intro E. subst s. cbn in Eroot. discriminate. }
  destruct (cp || (off <? max_compression_offset)) eqn:Ego.
  2:{ injection H as <- <-. exists cs. repeat split; auto. }
  rewrite compression_len_search_spec in H by exact Hs.
  match type of H with (match ?t with _ => _ end) = _ => destruct t as [cs' hit] eqn:Ew end.
  destruct (cls_walk (length s) off cs (length s) s cs cs' hit (le_n _) (fun k Hk => or_introl Hk) Ew) as [W1 [W2 W3]].
  exists cs'.
  assert (Hc' : c' = Some cs') by (destruct hit as [l|]; [destruct cp|]; injection H as _ <-; reflexivity).
  split; [exact Hc'|]. split; [exact W1|]. split; [exact W2|].
  destruct hit as [l|]; [destruct cp|].
  - right. split; [reflexivity|]. destruct (W3 l eq_refl) as [Z [HZ [HZ0 Hl]]]. exists Z.
    split; [exact HZ|]. split; [exact HZ0|]. injection H as <- _. unfold hit_est. rewrite Hl. reflexivity.
  - left. injection H as <- _. reflexivity.
  - left. injection H as <- _. reflexivity.
Qed.

(* ================================================================== *)
(* 5. packDomainName with a compression map                             *)
(* ================================================================== *)
Definition in_cm (cm : cmap) (k : bytes) : Prop := cm_find cm k <> None.

Lemma in_cm_cons k0 v cm k : in_cm ((k0, v) :: cm) k <-> k0 = k \/ in_cm cm k.
Proof.
  unfold in_cm. cbn [cm_find]. destruct (bytes_eqb k0 k) eqn:E.
  - apply bytes_eqb_eq in E. split; [now left|discriminate].
  - split; [now right|]. intros [E'|H]; [|exact H]. subst. rewrite bytes_eqb_refl in E. discriminate.
Qed.

(* every key's later suffixes are keys too, unless the offset limit was reached *)
Definition closed (cm : cmap) (P : N) : Prop :=
  forall X Z, in_cm cm X -> In Z (tsufs X) -> in_cm cm Z \/ mco <= P.
(* ... during the walk over a name: the keys added by this walk (longer than
   the current label start) may still wait for the rest of the walk W *)
Definition closed_but (cm : cmap) (P : N) (lstart : bytes) (W : list bytes) : Prop :=
  forall X Z, in_cm cm X -> In Z (tsufs X) ->
    in_cm cm Z \/ mco <= P \/ ((length lstart < length X)%nat /\ In Z W).
Definition walk (lstart s' : bytes) : list bytes :=
  match s' with [] => [] | _ => lstart :: tsufs s' end.
Definition end_st (e : pn_end) : pn_state := match e with PnDone st => st | PnPointer st _ => st end.

Lemma closed_mono cm P P' : closed cm P -> P <= P' -> closed cm P'.
Proof. intros H HP X Z HX HZ. destruct (H X Z HX HZ); [now left|right; lia]. Qed.

Lemma lid_nil_false (s : bytes) : lid s false = true -> s <> [].
Proof. intros H E. subst. discriminate. Qed.

Lemma firstn_len_cons {A} (x : A) (r Z : list A) :
  (length Z <= length r)%nat ->
  firstn (length (x :: r) - length Z) (x :: r) = x :: firstn (length r - length Z) r.
Proof. intro H. cbn [length]. replace (S (length r) - length Z)%nat with (S (length r - length Z)) by lia. reflexivity. Qed.

Lemma is_ddd_firstn a r1 j : is_ddd (a :: r1) = false -> is_ddd (a :: firstn j r1) = false.
Proof.
  destruct r1 as [|b [|c r3]]; destruct j as [|[|j]]; cbn [firstn is_ddd]; auto.
Qed.

Lemma pn_go_cm s' : forall lab lstart wd nl cap cp st cm e,
  lid s' wd = true -> (wd = true <-> lab = []) -> pn_cm st = Some cm ->
  tsufs lstart = tsufs s' -> (length lab + length s' <= length lstart)%nat ->
  closed_but cm (lenN (pn_out st)) lstart (walk lstart s') ->
  pn_go s' false lab lstart wd nl cap cp st = Ok e ->
  exists cm', pn_cm (end_st e) = Some cm' /\
    (forall k, in_cm cm k -> in_cm cm' k) /\
    closed cm' (lenN (pn_out (end_st e))) /\
    (forall Z, In Z (walk lstart s') ->
       in_cm cm' Z \/ mco <= lenN (pn_out st) + N.of_nat (length lstart - length Z)) /\
    (s' <> [] -> in_cm cm lstart -> cp = true ->
       exists p, e = PnPointer (end_st e) p /\ lenN (pn_out (end_st e)) = lenN (pn_out st)) /\
    (forall Z, In Z (tsufs s') -> in_cm cm Z -> cp = true ->
       exists p, e = PnPointer (end_st e) p /\
         lenN (pn_out (end_st e)) <= lenN (pn_out st) + lenN lab + escaped_name_len (firstn (length s' - length Z) s')) /\
    lenN (pn_out st) <= lenN (pn_out (end_st e)).
Proof.
  induction s' as [| a b c r3 Hd IH | a r1 Hd IH | | r IH | x r H1 H2 IH] using tok_ind;
    intros lab lstart wd nl cap cp st cm e Hlid Hwd Hcm Hts Hlen Hcb H.
  - (* end of the text, right after a dot *)
    cbn [lid] in Hlid. cbn [pn_go] in H. injection H as <-. cbn [end_st]. exists cm.
    split; [exact Hcm|]. split; [auto|]. split.
    { intros X Z HX HZ. destruct (Hcb X Z HX HZ) as [?|[?|[_ []]]]; auto. }
    split; [intros Z []|]. split; [congruence|]. split; [intros Z []|lia].
  - (* \DDD *)
    rewrite pn_go_ddd in H by auto. destruct (_ <? _); [discriminate|].
    rewrite lid_ddd in Hlid by auto. pose proof (lid_nil_false _ Hlid) as Hr3.
    rewrite tsufs_ddd in Hts by auto.
    assert (Hw : walk lstart (92 :: a :: b :: c :: r3) = walk lstart r3).
    { unfold walk. rewrite tsufs_ddd by auto. destruct r3; [congruence|reflexivity]. }
    rewrite Hw in *.
    destruct (IH (lab ++ [ddd_to_byte (a :: b :: c :: r3)]) lstart false nl cap cp st cm e Hlid) as
        [cm' [E1 [E2 [E3 [E4 [E5 [E6 E7]]]]]]]; auto.
    { split; [discriminate|]. intro E. destruct lab; discriminate. }
    { rewrite app_length. cbn [length] in *. lia. }
    exists cm'. repeat (split; [assumption|]). split; [|split; [|exact E7]].
    + intros _. apply E5. exact Hr3.
    + intros Z HZ. rewrite tsufs_ddd in HZ by auto. intros Hin Hcp.
      destruct (E6 Z HZ Hin Hcp) as [p [Ep Hb]]. exists p. split; [exact Ep|].
      destruct (tsufs_shorter _ _ HZ) as [Hsh _].
      rewrite lenN_app, lenN_cons, lenN_nil in Hb.
      rewrite !firstn_len_cons by (cbn [length]; lia). rewrite enl_ddd by auto. lia.
  - (* \c *)
    rewrite pn_go_esc in H by auto. destruct (_ <? _); [discriminate|].
    rewrite lid_esc in Hlid by auto. pose proof (lid_nil_false _ Hlid) as Hr1.
    rewrite tsufs_esc in Hts by auto.
    assert (Hw : walk lstart (92 :: a :: r1) = walk lstart r1).
    { unfold walk. rewrite tsufs_esc by auto. destruct r1; [congruence|reflexivity]. }
    rewrite Hw in *.
    destruct (IH (lab ++ [a]) lstart false nl cap cp st cm e Hlid) as
        [cm' [E1 [E2 [E3 [E4 [E5 [E6 E7]]]]]]]; auto.
    { split; [discriminate|]. intro E. destruct lab; discriminate. }
    { rewrite app_length. cbn [length] in *. lia. }
    exists cm'. repeat (split; [assumption|]). split; [|split; [|exact E7]].
    + intros _. apply E5. exact Hr1.
    + intros Z HZ. rewrite tsufs_esc in HZ by auto. intros Hin Hcp.
      destruct (E6 Z HZ Hin Hcp) as [p [Ep Hb]]. exists p. split; [exact Ep|].
      destruct (tsufs_shorter _ _ HZ) as [Hsh _].
      rewrite lenN_app, lenN_cons, lenN_nil in Hb.
      rewrite !firstn_len_cons by (cbn [length]; lia). rewrite enl_esc by (now apply is_ddd_firstn). lia.
  - discriminate.
  - (* an unescaped dot: the compression map is consulted for the label start *)
    rewrite pn_go_dot in H. cbn [lid] in Hlid. cbn [andb] in H.
    destruct wd; [discriminate|].
    assert (Hlab : lab <> []). { intro E. apply Hwd in E. discriminate. }
    destruct (64 <=? lenN lab); [discriminate|]. destruct (cap <? _); [discriminate|].
    assert (Hroot : dot_root lab r = false) by (destruct lab; [congruence|reflexivity]).
    assert (Ehit : dot_hit st lab r lstart = cm_find cm lstart).
    { unfold dot_hit. now rewrite Hcm, Hroot. }
    rewrite Ehit in H.
    cbn [length] in Hlen.
    assert (Hwalk : walk lstart (46 :: r) = lstart :: walk r r).
    { unfold walk. rewrite tsufs_dot. destruct r; reflexivity. }
    assert (Htl : tsufs lstart = walk r r).
    { rewrite Hts, tsufs_dot. unfold walk. destruct r; reflexivity. }
    rewrite Hwalk in *.
    set (P := lenN (pn_out st)) in *.
    (* A: a hit that ends the loop *)
    assert (A : forall p, cm_find cm lstart = Some p -> cp = true ->
      (if max_name_wire <? nl + escaped_name_len lstart + 1 then Err "longdomain"%string
       else Ok (PnPointer st p)) = Ok e ->
      exists cm', pn_cm (end_st e) = Some cm' /\
        (forall k, in_cm cm k -> in_cm cm' k) /\ closed cm' (lenN (pn_out (end_st e))) /\
        (forall Z, In Z (lstart :: walk r r) -> in_cm cm' Z \/ mco <= P + N.of_nat (length lstart - length Z)) /\
        (46 :: r <> [] -> in_cm cm lstart -> cp = true ->
           exists q, e = PnPointer (end_st e) q /\ lenN (pn_out (end_st e)) = P) /\
        (forall Z, In Z (tsufs (46 :: r)) -> in_cm cm Z -> cp = true ->
           exists q, e = PnPointer (end_st e) q /\
             lenN (pn_out (end_st e)) <= P + lenN lab + escaped_name_len (firstn (length (46 :: r) - length Z) (46 :: r))) /\
        P <= lenN (pn_out (end_st e))).
    { intros p Ep Hcp H'. destruct (max_name_wire <? _); [discriminate|]. injection H' as <-. cbn [end_st].
      assert (Hin : in_cm cm lstart) by (unfold in_cm; rewrite Ep; discriminate).
      assert (Hsuf : forall Z, In Z (walk r r) -> in_cm cm Z \/ mco <= P).
      { intros Z HZ. rewrite <- Htl in HZ. destruct (Hcb lstart Z Hin HZ) as [?|[?|[Hl _]]]; auto. lia. }
      exists cm. split; [exact Hcm|]. split; [auto|]. split.
      { intros X Z HX HZ. destruct (Hcb X Z HX HZ) as [?|[?|[_ [<-|Hw]]]]; auto. }
      split.
      { intros Z [<-|HZ]; [now left|]. destruct (Hsuf Z HZ); [now left|right; lia]. }
      split; [intros _ _ _; exists p; split; reflexivity|]. split; [|fold P; lia].
      intros Z _ _ _. exists p. split; [reflexivity|]. fold P. lia. }
    (* B: the label is written and the walk goes on *)
    assert (B : (cm_find cm lstart = None \/ cp = false) ->
      (if max_name_wire <? nl + 1 + lenN lab + 1 then Err "longdomain"%string
       else pn_go r false [] r true (nl + 1 + lenN lab) cap cp
              {| pn_out := pn_out (dot_st1 st lab r lstart) ++ lenN lab :: lab;
                 pn_cm := pn_cm (dot_st1 st lab r lstart) |}) = Ok e ->
      exists cm', pn_cm (end_st e) = Some cm' /\
        (forall k, in_cm cm k -> in_cm cm' k) /\ closed cm' (lenN (pn_out (end_st e))) /\
        (forall Z, In Z (lstart :: walk r r) -> in_cm cm' Z \/ mco <= P + N.of_nat (length lstart - length Z)) /\
        (46 :: r <> [] -> in_cm cm lstart -> cp = true ->
           exists q, e = PnPointer (end_st e) q /\ lenN (pn_out (end_st e)) = P) /\
        (forall Z, In Z (tsufs (46 :: r)) -> in_cm cm Z -> cp = true ->
           exists q, e = PnPointer (end_st e) q /\
             lenN (pn_out (end_st e)) <= P + lenN lab + escaped_name_len (firstn (length (46 :: r) - length Z) (46 :: r))) /\
        P <= lenN (pn_out (end_st e))).
    { intros Hno H'. destruct (max_name_wire <? nl + 1 + lenN lab + 1); [discriminate|].
      (* the map after the lookup *)
      assert (Hst1 : exists cm1, pn_cm (dot_st1 st lab r lstart) = Some cm1 /\
                (forall k, in_cm cm1 k <-> in_cm cm k \/ (k = lstart /\ in_cm cm1 lstart)) /\
                (in_cm cm1 lstart \/ mco <= P)).
      { unfold dot_st1. rewrite Hcm, Hroot. destruct (cm_find cm lstart) as [p|] eqn:Ef.
        - exists cm. split; [exact Hcm|]. assert (in_cm cm lstart) by (unfold in_cm; rewrite Ef; discriminate).
          split; [|now left]. intro k. split; [now left|]. intros [?|[-> ?]]; assumption.
        - fold P. destruct (P <? max_compression_offset) eqn:Eo.
          + exists ((lstart, P) :: cm). split; [reflexivity|].
            assert (in_cm ((lstart, P) :: cm) lstart) by (apply in_cm_cons; now left).
            split; [|now left]. intro k. rewrite in_cm_cons. split.
            * intros [<-|?]; [right; split; [reflexivity|assumption]|now left].
            * intros [?|[-> _]]; [now right|now left].
          + exists cm. split; [exact Hcm|]. split; [|right; unfold mco; lia].
            intro k. split; [now left|]. intros [?|[-> ?]]; assumption. }
      destruct Hst1 as [cm1 [Hcm1 [Hk1 Hl1]]].
      set (st2 := {| pn_out := pn_out (dot_st1 st lab r lstart) ++ lenN lab :: lab;
                     pn_cm := pn_cm (dot_st1 st lab r lstart) |}) in *.
      assert (HP2 : lenN (pn_out st2) = P + 1 + lenN lab).
      { unfold st2. cbn [pn_out]. rewrite dot_st1_out, lenN_app, lenN_cons. fold P. lia. }
      assert (Hlr : (length r < length lstart)%nat) by lia.
      destruct (IH [] r true (nl + 1 + lenN lab) cap cp st2 cm1 e Hlid) as
          [cm' [E1 [E2 [E3 [E4 [E5 [E6 E7]]]]]]]; auto.
      { tauto. }
      { (* closed_but for the new state *)
        rewrite HP2. intros X Z HX HZ. apply Hk1 in HX. destruct HX as [HX|[-> HX]].
        - destruct (Hcb X Z HX HZ) as [Hz|[Hp|[Hl [<-|Hw]]]].
          + left. apply Hk1. now left.
          + right; left; lia.
          + destruct Hl1 as [Hl1|Hl1]; [now left|right; left; lia].
          + right; right. split; [lia|exact Hw].
        - right; right. split; [exact Hlr|]. rewrite <- Htl. exact HZ. }
      rewrite HP2 in *.
      exists cm'. split; [exact E1|]. split.
      { intros k Hk. apply E2. apply Hk1. now left. }
      split; [exact E3|]. split.
      { intros Z [<-|HZ].
        - destruct Hl1 as [Hl1|Hl1]; [left; now apply E2|right; lia].
        - destruct (E4 Z HZ) as [?|Ho]; [now left|right].
          assert (length Z <= length r)%nat.
          { unfold walk in HZ. destruct r as [|y r']; [destruct HZ|]. destruct HZ as [<-|HZ]; [lia|].
            apply tsufs_shorter in HZ. lia. }
          assert (lenN lab = N.of_nat (length lab)) by reflexivity. lia. }
      split.
      { intros _ Hin Hcp. exfalso. destruct Hno as [Hno|Hno]; [|congruence]. apply Hin. exact Hno. }
      split; [|lia].
      intros Z HZ Hin Hcp. rewrite tsufs_dot in HZ. destruct r as [|y r'] eqn:Er; [destruct HZ|]. rewrite <- Er in *.
      assert (Hrne : r <> []) by (rewrite Er; discriminate).
      destruct HZ as [<-|HZ].
      + destruct (E5 Hrne) as [q [Eq Hq]]; [apply Hk1; now left|exact Hcp|].
        exists q. split; [exact Eq|]. rewrite Hq.
        rewrite firstn_len_cons by lia. rewrite Nat.sub_diag. cbn [firstn].
        change (escaped_name_len [46]) with 1. lia.
      + destruct (E6 Z HZ) as [q [Eq Hq]]; [apply Hk1; now left|exact Hcp|].
        exists q. split; [exact Eq|]. destruct (tsufs_shorter _ _ HZ) as [Hsh _].
        rewrite firstn_len_cons by lia. rewrite enl_plain by lia. rewrite lenN_nil in Hq. lia. }
    destruct (cm_find cm lstart) as [p|] eqn:Ef; [destruct cp eqn:Ecp|].
    + exact (A p eq_refl eq_refl H).
    + apply B; [now right|exact H].
    + apply B; [now left|exact H].
  - (* a plain octet *)
    rewrite pn_go_plain in H by auto.
    rewrite lid_plain in Hlid by auto. pose proof (lid_nil_false _ Hlid) as Hr.
    rewrite tsufs_plain in Hts by auto.
    assert (Hw : walk lstart (x :: r) = walk lstart r).
    { unfold walk. rewrite tsufs_plain by auto. destruct r; [congruence|reflexivity]. }
    rewrite Hw in *.
    destruct (IH (lab ++ [x]) lstart false nl cap cp st cm e Hlid) as
        [cm' [E1 [E2 [E3 [E4 [E5 [E6 E7]]]]]]]; auto.
    { split; [discriminate|]. intro E. destruct lab; discriminate. }
    { rewrite app_length. cbn [length] in *. lia. }
    exists cm'. repeat (split; [assumption|]). split; [|split; [|exact E7]].
    + intros _. apply E5. exact Hr.
    + intros Z HZ. rewrite tsufs_plain in HZ by auto. intros Hin Hcp.
      destruct (E6 Z HZ Hin Hcp) as [p [Ep Hb]]. exists p. split; [exact Ep|].
      destruct (tsufs_shorter _ _ HZ) as [Hsh _].
      rewrite lenN_app, lenN_cons, lenN_nil in Hb.
      rewrite firstn_len_cons by lia. rewrite enl_plain by auto. lia.
Qed.

(* ---------- packDomainName as a whole ---------- *)
Lemma pack_name_root_cm cap cp st st' :
  pack_name [46] cap cp st = Ok st' -> pn_cm st' = pn_cm st.
Proof.
  unfold pack_name. cbn [is_fqdn rev app bs_run Nat.even negb].
  rewrite pn_go_dot. cbn [andb negb]. rewrite lenN_nil.
  destruct (cap <? _); [discriminate|].
  assert (Eh : dot_hit st [] [] [46] = None).
  { unfold dot_hit. destruct (pn_cm st); reflexivity. }
  assert (E1 : dot_st1 st [] [] [46] = st).
  { unfold dot_st1. destruct (pn_cm st); reflexivity. }
  rewrite Eh, E1. destruct (max_name_wire <? _); [discriminate|]. cbn [pn_go bind].
  rewrite bytes_eqb_refl. intro E; injection E as <-. reflexivity.
Qed.

Lemma pack_name_cm s cap cp st cm st' :
  pn_cm st = Some cm -> closed cm (lenN (pn_out st)) -> pack_name s cap cp st = Ok st' ->
  exists cm', pn_cm st' = Some cm' /\
    (forall k, in_cm cm k -> in_cm cm' k) /\
    closed cm' (lenN (pn_out st')) /\
    lenN (pn_out st) <= lenN (pn_out st') /\
    (s <> [] -> s <> [46] ->
       (forall Z, In Z (s :: tsufs s) ->
          in_cm cm' Z \/ mco <= lenN (pn_out st) + N.of_nat (length s - length Z)) /\
       (forall Z, In Z (s :: tsufs s) -> in_cm cm Z -> cp = true ->
          lenN (pn_out st') <= lenN (pn_out st) + escaped_name_len (firstn (length s - length Z) s) + 2)).
Proof.
  intros Hcm Hcl H.
  destruct (list_eq_dec N.eq_dec s []) as [->|H1].
  { cbn in H. injection H as <-. exists cm. repeat split; auto; try lia; congruence. }
  destruct (list_eq_dec N.eq_dec s [46]) as [->|H2].
  { pose proof (pack_name_root_cm _ _ _ _ H) as Hc. pose proof (pack_name_root _ _ _ _ H) as Ho.
    exists cm. split; [congruence|]. split; [auto|]. split; [eapply closed_mono; [exact Hcl|lia]|].
    split; [lia|congruence]. }
  revert H. unfold pack_name. destruct s as [|x r] eqn:Es; [congruence|]. rewrite <- Es in *.
  destruct (is_fqdn s) eqn:Hf; [|discriminate]. cbn [negb].
  rewrite pn_go_first by exact H2.
  destruct (pn_go s false [] s true 0 cap cp st) as [e| | |] eqn:E; try discriminate. cbn [bind].
  assert (Hlid : lid s true = true). { apply lid_first_equiv; [exact H2|]. now apply is_fqdn_lid. }
  assert (Hw : walk s s = s :: tsufs s) by (unfold walk; rewrite Es; reflexivity).
  destruct (pn_go_cm s [] s true 0 cap cp st cm e Hlid) as [cm' [E1 [E2 [E3 [E4 [E5 [E6 E7]]]]]]]; auto.
  { tauto. }
  { intros X Z HX HZ. destruct (Hcl X Z HX HZ); auto. }
  rewrite Hw in E4. rewrite lenN_nil in E6. rewrite (bytes_eqb_false s [46]) by exact H2.
  assert (K : forall st', pn_cm st' = pn_cm (end_st e) -> lenN (pn_out (end_st e)) <= lenN (pn_out st') ->
     (match e with PnDone _ => lenN (pn_out st') = lenN (pn_out (end_st e)) + 1
                 | PnPointer _ _ => lenN (pn_out st') = lenN (pn_out (end_st e)) + 2 end) ->
     exists cm'0, pn_cm st' = Some cm'0 /\ (forall k, in_cm cm k -> in_cm cm'0 k) /\
       closed cm'0 (lenN (pn_out st')) /\ lenN (pn_out st) <= lenN (pn_out st') /\
       (s <> [] -> s <> [46] ->
         (forall Z, In Z (s :: tsufs s) ->
            in_cm cm'0 Z \/ mco <= lenN (pn_out st) + N.of_nat (length s - length Z)) /\
         (forall Z, In Z (s :: tsufs s) -> in_cm cm Z -> cp = true ->
            lenN (pn_out st') <= lenN (pn_out st) + escaped_name_len (firstn (length s - length Z) s) + 2))).
  { intros st'0 Hc Hge Hsz. exists cm'. split; [congruence|]. split; [exact E2|].
    split; [eapply closed_mono; [exact E3|exact Hge]|]. split; [lia|]. intros _ _. split; [exact E4|].
    intros Z [<-|HZ] Hin Hcp.
    - destruct (E5 H1 Hin Hcp) as [p [Ep Ho]]. rewrite Nat.sub_diag. cbn [firstn escaped_name_len].
      destruct e; [discriminate Ep|]. cbn [end_st] in *. lia.
    - destruct (E6 Z HZ Hin Hcp) as [p [Ep Ho]].
      destruct e; [discriminate Ep|]. cbn [end_st] in *. lia. }
  destruct e as [st1|st1 p]; cbn [end_st] in *.
  - destruct (_ <? cap); [|discriminate]. intro X; injection X as <-. apply K; cbn [pn_out pn_cm].
    + reflexivity.
    + rewrite lenN_app. lia.
    + rewrite lenN_app, lenN_cons, lenN_nil. lia.
  - destruct (cap <? _); [discriminate|]. intro X; injection X as <-. apply K; cbn [pn_out pn_cm].
    + reflexivity.
    + rewrite lenN_app. lia.
    + rewrite lenN_app. change (lenN (u16 (p + 49152))) with 2. lia.
Qed.

(* ================================================================== *)
(* 6. one name, both sides                                              *)
(* ================================================================== *)
(* the invariant: every suffix the length walk holds is a key of the packer's
   map, and the map is closed under later suffixes *)
Definition Jc (cm : cmap) (ls : lset) (P : N) : Prop :=
  (forall k, In k ls -> in_cm cm k) /\ closed cm P.

Lemma Jc_mono cm ls P P' : Jc cm ls P -> P <= P' -> Jc cm ls P'.
Proof. intros [H1 H2] HP. split; [exact H1|eapply closed_mono; eauto]. Qed.

Lemma enl_firstn_le (s : bytes) l : escaped_name_len (firstn l s) <= N.of_nat l.
Proof.
  pose proof (enl_le (firstn l s)). unfold lenN in H. rewrite firstn_length in H. lia.
Qed.

(* a name packed at offset P and measured at offset L >= P: the measure is at
   least what is written, and the invariant is kept.  cpL/cpP: compress flags *)
Lemma name_joint s cap cpP cpL st cm ls L n c' st' :
  pn_cm st = Some cm -> Jc cm ls (lenN (pn_out st)) -> lenN (pn_out st) <= L ->
  (cpL = true -> cpP = true) ->
  pack_name s cap cpP st = Ok st' ->
  domain_name_len s L (Some ls) cpL = (n, c') ->
  exists cm' ls', pn_cm st' = Some cm' /\ c' = Some ls' /\
    lenN (pn_out st') <= lenN (pn_out st) + n /\ Jc cm' ls' (lenN (pn_out st')).
Proof.
  intros Hcm [Hb Hcl] HPL Hcp Hp Hl.
  destruct (pack_name_cm s cap cpP st cm st' Hcm Hcl Hp) as [cm' [C1 [C2 [C3 [C4 C5]]]]].
  destruct (bytes_eqb s [] || bytes_eqb s [46]) eqn:Eroot.
  { (* "" and ".": no walk on either side *)
    unfold domain_name_len in Hl. rewrite Eroot in Hl. injection Hl as <- <-.
    exists cm', ls. split; [exact C1|]. split; [reflexivity|]. split.
    - apply pack_name_size_est in Hp. unfold name_est in Hp. rewrite Eroot in Hp. exact Hp.
    - split; [intros k Hk; apply C2, Hb, Hk|exact C3]. }
  apply orb_false_elim in Eroot. destruct Eroot as [E1 E2].
  assert (H1 : s <> []) by (intro E; subst; discriminate).
  assert (H2 : s <> [46]) by (intro E; subst; discriminate).
  destruct (C5 H1 H2) as [Cov Hit].
  destruct (dnl_some s L ls cpL n c' Hl) as [ls' [Ec [W1 [W2 Wn]]]].
  exists cm', ls'. split; [exact C1|]. split; [exact Ec|]. split.
  - destruct Wn as [->|[Hc [Z [HZ [HZ0 ->]]]]].
    + now apply pack_name_size_est in Hp.
    + specialize (Hit Z HZ (Hb Z HZ0) (Hcp Hc)). unfold hit_est.
      destruct (has_backslash s); [lia|].
      pose proof (enl_firstn_le s (length s - length Z)). lia.
  - split; [|exact C3]. intros k Hk. destruct (W2 k Hk) as [Hk0|[HkV Hoff]].
    + apply C2, Hb, Hk0.
    + destruct (Cov k HkV) as [?|Hge]; [assumption|]. unfold mco in *. lia.
Qed.
