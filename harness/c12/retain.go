package main

// C12, retained requests: "each handler sees exactly the request its client
// sent ... no mixing across requests, connections or recycled receive buffers".
//
// Class exercised here: requests whose EVERY variable-length part (each EDNS0
// option kind including local/unknown codes, TXT, NULL, unknown-type RDATA,
// names, and records of every registered type) carries octets unique to that
// request, and handlers that KEEP the request while the server goes on receiving
// (the receive buffer of the kept request is recycled, deterministically on one
// P, statistically on many), then compare the kept request with what the client
// sent (an independent decode of the client's octets from a private copy) and
// only then write the reply, which the client checks.

import (
	"bytes"
	"crypto/sha1"
	"encoding/binary"
	"encoding/hex"
	"errors"
	"fmt"
	"net"
	"reflect"
	"runtime"
	"strings"
	"sync"
	"sync/atomic"
	"time"

	"github.com/miekg/dns"
	. "verif/harness/common"
	"verif/harness/netfake"
)

// tagBytes expands a request tag into n octets that differ per request and per part.
func tagBytes(tag []byte, part byte, n int) []byte {
	var out []byte
	for ctr := byte(0); len(out) < n; ctr++ {
		h := sha1.Sum(append(append([]byte{part, ctr}, tag...), part))
		out = append(out, h[:]...)
	}
	return out[:n]
}

func tagText(tag []byte, part byte, n int) string {
	return hex.EncodeToString(tagBytes(tag, part, (n+1)/2))[:n]
}

// genRetries counts discarded generation attempts (mkRich runs in client goroutines too).
var genRetries atomic.Int64

// richRequest is one generated request: the octets the client sends and an
// independent decode of them (from a private copy nobody else touches).
type richRequest struct {
	wire  []byte
	ref   *dns.Msg
	reply []byte // what the client must receive: echoReply(ref) packed
	kinds []string
}

// echoReply is what every handler of this file answers: the request's own
// sections under a reply header, built from the request AS THE HANDLER HOLDS IT
// at the time of writing.
func echoReply(req *dns.Msg) *dns.Msg {
	rep := new(dns.Msg)
	rep.SetReply(req)
	rep.Answer, rep.Ns, rep.Extra = req.Answer, req.Ns, req.Extra
	return rep
}

// mkRich builds request (cid, seq). Parts are added in random order while the
// packed size stays within budget. strict keeps the section counts the default
// accept function admits (1 question, <=1 answer, <=1 authority, <=2 additional).
func mkRich(r *Rng, cid, seq, budget int, strict bool, force uint16) *richRequest {
	for attempt := 0; attempt < 20; attempt++ {
		tag := sha1.Sum([]byte(fmt.Sprintf("%d/%d/%d", cid, seq, r.Next())))
		tg := tag[:]
		m := new(dns.Msg)
		m.Id = uint16(r.Next())
		m.RecursionDesired = r.Bool()
		m.CheckingDisabled = r.Bool()
		m.Compress = r.Bool()
		base := fmt.Sprintf("c%d-s%d.%s.rt.", cid, seq, tagText(tg, 0, 12))
		qt := []uint16{dns.TypeTXT, dns.TypeA, dns.TypeNULL, dns.TypeANY, 65280}[r.Intn(5)]
		m.Question = []dns.Question{{Name: base, Qtype: qt, Qclass: 1}}
		opt := &dns.OPT{Hdr: dns.RR_Header{Name: ".", Rrtype: dns.TypeOPT}}
		opt.SetUDPSize(4096)
		pool := &NamePool{R: r, Names: []string{base}}
		var kinds []string
		addRR := func(rr dns.RR) bool {
			if strict {
				switch {
				case len(m.Extra) < 1:
					m.Extra = append(m.Extra, rr)
				case len(m.Answer) < 1:
					m.Answer = append(m.Answer, rr)
				case len(m.Ns) < 1:
					m.Ns = append(m.Ns, rr)
				default:
					return false
				}
			} else {
				switch r.Intn(3) {
				case 0:
					m.Answer = append(m.Answer, rr)
				case 1:
					m.Ns = append(m.Ns, rr)
				default:
					m.Extra = append(m.Extra, rr)
				}
			}
			return true
		}
		hdr := func(p byte, t uint16) dns.RR_Header {
			return dns.RR_Header{Name: tagText(tg, p, 1+r.Intn(20)) + "." + base, Rrtype: t, Class: 1, Ttl: uint32(r.Next())}
		}
		ln := func(max int) int { // boundary-biased payload length
			switch r.Intn(6) {
			case 0:
				return 1
			case 1:
				return max
			}
			return 1 + r.Intn(max)
		}
		parts := []func() bool{
			func() bool {
				opt.Option = append(opt.Option, &dns.EDNS0_NSID{Code: dns.EDNS0NSID, Nsid: hex.EncodeToString(tagBytes(tg, 1, ln(24)))})
				return true
			},
			func() bool {
				if r.Bool() {
					opt.Option = append(opt.Option, &dns.EDNS0_SUBNET{Code: dns.EDNS0SUBNET, Family: 1, SourceNetmask: 32, Address: net.IP(tagBytes(tg, 2, 4)).To16()})
				} else {
					ip := net.IP(tagBytes(tg, 2, 16))
					ip[0] = 0x20
					opt.Option = append(opt.Option, &dns.EDNS0_SUBNET{Code: dns.EDNS0SUBNET, Family: 2, SourceNetmask: 128, Address: ip})
				}
				return true
			},
			func() bool {
				opt.Option = append(opt.Option, &dns.EDNS0_COOKIE{Code: dns.EDNS0COOKIE, Cookie: hex.EncodeToString(tagBytes(tg, 3, 8+8*r.Intn(4)))})
				return true
			},
			func() bool {
				b := tagBytes(tg, 4, 8)
				opt.Option = append(opt.Option, &dns.EDNS0_UL{Code: dns.EDNS0UL, Lease: binary.BigEndian.Uint32(b), KeyLease: binary.BigEndian.Uint32(b[4:]) | 1})
				return true
			},
			func() bool {
				b := tagBytes(tg, 5, 18)
				opt.Option = append(opt.Option, &dns.EDNS0_LLQ{Code: dns.EDNS0LLQ, Version: binary.BigEndian.Uint16(b), Opcode: binary.BigEndian.Uint16(b[2:]),
					Error: binary.BigEndian.Uint16(b[4:]), Id: binary.BigEndian.Uint64(b[6:]), LeaseLife: binary.BigEndian.Uint32(b[14:])})
				return true
			},
			func() bool {
				opt.Option = append(opt.Option, &dns.EDNS0_DAU{Code: dns.EDNS0DAU, AlgCode: tagBytes(tg, 6, ln(12))})
				return true
			},
			func() bool {
				opt.Option = append(opt.Option, &dns.EDNS0_DHU{Code: dns.EDNS0DHU, AlgCode: tagBytes(tg, 7, ln(12))})
				return true
			},
			func() bool {
				opt.Option = append(opt.Option, &dns.EDNS0_N3U{Code: dns.EDNS0N3U, AlgCode: tagBytes(tg, 8, ln(12))})
				return true
			},
			func() bool {
				opt.Option = append(opt.Option, &dns.EDNS0_EXPIRE{Code: dns.EDNS0EXPIRE, Expire: binary.BigEndian.Uint32(tagBytes(tg, 9, 4))})
				return true
			},
			func() bool { // local / experimental range
				opt.Option = append(opt.Option, &dns.EDNS0_LOCAL{Code: uint16(dns.EDNS0LOCALSTART + r.Intn(dns.EDNS0LOCALEND-dns.EDNS0LOCALSTART+1)), Data: tagBytes(tg, 10, ln(48))})
				return true
			},
			func() bool { // unassigned codes decode as opaque options too
				code := []uint16{0, 13, 14, 16, 17, 20, 21, 255, 256, 4660, 32768, 65000, 65535}[r.Intn(13)]
				opt.Option = append(opt.Option, &dns.EDNS0_LOCAL{Code: code, Data: tagBytes(tg, 11, ln(48))})
				return true
			},
			func() bool {
				opt.Option = append(opt.Option, &dns.EDNS0_TCP_KEEPALIVE{Code: dns.EDNS0TCPKEEPALIVE, Timeout: binary.BigEndian.Uint16(tagBytes(tg, 12, 2)) | 1})
				return true
			},
			func() bool {
				opt.Option = append(opt.Option, &dns.EDNS0_PADDING{Padding: tagBytes(tg, 13, ln(64))})
				return true
			},
			func() bool {
				opt.Option = append(opt.Option, &dns.EDNS0_EDE{InfoCode: binary.BigEndian.Uint16(tagBytes(tg, 14, 2)), ExtraText: tagText(tg, 14, ln(40))})
				return true
			},
			func() bool {
				opt.Option = append(opt.Option, &dns.EDNS0_ESU{Code: dns.EDNS0ESU, Uri: "sip:+" + tagText(tg, 15, ln(30))})
				return true
			},
			func() bool {
				opt.Option = append(opt.Option, &dns.EDNS0_REPORTING{Code: dns.EDNS0REPORTING, AgentDomain: tagText(tg, 16, ln(30)) + ".agent." + base})
				return true
			},
			func() bool {
				opt.Option = append(opt.Option, &dns.EDNS0_ZONEVERSION{Code: dns.EDNS0ZONEVERSION, LabelCount: uint8(dns.CountLabel(base)), Type: 0, Version: string(tagBytes(tg, 17, 4))})
				return true
			},
			func() bool {
				var ss []string
				for k := 1 + r.Intn(3); k > 0; k-- {
					ss = append(ss, tagText(tg, 20+byte(k), []int{0, 1, 17, 100, 255}[r.Intn(5)]))
				}
				return addRR(&dns.TXT{Hdr: hdr(20, dns.TypeTXT), Txt: ss})
			},
			func() bool {
				return addRR(&dns.NULL{Hdr: hdr(30, dns.TypeNULL), Data: string(tagBytes(tg, 30, ln(120)))})
			},
			func() bool { // a type the library has no struct for
				t := uint16(65280 + r.Intn(200))
				return addRR(&dns.RFC3597{Hdr: hdr(31, t), Rdata: hex.EncodeToString(tagBytes(tg, 31, ln(120)))})
			},
			func() bool { // long owner name made of request-unique labels
				n := ""
				for k := byte(0); len(n) < 150; k++ {
					n += tagText(tg, 40+k, 1+r.Intn(63)) + "."
				}
				return addRR(&dns.NULL{Hdr: dns.RR_Header{Name: n + base, Rrtype: dns.TypeNULL, Class: 1}, Data: string(tagBytes(tg, 41, 3))})
			},
		}
		// records of every registered type (random field values, so unique as well)
		types := AllTypes()
		genAny := func() bool {
			t := types[r.Intn(len(types))]
			if t == dns.TypeOPT || t == dns.TypeTSIG || t == dns.TypeSIG {
				t = dns.TypeSVCB
			}
			rr, info := GenRR(r, pool, t, false)
			if !info.WellFormed {
				return true
			}
			kinds = append(kinds, dns.Type(t).String())
			return addRR(rr)
		}
		for k := 0; k < 3; k++ {
			parts = append(parts, genAny)
		}
		withOpt := r.Intn(8) != 0
		if force != 0 && force != dns.TypeOPT && force != dns.TypeTSIG && force != dns.TypeSIG { // a record of this type first, whatever else fits
			if rr, info := GenRR(r, pool, force, false); info.WellFormed {
				save := *m
				addRR(rr)
				if m.Len() > budget-40 {
					*m = save
				} else {
					kinds = append(kinds, dns.Type(force).String())
				}
			}
		}
		for n := len(parts); n > 0; n-- { // random order, stop at the budget
			i := r.Intn(n)
			f := parts[i]
			parts[i] = parts[n-1]
			save := *m
			saveOpt := append([]dns.EDNS0(nil), opt.Option...)
			ok := f()
			probe := *m
			if withOpt {
				probe.Extra = append(append([]dns.RR(nil), m.Extra...), opt)
			}
			if !ok || probe.Len() > budget {
				*m = save
				opt.Option = saveOpt
				continue
			}
		}
		if withOpt {
			pos := r.Intn(len(m.Extra) + 1)
			m.Extra = append(m.Extra[:pos:pos], append([]dns.RR{opt}, m.Extra[pos:]...)...)
			for _, o := range opt.Option {
				kinds = append(kinds, fmt.Sprintf("opt%d", o.Option()))
			}
		}
		wire, err := m.Pack()
		if err != nil || len(wire) > budget+64 {
			genRetries.Add(1)
			continue
		}
		if rq := richFromWire(wire, kinds); rq != nil {
			return rq
		}
		genRetries.Add(1)
	}
	// fallback: a plain tagged question (always packs)
	m := new(dns.Msg)
	m.SetQuestion(fmt.Sprintf("c%d-s%d.fallback.rt.", cid, seq), dns.TypeA)
	wire, _ := m.Pack()
	return richFromWire(wire, nil)
}

// richFromWire: the octets a client sends, an independent decode of them, and
// the echo reply the client must receive (packed from a second decode, so that
// ref itself is never handed to the library again).
func richFromWire(wire []byte, kinds []string) *richRequest {
	rq := richFromAnyWire(wire, kinds)
	if rq == nil || len(rq.ref.Question) != 1 || len(rq.reply) > 4000 { // replies must fit the clients' 4096-octet buffers
		return nil
	}
	return rq
}

// richFromAnyWire is richFromWire for whatever the decoder takes, a message
// without a question included.
func richFromAnyWire(wire []byte, kinds []string) *richRequest {
	ref, ref2 := new(dns.Msg), new(dns.Msg)
	if ref.Unpack(append([]byte(nil), wire...)) != nil || ref2.Unpack(append([]byte(nil), wire...)) != nil {
		return nil
	}
	reply, err := echoReply(ref2).Pack()
	if err != nil || len(reply) > 65000 {
		return nil
	}
	return &richRequest{wire: wire, ref: ref, reply: reply, kinds: kinds}
}

// forcedType walks through all registered types, so that every run puts each
// of them into kept requests several times.
var forcedNext int

func forcedType(r *Rng) uint16 {
	ts := AllTypes()
	forcedNext++
	return ts[forcedNext%len(ts)]
}

// msgDiff names the first part in which two messages differ.
func msgDiff(want, got *dns.Msg) string {
	if got == nil {
		return "no message"
	}
	if want.MsgHdr != got.MsgHdr {
		return fmt.Sprintf("header: sent %+v, seen %+v", want.MsgHdr, got.MsgHdr)
	}
	if !reflect.DeepEqual(want.Question, got.Question) {
		return fmt.Sprintf("question: sent %v, seen %v", want.Question, got.Question)
	}
	sec := func(name string, a, b []dns.RR) string {
		if len(a) != len(b) {
			return fmt.Sprintf("%s: sent %d records, seen %d", name, len(a), len(b))
		}
		for i := range a {
			if reflect.DeepEqual(a[i], b[i]) {
				continue
			}
			if oa, ok := a[i].(*dns.OPT); ok {
				if ob, ok := b[i].(*dns.OPT); ok && len(oa.Option) == len(ob.Option) {
					for j := range oa.Option {
						if !reflect.DeepEqual(oa.Option[j], ob.Option[j]) {
							return fmt.Sprintf("%s[%d] OPT option %d (code %d): sent %s, seen %s", name, i, j, oa.Option[j].Option(),
								short(fmt.Sprintf("%#v", oa.Option[j])), short(fmt.Sprintf("%#v", ob.Option[j])))
						}
					}
				}
			}
			return fmt.Sprintf("%s[%d]: sent %s, seen %s", name, i, short(a[i].String()), short(b[i].String()))
		}
		return ""
	}
	for _, s := range []string{sec("answer", want.Answer, got.Answer), sec("authority", want.Ns, got.Ns), sec("additional", want.Extra, got.Extra)} {
		if s != "" {
			return s
		}
	}
	if !reflect.DeepEqual(want, got) {
		return "messages differ (same sections)"
	}
	return ""
}

func short(s string) string {
	if len(s) > 160 {
		return s[:160] + "..."
	}
	return s
}

type retainIn struct {
	Transport string   `json:"transport"`
	Mode      string   `json:"mode"`
	Request   string   `json:"request_hex,omitempty"`
	Kinds     string   `json:"request_parts,omitempty"`
	What      []string `json:"what"`
}

type badList struct {
	mu   sync.Mutex
	bad  []string
	wire string
	kind string
}

func (b *badList) add(rq *richRequest, s string) {
	b.mu.Lock()
	if len(b.bad) < 5 {
		b.bad = append(b.bad, s)
	}
	if b.wire == "" && rq != nil {
		b.wire, b.kind = Hx(rq.wire), strings.Join(rq.kinds, ",")
	}
	b.mu.Unlock()
}

func acceptAll(dns.Header) dns.MsgAcceptAction { return dns.MsgAccept }

// ptrReader remembers which buffer each datagram was read into.
type ptrReader struct {
	dns.Reader
	mu   sync.Mutex
	bufs []*byte
}

func (p *ptrReader) ReadPacketConn(conn net.PacketConn, t time.Duration) ([]byte, net.Addr, error) {
	m, a, err := p.Reader.(dns.PacketConnReader).ReadPacketConn(conn, t)
	if err == nil && cap(m) > 0 {
		p.mu.Lock()
		p.bufs = append(p.bufs, &m[:1][0])
		p.mu.Unlock()
	}
	return m, a, err
}

// runRetainUDP: n rich requests queued on a scripted packet conn; every fourth
// (random) handler keeps its request parked until the serve loop has received
// every other datagram and the other handlers are done, then re-checks it and
// replies from it. onep: single P and the serve loop reads datagram k only
// after handler k-1 has been entered, so the buffer of a parked request is the
// next one the pool hands out.
func runRetainUDP(r *Rng, n int, onep bool, udpSize int, strict bool) {
	mode := fmt.Sprintf("scripted-udp,onep=%v,udpsize=%d,strict=%v", onep, udpSize, strict)
	if onep {
		old := runtime.GOMAXPROCS(1)
		defer runtime.GOMAXPROCS(old)
	}
	budget := 440
	if udpSize >= 4096 {
		budget = []int{440, 1200, 3000}[r.Intn(3)]
	} else if udpSize >= 1232 {
		budget = []int{440, 1100}[r.Intn(2)]
	}
	reqs := make([]*richRequest, n)
	parked := make([]bool, n)
	var in [][]byte
	nparked := 0
	for i := range reqs {
		reqs[i] = mkRich(r, i, 0, budget, strict, forcedType(r))
		in = append(in, reqs[i].wire)
		if i < n-8 && r.Intn(4) == 0 {
			parked[i] = true
			nparked++
		}
	}
	pc := netfake.NewPacketConn(in, nil)
	entered := make([]chan struct{}, n)
	for i := range entered {
		entered[i] = make(chan struct{})
	}
	var infra atomic.Bool
	if onep {
		pc.Hold = func(k int) {
			if k >= 1 && !netfake.WaitChan(entered[k-1], 10*time.Second) {
				infra.Store(true)
			}
		}
	}
	release := make(chan struct{})
	var finished atomic.Int64
	x := &badList{}
	pr := &ptrReader{}
	h := func(w dns.ResponseWriter, req *dns.Msg) {
		a, ok := w.RemoteAddr().(netfake.Addr)
		if !ok || a.N < 0 || a.N >= n {
			x.add(nil, fmt.Sprintf("handler called for unknown peer %v", w.RemoteAddr()))
			return
		}
		k := a.N
		if d := msgDiff(reqs[k].ref, req); d != "" {
			x.add(reqs[k], fmt.Sprintf("request %d on entry of its handler: %s", k, d))
		}
		select {
		case <-entered[k]:
			x.add(reqs[k], fmt.Sprintf("request %d reached a handler twice", k))
		default:
			close(entered[k])
		}
		if parked[k] {
			select {
			case <-release:
			case <-time.After(2 * infraWait):
				infra.Store(true)
			}
			if d := msgDiff(reqs[k].ref, req); d != "" {
				x.add(reqs[k], fmt.Sprintf("request %d changed while its handler held it (further datagrams were received meanwhile): %s", k, d))
			}
		}
		w.WriteMsg(echoReply(req))
		finished.Add(1)
	}
	srv := &dns.Server{PacketConn: pc, Handler: dns.HandlerFunc(h), UDPSize: udpSize,
		DecorateReader: func(in dns.Reader) dns.Reader { pr.Reader = in; return pr }}
	if !strict {
		srv.MsgAcceptFunc = acceptAll
	}
	done := make(chan error, 1)
	go func() { done <- srv.ActivateAndServe() }()
	ok := netfake.WaitChan(pc.Drained, infraWait)
	for t0 := time.Now(); ok && finished.Load() < int64(n-nparked) && time.Since(t0) < infraWait; {
		time.Sleep(time.Millisecond)
	}
	if finished.Load() < int64(n-nparked) {
		ok = false
	}
	close(release)
	sd := make(chan struct{})
	go func() { srv.Shutdown(); close(sd) }()
	if !netfake.WaitChan(sd, 3*infraWait) {
		stat["infra_timeout"]++
		return
	}
	<-done
	if !ok || infra.Load() {
		stat["infra_timeout"]++
		return // verdicts below need the complete run
	}
	// the clients' side
	seen := make([]int, n)
	for _, w := range pc.Writes() {
		k := w.To.(netfake.Addr).N
		seen[k]++
		if !bytes.Equal(w.Data, reqs[k].reply) {
			var rep dns.Msg
			d := "reply does not decode"
			if rep.Unpack(w.Data) == nil {
				var want dns.Msg
				want.Unpack(reqs[k].reply)
				d = msgDiff(&want, &rep)
			}
			x.add(reqs[k], fmt.Sprintf("client %d received a reply that does not echo its own request: %s", k, d))
		}
	}
	for k := range reqs {
		if seen[k] != 1 {
			x.add(reqs[k], fmt.Sprintf("client %d received %d replies", k, seen[k]))
		}
	}
	// how often was the buffer of a parked request handed out again while it was parked
	pr.mu.Lock()
	last := map[*byte]int{}
	for j, p := range pr.bufs {
		last[p] = j
	}
	reused := 0
	for k, p := range pr.bufs {
		if k < n && parked[k] && last[p] > k {
			reused++
		}
	}
	stat["retain_udp_buffers_distinct"] += len(last)
	pr.mu.Unlock()
	stat["retain_udp_requests_checked"] += n
	stat["retain_udp_parked_checked"] += nparked
	stat["retain_udp_parked_buffer_reused"] += reused
	if onep {
		stat["retain_udp_onep_parked"] += nparked
		stat["retain_udp_onep_parked_buffer_reused"] += reused
	}
	if len(x.bad) > 0 {
		Viol("C12/Crosstalk/udp-retained-request", "a handler that kept its request while further datagrams were received did not keep seeing what its client sent (or its client did not receive the echo of its own request)",
			retainIn{"udp", mode, x.wire, x.kind, x.bad})
	}
}

// runRetainAliasing: one rich datagram per server; while the handler holds the
// request the buffer it was read from is overwritten (a) with 0xAA, (b) with
// another request's octets - exactly what the next use of a recycled buffer
// does - and the request must still be what the client sent.
func runRetainAliasing(r *Rng, n int) {
	for i := 0; i < n; i++ {
		udpSize := []int{0, 512, 1232, 4096}[r.Intn(4)]
		budget := 440
		if udpSize > 512 {
			budget = 1100
		}
		strict := r.Bool()
		rq := mkRich(r, i, 2, budget, strict, forcedType(r))
		other := mkRich(r, i, 3, budget, strict, 0)
		br := &bufReader{}
		pc := netfake.NewPacketConn([][]byte{rq.wire}, nil)
		x := &badList{}
		called := false
		srv := &dns.Server{PacketConn: pc, UDPSize: udpSize,
			DecorateReader: func(in dns.Reader) dns.Reader { br.Reader = in; return br },
			Handler: dns.HandlerFunc(func(w dns.ResponseWriter, got *dns.Msg) {
				called = true
				if d := msgDiff(rq.ref, got); d != "" {
					x.add(rq, "on entry of the handler: "+d)
				}
				br.mu.Lock()
				buf := br.last
				br.mu.Unlock()
				if i%2 == 0 {
					for j := range buf {
						buf[j] = 0xAA
					}
				} else {
					for j := range buf {
						buf[j] = 0
					}
					copy(buf, other.wire)
				}
				if d := msgDiff(rq.ref, got); d != "" {
					x.add(rq, "after the receive buffer was overwritten as its next use would: "+d)
				}
				w.WriteMsg(echoReply(got))
			})}
		if !strict {
			srv.MsgAcceptFunc = acceptAll
		}
		done := make(chan error, 1)
		go func() { done <- srv.ActivateAndServe() }()
		if !netfake.WaitChan(pc.Drained, infraWait) {
			stat["infra_timeout"]++
			continue
		}
		srv.Shutdown()
		<-done
		stat["retain_aliasing_checked"]++
		if !called {
			Viol("C12/Pool/lost-request", "a valid datagram did not reach the handler", Hx(rq.wire))
			continue
		}
		if ws := pc.Writes(); len(ws) != 1 || !bytes.Equal(ws[0].Data, rq.reply) {
			x.add(rq, "the reply written from the kept request is not the echo of what the client sent")
		}
		if len(x.bad) > 0 {
			Viol("C12/Pool/decoded-aliases-buffer", "the decoded request changed when the receive buffer was overwritten", retainIn{"udp", "overwrite", x.wire, x.kind, x.bad})
		}
	}
}

// runRetainTCP: scripted connections, each a segmented stream of rich requests;
// on every third connection the handler of the second request keeps it until
// all other connections have been served completely, then re-checks and replies.
func runRetainTCP(r *Rng, nconn, per int) {
	x := &badList{}
	conns := make([]*netfake.Conn, nconn)
	reqs := make([][]*richRequest, nconn)
	l := netfake.NewListener()
	for c := 0; c < nconn; c++ {
		var stream []byte
		var bounds []int
		for s := 0; s < per; s++ {
			rq := mkRich(r, c, s, []int{440, 1200, 3000}[r.Intn(3)], false, forcedType(r))
			reqs[c] = append(reqs[c], rq)
			bounds = append(bounds, len(stream))
			stream = append(stream, frame(rq.wire)...)
		}
		conns[c] = netfake.NewConn(cut(genSizes(r, len(stream), bounds), stream))
		conns[c].Remote = netfake.Addr{N: c}
		l.Add(conns[c])
	}
	release := make(chan struct{})
	var infra atomic.Bool
	seq := make([]int, nconn) // per connection; a connection's requests are served one after the other
	var smu sync.Mutex
	h := func(w dns.ResponseWriter, req *dns.Msg) {
		a, ok := w.RemoteAddr().(netfake.Addr)
		if !ok || a.N < 0 || a.N >= nconn {
			x.add(nil, fmt.Sprintf("handler called for unknown peer %v", w.RemoteAddr()))
			return
		}
		c := a.N
		smu.Lock()
		s := seq[c]
		seq[c]++
		smu.Unlock()
		if s >= per {
			x.add(nil, fmt.Sprintf("connection %d: more requests handled than sent", c))
			return
		}
		if d := msgDiff(reqs[c][s].ref, req); d != "" {
			x.add(reqs[c][s], fmt.Sprintf("connection %d request %d on entry of its handler: %s", c, s, d))
		}
		if c%3 == 0 && s == 1 {
			select {
			case <-release:
			case <-time.After(2 * infraWait):
				infra.Store(true)
			}
			if d := msgDiff(reqs[c][s].ref, req); d != "" {
				x.add(reqs[c][s], fmt.Sprintf("connection %d request %d changed while its handler held it: %s", c, s, d))
			}
		}
		w.WriteMsg(echoReply(req))
	}
	srv := &dns.Server{Listener: l, Handler: dns.HandlerFunc(h), MsgAcceptFunc: acceptAll, MaxTCPQueries: -1}
	done := make(chan error, 1)
	go func() { done <- srv.ActivateAndServe() }()
	ok := true
	for c, fc := range conns {
		if c%3 != 0 && !netfake.WaitClosed(fc, infraWait) {
			ok = false
		}
	}
	close(release)
	for c, fc := range conns {
		if c%3 == 0 && !netfake.WaitClosed(fc, infraWait) {
			ok = false
		}
	}
	sd := make(chan struct{})
	go func() { srv.Shutdown(); close(sd) }()
	if !netfake.WaitChan(sd, 3*infraWait) || !ok || infra.Load() {
		stat["infra_timeout"]++
		return
	}
	<-done
	for c, fc := range conns {
		ms, end := refParse(fc.Written(), -1)
		if end != "eof" || len(ms) != per {
			x.add(nil, fmt.Sprintf("connection %d: %d reply frames (%s), want %d", c, len(ms), end, per))
			continue
		}
		for s, b := range ms {
			if !bytes.Equal(b, reqs[c][s].reply) {
				x.add(reqs[c][s], fmt.Sprintf("connection %d: reply %d does not echo request %d of that connection", c, s, s))
			}
		}
	}
	stat["retain_tcp_requests_checked"] += nconn * per
	if len(x.bad) > 0 {
		Viol("C12/Crosstalk/tcp-retained-request", "a handler that kept its request while other connections were served did not keep seeing what its client sent (or its client did not receive the echo)",
			retainIn{"tcp", "scripted", x.wire, x.kind, x.bad})
	}
}

// runRetainLoopback: real sockets, concurrent clients with rich requests; one
// handler in four keeps its request until 40 further requests have been handled
// (or 300 ms have passed), re-checks it and replies from it. Clients keep every
// reply until the end and check them again then.
func runRetainLoopback(r *Rng, nclients, per int) {
	for _, network := range []string{"udp", "tcp"} {
		x := &badList{}
		var mu sync.Mutex
		sent := map[string]*richRequest{} // by question name (unique per request)
		var handled atomic.Int64
		h := func(w dns.ResponseWriter, req *dns.Msg) {
			if len(req.Question) != 1 {
				x.add(nil, "handler saw a request without its question")
				return
			}
			mu.Lock()
			rq := sent[req.Question[0].Name]
			mu.Unlock()
			if rq == nil {
				x.add(nil, "handler saw a request no client sent: "+req.Question[0].Name)
				return
			}
			if d := msgDiff(rq.ref, req); d != "" {
				x.add(rq, "on entry of its handler: "+d)
			}
			if k := handled.Add(1); k%4 == 0 {
				for t0 := time.Now(); handled.Load() < k+40 && time.Since(t0) < 300*time.Millisecond; {
					time.Sleep(2 * time.Millisecond)
				}
				if d := msgDiff(rq.ref, req); d != "" {
					x.add(rq, "request changed while its handler held it: "+d)
				}
			}
			w.WriteMsg(echoReply(req))
		}
		srv := &dns.Server{Handler: dns.HandlerFunc(h), MaxTCPQueries: -1, UDPSize: 4096, MsgAcceptFunc: acceptAll}
		started := make(chan struct{})
		srv.NotifyStartedFunc = func() { close(started) }
		var addr string
		if network == "udp" {
			pc, err := net.ListenPacket("udp", "127.0.0.1:0")
			if err != nil {
				stat["infra_loopback_unavailable"]++
				continue
			}
			srv.PacketConn, addr = pc, pc.LocalAddr().String()
		} else {
			l, err := net.Listen("tcp", "127.0.0.1:0")
			if err != nil {
				stat["infra_loopback_unavailable"]++
				continue
			}
			srv.Listener, addr = l, l.Addr().String()
		}
		go srv.ActivateAndServe()
		if !netfake.WaitChan(started, infraWait) {
			stat["infra_timeout"]++
			continue
		}
		seeds := make([]uint64, nclients)
		for i := range seeds {
			seeds[i] = r.Next()
		}
		var wg sync.WaitGroup
		var smu sync.Mutex
		for c := 0; c < nclients; c++ {
			wg.Add(1)
			go func(c int) {
				defer wg.Done()
				rr := &Rng{S: seeds[c]}
				cl := &dns.Client{Net: network, Timeout: 10 * time.Second, UDPSize: 4096}
				var co *dns.Conn
				if network == "tcp" {
					var err error
					if co, err = cl.Dial(addr); err != nil {
						smu.Lock()
						stat["infra_timeout"]++
						smu.Unlock()
						return
					}
					defer co.Close()
				}
				type kept struct {
					rq  *richRequest
					rep *dns.Msg
				}
				var keep []kept
				for s := 0; s < per; s++ {
					// Client.Exchange packs the message itself: what it sends is the
					// re-encoding of q, and that is what the handler must see
					q := new(dns.Msg)
					q.Unpack(append([]byte(nil), mkRich(rr, c, s, 1100, false, 0).wire...))
					q.Compress = rr.Bool()
					sentWire, err := q.Pack()
					rq := richFromWire(sentWire, nil)
					if err != nil || rq == nil {
						continue
					}
					mu.Lock()
					sent[rq.ref.Question[0].Name] = rq
					mu.Unlock()
					var rep *dns.Msg
					if network == "tcp" {
						rep, _, err = cl.ExchangeWithConn(q, co)
					} else {
						rep, _, err = cl.Exchange(q, addr)
					}
					if err != nil {
						var ne net.Error
						smu.Lock()
						if errors.As(err, &ne) && ne.Timeout() || strings.Contains(err.Error(), "connection re") {
							stat["infra_timeout"]++
						} else {
							x.add(rq, fmt.Sprintf("%s client %d request %d: %v", network, c, s, err))
						}
						smu.Unlock()
						if network == "tcp" {
							break
						}
						continue
					}
					keep = append(keep, kept{rq, rep})
				}
				for _, k := range keep { // all replies are checked at the end, after the later exchanges
					var want dns.Msg
					want.Unpack(append([]byte(nil), k.rq.reply...))
					if d := msgDiff(&want, k.rep); d != "" {
						x.add(k.rq, fmt.Sprintf("%s client %d: a reply it kept is not the echo of its own request: %s", network, c, d))
					}
					smu.Lock()
					stat["retain_loopback_checked"]++
					smu.Unlock()
				}
			}(c)
		}
		wg.Wait()
		sd := make(chan struct{})
		go func() { srv.Shutdown(); close(sd) }()
		if !netfake.WaitChan(sd, infraWait) {
			stat["infra_timeout"]++
		}
		if len(x.bad) > 0 {
			Viol("C12/Crosstalk/loopback-"+network+"-retained-request", "concurrent clients against a real "+network+" server with handlers that keep their requests: wrong request seen or wrong reply received",
				retainIn{network, "loopback", x.wire, x.kind, x.bad})
		}
	}
}

func runRetain(r *Rng, tier string) {
	k := 1
	if tier == "thorough" {
		k = 8
	}
	for i := 0; i < k; i++ {
		// deterministic recycling on one P
		runRetainUDP(r, 160, true, 4096, false)
		runRetainUDP(r, 120, true, 0, true)
		runRetainUDP(r, 120, true, 1232, i%2 == 0)
		// free-running on all Ps, enough traffic for the pool to hand buffers round
		runRetainUDP(r, 400, false, 4096, false)
		runRetainUDP(r, 300, false, 0, true)
		runRetainTCP(r, 9, 6)
	}
	runRetainAliasing(r, (len(AllTypes())+10)*k)
	runRetainLoopback(r, 8, 15*k)
}
