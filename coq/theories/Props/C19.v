(* Props/C19.v — property C19: the label helpers agree with the wire-format label
   sequence of every valid name.  Only statements; each is closed by [exact] of a
   lemma proved in Proofs/LabelsProofs.v.

   Vocabulary.  A name is a list of wire labels [ls]; [labels_wf ls] says every
   label is a non-empty list of octets (< 256).  [show_labels ls] is the
   presentation text UnpackDomainName produces (escaping of dots, backslashes,
   specials as \c and non-printables as \DDD, every label followed by a dot);
   [name_form true ls] is that text, [name_form false ls] the same without the
   final dot.  [mid ++ [last]] is an arbitrary non-root name. *)
From Dns Require Import Model.Labels Proofs.EscapeProofs Proofs.LabelsProofs
  Proofs.LabelsMoreProofs.

(* IsFqdn: exactly the strings ending in a dot that is preceded by an even
   number (possibly zero) of backslashes. *)
Theorem fqdn_iff_unescaped_trailing_dot :
  forall s : bytes,
    is_fqdn s = true <->
    exists p k, s = p ++ repeat 92%N k ++ [46%N] /\ Nat.even k = true /\
                (forall q, p <> q ++ [92%N]).
Proof. exact is_fqdn_spec. Qed.

(* CountLabel = number of wire labels, for both presentation forms. *)
Theorem count_label_is_wire_label_count :
  forall (fq : bool) (mid : list label) (last : label),
    labels_wf mid -> last <> [] /\ wfb last ->
    count_label (name_form fq (mid ++ [last])) = Some (length (mid ++ [last])).
Proof. exact count_label_spec. Qed.

(* Split = the offsets at which the printed labels start:
   0, |l1'|+1, |l1'|+1+|l2'|+1, ...  where li' is the printed form of label i. *)
Theorem split_is_wire_label_starts :
  forall (fq : bool) (mid : list label) (last : label),
    labels_wf mid -> last <> [] /\ wfb last ->
    split (name_form fq (mid ++ [last])) = Some (label_starts 0 (mid ++ [last])).
Proof. exact split_spec. Qed.

(* NextLabel from the start of any label goes to the start of the next label, and
   from the last label reports the end of the string. *)
Theorem next_label_visits_exactly_the_label_starts :
  forall (fq : bool) (pre : list label) (l : label) (post : list label),
    labels_wf pre -> l <> [] /\ wfb l -> labels_wf post ->
    next_label (name_form fq (pre ++ l :: post)) (length (show_labels pre)) =
    match post with
    | [] => (length (name_form fq (pre ++ [l])), true)
    | _ => ((length (show_labels pre) + length (show_label l) + 1)%nat, false)
    end.
Proof. exact next_label_visits. Qed.

(* Fqdn changes nothing but appending the root dot. *)
Theorem fqdn_only_appends_root :
  forall (fq : bool) (mid : list label) (last : label),
    labels_wf mid -> last <> [] /\ wfb last ->
    fqdn (name_form fq (mid ++ [last])) = show_labels (mid ++ [last]).
Proof. exact fqdn_spec. Qed.

(* CanonicalName = the FQDN text of the same labels with ASCII letters lower-cased
   (escapes are untouched: lower-casing commutes with printing). *)
Theorem canonical_name_lowercases_labels :
  forall (fq : bool) (mid : list label) (last : label),
    labels_wf mid -> last <> [] /\ wfb last ->
    canonical_name (name_form fq (mid ++ [last])) =
    show_labels (map lower_bytes (mid ++ [last])).
Proof. exact canonical_name_spec. Qed.

(* ======================================================================
   The remaining helpers (proofs in Proofs/LabelsMoreProofs.v).

   From here on a non-root name is written [ls] with [labels_wf ls] and
   [ls <> []]; this is the same set of names as [mid ++ [last]] above.
   [form_tail fq] is the final dot of the FQDN form ([46] or nothing).
   ====================================================================== *)

(* ---- SplitDomainName: exactly the printed wire labels ---- *)
Theorem split_domain_name_is_printed_wire_labels :
  forall (fq : bool) (mid : list label) (last : label),
    labels_wf mid -> last <> [] /\ wfb last ->
    split_domain_name (name_form fq (mid ++ [last])) = Ok (map show_label (mid ++ [last])).
Proof. exact split_domain_name_spec. Qed.
Print Assumptions split_domain_name_is_printed_wire_labels.

(* the root name and the empty string have no labels (Go returns nil) *)
Theorem split_domain_name_of_root_and_empty :
  split_domain_name [46%N] = Ok [] /\ split_domain_name [] = Ok [].
Proof. exact split_domain_name_root. Qed.
Print Assumptions split_domain_name_of_root_and_empty.

(* ---- PrevLabel: n labels back from the end is the start of the n-th label from
   the right; n = 0 is the length of the string; the start flag is raised exactly
   when n EXCEEDS the label count (n = count lands on offset 0 with the flag
   down). ---- *)
Theorem prev_label_steps_back_over_wire_labels :
  forall (fq : bool) (mid : list label) (last : label) (n : nat),
    labels_wf mid -> last <> [] /\ wfb last ->
    prev_label (name_form fq (mid ++ [last])) n =
    match n with
    | O => (length (name_form fq (mid ++ [last])), false)
    | _ => (nth (length (mid ++ [last]) - n) (label_starts 0 (mid ++ [last])) O,
            Nat.ltb (length (mid ++ [last])) n)
    end.
Proof. exact prev_label_spec. Qed.
Print Assumptions prev_label_steps_back_over_wire_labels.

(* the root name: no labels, yet one step back is not reported as an overshoot *)
Theorem prev_label_of_root_and_empty :
  forall n : nat,
    prev_label [46%N] n = match n with O => (1%nat, false) | _ => (O, Nat.ltb 1 n) end /\
    prev_label [] n = (O, true).
Proof. intro n. split; [exact (prev_label_root n)|exact (prev_label_empty n)]. Qed.
Print Assumptions prev_label_of_root_and_empty.

(* ---- CompareDomainName.  The specification [common_suffix_ci ls1 ls2] counts,
   from the right, the labels that labels.go equal accepts on their printed text
   ([label_eq_ci]); both names must be in the same form. ---- *)
Theorem compare_domain_name_is_common_suffix_count :
  forall (fq : bool) (ls1 ls2 : list label),
    labels_wf ls1 -> ls1 <> [] -> labels_wf ls2 -> ls2 <> [] ->
    compare_domain_name (name_form fq ls1) (name_form fq ls2) = Ok (common_suffix_ci ls1 ls2).
Proof. exact compare_domain_name_spec. Qed.
Print Assumptions compare_domain_name_is_common_suffix_count.

(* the count is the length of the longest common suffix: some common suffix has
   that length and no common suffix is longer *)
Theorem common_suffix_count_is_longest_common_suffix :
  forall ls1 ls2 : list label,
    (exists p1 c1 p2 c2, ls1 = p1 ++ c1 /\ ls2 = p2 ++ c2 /\
                         length c1 = common_suffix_ci ls1 ls2 /\ labels_eq_ci c1 c2) /\
    (forall p1 c1 p2 c2, ls1 = p1 ++ c1 -> ls2 = p2 ++ c2 -> labels_eq_ci c1 c2 ->
                         (length c1 <= common_suffix_ci ls1 ls2)%nat).
Proof. exact common_suffix_ci_longest. Qed.
Print Assumptions common_suffix_count_is_longest_common_suffix.

(* comparing the printed text of two labels case-insensitively is comparing the
   wire labels case-insensitively (printing is injective and commutes with
   lower-casing) *)
Theorem label_comparison_on_text_is_comparison_on_wire :
  forall a b : label, wfb a -> wfb b ->
    equal_ci (show_label a) (show_label b) = equal_ci a b.
Proof. exact label_eq_ci_wire. Qed.
Print Assumptions label_comparison_on_text_is_comparison_on_wire.

(* the root name (empty label list) on either side: 0, for any other string *)
Theorem compare_domain_name_with_root_is_zero :
  forall s : bytes,
    compare_domain_name [46%N] s = Ok O /\ compare_domain_name s [46%N] = Ok O.
Proof. intro s. split; [exact (compare_domain_name_root_l s)|exact (compare_domain_name_root_r s)]. Qed.
Print Assumptions compare_domain_name_with_root_is_zero.

(* REFUTED across forms: when exactly one of the two names has the final dot the
   result is 0 whatever the labels are, because the first comparison includes the
   dot.  Witness: nl against nl. *)
Theorem compare_domain_name_mixed_forms_is_zero :
  forall (fq : bool) (ls1 ls2 : list label),
    labels_wf ls1 -> ls1 <> [] -> labels_wf ls2 -> ls2 <> [] ->
    compare_domain_name (name_form fq ls1) (name_form (negb fq) ls2) = Ok O.
Proof. exact compare_domain_name_mixed_forms. Qed.
Print Assumptions compare_domain_name_mixed_forms_is_zero.

Theorem compare_domain_name_mixed_forms_refuted :
  let ls := [[110; 108]]%N in
  labels_wf ls /\ common_suffix_ci ls ls = 1%nat /\
  compare_domain_name (name_form false ls) (name_form true ls) = Ok O /\
  is_sub_domain (name_form true ls) (name_form false ls) = Ok false.
Proof. exact compare_domain_name_mixed_refuted. Qed.
Print Assumptions compare_domain_name_mixed_forms_refuted.

(* ---- IsSubDomain: the parent's labels are a suffix of the child's ---- *)
Theorem is_sub_domain_is_suffix_test :
  forall (fq : bool) (parent child : list label),
    labels_wf parent -> parent <> [] -> labels_wf child -> child <> [] ->
    exists b, is_sub_domain (name_form fq parent) (name_form fq child) = Ok b /\
              (b = true <-> exists p c, child = p ++ c /\ labels_eq_ci parent c).
Proof. exact is_sub_domain_iff. Qed.
Print Assumptions is_sub_domain_is_suffix_test.

Theorem is_sub_domain_is_full_common_suffix :
  forall (fq : bool) (parent child : list label),
    labels_wf parent -> parent <> [] -> labels_wf child -> child <> [] ->
    is_sub_domain (name_form fq parent) (name_form fq child) =
    Ok (Nat.eqb (common_suffix_ci parent child) (length parent)).
Proof. exact is_sub_domain_spec. Qed.
Print Assumptions is_sub_domain_is_full_common_suffix.

(* everything is under the root; the root is under no other name *)
Theorem is_sub_domain_with_root :
  (forall s : bytes, is_sub_domain [46%N] s = Ok true) /\
  (forall (fq : bool) (ls : list label), labels_wf ls -> ls <> [] ->
     is_sub_domain (name_form fq ls) [46%N] = Ok false).
Proof. split; [exact is_sub_domain_root_parent|exact is_sub_domain_root_child]. Qed.
Print Assumptions is_sub_domain_with_root.

(* ---- dnsutil.AddOrigin: a relative name under a non-root origin is the
   concatenation of the label lists, in the form of the origin ---- *)
Theorem add_origin_concatenates_labels :
  forall (fq : bool) (ls os : list label),
    labels_wf ls -> ls <> [] -> labels_wf os -> os <> [] ->
    add_origin (name_form false ls) (name_form fq os) = name_form fq (ls ++ os).
Proof. exact add_origin_spec. Qed.
Print Assumptions add_origin_concatenates_labels.

(* ---- dnsutil.TrimDomainName: when the labels of s end with those of the origin
   (in any letter case, any of the two forms on either side) the result is the
   labels before them without a final dot, or the at sign at the apex ---- *)
Theorem trim_domain_name_strips_origin_labels :
  forall (fqs fqo : bool) (ls os os' : list label),
    labels_wf ls -> labels_wf os -> os <> [] -> labels_wf os' -> labels_eq_ci os os' ->
    trim_domain_name (name_form fqs (ls ++ os')) (name_form fqo os) =
    Ok (match ls with [] => [64%N] | _ => name_form false ls end).
Proof. exact trim_domain_name_spec. Qed.
Print Assumptions trim_domain_name_strips_origin_labels.

(* ... and otherwise s is returned unchanged: ending with the TEXT of the origin
   without a label boundary does not count *)
Theorem trim_domain_name_keeps_names_outside_origin :
  forall (fqs fqo : bool) (ss os : list label),
    labels_wf ss -> ss <> [] -> labels_wf os -> os <> [] ->
    common_suffix_ci os ss <> length os ->
    trim_domain_name (name_form fqs ss) (name_form fqo os) = Ok (name_form fqs ss).
Proof. exact trim_domain_name_not_sub. Qed.
Print Assumptions trim_domain_name_keeps_names_outside_origin.

(* ---- TrimDomainName after AddOrigin is the identity on relative names ---- *)
Theorem trim_after_add_origin_is_identity :
  forall (fq : bool) (ls os : list label),
    labels_wf ls -> ls <> [] -> labels_wf os -> os <> [] ->
    trim_domain_name (add_origin (name_form false ls) (name_form fq os)) (name_form fq os) =
    Ok (name_form false ls).
Proof. exact trim_add_origin. Qed.
Print Assumptions trim_after_add_origin_is_identity.

Theorem trim_after_add_origin_is_identity_under_root :
  forall ls : list label,
    labels_wf ls -> ls <> [] ->
    trim_domain_name (add_origin (name_form false ls) [46%N]) [46%N] = Ok (name_form false ls).
Proof. exact trim_add_origin_root. Qed.
Print Assumptions trim_after_add_origin_is_identity_under_root.

Theorem trim_after_add_origin_is_identity_on_at_sign :
  forall (fq : bool) (os : list label),
    labels_wf os -> os <> [] ->
    trim_domain_name (add_origin [64%N] (name_form fq os)) (name_form fq os) = Ok [64%N].
Proof. exact trim_add_origin_at. Qed.
Print Assumptions trim_after_add_origin_is_identity_on_at_sign.

(* REFUTED for the at sign under the root origin: the apex "." is trimmed to the
   empty string, which TrimDomainName documents it never returns *)
Theorem trim_after_add_origin_at_sign_under_root_refuted :
  add_origin [64%N] [46%N] = [46%N] /\ trim_domain_name [46%N] [46%N] = Ok [] /\
  trim_domain_name (add_origin [64%N] [46%N]) [46%N] <> Ok [64%N].
Proof. exact trim_add_origin_at_root_refuted. Qed.
Print Assumptions trim_after_add_origin_at_sign_under_root_refuted.

(* REFUTED for the empty string (not a name): expanded like the at sign, it comes
   back as the at sign *)
Theorem trim_after_add_origin_empty_string_refuted :
  let o := name_form true [[97]]%N in
  add_origin [] o = o /\ trim_domain_name (add_origin [] o) o = Ok [64%N].
Proof. exact trim_add_origin_empty_refuted. Qed.
Print Assumptions trim_after_add_origin_empty_string_refuted.

(* ---- AddOrigin after TrimDomainName restores a name under the origin, with
   the origin's spelling of the shared labels: the same name up to ASCII case ---- *)
Theorem add_origin_after_trim_restores_name_up_to_case :
  forall (fq : bool) (ls os os' : list label),
    labels_wf ls -> ls <> [] -> labels_wf os -> os <> [] -> labels_wf os' -> labels_eq_ci os os' ->
    trim_domain_name (name_form fq (ls ++ os')) (name_form fq os) = Ok (name_form false ls) /\
    add_origin (name_form false ls) (name_form fq os) = name_form fq (ls ++ os) /\
    canonical_name (name_form fq (ls ++ os)) = canonical_name (name_form fq (ls ++ os')).
Proof. exact add_origin_trim. Qed.
Print Assumptions add_origin_after_trim_restores_name_up_to_case.

(* s equal to the origin (up to case): the at sign, which expands to the origin *)
Theorem add_origin_after_trim_at_apex :
  forall (fq : bool) (os os' : list label),
    labels_wf os -> os <> [] -> labels_wf os' -> labels_eq_ci os os' ->
    trim_domain_name (name_form fq os') (name_form fq os) = Ok [64%N] /\
    add_origin [64%N] (name_form fq os) = name_form fq os.
Proof. exact add_origin_trim_apex. Qed.
Print Assumptions add_origin_after_trim_at_apex.

(* an FQDN outside the origin goes through both functions unchanged *)
Theorem add_origin_after_trim_outside_origin :
  forall (fqo : bool) (ss os : list label),
    labels_wf ss -> ss <> [] -> labels_wf os -> os <> [] ->
    common_suffix_ci os ss <> length os ->
    trim_domain_name (name_form true ss) (name_form fqo os) = Ok (name_form true ss) /\
    add_origin (name_form true ss) (name_form fqo os) = name_form true ss.
Proof. exact add_origin_trim_not_sub. Qed.
Print Assumptions add_origin_after_trim_outside_origin.

(* origin ".": the final dot is removed and put back *)
Theorem add_origin_after_trim_under_root :
  forall ls : list label,
    labels_wf ls -> ls <> [] ->
    trim_domain_name (name_form true ls) [46%N] = Ok (name_form false ls) /\
    add_origin (name_form false ls) [46%N] = name_form true ls.
Proof. exact add_origin_trim_root. Qed.
Print Assumptions add_origin_after_trim_under_root.

(* REFUTED as an exact equality: the letter case of the origin part of s is
   lost.  Witness: a.B. under b. comes back as a.b. *)
Theorem add_origin_after_trim_case_refuted :
  let s := name_form true [[97]; [66]]%N in let o := name_form true [[98]]%N in
  is_sub_domain o s = Ok true /\ trim_domain_name s o = Ok [97%N] /\
  add_origin [97%N] o = name_form true [[97]; [98]]%N /\ add_origin [97%N] o <> s.
Proof. exact add_origin_trim_case_refuted. Qed.
Print Assumptions add_origin_after_trim_case_refuted.

(* REFUTED for origin "." on a relative name ending in an escaped dot: the
   textual TrimSuffix cuts the escaped dot and leaves a dangling backslash *)
Theorem trim_domain_name_root_origin_cuts_escaped_dot_refuted :
  let s := name_form false [[97; 46]]%N in
  labels_wf [[97; 46]]%N /\ s = [97; 92; 46]%N /\ is_fqdn s = false /\
  trim_domain_name s [46%N] = Ok [97; 92]%N.
Proof. exact trim_domain_name_root_escaped_dot_refuted. Qed.
Print Assumptions trim_domain_name_root_origin_cuts_escaped_dot_refuted.

(* ---- non-vacuity: names with an escaped dot, a backslash and a non-printable
   octet satisfy the hypotheses, and the helpers compute the stated values ---- *)
Example c19_split_prev_example :
  let mid := [[97; 46; 98]; [92]]%N in let last := [0; 65]%N in
  labels_wf mid /\ (last <> [] /\ wfb last) /\
  split_domain_name (name_form false (mid ++ [last])) =
    Ok [[97; 92; 46; 98]; [92; 92]; [92; 48; 48; 48; 65]]%N /\
  prev_label (name_form true (mid ++ [last])) 1 = (8%nat, false) /\
  prev_label (name_form true (mid ++ [last])) 2 = (5%nat, false) /\
  prev_label (name_form true (mid ++ [last])) 3 = (0%nat, false) /\
  prev_label (name_form true (mid ++ [last])) 4 = (0%nat, true).
Proof. cbn zeta. split; [labels_wf_tac|]. split; [labels_wf_tac|]. repeat split; reflexivity. Qed.

Example c19_compare_example :
  let ls1 := [[119]; [97; 46; 98]; [0; 65]]%N in
  let ls2 := [[120; 120]; [65; 46; 66]; [0; 97]]%N in
  labels_wf ls1 /\ ls1 <> [] /\ labels_wf ls2 /\ ls2 <> [] /\
  common_suffix_ci ls1 ls2 = 2%nat /\
  compare_domain_name (name_form true ls1) (name_form true ls2) = Ok 2%nat /\
  labels_eq_ci [[97; 46; 98]; [0; 65]]%N [[65; 46; 66]; [0; 97]]%N /\
  common_suffix_ci [[97; 46; 98]; [0; 65]]%N ls2 = 2%nat /\
  is_sub_domain (name_form false [[97; 46; 98]; [0; 65]]%N) (name_form false ls2) = Ok true /\
  common_suffix_ci [[98]; [0; 65]]%N ls2 <> 2%nat /\
  is_sub_domain (name_form true [[98]; [0; 65]]%N) (name_form true ls2) = Ok false.
Proof.
  cbn zeta. split; [labels_wf_tac|]. split; [discriminate|]. split; [labels_wf_tac|].
  split; [discriminate|]. split; [reflexivity|]. split; [reflexivity|].
  split; [repeat constructor|]. split; [reflexivity|]. split; [reflexivity|].
  split; [discriminate|reflexivity].
Qed.

Example c19_origin_example :
  let ls := [[119; 46]]%N in let os := [[92]; [0; 65]]%N in let os' := [[92]; [0; 97]]%N in
  labels_wf ls /\ ls <> [] /\ labels_wf os /\ os <> [] /\ labels_wf os' /\ labels_eq_ci os os' /\
  add_origin (name_form false ls) (name_form true os) = name_form true (ls ++ os) /\
  trim_domain_name (name_form true (ls ++ os')) (name_form true os) = Ok [119; 92; 46]%N /\
  common_suffix_ci os [[119; 46; 92]; [0; 65]]%N <> length os /\
  trim_domain_name (name_form true [[119; 46; 92]; [0; 65]]%N) (name_form true os) =
    Ok (name_form true [[119; 46; 92]; [0; 65]]%N).
Proof.
  cbn zeta. split; [labels_wf_tac|]. split; [discriminate|]. split; [labels_wf_tac|].
  split; [discriminate|]. split; [labels_wf_tac|]. split; [repeat constructor|].
  split; [reflexivity|]. split; [reflexivity|]. split; [discriminate|reflexivity].
Qed.
