package main

// C06: zone files denote what RFC 1035 section 5 says. Random abstract zones are
// given an independent denotation (this file), rendered in many equivalent
// spellings, parsed by the implementation, and every rendering must give the
// denoted records. The same zones go to the Coq specification (case "denote")
// and the renderings to the parser model (case "parse").

import (
	"fmt"
	"net"
	"strconv"
	"strings"

	"github.com/miekg/dns"
	. "verif/harness/common"
	z "verif/harness/zonecommon"
)

func main() { Main(runC06) }

var stat = map[string]int{}

// ---------- abstract zones ----------

type rdw struct {
	kind  byte     // 'N' name, 'A' address, 'T' strings, 'G' generic
	name  string   // N: as written (relative, absolute, @)
	addr  net.IP   // A
	txt   []string // T
	hexs  []string // G: hex words
	atext string   // A: chosen text form
}

type entry struct {
	kind     byte // 'r' record, 'o' $ORIGIN, 't' $TTL
	owner    *string
	ttl      *string // as written
	class    *uint16
	ttlFirst bool
	typ      uint16
	rd       rdw
	arg      string // $ORIGIN name / $TTL text
}

type rec struct {
	name  string
	typ   uint16
	class uint16
	ttl   uint32
	rd    string
}

func (r rec) String() string {
	return "R:" + strings.Join([]string{z.ShowBytes([]byte(r.name)), Itoa(int(r.typ)), Itoa(int(r.class)),
		strconv.FormatUint(uint64(r.ttl), 10), r.rd, "0"}, ",")
}

// ---------- the denotation, written from RFC 1035 5.1 / RFC 2308 4 ----------

// isAbs: the name ends in a dot that is not escaped.
func isAbs(n string) bool {
	if !strings.HasSuffix(n, ".") {
		return false
	}
	bs := 0
	for i := len(n) - 2; i >= 0 && n[i] == '\\'; i-- {
		bs++
	}
	return bs%2 == 0
}

func complete(origin, n string) string {
	switch {
	case n == "@":
		return origin
	case isAbs(n):
		return n
	case origin == ".":
		return n + "."
	}
	return n + "." + origin
}

// ttlValue: decimal numbers with unit suffixes s m h d w (either case); a
// trailing number counts seconds.
func ttlValue(s string) (uint64, bool) {
	var acc, cur uint64
	for i := 0; i < len(s); i++ {
		c := s[i]
		switch {
		case c >= '0' && c <= '9':
			cur = cur*10 + uint64(c-'0')
		case c == 's' || c == 'S':
			acc, cur = acc+cur, 0
		case c == 'm' || c == 'M':
			acc, cur = acc+cur*60, 0
		case c == 'h' || c == 'H':
			acc, cur = acc+cur*3600, 0
		case c == 'd' || c == 'D':
			acc, cur = acc+cur*86400, 0
		case c == 'w' || c == 'W':
			acc, cur = acc+cur*604800, 0
		default:
			return 0, false
		}
	}
	return acc + cur, true
}

type dstate struct {
	origin                string
	owner                 *string
	dollar, stated, deflt *uint32
}

func showRd(origin string, typ uint16, w rdw) string {
	switch w.kind {
	case 'N':
		return "N" + z.ShowBytes([]byte(complete(origin, w.name)))
	case 'A':
		if typ == dns.TypeA {
			return "A" + Hx(w.addr.To4())
		}
		return "A" + Hx(w.addr.To16())
	case 'T':
		if len(w.txt) > 6 {
			panic("too many strings")
		}
		p := make([]string, len(w.txt))
		for i, s := range w.txt {
			p[i] = z.ShowBytes([]byte(s))
		}
		return "T" + strings.Join(p, "_")
	}
	return "G" + z.ShowBytes([]byte(strings.Join(w.hexs, "")))
}

// denoteSt folds the entries over the state; ok=false when some entry has no
// meaning (no owner to repeat, no TTL to take).
func denoteSt(st dstate, es []entry) ([]rec, dstate, bool) {
	var out []rec
	for _, e := range es {
		switch e.kind {
		case 'o':
			st.origin = complete(st.origin, e.arg)
		case 't':
			v, ok := ttlValue(e.arg)
			if !ok {
				return nil, st, false
			}
			t := uint32(v)
			st.dollar = &t
		case 'r':
			var owner string
			if e.owner != nil {
				owner = complete(st.origin, *e.owner)
			} else if st.owner != nil {
				owner = *st.owner
			} else {
				return nil, st, false
			}
			var ttl uint32
			if e.ttl != nil {
				v, ok := ttlValue(*e.ttl)
				if !ok {
					return nil, st, false
				}
				ttl = uint32(v)
				t := ttl
				st.stated = &t
			} else if st.dollar != nil {
				ttl = *st.dollar
			} else if st.stated != nil {
				ttl = *st.stated
			} else if st.deflt != nil {
				ttl = *st.deflt
			} else {
				return nil, st, false
			}
			class := uint16(1)
			if e.class != nil {
				class = *e.class
			}
			o := owner
			st.owner = &o
			out = append(out, rec{owner, e.typ, class, ttl, showRd(st.origin, e.typ, e.rd)})
		}
	}
	return out, st, true
}

func denote(origin string, deflt *uint32, es []entry) ([]rec, bool) {
	r, _, ok := denoteSt(dstate{origin: origin, deflt: deflt}, es)
	return r, ok
}

// ---------- encoding for the Coq specification ----------

func optHex(s *string) string {
	if s == nil {
		return "-"
	}
	return Hs(*s)
}

func encItems(l []string) string {
	p := make([]string, len(l))
	for i, s := range l {
		if s == "" {
			p[i] = "e"
		} else {
			p[i] = Hs(s)
		}
	}
	return strings.Join(p, "_")
}

func encode(es []entry) string {
	var p []string
	for _, e := range es {
		switch e.kind {
		case 'o':
			p = append(p, "o,"+Hs(e.arg))
		case 't':
			p = append(p, "t,"+Hs(e.arg))
		case 'r':
			cl := "-"
			if e.class != nil {
				cl = Itoa(int(*e.class))
			}
			ord := "c"
			if e.ttlFirst {
				ord = "t"
			}
			var rd string
			switch e.rd.kind {
			case 'N':
				rd = "N" + Hs(e.rd.name)
			case 'A':
				rd = "A" + Hs(e.rd.atext)
			case 'T':
				rd = "T" + encItems(e.rd.txt)
			default:
				rd = "G" + encItems(append([]string{Itoa(len(strings.Join(e.rd.hexs, "")) / 2)}, e.rd.hexs...))
			}
			p = append(p, strings.Join([]string{"r", optHex(e.owner), optHex(e.ttl), cl, ord, Itoa(int(e.typ)), rd}, ","))
		}
	}
	return strings.Join(p, ";")
}

// ---------- generators ----------

var relNames = []string{"www", "a", "b.c", "mail", "_sip._tcp", "e\\.f", "x\\046y", "UPPER", "*", "*.wild", "a-b", "0", "xn--bcher-kva"}
var absNames = []string{"host.example.net.", "example.org.", "A.B.C.", "x\\.y.z."}
var origins = []string{"example.org.", ".", "sub.example.com.", "EXAMPLE."}

func ptr[T any](v T) *T { return &v }

func pickName(r *Rng) string {
	switch r.Intn(6) {
	case 0:
		return "@"
	case 1:
		return absNames[r.Intn(len(absNames))]
	}
	return relNames[r.Intn(len(relNames))]
}

var ttlVals = []uint32{0, 1, 59, 60, 61, 3600, 3661, 86400, 90061, 604800, 694861, 1209600, 2147483647, 4294967295}

// spell a TTL value in one of its equivalent forms
func spellTTL(r *Rng, v uint32) string {
	units := []struct {
		c byte
		n uint32
	}{{'w', 604800}, {'d', 86400}, {'h', 3600}, {'m', 60}, {'s', 1}}
	up := func(c byte) byte {
		if r.Intn(2) == 0 {
			return c - 32
		}
		return c
	}
	switch r.Intn(5) {
	case 0:
		return strconv.FormatUint(uint64(v), 10)
	case 1:
		return strings.Repeat("0", r.Intn(3)) + strconv.FormatUint(uint64(v), 10)
	case 2:
		return strconv.FormatUint(uint64(v), 10) + string(up('s'))
	case 3: // greedy decomposition
		var sb strings.Builder
		rem := v
		for _, u := range units {
			if q := rem / u.n; q > 0 {
				sb.WriteString(strconv.FormatUint(uint64(q), 10))
				sb.WriteByte(up(u.c))
				rem -= q * u.n
			}
		}
		if sb.Len() == 0 {
			return "0"
		}
		return sb.String()
	}
	// decomposition from a random unit downwards, with the rest as bare seconds
	k := r.Intn(len(units))
	var sb strings.Builder
	rem := v
	for _, u := range units[k:] {
		if u.n == 1 {
			break
		}
		q := rem / u.n
		sb.WriteString(strconv.FormatUint(uint64(q), 10))
		sb.WriteByte(up(u.c))
		rem -= q * u.n
	}
	sb.WriteString(strconv.FormatUint(uint64(rem), 10))
	return sb.String()
}

var txtStrings = []string{"hello", "a b", "v=spf1 -all", "", "x", "semi;colon", "par(en)s", "esc\\\"q", "tab\there", "0123456789", "UPPER lower", "@", "$dollar"}

func genRd(r *Rng, typ uint16) rdw {
	switch typ {
	case dns.TypeA:
		ip := net.IPv4(byte(r.Next()), byte(r.Next()), byte(r.Next()), byte(r.Next())).To4()
		return rdw{kind: 'A', addr: ip, atext: ip.String()}
	case dns.TypeAAAA:
		ip := make(net.IP, 16)
		copy(ip, r.Bytes(16))
		switch r.Intn(4) {
		case 0:
			for i := 2; i < 14; i++ {
				ip[i] = 0
			}
		case 1:
			for i := 0; i < 10; i++ {
				ip[i] = 0
			}
		}
		if ip.To4() != nil { // keep it an IPv6 address in text
			ip[0] = 0x20
		}
		return rdw{kind: 'A', addr: ip, atext: ip.String()}
	case dns.TypeNS, dns.TypeCNAME, dns.TypePTR, dns.TypeDNAME, dns.TypeMB:
		return rdw{kind: 'N', name: pickName(r)}
	case dns.TypeTXT, dns.TypeSPF:
		n := 1 + r.Intn(4)
		var l []string
		for i := 0; i < n; i++ {
			l = append(l, txtStrings[r.Intn(len(txtStrings))])
		}
		return rdw{kind: 'T', txt: l}
	}
	n := r.Intn(9)
	h := Hx(r.Bytes(n))
	var words []string
	for len(h) > 0 {
		k := 1 + r.Intn(len(h))
		words = append(words, h[:k])
		h = h[k:]
	}
	return rdw{kind: 'G', hexs: words}
}

var types = []uint16{dns.TypeA, dns.TypeAAAA, dns.TypeNS, dns.TypeCNAME, dns.TypePTR, dns.TypeTXT, dns.TypeSPF, dns.TypeDNAME, dns.TypeMB, 65280, 731}
var classes = []uint16{1, 1, 3, 4, 32, 254}

func genZone(r *Rng, haveDefault bool) []entry {
	n := 1 + r.Intn(7)
	var es []entry
	haveOwner, haveTTL := false, haveDefault
	for i := 0; i < n; i++ {
		switch k := r.Intn(10); {
		case k == 0:
			// (finding C06/directive-argument-mnemonic: "$ORIGIN a" is rejected because the
			// lexer reads "a" as the type A; the general stream avoids such arguments)
			nm := relNames[r.Intn(len(relNames))]
			for mnemonicLike(nm) {
				nm = relNames[r.Intn(len(relNames))]
			}
			if r.Intn(2) == 0 {
				nm = absNames[r.Intn(len(absNames))]
			}
			es = append(es, entry{kind: 'o', arg: nm})
		case k == 1:
			es = append(es, entry{kind: 't', arg: spellTTL(r, ttlVals[r.Intn(len(ttlVals))])})
			haveTTL = true
		default:
			e := entry{kind: 'r', typ: types[r.Intn(len(types))], ttlFirst: r.Bool()}
			if !haveOwner || r.Intn(4) > 0 {
				e.owner = ptr(pickName(r))
				haveOwner = true
			}
			// now and then leave the TTL out although none is available
			if !haveTTL && r.Intn(12) > 0 || r.Intn(3) == 0 {
				e.ttl = ptr(spellTTL(r, ttlVals[r.Intn(len(ttlVals))]))
				haveTTL = true
			}
			if r.Intn(2) == 0 {
				e.class = ptr(classes[r.Intn(len(classes))])
			}
			e.rd = genRd(r, e.typ)
			es = append(es, e)
		}
	}
	return es
}

// ---------- renderings ----------

type style struct {
	r *Rng
}

func (s style) blank() string {
	return []string{" ", " ", "\t", "  ", " \t ", "\t\t"}[s.r.Intn(6)]
}

// separator inside parentheses: blanks, line breaks and comments, at least one
// blank, a blank before any comment
func (s style) inSep() string {
	return []string{" ", "\t", " \n ", "\n ", " \n", " ; c\n ", " ;\n", "\n\t\n ", " \r\n "}[s.r.Intn(9)]
}

func (s style) caseOf(m string) string {
	switch s.r.Intn(3) {
	case 0:
		return strings.ToLower(m)
	case 1:
		b := []byte(strings.ToLower(m))
		for i := range b {
			if s.r.Bool() && b[i] >= 'a' && b[i] <= 'z' {
				b[i] -= 32
			}
		}
		return string(b)
	}
	return m
}

func (s style) typeName(t uint16) string {
	if m, ok := dns.TypeToString[t]; ok && s.r.Intn(4) > 0 {
		return s.caseOf(m)
	}
	return s.caseOf("TYPE") + Itoa(int(t))
}

func (s style) className(c uint16) string {
	if m, ok := dns.ClassToString[c]; ok && s.r.Intn(4) > 0 {
		return s.caseOf(m)
	}
	return s.caseOf("CLASS") + Itoa(int(c))
}

// mnemonicLike: a bare word the lexer would turn into a type or class token
// when no RR type has been seen on the line
func mnemonicLike(w string) bool {
	u := strings.ToUpper(w)
	if _, ok := dns.StringToType[u]; ok {
		return true
	}
	if _, ok := dns.StringToClass[u]; ok {
		return true
	}
	return strings.HasPrefix(u, "TYPE") || strings.HasPrefix(u, "CLASS")
}

func needsQuotes(t string) bool {
	return t == "" || strings.ContainsAny(t, " \t;()")
}

// render writes the zone as text; origin is tracked so that names may be
// written in their completed form
func render(s style, origin string, es []entry) string {
	var sb strings.Builder
	noise := func() {
		for s.r.Intn(4) == 0 {
			sb.WriteString([]string{"\n", "; a comment line\n", "   ; indented comment\n", " \t \n", ";\n", "\r\n"}[s.r.Intn(6)])
		}
	}
	eol := func() {
		if s.r.Intn(3) == 0 {
			sb.WriteString(s.blank())
		}
		if s.r.Intn(3) == 0 {
			if sb.Len() > 0 && !strings.HasSuffix(sb.String(), " ") && !strings.HasSuffix(sb.String(), "\t") {
				sb.WriteString(" ")
			}
			sb.WriteString([]string{"; trailing", ";", ";; x ( \" ) $TTL"}[s.r.Intn(3)])
		}
		sb.WriteString([]string{"\n", "\n", "\r\n"}[s.r.Intn(3)])
	}
	spellName := func(n string) string {
		if s.r.Intn(4) == 0 && n != "@" && !isAbs(n) {
			return complete(origin, n)
		}
		if n == "@" && s.r.Intn(4) == 0 {
			return origin
		}
		return n
	}
	for _, e := range es {
		noise()
		switch e.kind {
		case 'o':
			sb.WriteString(s.caseOf("$ORIGIN") + s.blank() + spellName(e.arg))
			origin = complete(origin, e.arg)
			eol()
		case 't':
			sb.WriteString(s.caseOf("$TTL") + s.blank() + e.arg)
			eol()
		case 'r':
			if e.owner != nil {
				sb.WriteString(spellName(*e.owner))
			}
			var mid []string
			if e.ttl != nil {
				mid = append(mid, *e.ttl)
			}
			if e.class != nil {
				c := s.className(*e.class)
				if e.ttlFirst {
					mid = append(mid, c)
				} else {
					mid = append([]string{c}, mid...)
				}
			}
			for _, m := range mid {
				sb.WriteString(s.blank() + m)
			}
			sb.WriteString(s.blank() + s.typeName(e.typ))
			// RDATA words
			var words []string
			switch e.rd.kind {
			case 'N':
				words = []string{spellName(e.rd.name)}
			case 'A':
				words = []string{e.rd.atext}
			case 'T':
				for _, t := range e.rd.txt {
					if needsQuotes(t) || s.r.Intn(3) > 0 {
						words = append(words, "\""+t+"\"")
					} else {
						words = append(words, t)
					}
				}
			default:
				words = append([]string{"\\#", Itoa(len(strings.Join(e.rd.hexs, "")) / 2)}, e.rd.hexs...)
			}
			paren := s.r.Intn(3) == 0
			// (finding C06/comment-in-parentheses: a comment inside parentheses makes the
			// lexer classify the following bare words again; renderings avoid that
			// combination, probes() demonstrates it)
			commentsOK := true
			for _, w := range words {
				if mnemonicLike(w) {
					commentsOK = false
				}
			}
			inSep := func() string {
				for {
					if x := s.inSep(); commentsOK || !strings.Contains(x, ";") {
						return x
					}
				}
			}
			sb.WriteString(s.blank())
			if paren {
				sb.WriteString("(")
				if s.r.Bool() {
					sb.WriteString(inSep())
				}
			}
			for i, w := range words {
				if i > 0 {
					if paren {
						sb.WriteString(inSep())
					} else {
						sb.WriteString(s.blank())
					}
				}
				sb.WriteString(w)
			}
			if paren {
				if s.r.Bool() {
					sb.WriteString(inSep())
				}
				sb.WriteString(")")
			}
			eol()
		}
	}
	noise()
	out := sb.String()
	// the last line may lack its line end
	if s.r.Intn(5) == 0 && strings.HasSuffix(out, "\n") && !strings.HasSuffix(out, "\r\n") {
		if i := strings.LastIndexByte(out[:len(out)-1], '\n'); !strings.Contains(out[i+1:], ";") {
			out = out[:len(out)-1]
		}
	}
	return out
}

// ---------- the token skeleton of a zone (as Model/ZoneSpec.v sk_zone) ----------

type stok struct {
	val  uint8
	text string
	torc uint16
}

const (
	zString  = 1
	zBlank   = 2
	zQuote   = 3
	zNewline = 4
	zRrtpe   = 5
	zOwner   = 6
	zClass   = 7
	zDirOrig = 8
	zDirTTL  = 9
)

func skeleton(es []entry) []stok {
	var o []stok
	bl := stok{zBlank, " ", 0}
	for _, e := range es {
		switch e.kind {
		case 'o':
			o = append(o, stok{zDirOrig, "", 0}, bl, stok{zString, e.arg, 0})
		case 't':
			o = append(o, stok{zDirTTL, "", 0}, bl, stok{zString, e.arg, 0})
		case 'r':
			if e.owner != nil {
				o = append(o, stok{zOwner, *e.owner, 0})
			}
			var ttl, cls []stok
			if e.ttl != nil {
				ttl = []stok{bl, {zString, *e.ttl, 0}}
			}
			if e.class != nil {
				cls = []stok{bl, {zClass, "", *e.class}}
			}
			if e.ttlFirst {
				o = append(append(o, ttl...), cls...)
			} else {
				o = append(append(o, cls...), ttl...)
			}
			o = append(o, bl, stok{zRrtpe, "", e.typ}, bl)
			switch e.rd.kind {
			case 'N':
				o = append(o, stok{zString, e.rd.name, 0})
			case 'A':
				o = append(o, stok{zString, e.rd.atext, 0})
			case 'T':
				for i, t := range e.rd.txt {
					if i > 0 {
						o = append(o, bl)
					}
					o = append(o, stok{zQuote, "\"", 0})
					if t != "" {
						o = append(o, stok{zString, t, 0})
					}
					o = append(o, stok{zQuote, "\"", 0})
				}
			default:
				o = append(o, stok{zString, "\\#", 0}, bl, stok{zString, Itoa(len(strings.Join(e.rd.hexs, "")) / 2), 0})
				for _, w := range e.rd.hexs {
					o = append(o, bl, stok{zString, w, 0})
				}
			}
		}
		o = append(o, stok{zNewline, "\n", 0})
	}
	return o
}

// plainRender: single blanks, no comments, no parentheses, every string quoted
func plainRender(es []entry) string {
	var sb strings.Builder
	for _, e := range es {
		switch e.kind {
		case 'o':
			sb.WriteString("$ORIGIN " + e.arg)
		case 't':
			sb.WriteString("$TTL " + e.arg)
		case 'r':
			if e.owner != nil {
				sb.WriteString(*e.owner)
			}
			cls := ""
			if e.class != nil {
				cls = " CLASS" + Itoa(int(*e.class))
			}
			ttl := ""
			if e.ttl != nil {
				ttl = " " + *e.ttl
			}
			if e.ttlFirst {
				sb.WriteString(ttl + cls)
			} else {
				sb.WriteString(cls + ttl)
			}
			if m, ok := dns.TypeToString[e.typ]; ok {
				sb.WriteString(" " + m)
			} else {
				sb.WriteString(" TYPE" + Itoa(int(e.typ)))
			}
			switch e.rd.kind {
			case 'N':
				sb.WriteString(" " + e.rd.name)
			case 'A':
				sb.WriteString(" " + e.rd.atext)
			case 'T':
				for _, t := range e.rd.txt {
					sb.WriteString(" \"" + t + "\"")
				}
			default:
				sb.WriteString(" \\# " + Itoa(len(strings.Join(e.rd.hexs, ""))/2))
				for _, w := range e.rd.hexs {
					sb.WriteString(" " + w)
				}
			}
		}
		sb.WriteString("\n")
	}
	return sb.String()
}

// skeletonCheck: the lexer's tokens for the plain rendering are the skeleton
func skeletonCheck(es []entry) {
	text := plainRender(es)
	sk := skeleton(es)
	toks := dns.VerifLexTokens(text, len(sk)+10)
	stat["skeleton_checked"]++
	ok := len(toks) == len(sk)
	for i := 0; ok && i < len(sk); i++ {
		t, k := toks[i], sk[i]
		if t.Value != k.val || t.Err || t.Token == "" {
			ok = false
		}
		if (k.val == zString || k.val == zOwner || k.val == zQuote) && t.Token != k.text {
			ok = false
		}
		if (k.val == zRrtpe || k.val == zClass) && t.Torc != k.torc {
			ok = false
		}
	}
	if !ok {
		Viol("C06/lex-render/skeleton", "the token stream of the plain rendering is not the zone's skeleton",
			map[string]any{"zone": encode(es), "text_hex": Hs(text)})
	}
	z.EmitD("skel", []string{encode(es), z.Lit(text).String()}, Btoa(ok))
}

// ---------- comparison ----------

func showRecs(rs []rec) string {
	p := make([]string, len(rs))
	for i, r := range rs {
		p[i] = r.String()
	}
	return strings.Join(p, "|")
}

func cfgFor(origin string, deflt *uint32, text string) *z.Config {
	c := &z.Config{Origin: origin, File: "", DefTTL: -1, Text: z.Lit(text)}
	if deflt != nil {
		c.DefTTL = int64(*deflt)
	}
	return c
}

func semanticStream(r *Rng, nzones, nrender int) {
	for i := 0; i < nzones; i++ {
		origin := origins[r.Intn(len(origins))]
		var deflt *uint32
		if r.Intn(3) > 0 {
			deflt = ptr(ttlVals[r.Intn(len(ttlVals))])
		}
		es := genZone(r, deflt != nil)
		want, ok := denote(origin, deflt, es)
		dt := "-"
		if deflt != nil {
			dt = strconv.FormatUint(uint64(*deflt), 10)
		}
		if !ok {
			stat["zones_without_denotation"]++
			z.EmitD("denote", []string{Hs(origin), dt, encode(es)}, "undef")
			continue
		}
		stat["zones_with_denotation"]++
		skeletonCheck(es)
		wantS := showRecs(want)
		z.EmitD("denote", []string{Hs(origin), dt, encode(es)}, wantS)
		for k := 0; k < nrender; k++ {
			text := render(style{r}, origin, es)
			c := cfgFor(origin, deflt, text)
			o := z.Run(c, 1)
			stat["renderings_checked"]++
			got := o.Show()
			if got != wantS {
				key := "C06/denote/records-differ"
				if o.Err != nil {
					key = "C06/denote/rendering-rejected"
				}
				Viol(key, fmt.Sprintf("a rendering does not parse to the denoted records: want %s got %s", wantS, got),
					map[string]any{"origin": origin, "default_ttl": dt, "zone": encode(es), "text_hex": Hs(text)})
			}
			if k < 2 {
				z.EmitD("parse", c.Args(), got)
				stat["case_parse_rendering"]++
			}
		}
	}
}

// ---------- line shapes x TTL sources, exhaustively ----------

func shapeStream() {
	for _, ownerGiven := range []bool{true, false} {
		for shape := 0; shape < 5; shape++ { // none, ttl, class, ttl class, class ttl
			for src := 0; src < 8; src++ { // bit0 default, bit1 $TTL, bit2 stated earlier
				var es []entry
				var deflt *uint32
				if src&1 != 0 {
					deflt = ptr(uint32(111))
				}
				// a first record gives the previous owner and, if wanted, a stated TTL
				first := entry{kind: 'r', owner: ptr("first"), typ: dns.TypeA, rd: rdw{kind: 'A', addr: net.IPv4(10, 0, 0, 1).To4(), atext: "10.0.0.1"}}
				if src&4 != 0 {
					first.ttl = ptr("222")
				}
				if src&2 != 0 {
					es = append(es, entry{kind: 't', arg: "333"})
				}
				es = append(es, first)
				e := entry{kind: 'r', typ: dns.TypeNS, rd: rdw{kind: 'N', name: "ns"}}
				if ownerGiven {
					e.owner = ptr("second")
				}
				switch shape {
				case 1:
					e.ttl = ptr("444")
				case 2:
					e.class = ptr(uint16(3))
				case 3:
					e.ttl, e.class, e.ttlFirst = ptr("444"), ptr(uint16(3)), true
				case 4:
					e.ttl, e.class, e.ttlFirst = ptr("444"), ptr(uint16(3)), false
				}
				es = append(es, e)
				// and a third record that must see the state left behind
				es = append(es, entry{kind: 'r', typ: dns.TypeTXT, rd: rdw{kind: 'T', txt: []string{"t"}}})
				want, ok := denote("example.org.", deflt, es)
				dt := "-"
				if deflt != nil {
					dt = "111"
				}
				if !ok {
					z.EmitD("denote", []string{Hs("example.org."), dt, encode(es)}, "undef")
					stat["shapes_without_denotation"]++
					continue
				}
				wantS := showRecs(want)
				z.EmitD("denote", []string{Hs("example.org."), dt, encode(es)}, wantS)
				r := &Rng{S: uint64(shape*16 + src)}
				for k := 0; k < 3; k++ {
					text := render(style{r}, "example.org.", es)
					c := cfgFor("example.org.", deflt, text)
					o := z.Run(c, 1)
					stat["shapes_checked"]++
					if got := o.Show(); got != wantS {
						Viol("C06/denote/line-shape", fmt.Sprintf("owner given %v, shape %d, TTL sources %03b: want %s got %s", ownerGiven, shape, src, wantS, got),
							map[string]any{"zone": encode(es), "text_hex": Hs(text)})
					}
					z.EmitD("parse", c.Args(), o.Show())
				}
			}
		}
	}
}

// ---------- $GENERATE ----------

type piece struct {
	lit    string
	iter   bool
	off    int64
	width  int
	base   byte // 0: plain $
	braced bool
}

func fmtIter(v int64, width int, base byte) string {
	b := 10
	switch base {
	case 'o':
		b = 8
	case 'x', 'X':
		b = 16
	}
	s := strconv.FormatInt(v, b)
	if base == 'X' {
		s = strings.ToUpper(s)
	}
	for len(s) < width {
		s = "0" + s
	}
	return s
}

func renderTemplate(ps []piece) string {
	var sb strings.Builder
	for _, p := range ps {
		switch {
		case !p.iter:
			sb.WriteString(strings.ReplaceAll(p.lit, "$", "\\$"))
		case !p.braced:
			sb.WriteString("$")
		case p.base == 0 && p.width == 0:
			fmt.Fprintf(&sb, "${%d}", p.off)
		case p.base == 0:
			fmt.Fprintf(&sb, "${%d,%d}", p.off, p.width)
		default:
			fmt.Fprintf(&sb, "${%d,%d,%c}", p.off, p.width, p.base)
		}
	}
	return sb.String()
}

func substTemplate(ps []piece, i int64) string {
	var sb strings.Builder
	for _, p := range ps {
		if !p.iter {
			sb.WriteString(p.lit)
		} else {
			b := p.base
			if b == 0 {
				b = 'd'
			}
			sb.WriteString(fmtIter(i+p.off, p.width, b))
		}
	}
	return sb.String()
}

func genIterPiece(r *Rng) piece {
	if r.Intn(3) == 0 {
		return piece{iter: true}
	}
	p := piece{iter: true, braced: true, off: int64(r.Intn(300)), width: r.Intn(6)}
	switch r.Intn(5) {
	case 1:
		p.base = 'd'
	case 2:
		p.base = 'o'
	case 3:
		p.base = 'x'
	case 4:
		p.base = 'X'
	}
	if p.base == 0 && r.Bool() {
		p.width = 0
	}
	return p
}

func generateStream(r *Rng, n int) {
	for i := 0; i < n; i++ {
		start := int64(r.Intn(20))
		if r.Intn(4) == 0 {
			start = int64(r.Intn(70000))
		}
		step := int64(1 + r.Intn(4))
		cnt := int64(1 + r.Intn(6))
		stop := start + (cnt-1)*step + int64(r.Intn(int(step)))
		rg := fmt.Sprintf("%d-%d", start, stop)
		if step != 1 || r.Bool() {
			rg += fmt.Sprintf("/%d", step)
		}
		// owner template and a TXT/PTR/A right-hand side
		owner := []piece{{lit: []string{"h", "host-", "n"}[r.Intn(3)]}, genIterPiece(r)}
		if r.Bool() {
			owner = append(owner, piece{lit: ".sub"})
		}
		var typ uint16
		var rhs []piece
		switch r.Intn(3) {
		case 0:
			typ = dns.TypeTXT
			rhs = []piece{{lit: "\"v="}, genIterPiece(r), {lit: " cost=$5 "}, genIterPiece(r), {lit: "\""}}
		case 1:
			typ = dns.TypePTR
			rhs = []piece{{lit: "p"}, genIterPiece(r), {lit: ".example.net."}}
		default:
			typ = dns.TypeCNAME
			rhs = []piece{genIterPiece(r), {lit: ".target"}}
		}
		ttl := ""
		ttlv := uint32(3600)
		if r.Bool() {
			ttlv = ttlVals[r.Intn(6)]
			ttl = " " + strconv.FormatUint(uint64(ttlv), 10)
		}
		text := "$GENERATE " + rg + " " + renderTemplate(owner) + ttl + " " + dns.TypeToString[typ] + " " + renderTemplate(rhs) + "\n"
		// expected: one record per value start, start+step, ... <= stop
		var want []rec
		for v := start; v <= stop; v += step {
			o := complete("example.org.", substTemplate(owner, v))
			rd := substTemplate(rhs, v)
			var rds string
			if typ == dns.TypeTXT {
				rds = "T" + z.ShowBytes([]byte(strings.Trim(rd, "\"")))
			} else {
				rds = "N" + z.ShowBytes([]byte(complete("example.org.", rd)))
			}
			want = append(want, rec{o, typ, 1, ttlv, rds})
		}
		c := cfgFor("example.org.", nil, text)
		o := z.Run(c, 1)
		stat["generate_checked"]++
		if got, wantS := o.Show(), showRecs(want); got != wantS {
			Viol("C06/generate/expansion", fmt.Sprintf("want %s got %s", wantS, got), map[string]any{"text_hex": Hs(text)})
		}
		z.EmitD("parse", c.Args(), o.Show())
	}
}

// ---------- $INCLUDE ----------

func includeStream(r *Rng, n int) {
	for i := 0; i < n; i++ {
		origin := origins[r.Intn(len(origins))]
		deflt := ptr(uint32(300))
		before := genZone(r, true)
		inner := genZone(r, true)
		after := genZone(r, true)
		// the included file starts without a previous owner; make its first record name one
		for k := range inner {
			if inner[k].kind == 'r' {
				if inner[k].owner == nil {
					inner[k].owner = ptr("inc")
				}
				break
			}
		}
		incOriginArg := ""
		if r.Bool() {
			incOriginArg = pickName(r)
			for mnemonicLike(incOriginArg) {
				incOriginArg = pickName(r)
			}
		}
		// denotation: before; then the file under its own origin, without a previous
		// owner, with the TTL sources of the includer; then after, in the includer's
		// state as it was (origin and previous owner unchanged by the file)
		recs0, st1, ok0 := denoteSt(dstate{origin: origin, deflt: deflt}, before)
		if !ok0 {
			continue
		}
		cur := st1
		incOrigin := st1.origin
		if incOriginArg != "" {
			incOrigin = complete(st1.origin, incOriginArg)
		}
		innerRecs, _, ok1 := denoteSt(dstate{origin: incOrigin, dollar: st1.dollar, stated: st1.stated, deflt: st1.deflt}, inner)
		if !ok1 {
			continue
		}
		afterRecs, _, ok2 := denoteSt(st1, after)
		if !ok2 {
			continue
		}
		want := append(append(append([]rec{}, recs0...), innerRecs...), afterRecs...)
		incLine := "$INCLUDE inc.zone"
		if incOriginArg != "" {
			incLine += " " + incOriginArg
		}
		text := render(style{r}, origin, before)
		if text != "" && !strings.HasSuffix(text, "\n") {
			text += "\n"
		}
		text += incLine + "\n" + render(style{r}, cur.origin, after)
		hasfs := r.Bool()
		c := cfgFor(origin, deflt, text)
		c.File = "z/main.zone"
		c.Inc, c.HasFS = true, hasfs
		c.Files = map[string]z.Recipe{"z/inc.zone": z.Lit(render(style{r}, incOrigin, inner))}
		o := z.Run(c, 1)
		stat["include_checked"]++
		var got []string
		for _, e := range o.Events {
			if !strings.HasPrefix(e, "O:") {
				got = append(got, e)
			}
		}
		if g, w := strings.Join(got, "|"), showRecs(want); g != w {
			Viol("C06/include/splice", fmt.Sprintf("want %s got %s", w, g), map[string]any{"text_hex": Hs(text), "file_hex": c.Files["z/inc.zone"].String(), "fs": hasfs})
		}
		z.EmitD("parse", c.Args(), o.Show())
	}
}

// includeChains: include trees up to the depth limit: a chain main -> db.1 -> ... -> db.k, each file with
// its own origin argument and a record before and after its $INCLUDE. Chains of 1..7 nested files are
// legal zones (maxIncludeDepth = 7) and must yield every record, in file order, under the right origin;
// a chain of 8 must be refused.
func includeChains() {
	for k := 1; k <= 8; k++ {
		for _, hasfs := range []bool{true, false} {
			files := map[string]z.Recipe{}
			var want []string
			want = append(want, "m.example.org.")
			for i := 1; i <= k; i++ {
				want = append(want, fmt.Sprintf("a%d.o%d.example.org.", i, i))
			}
			for i := k; i >= 1; i-- {
				want = append(want, fmt.Sprintf("b%d.o%d.example.org.", i, i))
			}
			want = append(want, "n.example.org.")
			for i := 1; i <= k; i++ {
				body := fmt.Sprintf("a%d 60 IN A 10.0.0.%d\n", i, i)
				if i < k {
					body += fmt.Sprintf("$INCLUDE db.%d o%d.example.org.\n", i+1, i+1)
				}
				body += fmt.Sprintf("b%d 60 IN A 10.0.1.%d\n", i, i)
				files[fmt.Sprintf("z/db.%d", i)] = z.Lit(body)
			}
			text := "m 60 IN A 10.9.9.1\n$INCLUDE db.1 o1.example.org.\nn 60 IN A 10.9.9.2\n"
			c := cfgFor("example.org.", ptr(uint32(300)), text)
			c.File = "z/main.zone"
			c.Inc, c.HasFS = true, hasfs
			c.Files = files
			o := z.Run(c, 1)
			stat["include_chain_checked"]++
			var owners []string
			for _, rc := range o.Recs {
				owners = append(owners, rc.Name)
			}
			in := map[string]any{"depth": k, "fs": hasfs, "got": strings.Join(owners, " ")}
			if k <= 7 {
				if o.Err != nil || strings.Join(owners, " ") != strings.Join(want, " ") {
					Viol("C06/include/chain-within-limit", fmt.Sprintf("a chain of %d nested included files does not yield its records (err=%v)", k, o.Err), in)
				}
			} else if o.Err == nil {
				Viol("C06/include/chain-beyond-limit", "a chain of 8 nested included files was accepted", in)
			}
		}
	}
}

// includeTrees: the depth limit is about NESTING, not about how many files one file includes: a file at depth d
// (0 = the main file) with w sibling $INCLUDE directives, each of a leaf file, for every d in 0..6 and several
// w in 1..12, must yield every record in file order.
func includeTrees() {
	for d := 0; d <= 6; d++ {
		for _, w := range []int{1, 2, 6, 7, 8, 9, 12} {
			for _, hasfs := range []bool{true, false} {
				files := map[string]z.Recipe{}
				var want []string
				// the chain down to depth d
				for i := 1; i <= d; i++ {
					want = append(want, fmt.Sprintf("c%d.example.org.", i))
				}
				for j := 1; j <= w; j++ {
					want = append(want, fmt.Sprintf("leaf%d.example.org.", j))
					files[fmt.Sprintf("z/leaf.%d", j)] = z.Lit(fmt.Sprintf("leaf%d 60 IN A 10.1.0.%d\n", j, j))
				}
				want = append(want, "after.example.org.")
				var sib strings.Builder
				for j := 1; j <= w; j++ {
					fmt.Fprintf(&sib, "$INCLUDE leaf.%d\n", j)
				}
				sib.WriteString("after 60 IN A 10.2.0.1\n")
				text := sib.String()
				for i := d; i >= 1; i-- {
					files[fmt.Sprintf("z/chain.%d", i)] = z.Lit(fmt.Sprintf("c%d 60 IN A 10.0.0.%d\n", i, i) + text)
					text = fmt.Sprintf("$INCLUDE chain.%d\n", i)
				}
				c := cfgFor("example.org.", ptr(uint32(300)), text)
				c.File = "z/main.zone"
				c.Inc, c.HasFS = true, hasfs
				c.Files = files
				o := z.Run(c, 1)
				stat["include_tree_checked"]++
				var owners []string
				for _, rc := range o.Recs {
					owners = append(owners, rc.Name)
				}
				if o.Err != nil || strings.Join(owners, " ") != strings.Join(want, " ") {
					Viol("C06/include/siblings-within-limit", fmt.Sprintf("a file at nesting depth %d with %d sibling $INCLUDE directives does not yield its records (err=%v)", d, w, o.Err),
						map[string]any{"depth": d, "siblings": w, "fs": hasfs, "got": strings.Join(owners, " ")})
				}
			}
		}
	}
}

// ---------- probes for the three lexer deviations the streams avoid ----------

func probes() {
	run := func(text string) string {
		c := cfgFor("example.org.", ptr(uint32(300)), text)
		o := z.Run(c, 1)
		z.EmitD("parse", c.Args(), o.Show())
		return o.Show()
	}
	// the same record with and without a comment inside the parentheses
	with := run("a 5 TXT ( x ; comment\n ns )\n")
	without := run("a 5 TXT ( x \n ns )\n")
	stat["probe_checked"]++
	if with != without {
		Viol("C06/comment-in-parentheses/rdata-word-retyped",
			fmt.Sprintf("a comment inside parentheses changes the result: without it %s, with it %s", without, with),
			map[string]any{"text_hex": Hs("a 5 TXT ( x ; comment\n ns )\n")})
	}
	// a line break inside parentheses that is not next to a blank: by RFC 1035 5.1 it separates the two
	// items like a blank ("line terminations are not recognized within parentheses"); the lexer drops it
	// and joins the items
	joined := run("a 5 TXT ( x\ny )\n")
	spaced := run("a 5 TXT ( x \n y )\n")
	stat["probe_checked"]++
	if joined != spaced {
		Viol("C06/line-break-in-parentheses/items-joined",
			fmt.Sprintf("a bare line break inside parentheses changes the result: with blanks %s, without %s", spaced, joined),
			map[string]any{"text_hex": Hs("a 5 TXT ( x\ny )\n")})
	}
	// a relative $ORIGIN argument that spells a type mnemonic
	got := run("$ORIGIN a\nb 5 A 192.0.2.1\n")
	want := showRecs([]rec{{"b.a.example.org.", dns.TypeA, 1, 5, "Ac0000201"}})
	stat["probe_checked"]++
	if got != want {
		Viol("C06/directive-argument-mnemonic", fmt.Sprintf("$ORIGIN a: want %s got %s", want, got),
			map[string]any{"text_hex": Hs("$ORIGIN a\nb 5 A 192.0.2.1\n")})
	}
}

// ---------- unit cases ----------

func unitCases(r *Rng) {
	ttls := []string{"0", "1", "60", "1m", "1h", "1d", "1w", "1w1d1h1m1s", "1W1D1H1M1S", "01h", "1h30", "90m", "5400", "5400s", "1h30m", "0w0d0h0m0s",
		"4294967295", "71582788m15", "x", "1x", "", "1.5h", "-1", "1h-1"}
	for i := 0; i < 200; i++ {
		ttls = append(ttls, spellTTL(r, ttlVals[r.Intn(len(ttlVals))]))
		ttls = append(ttls, spellTTL(r, uint32(r.Next())))
	}
	for _, t := range ttls {
		v, ok := ttlValue(t)
		out := "err"
		if ok {
			out = "ok:" + strconv.FormatUint(v, 10)
		}
		z.EmitD("ttlspec", []string{Hs(t)}, out)
		// the library must agree with the specification whenever the value fits 32 bits
		lv, lok := dns.VerifStringToTTL(t)
		stat["ttl_checked"]++
		if ok && v <= 0xffffffff && len(t) <= 20 {
			if !lok || uint64(lv) != v {
				Viol("C06/ttl-units", fmt.Sprintf("TTL text %q denotes %d, library says %d (ok=%v)", t, v, lv, lok), map[string]any{"ttl": t})
			}
		}
		if !ok && lok {
			Viol("C06/ttl-units", fmt.Sprintf("TTL text %q has no meaning, library accepts it as %d", t, lv), map[string]any{"ttl": t})
		}
	}
	for _, o := range origins {
		for _, n := range append(append([]string{"@"}, relNames...), absNames...) {
			z.EmitD("complete", []string{Hs(o), Hs(n)}, Hs(complete(o, n)))
			a, ok := dns.VerifToAbsoluteName(n, o)
			stat["complete_checked"]++
			if !ok || a != complete(o, n) {
				Viol("C06/name-completion", fmt.Sprintf("name %q under origin %q: want %q got %q (ok=%v)", n, o, complete(o, n), a, ok), nil)
			}
		}
	}
}

func runC06(r *Rng, tier string, n int) {
	mult := 1
	if tier == "thorough" {
		mult = 20
	}
	z.InitWorkDir()
	defer z.CleanupWorkDir()
	unitCases(r)
	probes()
	keywordCaseSweep(r)
	shapeStream()
	semanticStream(r, 260*mult, 6)
	generateStream(r, 120*mult)
	generateLimitSweep(tier)
	includeStream(r, 120*mult)
	rdataNameCompletion(r, mult)
	includeChains()
	includeTrees()
	generateTTLInheritance()
	concurrentParsers(r, tier)
	Stat(stat)
}

// rdataNameCompletion: relative names and @ are completed with the current origin in EVERY domain-name
// field of EVERY record type (oracle only: the RDATA grammars of most types are outside the model).
// A generated record gets names under the origin in all its name fields; its printed form, with those
// names rewritten as relative names (or @), must parse under $ORIGIN to the same record.
func rdataNameCompletion(r *Rng, mult int) {
	pool := &NamePool{R: r}
	for _, t := range AllTypes() {
		for k := 0; k < 3*mult; k++ {
			rr, info := GenRR(r, pool, t, false)
			if rr == nil || !info.WellFormed {
				continue
			}
			origin := []string{"example.org.", "Sub.Example.ORG.", "x."}[k%3]
			n := 0
			var rel []string
			ForEachNameField(rr, func(get func() string, set func(string)) {
				if k%3 == 2 && n%2 == 1 {
					set(origin) // written as @
					rel = append(rel, "@")
				} else {
					lab := "rel" + strconv.Itoa(n) + []string{"", ".deep", "\\.", ".e\\.x\\."}[(n+k)%4] // also labels that end in an escaped dot
					set(lab + "." + origin)
					rel = append(rel, lab)
				}
				n++
			})
			if n == 0 {
				continue
			}
			rr.Header().Name = "owner." + origin
			var abs string
			if Protect(func() string { abs = rr.String(); return "ok" }) != "ok" {
				continue
			}
			base, err := dns.NewRR(abs)
			if err != nil || base == nil || base.String() != abs {
				stat["rdata_names_text_not_reparsable"]++
				continue // C05's business
			}
			// rewrite the RDATA part: everything after the type mnemonic
			hdrEnd := strings.Index(abs, "\t"+dns.TypeToString[t]+"\t")
			if hdrEnd < 0 {
				continue
			}
			hdrEnd += len(dns.TypeToString[t]) + 2
			rdata := abs[hdrEnd:]
			i := 0
			ForEachNameField(rr, func(get func() string, set func(string)) {
				rdata = strings.Replace(rdata, get(), rel[i], 1)
				i++
			})
			text := "$ORIGIN " + origin + "\n" + abs[:hdrEnd] + rdata + "\n"
			stat["oracle_rdata_names_checked"]++
			zp := dns.NewZoneParser(strings.NewReader(text), "", "")
			got, ok := zp.Next()
			if !ok || got == nil || zp.Err() != nil {
				Viol("C06/rdata-name-completion/"+dns.TypeToString[t], fmt.Sprintf("a record with relative RDATA names is not accepted: %v", zp.Err()), map[string]any{"text": text})
				continue
			}
			if got.String() != abs {
				Viol("C06/rdata-name-completion/"+dns.TypeToString[t], "relative names in the RDATA are not completed with the origin: got "+got.String(), map[string]any{"text": text, "want": abs})
			}
		}
	}
}
