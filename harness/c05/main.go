package main

// C05: presentation text is a faithful, re-readable encoding of every record.

import (
	"bytes"
	"encoding/hex"
	"fmt"
	"os"
	"sort"
	"strconv"
	"strings"

	"github.com/miekg/dns"
	. "verif/harness/common"
)

func main() { Main(runC05) }

// Types that have no presentation format (their parse() says so, or their
// String() is a comment). Decided from the code; checked again at run time.
var noPresentation = map[uint16]string{
	dns.TypeANY:    "parse: ANY records do not have a presentation format",
	dns.TypeNULL:   "parse: NULL records do not have a presentation format; String is a comment",
	dns.TypeNXNAME: "parse: NXNAME records do not have a presentation format",
	dns.TypeOPT:    "parse: OPT records do not have a presentation format; String is a comment",
	dns.TypeTSIG:   "parse: TSIG records do not have a presentation format; String is a comment",
	dns.TypeTKEY:   "String is a comment (TKEY has no official presentation format)",
}

var stats = map[string]int{}

type failKey struct{ typ, field, class string }

// kindGroup folds the detailed outcome into the part of the finding key.
func kindGroup(kind string) string {
	raw := ""
	switch {
	case strings.Contains(kind, "panic"):
		return raw + "panic"
	case strings.HasPrefix(kind, "wire-"):
		return raw + "wire-octets-not-reread"
	case strings.HasPrefix(kind, "syntax-"):
		return raw + kind
	case strings.HasPrefix(kind, "numeric-header-"):
		return raw + "numeric-header"
	case strings.HasPrefix(kind, "generic-"):
		return raw + "generic-form"
	case strings.HasPrefix(kind, "torfc3597-"):
		return raw + "ToRFC3597"
	case strings.HasPrefix(kind, "text-origin-"):
		return raw + "text-origin"
	}
	return raw + "not-reread" // reject, nil, owner, type, class, ttl, rdata, repack
}

// normClass folds value classes that a type treats alike.
func normClass(tn, field, class string) string {
	if tn == "GPOS" && class != "digits" && class != "float" {
		return "non-numeric"
	}
	if tn == "NSEC3" && field == "NextDomain" && class != "plain" {
		return "hash-length-not-20"
	}
	return class
}

var sweepFails = map[failKey]map[string]bool{}

func presentableTypes() []uint16 {
	var ts []uint16
	for t := range dns.TypeToRR {
		ts = append(ts, t)
	}
	sort.Slice(ts, func(i, j int) bool { return ts[i] < ts[j] })
	var out []uint16
	for _, t := range ts {
		rr := dns.TypeToRR[t]()
		*rr.Header() = dns.RR_Header{Name: "x.", Rrtype: t, Class: 1, Ttl: 5}
		s := Protect(func() string { return rr.String() })
		comment := strings.HasPrefix(strings.TrimLeft(s, "\n"), ";")
		_, listed := noPresentation[t]
		if comment != listed && !(listed && (t == dns.TypeANY || t == dns.TypeNXNAME)) {
			Viol("C05/"+typeName(t)+"/presentation-format/changed", "String() of an empty "+typeName(t)+
				" record is/was a comment but the exclusion list says otherwise", violIn{Type: typeName(t), Text: s})
		}
		if !listed {
			out = append(out, t)
		}
	}
	return out
}

func classesOf(g *grec) map[string]string {
	m := map[string]string{"Name": g.NameC, "Ttl": g.TtlC, "Class": g.ClassC}
	for _, f := range g.Fields {
		m[f.Field] = f.Class
	}
	return m
}

// isPlain reports whether class c is the benign default of its field
func isPlainClass(field, c string) bool {
	switch c {
	case "plain", "digits", "one:alnum", "IN", "size", "gwtype", "v4", "one":
		return true
	}
	return false
}

// runOne checks one generated record (wire origin and raw variant) and
// reports failures. field/class name the single special field ("" in the
// mixed phase).
func runOne(g *grec, field, class string) {
	w := g.wire()
	tn := typeName(g.Type)
	stats["records_generated"]++
	var rr dns.RR
	var err error
	var off int
	if Protect(func() string { rr, off, err = dns.UnpackRR(w, 0); return "" }) == "panic" {
		Viol("C05/"+tn+"/unpack/panic", "UnpackRR panicked", violIn{Type: tn, Wire: Hx(w)})
		return
	}
	if err != nil || off != len(w) {
		stats["generated_wire_rejected_by_unpack"]++
		stats["generated_wire_rejected_"+tn+"_"+field+"_"+class]++
		return
	}
	stats["records_checked"]++
	stats["type_"+tn+"_checked"]++
	report := func(origin string, o outcome) {
		if o.Kind == "" {
			return
		}
		stats["oracle_failures"]++
		in := violIn{Type: tn, Origin: origin, Classes: classesOf(g), Wire: Hx(w), Text: o.Text, Detail: o.Detail}
		if field != "" {
			k := failKey{tn, field, class}
			if sweepFails[k] == nil {
				sweepFails[k] = map[string]bool{}
			}
			sweepFails[k][o.Kind] = true
			Viol("C05/"+tn+"/"+field+"/"+normClass(tn, field, class)+"/"+kindGroup(o.Kind), tn+" with "+field+" of class "+class+" ("+origin+"): "+o.Kind+": "+o.Detail, in)
			return
		}
		// all-fields-random phase: a record containing a (field, class) cell that
		// already fails on its own is explained by that finding
		cl := classesOf(g)
		var names []string
		for f := range cl {
			names = append(names, f)
		}
		sort.Strings(names)
		var special []string
		for _, f := range names {
			c := cl[f]
			if sweepFails[failKey{tn, f, c}] != nil {
				stats["mixed_failures_explained_by_single_cell"]++
				return
			}
			if !isPlainClass(f, c) {
				special = append(special, f+"="+c)
			}
		}
		Viol("C05/"+tn+"/combination/"+strings.Join(special, "+")+"/"+kindGroup(o.Kind), tn+" with random fields ("+origin+"): "+o.Kind+": "+o.Detail, in)
	}
	o := checkRecord(rr, w)
	report("wire", o)
	if o.Kind != "" {
		return
	}
	if rv, changed := rawVariant(rr); changed {
		// Observation only: a struct whose strings a caller filled with raw
		// (unescaped) octets comes neither from UnpackRR nor from NewRR, so the
		// property does not speak about it. Counted, not reported.
		stats["raw_struct_variants_observed"]++
		if o := checkRecord(rv, nil); o.Kind != "" {
			stats["raw_struct_variants_not_reread"]++
			if field != "" {
				stats["raw_struct_not_reread_"+tn+"_"+field+"_"+class]++
			}
		}
	}
}

// all-quoted types: an independent reader must find the wire strings
var allQuoted = map[uint16]bool{dns.TypeTXT: true, dns.TypeSPF: true, dns.TypeAVC: true, dns.TypeNINFO: true,
	dns.TypeRESINFO: true, dns.TypeHINFO: true, dns.TypeISDN: true, dns.TypeUINFO: true}

func independentStrings(r *Rng, n int) {
	var qts []uint16
	for t := range allQuoted {
		qts = append(qts, t)
	}
	sort.Slice(qts, func(i, j int) bool { return qts[i] < qts[j] })
	for _, t := range qts {
		for i := 0; i < n; i++ {
			g := genRecord(r, t, nil, true)
			// header plain: this oracle is about the strings
			g.Name, g.Class, g.Ttl = [][]byte{[]byte("x")}, 1, 5
			w := g.wire()
			rr, off, err := dns.UnpackRR(w, 0)
			if err != nil || off != len(w) {
				continue
			}
			var want [][]byte
			rd := g.rdata()
			for p := 0; p < len(rd); {
				l := int(rd[p])
				want = append(want, rd[p+1:p+1+l])
				p += 1 + l
			}
			stats["independent_string_reads_checked"]++
			got, ok := charStrings(rr.String())
			same := ok && len(got) == len(want)
			if same {
				for j := range got {
					if !bytes.Equal(got[j], want[j]) {
						same = false
					}
				}
			}
			if !same && len(want) > 0 {
				Viol("C05/"+typeName(t)+"/strings/independent-reader", "an RFC 1035 reader does not find the wire character-strings in the text",
					violIn{Type: typeName(t), Wire: Hx(w), Text: short(rr.String())})
			}
		}
	}
}

func unknownTypes(r *Rng, n int) {
	codes := []uint16{0, 100, 999, 65279, 65280, 65534, 65535}
	for i := 0; i < n; i++ {
		t := codes[i%len(codes)]
		if i >= len(codes)*4 {
			t = uint16(r.Next())
		}
		if _, ok := dns.TypeToRR[t]; ok {
			continue
		}
		g := &grec{Type: t}
		g.NameC = nameClasses[r.Intn(len(nameClasses))]
		g.Name = genName(r, g.NameC)
		g.TtlC = ttlClasses[r.Intn(len(ttlClasses))]
		g.Ttl = genTtl(r, g.TtlC)
		g.ClassC = classClasses[r.Intn(len(classClasses))]
		g.Class = genClass(r, g.ClassC)
		bc := blobClasses[r.Intn(len(blobClasses))]
		g.Fields = []fval{{"Rdata", bc, genBlob(r, bc)}}
		w := g.wire()
		rr, off, err := dns.UnpackRR(w, 0)
		if err != nil || off != len(w) {
			stats["generated_wire_rejected_by_unpack"]++
			continue
		}
		stats["unknown_type_records_checked"]++
		if o := checkRecord(rr, w); o.Kind != "" {
			key := "C05/unknown-type/Rdata/" + bc + "/" + o.Kind
			if t == 0 || t == 65535 {
				key = "C05/TYPE" + strconv.Itoa(int(t)) + "/Rdata/" + bc + "/" + o.Kind
			}
			if o.Kind != "" && (g.ClassC == "ANY" || g.ClassC == "NONE") {
				key += "/class-" + g.ClassC
			}
			Viol(key, "record of unregistered type: "+o.Kind+": "+o.Detail,
				violIn{Type: typeName(t), Origin: "wire", Classes: classesOf(g), Wire: Hx(w), Text: o.Text, Detail: o.Detail})
		}
	}
}

// largeRdata: records from the wire whose RDATA is tens of kilobytes long (types that end in an opaque octet
// string, and unregistered types), at the sizes where a 15/16-bit quantity wraps: text, numeric header
// spellings, RFC 3597 generic form and ToRFC3597 must all read back to the same octets.
func largeRdata(r *Rng) {
	prefix := map[uint16][]byte{
		dns.TypeOPENPGPKEY: {},
		dns.TypeDHCID:      {},
		dns.TypeDNSKEY:     {1, 1, 3, 8},
		dns.TypeCERT:       {0, 1, 0, 2, 8},
		dns.TypeTLSA:       {3, 1, 1},
		dns.TypeSSHFP:      {2, 1},
		dns.TypeRKEY:       {0, 0, 3, 8},
		dns.TypeZONEMD:     {0, 0, 0, 1, 1, 200},
		65280:              {},
		999:                {},
	}
	var ts []uint16
	for t := range prefix {
		ts = append(ts, t)
	}
	sort.Slice(ts, func(i, j int) bool { return ts[i] < ts[j] })
	for _, t := range ts {
		for _, n := range []int{16383, 16384, 32767, 32768, 32769, 40000, 65534, 65535} {
			rd := append([]byte{}, prefix[t]...)
			for len(rd) < n {
				rd = append(rd, byte(r.Intn(256)))
			}
			w := append([]byte{1, 'k', 0, byte(t >> 8), byte(t), 0, 1, 0, 0, 1, 44, byte(n >> 8), byte(n)}, rd...)
			rr, off, err := dns.UnpackRR(w, 0)
			if err != nil || off != len(w) {
				stats["large_rdata_rejected_by_unpack"]++
				continue
			}
			stats["large_rdata_records_checked"]++
			if o := checkRecord(rr, w); o.Kind != "" {
				Viol("C05/large-rdata/"+typeName(t)+"/"+kindGroup(o.Kind), typeName(t)+" record with "+strconv.Itoa(n)+" octets of RDATA: "+o.Kind+": "+o.Detail,
					violIn{Type: typeName(t), Origin: "wire", Text: o.Text, Detail: "rdlength " + strconv.Itoa(n) + ": " + o.Detail})
			}
		}
	}
}

// noRdata: records without RDATA (dynamic update), built as structs.
func noRdata(types []uint16) {
	var failing []string
	var firstOutcome outcome
	checked := 0
	for _, t := range types {
		// the record UnpackRR returns for RDLENGTH 0 (also what NewRR("x.example. 5 IN A") returns)
		want := append(wireName([][]byte{[]byte("x"), []byte("example")}), 0, 0, 0, 1, 0, 0, 0, 5, 0, 0)
		want[len(want)-10], want[len(want)-9] = byte(t>>8), byte(t)
		rr, off, err := dns.UnpackRR(want, 0)
		if err != nil || off != len(want) {
			stats["generated_wire_rejected_by_unpack"]++
			continue
		}
		var text string
		if Protect(func() string { text = rr.String(); return "" }) == "panic" {
			Viol("C05/"+typeName(t)+"/rdata/none/panic", "String panicked on a record without RDATA", violIn{Type: typeName(t), Origin: "wire", Wire: Hx(want)})
			continue
		}
		checked++
		stats["no_rdata_records_checked"]++
		if o := reread(text, want); o.Kind != "" {
			failing = append(failing, typeName(t)+":"+o.Kind)
			if firstOutcome.Kind == "" {
				firstOutcome = o
			}
		}
	}
	if len(failing) == 0 {
		return
	}
	// one finding (the header printer's trailing TAB), keyed by how many types show it
	Viol("C05/ALL/rdata/none/not-reread-"+strconv.Itoa(len(failing))+"-of-"+strconv.Itoa(checked)+"-types",
		"a record without RDATA (dynamic update) prints text that NewRR does not read back as the same record: "+firstOutcome.Detail,
		violIn{Type: "ALL", Origin: "wire (RDLENGTH 0), e.g. 0178076578616d706c6500000100010000000500 00", Text: firstOutcome.Text, Detail: strings.Join(failing, " ")})
}

// codeSweep: every type and class code point, as mnemonic and as TYPEnnn / CLASSnnn.
func codeSweep(r *Rng, tier string) {
	check := func(text string, wantType, wantClass uint16, key, what string) bool {
		stats["code_spellings_checked"]++
		var rr dns.RR
		var err error
		if Protect(func() string { rr, err = dns.NewRR(text); return "" }) == "panic" {
			Viol(key+"/panic", what+": NewRR panicked", violIn{Origin: "text", Text: text})
			return false
		}
		if err != nil || rr == nil {
			d := "no record"
			if err != nil {
				d = err.Error()
			}
			Viol(key+"/reject", what+": "+d, violIn{Origin: "text", Text: text, Detail: d})
			return false
		}
		if rr.Header().Rrtype != wantType || rr.Header().Class != wantClass {
			Viol(key+"/wrong-code", what+": got type "+strconv.Itoa(int(rr.Header().Rrtype))+" class "+strconv.Itoa(int(rr.Header().Class)),
				violIn{Origin: "text", Text: text})
			return false
		}
		return true
	}
	reject := func(text, key, what string) {
		stats["code_spellings_checked"]++
		rr, err := dns.NewRR(text)
		if err == nil && rr != nil {
			Viol(key, what+": accepted as type "+strconv.Itoa(int(rr.Header().Rrtype))+" class "+strconv.Itoa(int(rr.Header().Class)), violIn{Text: text})
		}
	}
	step := 1
	if tier != "thorough" {
		step = 1 // the sweep is cheap: all 65536 codes in both tiers
	}
	for c := 0; c < 65536; c += step {
		t := uint16(c)
		n := strconv.Itoa(c)
		bucket := "unregistered"
		if _, ok := dns.TypeToString[t]; ok {
			bucket = typeName(t)
		}
		// TYPEnnn with generic empty RDATA, and with one octet of RDATA for unregistered types
		check("x.\t5\tIN\tTYPE"+n+"\t\\# 0", t, 1, "C05/TYPEnnn/"+bucket, "TYPE"+n+" spelling")
		check("x.\t5\tIN\ttype"+n+"\t\\# 0", t, 1, "C05/TYPEnnn-lower/"+bucket, "type"+n+" spelling")
		if m, ok := dns.TypeToString[t]; ok {
			if check("x.\t5\tIN\t"+m+"\t\\# 0", t, 1, "C05/type-mnemonic/"+m, "mnemonic "+m) {
				check("x.\t5\tIN\t"+strings.ToLower(m)+"\t\\# 0", t, 1, "C05/type-mnemonic-lower/"+m, "mnemonic "+strings.ToLower(m))
			}
		} else {
			// Type.String() must be a spelling the parser maps back to t
			check("x.\t5\tIN\t"+dns.Type(t).String()+"\t\\# 0", t, 1, "C05/Type.String/"+bucket, "Type("+n+").String() = "+dns.Type(t).String())
		}
		// classes
		cb := "unregistered"
		if m, ok := dns.ClassToString[t]; ok {
			cb = m
			if check("x.\t5\t"+m+"\tA\t1.2.3.4", 1, t, "C05/class-mnemonic/"+m, "class mnemonic "+m) {
				check("x.\t5\t"+strings.ToLower(m)+"\tA\t1.2.3.4", 1, t, "C05/class-mnemonic-lower/"+m, "class mnemonic "+strings.ToLower(m))
			}
		}
		check("x.\t5\tCLASS"+n+"\tA\t1.2.3.4", 1, t, "C05/CLASSnnn/"+cb, "CLASS"+n+" spelling")
		check("x.\t5\tclass"+n+"\tA\t1.2.3.4", 1, t, "C05/CLASSnnn-lower/"+cb, "class"+n+" spelling")
		check("x.\t5\t"+dns.Class(t).String()+"\tA\t1.2.3.4", 1, t, "C05/Class.String/"+cb, "Class("+n+").String() = "+dns.Class(t).String())
		// both numeric, in the other order (class before TTL)
		if c%97 == 0 {
			t2 := uint16(r.Next())
			check("x.\tCLASS"+n+"\t5\tTYPE"+strconv.Itoa(int(t2))+"\t\\# 0", t2, t, "C05/CLASSnnn-TYPEnnn/pair", "CLASS"+n+" TYPE"+strconv.Itoa(int(t2)))
		}
	}
	// beyond the code space, or malformed: must not be accepted as some other code
	for _, bad := range []string{"65536", "99999", "4294967297", "", "-1", "+1", "1x", "0x10", " 1"} {
		reject("x.\t5\tIN\tTYPE"+bad+"\t\\# 0", "C05/TYPEnnn/out-of-range-accepted", "TYPE"+bad)
		reject("x.\t5\tCLASS"+bad+"\tA\t1.2.3.4", "C05/CLASSnnn/out-of-range-accepted", "CLASS"+bad)
	}
	// leading zeros denote the same code
	check("x.\t5\tIN\tTYPE0001\t1.2.3.4", 1, 1, "C05/TYPEnnn/leading-zeros", "TYPE0001")
	check("x.\t5\tCLASS0001\tA\t1.2.3.4", 1, 1, "C05/CLASSnnn/leading-zeros", "CLASS0001")
	// generic RDATA must agree with its length
	reject("x.\t5\tIN\tTYPE999\t\\# 2 ab", "C05/generic/length-mismatch-accepted", "\\# 2 ab")
	reject("x.\t5\tIN\tTYPE999\t\\# 1 abcd", "C05/generic/length-mismatch-accepted", "\\# 1 abcd")
	// generic RDATA split over several blanks-separated words
	check("x.\t5\tIN\tTYPE999\t\\# 4 ab cd\tef 01", 999, 1, "C05/generic/split-hex", "\\# 4 ab cd ef 01")
	if rr, err := dns.NewRR("x.\t5\tIN\tTYPE999\t\\# 4 ab cd\tef 01"); err == nil && rr != nil {
		if p, _ := packRR(rr); !bytes.HasSuffix(p, []byte{0, 4, 0xab, 0xcd, 0xef, 0x01}) {
			Viol("C05/generic/split-hex/rdata", "generic RDATA in several words is not the concatenation", violIn{Text: rr.String()})
		}
	}
}

func runC05(r *Rng, tier string, n int) {
	if os.Getenv("C05_CHILD") == "concurrent" {
		concurrentChild()
		os.Exit(0)
	}
	types := presentableTypes()
	stats["presentable_types"] = len(types)
	perClass, mixed, unk, indep := 4, 30, 120, 60
	if tier == "thorough" {
		perClass, mixed, unk, indep = 16, 1500, 5000, 3000
	}
	if n > 0 {
		mixed = n
	}
	// (1) systematic sweep: one special field at a time
	for _, t := range types {
		ds := typeDesc(t)
		for _, d := range ds {
			if strings.HasPrefix(d.Kind, "unknown") {
				Viol("C05/"+typeName(t)+"/"+d.Name+"/generator/unknown-field-kind", "the generator does not know field kind "+d.Kind, violIn{Type: typeName(t)})
			}
		}
		run := func(field string, classes []string) {
			for _, c := range classes {
				for i := 0; i < perClass; i++ {
					variant = i
					runOne(genRecord(r, t, map[string]string{field: c}, false), field, c)
				}
			}
		}
		run("Name", nameClasses)
		run("Ttl", ttlClasses)
		run("Class", classClasses)
		isSize := map[string]bool{}
		for _, d := range ds {
			if d.Size != "" {
				isSize[d.Size] = true
			}
		}
		for _, d := range ds {
			if d.Kind == "skip" || d.Kind == "opt" || isSize[d.Name] {
				continue
			}
			if d.Name == "GatewayType" {
				if t == dns.TypeAMTRELAY {
					run("GatewayType", []string{"discovery"})
				}
				continue
			}
			cl := classesFor(d.Kind)
			if t == dns.TypeLOC && (d.Name == "Latitude" || d.Name == "Longitude") {
				cl = append(append([]string{}, cl...), "msec-truncated")
			}
			if d.Kind == "octet" {
				cl = append(append([]string{}, cl...), "len256", "len300")
			}
			run(d.Name, cl)
		}
	}
	// (2) every field random
	for _, t := range types {
		for i := 0; i < mixed; i++ {
			runOne(genRecord(r, t, nil, true), "", "")
		}
	}
	// (3) unregistered types (RFC 3597 native form)
	unknownTypes(r, unk)
	// (4) records without RDATA
	noRdata(types)
	largeRdata(r)
	timeZones()
	concurrentPrinting()
	// (5) all type and class code points
	codeSweep(r, tier)
	// (6) independent reader of character-strings
	independentStrings(r, indep)
	// (7) model cases
	modelCases(r, tier)
	// (8) the mnemonic tables over the life of a private type: before registration, while registered and
	// after removal, a record that MENTIONS the type code (NSEC bitmap, RRSIG type covered, its own header)
	// prints to text that is accepted and gives the same record
	privateTypeLifeCycle()

	// keep the stat line small: fold the per-field rejection counters
	out := map[string]int{}
	rej, rawCells := 0, 0
	for k, v := range stats {
		if strings.HasPrefix(k, "generated_wire_rejected_") && k != "generated_wire_rejected_by_unpack" {
			rej++
			continue
		}
		if strings.HasPrefix(k, "raw_struct_not_reread_") {
			rawCells++
			continue
		}
		out[k] = v
	}
	out["generator_cells_rejected_by_unpack"] = rej
	out["raw_struct_cells_not_reread"] = rawCells
	Stat(out)
}

type c05Priv struct{ b []byte }

func (d *c05Priv) String() string { return hex.EncodeToString(d.b) }
func (d *c05Priv) Parse(s []string) error {
	b, err := hex.DecodeString(strings.Join(s, ""))
	d.b = b
	return err
}
func (d *c05Priv) Pack(buf []byte) (int, error) {
	if len(buf) < len(d.b) {
		return 0, dns.ErrBuf
	}
	return copy(buf, d.b), nil
}
func (d *c05Priv) Unpack(buf []byte) (int, error) {
	d.b = append([]byte(nil), buf...)
	return len(buf), nil
}
func (d *c05Priv) Copy(dst dns.PrivateRdata) error {
	dst.(*c05Priv).b = append([]byte(nil), d.b...)
	return nil
}
func (d *c05Priv) Len() int { return len(d.b) }

func privateTypeLifeCycle() {
	const code = 65346
	mention := func(phase string) {
		recs := []dns.RR{
			&dns.NSEC{Hdr: dns.RR_Header{Name: "a.example.", Rrtype: dns.TypeNSEC, Class: 1, Ttl: 5}, NextDomain: "b.example.", TypeBitMap: []uint16{1, 46, 47, code}},
			&dns.RRSIG{Hdr: dns.RR_Header{Name: "a.example.", Rrtype: dns.TypeRRSIG, Class: 1, Ttl: 5}, TypeCovered: code, Algorithm: 8, Labels: 2, OrigTtl: 5,
				Expiration: 1800000000, Inception: 1700000000, KeyTag: 7, SignerName: "example.", Signature: "AQID"},
			&dns.CSYNC{Hdr: dns.RR_Header{Name: "a.example.", Rrtype: dns.TypeCSYNC, Class: 1, Ttl: 5}, Serial: 1, Flags: 3, TypeBitMap: []uint16{1, code}},
		}
		for _, rr := range recs {
			stats["private_type_lifecycle_checked"]++
			txt := rr.String()
			back, err := dns.NewRR(txt)
			if err != nil || back == nil || back.String() != txt {
				Viol("C05/private-type/mention-not-rereadable/"+phase, fmt.Sprintf("a record mentioning type %d prints as %q, which is not read back to the same record (%v)", code, txt, err), map[string]string{"text": txt})
			}
		}
	}
	mention("before")
	// the mnemonic as the caller spells it: upper, mixed and lower case
	for _, name := range []string{"VPRIVC", "Geo", "vlower", "MiXeD9"} {
		dns.PrivateHandle(name, code, func() dns.PrivateRdata { return new(c05Priv) })
		mention("registered")
		own := dns.TypeToRR[code]()
		*own.Header() = dns.RR_Header{Name: "a.example.", Rrtype: code, Class: 1, Ttl: 5}
		own.(*dns.PrivateRR).Data.(*c05Priv).b = []byte{1, 2, 3}
		txt := own.String()
		stats["private_type_lifecycle_checked"]++
		if back, err := dns.NewRR(txt); err != nil || back == nil || back.Header().Rrtype != code || back.String() != txt {
			Viol("C05/private-type/own-record-not-rereadable", fmt.Sprintf("a record of a private type registered as %q prints as %q, which is not read back to the same record (%v)", name, txt, err), map[string]string{"text": txt})
		}
		for _, spell := range []string{name, strings.ToUpper(name), strings.ToLower(name)} {
			line := "a.example.\t5\tIN\t" + spell + "\t010203"
			if back, err := dns.NewRR(line); err != nil || back == nil || back.Header().Rrtype != code {
				Viol("C05/private-type/mnemonic-case", fmt.Sprintf("the mnemonic of a private type registered as %q is not recognised when written %q (%v)", name, spell, err), map[string]string{"text": line})
			}
		}
		dns.PrivateHandleRemove(code)
		mention("removed")
	}
	// a private type whose mnemonic is ALSO a class mnemonic: while it is registered, records of that class (and
	// of the others) must still print in a form that reads back to the same class
	for _, name := range []string{"HS", "CH", "CS", "NONE", "IN"} {
		dns.PrivateHandle(name, code, func() dns.PrivateRdata { return new(c05Priv) })
		for _, class := range []uint16{1, 2, 3, 4, 254, 255, 5} {
			for _, rr := range []dns.RR{
				&dns.TXT{Hdr: dns.RR_Header{Name: "a.example.", Rrtype: dns.TypeTXT, Class: class, Ttl: 5}, Txt: []string{"x"}},
				&dns.A{Hdr: dns.RR_Header{Name: "a.example.", Rrtype: dns.TypeA, Class: class, Ttl: 5}, A: []byte{192, 0, 2, 1}},
			} {
				stats["class_type_clash_checked"]++
				txt := rr.String()
				back, err := dns.NewRR(txt)
				if class == 255 || class == 254 && err != nil {
					continue // class ANY / NONE in text: recorded findings of their own (C05 .../class-ANY, class-NONE)
				}
				if err != nil || back == nil || back.Header().Class != class || back.Header().Rrtype != rr.Header().Rrtype {
					Viol("C05/private-type/class-mnemonic-clash", fmt.Sprintf("with a private type registered as %q a class-%d record prints as %q, which is not read back to the same record (%v)", name, class, txt, err), map[string]string{"text": txt})
				}
			}
		}
		dns.PrivateHandleRemove(code)
	}
}
