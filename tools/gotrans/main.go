// Command gotrans translates the generated and table-like parts of miekg/dns
// (zmsg.go, ztypes.go, zduplicate.go, struct definitions, constants, small
// switch tables) into Coq data (coq/theories/Gen/*.v), on every run.
//
// It accepts a closed grammar of statement shapes (the ones the code generators
// of miekg/dns emit).  Anything else is reported as
//
//	UNTRANSLATED <file> <function>: <statement>
//
// on stdout and the process exits 3; the checks treat that as a broken obligation.
// Output files are only rewritten when their content changes.
package main

import (
	"bytes"
	"flag"
	"fmt"
	"go/ast"
	"go/parser"
	"go/printer"
	"go/token"
	"os"
	"path/filepath"
	"regexp"
	"sort"
	"strconv"
	"strings"
)

var (
	repo   = flag.String("repo", "/repo", "miekg/dns source tree")
	outDir = flag.String("out", "", "output directory (coq/theories/Gen)")
	fset   = token.NewFileSet()
	untr   []string
)

func untranslated(file, fn, what string) {
	untr = append(untr, fmt.Sprintf("UNTRANSLATED %s %s: %s", file, fn, strings.ReplaceAll(what, "\n", " ")))
}

func parseFile(name string) *ast.File {
	f, err := parser.ParseFile(fset, filepath.Join(*repo, name), nil, parser.ParseComments)
	if err != nil {
		fmt.Fprintln(os.Stderr, "gotrans: parse", name, err)
		os.Exit(1)
	}
	return f
}

func src(n any) string {
	var b bytes.Buffer
	printer.Fprint(&b, fset, n)
	return b.String()
}

func coqStr(s string) string { return `"` + strings.ReplaceAll(s, `"`, `""`) + `"` }
func coqBool(b bool) string {
	if b {
		return "true"
	}
	return "false"
}

func writeIfChanged(name, content string) {
	p := filepath.Join(*outDir, name)
	old, err := os.ReadFile(p)
	if err == nil && string(old) == content {
		return
	}
	if err := os.WriteFile(p, []byte(content), 0o644); err != nil {
		fmt.Fprintln(os.Stderr, "gotrans:", err)
		os.Exit(1)
	}
}

// methods returns rr-type -> body for methods named `name` in file f.
type method struct {
	typ  string
	decl *ast.FuncDecl
}

func methods(f *ast.File, name string) []method {
	var ms []method
	for _, d := range f.Decls {
		fd, ok := d.(*ast.FuncDecl)
		if !ok || fd.Recv == nil || fd.Name.Name != name || len(fd.Recv.List) != 1 {
			continue
		}
		t := fd.Recv.List[0].Type
		if st, ok := t.(*ast.StarExpr); ok {
			t = st.X
		}
		id, ok := t.(*ast.Ident)
		if !ok {
			continue
		}
		ms = append(ms, method{id.Name, fd})
	}
	sort.Slice(ms, func(i, j int) bool { return ms[i].typ < ms[j].typ })
	return ms
}

// ---------------------------------------------------------------------------
// zmsg.go
// ---------------------------------------------------------------------------
var (
	rePack     = regexp.MustCompile(`^off, err = (\w+)\((.*)\)$`)
	reUnpack   = regexp.MustCompile(`^rr\.(\w+), off, err = (\w+)\((.*)\)$`)
	reUnpack2  = regexp.MustCompile(`^rr\.(\w+), rr\.(\w+), off, err = (\w+)\((.*)\)$`)
	reErrRet   = regexp.MustCompile(`^if err != nil \{\s*return off, (err|fmt\.Errorf\(.*\))\s*\}$`)
	reExit     = regexp.MustCompile(`^if off == len\(msg\) \{\s*return off, nil\s*\}$`)
	reSaltGuard = regexp.MustCompile(`(?s)^if rr\.(\w+) != "-" \{\s*off, err = packStringHex\(rr\.(\w+), msg, off\)\s*if err != nil \{\s*return off, err\s*\}\s*\}$`)
	reSizedEnd = regexp.MustCompile(`^off\+int\(rr\.(\w+)\)$`)
)

func splitArgs(s string) []string {
	var out []string
	depth, start := 0, 0
	for i, c := range s {
		switch c {
		case '(':
			depth++
		case ')':
			depth--
		case ',':
			if depth == 0 {
				out = append(out, strings.TrimSpace(s[start:i]))
				start = i + 1
			}
		}
	}
	if strings.TrimSpace(s[start:]) != "" {
		out = append(out, strings.TrimSpace(s[start:]))
	}
	return out
}

func fendOf(e string) (string, bool) {
	if e == "rdStart+int(rr.Hdr.Rdlength)" {
		return "ToEnd", true
	}
	if m := reSizedEnd.FindStringSubmatch(e); m != nil {
		return "(SizedBy " + coqStr(m[1]) + ")", true
	}
	return "", false
}

// maskedField reads rr.F or rr.F&0x7f / rr.F & 0x7f; the mask is 255 when absent.
var reMasked = regexp.MustCompile(`^rr?1?\.(\w+)\s*&\s*(0x[0-9a-fA-F]+|\d+)$`)

func maskedField(e string) (field, mask string, ok bool) {
	if m := reMasked.FindStringSubmatch(e); m != nil {
		v, err := strconv.ParseInt(m[2], 0, 64)
		return m[1], strconv.FormatInt(v, 10), err == nil
	}
	if strings.HasPrefix(e, "rr.") && !strings.ContainsAny(e[3:], ".([& ") {
		return e[3:], "255", true
	}
	if strings.HasPrefix(e, "r1.") && !strings.ContainsAny(e[3:], ".([& ") {
		return e[3:], "255", true
	}
	return "", "", false
}

func compressFlag(e string) (string, bool) {
	switch e {
	case "compress":
		return "true", true
	case "false":
		return "false", true
	}
	return "", false
}

var simpleKinds = map[string]string{
	"Uint8": "K_u8", "Uint16": "K_u16", "Uint32": "K_u32", "Uint48": "K_u48", "Uint64": "K_u64",
	"String": "K_string", "StringTxt": "K_txt", "StringOctet": "K_octet", "StringAny": "K_any",
	"DataA": "K_a", "DataAAAA": "K_aaaa", "DataNsec": "K_nsec", "DataOpt": "K_opt", "DataSVCB": "K_svcb", "DataApl": "K_apl",
}

// kindOfPack translates one pack call; returns field name and kind.
func kindOfPack(fn string, args []string) (field, kind string, ok bool) {
	fieldOf := func(a string) (string, bool) {
		if strings.HasPrefix(a, "rr.") && !strings.ContainsAny(a[3:], ".([") {
			return a[3:], true
		}
		return "", false
	}
	switch {
	case fn == "packDomainName" && len(args) == 5 && args[1] == "msg" && args[2] == "off" && args[3] == "compression":
		f, ok1 := fieldOf(args[0])
		c, ok2 := compressFlag(args[4])
		return f, "(K_name " + c + ")", ok1 && ok2
	case fn == "packDataDomainNames" && len(args) == 5 && args[1] == "msg" && args[2] == "off" && args[3] == "compression":
		f, ok1 := fieldOf(args[0])
		c, ok2 := compressFlag(args[4])
		return f, "(K_names " + c + ")", ok1 && ok2
	case fn == "packIPSECGateway" && len(args) == 7 && args[2] == "msg" && args[3] == "off" && args[5] == "compression":
		a, ok1 := fieldOf(args[0])
		h, ok2 := fieldOf(args[1])
		t, mask, ok3 := maskedField(args[4])
		c, ok4 := compressFlag(args[6])
		return h, "(K_gateway " + coqStr(t) + " " + coqStr(a) + " " + coqStr(h) + " " + mask + " " + c + ")", ok1 && ok2 && ok3 && ok4
	case strings.HasPrefix(fn, "pack") && len(args) == 3 && args[1] == "msg" && args[2] == "off":
		f, ok1 := fieldOf(args[0])
		base := strings.TrimPrefix(fn, "pack")
		if k, ok := simpleKinds[base]; ok {
			return f, k, ok1
		}
		switch base {
		case "StringHex":
			return f, "K_hex", ok1 // the end marker comes from the unpack side
		case "StringBase64":
			return f, "K_b64", ok1
		case "StringBase32":
			return f, "K_b32", ok1
		}
	}
	return "", "", false
}

func kindOfUnpack(fn string, args []string) (kind string, ok bool) {
	switch {
	case fn == "UnpackDomainName" && len(args) == 2 && args[0] == "msg" && args[1] == "off":
		return "(K_name false)", true // the compress flag is a pack-side notion; filled in from the pack side
	case fn == "unpackDataDomainNames" && len(args) == 3 && args[0] == "msg" && args[1] == "off" && args[2] == "rdStart+int(rr.Hdr.Rdlength)":
		return "(K_names false)", true
	case strings.HasPrefix(fn, "unpack") && len(args) == 2 && args[0] == "msg" && args[1] == "off":
		if k, ok := simpleKinds[strings.TrimPrefix(fn, "unpack")]; ok {
			return k, true
		}
	case strings.HasPrefix(fn, "unpack") && len(args) == 3 && args[0] == "msg" && args[1] == "off":
		e, ok := fendOf(args[2])
		if !ok {
			return "", false
		}
		switch strings.TrimPrefix(fn, "unpack") {
		case "StringHex":
			return "(K_hex " + e + ")", true
		case "StringBase64":
			return "(K_b64 " + e + ")", true
		case "StringBase32":
			return "(K_b32 " + e + ")", true
		case "StringAny":
			if e == "ToEnd" {
				return "K_any", true
			}
		}
	}
	return "", false
}

type pf struct{ name, kind string }
type uf struct {
	name, kind string
	exit       bool
}

func transZmsg() (packs map[string][]pf, unpacks map[string][]uf, order []string) {
	f := parseFile("zmsg.go")
	packs = map[string][]pf{}
	unpacks = map[string][]uf{}
	for _, m := range methods(f, "pack") {
		var fields []pf
		stmts := m.decl.Body.List
		for i := 0; i < len(stmts); i++ {
			s := src(stmts[i])
			if s == "return off, nil" {
				continue
			}
			dash := false
			if g := reSaltGuard.FindStringSubmatch(s); g != nil && g[1] == g[2] {
				s = "off, err = packStringHex(rr." + g[1] + ", msg, off)"
				dash = true
			}
			mm := rePack.FindStringSubmatch(s)
			if mm == nil {
				untranslated("zmsg.go", m.typ+".pack", s)
				continue
			}
			name, kind, ok := kindOfPack(mm[1], splitArgs(mm[2]))
			if dash {
				kind = "K_hexdash"
				fields = append(fields, pf{name, kind})
				continue
			}
			if !ok {
				untranslated("zmsg.go", m.typ+".pack", s)
				continue
			}
			// must be followed by the error return
			if i+1 >= len(stmts) || !reErrRet.MatchString(src(stmts[i+1])) {
				untranslated("zmsg.go", m.typ+".pack", "missing error check after: "+s)
			} else {
				i++
			}
			fields = append(fields, pf{name, kind})
		}
		packs[m.typ] = fields
		order = append(order, m.typ)
	}
	for _, m := range methods(f, "unpack") {
		var fields []uf
		stmts := m.decl.Body.List
		for i := 0; i < len(stmts); i++ {
			s := src(stmts[i])
			if s == "rdStart := off" || s == "_ = rdStart" || s == "return off, nil" {
				continue
			}
			if reExit.MatchString(s) && len(fields) > 0 && fields[len(fields)-1].exit {
				continue // a second early exit directly after one: no effect
			}
			var name, kind string
			ok := false
			if mm := reUnpack2.FindStringSubmatch(s); mm != nil && mm[3] == "unpackIPSECGateway" {
				a := splitArgs(mm[4])
				if len(a) == 3 && a[0] == "msg" && a[1] == "off" {
					if tf, mask, ok3 := maskedField(a[2]); ok3 {
						name = mm[2]
						kind = "(K_gateway " + coqStr(tf) + " " + coqStr(mm[1]) + " " + coqStr(mm[2]) + " " + mask + " false)"
						ok = true
					}
				}
			} else if mm := reUnpack.FindStringSubmatch(s); mm != nil {
				name = mm[1]
				kind, ok = kindOfUnpack(mm[2], splitArgs(mm[3]))
			}
			if !ok {
				untranslated("zmsg.go", m.typ+".unpack", s)
				continue
			}
			if i+1 >= len(stmts) || !reErrRet.MatchString(src(stmts[i+1])) {
				untranslated("zmsg.go", m.typ+".unpack", "missing error check after: "+s)
			} else {
				i++
			}
			exit := false
			if i+1 < len(stmts) && reExit.MatchString(src(stmts[i+1])) {
				exit = true
				i++
			}
			fields = append(fields, uf{name, kind, exit})
		}
		unpacks[m.typ] = fields
	}
	return
}

// ---------------------------------------------------------------------------
// ztypes.go: len(), copy(), TypeToRR, TypeToString, ClassToString (types.go)
// ---------------------------------------------------------------------------
var (
	reLenConst   = regexp.MustCompile(`^l \+= (\d+)$`)
	reLenStr1    = regexp.MustCompile(`^l \+= len\(rr\.(\w+)\) \+ 1$`)
	reLenLen     = regexp.MustCompile(`^l \+= len\(rr\.(\w+)\)$`)
	reLenHalf    = regexp.MustCompile(`^l \+= len\(rr\.(\w+)\) / 2$`)
	reLenB64     = regexp.MustCompile(`^l \+= base64\.StdEncoding\.DecodedLen\(len\(rr\.(\w+)\)\)$`)
	reLenB32     = regexp.MustCompile(`^l \+= base32HexNoPadEncoding\.DecodedLen\(len\(rr\.(\w+)\)\)$`)
	reLenName    = regexp.MustCompile(`^l \+= domainNameLen\(rr\.(\w+), off\+l, compression, (true|false)\)$`)
	reLenNsec    = regexp.MustCompile(`^l \+= typeBitMapLen\(rr\.(\w+)\)$`)
	reLenFor     = regexp.MustCompile(`(?s)^for _, x := range rr\.(\w+) \{\s*(.*?)\s*\}$`)
	reLenIf      = regexp.MustCompile(`(?s)^if len\(rr\.(\w+)\) != 0 \{\s*l \+= net\.IPv(4|6)len\s*\}$`)
	reLenSwitch  = regexp.MustCompile(`(?s)^switch (rr\.\w+(?: & \w+)?) \{\s*case (\w+):\s*l \+= net\.IPv4len\s*case (\w+):\s*l \+= net\.IPv6len\s*case (\w+):\s*l \+= len\(rr\.(\w+)\) \+ 1\s*\}$`)
	reLenForName = regexp.MustCompile(`^l \+= domainNameLen\(x, off\+l, compression, (true|false)\)$`)
)

// sumTerms translates `l += a + b + ...` where every summand is a literal,
// len(rr.X) or len(rr.X)/2 (hand-written len methods in types.go).
func sumTerms(typ, e string, tags map[string]string) ([]string, bool) {
	var out []string
	for _, t := range strings.Split(e, " + ") {
		t = strings.TrimSpace(t)
		switch {
		case regexp.MustCompile(`^\d+$`).MatchString(t):
			out = append(out, "L_const "+t)
		case regexp.MustCompile(`^len\(rr\.(\w+)\)/2$`).MatchString(t):
			out = append(out, "L_half "+coqStr(regexp.MustCompile(`^len\(rr\.(\w+)\)/2$`).FindStringSubmatch(t)[1]))
		case regexp.MustCompile(`^len\(rr\.(\w+)\)$`).MatchString(t):
			f := regexp.MustCompile(`^len\(rr\.(\w+)\)$`).FindStringSubmatch(t)[1]
			if strings.Contains(tags[f], "base32") {
				out = append(out, "L_b32text "+coqStr(f))
			} else {
				out = append(out, "L_len "+coqStr(f))
			}
		default:
			return nil, false
		}
	}
	return out, true
}

func transLens(consts map[string]int64, structs map[string][]sfield) (lens map[string][]string) {
	lens = map[string][]string{}
	var ms []method
	for _, fn := range []string{"ztypes.go", "types.go"} {
		ms = append(ms, methods(parseFile(fn), "len")...)
	}
	reSum := regexp.MustCompile(`^l \+= (.* \+ .*)$`)
	for _, m := range ms {
		if len(m.decl.Type.Params.List) != 2 {
			continue // APLPrefix.len() and friends: not RR.len(off, compression)
		}
		if m.typ == "Question" {
			continue // written by hand in the model (no RR header)
		}
		tags := map[string]string{}
		for _, sf := range structs[m.typ] {
			tags[sf.name] = sf.tag
		}
		var terms []string
		for _, st := range m.decl.Body.List {
			s := src(st)
			switch {
			case s == "l := rr.Hdr.len(off, compression)" || s == "return l":
			case s == "l++":
				terms = append(terms, "L_const 1")
			case reLenConst.MatchString(s):
				terms = append(terms, "L_const "+reLenConst.FindStringSubmatch(s)[1])
			case reLenStr1.MatchString(s):
				terms = append(terms, "L_strlen1 "+coqStr(reLenStr1.FindStringSubmatch(s)[1]))
			case reSum.MatchString(s) && !reLenStr1.MatchString(s):
				ts, ok := sumTerms(m.typ, reSum.FindStringSubmatch(s)[1], tags)
				if !ok {
					untranslated("types.go", m.typ+".len", s)
					continue
				}
				terms = append(terms, ts...)
			case reLenLen.MatchString(s):
				terms = append(terms, "L_len "+coqStr(reLenLen.FindStringSubmatch(s)[1]))
			case reLenHalf.MatchString(s):
				terms = append(terms, "L_half "+coqStr(reLenHalf.FindStringSubmatch(s)[1]))
			case reLenB64.MatchString(s):
				terms = append(terms, "L_b64 "+coqStr(reLenB64.FindStringSubmatch(s)[1]))
			case reLenB32.MatchString(s):
				terms = append(terms, "L_b32 "+coqStr(reLenB32.FindStringSubmatch(s)[1]))
			case reLenName.MatchString(s):
				mm := reLenName.FindStringSubmatch(s)
				terms = append(terms, "L_name "+coqStr(mm[1])+" "+mm[2])
			case reLenNsec.MatchString(s):
				terms = append(terms, "L_nsec "+coqStr(reLenNsec.FindStringSubmatch(s)[1]))
			case reLenIf.MatchString(s):
				mm := reLenIf.FindStringSubmatch(s)
				n := "4"
				if mm[2] == "6" {
					n = "16"
				}
				terms = append(terms, "L_ifnonempty "+coqStr(mm[1])+" "+n)
			case reLenSwitch.MatchString(s):
				mm := reLenSwitch.FindStringSubmatch(s)
				v4, ok1 := consts[mm[2]]
				v6, ok2 := consts[mm[3]]
				h, ok3 := consts[mm[4]]
				if !ok1 || !ok2 || !ok3 {
					untranslated("ztypes.go", m.typ+".len", s)
					continue
				}
				tf, mask, okm := maskedField(mm[1])
				if !okm {
					untranslated("ztypes.go", m.typ+".len", s)
					continue
				}
				terms = append(terms, fmt.Sprintf("L_gateway %s %s %s %d %d %d", coqStr(tf), mask, coqStr(mm[5]), v4, v6, h))
			case reLenFor.MatchString(s):
				mm := reLenFor.FindStringSubmatch(s)
				body := strings.TrimSpace(mm[2])
				switch {
				case body == "l += len(x) + 1":
					terms = append(terms, "L_txts "+coqStr(mm[1]))
				case body == "l += x.len()":
					terms = append(terms, "L_elems_len "+coqStr(mm[1]))
				case body == "l += 4 + int(x.len())":
					terms = append(terms, "L_pairs "+coqStr(mm[1]))
				case reLenForName.MatchString(body):
					terms = append(terms, "L_names "+coqStr(mm[1])+" "+reLenForName.FindStringSubmatch(body)[1])
				default:
					untranslated("ztypes.go", m.typ+".len", s)
				}
			default:
				untranslated("ztypes.go", m.typ+".len", s)
			}
		}
		lens[m.typ] = terms
	}
	return
}

// copy(): composite literal of the receiver type; each element is rr.F,
// cloneSlice(rr.F), a local built by make + e.copy(), or *rr.T.copy().(*T)
var (
	reCopyMake = regexp.MustCompile(`^(\w+) := make\(\[\]([\w.]+), len\(rr\.(\w+)\)\)$`)
	reCopyFor  = regexp.MustCompile(`(?s)^for i, e := range rr\.(\w+) \{\s*(\w+)\[i\] = e\.copy\(\)\s*\}$`)
	reCopyForClone = regexp.MustCompile(`(?s)^for i, \w+ := range rr\.(\w+) \{\s*(\w+)\[i\] = cloneSlice\(\w+\)\s*\}$`)
	reDeepFn       = regexp.MustCompile(`^(\w+)\(rr\.(\w+)\)$`)
	reEmbedded = regexp.MustCompile(`^\*rr\.(\w+)\.copy\(\)\.\(\*(\w+)\)$`)
)

func transCopyBody(file, typ, recv string, body *ast.BlockStmt, structFields []string) (acts []string) {
	locals := map[string]string{} // local -> source field, once the copy loop was seen
	cloned := map[string]string{} // local -> source field, elements cloned with cloneSlice
	pending := map[string]string{}
	reRecv := regexp.MustCompile(`\b` + regexp.QuoteMeta(recv) + `\.`)
	norm := func(x string) string {
		if recv == "rr" || recv == "" {
			return x
		}
		return reRecv.ReplaceAllString(x, "rr.")
	}
	for _, st := range body.List {
		s := norm(src(st))
		if mm := reCopyMake.FindStringSubmatch(s); mm != nil {
			pending[mm[1]] = mm[3]
			continue
		}
		if mm := reCopyFor.FindStringSubmatch(s); mm != nil {
			if pending[mm[2]] == mm[1] {
				locals[mm[2]] = mm[1]
			} else {
				untranslated(file, typ+".copy", s)
			}
			continue
		}
		if mm := reCopyForClone.FindStringSubmatch(s); mm != nil {
			if pending[mm[2]] == mm[1] {
				cloned[mm[2]] = mm[1]
			} else {
				untranslated(file, typ+".copy", s)
			}
			continue
		}
		ret, ok := st.(*ast.ReturnStmt)
		if !ok || len(ret.Results) != 1 {
			untranslated(file, typ+".copy", s)
			continue
		}
		e := ret.Results[0]
		if u, ok := e.(*ast.UnaryExpr); ok && u.Op == token.AND {
			e = u.X
		}
		cl, ok := e.(*ast.CompositeLit)
		if !ok {
			untranslated(file, typ+".copy", s)
			continue
		}
		for i, el := range cl.Elts {
			name := ""
			val := el
			if kv, ok := el.(*ast.KeyValueExpr); ok {
				name = src(kv.Key)
				val = kv.Value
			} else if i < len(structFields) {
				name = structFields[i]
			}
			v := norm(src(val))
			switch {
			case cloned[v] == name && name != "":
				acts = append(acts, "("+coqStr(name)+", C_clone_each)")
			case reDeepFn.MatchString(v) && reDeepFn.FindStringSubmatch(v)[2] == name && reDeepFn.FindStringSubmatch(v)[1] != "cloneSlice":
				acts = append(acts, "("+coqStr(name)+", C_deep_fn "+coqStr(reDeepFn.FindStringSubmatch(v)[1])+")")
			case v == "rr."+name:
				acts = append(acts, "("+coqStr(name)+", C_share)")
			case v == "cloneSlice(rr."+name+")":
				acts = append(acts, "("+coqStr(name)+", C_clone)")
			case locals[v] == name && name != "":
				acts = append(acts, "("+coqStr(name)+", C_copy_each)")
			case reEmbedded.MatchString(v):
				mm := reEmbedded.FindStringSubmatch(v)
				acts = append(acts, "("+coqStr(name)+", C_embedded "+coqStr(mm[2])+")")
			default:
				acts = append(acts, "("+coqStr(name)+", C_other "+coqStr(v)+")")
			}
		}
	}
	return
}

// ---------------------------------------------------------------------------
// struct definitions
// ---------------------------------------------------------------------------
type sfield struct{ name, gotype, tag string }

func goTypeClass(t string) string {
	switch t {
	case "uint8", "uint16", "uint32", "uint64", "int", "bool", "string", "Name", "SVCBKey", "int64", "uint", "byte":
		return "G_scalar"
	case "[]byte", "net.IP", "[]uint16", "[]string", "[]uint8", "[]SVCBKey", "[]uint32":
		return "G_slice_scalar"
	case "[]net.IP":
		return "G_slice_slices"
	case "[]EDNS0", "[]SVCBKeyValue", "[]APLPrefix":
		return "G_slice_iface " + coqStr(t[2:])
	case "RR_Header":
		return "G_header"
	case "net.IPNet":
		return "G_struct " + coqStr(t)
	}
	return "G_unknown " + coqStr(t)
}

func structsOf(files []string) (map[string][]sfield, []string) {
	res := map[string][]sfield{}
	var order []string
	for _, fn := range files {
		f := parseFile(fn)
		for _, d := range f.Decls {
			gd, ok := d.(*ast.GenDecl)
			if !ok || gd.Tok != token.TYPE {
				continue
			}
			for _, sp := range gd.Specs {
				ts := sp.(*ast.TypeSpec)
				st, ok := ts.Type.(*ast.StructType)
				if !ok {
					continue
				}
				var fs []sfield
				for _, fl := range st.Fields.List {
					t := src(fl.Type)
					tag := ""
					if fl.Tag != nil {
						tv, _ := strconv.Unquote(fl.Tag.Value)
						if i := strings.Index(tv, `dns:"`); i >= 0 {
							tag = tv[i+5:]
							tag = tag[:strings.Index(tag, `"`)]
						}
					}
					if len(fl.Names) == 0 { // embedded
						fs = append(fs, sfield{t, "G_embedded " + coqStr(t), tag})
						continue
					}
					for _, n := range fl.Names {
						fs = append(fs, sfield{n.Name, goTypeClass(t), tag})
					}
				}
				res[ts.Name.Name] = fs
				order = append(order, ts.Name.Name)
			}
		}
	}
	sort.Strings(order)
	return res, order
}

// ---------------------------------------------------------------------------
// zduplicate.go
// ---------------------------------------------------------------------------
var (
	reDupEq      = regexp.MustCompile(`(?s)^if r1\.(\w+) != r2\.(\w+) \{\s*return false\s*\}$`)
	reDupName    = regexp.MustCompile(`(?s)^if !isDuplicateName\(r1\.(\w+), r2\.(\w+)\) \{\s*return false\s*\}$`)
	reDupLen     = regexp.MustCompile(`(?s)^if len\(r1\.(\w+)\) != len\(r2\.(\w+)\) \{\s*return false\s*\}$`)
	reDupFor     = regexp.MustCompile(`(?s)^for i := 0; i < len\(r1\.(\w+)\); i\+\+ \{\s*if (.*?) \{\s*return false\s*\}\s*\}$`)
	reDupIP      = regexp.MustCompile(`(?s)^if !r1\.(\w+)\.Equal\(r2\.(\w+)\) \{\s*return false\s*\}$`)
	reDupPairs   = regexp.MustCompile(`(?s)^if !areSVCBPairArraysEqual\(r1\.(\w+), r2\.(\w+)\) \{\s*return false\s*\}$`)
	reDupGateway = regexp.MustCompile(`(?s)^switch (r1\.\w+(?: & \w+)?) \{\s*case IPSECGatewayIPv4, IPSECGatewayIPv6:\s*if !r1\.(\w+)\.Equal\(r2\.(\w+)\) \{\s*return false\s*\}\s*case IPSECGatewayHost:\s*if !isDuplicateName\(r1\.(\w+), r2\.(\w+)\) \{\s*return false\s*\}\s*\}$`)
	reDupCast    = regexp.MustCompile(`^r2, ok := _r2\.\(\*(\w+)\)$`)
	reDupEmb     = regexp.MustCompile(`^return r1\.(\w+)\.isDuplicate\(&r2\.(\w+)\)$`)
)

func transDupBody(file, typ string, body *ast.BlockStmt) (cmps []string) {
	for _, st := range body.List {
		s := src(st)
		same := func(a, b string) bool { return a == b }
		switch {
		case reDupCast.MatchString(s) || s == "_ = r2":
		case strings.HasPrefix(s, "if !ok {"):
		case s == "return true":
			cmps = append(cmps, "D_const true")
		case s == "return false":
			cmps = append(cmps, "D_const false")
		case reDupEq.MatchString(s):
			m := reDupEq.FindStringSubmatch(s)
			if !same(m[1], m[2]) {
				untranslated(file, typ+".isDuplicate", s)
			}
			cmps = append(cmps, "D_eq "+coqStr(m[1]))
		case reDupName.MatchString(s):
			m := reDupName.FindStringSubmatch(s)
			if !same(m[1], m[2]) {
				untranslated(file, typ+".isDuplicate", s)
			}
			cmps = append(cmps, "D_name "+coqStr(m[1]))
		case reDupLen.MatchString(s):
			m := reDupLen.FindStringSubmatch(s)
			if !same(m[1], m[2]) {
				untranslated(file, typ+".isDuplicate", s)
			}
			cmps = append(cmps, "D_len_eq "+coqStr(m[1]))
		case reDupIP.MatchString(s):
			m := reDupIP.FindStringSubmatch(s)
			if !same(m[1], m[2]) {
				untranslated(file, typ+".isDuplicate", s)
			}
			cmps = append(cmps, "D_ip_equal "+coqStr(m[1]))
		case reDupPairs.MatchString(s):
			m := reDupPairs.FindStringSubmatch(s)
			if !same(m[1], m[2]) {
				untranslated(file, typ+".isDuplicate", s)
			}
			cmps = append(cmps, "D_pairs "+coqStr(m[1]))
		case reDupGateway.MatchString(s):
			m := reDupGateway.FindStringSubmatch(s)
			if !same(m[2], m[3]) || !same(m[4], m[5]) {
				untranslated(file, typ+".isDuplicate", s)
			}
			tf, mask, okm := maskedField(m[1])
			if !okm {
				untranslated(file, typ+".isDuplicate", s)
			}
			cmps = append(cmps, "D_gateway "+coqStr(tf)+" "+mask+" "+coqStr(m[2])+" "+coqStr(m[4]))
		case reDupFor.MatchString(s):
			m := reDupFor.FindStringSubmatch(s)
			f := m[1]
			cond := strings.TrimSpace(m[2])
			switch cond {
			case "r1." + f + "[i] != r2." + f + "[i]":
				cmps = append(cmps, "D_each_eq "+coqStr(f))
			case "!isDuplicateName(r1." + f + "[i], r2." + f + "[i])":
				cmps = append(cmps, "D_each_name "+coqStr(f))
			case "!r1." + f + "[i].equals(&r2." + f + "[i])":
				cmps = append(cmps, "D_each_equals "+coqStr(f))
			default:
				untranslated(file, typ+".isDuplicate", s)
			}
		case reDupEmb.MatchString(s):
			m := reDupEmb.FindStringSubmatch(s)
			cmps = append(cmps, "D_embedded "+coqStr(m[1]))
		default:
			cmps = append(cmps, "D_other "+coqStr(s))
		}
	}
	return
}

// ---------------------------------------------------------------------------
// constants and small tables
// ---------------------------------------------------------------------------
func evalConst(e ast.Expr, env map[string]int64) (int64, bool) {
	switch x := e.(type) {
	case *ast.BasicLit:
		switch x.Kind {
		case token.INT:
			v, err := strconv.ParseInt(x.Value, 0, 64)
			return v, err == nil
		case token.CHAR:
			s, err := strconv.Unquote(x.Value)
			if err != nil || len(s) == 0 {
				return 0, false
			}
			return int64([]rune(s)[0]), true
		}
	case *ast.Ident:
		v, ok := env[x.Name]
		return v, ok
	case *ast.ParenExpr:
		return evalConst(x.X, env)
	case *ast.CallExpr: // conversions like uint16(3)
		if len(x.Args) == 1 {
			return evalConst(x.Args[0], env)
		}
	case *ast.BinaryExpr:
		a, ok1 := evalConst(x.X, env)
		b, ok2 := evalConst(x.Y, env)
		if !ok1 || !ok2 {
			return 0, false
		}
		switch x.Op {
		case token.ADD:
			return a + b, true
		case token.SUB:
			return a - b, true
		case token.MUL:
			return a * b, true
		case token.QUO:
			if b == 0 {
				return 0, false
			}
			return a / b, true
		case token.SHL:
			return a << uint(b), true
		case token.SHR:
			return a >> uint(b), true
		case token.OR:
			return a | b, true
		}
	}
	return 0, false
}

func constsOf(files []string) map[string]int64 {
	env := map[string]int64{}
	for _, fn := range files {
		f := parseFile(fn)
		for _, d := range f.Decls {
			gd, ok := d.(*ast.GenDecl)
			if !ok || gd.Tok != token.CONST {
				continue
			}
			var lastExpr ast.Expr
			iota := int64(0)
			for _, sp := range gd.Specs {
				vs := sp.(*ast.ValueSpec)
				for i, n := range vs.Names {
					var e ast.Expr
					if i < len(vs.Values) {
						e = vs.Values[i]
						lastExpr = e
					} else {
						e = lastExpr
					}
					if e != nil {
						env["iota"] = iota
						if v, ok := evalConst(e, env); ok {
							env[n.Name] = v
						}
					}
				}
				iota++
			}
		}
	}
	delete(env, "iota")
	return env
}

// mapLiteral returns key-expression -> value-expression source of a package-level `var name = map[..]..{..}`.
func mapLiteral(files []string, name string) [][2]ast.Expr {
	for _, fn := range files {
		f := parseFile(fn)
		for _, d := range f.Decls {
			gd, ok := d.(*ast.GenDecl)
			if !ok || gd.Tok != token.VAR {
				continue
			}
			for _, sp := range gd.Specs {
				vs := sp.(*ast.ValueSpec)
				for i, n := range vs.Names {
					if n.Name != name || i >= len(vs.Values) {
						continue
					}
					cl, ok := vs.Values[i].(*ast.CompositeLit)
					if !ok {
						continue
					}
					var out [][2]ast.Expr
					for _, el := range cl.Elts {
						kv := el.(*ast.KeyValueExpr)
						out = append(out, [2]ast.Expr{kv.Key, kv.Value})
					}
					return out
				}
			}
		}
	}
	return nil
}

// caseChars returns the byte values of `switch b { case 'x', ...: return true }` in function fn.
func switchChars(file, fn string) []int64 {
	f := parseFile(file)
	var out []int64
	for _, d := range f.Decls {
		fd, ok := d.(*ast.FuncDecl)
		if !ok || fd.Name.Name != fn {
			continue
		}
		ast.Inspect(fd, func(n ast.Node) bool {
			cc, ok := n.(*ast.CaseClause)
			if !ok {
				return true
			}
			if len(cc.Body) == 1 && src(cc.Body[0]) == "return true" {
				for _, e := range cc.List {
					if v, ok := evalConst(e, nil); ok {
						out = append(out, v)
					} else {
						untranslated(file, fn, src(e))
					}
				}
			}
			return true
		})
	}
	sort.Slice(out, func(i, j int) bool { return out[i] < out[j] })
	return out
}

func main() {
	flag.Parse()
	if *outDir == "" {
		fmt.Fprintln(os.Stderr, "usage: gotrans -repo /repo -out <dir>")
		os.Exit(2)
	}
	os.MkdirAll(*outDir, 0o755)
	hdr := "(* GENERATED by tools/gotrans from /repo on every run — do not edit. *)\nFrom Dns Require Import Model.Tables.\nLocal Open Scope N_scope.\nLocal Open Scope string_scope.\n\n"

	consts := constsOf([]string{"types.go", "msg.go", "edns.go", "svcb.go", "dns.go", "dnssec.go", "tsig.go", "scan.go", "xfr.go", "server.go", "client.go"})

	// --- Consts.v
	var b strings.Builder
	b.WriteString(hdr)
	for _, n := range []string{"maxCompressionOffset", "maxDomainNameWireOctets", "maxCompressionPointers", "headerSize",
		"maxDomainNamePresentationLength", "_QR", "_AA", "_TC", "_RD", "_RA", "_Z", "_AD", "_CD", "MinMsgSize", "MaxMsgSize", "DefaultMsgSize",
		"IPSECGatewayNone", "IPSECGatewayIPv4", "IPSECGatewayIPv6", "IPSECGatewayHost",
		"AMTRELAYNone", "AMTRELAYIPv4", "AMTRELAYIPv6", "AMTRELAYHost", "TypeOPT", "TypeTSIG", "TypeSOA", "TypeNone", "ClassINET", "ClassANY", "ClassNONE"} {
		v, ok := consts[n]
		if !ok {
			untranslated("consts", n, "constant not found or not evaluable")
			continue
		}
		fmt.Fprintf(&b, "Definition c_%s : N := %d.\n", strings.TrimPrefix(n, "_"), v)
	}
	sp := switchChars("types.go", "isDomainNameLabelSpecial")
	b.WriteString("Definition c_label_special : list N := [")
	for i, v := range sp {
		if i > 0 {
			b.WriteString("; ")
		}
		fmt.Fprintf(&b, "%d", v)
	}
	b.WriteString("].\n")
	writeIfChanged("Consts.v", b.String())

	// --- Registry.v: type codes, mnemonics, TypeToRR
	all := []string{"types.go", "ztypes.go", "msg.go", "edns.go", "svcb.go", "dnssec.go", "tsig.go", "dns.go", "privaterr.go"}
	b.Reset()
	b.WriteString(hdr)
	emitMap := func(coqName, goName string, val func(e ast.Expr) (string, bool)) {
		kvs := mapLiteral(all, goName)
		if kvs == nil {
			untranslated("registry", goName, "map literal not found")
		}
		type row struct {
			k int64
			v string
		}
		var rows []row
		for _, kv := range kvs {
			k, ok1 := evalConst(kv[0], consts)
			v, ok2 := val(kv[1])
			if !ok1 || !ok2 {
				untranslated("registry", goName, src(kv[0])+": "+src(kv[1]))
				continue
			}
			rows = append(rows, row{k, v})
		}
		sort.Slice(rows, func(i, j int) bool { return rows[i].k < rows[j].k })
		fmt.Fprintf(&b, "Definition %s : list (N * string) := [\n", coqName)
		for i, r := range rows {
			sep := ";"
			if i == len(rows)-1 {
				sep = ""
			}
			fmt.Fprintf(&b, "  (%d, %s)%s\n", r.k, coqStr(r.v), sep)
		}
		b.WriteString("].\n")
	}
	strVal := func(e ast.Expr) (string, bool) {
		bl, ok := e.(*ast.BasicLit)
		if !ok || bl.Kind != token.STRING {
			return "", false
		}
		s, err := strconv.Unquote(bl.Value)
		return s, err == nil
	}
	reNew := regexp.MustCompile(`^func\(\) RR \{\s*return new\((\w+)\)\s*\}$`)
	newVal := func(e ast.Expr) (string, bool) {
		m := reNew.FindStringSubmatch(src(e))
		if m == nil {
			return "", false
		}
		return m[1], true
	}
	emitMap("type_to_string", "TypeToString", strVal)
	emitMap("class_to_string", "ClassToString", strVal)
	emitMap("opcode_to_string", "OpcodeToString", strVal)
	emitMap("rcode_to_string", "RcodeToString", strVal)
	emitMap("type_to_rr", "TypeToRR", newVal)
	writeIfChanged("Registry.v", b.String())

	// --- Layouts.v
	packs, unpacks, order := transZmsg()
	b.Reset()
	b.WriteString(hdr)
	b.WriteString("Definition layouts : list tlayout := [\n")
	for i, t := range order {
		// the pack side of hex/b64/b32 takes its end marker from the unpack side (same field name)
		uk := map[string]string{}
		for _, u := range unpacks[t] {
			uk[u.name] = u.kind
		}
		fmt.Fprintf(&b, "  {| tl_name := %s;\n     tl_pack := [", coqStr(t))
		for j, p := range packs[t] {
			k := p.kind
			if k == "K_hexdash" {
				if u, ok := uk[p.name]; ok && strings.HasPrefix(u, "(K_hex ") {
					k = "(K_hexdash " + strings.TrimPrefix(u, "(K_hex ")
				} else {
					untranslated("zmsg.go", t+".pack", "no matching unpack field for "+p.name)
					k = "(K_hexdash ToEnd)"
				}
			}
			if k == "K_hex" || k == "K_b64" || k == "K_b32" {
				if u, ok := uk[p.name]; ok && strings.HasPrefix(u, "("+k+" ") {
					k = u
				} else {
					k = "(" + k + " ToEnd)"
					untranslated("zmsg.go", t+".pack", "no matching unpack field for "+p.name)
				}
			}
			if j > 0 {
				b.WriteString("; ")
			}
			fmt.Fprintf(&b, "(%s, %s)", coqStr(p.name), k)
		}
		b.WriteString("];\n     tl_unpack := [")
		pk := map[string]string{}
		for _, p := range packs[t] {
			pk[p.name] = p.kind
		}
		for j, u := range unpacks[t] {
			k := u.kind
			// compress flags are a pack-side notion: copy them over so that both sides can be compared
			if p, ok := pk[u.name]; ok {
				if k == "(K_name false)" && strings.HasPrefix(p, "(K_name ") {
					k = p
				}
				if k == "(K_names false)" && strings.HasPrefix(p, "(K_names ") {
					k = p
				}
				if strings.HasPrefix(k, "(K_gateway ") && strings.HasPrefix(p, "(K_gateway ") {
					k = p
				}
			}
			if j > 0 {
				b.WriteString("; ")
			}
			fmt.Fprintf(&b, "{| uf_name := %s; uf_kind := %s; uf_exit := %s |}", coqStr(u.name), k, coqBool(u.exit))
		}
		sep := ";"
		if i == len(order)-1 {
			sep = ""
		}
		fmt.Fprintf(&b, "] |}%s\n", sep)
	}
	b.WriteString("].\n")
	writeIfChanged("Layouts.v", b.String())

	// --- Structs.v
	structs, sorder := structsOf([]string{"types.go", "dnssec.go", "tsig.go", "edns.go", "svcb.go", "dns.go", "msg.go", "privaterr.go"})
	b.Reset()
	b.WriteString(hdr)
	b.WriteString("Definition structs : list tstruct := [\n")
	for i, n := range sorder {
		fmt.Fprintf(&b, "  {| st_name := %s; st_fields := [", coqStr(n))
		for j, f := range structs[n] {
			if j > 0 {
				b.WriteString("; ")
			}
			fmt.Fprintf(&b, "(%s, %s, %s)", coqStr(f.name), f.gotype, coqStr(f.tag))
		}
		sep := ";"
		if i == len(sorder)-1 {
			sep = ""
		}
		fmt.Fprintf(&b, "] |}%s\n", sep)
	}
	b.WriteString("].\n")
	writeIfChanged("Structs.v", b.String())

	// --- Lens.v
	lens := transLens(consts, structs)
	b.Reset()
	b.WriteString(hdr)
	b.WriteString("Definition lens : list tlen := [\n")
	var lk []string
	for k := range lens {
		lk = append(lk, k)
	}
	sort.Strings(lk)
	for i, t := range lk {
		sep := ";"
		if i == len(lk)-1 {
			sep = ""
		}
		fmt.Fprintf(&b, "  {| ln_name := %s; ln_terms := [%s] |}%s\n", coqStr(t), strings.Join(lens[t], "; "), sep)
	}
	b.WriteString("].\n")
	writeIfChanged("Lens.v", b.String())

	// --- Copies.v: copy() of RR types (ztypes.go) and of EDNS0 / SVCB / APL values (edns.go, svcb.go, types.go)
	b.Reset()
	b.WriteString(hdr)
	b.WriteString("Definition copies : list tcopy := [\n")
	var rows []string
	for _, fn := range []string{"ztypes.go", "edns.go", "svcb.go", "types.go", "privaterr.go"} {
		f := parseFile(fn)
		for _, m := range methods(f, "copy") {
			var names []string
			for _, sf := range structs[m.typ] {
				names = append(names, sf.name)
			}
			if m.typ == "PrivateRR" {
				// user-supplied PrivateRdata.Copy: outside the table (a Section variable in the proofs)
				rows = append(rows, fmt.Sprintf("  {| cp_name := %s; cp_fields := [(\"Hdr\", C_share); (\"Data\", C_deep_fn \"PrivateRdata.Copy\")] |}", coqStr(m.typ)))
				continue
			}
			recv := ""
			if len(m.decl.Recv.List[0].Names) == 1 {
				recv = m.decl.Recv.List[0].Names[0].Name
			}
			acts := transCopyBody(fn, m.typ, recv, m.decl.Body, names)
			rows = append(rows, fmt.Sprintf("  {| cp_name := %s; cp_fields := [%s] |}", coqStr(m.typ), strings.Join(acts, "; ")))
		}
	}
	{
		f := parseFile("types.go")
		found := false
		for _, d := range f.Decls {
			fd, ok := d.(*ast.FuncDecl)
			if !ok || fd.Recv != nil || fd.Name.Name != "copyNet" {
				continue
			}
			found = true
			acts := transCopyBody("types.go", "copyNet", "n", fd.Body, []string{"IP", "Mask"})
			rows = append(rows, fmt.Sprintf("  {| cp_name := \"copyNet\"; cp_fields := [%s] |}", strings.Join(acts, "; ")))
		}
		if !found {
			untranslated("types.go", "copyNet", "function not found")
		}
	}
	sort.Strings(rows)
	b.WriteString(strings.Join(rows, ";\n"))
	b.WriteString("\n].\n")
	writeIfChanged("Copies.v", b.String())

	// --- Dups.v
	b.Reset()
	b.WriteString(hdr)
	b.WriteString("Definition dups : list tdup := [\n")
	rows = nil
	for _, fn := range []string{"zduplicate.go", "duplicate.go", "edns.go", "privaterr.go"} {
		f := parseFile(fn)
		for _, m := range methods(f, "isDuplicate") {
			cm := transDupBody(fn, m.typ, m.decl.Body)
			rows = append(rows, fmt.Sprintf("  {| dp_name := %s; dp_cmps := [%s] |}", coqStr(m.typ), strings.Join(cm, "; ")))
		}
	}
	sort.Strings(rows)
	b.WriteString(strings.Join(rows, ";\n"))
	b.WriteString("\n].\n")
	writeIfChanged("Dups.v", b.String())

	// --- markers
	marker := filepath.Join(*outDir, "UNTRANSLATED.txt")
	if len(untr) > 0 {
		os.WriteFile(marker, []byte(strings.Join(untr, "\n")+"\n"), 0o644)
		for _, u := range untr {
			fmt.Println(u)
		}
		os.Exit(3)
	}
	os.Remove(marker)
}
