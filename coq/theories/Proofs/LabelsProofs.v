(* Proofs/LabelsProofs.v — lemmas about Model/Labels.v *)
From Dns Require Import Base.ListX Model.Labels.
From Coq Require Import Lia ZifyN ZifyNat ZifyBool.
Open Scope N_scope.

(* ---- IsFqdn: a trailing dot preceded by an even number of backslashes ---- *)
Lemma is_fqdn_spec s :
  is_fqdn s = true <->
  exists p k, s = p ++ repeat 92 k ++ [46] /\ Nat.even k = true /\
              (forall q, p <> q ++ [92]).
Proof.
  unfold is_fqdn. split.
  - destruct (rev s) as [|c r] eqn:Hr; [discriminate|].
    destruct (N.eqb_spec c 46) as [->|Hc].
    2:{ destruct c as [|p]; [discriminate|]. repeat (destruct p as [p|p|]; try discriminate). congruence. }
    intro Hev.
    assert (Hs : s = rev r ++ [46]).
    { rewrite <- (rev_involutive s), Hr. reflexivity. }
    clear Hr. revert Hev Hs.
    generalize (eq_refl (bs_run r)).
    generalize (bs_run r) at 2 3 as k. intros k Hk Hev Hs.
    assert (Hsplit : exists t, r = repeat 92 k ++ t /\ (forall t', t <> 92 :: t')).
    { clear Hs Hev. revert k Hk. induction r as [|b r IH]; intros k Hk; cbn in Hk.
      - subst k. exists []. split; [reflexivity|]. intros t' H; discriminate.
      - destruct (N.eqb_spec b 92) as [->|Hb].
        + destruct k as [|k]; [discriminate|]. injection Hk as Hk.
          destruct (IH k Hk) as [t [-> Ht]]. exists t. split; [reflexivity|exact Ht].
        + subst k. exists (b :: r). split; [reflexivity|]. intros t' H. congruence. }
    destruct Hsplit as [t [-> Ht]].
    exists (rev t), k. split; [|split; [exact Hev|]].
    + rewrite Hs, rev_app_distr, rev_repeat, <- app_assoc. reflexivity.
    + intros q Hq. apply (Ht (rev q)).
      rewrite <- (rev_involutive t), Hq, rev_app_distr. reflexivity.
  - intros [p [k [-> [Hev Hp]]]].
    rewrite !rev_app_distr. cbn [rev app].
    rewrite rev_repeat.
    assert (Hrun : bs_run (repeat 92 k ++ rev p) = k).
    { clear Hev. induction k as [|k IH]; cbn.
      - destruct (rev p) as [|b t] eqn:Hrp; [reflexivity|]. cbn.
        destruct (N.eqb_spec b 92) as [->|]; [|reflexivity].
        exfalso. apply (Hp (rev t)). rewrite <- (rev_involutive p), Hrp. reflexivity.
      - now rewrite IH. }
    rewrite Hrun. exact Hev.
Qed.
