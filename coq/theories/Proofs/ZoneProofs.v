(* Proofs/ZoneProofs.v — lemmas about Model/Zone.v for C07: the event list of a
   parser run (records, opens, final error). *)
From Dns Require Import Base.ListX Model.Zone Proofs.LexerProofs.
From Coq Require Import Lia ZifyN ZifyNat ZifyBool.
Open Scope N_scope.

(* a parser made by $GENERATE refuses a $GENERATE directive *)
Lemma nested_generate_step cf p l r :
  c_gd cf = true ->
  zstep cf p XDirGenerate l r = ZRet (NErr (B "nested $GENERATE directive not allowed") l).
Proof. intro H. unfold zstep, zerr. now rewrite H. Qed.

(* ---------- token consumers return a suffix ---------- *)
Definition suffix {A} (r ts : list A) : Prop := exists pre, ts = pre ++ r.
Lemma suffix_refl {A} (l : list A) : suffix l l.
Proof. exists []. reflexivity. Qed.
Lemma suffix_cons {A} (x : A) r ts : suffix r ts -> suffix r (x :: ts).
Proof. intros [pre ->]. exists (x :: pre). reflexivity. Qed.
Lemma suffix_trans {A} (a b c : list A) : suffix a b -> suffix b c -> suffix a c.
Proof. intros [p1 ->] [p2 ->]. exists (p2 ++ p1). now rewrite app_assoc. Qed.
Lemma suffix_nil {A} (l : list A) : suffix [] l.
Proof. exists l. now rewrite app_nil_r. Qed.
Lemma suffix_length {A} (r ts : list A) : suffix r ts -> (length r <= length ts)%nat.
Proof. intros [pre ->]. rewrite app_length. lia. Qed.
Lemma suffix_in {A} (r ts : list A) x : suffix r ts -> In x r -> In x ts.
Proof. intros [pre ->] H. apply in_or_app. now right. Qed.
Lemma suffix_tail {A} (x : A) r ts : suffix (x :: r) ts -> suffix r ts.
Proof. intros [pre ->]. exists (pre ++ [x]). now rewrite <- app_assoc. Qed.
#[local] Hint Resolve suffix_refl suffix_cons suffix_nil : sfx.

(* a token obtained from the stream: one of its tokens, or the zero token Next
   yields at the end *)
Definition tok_from (ts : list tok) (t : tok) : Prop := In t ts \/ t = eof_tok.
Lemma tok_from_suffix r ts t : suffix r ts -> tok_from r t -> tok_from ts t.
Proof. intros S [H|H]; [left; eapply suffix_in; eauto|now right]. Qed.

Lemma next_tok_sfx ts : suffix (snd (next_tok ts)) ts.
Proof. destruct ts; cbn; auto with sfx. Qed.
Lemma next_tok_from ts : tok_from ts (fst (next_tok ts)).
Proof. destruct ts; cbn; [now right|left; now left]. Qed.
Lemma next_tok_eq ts : next_tok ts = (fst (next_tok ts), snd (next_tok ts)).
Proof. destruct (next_tok ts); reflexivity. Qed.

Lemma is_val_eof v : is_val eof_tok v = tval_eqb ZEOF v.
Proof. reflexivity. Qed.

Lemma slurp_sfx ts : suffix (snd (slurp_remainder ts)) ts.
Proof.
  unfold slurp_remainder. destruct ts as [|l r]; cbn [next_tok].
  - cbn. auto with sfx.
  - destruct (is_val l ZBlank).
    + destruct r as [|l2 r2]; cbn [next_tok]; destruct (_ && _); cbn; auto with sfx.
    + destruct (_ || _); cbn; auto with sfx.
Qed.
(* the token slurpRemainder complains about is a real one *)
Lemma slurp_err_in ts m t r : slurp_remainder ts = (Some (m, t), r) -> In t ts.
Proof.
  unfold slurp_remainder. destruct ts as [|l r0]; cbn [next_tok].
  - cbn. discriminate.
  - destruct (is_val l ZBlank).
    + destruct r0 as [|l2 r2]; cbn [next_tok].
      * cbn. discriminate.
      * destruct (_ && _); intro E; [injection E as _ <- _; right; now left|discriminate].
    + destruct (_ || _); intro E; [discriminate|injection E as _ <- _; now left].
Qed.

Lemma after_slurp_sfx rd ts rd' n rest :
  after_slurp rd ts = RdOk rd' n rest -> suffix rest ts.
Proof.
  unfold after_slurp. pose proof (slurp_sfx ts) as H.
  destruct (slurp_remainder ts) as [[[m t]|] r]; [discriminate|].
  intro E. injection E as _ _ <-. exact H.
Qed.
Lemma after_slurp_err rd ts m t : after_slurp rd ts = RdErr m t -> In t ts.
Proof.
  unfold after_slurp. destruct (slurp_remainder ts) as [[[m' t']|] r] eqn:E; [|discriminate].
  intro E2. injection E2 as _ <-. eapply slurp_err_in; eauto.
Qed.

Ltac nt ts l r H :=
  pose proof (next_tok_sfx ts) as H; pose proof (next_tok_from ts) as ?F;
  rewrite (next_tok_eq ts); set (l := fst (next_tok ts)) in *; set (r := snd (next_tok ts)) in *;
  cbn [fst snd] in *; clearbody l r.

Lemma parse_name_rd_sfx m o ts rd n rest :
  parse_name_rd m o ts = RdOk rd n rest -> suffix rest ts.
Proof.
  unfold parse_name_rd. nt ts l r H.
  destruct (to_absolute_name _ _); [|discriminate].
  destruct (t_err l); [discriminate|]. intro E. apply after_slurp_sfx in E.
  eapply suffix_trans; eauto.
Qed.
Lemma parse_name_rd_err m o ts msg t :
  parse_name_rd m o ts = RdErr msg t -> tok_from ts t.
Proof.
  unfold parse_name_rd. nt ts l r H.
  destruct (to_absolute_name _ _).
  - destruct (t_err l); [intro E; injection E as _ <-; exact F|].
    intro E. apply after_slurp_err in E. left. eapply suffix_in; eauto.
  - intro E; injection E as _ <-; exact F.
Qed.
Lemma parse_a_rd_sfx ts rd n rest :
  parse_a_rd ts = RdOk rd n rest -> suffix rest ts.
Proof.
  unfold parse_a_rd. nt ts l r H.
  destruct (parse_a _); [|discriminate].
  destruct (t_err l); [discriminate|]. intro E. apply after_slurp_sfx in E.
  eapply suffix_trans; eauto.
Qed.
Lemma parse_a_rd_err ts msg t : parse_a_rd ts = RdErr msg t -> tok_from ts t.
Proof.
  unfold parse_a_rd. nt ts l r H.
  destruct (parse_a _).
  - destruct (t_err l); [intro E; injection E as _ <-; exact F|].
    intro E. apply after_slurp_err in E. left. eapply suffix_in; eauto.
  - intro E; injection E as _ <-; exact F.
Qed.
Lemma parse_aaaa_rd_sfx ts rd n rest :
  parse_aaaa_rd ts = RdOk rd n rest -> suffix rest ts.
Proof.
  unfold parse_aaaa_rd. nt ts l r H.
  destruct (parse_aaaa _); [|discriminate].
  destruct (t_err l); [discriminate|]. intro E. apply after_slurp_sfx in E.
  eapply suffix_trans; eauto.
Qed.
Lemma parse_aaaa_rd_err ts msg t : parse_aaaa_rd ts = RdErr msg t -> tok_from ts t.
Proof.
  unfold parse_aaaa_rd. nt ts l r H.
  destruct (parse_aaaa _).
  - destruct (t_err l); [intro E; injection E as _ <-; exact F|].
    intro E. apply after_slurp_err in E. left. eapply suffix_in; eauto.
  - intro E; injection E as _ <-; exact F.
Qed.

Lemma txt_go_sfx m ts : forall l acc q e rd n rest,
  txt_go m l ts acc q e = RdOk rd n rest -> suffix rest ts.
Proof.
  induction ts as [|l' ts' IH]; intros l acc q e rd n rest; cbn [txt_go].
  - destruct (_ || _).
    { destruct q; [discriminate|]. intro E. injection E as _ _ <-. auto with sfx. }
    destruct (t_err l); [discriminate|].
    destruct (is_val l ZString).
    { destruct (split255 _ _); [|discriminate]. destruct q; [discriminate|].
      intro E. injection E as _ _ <-. auto with sfx. }
    destruct (is_val l ZBlank).
    { destruct q; [discriminate|]. intro E. injection E as _ _ <-. auto with sfx. }
    destruct (is_val l ZQuote); [|discriminate].
    destruct (negb q); [discriminate|]. intro E. injection E as _ _ <-. auto with sfx.
  - destruct (_ || _).
    { destruct q; [discriminate|]. intro E. injection E as _ _ <-. auto with sfx. }
    destruct (t_err l); [discriminate|].
    destruct (is_val l ZString).
    { destruct (split255 _ _); [|discriminate]. intro E. apply IH in E. auto with sfx. }
    destruct (is_val l ZBlank).
    { destruct q; [discriminate|]. intro E. apply IH in E. auto with sfx. }
    destruct (is_val l ZQuote); [|discriminate].
    intro E. apply IH in E. auto with sfx.
Qed.
Lemma txt_go_err m ts : forall l acc q e msg t,
  txt_go m l ts acc q e = RdErr msg t -> t = l \/ tok_from ts t.
Proof.
  induction ts as [|l' ts' IH]; intros l acc q e msg t; cbn [txt_go].
  - destruct (_ || _).
    { destruct q; [|discriminate]. intro E. injection E as _ <-. now left. }
    destruct (t_err l); [intro E; injection E as _ <-; now left|].
    destruct (is_val l ZString).
    { destruct (split255 _ _); [|intro E; injection E as _ <-; now left].
      destruct q; [|discriminate]. intro E. injection E as _ <-. right. now right. }
    destruct (is_val l ZBlank).
    { destruct q; [intro E; injection E as _ <-; now left|discriminate]. }
    destruct (is_val l ZQuote); [|intro E; injection E as _ <-; now left].
    destruct (negb q); [|discriminate]. intro E. injection E as _ <-. right. now right.
  - destruct (_ || _).
    { destruct q; [|discriminate]. intro E. injection E as _ <-. now left. }
    destruct (t_err l); [intro E; injection E as _ <-; now left|].
    assert (K : forall acc' q' e', txt_go m l' ts' acc' q' e' = RdErr msg t -> t = l \/ tok_from (l' :: ts') t).
    { intros acc' q' e' E. apply IH in E. right. destruct E as [->|[E|E]];
        [left; now left|left; now right|now right]. }
    destruct (is_val l ZString).
    { destruct (split255 _ _); [apply K|intro E; injection E as _ <-; now left]. }
    destruct (is_val l ZBlank).
    { destruct q; [intro E; injection E as _ <-; now left|apply K]. }
    destruct (is_val l ZQuote); [apply K|intro E; injection E as _ <-; now left].
Qed.
Lemma parse_txt_rd_sfx m ts rd n rest :
  parse_txt_rd m ts = RdOk rd n rest -> suffix rest ts.
Proof.
  unfold parse_txt_rd. nt ts l r H.
  destruct (t_err l); [discriminate|]. intro E. apply txt_go_sfx in E.
  eapply suffix_trans; eauto.
Qed.
Lemma parse_txt_rd_err m ts msg t : parse_txt_rd m ts = RdErr msg t -> tok_from ts t.
Proof.
  unfold parse_txt_rd. nt ts l r H.
  destruct (t_err l); [intro E; injection E as _ <-; exact F|].
  intro E. apply txt_go_err in E. destruct E as [->|E]; [exact F|].
  eapply tok_from_suffix; eauto.
Qed.

Lemma ending_to_string_sfx m ts : forall l acc s rest,
  ending_to_string m l ts acc = inr (s, rest) -> suffix rest ts.
Proof.
  induction ts as [|l' ts' IH]; intros l acc s rest; cbn [ending_to_string].
  - destruct (_ || _); [intro E; injection E as _ <-; auto with sfx|].
    destruct (t_err l); [discriminate|].
    destruct (is_val l ZString); [intro E; injection E as _ <-; auto with sfx|].
    destruct (is_val l ZBlank); [intro E; injection E as _ <-; auto with sfx|discriminate].
  - destruct (_ || _); [intro E; injection E as _ <-; auto with sfx|].
    destruct (t_err l); [discriminate|].
    destruct (is_val l ZString); [intro E; apply IH in E; auto with sfx|].
    destruct (is_val l ZBlank); [intro E; apply IH in E; auto with sfx|discriminate].
Qed.
Lemma ending_to_string_err m ts : forall l acc msg t,
  ending_to_string m l ts acc = inl (msg, t) -> t = l \/ In t ts.
Proof.
  induction ts as [|l' ts' IH]; intros l acc msg t; cbn [ending_to_string].
  - destruct (_ || _); [discriminate|].
    destruct (t_err l); [intro E; injection E as _ <-; now left|].
    destruct (is_val l ZString); [discriminate|].
    destruct (is_val l ZBlank); [discriminate|intro E; injection E as _ <-; now left].
  - destruct (_ || _); [discriminate|].
    destruct (t_err l); [intro E; injection E as _ <-; now left|].
    assert (K : forall acc', ending_to_string m l' ts' acc' = inl (msg, t) -> t = l \/ In t (l' :: ts')).
    { intros acc' E. apply IH in E. right. destruct E as [->|E]; [now left|now right]. }
    destruct (is_val l ZString); [apply K|].
    destruct (is_val l ZBlank); [apply K|intro E; injection E as _ <-; now left].
Qed.

Lemma parse_3597_sfx ts s rest : parse_3597 ts = inr (s, rest) -> suffix rest ts.
Proof.
  unfold parse_3597. nt ts l r H0.
  destruct (negb _); [discriminate|].
  nt r l1 r1 H1. nt r1 l2 r2 H2.
  destruct (parse_uint _ _); [|discriminate].
  destruct (t_err l2); [discriminate|].
  nt r2 l3 r3 H3.
  destruct (ending_to_string _ l3 r3 []) as [e|[s' rest']] eqn:E; [discriminate|].
  apply ending_to_string_sfx in E.
  destruct (_ =? _); [|discriminate]. intro E2. injection E2 as _ <-.
  eapply suffix_trans; [exact E|]. eapply suffix_trans; [exact H3|].
  eapply suffix_trans; [exact H2|]. eapply suffix_trans; [exact H1|exact H0].
Qed.
Lemma parse_3597_err ts m t : parse_3597 ts = inl (m, t) -> tok_from ts t.
Proof.
  unfold parse_3597. nt ts l r H0.
  destruct (negb _); [intro E; injection E as _ <-; exact F|].
  nt r l1 r1 H1. nt r1 l2 r2 H2.
  assert (F2' : tok_from ts l2).
  { eapply tok_from_suffix; [|exact F1]. eapply suffix_trans; eauto. }
  destruct (parse_uint _ _); [|intro E; injection E as _ <-; exact F2'].
  destruct (t_err l2); [intro E; injection E as _ <-; exact F2'|].
  nt r2 l3 r3 H3.
  assert (S2 : suffix r2 ts).
  { eapply suffix_trans; [exact H2|]. eapply suffix_trans; [exact H1|exact H0]. }
  destruct (ending_to_string _ l3 r3 []) as [[m' t']|[s' rest']] eqn:E.
  - intro E2. injection E2 as _ <-. apply ending_to_string_err in E.
    destruct E as [->|E]; [eapply tok_from_suffix; eauto|].
    left. eapply suffix_in; [|exact E]. eapply suffix_trans; eauto.
  - destruct (_ =? _); [discriminate|]. intro E2. injection E2 as _ <-. exact F2'.
Qed.

Lemma rdata_step_kind p l r :
  match rdata_step p l r with NInclude _ _ _ _ | NGenerate _ _ _ | NEnd => False | _ => True end.
Proof.
  unfold rdata_step. cbv zeta.
  destruct (t_text (peek_tok r)).
  { destruct (slurp_remainder r) as [[[m t]|] rest']; exact I. }
  destruct (is_val l ZNewline); [exact I|].
  destruct (negb (known_type _) || _).
  { destruct (parse_3597 r) as [[m t]|[s rest']]; [exact I|].
    destruct (negb (known_type _)); [exact I|].
    destruct (_ =? 0); [exact I|].
    destruct (hex_decode s); [|exact I].
    destruct (family_of _); try exact I.
    - destruct (_ <? 4); exact I.
    - destruct (_ <? 16); exact I. }
  destruct (family_of _).
  - destruct (parse_name_rd _ _ r); exact I.
  - destruct (parse_a_rd r); exact I.
  - destruct (parse_aaaa_rd r); exact I.
  - destruct (parse_txt_rd _ r); exact I.
  - exact I.
Qed.

Lemma rdata_step_sfx p l r rr p' rest :
  rdata_step p l r = NRec rr p' rest -> suffix rest r.
Proof.
  unfold rdata_step. cbv zeta.
  destruct (t_text (peek_tok r)).
  { pose proof (slurp_sfx r) as H. destruct (slurp_remainder r) as [[[m t]|] rest']; [discriminate|].
    intro E. injection E as _ _ <-. exact H. }
  destruct (is_val l ZNewline); [discriminate|].
  destruct (negb (known_type _) || _).
  { destruct (parse_3597 r) as [[m t]|[s rest']] eqn:E; [discriminate|].
    apply parse_3597_sfx in E.
    destruct (negb (known_type _)); [intro E2; injection E2 as _ _ <-; exact E|].
    destruct (_ =? 0); [intro E2; injection E2 as _ _ <-; exact E|].
    destruct (hex_decode s); [|discriminate].
    destruct (family_of _); try discriminate.
    - destruct (_ <? 4); [discriminate|]. intro E2; injection E2 as _ _ <-; exact E.
    - destruct (_ <? 16); [discriminate|]. intro E2; injection E2 as _ _ <-; exact E. }
  destruct (family_of _) eqn:F.
  - destruct (parse_name_rd _ _ r) eqn:E; try discriminate.
    intro E2. injection E2 as _ _ <-. now apply parse_name_rd_sfx in E.
  - destruct (parse_a_rd r) eqn:E; try discriminate.
    intro E2. injection E2 as _ _ <-. now apply parse_a_rd_sfx in E.
  - destruct (parse_aaaa_rd r) eqn:E; try discriminate.
    intro E2. injection E2 as _ _ <-. now apply parse_aaaa_rd_sfx in E.
  - destruct (parse_txt_rd _ r) eqn:E; try discriminate.
    intro E2. injection E2 as _ _ <-. now apply parse_txt_rd_sfx in E.
  - discriminate.
Qed.

(* the token an RDATA error points at is one of the stream's (the zero token is
   replaced by the current one) *)
Lemma fix_tok_in l r t : tok_from r t -> In (if tok_is_zero t then l else t) (l :: r).
Proof.
  intros [H| ->]; [destruct (tok_is_zero t); [now left|now right]|].
  cbn. now left.
Qed.
Lemma rdata_step_err p l r m t : rdata_step p l r = NErr m t -> In t (l :: r).
Proof.
  unfold rdata_step. cbv zeta.
  destruct (t_text (peek_tok r)).
  { destruct (slurp_remainder r) as [[[m' t']|] rest'] eqn:E; [|discriminate].
    intro E2. injection E2 as _ <-. right. eapply slurp_err_in; eauto. }
  destruct (is_val l ZNewline); [intro E; injection E as _ <-; now left|].
  destruct (negb (known_type _) || _).
  { destruct (parse_3597 r) as [[m' t']|[s rest']] eqn:E.
    - intro E2. injection E2 as _ <-. apply fix_tok_in. eapply parse_3597_err; eauto.
    - destruct (negb (known_type _)); [discriminate|].
      destruct (_ =? 0); [discriminate|].
      destruct (hex_decode s); [|intro E2; injection E2 as _ <-; now left].
      destruct (family_of _); try discriminate.
      + destruct (_ <? 4); [intro E2; injection E2 as _ <-; now left|discriminate].
      + destruct (_ <? 16); [intro E2; injection E2 as _ <-; now left|discriminate]. }
  destruct (family_of _) eqn:F.
  - destruct (parse_name_rd _ _ r) eqn:E; try discriminate.
    intro E2. injection E2 as _ <-. apply fix_tok_in. eapply parse_name_rd_err; eauto.
  - destruct (parse_a_rd r) eqn:E; try discriminate.
    intro E2. injection E2 as _ <-. apply fix_tok_in. eapply parse_a_rd_err; eauto.
  - destruct (parse_aaaa_rd r) eqn:E; try discriminate.
    intro E2. injection E2 as _ <-. apply fix_tok_in. eapply parse_aaaa_rd_err; eauto.
  - destruct (parse_txt_rd _ r) eqn:E; try discriminate.
    intro E2. injection E2 as _ <-. apply fix_tok_in. eapply parse_txt_rd_err; eauto.
  - discriminate.
Qed.

(* ---------- the loop of Next ---------- *)
(* what a result of the loop has to do with the tokens it was given *)
Definition nres_ok (cf : cfg) (toks : list tok) (x : nres) : Prop :=
  match x with
  | NRec _ _ rest => suffix rest toks /\ (length rest < length toks)%nat
  | NInclude l _ _ rest =>
    suffix rest toks /\ (length rest < length toks)%nat /\ In l toks /\ c_inc cf = true
  | NGenerate l _ rest =>
    suffix rest toks /\ (length rest < length toks)%nat /\ In l toks /\ c_gd cf = false
  | NErr _ t => In t toks
  | _ => True
  end.

Lemma nres_ok_cons cf l r x : nres_ok cf r x -> nres_ok cf (l :: r) x.
Proof.
  destruct x; cbn; auto.
  - intros [A B0]. split; [now apply suffix_cons|lia].
  - intros [A [B0 [C D]]]. repeat split; auto; try (now apply suffix_cons); try lia.
  - intros [A [B0 [C D]]]. repeat split; auto; try (now apply suffix_cons); try lia.
Qed.

Lemma slurp_count_err r m t : slurp_count r = inl (m, t) -> In t r.
Proof.
  unfold slurp_count. destruct (slurp_remainder r) as [[[m' t']|] rest] eqn:E; [|discriminate].
  intro E2. injection E2 as _ <-. eapply slurp_err_in; eauto.
Qed.

Ltac zgeneric E1 :=
  repeat match type of E1 with
         | context [match ?c with _ => _ end] => destruct c; try discriminate E1
         end;
  try (injection E1 as <-; cbn; now left).

Lemma zstep_ok cf p st l r x : zstep cf p st l r = ZRet x -> nres_ok cf (l :: r) x.
Proof.
  unfold zstep, zerr, ttl_then. cbv zeta.
  destruct st; intros E1.
  all: try solve [zgeneric E1].
  - (* RDATA *)
    injection E1 as <-.
    pose proof (rdata_step_kind p l r) as K.
    destruct (rdata_step p l r) eqn:E; try contradiction; cbn; auto.
    + apply rdata_step_sfx in E. split; [now apply suffix_cons|].
      apply suffix_length in E. cbn. lia.
    + now apply rdata_step_err in E.
  - (* $TTL value *)
    destruct (negb (is_val l ZString)); [zgeneric E1|].
    destruct (slurp_count r) as [[m t]|k] eqn:E.
    + injection E1 as <-. cbn. right. eapply slurp_count_err; eauto.
    + zgeneric E1.
  - (* $ORIGIN value *)
    destruct (negb (is_val l ZString)); [zgeneric E1|].
    destruct (slurp_count r) as [[m t]|k] eqn:E.
    + injection E1 as <-. cbn. right. eapply slurp_count_err; eauto.
    + zgeneric E1.
  - (* $INCLUDE *)
    destruct (negb (is_val l ZString)); [zgeneric E1|].
    revert E1. nt r l2 r2 H1.
    destruct (is_val l2 ZBlank) eqn:V2.
    + nt r2 l3 r3 H2.
      assert (S3 : suffix r3 r) by (eapply suffix_trans; eauto).
      destruct (is_val l3 ZString) eqn:V3.
      * destruct (to_absolute_name _ _).
        -- destruct (negb (c_inc cf)) eqn:I; intro E1; injection E1 as <-; cbn; [now left|].
           repeat split; [now apply suffix_cons|apply suffix_length in S3; lia|now left|].
           now destruct (c_inc cf).
        -- intro E1; injection E1 as <-. cbn. right.
           destruct F0 as [F0|F0]; [eapply suffix_in; [exact H1|exact F0]|].
           subst l3. discriminate V3.
      * destruct (negb (c_inc cf)) eqn:I; intro E1; injection E1 as <-; cbn; [now left|].
        repeat split; [now apply suffix_cons|apply suffix_length in S3; lia|now left|].
        now destruct (c_inc cf).
    + destruct (is_val l2 ZNewline || is_val l2 ZEOF) eqn:V.
      * destruct (negb (c_inc cf)) eqn:I; intro E1; injection E1 as <-; cbn; [now left|].
        repeat split; [now apply suffix_cons|apply suffix_length in H1; lia|now left|].
        now destruct (c_inc cf).
      * intro E1; injection E1 as <-. cbn. right.
        destruct F as [F|F]; [exact F|]. subst l2. discriminate V.
  - (* $GENERATE *)
    destruct (c_gd cf) eqn:G; [zgeneric E1|].
    destruct (negb (is_val l ZString)); [zgeneric E1|].
    injection E1 as <-. cbn. repeat split; auto with sfx.
Qed.

Lemma zloop_ok cf toks : forall p st k, nres_ok cf toks (zloop cf p st k toks).
Proof.
  induction toks as [|l r IH]; intros p st k; cbn [zloop].
  - exact I.
  - destruct k as [|k]; [|apply nres_ok_cons, IH].
    destruct (t_err l); [cbn; now left|].
    destruct (zstep cf p st l r) as [st' p' k'|x] eqn:E.
    + apply nres_ok_cons, IH.
    + eapply zstep_ok; eauto.
Qed.

Lemma gen_collect_sfx ts : forall acc s rest, gen_collect ts acc = inr (s, rest) -> suffix rest ts.
Proof.
  induction ts as [|l r IH]; intros acc s rest; cbn [gen_collect].
  - intro E. injection E as _ <-. auto with sfx.
  - destruct (t_err l); [discriminate|].
    destruct (is_val l ZNewline); [intro E; injection E as _ <-; auto with sfx|].
    intro E. apply IH in E. auto with sfx.
Qed.
Lemma gen_collect_err ts : forall acc t, gen_collect ts acc = inl t -> In t ts.
Proof.
  induction ts as [|l r IH]; intros acc t; cbn [gen_collect].
  - discriminate.
  - destruct (t_err l); [intro E; injection E as <-; now left|].
    destruct (is_val l ZNewline); [discriminate|].
    intro E. apply IH in E. now right.
Qed.

(* ---------- event lists ---------- *)
Definition nonstop (e : ev) : Prop := ev_is_stop e = false.
(* an error (or the model's own stop marks) can only be the last event *)
Definition stops_last (l : list ev) : Prop := Forall nonstop (removelast l).

Lemma stops_last_nil : stops_last [].
Proof. constructor. Qed.
Lemma stops_last_one e : stops_last [e].
Proof. constructor. Qed.
Lemma stops_last_cons e l : nonstop e -> stops_last l -> stops_last (e :: l).
Proof.
  intros He Hl. unfold stops_last in *. destruct l as [|u l]; [constructor|].
  cbn [removelast]. constructor; assumption.
Qed.
Lemma stops_last_app a l : Forall nonstop a -> stops_last l -> stops_last (a ++ l).
Proof.
  induction 1 as [|e a He _ IH]; intro Hl; cbn; [assumption|].
  apply stops_last_cons; auto.
Qed.
Lemma failed_false l : failed l = false -> Forall nonstop l.
Proof.
  unfold failed. induction l as [|e l IH]; cbn; intro H; [constructor|].
  apply orb_false_iff in H. destruct H as [H1 H2]. constructor; [exact H1|auto].
Qed.
Lemma stops_last_spec l : stops_last l ->
  forall pre e post, l = pre ++ e :: post -> ev_is_stop e = true -> post = [].
Proof.
  intros H pre e post -> He. destruct post as [|u post]; [reflexivity|exfalso].
  unfold stops_last in H. rewrite removelast_app in H by discriminate.
  apply Forall_app in H. destruct H as [_ H]. cbn [removelast] in H.
  inversion H as [|? ? Hn _]. unfold nonstop in Hn. congruence.
Qed.
(* sub-parser events spliced into the parent's *)
Lemma stops_last_splice evs rest :
  stops_last evs -> stops_last rest -> stops_last (if failed evs then evs else evs ++ rest).
Proof.
  intros H1 H2. destruct (failed evs) eqn:F; [exact H1|].
  apply stops_last_app; [now apply failed_false|exact H2].
Qed.

Section Files.
  Variable fs_open os_open : bytes -> option bytes.
  Notation level_body := (level_body fs_open os_open).
  Notation level := (level fs_open os_open).
  Notation new_parser := (new_parser).
  Notation run_d := (run_d fs_open os_open).
  Notation parse_zone := (parse_zone fs_open os_open).

  Definition sub_all (P : list ev -> Prop) (f : sub_sig) : Prop := forall a b c d e, P (f a b c d e).

  Lemma level_S inc gen cf f p toks rerr :
    level inc gen cf (S f) p toks rerr =
    level_body inc gen cf rerr (fun p' t' => level inc gen cf f p' t' rerr) p toks.
  Proof. reflexivity. Qed.

  (* --- first_error_sticky --- *)
  Lemma level_body_stops inc gen cf rerr k p toks :
    (forall sub, inc = Some sub -> sub_all stops_last sub) -> sub_all stops_last gen ->
    (forall p' t', stops_last (k p' t')) ->
    stops_last (level_body inc gen cf rerr k p toks).
  Proof.
    intros Hinc Hgen Hk. unfold level_body.
    destruct (zloop cf p XOwnerDir 0 toks) as [r p' rest| |m t|l no p' rest|l p' rest|].
    - apply stops_last_cons; [reflexivity|apply Hk].
    - destruct rerr; [apply stops_last_one|apply stops_last_nil].
    - apply stops_last_one.
    - destruct (Nat.leb _ _); [apply stops_last_one|].
      destruct inc as [sub|]; [|apply stops_last_one].
      cbv zeta. destruct (if c_fs cf then _ else _).
      + apply stops_last_cons; [reflexivity|].
        apply stops_last_splice; [apply (Hinc sub eq_refl)|apply Hk].
      + apply stops_last_cons; [reflexivity|apply stops_last_one].
    - destruct (parse_range _) as [m|[[a b] c]]; [apply stops_last_one|].
      destruct (next_tok rest) as [bl r1].
      destruct (negb _); [apply stops_last_one|].
      destruct (gen_collect r1 []) as [t|[s rest']]; [apply stops_last_one|].
      destruct (gen_bytes s a b c) as [octets ge]. cbv zeta.
      apply stops_last_splice; [apply Hgen|apply Hk].
    - apply stops_last_one.
  Qed.

  Lemma level_stops inc gen :
    (forall sub, inc = Some sub -> sub_all stops_last sub) -> sub_all stops_last gen ->
    forall cf fuel p toks rerr, stops_last (level inc gen cf fuel p toks rerr).
  Proof.
    intros Hinc Hgen cf fuel. revert cf. induction fuel as [|f IH]; intros cf p toks rerr.
    - apply stops_last_one.
    - rewrite level_S. apply level_body_stops; auto.
  Qed.

  Lemma new_parser_all (P : list ev -> Prop) run :
    (forall e, P [EErr e]) -> (forall cf fuel p toks rerr, P (run cf fuel p toks rerr)) ->
    (forall evs e, P evs -> failed evs = false -> P (evs ++ [EErr e])) ->
    sub_all P (new_parser run).
  Proof.
    intros H1 H2 H3 cf origin dt toks rerr. unfold Zone.new_parser.
    destruct (match _ with [] => false | _ => _ end); [apply H1|]. cbv zeta.
    destruct (failed _) eqn:F; [apply H2|].
    destruct (lex_err_tok toks) as [t|]; [apply H3; [apply H2|exact F]|apply H2].
  Qed.

  Lemma stops_last_snoc_err evs e : stops_last evs -> failed evs = false -> stops_last (evs ++ [EErr e]).
  Proof.
    intros _ F. apply stops_last_app; [now apply failed_false|apply stops_last_one].
  Qed.

  Lemma run_d_stops d : sub_all stops_last (run_d d).
  Proof.
    induction d as [|d IH]; cbn [Zone.run_d]; cbv zeta.
    - apply new_parser_all; [intro; apply stops_last_one| |intros ? ?; apply stops_last_snoc_err].
      apply level_stops; [intros sub E; discriminate|].
      apply new_parser_all; [intro; apply stops_last_one| |intros ? ?; apply stops_last_snoc_err].
      apply level_stops; [intros sub E; discriminate|]. intros ? ? ? ? ?. apply stops_last_nil.
    - apply new_parser_all; [intro; apply stops_last_one| |intros ? ?; apply stops_last_snoc_err].
      apply level_stops; [intros sub E; injection E as <-; exact IH|].
      apply new_parser_all; [intro; apply stops_last_one| |intros ? ?; apply stops_last_snoc_err].
      apply level_stops; [intros sub E; injection E as <-; exact IH|].
      intros ? ? ? ? ?. apply stops_last_nil.
  Qed.

  (* once an error has been reported no further record (or anything else) follows *)
  Lemma parse_zone_sticky origin file dt inc hasfs text pre e post :
    parse_zone origin file dt inc hasfs text = pre ++ e :: post ->
    ev_is_stop e = true -> post = [].
  Proof. apply stops_last_spec. apply run_d_stops. Qed.

  (* --- no file access unless allowed, bounded include depth, the model's
         budgets are never used up, errors carry a position --- *)
  Definition exempt (m : bytes) : Prop :=
    m = B "bad initial origin name" \/ m = B "garbage after $GENERATE range".
  Definition perr_ok (e : perr) : Prop := exempt (e_msg e) \/ 1 <= t_line (e_tok e).
  Definition ev_good (inc : bool) (e : ev) : Prop :=
    match e with
    | EFuel => False
    | EOpen _ _ _ dep => inc = true /\ (dep <= maxIncludeDepth)%nat
    | EErr pe => perr_ok pe
    | _ => True
    end.
  Definition evs_good (inc : bool) (l : list ev) : Prop := Forall (ev_good inc) l.
  Definition lines_ok (toks : list tok) : Prop := Forall (fun t => 1 <= t_line t) toks.
  Definition rerr_ok (r : option perr) : Prop := match r with Some e => perr_ok e | None => True end.

  Lemma ev_good_mono a b e : (a = true -> b = true) -> ev_good a e -> ev_good b e.
  Proof. intro H. destruct e; cbn; auto. intros [A C]. auto. Qed.
  Lemma evs_good_mono a b l : (a = true -> b = true) -> evs_good a l -> evs_good b l.
  Proof. intros H. apply Forall_impl. intro e. now apply ev_good_mono. Qed.
  Lemma evs_good_splice inc evs rest :
    evs_good inc evs -> evs_good inc rest -> evs_good inc (if failed evs then evs else evs ++ rest).
  Proof. intros A C. destruct (failed evs); [exact A|]. apply Forall_app. now split. Qed.
  Lemma lines_suffix r ts : suffix r ts -> lines_ok ts -> lines_ok r.
  Proof.
    intros S H. unfold lines_ok in *. rewrite Forall_forall in *. intros t Ht.
    apply H. eapply suffix_in; eauto.
  Qed.
  Lemma lines_in ts t : lines_ok ts -> In t ts -> 1 <= t_line t.
  Proof. unfold lines_ok. rewrite Forall_forall. auto. Qed.

  Definition sub_good (d : nat) (f : sub_sig) : Prop :=
    forall cf b c toks rerr, (maxIncludeDepth <= c_depth cf + d)%nat -> lines_ok toks -> rerr_ok rerr ->
                             evs_good (c_inc cf) (f cf b c toks rerr).

  Lemma level_good d inc gen :
    match d with O => inc = None | S d' => exists sub, inc = Some sub /\ sub_good d' sub end ->
    sub_good d gen ->
    forall cf fuel p toks rerr,
      (maxIncludeDepth <= c_depth cf + d)%nat -> lines_ok toks -> rerr_ok rerr ->
      (length toks < fuel)%nat -> evs_good (c_inc cf) (level inc gen cf fuel p toks rerr).
  Proof.
    intros Hinc Hgen cf fuel. revert cf.
    induction fuel as [|f IH]; intros cf p toks rerr Hd Hl Hr Hf; [lia|].
    rewrite level_S. unfold Zone.level_body.
    pose proof (zloop_ok cf toks p XOwnerDir 0%nat) as Z.
    destruct (zloop cf p XOwnerDir 0 toks) as [r p' rest| |m t|l no p' rest|l p' rest|]; cbn in Z.
    - destruct Z as [Z1 Z2]. constructor; [exact I|].
      apply IH; auto; [eapply lines_suffix; eauto|lia].
    - destruct rerr; [constructor; [exact Hr|constructor]|constructor].
    - constructor; [|constructor]. right. cbn. eapply lines_in; eauto.
    - destruct Z as [Z1 [Z2 [Z3 Z4]]].
      destruct (Nat.leb maxIncludeDepth (c_depth cf)) eqn:L.
      { constructor; [|constructor]. right. cbn. eapply lines_in; eauto. }
      apply Nat.leb_gt in L.
      destruct d as [|d']; [lia|]. destruct Hinc as [sub [-> Hsub]]. cbv zeta.
      destruct (if c_fs cf then _ else _) as [content|].
      + constructor; [cbn; split; [exact Z4|lia]|].
        apply evs_good_splice.
        * eapply evs_good_mono; [|apply Hsub]; cbn; auto; [lia|].
          unfold lines_ok. rewrite Forall_forall. intros t Ht. eapply lex_full_line. exact Ht.
        * apply IH; auto; [eapply lines_suffix; eauto|lia].
      + constructor; [cbn; split; [exact Z4|lia]|].
        constructor; [|constructor]. right. cbn. eapply lines_in; eauto.
    - destruct Z as [Z1 [Z2 [Z3 Z4]]].
      destruct (parse_range _) as [m|[[a b] c]].
      { constructor; [|constructor]. right. cbn. eapply lines_in; eauto. }
      pose proof (next_tok_sfx rest) as N1. pose proof (next_tok_from rest) as N2.
      destruct (next_tok rest) as [bl r1]. cbn [fst snd] in N1, N2.
      destruct (negb (is_val bl ZBlank)) eqn:V.
      { constructor; [|constructor]. left. right. reflexivity. }
      assert (Hbl : 1 <= t_line bl).
      { destruct N2 as [N2| ->]; [|discriminate V].
        eapply lines_in; [exact Hl|]. eapply suffix_in; eauto. }
      destruct (gen_collect r1 []) as [t|[s rest']] eqn:G.
      { constructor; [|constructor]. right. cbn. apply gen_collect_err in G.
        eapply lines_in; [exact Hl|]. eapply suffix_in; [exact Z1|]. eapply suffix_in; eauto. }
      apply gen_collect_sfx in G.
      destruct (gen_bytes s a b c) as [octets ge]. cbv zeta.
      apply evs_good_splice.
      + eapply evs_good_mono; [|apply Hgen]; cbn; auto.
        * unfold lines_ok. rewrite Forall_forall. intros t Ht. eapply lex_full_line. exact Ht.
        * destruct ge; [|exact I]. right. cbn. exact Hbl.
      + apply IH; auto.
        * eapply lines_suffix; [|exact Hl]. eapply suffix_trans; [exact G|].
          eapply suffix_trans; [exact N1|exact Z1].
        * apply suffix_length in G. apply suffix_length in N1. lia.
    - (* an RDATA grammar outside the model *) constructor; [exact I|constructor].
  Qed.

  Lemma new_parser_good d run :
    (forall cf fuel p toks rerr,
        (maxIncludeDepth <= c_depth cf + d)%nat -> lines_ok toks -> rerr_ok rerr ->
        (length toks < fuel)%nat -> evs_good (c_inc cf) (run cf fuel p toks rerr)) ->
    sub_good d (new_parser run).
  Proof.
    intros H cf origin dt toks rerr Hd Hl Hr. unfold Zone.new_parser.
    destruct (match _ with [] => false | _ => _ end).
    - constructor; [|constructor]. left. left. reflexivity.
    - cbv zeta. destruct (failed _); [apply H; auto|].
      destruct (lex_err_tok toks) as [t|] eqn:E; [|apply H; auto].
      apply Forall_app. split; [apply H; auto|].
      constructor; [|constructor]. right. cbn.
      eapply lines_in; [exact Hl|]. unfold lex_err_tok in E.
      destruct (rev toks) as [|u r] eqn:R; [discriminate|].
      destruct (t_err u); [|discriminate]. injection E as <-.
      apply in_rev. rewrite R. now left.
  Qed.

  Lemma run_d_good d : sub_good d (run_d d).
  Proof.
    induction d as [|d IH]; cbn [Zone.run_d]; cbv zeta.
    - apply new_parser_good. apply level_good; [reflexivity|].
      apply new_parser_good. apply level_good; [reflexivity|].
      intros ? ? ? ? ? ? ? ?. constructor.
    - apply new_parser_good. apply level_good; [eexists; split; [reflexivity|exact IH]|].
      apply new_parser_good. apply level_good; [eexists; split; [reflexivity|exact IH]|].
      intros ? ? ? ? ? ? ? ?. constructor.
  Qed.

  Lemma parse_zone_good origin file dt inc hasfs text :
    evs_good inc (parse_zone origin file dt inc hasfs text).
  Proof.
    unfold Zone.parse_zone.
    apply (run_d_good maxIncludeDepth (mkCfg file inc hasfs false O)); cbn; [lia| |exact I].
    unfold lines_ok. rewrite Forall_forall. intros t Ht. eapply lex_full_line. exact Ht.
  Qed.

  (* the parser never opens a file unless includes were enabled on it *)
  Lemma parse_zone_no_open origin file dt hasfs text f pth ok dep :
    ~ In (EOpen f pth ok dep) (parse_zone origin file dt false hasfs text).
  Proof.
    intro H. pose proof (parse_zone_good origin file dt false hasfs text) as G.
    unfold evs_good in G. rewrite Forall_forall in G. specialize (G _ H). cbn in G.
    destruct G as [G _]. discriminate.
  Qed.

  (* include nesting never exceeds maxIncludeDepth, whatever the files contain *)
  Lemma parse_zone_depth origin file dt inc hasfs text f pth ok dep :
    In (EOpen f pth ok dep) (parse_zone origin file dt inc hasfs text) -> (dep <= maxIncludeDepth)%nat.
  Proof.
    intro H. pose proof (parse_zone_good origin file dt inc hasfs text) as G.
    unfold evs_good in G. rewrite Forall_forall in G. specialize (G _ H). cbn in G. tauto.
  Qed.

  (* the recursion budgets of the model (include nesting, tokens) are never used up *)
  Lemma parse_zone_no_fuel origin file dt inc hasfs text :
    ~ In EFuel (parse_zone origin file dt inc hasfs text).
  Proof.
    intro H. pose proof (parse_zone_good origin file dt inc hasfs text) as G.
    unfold evs_good in G. rewrite Forall_forall in G. exact (G _ H).
  Qed.

  (* every error other than the two named carries a line number from 1 *)
  Lemma parse_zone_err_pos origin file dt inc hasfs text e :
    In (EErr e) (parse_zone origin file dt inc hasfs text) ->
    e_msg e <> B "bad initial origin name" -> e_msg e <> B "garbage after $GENERATE range" ->
    1 <= t_line (e_tok e).
  Proof.
    intros H N1 N2. pose proof (parse_zone_good origin file dt inc hasfs text) as G.
    unfold evs_good in G. rewrite Forall_forall in G. specialize (G _ H). cbn in G.
    destruct G as [[G|G]|G]; [contradiction|contradiction|exact G].
  Qed.
End Files.

(* ---------- $GENERATE ---------- *)
(* a parser with generateDisallowed never starts an expansion *)
Lemma zloop_no_generate cf p st k toks l p' rest :
  c_gd cf = true -> zloop cf p st k toks <> NGenerate l p' rest.
Proof.
  intros G E. pose proof (zloop_ok cf toks p st k) as Z. rewrite E in Z. cbn in Z.
  destruct Z as [_ [_ [_ Z]]]. congruence.
Qed.
(* a parser on which includes are not allowed never asks for a file *)
Lemma zloop_no_include cf p st k toks l o p' rest :
  c_inc cf = false -> zloop cf p st k toks <> NInclude l o p' rest.
Proof.
  intros G E. pose proof (zloop_ok cf toks p st k) as Z. rewrite E in Z. cbn in Z.
  destruct Z as [_ [_ [_ Z]]]. congruence.
Qed.

Open Scope Z_scope.
(* an accepted range has at most 65536 iterator values *)
Lemma parse_range_bound token a b st :
  parse_range token = inr (a, b, st) ->
  0 <= a <= b /\ 0 < st /\ (b - a) / st + 1 <= 65536.
Proof.
  unfold parse_range.
  destruct (index_of 47%N token 0) as [i|].
  - destruct (Nat.eqb _ _); [discriminate|].
    destruct (parse_int64 _) as [s|]; [|discriminate].
    destruct (s <=? 0) eqn:S; [discriminate|].
    destruct (cut _ _) as [[ss es] ok]. destruct (negb ok); [discriminate|].
    destruct (parse_int64 ss) as [x|]; [|discriminate].
    destruct (parse_int64 es) as [y|]; [|discriminate].
    destruct ((y <? 0) || (x <? 0) || (y <? x) || (65535 <? (y - x) / s)) eqn:C; [discriminate|].
    intro E. injection E as <- <- <-. lia.
  - destruct (cut _ _) as [[ss es] ok]. destruct (negb ok); [discriminate|].
    destruct (parse_int64 ss) as [x|]; [|discriminate].
    destruct (parse_int64 es) as [y|]; [|discriminate].
    destruct ((y <? 0) || (x <? 0) || (y <? x) || (65535 <? (y - x) / 1)) eqn:C; [discriminate|].
    intro E. injection E as <- <- <-. lia.
Qed.
Lemma gen_count_bound token a b st :
  parse_range token = inr (a, b, st) -> Z.of_nat (gen_count a b st) <= 65536.
Proof.
  intro H. apply parse_range_bound in H. unfold gen_count. lia.
Qed.
Open Scope N_scope.

(* line ends in an octet string *)
Fixpoint count_nl (s : bytes) : nat :=
  match s with [] => O | c :: r => if c =? 10 then S (count_nl r) else count_nl r end.
Lemma count_nl_app a b : count_nl (a ++ b) = (count_nl a + count_nl b)%nat.
Proof. induction a as [|c a IH]; cbn; [reflexivity|]. destruct (c =? 10); lia. Qed.
Lemma count_nl_rev a : count_nl (rev a) = count_nl a.
Proof.
  induction a as [|c a IH]; cbn; [reflexivity|]. rewrite count_nl_app, IH. cbn.
  destruct (c =? 10); lia.
Qed.
Lemma count_nl_frev a : count_nl (frev a) = count_nl a.
Proof. rewrite frev_rev. apply count_nl_rev. Qed.

Lemma digits_no_nl fuel : forall radix up n acc,
  count_nl (digits_go fuel radix up n acc) = count_nl acc.
Proof.
  induction fuel as [|f IH]; intros radix up n acc; cbn [digits_go]; [reflexivity|].
  cbv zeta.
  assert (K : forall c, c = (if n mod radix <? 10 then 48 + n mod radix
                            else (if up then 55 else 87) + n mod radix) ->
                        count_nl (c :: acc) = count_nl acc).
  { intros c ->. cbn [count_nl]. destruct (n mod radix <? 10) eqn:E.
    - replace (48 + n mod radix =? 10) with false by (symmetry; apply N.eqb_neq; lia). reflexivity.
    - destruct up.
      + replace (55 + n mod radix =? 10) with false by (symmetry; apply N.eqb_neq; lia). reflexivity.
      + replace (87 + n mod radix =? 10) with false by (symmetry; apply N.eqb_neq; lia). reflexivity. }
  destruct (n <? radix); [now apply K|]. rewrite IH. now apply K.
Qed.
Lemma repeat_no_nl n : count_nl (repeat 48 n) = O.
Proof. induction n; cbn; auto. Qed.
Lemma fmt_int_no_nl w b v : count_nl (fmt_int w b v) = O.
Proof.
  unfold fmt_int. cbv zeta. rewrite !count_nl_app, repeat_no_nl, digits_no_nl.
  destruct (v <? 0)%Z; reflexivity.
Qed.

(* one pass of the generate reader delivers no more line ends than the text has *)
Lemma gen_line_nl whole rest : forall si skip esc cur start stop acc,
  (count_nl (fst (gen_line whole rest si skip esc cur start stop acc)) <= count_nl acc + count_nl rest)%nat.
Proof.
  induction rest as [|c r IH]; intros si skip esc cur start stop acc; cbn [gen_line].
  - cbn. rewrite count_nl_frev. lia.
  - assert (Hc : (count_nl r <= count_nl (c :: r))%nat) by (cbn; destruct (c =? 10); lia).
    assert (Hd : (count_nl (c :: acc) + count_nl r = count_nl acc + count_nl (c :: r))%nat)
      by (cbn; destruct (c =? 10); lia).
    assert (H92 : forall a, count_nl (92 :: a) = count_nl a) by reflexivity.
    assert (H36 : forall a, count_nl (36 :: a) = count_nl a) by reflexivity.
    remember (count_nl (c :: r)) as M eqn:HM. clear HM.
    destruct skip as [|k]; [|eapply Nat.le_trans; [apply IH|lia]].
    destruct (c =? 92) eqn:C92.
    { destruct esc; (eapply Nat.le_trans; [apply IH|]); rewrite ?H92; lia. }
    destruct (c =? 36) eqn:C36.
    { destruct esc; [eapply Nat.le_trans; [apply IH|]; rewrite ?H36; lia|].
      destruct r as [|c1 r1].
      { cbn [fst]. rewrite count_nl_app, count_nl_frev, fmt_int_no_nl. lia. }
      destruct (c1 =? 36); [eapply Nat.le_trans; [apply IH|]; rewrite ?H36; lia|].
      destruct (c1 =? 123).
      - destruct (index_of 125 r1 0); [|cbn [fst]; rewrite count_nl_frev; lia].
        destruct (mod_to_printf _) as [m|[[w b] off]]; [cbn [fst]; rewrite count_nl_frev; lia|].
        destruct (_ || _); [cbn [fst]; rewrite count_nl_frev; lia|].
        eapply Nat.le_trans; [apply IH|]. rewrite count_nl_app, count_nl_frev, fmt_int_no_nl. lia.
      - eapply Nat.le_trans; [apply IH|]. rewrite count_nl_app, count_nl_frev, fmt_int_no_nl. lia. }
    destruct esc; (eapply Nat.le_trans; [apply IH|]); lia.
Qed.

(* the reader makes at most [fuel] passes *)
Lemma gen_iter_nl fuel : forall s esc cur start stop step,
  (count_nl (fst (gen_iter fuel s esc cur start stop step)) <= fuel * (count_nl s + 1))%nat.
Proof.
  induction fuel as [|f IH]; intros s esc cur start stop step; cbn [gen_iter]; [cbn; lia|].
  pose proof (gen_line_nl s s 0 O esc cur start stop []) as L. cbn [count_nl] in L.
  destruct (gen_line s s 0 0 esc cur start stop []) as [out [esc'|e]]; cbn [fst] in *; [|lia].
  destruct (_ || _).
  - cbn [fst]. rewrite count_nl_app. cbn. lia.
  - specialize (IH s esc' (wrap64 (cur + step)) start stop step).
    destruct (gen_iter f s esc' (wrap64 (cur + step)) start stop step) as [more e]. cbn [fst] in *.
    rewrite count_nl_app. cbn. lia.
Qed.

(* the text a $GENERATE hands to its sub parser has at most 65536 line ends per
   line of its right-hand side *)
Lemma generate_lines_bound token a b st s :
  parse_range token = inr (a, b, st) ->
  (Z.of_nat (count_nl (fst (gen_bytes s a b st))) <= 65536 * (Z.of_nat (count_nl s) + 1))%Z.
Proof.
  intro H. unfold gen_bytes.
  pose proof (gen_iter_nl (gen_count a b st) s false a a b st) as L.
  apply gen_count_bound in H. nia.
Qed.

(* ---------- witnesses (the hypotheses of the theorems are satisfiable, and the
   stronger statements the code does not meet are refuted) ---------- *)
Definition no_files : bytes -> option bytes := fun _ => None.
Definition ex_origin : bytes := B "example.".
Definition is_rec (e : ev) : bool := match e with ERec _ => true | _ => false end.
Definition is_err (e : ev) : bool := match e with EErr _ => true | _ => false end.
Definition is_open (e : ev) : bool := match e with EOpen _ _ _ _ => true | _ => false end.
Definition count_ev (f : ev -> bool) (l : list ev) : nat := length (filter f l).
Definition last_err_msg (l : list ev) : bytes :=
  match last l EFuel with EErr e => e_msg e | _ => [] end.
Definition last_err_line (l : list ev) : N :=
  match last l EFuel with EErr e => t_line (e_tok e) | _ => 99 end.
Definition nl : string := String (ascii_of_N 10) EmptyString.
Definition bsl : string := String (ascii_of_N 92) EmptyString.

(* an error in the middle of a zone: one record, the error, nothing after *)
Example ex_sticky :
  let evs := parse_zone no_files no_files ex_origin [] (Some 3600) false false
               (B ("a 5 A 1.2.3.4" +++ nl +++ "b 5 A x" +++ nl +++ "c 5 A 1.2.3.4" +++ nl)) in
  map is_rec evs = [true; false] /\ last_err_msg evs = B "bad A A" /\ last_err_line evs = 2.
Proof. vm_compute. repeat split. Qed.

(* a lexer error token exists and ends the stream *)
Example ex_lex_err :
  map t_err (lex (B ("a ) b" +++ nl))) = [false; false; true].
Proof. vm_compute. reflexivity. Qed.

(* $GENERATE directly inside $GENERATE is rejected *)
Example ex_nested_generate :
  let evs := parse_zone no_files no_files ex_origin [] (Some 3600) false false
               (B ("$GENERATE 0-1 " +++ bsl +++ "$GENERATE 0-1 a$ 5 A 1.2.3.4" +++ nl)) in
  count_ev is_rec evs = O /\ last_err_msg evs = B "nested $GENERATE directive not allowed".
Proof. vm_compute. split; reflexivity. Qed.

(* ... but a $GENERATE in a file included from a generated $INCLUDE line is
   expanded: 2 x 2 records *)
Definition inc_file (p : bytes) : option bytes :=
  if bytes_eqb p (B "inc.zone") then Some (B ("$GENERATE 0-1 b$ 5 A 1.2.3.4" +++ nl)) else None.
Example ex_nested_generate_via_include :
  let evs := parse_zone no_files inc_file ex_origin [] (Some 3600) true false
               (B ("$GENERATE 0-1 " +++ bsl +++ "$INCLUDE inc.zone" +++ nl)) in
  count_ev is_rec evs = 4%nat /\ count_ev is_err evs = O.
Proof. vm_compute. split; reflexivity. Qed.

(* a file that includes itself: seven opens, then "too deeply nested" *)
Definition self_file (p : bytes) : option bytes := Some (B ("$INCLUDE self" +++ nl)).
Example ex_self_include :
  let evs := parse_zone self_file no_files ex_origin [] (Some 3600) true true
               (B ("$INCLUDE self" +++ nl)) in
  count_ev is_open evs = 7%nat /\ last_err_msg evs = B "too deeply nested $INCLUDE".
Proof. vm_compute. split; reflexivity. Qed.

(* the same text with includes not allowed: no open, an error *)
Example ex_include_not_allowed :
  let evs := parse_zone self_file self_file ex_origin [] (Some 3600) false true
               (B ("$INCLUDE self" +++ nl)) in
  count_ev is_open evs = O /\ last_err_msg evs = B "$INCLUDE directive not allowed".
Proof. vm_compute. split; reflexivity. Qed.

(* the error position that is missing: a range at the very end of the input *)
Example ex_error_line_zero :
  let evs := parse_zone no_files no_files ex_origin [] (Some 3600) false false (B "$GENERATE 0-1") in
  last_err_msg evs = B "garbage after $GENERATE range" /\ last_err_line evs = 0.
Proof. vm_compute. split; reflexivity. Qed.

(* one $GENERATE step can yield two records: a quoted line break in the
   right-hand side survives the rewriting *)
Definition two_per_step : bytes :=
  B ("$GENERATE 0-1 a$ 5 TXT " +++ bsl +++ bsl +++ """" +++ nl +++ "b$ 5 TXT " +++ bsl +++ bsl +++ """" +++ nl).
Example ex_generate_two_per_step :
  let evs := parse_zone no_files no_files ex_origin [] (Some 3600) false false two_per_step in
  count_ev is_rec evs = 4%nat /\ count_ev is_err evs = O.
Proof. vm_compute. split; reflexivity. Qed.

Example ex_range_ok : parse_range (B "0-65535") = inr (0, 65535, 1)%Z.
Proof. vm_compute. reflexivity. Qed.
Example ex_range_too_big : parse_range (B "0-65536") = inl "bad range in $GENERATE range"%string.
Proof. vm_compute. reflexivity. Qed.
