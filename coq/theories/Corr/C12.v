(* Corr/C12.v — case runner for property C12 (framing, ID matching).  Streams
   are given as recipes both sides expand (Model/Frame.v prng / cut), so that
   65535-octet frames need no long literals. *)
From Dns Require Import Model.Frame.
Open Scope N_scope.
Open Scope string_scope.

Fixpoint split_aux (c : ascii) (s : string) (cur : string -> string) : list string :=
  match s with
  | EmptyString => [cur EmptyString]
  | String a r =>
    if Ascii.eqb a c then cur EmptyString :: split_aux c r (fun x => x)
    else split_aux c r (fun x => cur (String a x))
  end.
Definition split_on (c : ascii) (s : string) : list string :=
  match s with EmptyString => [] | _ => split_aux c s (fun x => x) end.
Definition comma : ascii := ","%char.
Definition dot : ascii := "."%char.
Definition tail (s : string) : string := match s with String _ r => r | _ => s end.
Definition head (s : string) : ascii := match s with String a _ => a | _ => " "%char end.

(* recipe n<id>.<L>.<seed>: a response header with ANCOUNT 1 and one NULL record
   (owner root) with L octets of RDATA from a 16-bit congruential generator (cheap
   to expand: these cases carry many octets); 23+L octets *)
Fixpoint fill (n : nat) (x : N) : bytes :=
  match n with
  | O => []
  | S k => let x' := N.land (5 * x + 1) 65535 in N.shiftr x' 8 :: fill k x'
  end.
Definition null_reply (id l seed : N) : bytes :=
  (u16 id ++ [128; 0; 0; 0; 0; 1; 0; 0; 0; 0] ++ [0; 0; 10; 0; 1; 0; 0; 0; 0] ++ u16 l
       ++ fill (N.to_nat l) (N.land seed 65535))%list.

(* one item of a stream recipe *)
Definition expand_item (s : string) : bytes :=
  let k := head s in
  let f := split_on dot (tail s) in
  let n i := undec (nth i f "") in
  if Ascii.eqb k "x"%char then unhex (tail s)
  else if Ascii.eqb k "f"%char then (u16 (n 0%nat) ++ prng (N.to_nat (n 0%nat)) (n 1%nat))%list
  else if Ascii.eqb k "p"%char then prng (N.to_nat (n 0%nat)) (n 1%nat)
  else if Ascii.eqb k "m"%char then (u16 (n 1%nat) ++ u16 (n 0%nat) ++ prng (N.to_nat (n 1%nat - 2)) (n 2%nat))%list
  else if Ascii.eqb k "n"%char then null_reply (n 0%nat) (n 1%nat) (n 2%nat)
  else [].
Definition expand (s : string) : bytes := flat_map expand_item (split_on comma s).
Definition sizes (s : string) : list nat := map undecn (split_on comma s).
Definition chunks (stream sz : string) : list bytes := cut (sizes sz) (expand stream).

Definition render (m : bytes) : string :=
  if Nat.leb (length m) 24 then "h" +++ hex m
  else "L" +++ decn (length m) +++ "S" +++ dec (wsum m 0 0).

Definition show_msgs (r : res (list bytes * string)) : string :=
  match r with
  | Ok (ms, e) => join "," (map render ms) +++ "|" +++ e
  | Panic => "panic"
  | _ => "outoffuel"
  end.

Definition show_client (r : res (list (res bytes) * string)) : string :=
  match r with
  | Ok (ms, e) =>
    join "," (map (fun x => match x with Ok m => render m | Err c => "err:" +++ c | _ => "?" end) ms)
    +++ "|" +++ e
  | Panic => "panic"
  | _ => "outoffuel"
  end.

(* Conn.Read repeated until it fails *)
Fixpoint conn_read_all (fuel bufsize : nat) (cs : list bytes) : list bytes * string :=
  match fuel with
  | O => ([], "outoffuel")
  | S f =>
    match conn_read bufsize cs with
    | FrMsg m rest => let r := conn_read_all f bufsize rest in (m :: fst r, snd r)
    | FrErr c _ => ([], c)
    | FrEnd c => ([], c)
    end
  end.

Definition show_write (m : bytes) : string :=
  match write_frame m with
  | Ok w => "ok:" +++ decn (length w) +++ ":" +++ hex (firstn 2 w) +++ ":S" +++ dec (wsum w 0 0)
  | Err c => "err:" +++ c
  | _ => "panic"
  end.

Definition decodes_of (bad : string) : bytes -> bool :=
  let l := map unhex (split_on comma bad) in
  fun m => negb (existsb (bytes_eqb m) l).

Definition show_x (r : res bytes) : string :=
  match r with
  | Ok m => "ok:" +++ render m
  | Err c => "err:" +++ c
  | Panic => "panic"
  | OutOfFuel => "outoffuel"
  end.

(* timed datagram exchange (times in microseconds):
   args = qid, Client.Timeout, Client.ReadTimeout, context deadline or "none",
   foreign stream "first.every.count", foreign IDs "a.b.c" (used cyclically, each
   reply a bare 12-octet response header), matching reply "at:hex" or "" *)
Definition hdr_only (id : N) : bytes := (u16 id ++ [128; 0; 0; 0; 0; 0; 0; 0; 0; 0])%list.

Fixpoint foreign_stream (n : nat) (at_ every : N) (ids rest : list N) : list (N * bytes) :=
  match n with
  | O => []
  | S n' =>
    match rest with
    | [] => match ids with
            | [] => []
            | id :: r => (at_, hdr_only id) :: foreign_stream n' (N.add at_ every) every ids r
            end
    | id :: r => (at_, hdr_only id) :: foreign_stream n' (N.add at_ every) every ids r
    end
  end.

(* the matching reply takes its place in arrival order (before a foreign reply of the same instant) *)
Fixpoint insert_arrival (a : N * bytes) (l : list (N * bytes)) : list (N * bytes) :=
  match l with
  | [] => [a]
  | b :: r => if (fst a <=? fst b)%N then a :: l else b :: insert_arrival a r
  end.

Definition timed_arrivals (stream ids mtch : string) : list (N * bytes) :=
  let f := split_on dot stream in
  let idl := map undec (split_on dot ids) in
  let fs := match idl with
            | [] => []
            | _ => foreign_stream (undecn (nth 2 f "")) (undec (nth 0 f "")) (undec (nth 1 f "")) idl idl
            end in
  match split_on ":"%char mtch with
  | [t; h] => insert_arrival (undec t, unhex h) fs
  | _ => fs
  end.

Definition run_timed (args : list string) : string :=
  let ctx := if String.eqb (arg args 3) "none" then None else Some (undec (arg args 3)) in
  let d := exchange_deadline (undec (arg args 1)) (undec (arg args 2)) ctx in
  show_x (exchange_dgram_timed (fun _ => true) 512 (undec (arg args 0)) d
                               (timed_arrivals (arg args 4) (arg args 5) (arg args 6))).

(* a session on one datagram Conn: args = Client.UDPSize, Conn.UDPSize at the start,
   then one argument per exchange, qid;opt;datagrams (opt = none or the OPT size;
   datagrams = recipe items, each one datagram).  Of the octet strings that can
   occur, exactly the scripted datagrams themselves decode (no cut of one does;
   the harness checks that of every datagram it scripts). *)
Definition parse_x (s : string) : N * option N * list bytes :=
  let f := split_on ";"%char s in
  let opt := if String.eqb (nth 1 f "") "none" then None else Some (undec (nth 1 f "")) in
  (undec (nth 0 f ""), opt, map expand_item (split_on comma (nth 2 f ""))).

Definition run_session (args : list string) : string :=
  let xs := map parse_x (skipn 2 args) in
  let all := flat_map (fun x => snd x) xs in
  join "," (map show_x (exchange_session (fun p => existsb (bytes_eqb p) all)
                                         (undec (arg args 0)) (undec (arg args 1)) [] xs)).

Definition run (fn : string) (args : list string) : string :=
  if String.eqb fn "readtcp" then
    show_msgs (serve_tcp (undecn (arg args 2)) (chunks (arg args 0) (arg args 1)))
  else if String.eqb fn "readclient" then
    let cs := chunks (arg args 0) (arg args 1) in
    show_client (read_all_client (S (stream_len cs)) cs)
  else if String.eqb fn "connread" then
    let cs := chunks (arg args 1) (arg args 2) in
    let r := conn_read_all (S (stream_len cs)) (undecn (arg args 0)) cs in
    join "," (map render (fst r)) +++ "|" +++ snd r
  else if String.eqb fn "write" then
    show_write (prng (undecn (arg args 0)) (undec (arg args 1)))
  else if String.eqb fn "xstream" then
    show_x (exchange_stream (decodes_of (arg args 3)) (undec (arg args 0)) (chunks (arg args 1) (arg args 2)))
  else if String.eqb fn "xdgram" then
    show_x (exchange_dgram (decodes_of (arg args 3)) (undecn (arg args 1)) (undec (arg args 0))
                           (map (fun x => unhex (tail x)) (split_on comma (arg args 2))))
  else if String.eqb fn "xtimed" then run_timed args
  else if String.eqb fn "xsession" then run_session args
  else "unknown-fn".
