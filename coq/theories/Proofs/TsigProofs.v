(* Proofs/TsigProofs.v — lemmas about Model/Tsig.v *)
From Coq Require Import Lia ZifyN ZifyNat ZifyBool.
From Dns Require Import Base.ListX Model.Tsig Proofs.WireProofs.
Open Scope N_scope.

Ltac Zify.zify_post_hook ::= Z.div_mod_to_equations.
Ltac lens := repeat (rewrite lenN_app || rewrite lenN_cons || rewrite lenN_nil ||
                     rewrite len_u16 || rewrite len_u32 || rewrite len_u48).

Lemma time_delta_sym a b : time_delta a b = time_delta b a.
Proof.
  unfold time_delta. destruct (a <? b) eqn:E1; destruct (b <? a) eqn:E2;
    try apply N.ltb_lt in E1; try apply N.ltb_lt in E2;
    try apply N.ltb_ge in E1; try apply N.ltb_ge in E2; lia.
Qed.

(* ---------- equality test on octet strings ---------- *)
Lemma bytes_eqb_eq a : forall b, bytes_eqb a b = true <-> a = b.
Proof.
  unfold bytes_eqb. induction a as [|x a IH]; intros [|y b]; cbn; split; intros H;
    try reflexivity; try discriminate.
  - apply andb_prop in H. destruct H as [H1 H2]. apply N.eqb_eq in H1. apply IH in H2. now subst.
  - inversion H; subst. rewrite N.eqb_refl. cbn. now apply IH.
Qed.
Lemma bytes_eqb_refl a : bytes_eqb a a = true.
Proof. now apply bytes_eqb_eq. Qed.

(* ---------- the header ---------- *)
Lemma mod_small_16 v : v < 65536 -> v mod 65536 = v.
Proof. intros H. now apply N.mod_small. Qed.

Lemma unpack_hdr_wire h rest : hdr_ok h -> unpack_hdr (hdr_wire h ++ rest) = Ok (h, 12).
Proof.
  intros (H1 & H2 & H3 & H4 & H5 & H6). destruct h as [id bits qd an ns ar].
  cbn [h_id h_bits h_qd h_an h_ns h_ar] in *.
  unfold unpack_hdr, hdr_wire. cbn [h_id h_bits h_qd h_an h_ns h_ar].
  set (msg := (u16 id ++ u16 bits ++ u16 qd ++ u16 an ++ u16 ns ++ u16 ar) ++ rest).
  assert (D0 : dropN 0 msg = u16 id ++ u16 bits ++ u16 qd ++ u16 an ++ u16 ns ++ u16 ar ++ rest).
  { unfold msg. rewrite <- !app_assoc. reflexivity. }
  destruct (rd_view 2 msg 0 _ _ (N.le_0_l _) D0 (len_u16 _)) as (R1 & B1 & D1).
  rewrite R1. cbn [bind].
  destruct (rd_view 2 msg _ _ _ B1 D1 (len_u16 _)) as (R2 & B2 & D2). rewrite R2. cbn [bind].
  destruct (rd_view 2 msg _ _ _ B2 D2 (len_u16 _)) as (R3 & B3 & D3). rewrite R3. cbn [bind].
  destruct (rd_view 2 msg _ _ _ B3 D3 (len_u16 _)) as (R4 & B4 & D4). rewrite R4. cbn [bind].
  destruct (rd_view 2 msg _ _ _ B4 D4 (len_u16 _)) as (R5 & B5 & D5). rewrite R5. cbn [bind].
  destruct (rd_view 2 msg _ _ _ B5 D5 (len_u16 _)) as (R6 & B6 & D6). rewrite R6. cbn [bind].
  rewrite !be_u16, !mod_small_16 by assumption. reflexivity.
Qed.

Lemma len_hdr_wire h : lenN (hdr_wire h) = 12.
Proof. reflexivity. Qed.

Lemma put_id_wire h rest v : put_u16 (hdr_wire h ++ rest) 0 v = Ok (hdr_wire (set_id h v) ++ rest).
Proof.
  unfold put_u16. rewrite lenN_app, len_hdr_wire.
  replace (0 + 2 <=? 12 + lenN rest) with true by (symmetry; apply N.leb_le; lia).
  destruct h as [id bits qd an ns ar]. reflexivity.
Qed.

Lemma put_ar_wire h rest v : put_u16 (hdr_wire h ++ rest) 10 v = Ok (hdr_wire (set_ar h v) ++ rest).
Proof.
  unfold put_u16. rewrite lenN_app, len_hdr_wire.
  replace (10 + 2 <=? 12 + lenN rest) with true by (symmetry; apply N.leb_le; lia).
  destruct h as [id bits qd an ns ar]. reflexivity.
Qed.

Lemma be_ar_wire h rest : be_at 2 (hdr_wire h ++ rest) 10 = Ok (h_ar h mod 65536).
Proof.
  unfold be_at. rewrite lenN_app, len_hdr_wire.
  replace (10 + 2 <=? 12 + lenN rest) with true by (symmetry; apply N.leb_le; lia).
  destruct h as [id bits qd an ns ar]. f_equal.
  change (get (hdr_wire (Build_hdr id bits qd an ns ar) ++ rest) 10 2) with (u16 ar).
  apply be_u16.
Qed.

(* ---------- decoding an explicitly built TSIG RDATA ---------- *)
Lemma view_more (m : bytes) o enc rest :
  o <= lenN m -> dropN o m = enc ++ rest -> 0 < lenN enc -> (o =? lenN m) = false.
Proof.
  intros Ho Hd Hl. apply N.eqb_neq. intros E.
  assert (L : lenN (dropN o m) = lenN enc + lenN rest) by (rewrite Hd; apply lenN_app).
  rewrite lenN_dropN in L. lia.
Qed.
Lemma view_end (m : bytes) o : o <= lenN m -> dropN o m = [] -> o = lenN m.
Proof.
  intros Ho Hd. assert (L : lenN (dropN o m) = 0) by (rewrite Hd; reflexivity).
  rewrite lenN_dropN in L. lia.
Qed.

Lemma tsig_unpack_wire m off r :
  off <= lenN m -> dropN off m = tsig_rdata r ->
  valid_wire (t_alg r) = true -> t_time r < 281474976710656 -> t_fudge r < 65536 ->
  t_macsize r = lenN (t_mac r) -> lenN (t_mac r) < 65536 -> t_origid r < 65536 ->
  t_error r < 65536 -> t_otherlen r = lenN (t_other r) -> lenN (t_other r) < 65536 ->
  tsig_unpack m off = Ok (r, lenN m).
Proof.
  intros Hoff Hd Hv Ht Hf Hms Hml Ho He Hol Holl.
  destruct r as [alg time fudge macsize mac origid err olen other].
  cbn [t_alg t_time t_fudge t_macsize t_mac t_origid t_error t_otherlen t_other] in *.
  unfold tsig_rdata in Hd.
  cbn [t_alg t_time t_fudge t_macsize t_mac t_origid t_error t_otherlen t_other] in Hd.
  unfold tsig_unpack.
  destruct (name_view m off alg _ Hoff Hd Hv) as (R1 & B1 & D1). rewrite R1. cbn [bind].
  rewrite (view_more m _ _ _ B1 D1) by (rewrite len_u48; lia).
  destruct (rd_view 6 m _ _ _ B1 D1 (len_u48 _)) as (R2 & B2 & D2). rewrite R2. cbn [bind].
  rewrite (view_more m _ _ _ B2 D2) by (rewrite len_u16; lia).
  destruct (rd_view 2 m _ _ _ B2 D2 (len_u16 _)) as (R3 & B3 & D3). rewrite R3. cbn [bind].
  rewrite (view_more m _ _ _ B3 D3) by (rewrite len_u16; lia).
  destruct (rd_view 2 m _ _ _ B3 D3 (len_u16 _)) as (R4 & B4 & D4). rewrite R4. cbn [bind].
  rewrite be_u48, !be_u16.
  rewrite (N.mod_small time) by assumption.
  rewrite (mod_small_16 fudge) by assumption.
  rewrite (mod_small_16 macsize) by lia.
  assert (D4' : dropN (off + lenN (wire_name alg) + 6 + 2 + 2) m =
                mac ++ u16 origid ++ u16 err ++ u16 olen ++ other) by exact D4.
  assert (V4 : (off + lenN (wire_name alg) + 6 + 2 + 2 =? lenN m) = false).
  { apply N.eqb_neq. intros E.
    assert (L : lenN (dropN (off + lenN (wire_name alg) + 6 + 2 + 2) m) =
                lenN mac + (2 + (2 + (2 + lenN other)))) by (rewrite D4'; lens; reflexivity).
    rewrite lenN_dropN in L. lia. }
  rewrite V4.
  destruct (rd_hex_view macsize m _ _ _ B4 D4' (eq_sym Hms)) as (R5 & B5 & D5). rewrite R5. cbn [bind].
  destruct (rd_view 2 m _ _ _ B5 D5 (len_u16 _)) as (R6 & B6 & D6). rewrite R6. cbn [bind].
  rewrite (view_more m _ _ _ B6 D6) by (rewrite len_u16; lia).
  destruct (rd_view 2 m _ _ _ B6 D6 (len_u16 _)) as (R7 & B7 & D7). rewrite R7. cbn [bind].
  rewrite (view_more m _ _ _ B7 D7) by (rewrite len_u16; lia).
  destruct (rd_view 2 m _ _ _ B7 D7 (len_u16 _)) as (R8 & B8 & D8). rewrite R8. cbn [bind].
  rewrite !be_u16.
  rewrite (mod_small_16 origid) by assumption.
  rewrite (mod_small_16 err) by assumption.
  rewrite (mod_small_16 olen) by lia.
  set (o8 := off + lenN (wire_name alg) + 6 + 2 + 2 + macsize + 2 + 2 + 2) in *.
  destruct other as [|x other'].
  - pose proof (view_end m _ B8 D8) as E8.
    replace (o8 =? lenN m) with true by (symmetry; apply N.eqb_eq; exact E8).
    subst olen. rewrite E8. reflexivity.
  - assert (D8' : dropN o8 m = (x :: other') ++ []) by (rewrite app_nil_r; exact D8).
    rewrite (view_more m _ _ _ B8 D8') by (rewrite lenN_cons; lia).
    destruct (rd_hex_view olen m _ _ _ B8 D8' (eq_sym Hol)) as (R9 & B9 & D9).
    rewrite R9. cbn [bind]. f_equal. f_equal. exact (view_end m _ B9 D9).
Qed.

(* ---------- decoding an explicitly built TSIG record ---------- *)
Lemma dropN_takeN {A} (l : list A) a n : dropN a (takeN (a + n) l) = takeN n (dropN a l).
Proof.
  unfold dropN, takeN. rewrite skipn_firstn_comm. f_equal. lia.
Qed.

Lemma len_tsig_rdata r :
  lenN (tsig_rdata r) = lenN (wire_name (t_alg r)) + 16 + lenN (t_mac r) + lenN (t_other r).
Proof. unfold tsig_rdata. lens. lia. Qed.
Lemma len_wire_name ls : 1 <= lenN (wire_name ls).
Proof. unfold wire_name. lens. lia. Qed.

Section StripFacts.
  Variable chk : N -> bytes -> N -> res N.

  Lemma unpack_rr_tsig msg off t rest :
    off <= lenN msg -> dropN off msg = tsig_rr_wire t ++ rest -> wf_tsig t ->
    unpack_rr chk false msg off =
      Ok (Build_rrv (k_name t) TypeTSIG (k_class t) (k_ttl t) (lenN (tsig_rdata (k_rd t))) (k_rd t),
          off + lenN (tsig_rr_wire t)).
  Proof.
    intros Hoff Hd (V1 & V2 & Hc & Httl & Htime & Hf & Hoid & Herr & Hms & Hml & Hol & Holl & Hrl).
    unfold unpack_rr. cbn [negb andb].
    unfold tsig_rr_wire in Hd. rewrite <- !app_assoc in Hd.
    rewrite (view_more msg _ _ _ Hoff Hd) by (pose proof (len_wire_name (k_name t)); lia).
    destruct (name_view msg off _ _ Hoff Hd V1) as (R1 & B1 & D1). rewrite R1. cbn [bind].
    destruct (rd_view 2 msg _ _ _ B1 D1 (len_u16 _)) as (R2 & B2 & D2). rewrite R2. cbn [bind].
    destruct (rd_view 2 msg _ _ _ B2 D2 (len_u16 _)) as (R3 & B3 & D3). rewrite R3. cbn [bind].
    destruct (rd_view 4 msg _ _ _ B3 D3 (len_u32 _)) as (R4 & B4 & D4). rewrite R4. cbn [bind].
    destruct (rd_view 2 msg _ _ _ B4 D4 (len_u16 _)) as (R5 & B5 & D5). rewrite R5. cbn [bind].
    rewrite !be_u16, be_u32.
    rewrite (mod_small_16 (k_class t)) by assumption.
    rewrite (N.mod_small (k_ttl t)) by assumption.
    rewrite (mod_small_16 (lenN _)) by assumption.
    change (TypeTSIG mod 65536) with TypeTSIG.
    set (o5 := off + lenN (wire_name (k_name t)) + 2 + 2 + 4 + 2) in *.
    set (rdata := tsig_rdata (k_rd t)) in *.
    assert (L5 : lenN msg - o5 = lenN rdata + lenN rest).
    { rewrite <- lenN_dropN, D5. apply lenN_app. }
    replace (lenN msg <? o5 + lenN rdata) with false by (symmetry; apply N.ltb_ge; lia).
    assert (Hpos : 17 <= lenN rdata).
    { unfold rdata. rewrite len_tsig_rdata. pose proof (len_wire_name (t_alg (k_rd t))). lia. }
    replace (lenN rdata =? 0) with false by (symmetry; apply N.eqb_neq; lia).
    change (TypeTSIG =? TypeTSIG) with true. cbv iota.
    set (m := takeN (o5 + lenN rdata) msg).
    assert (Lm : lenN m = o5 + lenN rdata) by (apply lenN_takeN; lia).
    assert (Dm : dropN o5 m = rdata).
    { unfold m. rewrite dropN_takeN, D5. apply takeN_app_exact. }
    assert (U : tsig_unpack m o5 = Ok (k_rd t, lenN m)).
    { apply tsig_unpack_wire; try assumption; lia. }
    rewrite U. cbn [bind]. rewrite Lm, N.eqb_refl. f_equal. f_equal.
    unfold o5, tsig_rr_wire. lens. fold rdata. lia.
  Qed.

  Lemma skip_plain_S n msg off :
    skip_plain chk (S n) msg off =
    bind (unpack_rr chk true msg off)
         (fun p => let '(rr, o) := p in
                   if rv_type rr =? TypeTSIG then Err "tsig" else skip_plain chk n msg o).
  Proof. reflexivity. Qed.
  Lemma find_tsig_S n msg off toff :
    find_tsig chk (S n) msg off toff =
    bind (unpack_rr chk false msg off)
         (fun p => let '(rr, o) := p in
                   if rv_type rr =? TypeTSIG then Ok (off, Some rr) else find_tsig chk n msg o off).
  Proof. reflexivity. Qed.

  Lemma find_after_plain n : forall msg s off o rr o' toff,
    skip_plain chk n msg off = Ok o ->
    unpack_rr chk false (msg ++ s) o = Ok (rr, o') -> rv_type rr = TypeTSIG ->
    find_tsig chk (n + 1) (msg ++ s) off toff = Ok (o, Some rr).
  Proof.
    induction n as [|n IH]; intros msg s off o rr o' toff Hs Hu Ht.
    - change (skip_plain chk 0 msg off) with (@Ok N off) in Hs. inversion Hs; subst o.
      change (0 + 1)%nat with 1%nat. rewrite find_tsig_S, Hu. cbn [bind].
      rewrite Ht. reflexivity.
    - rewrite skip_plain_S in Hs. inv_bind Hs. destruct a as [r1 o1].
      destruct (rv_type r1 =? TypeTSIG) eqn:E; [discriminate|].
      change (S n + 1)%nat with (S (n + 1)). rewrite find_tsig_S.
      destruct (unpack_rr_ext chk false _ s _ _ _ Ha) as [U _]. rewrite U. cbn [bind]. rewrite E.
      eapply IH; eassumption.
  Qed.

  Lemma strip_generated h body t rest oid :
    hdr_ok h -> h_ar h + 1 < 65536 -> oid < 65536 -> h_bits h mod 16 <> RcodeNotAuth ->
    wf_body chk h body -> wf_tsig t ->
    strip_tsig chk (hdr_wire (set_ar (set_id h oid) (h_ar h + 1)) ++ body ++ tsig_rr_wire t ++ rest)
    = Ok (hdr_wire (set_id h oid) ++ body, t, true).
  Proof.
    intros Hh Har Hoid Hrc Hwf Ht.
    set (h' := set_ar (set_id h oid) (h_ar h + 1)).
    assert (Hh' : hdr_ok h').
    { destruct Hh as (H1 & H2 & H3 & H4 & H5 & H6). unfold h', hdr_ok. cbn. repeat split; assumption. }
    set (s := tsig_rr_wire t ++ rest).
    set (msg := hdr_wire h' ++ body).
    assert (Eout : hdr_wire h' ++ body ++ s = msg ++ s) by (unfold msg; now rewrite app_assoc).
    assert (Lmsg : lenN msg = 12 + lenN body) by (unfold msg; rewrite lenN_app; reflexivity).
    unfold strip_tsig. rewrite (unpack_hdr_wire h' (body ++ s) Hh'). cbn [bind].
    replace (h_ar h' =? 0) with false by (symmetry; apply N.eqb_neq; unfold h'; cbn; lia).
    replace (h_bits h' mod 16 =? RcodeNotAuth) with false
      by (symmetry; apply N.eqb_neq; unfold h'; cbn; exact Hrc).
    specialize (Hwf (hdr_wire h') (len_hdr_wire h')). fold msg in Hwf.
    unfold walk_strict in Hwf.
    inv_bind Hwf. rename a into o1. inv_bind Hwf. rename a into o2. inv_bind Hwf. rename a into o3.
    rewrite Eout.
    change (h_qd h') with (h_qd h). change (h_an h') with (h_an h). change (h_ns h') with (h_ns h).
    rewrite (skip_questions_ext false _ _ s _ _ Ha). cbn [bind].
    rewrite (skip_rrs_ext chk false _ _ s _ _ Ha0). cbn [bind].
    rewrite (skip_rrs_ext chk false _ _ s _ _ Ha1). cbn [bind].
    assert (Dt : dropN (12 + lenN body) (msg ++ s) = tsig_rr_wire t ++ rest).
    { rewrite <- Lmsg. apply dropN_app_exact. }
    assert (Bt : 12 + lenN body <= lenN (msg ++ s)) by (rewrite lenN_app; lia).
    pose proof (unpack_rr_tsig _ _ _ _ Bt Dt Ht) as Ut.
    replace (N.to_nat (h_ar h')) with (N.to_nat (h_ar h) + 1)%nat by (unfold h'; cbn; lia).
    rewrite (find_after_plain _ _ s _ _ _ _ 0 Hwf Ut eq_refl). cbn [bind].
    rewrite <- Eout. rewrite be_ar_wire. cbn [bind].
    rewrite put_ar_wire. cbn [bind].
    replace ((h_ar h' mod 65536 + 65535) mod 65536) with (h_ar h) by (unfold h'; cbn; lia).
    replace (set_ar h' (h_ar h)) with (set_id h oid) by (destruct h; reflexivity).
    unfold slice.
    replace (hdr_wire (set_id h oid) ++ body ++ s) with ((hdr_wire (set_id h oid) ++ body) ++ s)
      by (now rewrite app_assoc).
    assert (L2 : lenN (hdr_wire (set_id h oid) ++ body) = 12 + lenN body) by (rewrite lenN_app; reflexivity).
    replace ((0 <=? 12 + lenN body) && (12 + lenN body <=? lenN ((hdr_wire (set_id h oid) ++ body) ++ s)))
      with true by (symmetry; apply andb_true_intro; split; apply N.leb_le; [lia|rewrite lenN_app; lia]).
    cbn [bind]. rewrite N.sub_0_r, dropN_0, <- L2, takeN_app_exact.
    unfold tsig_of_rr. cbn. destruct t; reflexivity.
  Qed.
End StripFacts.

(* ---------- tsigBuffer ---------- *)
Definition eff_time (t : tsig) (wall : N) : N := if k_time t =? 0 then wall else k_time t.
Definition eff_fudge (t : tsig) : N := if k_fudge t =? 0 then default_fudge else k_fudge t.

(* the RFC 8945 4.3 layout, written out *)
Definition rfc_request_mac (rm : bytes) : bytes := if lenN rm =? 0 then [] else u16 (lenN rm) ++ rm.
Definition rfc_variables (t : tsig) (time fudge : N) : bytes :=
  wire_name (canon (k_name t)) ++ u16 (k_class t) ++ u32 (k_ttl t) ++ wire_name (canon (k_alg t)) ++
  u48 time ++ u16 fudge ++ u16 (k_error t) ++ u16 (k_otherlen t) ++ k_other t.
Definition rfc_timers (time fudge : N) : bytes := u48 time ++ u16 fudge.

Lemma mac_part_ok rm mp : mac_part rm = Ok mp -> mp = rfc_request_mac rm.
Proof.
  unfold mac_part, rfc_request_mac. destruct (lenN rm =? 0); [now inversion 1|].
  destruct (2 * lenN rm <? 2 + lenN rm); [discriminate|now inversion 1].
Qed.

Lemma pack_name_ok ls w : pack_name ls = Ok w -> w = wire_name ls /\ valid_wire ls = true.
Proof. unfold pack_name. destruct (valid_wire ls); [inversion 1; auto|discriminate]. Qed.

Lemma tsig_vars_ok t v :
  tsig_vars t = Ok v -> v = rfc_variables t (k_time t) (k_fudge t).
Proof.
  unfold tsig_vars. intros H. inv_bind H. inv_bind H.
  apply pack_name_ok in Ha. apply pack_name_ok in Ha0. destruct Ha as [-> _]. destruct Ha0 as [-> _].
  destruct (default_msg_size <? _); [discriminate|]. inversion H. reflexivity.
Qed.

Lemma set_time_fudge_fields t time fudge :
  let t' := set_time_fudge t time fudge in
  k_name t' = k_name t /\ k_class t' = k_class t /\ k_ttl t' = k_ttl t /\ k_alg t' = k_alg t /\
  k_time t' = time /\ k_fudge t' = fudge /\ k_mac t' = k_mac t /\ k_origid t' = k_origid t /\
  k_error t' = k_error t /\ k_otherlen t' = k_otherlen t /\ k_other t' = k_other t.
Proof. cbn. repeat split. Qed.

Lemma tsig_buffer_spec msgbuf t rm timers wall buf t' mb :
  tsig_buffer msgbuf t rm timers wall = Ok (buf, t', mb) ->
  t' = set_time_fudge t (eff_time t wall) (eff_fudge t) /\
  put_u16 msgbuf 0 (k_origid t) = Ok mb /\
  buf = rfc_request_mac rm ++ mb ++
        (if timers then rfc_timers (eff_time t wall) (eff_fudge t)
         else rfc_variables t (eff_time t wall) (eff_fudge t)).
Proof.
  unfold tsig_buffer. fold (eff_time t wall). fold (eff_fudge t). intros H.
  inv_bind H. rename a into mb0. inv_bind H. rename a into mp. inv_bind H. rename a into vars.
  inversion H; subst; clear H. split; [reflexivity|]. split; [assumption|].
  apply mac_part_ok in Ha0. subst mp. f_equal. f_equal.
  destruct timers.
  - inversion Ha1. reflexivity.
  - apply tsig_vars_ok in Ha1. exact Ha1.
Qed.

(* ---------- stripTsig, tsigVerify: what success means ---------- *)
Lemma unpack_hdr_spec msg h off :
  unpack_hdr msg = Ok (h, off) -> off = 12 /\ 12 <= lenN msg /\ be (get msg 10 2) 0 = h_ar h.
Proof.
  unfold unpack_hdr. intros H.
  apply bind_ok in H. destruct H as ([id o1] & R1 & H).
  apply bind_ok in H. destruct H as ([bits o2] & R2 & H).
  apply bind_ok in H. destruct H as ([qd o3] & R3 & H).
  apply bind_ok in H. destruct H as ([an o4] & R4 & H).
  apply bind_ok in H. destruct H as ([ns o5] & R5 & H).
  apply bind_ok in H. destruct H as ([ar o6] & R6 & H).
  inversion H; subst; clear H. cbn [h_ar].
  destruct (rd_bounds _ _ _ _ _ R1) as [E1 _]. destruct (rd_bounds _ _ _ _ _ R2) as [E2 _].
  destruct (rd_bounds _ _ _ _ _ R3) as [E3 _]. destruct (rd_bounds _ _ _ _ _ R4) as [E4 _].
  destruct (rd_bounds _ _ _ _ _ R5) as [E5 _]. destruct (rd_bounds _ _ _ _ _ R6) as [E6 B6].
  subst o1 o2 o3 o4 o5.
  change (0 + 2 + 2 + 2 + 2 + 2) with 10 in *.
  split; [lia|]. split; [lia|].
  unfold rd in R6. destruct (lenN msg <? 10 + 2); [discriminate|]. now inversion R6.
Qed.

Section VerifyFacts.
  Variable hmac : halg -> bytes -> bytes -> bytes.
  Variable key_of : list label -> res bytes.
  Variable chk : N -> bytes -> N -> res N.

  Lemma find_tsig_some n : forall msg off toff to rr,
    find_tsig chk n msg off toff = Ok (to, Some rr) ->
    exists o', unpack_rr chk false msg to = Ok (rr, o') /\ rv_type rr = TypeTSIG.
  Proof.
    induction n as [|n IH]; intros msg off toff to rr H; [discriminate|].
    rewrite find_tsig_S in H. inv_bind H. destruct a as [r o].
    destruct (rv_type r =? TypeTSIG) eqn:E.
    - inversion H; subst. apply N.eqb_eq in E. eauto.
    - eapply IH; eassumption.
  Qed.

  (* without a TSIG record the Go code hands on new(TSIG) *)
  Lemma strip_not_found msg s t : strip_tsig chk msg = Ok (s, t, false) -> t = tsig0.
  Proof.
    unfold strip_tsig. intros H. inv_bind H. destruct a as [h off].
    destruct (h_ar h =? 0); [discriminate|].
    destruct (h_bits h mod 16 =? RcodeNotAuth); [discriminate|].
    inv_bind H. inv_bind H. inv_bind H. inv_bind H. destruct a2 as [toff found].
    destruct found as [rr|].
    - inv_bind H. inv_bind H. inv_bind H. inversion H.
    - inv_bind H. inversion H. reflexivity.
  Qed.

  (* with one: the stripped message is what precedes the record, ARCOUNT lowered by one *)
  Lemma strip_found msg s t :
    strip_tsig chk msg = Ok (s, t, true) ->
    exists h off rr o' msg',
      unpack_hdr msg = Ok (h, 12) /\ h_ar h <> 0 /\ h_bits h mod 16 <> RcodeNotAuth /\
      unpack_rr chk false msg off = Ok (rr, o') /\ rv_type rr = TypeTSIG /\ t = tsig_of_rr rr /\
      put_u16 msg 10 ((h_ar h + 65535) mod 65536) = Ok msg' /\ s = takeN off msg' /\ off <= lenN msg.
  Proof.
    unfold strip_tsig. intros H. inv_bind H. destruct a as [h off].
    destruct (h_ar h =? 0) eqn:E0; [discriminate|]. apply N.eqb_neq in E0.
    destruct (h_bits h mod 16 =? RcodeNotAuth) eqn:E1; [discriminate|]. apply N.eqb_neq in E1.
    inv_bind H. inv_bind H. inv_bind H. inv_bind H. destruct a2 as [toff found].
    destruct found as [rr|].
    - inv_bind H. rename a2 into ar. inv_bind H. rename a2 into msg'. inv_bind H. rename a2 into sl.
      inversion H; subst; clear H.
      destruct (find_tsig_some _ _ _ _ _ _ Ha3) as (o' & U & Ty).
      destruct (unpack_hdr_spec _ _ _ Ha) as (Hoff & Hlen & Harv). subst off.
      assert (Har : ar = h_ar h).
      { unfold be_at in Ha4. destruct (10 + 2 <=? lenN msg); [|discriminate].
        inversion Ha4. exact Harv. }
      subst ar.
      unfold slice in Ha6.
      destruct ((0 <=? toff) && (toff <=? lenN msg')) eqn:Es; [|discriminate].
      inversion Ha6 as [Hs6]. rewrite N.sub_0_r, dropN_0 in Hs6.
      apply andb_prop in Es. destruct Es as [_ Es]. apply N.leb_le in Es.
      assert (Lm : lenN msg' = lenN msg).
      { unfold put_u16 in Ha5. destruct (10 + 2 <=? lenN msg) eqn:E; [|discriminate].
        apply N.leb_le in E. inversion Ha5. lens. rewrite lenN_takeN, lenN_dropN by lia. lia. }
      exists h, toff, rr, o', msg'. repeat split; try assumption; try reflexivity; try (rewrite N.sub_0_r; reflexivity). lia.
    - inv_bind H. inversion H.
  Qed.

  Lemma alg_of_root : alg_of [] = None.
  Proof. reflexivity. Qed.

  Theorem verify_iff msg rm timers now wall :
    tsig_verify hmac key_of chk msg rm timers now wall = Ok tt <->
    exists s t found buf t' mb secret a,
      strip_tsig chk msg = Ok (s, t, found) /\
      tsig_buffer s t rm timers wall = Ok (buf, t', mb) /\
      key_of (k_name t') = Ok secret /\ alg_of (k_alg t') = Some a /\
      hmac a secret buf = k_mac t' /\ time_delta now (k_time t') <= k_fudge t'.
  Proof.
    unfold tsig_verify, provider_verify, provider_generate. split.
    - intros H.
      apply bind_ok in H. destruct H as ([[s t] found] & H1 & H).
      apply bind_ok in H. destruct H as ([[buf t'] mb] & H2 & H).
      apply bind_ok in H. destruct H as (u & H3 & H).
      apply bind_ok in H3. destruct H3 as (b & H3 & H5).
      apply bind_ok in H3. destruct H3 as (secret & H3 & H4).
      destruct (alg_of (k_alg t')) as [al|] eqn:Ea; [|discriminate]. inversion H4; subst b; clear H4.
      destruct (bytes_eqb _ _) eqn:Eb; [|discriminate]. apply bytes_eqb_eq in Eb.
      destruct (k_fudge t' <? _) eqn:Et; [discriminate|]. apply N.ltb_ge in Et.
      exists s, t, found, buf, t', mb, secret, al. repeat split; assumption.
    - intros (s & t & found & buf & t' & mb & secret & al & H1 & H2 & H3 & H4 & H5 & H6).
      rewrite H1. cbn [bind]. rewrite H2. cbn [bind]. rewrite H3. cbn [bind]. rewrite H4. cbn [bind].
      rewrite H5, bytes_eqb_refl.
      replace (k_fudge t' <? time_delta now (k_time t')) with false by (symmetry; apply N.ltb_ge; exact H6).
      reflexivity.
  Qed.

  (* a message in which stripTsig finds no TSIG record is never reported verified *)
  Theorem no_tsig_never_verified msg rm timers now wall s t :
    strip_tsig chk msg = Ok (s, t, false) ->
    tsig_verify hmac key_of chk msg rm timers now wall <> Ok tt.
  Proof.
    intros Hs Hv. apply verify_iff in Hv.
    destruct Hv as (s' & t0 & found & buf & t' & mb & secret & al & H1 & H2 & H3 & H4 & H5 & H6).
    rewrite Hs in H1. inversion H1; subst s' t0 found.
    apply strip_not_found in Hs. subst t.
    apply tsig_buffer_spec in H2. destruct H2 as (-> & _ & _).
    cbn in H4. discriminate.
  Qed.
End VerifyFacts.

(* ---------- TsigGenerate ---------- *)
Definition digest_of (h : hdr) (body : bytes) (t : tsig) (rm : bytes) (timers : bool) (wall : N) : bytes :=
  rfc_request_mac rm ++ (hdr_wire (set_id h (k_origid t)) ++ body) ++
  (if timers then rfc_timers (eff_time t wall) (eff_fudge t)
   else rfc_variables t (eff_time t wall) (eff_fudge t)).

Section GenFacts.
  Variable hmac : halg -> bytes -> bytes -> bytes.
  Variable key_of : list label -> res bytes.
  Variable chk : N -> bytes -> N -> res N.

  Lemma generate_spec h body nextra t rm timers wall out mac :
    tsig_generate hmac key_of (hdr_wire h ++ body) nextra t rm timers wall = Ok (out, mac) ->
    exists time,
      (((k_error t = RcodeBadKey \/ k_error t = RcodeBadSig) /\ time = 0 /\ mac = []) \/
       (k_error t <> RcodeBadKey /\ k_error t <> RcodeBadSig /\ time = eff_time t wall /\
        exists secret a, key_of (k_name t) = Ok secret /\ alg_of (k_alg t) = Some a /\
                         mac = hmac a secret (digest_of h body t rm timers wall))) /\
      let t2 := set_time_mac (set_time_fudge t (eff_time t wall) (eff_fudge t)) time mac in
      valid_wire (k_name t) = true /\ valid_wire (k_alg t) = true /\
      lenN (tsig_rdata (k_rd t2)) <= 65535 /\
      out = hdr_wire (set_ar (set_id h (k_origid t)) ((nextra + 1) mod 65536)) ++ body ++ tsig_rr_wire t2.
  Proof.
    unfold tsig_generate. intros H.
    apply bind_ok in H. destruct H as ([[buf t1] mb] & Hb & H).
    apply tsig_buffer_spec in Hb. destruct Hb as (Et1 & Hmb & Ebuf).
    rewrite put_id_wire in Hmb.
    assert (Emb : mb = hdr_wire (set_id h (k_origid t)) ++ body) by congruence.
    subst mb; clear Hmb.
    fold (digest_of h body t rm timers wall) in Ebuf.
    apply bind_ok in H. destruct H as ([time mac'] & Hm & H).
    apply bind_ok in H. destruct H as (tb & Htb & H).
    apply bind_ok in H. destruct H as (out' & Hout & H).
    inversion H; subst out' mac'; clear H.
    exists time. split.
    - destruct ((k_error t =? RcodeBadKey) || (k_error t =? RcodeBadSig)) eqn:Ee.
      + left. inversion Hm; subst. apply orb_prop in Ee.
        destruct Ee as [Ee|Ee]; apply N.eqb_eq in Ee; auto.
      + right. apply orb_false_elim in Ee. destruct Ee as [E1 E2].
        apply N.eqb_neq in E1. apply N.eqb_neq in E2.
        apply bind_ok in Hm. destruct Hm as (m & Hg & Hm). inversion Hm; subst time mac; clear Hm.
        unfold provider_generate in Hg.
        apply bind_ok in Hg. destruct Hg as (secret & Hk & Hg).
        destruct (alg_of (k_alg t1)) as [al|] eqn:Ea; [|discriminate]. inversion Hg; subst m; clear Hg.
        subst t1. cbn [k_name k_alg k_rd set_time_fudge t_alg] in *.
        repeat split; try assumption. exists secret, al. subst buf. repeat split; assumption.
    - cbn zeta. rewrite <- Et1.
      unfold pack_tsig_rr in Htb.
      destruct (valid_wire (k_name (set_time_mac t1 time mac)) && valid_wire (k_alg (set_time_mac t1 time mac))) eqn:Ev;
        [|discriminate].
      destruct (65535 <? _) eqn:El; [discriminate|]. apply N.ltb_ge in El.
      inversion Htb; subst tb; clear Htb.
      apply andb_prop in Ev. destruct Ev as [V1 V2].
      subst t1. cbn [k_name k_alg k_rd set_time_mac set_time_fudge t_alg] in V1, V2.
      repeat split; try assumption.
      rewrite <- app_assoc in Hout. rewrite put_ar_wire in Hout. congruence.
  Qed.
End GenFacts.

(* verifying side recomputes the same digest input from the signed record *)
Lemma tsig_buffer_again h body t rm timers wall wall2 buf t1 mb time mac :
  tsig_buffer (hdr_wire h ++ body) t rm timers wall = Ok (buf, t1, mb) ->
  time = eff_time t wall -> time <> 0 ->
  let t2 := set_time_mac t1 time mac in
  tsig_buffer mb t2 rm timers wall2 = Ok (buf, t2, mb).
Proof.
  intros Hb Et Hnz t2.
  pose proof (tsig_buffer_spec _ _ _ _ _ _ _ _ Hb) as (Et1 & Hmb & _).
  rewrite put_id_wire in Hmb.
  assert (Emb : mb = hdr_wire (set_id h (k_origid t)) ++ body) by congruence.
  unfold tsig_buffer in Hb |- *.
  fold (eff_time t wall) in Hb. fold (eff_fudge t) in Hb.
  apply bind_ok in Hb. destruct Hb as (mb0 & _ & Hb).
  apply bind_ok in Hb. destruct Hb as (mp & Hmp & Hb).
  apply bind_ok in Hb. destruct Hb as (vars & Hv & Hb).
  assert (Ebuf : buf = mp ++ mb ++ vars) by congruence.
  assert (Hfz : eff_fudge t <> 0).
  { unfold eff_fudge. destruct (k_fudge t =? 0) eqn:E; [discriminate|now apply N.eqb_neq in E]. }
  assert (Kt : k_time t2 = time) by (subst t2 t1; reflexivity).
  assert (Kf : k_fudge t2 = eff_fudge t) by (subst t2 t1; reflexivity).
  assert (Ko : k_origid t2 = k_origid t) by (subst t2 t1; reflexivity).
  rewrite Kt, Kf, Ko.
  replace (time =? 0) with false by (symmetry; now apply N.eqb_neq).
  replace (eff_fudge t =? 0) with false by (symmetry; now apply N.eqb_neq).
  assert (Es : set_time_fudge t2 time (eff_fudge t) = t2).
  { subst t2 t1 time. destruct t as [n c tt [a ti f ms m o e ol ot]]. reflexivity. }
  rewrite Es.
  rewrite Emb at 1. rewrite put_id_wire. cbn [bind].
  replace (set_id (set_id h (k_origid t)) (k_origid t)) with (set_id h (k_origid t)) by reflexivity.
  rewrite <- Emb. rewrite Hmp. cbn [bind].
  assert (Ev : (if timers then Ok (timer_vars t2) else tsig_vars t2) = Ok vars).
  { rewrite <- Hv. subst t2 t1 time. destruct t as [n c tt [a ti f ms m o e ol ot]].
    destruct timers; reflexivity. }
  rewrite Ev. cbn [bind]. now rewrite Ebuf.
Qed.

Section RoundTrip.
  Variable hmac : halg -> bytes -> bytes -> bytes.
  Variable key_of : list label -> res bytes.
  Variable chk : N -> bytes -> N -> res N.

  (* everything TsigGenerate needs of a message and its stub for the result to verify *)
  Definition sign_pre (h : hdr) (body : bytes) (t : tsig) (wall : N) : Prop :=
    hdr_ok h /\ h_ar h + 1 < 65536 /\ h_bits h mod 16 <> RcodeNotAuth /\ wf_body chk h body /\
    k_class t < 65536 /\ k_ttl t < 4294967296 /\
    eff_time t wall < 281474976710656 /\ eff_time t wall <> 0 /\
    k_fudge t < 65536 /\ k_origid t < 65536 /\ k_error t < 65536 /\
    k_error t <> RcodeBadSig /\ k_error t <> RcodeBadKey /\ k_otherlen t = lenN (k_other t).

  Lemma generate_verify_full h body t rm timers wall wall2 now out mac :
    sign_pre h body t wall ->
    tsig_generate hmac key_of (hdr_wire h ++ body) (h_ar h) t rm timers wall = Ok (out, mac) ->
    time_delta now (eff_time t wall) <= eff_fudge t ->
    tsig_verify hmac key_of chk out rm timers now wall2 = Ok tt /\
    exists s t2, strip_tsig chk out = Ok (s, t2, true) /\ k_mac t2 = mac.
  Proof.
    intros (Hh & Har & Hrc & Hwf & Hc & Httl & Htm & Htnz & Hf & Hoid & Herr & Hns & Hnk & Hol) Hgen Hwin.
    pose proof Hgen as Hgen2.
    apply generate_spec in Hgen. destruct Hgen as (time & Hcase & V1 & V2 & Hrl & Eout).
    destruct Hcase as [([E|E] & _)|(_ & _ & Etime & secret & al & Hk & Ha & Emac)]; try contradiction.
    unfold tsig_generate in Hgen2.
    apply bind_ok in Hgen2. destruct Hgen2 as ([[buf t1] mb] & Hb & _).
    pose proof (tsig_buffer_spec _ _ _ _ _ _ _ _ Hb) as (Et1 & Hmb & Ebuf).
    rewrite put_id_wire in Hmb.
    assert (Emb : mb = hdr_wire (set_id h (k_origid t)) ++ body) by congruence.
    rewrite <- Et1 in *.
    set (t2 := set_time_mac t1 time mac) in *.
    replace ((h_ar h + 1) mod 65536) with (h_ar h + 1) in Eout by (symmetry; apply N.mod_small; lia).
    assert (Hef : eff_fudge t < 65536).
    { unfold eff_fudge, default_fudge. destruct (k_fudge t =? 0); lia. }
    assert (Hrd : lenN (tsig_rdata (k_rd t2)) =
                  lenN (wire_name (k_alg t)) + 16 + lenN mac + lenN (k_other t)).
    { rewrite len_tsig_rdata. subst t2 t1. destruct t as [n c tt [a ti f ms m o e ol ot]]. reflexivity. }
    assert (Hwt : wf_tsig t2).
    { unfold wf_tsig. subst t2 t1. destruct t as [n c tt [a ti f ms m o e ol ot]].
      cbn [k_name k_alg k_class k_ttl k_time k_fudge k_origid k_error k_mac k_otherlen k_other k_rd
           set_time_mac set_time_fudge t_alg t_time t_fudge t_macsize t_mac t_origid t_error t_otherlen t_other] in *.
      assert (lenN mac < 65536) by lia.
      repeat split; try assumption; try lia;
        try (subst time; assumption); try (apply N.mod_small; lia). }
    pose proof (strip_generated chk h body t2 [] (k_origid t) Hh Har Hoid Hrc Hwf Hwt) as Hs.
    rewrite app_nil_r in Hs. rewrite <- Eout in Hs.
    assert (Km0 : k_mac t2 = mac) by (subst t2 t1; reflexivity).
    split; [|exists mb, t2; split; [rewrite Emb; exact Hs|exact Km0]].
    apply verify_iff.
    exists mb, t2, true, buf, t2, mb, secret, al.
    assert (Kn : k_name t2 = k_name t) by (subst t2 t1; reflexivity).
    assert (Ka : k_alg t2 = k_alg t) by (subst t2 t1; reflexivity).
    assert (Km : k_mac t2 = mac) by (subst t2 t1; reflexivity).
    assert (Kt : k_time t2 = time) by (subst t2 t1; reflexivity).
    assert (Kf : k_fudge t2 = eff_fudge t) by (subst t2 t1; reflexivity).
    rewrite Kn, Ka, Km, Kt, Kf.
    split; [rewrite Emb; exact Hs|].
    split; [eapply tsig_buffer_again; eauto; congruence|].
    split; [exact Hk|]. split; [exact Ha|].
    split; [|subst time; exact Hwin].
    rewrite Emac. f_equal. rewrite Ebuf. unfold digest_of. rewrite Emb. reflexivity.
  Qed.

  Theorem generate_verify_ok h body t rm timers wall wall2 now out mac :
    hdr_ok h -> h_ar h + 1 < 65536 -> h_bits h mod 16 <> RcodeNotAuth -> wf_body chk h body ->
    k_class t < 65536 -> k_ttl t < 4294967296 ->
    eff_time t wall < 281474976710656 -> eff_time t wall <> 0 ->
    k_fudge t < 65536 -> k_origid t < 65536 -> k_error t < 65536 ->
    k_error t <> RcodeBadSig -> k_error t <> RcodeBadKey -> k_otherlen t = lenN (k_other t) ->
    tsig_generate hmac key_of (hdr_wire h ++ body) (h_ar h) t rm timers wall = Ok (out, mac) ->
    time_delta now (eff_time t wall) <= eff_fudge t ->
    tsig_verify hmac key_of chk out rm timers now wall2 = Ok tt.
  Proof.
    intros. destruct (generate_verify_full h body t rm timers wall wall2 now out mac) as [Hv _];
      [unfold sign_pre; tauto|assumption|assumption|exact Hv].
  Qed.

  (* ---------- chains ---------- *)
  Lemma chain_verify_cons m r rm timers now wall :
    chain_verify hmac key_of chk (m :: r) rm timers now wall = Ok tt <->
    tsig_verify hmac key_of chk m rm timers now wall = Ok tt /\
    exists s t f, strip_tsig chk m = Ok (s, t, f) /\
                  chain_verify hmac key_of chk r (k_mac t) true now wall = Ok tt.
  Proof.
    change (chain_verify hmac key_of chk (m :: r) rm timers now wall) with
      (bind (tsig_verify hmac key_of chk m rm timers now wall) (fun _ =>
       bind (strip_tsig chk m) (fun p => let '(_, t, _) := p in
         chain_verify hmac key_of chk r (k_mac t) true now wall))).
    split.
    - intros H. apply bind_ok in H. destruct H as ([] & Hv & H).
      apply bind_ok in H. destruct H as ([[s t] f] & Hs & H). split; [assumption|]. eauto.
    - intros (Hv & s & t & f & Hs & H). rewrite Hv. cbn [bind]. rewrite Hs. cbn [bind]. exact H.
  Qed.

  (* envelopes signed one after the other, each over the MAC of the one before
     (first: request MAC, all variables; then: timers only), verify as a chain *)
  Theorem chain_generate_verify specs : forall rm timers wall wall2 now envs,
    Forall (fun x : hdr * bytes * tsig => let '(h, body, t) := x in
              sign_pre h body t wall /\ time_delta now (eff_time t wall) <= eff_fudge t) specs ->
    chain_generate hmac key_of
      (map (fun x : hdr * bytes * tsig => let '(h, body, t) := x in (hdr_wire h ++ body, h_ar h, t)) specs)
      rm timers wall = Ok envs ->
    chain_verify hmac key_of chk envs rm timers now wall2 = Ok tt.
  Proof.
    induction specs as [|[[h body] t] specs IH]; intros rm timers wall wall2 now envs HF Hg.
    - cbn in Hg. inversion Hg. reflexivity.
    - inversion HF as [|x l Hx HF']; subst. cbn beta iota in Hx. destruct Hx as [Hpre Hwin].
      change (chain_generate hmac key_of (map _ ((h, body, t) :: specs)) rm timers wall) with
        (bind (tsig_generate hmac key_of (hdr_wire h ++ body) (h_ar h) t rm timers wall) (fun p =>
           let '(out, mac) := p in
           bind (chain_generate hmac key_of
                   (map (fun x : hdr * bytes * tsig => let '(h, body, t) := x in (hdr_wire h ++ body, h_ar h, t)) specs)
                   mac true wall) (fun rest => Ok (out :: rest)))) in Hg.
      apply bind_ok in Hg. destruct Hg as ([out mac] & Hgen & Hg).
      apply bind_ok in Hg. destruct Hg as (rest & Hrest & Hg). inversion Hg; subst envs; clear Hg.
      destruct (generate_verify_full _ _ _ _ _ _ wall2 now _ _ Hpre Hgen Hwin) as (Hv & s & t2 & Hs & Hm).
      apply chain_verify_cons. split; [assumption|].
      exists s, t2, true. split; [assumption|]. rewrite Hm. eapply IH; eassumption.
  Qed.
End RoundTrip.

(* ---------- the digest input determines its parts ---------- *)
Lemma app_eq_len_l {A} (a : list A) : forall b x y,
  a ++ x = b ++ y -> length a = length b -> a = b /\ x = y.
Proof.
  induction a as [|p a IH]; intros [|q b] x y H L; try discriminate L.
  - auto.
  - cbn in H. inversion H; subst. cbn in L. apply IH in H2; [|lia]. destruct H2; subst; auto.
Qed.
Lemma app_eq_len_r {A} (a b x y : list A) :
  a ++ x = b ++ y -> length x = length y -> a = b /\ x = y.
Proof.
  intros H L. apply app_eq_len_l; [assumption|].
  apply (f_equal (@length A)) in H. rewrite !app_length in H. lia.
Qed.

Lemma u16_inj a b : a < 65536 -> b < 65536 -> u16 a = u16 b -> a = b.
Proof.
  intros Ha Hb H. apply (f_equal (fun l => be l 0)) in H. rewrite !be_u16 in H.
  rewrite !N.mod_small in H by assumption. exact H.
Qed.
Lemma u32_inj a b : a < 4294967296 -> b < 4294967296 -> u32 a = u32 b -> a = b.
Proof.
  intros Ha Hb H. apply (f_equal (fun l => be l 0)) in H. rewrite !be_u32 in H.
  rewrite !N.mod_small in H by assumption. exact H.
Qed.
Lemma u48_inj a b : a < 281474976710656 -> b < 281474976710656 -> u48 a = u48 b -> a = b.
Proof.
  intros Ha Hb H. apply (f_equal (fun l => be l 0)) in H. rewrite !be_u48 in H.
  rewrite !N.mod_small in H by assumption. exact H.
Qed.

Lemma wire_name_prefix_free ls1 ls2 r1 r2 :
  valid_wire ls1 = true -> valid_wire ls2 = true ->
  wire_name ls1 ++ r1 = wire_name ls2 ++ r2 -> ls1 = ls2 /\ r1 = r2.
Proof.
  intros V1 V2 H.
  pose proof (unpack_name_wire [] ls1 r1 V1) as U1.
  pose proof (unpack_name_wire [] ls2 r2 V2) as U2.
  cbn [app] in U1, U2. rewrite H in U1. rewrite U1 in U2.
  assert (E : ls1 = ls2) by congruence. subst ls2. split; [reflexivity|].
  now apply app_inv_head in H.
Qed.

Lemma lenN_zero {A} (l : list A) : lenN l = 0 -> l = [].
Proof. destruct l; [reflexivity|]. rewrite lenN_cons. lia. Qed.

(* an envelope's digest input pins down the request MAC it was computed with *)
Lemma request_mac_determined rm1 rm2 x :
  rfc_request_mac rm1 ++ x = rfc_request_mac rm2 ++ x -> rm1 = rm2.
Proof.
  intros H. apply app_inv_tail in H. unfold rfc_request_mac in H.
  destruct (lenN rm1 =? 0) eqn:E1; destruct (lenN rm2 =? 0) eqn:E2.
  - apply N.eqb_eq in E1. apply N.eqb_eq in E2. apply lenN_zero in E1. apply lenN_zero in E2. congruence.
  - discriminate.
  - discriminate.
  - cbn in H. inversion H. reflexivity.
Qed.

Lemma digest_timers_injective rm m1 m2 ti1 f1 ti2 f2 :
  ti1 < 281474976710656 -> ti2 < 281474976710656 -> f1 < 65536 -> f2 < 65536 ->
  rfc_request_mac rm ++ m1 ++ rfc_timers ti1 f1 = rfc_request_mac rm ++ m2 ++ rfc_timers ti2 f2 ->
  m1 = m2 /\ ti1 = ti2 /\ f1 = f2.
Proof.
  intros B1 B2 B3 B4 H. apply app_inv_head in H.
  apply app_eq_len_r in H; [|reflexivity]. destruct H as [Hm Ht]. split; [assumption|].
  unfold rfc_timers in Ht. apply app_eq_len_l in Ht; [|reflexivity]. destruct Ht as [Ht Hf].
  split; [now apply u48_inj|now apply u16_inj].
Qed.

Section Delimit.
  Variable chk : N -> bytes -> N -> res N.

  Lemma skip_plain_ext n : forall msg s off o,
    skip_plain chk n msg off = Ok o -> skip_plain chk n (msg ++ s) off = Ok o.
  Proof.
    induction n as [|n IH]; intros msg s off o H; [exact H|].
    rewrite skip_plain_S in H. apply bind_ok in H. destruct H as ([r o1] & U & H).
    destruct (unpack_rr_ext chk true _ s _ _ _ U) as [E _]. rewrite skip_plain_S, E. cbn [bind].
    destruct (rv_type r =? TypeTSIG); [discriminate|]. now apply IH.
  Qed.

  Lemma walk_strict_ext h msg s o :
    walk_strict chk h msg = Ok o -> walk_strict chk h (msg ++ s) = Ok o.
  Proof.
    unfold walk_strict. intros H.
    apply bind_ok in H. destruct H as (o1 & H1 & H).
    apply bind_ok in H. destruct H as (o2 & H2 & H).
    apply bind_ok in H. destruct H as (o3 & H3 & H).
    rewrite (skip_questions_ext true _ _ s _ _ H1). cbn [bind].
    rewrite (skip_rrs_ext chk true _ _ s _ _ H2). cbn [bind].
    rewrite (skip_rrs_ext chk true _ _ s _ _ H3). cbn [bind].
    now apply skip_plain_ext.
  Qed.

  (* a well-framed body is self-delimiting *)
  Lemma wf_body_delimits h hd b1 b2 v1 v2 :
    lenN hd = 12 -> wf_body chk h b1 -> wf_body chk h b2 ->
    hd ++ b1 ++ v1 = hd ++ b2 ++ v2 -> b1 = b2 /\ v1 = v2.
  Proof.
    intros Hl W1 W2 H.
    pose proof (walk_strict_ext _ _ v1 _ (W1 hd Hl)) as E1.
    pose proof (walk_strict_ext _ _ v2 _ (W2 hd Hl)) as E2.
    rewrite <- !app_assoc in E1, E2. rewrite H in E1. rewrite E1 in E2.
    assert (L0 : 12 + lenN b1 = 12 + lenN b2) by congruence.
    assert (L : lenN b1 = lenN b2) by lia.
    apply app_inv_head in H. apply app_eq_len_l; [assumption|].
    unfold lenN in L. lia.
  Qed.

  Lemma hdr_wire_inj h1 h2 : hdr_ok h1 -> hdr_ok h2 -> hdr_wire h1 = hdr_wire h2 -> h1 = h2.
  Proof.
    intros (A1 & A2 & A3 & A4 & A5 & A6) (B1 & B2 & B3 & B4 & B5 & B6) H.
    destruct h1 as [i1 b1 q1 a1 n1 r1], h2 as [i2 b2 q2 a2 n2 r2].
    unfold hdr_wire in H. cbn [h_id h_bits h_qd h_an h_ns h_ar] in *.
    apply app_eq_len_l in H; [|reflexivity]. destruct H as [E1 H].
    apply app_eq_len_l in H; [|reflexivity]. destruct H as [E2 H].
    apply app_eq_len_l in H; [|reflexivity]. destruct H as [E3 H].
    apply app_eq_len_l in H; [|reflexivity]. destruct H as [E4 H].
    apply app_eq_len_l in H; [|reflexivity]. destruct H as [E5 E6].
    apply u16_inj in E1, E2, E3, E4, E5, E6; try assumption. congruence.
  Qed.

  Lemma digest_full_injective rm h1 b1 h2 b2 t1 ti1 f1 t2 ti2 f2 :
    hdr_ok h1 -> hdr_ok h2 -> wf_body chk h1 b1 -> wf_body chk h2 b2 ->
    valid_wire (canon (k_name t1)) = true -> valid_wire (canon (k_name t2)) = true ->
    valid_wire (canon (k_alg t1)) = true -> valid_wire (canon (k_alg t2)) = true ->
    k_class t1 < 65536 -> k_class t2 < 65536 ->
    k_ttl t1 < 4294967296 -> k_ttl t2 < 4294967296 ->
    ti1 < 281474976710656 -> ti2 < 281474976710656 -> f1 < 65536 -> f2 < 65536 ->
    k_error t1 < 65536 -> k_error t2 < 65536 -> k_otherlen t1 < 65536 -> k_otherlen t2 < 65536 ->
    rfc_request_mac rm ++ (hdr_wire h1 ++ b1) ++ rfc_variables t1 ti1 f1 =
    rfc_request_mac rm ++ (hdr_wire h2 ++ b2) ++ rfc_variables t2 ti2 f2 ->
    h1 = h2 /\ b1 = b2 /\ canon (k_name t1) = canon (k_name t2) /\ k_class t1 = k_class t2 /\
    k_ttl t1 = k_ttl t2 /\
    canon (k_alg t1) = canon (k_alg t2) /\ ti1 = ti2 /\ f1 = f2 /\ k_error t1 = k_error t2 /\
    k_otherlen t1 = k_otherlen t2 /\ k_other t1 = k_other t2.
  Proof.
    intros Hh1 Hh2 W1 W2 Vn1 Vn2 Va1 Va2 Bc1 Bc2 Bt1 Bt2 Bi1 Bi2 Bf1 Bf2 Be1 Be2 Bo1 Bo2 H.
    apply app_inv_head in H. rewrite <- !app_assoc in H.
    pose proof H as H0.
    apply app_eq_len_l in H0; [|reflexivity]. destruct H0 as [Eh _].
    apply hdr_wire_inj in Eh; try assumption. subst h2.
    apply (wf_body_delimits h1 (hdr_wire h1)) in H; try assumption; [|reflexivity].
    destruct H as [Eb Ev]. unfold rfc_variables in Ev.
    apply wire_name_prefix_free in Ev; try assumption. destruct Ev as [En Ev].
    apply app_eq_len_l in Ev; [|reflexivity]. destruct Ev as [Ecl Ev].
    apply app_eq_len_l in Ev; [|reflexivity]. destruct Ev as [Ettl Ev].
    apply wire_name_prefix_free in Ev; try assumption. destruct Ev as [Ea Ev].
    apply app_eq_len_l in Ev; [|reflexivity]. destruct Ev as [Eti Ev].
    apply app_eq_len_l in Ev; [|reflexivity]. destruct Ev as [Ef Ev].
    apply app_eq_len_l in Ev; [|reflexivity]. destruct Ev as [Ee Ev].
    apply app_eq_len_l in Ev; [|reflexivity]. destruct Ev as [Eol Eo].
    apply u32_inj in Ettl; try assumption. apply u48_inj in Eti; try assumption.
    apply u16_inj in Ef, Ee, Eol, Ecl; try assumption.
    repeat split; assumption.
  Qed.
End Delimit.

(* ---------- alteration: idealised MAC (named hypothesis) ---------- *)
Section Ideal.
  Variable hmac : halg -> bytes -> bytes -> bytes.
  Variable key_of : list label -> res bytes.
  Variable chk : N -> bytes -> N -> res N.
  (* the idealisation: for a fixed algorithm and secret, different data never
     give the same MAC *)
  Hypothesis mac_binding : forall a k d1 d2, hmac a k d1 = hmac a k d2 -> d1 = d2.

  (* two verified messages under the same key, algorithm and MAC have the same
     digest input *)
  Theorem same_mac_same_digest msg1 msg2 rm1 rm2 to1 to2 now1 now2 wall
          s1 t1 f1 s2 t2 f2 b1 t1' mb1 b2 t2' mb2 :
    tsig_verify hmac key_of chk msg1 rm1 to1 now1 wall = Ok tt ->
    tsig_verify hmac key_of chk msg2 rm2 to2 now2 wall = Ok tt ->
    strip_tsig chk msg1 = Ok (s1, t1, f1) -> strip_tsig chk msg2 = Ok (s2, t2, f2) ->
    tsig_buffer s1 t1 rm1 to1 wall = Ok (b1, t1', mb1) ->
    tsig_buffer s2 t2 rm2 to2 wall = Ok (b2, t2', mb2) ->
    k_name t1 = k_name t2 -> alg_of (k_alg t1) = alg_of (k_alg t2) -> k_mac t1 = k_mac t2 ->
    b1 = b2.
  Proof.
    intros V1 V2 S1 S2 B1 B2 En Ea Em.
    apply verify_iff in V1. apply verify_iff in V2.
    destruct V1 as (s1' & u1 & g1 & c1 & u1' & m1 & k1 & a1 & X1 & Y1 & K1 & A1 & M1 & _).
    destruct V2 as (s2' & u2 & g2 & c2 & u2' & m2 & k2 & a2 & X2 & Y2 & K2 & A2 & M2 & _).
    rewrite S1 in X1. rewrite S2 in X2. inversion X1; subst s1' u1 g1. inversion X2; subst s2' u2 g2.
    rewrite B1 in Y1. rewrite B2 in Y2. inversion Y1; subst c1 u1' m1. inversion Y2; subst c2 u2' m2.
    destruct (tsig_buffer_spec _ _ _ _ _ _ _ _ B1) as (E1 & _ & _).
    destruct (tsig_buffer_spec _ _ _ _ _ _ _ _ B2) as (E2 & _ & _).
    assert (N1 : k_name t1' = k_name t1) by (subst t1'; reflexivity).
    assert (N2 : k_name t2' = k_name t2) by (subst t2'; reflexivity).
    assert (L1 : k_alg t1' = k_alg t1) by (subst t1'; reflexivity).
    assert (L2 : k_alg t2' = k_alg t2) by (subst t2'; reflexivity).
    assert (C1 : k_mac t1' = k_mac t1) by (subst t1'; reflexivity).
    assert (C2 : k_mac t2' = k_mac t2) by (subst t2'; reflexivity).
    rewrite N1 in K1. rewrite N2 in K2. rewrite L1 in A1. rewrite L2 in A2. rewrite C1 in M1. rewrite C2 in M2.
    assert (k1 = k2) by congruence. assert (a1 = a2) by congruence. subst k2 a2.
    apply (mac_binding a1 k1). congruence.
  Qed.

  (* an envelope verifies against at most one previous MAC: removing, repeating or
     reordering envelopes of a chain makes the next verification fail unless two
     MACs coincide *)
  Theorem envelope_binds_previous_mac msg rm1 rm2 timers now1 now2 wall :
    tsig_verify hmac key_of chk msg rm1 timers now1 wall = Ok tt ->
    tsig_verify hmac key_of chk msg rm2 timers now2 wall = Ok tt ->
    rm1 = rm2.
  Proof.
    intros V1 V2. pose proof V1 as W1. pose proof V2 as W2.
    apply verify_iff in W1. apply verify_iff in W2.
    destruct W1 as (s1 & t1 & f1 & b1 & t1' & m1 & _ & _ & S1 & B1 & _).
    destruct W2 as (s2 & t2 & f2 & b2 & t2' & m2 & _ & _ & S2 & B2 & _).
    rewrite S1 in S2. inversion S2; subst s2 t2 f2.
    pose proof (same_mac_same_digest _ _ _ _ _ _ _ _ _ _ _ _ _ _ _ _ _ _ _ _ _
                  V1 V2 S1 S1 B1 B2 eq_refl eq_refl eq_refl) as E.
    destruct (tsig_buffer_spec _ _ _ _ _ _ _ _ B1) as (_ & P1 & E1).
    destruct (tsig_buffer_spec _ _ _ _ _ _ _ _ B2) as (_ & P2 & E2).
    rewrite P1 in P2. inversion P2; subst m2.
    rewrite E1, E2 in E. now apply request_mac_determined in E.
  Qed.
End Ideal.

(* ---------- non-vacuity: a concrete message, stub, key and HMAC stand-in ---------- *)
Definition ex_hmac (a : halg) (k d : bytes) : bytes := halg_id a mod 256 :: k ++ d.
Definition ex_key (_ : list label) : res bytes := Ok [1; 2; 3].
Definition ex_chk (_ : N) (m : bytes) (_ : N) : res N := Ok (lenN m).
Definition ex_hdr : hdr := Build_hdr 4660 256 1 0 0 0.
(* one question: example. A IN *)
Definition ex_body : bytes := [7; 101; 120; 97; 109; 112; 108; 101; 0; 0; 1; 0; 1].
Definition ex_stub : tsig :=
  Build_tsig [[107; 101; 121]] 255 0
    (Build_tsigrd [bytes_of_string "hmac-sha256"] 1700000000 300 0 [] 4660 0 0 []).

Example ex_mac_binding : forall a k d1 d2, ex_hmac a k d1 = ex_hmac a k d2 -> d1 = d2.
Proof. unfold ex_hmac. intros a k d1 d2 H. inversion H. now apply app_inv_head in H1. Qed.

Example ex_wf_body : wf_body ex_chk ex_hdr ex_body.
Proof.
  intros hd Hl. unfold lenN in Hl.
  do 12 (destruct hd as [|? hd]; [cbn in Hl; lia|]).
  destruct hd; [|cbn [length] in Hl; lia].
  vm_compute. reflexivity.
Qed.

Example ex_sign_pre : sign_pre ex_chk ex_hdr ex_body ex_stub 0.
Proof.
  unfold sign_pre. split; [|split; [|split; [|split; [exact ex_wf_body|]]]];
    try (vm_compute; repeat split; congruence).
  all: vm_compute; repeat split; try reflexivity; try congruence; try discriminate.
Qed.

Definition ex_signed : res (bytes * bytes) :=
  tsig_generate ex_hmac ex_key (hdr_wire ex_hdr ++ ex_body) 0 ex_stub [] false 0.

Example ex_roundtrip :
  match ex_signed with
  | Ok (out, mac) =>
    tsig_verify ex_hmac ex_key ex_chk out [] false 1700000300 0 = Ok tt /\
    tsig_verify ex_hmac ex_key ex_chk out [] false 1700000301 0 = Err "time" /\
    tsig_verify ex_hmac ex_key ex_chk out [1; 2] false 1700000300 0 = Err "sig"
  | _ => False
  end.
Proof. vm_compute. repeat split; reflexivity. Qed.

Example ex_no_tsig :
  match strip_tsig ex_chk (hdr_wire (set_ar ex_hdr 1) ++ ex_body) with
  | Ok (_, _, false) => True
  | _ => False
  end.
Proof. vm_compute. exact I. Qed.

(* a chain of two envelopes *)
Example ex_chain :
  match chain_generate ex_hmac ex_key
          [(hdr_wire ex_hdr ++ ex_body, 0, ex_stub); (hdr_wire ex_hdr ++ ex_body, 0, ex_stub)] [9; 9] false 0 with
  | Ok [e1; e2] =>
    chain_verify ex_hmac ex_key ex_chk [e1; e2] [9; 9] false 1700000000 0 = Ok tt /\
    chain_verify ex_hmac ex_key ex_chk [e2; e1] [9; 9] false 1700000000 0 = Err "sig" /\
    chain_verify ex_hmac ex_key ex_chk [e2] [9; 9] false 1700000000 0 = Err "sig"
  | _ => False
  end.
Proof. vm_compute. repeat split; reflexivity. Qed.

Section Sound.
  Variable hmac : halg -> bytes -> bytes -> bytes.
  Variable key_of : list label -> res bytes.
  Variable chk : N -> bytes -> N -> res N.

  Theorem verify_sound msg rm timers now wall :
    tsig_verify hmac key_of chk msg rm timers now wall = Ok tt ->
    exists s t mb secret a,
      strip_tsig chk msg = Ok (s, t, true) /\ put_u16 s 0 (k_origid t) = Ok mb /\
      key_of (k_name t) = Ok secret /\ alg_of (k_alg t) = Some a /\
      k_mac t = hmac a secret
                  (rfc_request_mac rm ++ mb ++
                   (if timers then rfc_timers (eff_time t wall) (eff_fudge t)
                    else rfc_variables t (eff_time t wall) (eff_fudge t))) /\
      time_delta now (eff_time t wall) <= eff_fudge t.
  Proof.
    intros V. pose proof V as V0. apply verify_iff in V.
    destruct V as (s & t & found & buf & t' & mb & secret & al & S & B & K & A & M & T).
    destruct found.
    - destruct (tsig_buffer_spec _ _ _ _ _ _ _ _ B) as (E & P & Eb).
      exists s, t, mb, secret, al. subst t'.
      destruct (set_time_fudge_fields t (eff_time t wall) (eff_fudge t))
        as (F1 & _ & _ & F4 & F5 & F6 & F7 & _).
      rewrite F1 in K. rewrite F4 in A. rewrite F7 in M. rewrite F5, F6 in T.
      repeat split; try assumption. rewrite <- M. now rewrite Eb.
    - exfalso. eapply no_tsig_never_verified; eassumption.
  Qed.
End Sound.
