From Dns Require Import Model.NameWire.
(* placeholder until Proofs/CompressProofs.v lands *)
Theorem placeholder_C04 : cm_find [] [] = None.
Proof. reflexivity. Qed.
