(* Model/PoolLts.v — property C12, buffer recycling: server.go readUDP takes a
   receive buffer from Server.udpPool, the datagram is read into it,
   serveUDPPacket/serveDNS decode it (Msg.unpack copies every octet it keeps,
   property C16) and only then return the buffer to the pool, after which the
   handler runs on the decoded message.  The labelled transition system below
   has one transition per such step and lets the steps of any number of
   requests interleave arbitrarily.  Definitions only. *)
From Dns Require Export Base.Bytes.
Open Scope N_scope.

Inductive stage :=
| Reading (bid : nat)      (* datagram sits in buffer bid, not yet decoded *)
| Decoded (m : bytes)      (* decoded copy; buffer already back in the pool *)
| Done (m : bytes)         (* the handler ran and saw m *)
| Dropped.                 (* ignored / rejected by the accept policy: buffer returned undecoded *)

Record req := mkReq { r_sent : bytes; r_stage : stage }.

Record pstate := mkP {
  bufs : nat -> bytes;     (* contents of every buffer ever allocated *)
  free : list nat;         (* buffers in the pool *)
  reqs : list req }.       (* requests in arrival order *)

Definition upd (f : nat -> bytes) (k : nat) (v : bytes) : nat -> bytes :=
  fun x => if Nat.eqb x k then v else f x.

Definition reading_bids (rs : list req) : list nat :=
  flat_map (fun r => match r_stage r with Reading b => [b] | _ => [] end) rs.

Inductive step : pstate -> pstate -> Prop :=
(* readUDP: Get returns a pooled buffer or a new one (any buffer no undecoded
   request occupies), the datagram d is read into it *)
| StRecv s d bid :
    ~ In bid (reading_bids (reqs s)) ->
    step s (mkP (upd (bufs s) bid d)
                (filter (fun b => negb (Nat.eqb b bid)) (free s))
                (reqs s ++ [mkReq d (Reading bid)]))
(* serveDNS: decode (copy out of the buffer), then udpPool.Put *)
| StDecode s l1 l2 sent bid :
    reqs s = l1 ++ mkReq sent (Reading bid) :: l2 ->
    step s (mkP (bufs s) (bid :: free s) (l1 ++ mkReq sent (Decoded (bufs s bid)) :: l2))
(* serveDNS: MsgIgnore / MsgReject path: Put without decoding *)
| StDrop s l1 l2 sent bid :
    reqs s = l1 ++ mkReq sent (Reading bid) :: l2 ->
    step s (mkP (bufs s) (bid :: free s) (l1 ++ mkReq sent Dropped :: l2))
(* srv.Handler.ServeDNS(w, req) *)
| StHandle s l1 l2 sent m :
    reqs s = l1 ++ mkReq sent (Decoded m) :: l2 ->
    step s (mkP (bufs s) (free s) (l1 ++ mkReq sent (Done m) :: l2)).

Inductive reachable (s0 : pstate) : pstate -> Prop :=
| ReachRefl : reachable s0 s0
| ReachStep s s' : reachable s0 s -> step s s' -> reachable s0 s'.

Definition initial (s : pstate) : Prop := free s = [] /\ reqs s = [].
