(* Model/Labels.v — labels.go (NextLabel, PrevLabel, Split, CountLabel,
   SplitDomainName, CompareDomainName, equal), defaults.go (IsFqdn, Fqdn,
   CanonicalName, IsSubDomain) and dnsutil (AddOrigin, TrimDomainName), modelled
   function by function on octet strings.  Definitions only. *)
From Dns Require Export Model.Name.
Open Scope N_scope.

(* NextLabel: [pre] is the reversed prefix s[:i], [rest] = s[i:].
   The Go loop runs while i < len(s)-1, i.e. while [rest] has two or more octets;
   a dot preceded by an even run of backslashes is a separator. *)
Fixpoint nl_go (pre rest : bytes) (i : nat) : nat * bool :=
  match rest with
  | [] => (S i, true)
  | c :: r' =>
    match r' with
    | [] => (S i, true)
    | _ => if (c =? 46) && Nat.even (bs_run pre) then (S i, false)
           else nl_go (c :: pre) r' (S i)
    end
  end.
Definition next_label (s : bytes) (off : nat) : nat * bool :=
  match s with
  | [] => (O, true)
  | _ => nl_go (rev (firstn off s)) (skipn off s) off
  end.

(* PrevLabel: [rv] = reverse of s[:l+1] (head is s[l]); n > 0 inside the loop. *)
Fixpoint pl_go (rv : bytes) (l : nat) (n : nat) : nat * bool :=
  match rv with
  | [] => (O, Nat.ltb 1 n)
  | c :: r =>
    if (c =? 46) && Nat.even (bs_run r) then
      match n with
      | 1%nat => (S l, false)
      | _ => pl_go r (Nat.pred l) (Nat.pred n)
      end
    else pl_go r (Nat.pred l) n
  end.
Definition prev_label (s : bytes) (n : nat) : nat * bool :=
  match s with
  | [] => (O, true)
  | _ =>
    match n with
    | O => (length s, false)
    | _ =>
      let rv := rev s in
      match rv with
      | 46 :: r => pl_go r (length s - 2) n
      | _ => pl_go rv (length s - 1) n
      end
    end
  end.

Definition is_root (s : bytes) : bool := bytes_eqb s [46].

(* CountLabel / Split iterate NextLabel; [fuel] bounds the Go for-loop. *)
Fixpoint count_go (fuel : nat) (s : bytes) (off : nat) (acc : nat) : option nat :=
  match fuel with
  | O => None
  | S f => let '(off', fin) := next_label s off in
           if fin then Some (S acc) else count_go f s off' (S acc)
  end.
Definition count_label (s : bytes) : option nat :=
  if is_root s then Some O else count_go (S (length s)) s O O.

Fixpoint split_go (fuel : nat) (s : bytes) (off : nat) (acc : list nat) : option (list nat) :=
  match fuel with
  | O => None
  | S f => let '(off', fin) := next_label s off in
           if fin then Some (rev acc) else split_go f s off' (off' :: acc)
  end.
(* Split returns nil for "." and [0, ...] otherwise *)
Definition split (s : bytes) : option (list nat) :=
  if is_root s then Some [] else split_go (S (length s)) s O [O].

Definition fqdn (s : bytes) : bytes := if is_fqdn s then s else s ++ [46].
Definition canonical_name (s : bytes) : bytes := lower_bytes (fqdn s).

(* s[a:b] with Go's panics *)
Definition gslice (s : bytes) (a b : nat) : res bytes :=
  if Nat.leb a b && Nat.leb b (length s) then Ok (firstn (b - a) (skipn a s)) else Panic.

(* SplitDomainName *)
Fixpoint sdn_go (s : bytes) (begin : nat) (idx : list nat) : res (list bytes * nat) :=
  match idx with
  | [] => Ok ([], begin)
  | e :: r =>
    do lab <- gslice s begin (e - 1);
    (* Go: s[begin:end-1] with end >= 1 *)
    do rest <- sdn_go s e r;
    Ok (lab :: fst rest, snd rest)
  end.
Definition split_domain_name (s : bytes) : res (list bytes) :=
  match s with
  | [] => Ok []
  | _ =>
    match split s with
    | None => OutOfFuel
    | Some idx =>
      let fqdn_end := if is_fqdn s then (length s - 1)%nat else length s in
      match idx with
      | [] => Ok []
      | _ :: tl_idx =>
        do r <- sdn_go s O tl_idx;
        do last <- gslice s (snd r) fqdn_end;
        Ok (fst r ++ [last])
      end
    end
  end.

(* labels.go equal: ASCII case-insensitive comparison *)
Definition equal_ci (a b : bytes) : bool := bytes_eqb (lower_bytes a) (lower_bytes b).

(* CompareDomainName *)
Fixpoint cdn_go (fuel : nat) (s1 s2 : bytes) (l1 l2 : list nat) (i1 j1 i2 j2 : Z) (n : nat)
  : res nat :=
  match fuel with
  | O => OutOfFuel
  | S f =>
    if (i1 <? 0)%Z || (i2 <? 0)%Z then Ok n
    else
      let a1 := nth (Z.to_nat i1) l1 O in let b1 := nth (Z.to_nat j1) l1 O in
      let a2 := nth (Z.to_nat i2) l2 O in let b2 := nth (Z.to_nat j2) l2 O in
      do x <- gslice s1 a1 b1;
      do y <- gslice s2 a2 b2;
      if equal_ci x y then cdn_go f s1 s2 l1 l2 (i1 - 1) (j1 - 1) (i2 - 1) (j2 - 1) (S n)
      else Ok n
  end.
Definition compare_domain_name (s1 s2 : bytes) : res nat :=
  if is_root s1 || is_root s2 then Ok O
  else
    match split s1, split s2 with
    | Some l1, Some l2 =>
      match l1, l2 with
      | [], _ | _, [] => Panic
      | _, _ =>
        let j1 := Z.of_nat (length l1) - 1 in
        let j2 := Z.of_nat (length l2) - 1 in
        do x <- gslice s1 (nth (Z.to_nat j1) l1 O) (length s1);
        do y <- gslice s2 (nth (Z.to_nat j2) l2 O) (length s2);
        if equal_ci x y then
          cdn_go (S (length l1)) s1 s2 l1 l2 (j1 - 1) j1 (j2 - 1) j2 1
        else Ok O
      end%Z
    | _, _ => OutOfFuel
    end.

Definition is_sub_domain (parent child : bytes) : res bool :=
  do n <- compare_domain_name parent child;
  match count_label parent with
  | Some c => Ok (Nat.eqb n c)
  | None => OutOfFuel
  end.

(* dnsutil.AddOrigin *)
Definition add_origin (s origin : bytes) : bytes :=
  if is_fqdn s then s
  else match origin with
       | [] => s
       | _ =>
         if bytes_eqb s [64] || bytes_eqb s [] then origin
         else if is_root origin then fqdn s
         else s ++ [46] ++ origin
       end.

(* dnsutil.TrimDomainName *)
Definition trim_suffix (s suf : bytes) : bytes :=
  let n := (length s - length suf)%nat in
  if Nat.leb (length suf) (length s) && bytes_eqb (skipn n s) suf then firstn n s else s.
Definition trim_domain_name (s origin : bytes) : res bytes :=
  match s with
  | [] => Ok [64]
  | _ =>
    if is_root origin then Ok (trim_suffix s origin)
    else
      let original := s in
      let s := fqdn s in
      let origin := fqdn origin in
      do sub <- is_sub_domain origin s;
      if negb sub then Ok original
      else
        match split s, split origin with
        | Some sl, Some ol =>
          do m <- compare_domain_name s origin;
          let apex :=
            Nat.eqb (length ol) m &&
            (Nat.eqb (length ol) (length sl) ||
             ((nth 0 s 0 =? 46) && Nat.eqb (length sl) (S (length ol)))) in
          if apex then Ok [64]
          else
            (* s[:slabels[len(slabels)-m]-1] *)
            let k := (length sl - m)%nat in
            if Nat.ltb k (length sl) && Nat.leb m (length sl) then
              let e := nth k sl O in
              match e with
              | O => Panic
              | S e' => gslice s O e'
              end
            else Panic
        | _, _ => OutOfFuel
        end
  end.
