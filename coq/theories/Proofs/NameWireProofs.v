(* Proofs/NameWireProofs.v — packDomainName / IsDomainName against the
   denotation of presentation names (Spec/NameSpec.v). *)
From Dns Require Import Base.ListX Model.NameWire Spec.NameSpec Proofs.EscapeProofs Proofs.TokenProofs.
From Coq Require Import Lia ZifyN ZifyNat ZifyBool.
Open Scope N_scope.

Lemma lenN_app {A} (a b : list A) : lenN (a ++ b) = lenN a + lenN b.
Proof. unfold lenN. rewrite app_length. lia. Qed.
Lemma lenN_cons {A} (x : A) l : lenN (x :: l) = 1 + lenN l.
Proof. unfold lenN. cbn [length]. lia. Qed.
Lemma lenN_nil {A} : lenN (@nil A) = 0.
Proof. reflexivity. Qed.

(* ---------- unfolding pn_go per token ---------- *)
Lemma pn_go_ddd a b c r3 f lab ls wd nl cap cp st : ddd3 a b c = true ->
  pn_go (92 :: a :: b :: c :: r3) f lab ls wd nl cap cp st =
  if cap <? lenN (pn_out st) + 1 then Err "buf"
  else pn_go r3 false (lab ++ [ddd_to_byte (a :: b :: c :: r3)]) ls false nl cap cp st.
Proof. intro H. cbn [pn_go]. unfold ddd3 in H. now rewrite H. Qed.
Lemma pn_go_esc a r1 f lab ls wd nl cap cp st : is_ddd (a :: r1) = false ->
  pn_go (92 :: a :: r1) f lab ls wd nl cap cp st =
  if cap <? lenN (pn_out st) + 1 then Err "buf"
  else pn_go r1 false (lab ++ [a]) ls false nl cap cp st.
Proof.
  intro H. destruct r1 as [|b [|c r3]]; try reflexivity.
  cbn [pn_go]. unfold is_ddd in H. now rewrite H.
Qed.
Lemma pn_go_plain x r f lab ls wd nl cap cp st : x <> 92 -> x <> 46 ->
  pn_go (x :: r) f lab ls wd nl cap cp st = pn_go r false (lab ++ [x]) ls false nl cap cp st.
Proof. intros H1 H2. plain_octet x. Qed.

(* the first-octet rule: i == 0 && len(s) > 1 behaves like wasDot except for "." *)
Lemma pn_go_first s lab ls nl cap cp st : s <> [46] ->
  pn_go s true lab ls false nl cap cp st = pn_go s false lab ls true nl cap cp st.
Proof.
  intro Hs. destruct s as [|x r]; [reflexivity|].
  destruct (N.eq_dec x 92) as [->|H92].
  { destruct r as [|a r1]; [reflexivity|].
    destruct (is_ddd (a :: r1)) eqn:Hd.
    - destruct r1 as [|b [|c r3]]; try discriminate. now rewrite !pn_go_ddd by exact Hd.
    - now rewrite !pn_go_esc by exact Hd. }
  destruct (N.eq_dec x 46) as [->|H46].
  { destruct r as [|y r]; [congruence|]. reflexivity. }
  now rewrite !pn_go_plain by auto.
Qed.

Lemma parse_go_nil_inv s : forall lab, parse_go s lab [] = Some [] -> s = [] /\ lab = [].
Proof.
  induction s as [| a b c r3 Hd IH | a r1 Hd IH | | r IH | x r H1 H2 IH] using tok_ind; intros lab H.
  - cbn in H. destruct lab; [auto|discriminate].
  - rewrite parse_go_ddd in H by auto. apply IH in H. destruct H as [_ H]. destruct lab; discriminate.
  - rewrite parse_go_esc in H by auto. apply IH in H. destruct H as [_ H]. destruct lab; discriminate.
  - discriminate.
  - cbn [parse_go] in H. rewrite parse_go_acc in H. destruct (parse_go r [] []); discriminate.
  - rewrite parse_go_plain in H by auto. apply IH in H. destruct H as [_ H]. destruct lab; discriminate.
Qed.

Lemma wd_nil : true = true <-> @nil N = [].
Proof. tauto. Qed.

Definition valid_from (nl : N) (ls : list label) : Prop :=
  forallb label_len_ok ls = true /\ nl + lenN (wire_labels ls) + 1 <= 255.

Lemma wire_labels_cons l ls : wire_labels (l :: ls) = lenN l :: l ++ wire_labels ls.
Proof. reflexivity. Qed.

(* packDomainName without a compression map = wire form of the denoted labels,
   and an error exactly when the labels break a limit *)
Lemma pn_go_none s : forall lab lstart wd nl cap cp out off0,
  lid s wd = true -> (wd = true <-> lab = []) ->
  lenN out = off0 + nl -> nl <= 254 -> off0 + 320 <= cap ->
  exists ls, parse_go s lab [] = Some ls /\
    (valid_from nl ls ->
       pn_go s false lab lstart wd nl cap cp {| pn_out := out; pn_cm := None |} =
       Ok (PnDone {| pn_out := out ++ wire_labels ls; pn_cm := None |})) /\
    (~ valid_from nl ls ->
       exists e, pn_go s false lab lstart wd nl cap cp {| pn_out := out; pn_cm := None |} = Err e).
Proof.
  induction s as [| a b c r3 Hd IH | a r1 Hd IH | | r IH | x r H1 H2 IH] using tok_ind;
    intros lab lstart wd nl cap cp out off0 Hlid Hwd Hout Hnl Hcap.
  - cbn in Hlid. subst wd. assert (lab = []) as -> by now apply Hwd.
    exists []. split; [reflexivity|]. split.
    + intros _. cbn. now rewrite app_nil_r.
    + intro Hn. exfalso. apply Hn. split; [reflexivity|]. cbn. lia.
  - rewrite lid_ddd in Hlid by auto.
    destruct (IH (lab ++ [ddd_to_byte (a :: b :: c :: r3)]) lstart false nl cap cp out off0) as [ls [Hp [Hv Hi]]]; auto.
    { split; [discriminate|]. intro H. destruct lab; discriminate. }
    exists ls. rewrite parse_go_ddd by auto. split; [exact Hp|].
    rewrite pn_go_ddd by auto. cbn [pn_out].
    replace (cap <? lenN out + 1) with false by lia. auto.
  - rewrite lid_esc in Hlid by auto.
    destruct (IH (lab ++ [a]) lstart false nl cap cp out off0) as [ls [Hp [Hv Hi]]]; auto.
    { split; [discriminate|]. intro H. destruct lab; discriminate. }
    exists ls. rewrite parse_go_esc by auto. split; [exact Hp|].
    rewrite pn_go_esc by auto. cbn [pn_out].
    replace (cap <? lenN out + 1) with false by lia. auto.
  - discriminate.
  - cbn [lid] in Hlid. cbn [parse_go]. rewrite parse_go_acc. cbn [rev app].
    destruct wd.
    + (* empty label: rejected *)
      assert (lab = []) as -> by now apply Hwd.
      destruct (IH [] r true nl cap cp out off0 Hlid wd_nil Hout Hnl Hcap) as [ls [Hp _]].
      rewrite Hp. exists ([] :: ls). split; [reflexivity|]. split.
      * intros [Hv _]. cbn in Hv. discriminate.
      * intros _. exists "rdata"%string. reflexivity.
    + assert (Hlab : lab <> []). { intro E. apply Hwd in E. discriminate. }
      assert (Hlen : 1 <= lenN lab). { destruct lab; [congruence|]. rewrite lenN_cons. lia. }
      cbn [pn_go andb pn_out pn_cm].
      destruct (64 <=? lenN lab) eqn:H64.
      { destruct (IH [] r true nl cap cp out off0 Hlid wd_nil Hout Hnl Hcap) as [ls [Hp _]].
        rewrite Hp. exists (lab :: ls). split; [reflexivity|]. split.
        - intros [Hv _]. cbn in Hv. unfold label_len_ok in Hv. lia.
        - intros _. eexists. reflexivity. }
      replace (cap <? lenN out + 1 + lenN lab) with false by lia.
      destruct (max_name_wire <? nl + 1 + lenN lab + 1) eqn:Hlong.
      { destruct (IH [] r true nl cap cp out off0 Hlid wd_nil Hout Hnl Hcap) as [ls [Hp _]].
        rewrite Hp. exists (lab :: ls). split; [reflexivity|]. split.
        - intros [_ Hv]. rewrite wire_labels_cons, lenN_cons, lenN_app in Hv. unfold max_name_wire in Hlong. lia.
        - intros _. eexists. reflexivity. }
      unfold max_name_wire in Hlong.
      assert (Hout' : lenN (out ++ lenN lab :: lab) = off0 + (nl + 1 + lenN lab)).
      { rewrite lenN_app, lenN_cons. lia. }
      assert (Hnl' : nl + 1 + lenN lab <= 254) by lia.
      destruct (IH [] r true (nl + 1 + lenN lab) cap cp (out ++ lenN lab :: lab) off0 Hlid wd_nil Hout' Hnl' Hcap) as [ls [Hp [Hv Hi]]].
      rewrite Hp. exists (lab :: ls). split; [reflexivity|].
      assert (Heq : valid_from nl (lab :: ls) <-> valid_from (nl + 1 + lenN lab) ls).
      { unfold valid_from. cbn [forallb]. rewrite wire_labels_cons, lenN_cons, lenN_app.
        unfold label_len_ok at 1.
        replace (1 <=? lenN lab) with true by lia. replace (lenN lab <=? 63) with true by lia.
        cbn [andb]. split; intros [A B]; (split; [exact A|lia]). }
      split.
      * intro V. apply Heq in V. rewrite (Hv V). rewrite wire_labels_cons, <- app_assoc. reflexivity.
      * intro V. apply Hi. intro V'. apply V. now apply Heq.
  - rewrite lid_plain in Hlid by auto.
    destruct (IH (lab ++ [x]) lstart false nl cap cp out off0) as [ls [Hp [Hv Hi]]]; auto.
    { split; [discriminate|]. intro H. destruct lab; discriminate. }
    exists ls. rewrite parse_go_plain by auto. split; [exact Hp|].
    rewrite pn_go_plain by auto. auto.
Qed.

(* ---------- IsDomainName ---------- *)
Lemma idn_go_ddd a b c r3 f n wd e off labels : ddd3 a b c = true ->
  idn_go (92 :: a :: b :: c :: r3) f n wd e off labels =
  if idn_lenmsg <? off + 1 then (labels, false) else idn_go r3 false (n + 1) false (negb e) off labels.
Proof. intro H. cbn [idn_go]. unfold ddd3 in H. now rewrite H. Qed.
Lemma idn_go_esc a r1 f n wd e off labels : is_ddd (a :: r1) = false ->
  idn_go (92 :: a :: r1) f n wd e off labels =
  if idn_lenmsg <? off + 1 then (labels, false) else idn_go r1 false (n + 1) false (negb e) off labels.
Proof.
  intro H. destruct r1 as [|b [|c r3]]; try reflexivity.
  cbn [idn_go]. unfold is_ddd in H. now rewrite H.
Qed.
Lemma idn_go_plain x r f n wd e off labels : x <> 92 -> x <> 46 ->
  idn_go (x :: r) f n wd e off labels = idn_go r false (n + 1) false false off labels.
Proof. intros H1 H2. plain_octet x. Qed.

Lemma idn_go_first s n off labels : s <> [46] ->
  snd (idn_go s true n false false off labels) = snd (idn_go s false n true false off labels).
Proof.
  intro Hs. destruct s as [|x r]; [reflexivity|].
  destruct (N.eq_dec x 92) as [->|H92].
  { destruct r as [|a r1]; [reflexivity|].
    destruct (is_ddd (a :: r1)) eqn:Hd.
    - destruct r1 as [|b [|c r3]]; try discriminate. now rewrite !idn_go_ddd by exact Hd.
    - now rewrite !idn_go_esc by exact Hd. }
  destruct (N.eq_dec x 46) as [->|H46].
  { destruct r as [|y r]; [congruence|]. reflexivity. }
  now rewrite !idn_go_plain by auto.
Qed.

Definition valid_fromb (nl : N) (ls : list label) : bool :=
  forallb label_len_ok ls && (nl + lenN (wire_labels ls) + 1 <=? 255).

Lemma valid_fromb_spec nl ls : valid_fromb nl ls = true <-> valid_from nl ls.
Proof. unfold valid_fromb, valid_from. rewrite andb_true_iff. lia. Qed.

Lemma wire_labels_len_pos l ls : 1 <= lenN (wire_labels (l :: ls)).
Proof. rewrite wire_labels_cons, lenN_cons. lia. Qed.

(* the label under construction is the first label of the result, so a non-empty
   rest always denotes at least one label *)
Lemma idn_go_spec s : forall lab wd e off labels ls,
  lid s wd = true -> (wd = true <-> lab = []) -> (wd = true -> e = false) ->
  off <= 254 -> parse_go s lab [] = Some ls ->
  snd (idn_go s false (lenN lab) wd e off labels) = valid_fromb off ls.
Proof.
  induction s as [| a b c r3 Hd IH | a r1 Hd IH | | r IH | x r H1 H2 IH] using tok_ind;
    intros lab wd e off labels ls Hlid Hwd He Hoff Hp.
  - cbn in Hlid. subst wd. rewrite (He eq_refl).
    assert (lab = []) as -> by now apply Hwd. cbn in Hp. injection Hp as <-.
    cbn. unfold valid_fromb. cbn. lia.
  - rewrite lid_ddd in Hlid by auto. rewrite parse_go_ddd in Hp by auto.
    rewrite idn_go_ddd by auto. unfold idn_lenmsg.
    destruct (254 <? off + 1) eqn:Hfull.
    + (* the name is already full and another label octet follows *)
      cbn [snd]. symmetry. apply not_true_is_false. rewrite valid_fromb_spec. intros [_ Hv].
      destruct ls as [|l ls].
      { apply parse_go_nil_inv in Hp. destruct Hp as [_ Hp]. destruct lab; discriminate. }
      pose proof (wire_labels_len_pos l ls). lia.
    + replace (lenN lab + 1) with (lenN (lab ++ [ddd_to_byte (a :: b :: c :: r3)]))
        by (rewrite lenN_app, lenN_cons, lenN_nil; lia).
      apply IH; auto; try discriminate.
      split; [discriminate|]. intro H. destruct lab; discriminate.
  - rewrite lid_esc in Hlid by auto. rewrite parse_go_esc in Hp by auto.
    rewrite idn_go_esc by auto. unfold idn_lenmsg.
    destruct (254 <? off + 1) eqn:Hfull.
    + cbn [snd]. symmetry. apply not_true_is_false. rewrite valid_fromb_spec. intros [_ Hv].
      destruct ls as [|l ls].
      { apply parse_go_nil_inv in Hp. destruct Hp as [_ Hp]. destruct lab; discriminate. }
      pose proof (wire_labels_len_pos l ls). lia.
    + replace (lenN lab + 1) with (lenN (lab ++ [a])) by (rewrite lenN_app, lenN_cons, lenN_nil; lia).
      apply IH; auto; try discriminate.
      split; [discriminate|]. intro H. destruct lab; discriminate.
  - discriminate.
  - cbn [lid] in Hlid. cbn [parse_go] in Hp. rewrite parse_go_acc in Hp. cbn [rev app] in Hp.
    destruct (parse_go r [] []) as [ls'|] eqn:Hp'; [|discriminate]. cbn in Hp. injection Hp as <-.
    cbn [idn_go andb].
    destruct wd.
    + assert (lab = []) as -> by now apply Hwd. cbn [snd].
      unfold valid_fromb. cbn. reflexivity.
    + assert (Hlab : lab <> []). { intro E. apply Hwd in E. discriminate. }
      assert (Hlen : 1 <= lenN lab). { destruct lab; [congruence|]. rewrite lenN_cons. lia. }
      unfold valid_fromb. cbn [forallb]. rewrite wire_labels_cons, lenN_cons, lenN_app.
      unfold label_len_ok at 1.
      destruct (64 <=? lenN lab) eqn:H64.
      { cbn [snd]. replace (lenN lab <=? 63) with false by lia. now rewrite andb_false_r. }
      replace (lenN lab <=? 63) with true by lia. replace (1 <=? lenN lab) with true by lia.
      cbn [andb]. unfold idn_lenmsg.
      destruct (254 <? off + 1 + lenN lab) eqn:Hlong.
      { cbn [snd]. symmetry. apply andb_false_intro2. lia. }
      assert (Hoff' : off + 1 + lenN lab <= 254) by lia.
      pose proof (IH [] true false (off + 1 + lenN lab) (labels + 1) ls' Hlid wd_nil (fun _ => eq_refl) Hoff' Hp') as IH'.
      change (lenN (@nil N)) with 0 in IH'. rewrite IH'.
      unfold valid_fromb. f_equal. lia.
  - rewrite lid_plain in Hlid by auto. rewrite parse_go_plain in Hp by auto.
    rewrite idn_go_plain by auto.
    replace (lenN lab + 1) with (lenN (lab ++ [x])) by (rewrite lenN_app, lenN_cons, lenN_nil; lia).
    apply IH; auto; try discriminate.
    split; [discriminate|]. intro H. destruct lab; discriminate.
Qed.

Lemma lid_parse_some s : forall lab wd, lid s wd = true -> (wd = true <-> lab = []) ->
  exists ls, parse_go s lab [] = Some ls.
Proof.
  intros lab wd H1 H2.
  destruct (pn_go_none s lab [] wd 0 320 false [] 0 H1 H2) as [ls [Hp _]]; try reflexivity; try lia.
  now exists ls.
Qed.

(* ================= the C03 theorems ================= *)

Lemma lid_first_equiv s : s <> [46] -> lid s false = true -> lid s true = true.
Proof.
  intros Hs H. destruct s as [|x r]; [reflexivity|].
  destruct (N.eq_dec x 92) as [->|H92].
  { destruct r as [|a r1]; [discriminate|].
    destruct (is_ddd (a :: r1)) eqn:Hd.
    - destruct r1 as [|b [|c r3]]; try discriminate. rewrite lid_ddd in * by exact Hd. exact H.
    - rewrite lid_esc in * by exact Hd. exact H. }
  destruct (N.eq_dec x 46) as [->|H46]; [exact H|].
  rewrite lid_plain in * by auto. exact H.
Qed.

Lemma parse_name_nonroot s : s <> [] -> s <> [46] -> parse_name s = parse_go s [] [].
Proof.
  intros H1 H2. unfold parse_name. destruct s as [|x r]; [congruence|].
  destruct r as [|y r].
  - destruct x as [|p]; [reflexivity|]. repeat (destruct p as [p|p|]; try reflexivity). congruence.
  - destruct x as [|p]; [reflexivity|]. repeat (destruct p as [p|p|]; try reflexivity).
Qed.

(* the labels a fully-qualified text denotes exist *)
Lemma fqdn_parses s : is_fqdn s = true -> exists ls, parse_name s = Some ls.
Proof.
  intro Hf. unfold parse_name.
  destruct s as [|x r]; [discriminate|].
  destruct (list_eq_dec N.eq_dec (x :: r) [46]) as [E|E].
  { injection E as -> ->. now exists []. }
  apply is_fqdn_lid in Hf. apply lid_first_equiv in Hf; [|exact E].
  destruct (lid_parse_some (x :: r) [] true Hf wd_nil) as [ls Hls].
  exists ls. fold (parse_name (x :: r)). rewrite parse_name_nonroot by (congruence || discriminate). exact Hls.
Qed.


Theorem is_domain_name_iff_limits s ls :
  is_fqdn s = true -> parse_name s = Some ls ->
  snd (is_domain_name s) = name_len_ok ls.
Proof.
  intros Hf Hp. unfold is_domain_name. destruct s as [|x r] eqn:Hs; [discriminate|].
  rewrite <- Hs in *. rewrite Hf.
  destruct (list_eq_dec N.eq_dec s [46]) as [E|E].
  { rewrite E in *. cbn in Hp. injection Hp as <-. reflexivity. }
  rewrite parse_name_nonroot in Hp by congruence.
  rewrite idn_go_first by exact E.
  change 0 with (lenN (@nil N)) at 1.
  rewrite (idn_go_spec s [] true false 0 0 ls); auto.
  - apply lid_first_equiv; [exact E|]. now apply is_fqdn_lid.
  - apply wd_nil.
  - lia.
Qed.

Theorem pack_name_plain_spec s ls cap :
  is_fqdn s = true -> parse_name s = Some ls -> 320 <= cap ->
  (name_len_ok ls = true -> pack_name_plain s cap = Ok (wire_name ls)) /\
  (name_len_ok ls = false -> exists e, pack_name_plain s cap = Err e).
Proof.
  intros Hf Hp Hcap. unfold pack_name_plain, pack_name. destruct s as [|x r] eqn:Hs; [discriminate|].
  rewrite <- Hs in *. rewrite Hf. cbn [negb].
  destruct (list_eq_dec N.eq_dec s [46]) as [E|E].
  { rewrite E in *. cbn in Hp. injection Hp as <-. split; [|discriminate].
    intros _. cbn. replace (cap <? 1) with false by lia. reflexivity. }
  rewrite parse_name_nonroot in Hp by congruence.
  rewrite pn_go_first by exact E.
  assert (Hlid : lid s true = true). { apply lid_first_equiv; [exact E|]. now apply is_fqdn_lid. }
  destruct (pn_go_none s [] s true 0 cap false [] 0 Hlid wd_nil) as [ls' [Hp' [Hv Hi]]]; try reflexivity; try lia.
  rewrite Hp in Hp'. injection Hp' as <-.
  assert (Hb : bytes_eqb s [46] = false).
  { destruct (bytes_eqb s [46]) eqn:B; [|reflexivity]. apply bytes_eqb_eq in B. congruence. }
  split.
  - intro V. assert (V' : valid_from 0 ls).
    { unfold name_len_ok in V. apply andb_prop in V. unfold valid_from. split; [tauto|lia]. }
    rewrite (Hv V'). cbn [bind pn_out pn_cm app]. rewrite Hb.
    destruct V' as [_ V'].
    replace (lenN (wire_labels ls) <? cap) with true by lia. reflexivity.
  - intro V. assert (V' : ~ valid_from 0 ls).
    { intros [A B]. unfold name_len_ok in V. rewrite A in V. cbn in V. lia. }
    destruct (Hi V') as [e He]. rewrite He. now exists e.
Qed.
