From Dns Require Import Model.Msg Model.Truncate.
(* placeholder until the theorems land *)
Theorem placeholder_C08 : truncate_loop [] 0%Z 0%Z None O = (0%Z, O, None).
Proof. reflexivity. Qed.
