// C16: copies are deep; decoded messages alias no buffer; read-only operations do not mutate.
package main

import (
	"crypto/ed25519"
	"fmt"
	"net"
	"reflect"
	"sort"
	"strconv"
	"strings"
	"unsafe"

	"github.com/miekg/dns"
	. "verif/harness/common"
)

func main() { Main(run) }

var st = map[string]int{}

type span struct {
	lo, hi uintptr
	path   string
}

// memory collects the address ranges of every piece of mutable memory reachable
// from v: slice backing arrays and pointed-to structs (strings are immutable).
func memory(v reflect.Value, path string, out *[]span) {
	switch v.Kind() {
	case reflect.Ptr:
		if v.IsNil() {
			return
		}
		e := v.Elem()
		if sz := e.Type().Size(); sz > 0 {
			*out = append(*out, span{v.Pointer(), v.Pointer() + sz, path})
		}
		memory(e, path, out)
	case reflect.Interface:
		if !v.IsNil() {
			memory(v.Elem(), path, out)
		}
	case reflect.Struct:
		for i := 0; i < v.NumField(); i++ {
			memory(v.Field(i), path+"."+v.Type().Field(i).Name, out)
		}
	case reflect.Slice:
		if v.IsNil() || v.Cap() == 0 {
			return
		}
		sz := v.Type().Elem().Size() * uintptr(v.Cap())
		*out = append(*out, span{v.Pointer(), v.Pointer() + sz, path})
		for i := 0; i < v.Len(); i++ {
			memory(v.Index(i), path+"[]", out)
		}
	}
}

func overlaps(a, b []span) (string, bool) {
	for _, x := range a {
		for _, y := range b {
			if x.lo < y.hi && y.lo < x.hi {
				return x.path + " ~ " + y.path, true
			}
		}
	}
	return "", false
}

// sharedFields lists the RDATA fields of rr whose memory the copy shares.
func sharedFields(rr, cp dns.RR) []string {
	a := Flatten(reflect.ValueOf(rr).Elem())
	b := Flatten(reflect.ValueOf(cp).Elem())
	var shared []string
	for i := 0; i < a.NumField(); i++ {
		var ma, mb []span
		memory(a.Field(i), "", &ma)
		memory(b.Field(i), "", &mb)
		if _, ok := overlaps(ma, mb); ok {
			shared = append(shared, a.Type().Field(i).Name)
		}
	}
	return shared
}

// scribble flips every octet of every byte-like slice reachable from v.
func scribble(v reflect.Value) {
	switch v.Kind() {
	case reflect.Ptr, reflect.Interface:
		if !v.IsNil() {
			scribble(v.Elem())
		}
	case reflect.Struct:
		for i := 0; i < v.NumField(); i++ {
			if v.Type().Field(i).Name == "Hdr" {
				continue
			}
			scribble(v.Field(i))
		}
	case reflect.Slice:
		for i := 0; i < v.Len(); i++ {
			e := v.Index(i)
			switch e.Kind() {
			case reflect.Uint8:
				e.SetUint(e.Uint() ^ 0xff)
			case reflect.Uint16:
				e.SetUint(e.Uint() ^ 0xffff)
			case reflect.String:
				if e.CanSet() {
					e.SetString(e.String() + "~")
				}
			default:
				scribble(e)
			}
		}
	}
}

func text(rr dns.RR) string {
	t, _ := RRText(rr)
	return t + "|" + Protect(func() string { return rr.String() })
}

func checkCopyRR(rr dns.RR, emitKind map[string]bool) {
	st["rr_checked"]++
	kind := KindOf(rr)
	cp := dns.Copy(rr)
	var ma, mb []span
	memory(reflect.ValueOf(rr), kind, &ma)
	memory(reflect.ValueOf(cp), kind, &mb)
	t0, _ := RRText(rr)
	if w, ok := overlaps(ma, mb); ok {
		Viol("C16/copy-shares-memory/"+kind, "Copy(rr) shares memory with rr: "+w, map[string]string{"rr": t0})
	}
	if !emitKind[kind] {
		emitKind[kind] = true
		Emit("copy_shared", []string{kind}, strings.Join(sharedFields(rr, cp), ","))
	}
	// no write to the copy is observable through the original, and vice versa
	before := text(rr)
	scribble(reflect.ValueOf(cp))
	if text(rr) != before {
		Viol("C16/copy-write-visible/"+kind, "a write to the copy changed the original", map[string]string{"rr": t0})
	}
	cp2 := dns.Copy(rr)
	b2 := text(cp2)
	scribble(reflect.ValueOf(rr))
	if text(cp2) != b2 {
		Viol("C16/copy-write-visible/"+kind, "a write to the original changed the copy", map[string]string{"rr": t0})
	}
}

func msgSnap(m *dns.Msg) string {
	t, _ := MsgText(m)
	return t
}

// normalise the documented bookkeeping: Rdlength and the OPT extended-RCODE bits
func snapNoBookkeeping(m *dns.Msg) string {
	c := m.Copy()
	for _, sec := range [][]dns.RR{c.Answer, c.Ns, c.Extra} {
		for _, r := range sec {
			r.Header().Rdlength = 0
			if o, ok := r.(*dns.OPT); ok {
				o.Hdr.Ttl &= 0x00FFFFFF
			}
		}
	}
	return msgSnap(c)
}

func checkMsg(m *dns.Msg) {
	st["msg_checked"]++
	orig := msgSnap(m)
	in := map[string]string{"msg": orig}
	// Copy is deep
	c := m.Copy()
	var ma, mb []span
	memory(reflect.ValueOf(m), "Msg", &ma)
	memory(reflect.ValueOf(c), "Msg", &mb)
	if w, ok := overlaps(ma, mb); ok {
		Viol("C16/msgcopy-shares-memory", "Msg.Copy shares memory with the original: "+w, in)
	}
	scribble(reflect.ValueOf(c))
	for i := range c.Question {
		c.Question[i].Name = "scribbled."
	}
	if msgSnap(m) != orig {
		Viol("C16/msgcopy-write-visible", "a write to the copy of a message changed the original", in)
	}
	// read-only operations
	base := snapNoBookkeeping(m)
	ops := []struct {
		name string
		f    func()
	}{
		{"Len", func() { _ = m.Len() }},
		{"String", func() { _ = m.String() }},
		{"Pack", func() { _, _ = m.Pack() }},
		{"PackBuffer", func() { _, _ = m.PackBuffer(make([]byte, 70000)) }},
		{"Copy", func() { _ = m.Copy() }},
		{"IsDuplicate", func() {
			all := append(append(append([]dns.RR{}, m.Answer...), m.Ns...), m.Extra...)
			for i := range all {
				for j := range all {
					dns.IsDuplicate(all[i], all[j])
				}
			}
		}},
		{"LenRR", func() {
			for _, r := range m.Answer {
				_ = dns.Len(r)
				_ = r.String()
			}
		}},
	}
	for _, op := range ops {
		if Protect(func() string { op.f(); return "ok" }) == "panic" {
			continue // panics are C02's business
		}
		if got := snapNoBookkeeping(m); got != base {
			in["after"] = got
			Viol("C16/readonly-mutates/"+op.name, op.name+" changed its argument", in)
			base = got
		}
	}
	// Unpack shares no memory with the input buffer
	w, err := m.Pack()
	if err != nil {
		return
	}
	buf := append([]byte{}, w...)
	var u dns.Msg
	if u.Unpack(buf) != nil {
		return
	}
	var mu []span
	memory(reflect.ValueOf(&u), "Msg", &mu)
	bspan := []span{{uintptr(unsafe.Pointer(unsafe.SliceData(buf))), uintptr(unsafe.Pointer(unsafe.SliceData(buf))) + uintptr(cap(buf)), "buf"}}
	if wv, ok := overlaps(mu, bspan); ok {
		Viol("C16/unpack-aliases-buffer", "an unpacked message shares memory with the input buffer: "+wv, in)
	}
	s1 := msgSnap(&u)
	for i := range buf {
		buf[i] ^= 0xff
	}
	if msgSnap(&u) != s1 {
		Viol("C16/unpack-aliases-buffer", "overwriting the input buffer changed the unpacked message", in)
	}
	st["unpack_alias_checked"]++
}

func checkSignVerify(r *Rng) {
	_, priv, _ := ed25519.GenerateKey(nil)
	key := &dns.DNSKEY{Hdr: dns.RR_Header{Name: "example.org.", Rrtype: dns.TypeDNSKEY, Class: 1, Ttl: 3600}, Flags: 257, Protocol: 3, Algorithm: dns.ED25519}
	key.PublicKey = toB64(priv.Public().(ed25519.PublicKey))
	// every combination of: owner already lower case or not, TTLs equal to the original TTL or
	// not, wildcard owner or not, record type with / without embedded names
	expandWildcard := false
	for _, owner := range []string{"example.org.", "Example.ORG.", "*.example.org.", "*.Example.org.", "EXPAND:a.b.example.org.", "EXPAND:X.Example.org."} {
		expandWildcard = strings.HasPrefix(owner, "EXPAND:")
		expanded := strings.TrimPrefix(owner, "EXPAND:")
		if expandWildcard {
			owner = "*.example.org." // signed as a wildcard, verified below under the expanded owner
		}
		for _, ttls := range [][2]uint32{{300, 300}, {300, 200}} {
			for _, mk := range []func(h dns.RR_Header, i int) dns.RR{
				func(h dns.RR_Header, i int) dns.RR {
					h.Rrtype = dns.TypeMX
					return &dns.MX{Hdr: h, Preference: uint16(10 * (i + 1)), Mx: []string{"Mail.Example.org.", "BACKUP.example.ORG."}[i]}
				},
				func(h dns.RR_Header, i int) dns.RR {
					h.Rrtype = dns.TypeSOA
					return &dns.SOA{Hdr: h, Ns: "NS.Example.org.", Mbox: "Host\\.Master.example.org.", Serial: uint32(i + 1)}
				},
				func(h dns.RR_Header, i int) dns.RR {
					h.Rrtype = dns.TypeTXT
					return &dns.TXT{Hdr: h, Txt: []string{"Mixed Case", string(rune('a' + i))}}
				},
				func(h dns.RR_Header, i int) dns.RR {
					h.Rrtype = dns.TypeSRV
					return &dns.SRV{Hdr: h, Priority: 1, Weight: 2, Port: uint16(i + 1), Target: "SIP.Example.org."}
				},
			} {
				for _, shape := range [][]int{{0, 1}, {0, 0, 1}, {0, 1, 0}, {0}, {1, 1}, {0, 1, 1, 0}} {
					// the RRset as the caller holds it: records may repeat (the same RDATA with another TTL, as after
					// merging two answers), in any position
					var rrset []dns.RR
					for pos, i := range shape {
						ttl := ttls[i]
						if pos >= 2 {
							ttl = ttls[i] / 5 // a repeated record with a SMALLER TTL than its first occurrence
						}
						rrset = append(rrset, mk(dns.RR_Header{Name: owner, Class: 1, Ttl: ttl}, i))
					}
					snap := func() string {
						var s []string
						for _, rr := range rrset {
							c := dns.Copy(rr)
							c.Header().Rdlength = 0 // RDLENGTH bookkeeping is allowed to change
							s = append(s, text(c))
						}
						kc := dns.Copy(key)
						kc.Header().Rdlength = 0
						return strings.Join(s, ";") + text(kc)
					}
					before := snap()
					for _, signer := range []string{"example.org.", "eXample.ORG."} {
						sig := &dns.RRSIG{KeyTag: key.KeyTag(), SignerName: signer, Algorithm: dns.ED25519, Inception: 1700000000, Expiration: 1800000000}
						if err := sig.Sign(priv, rrset); err != nil {
							continue
						}
						st["sign_verify_checked"]++
						if snap() != before {
							Viol("C16/readonly-mutates/Sign", "RRSIG.Sign changed the RRset or key", map[string]string{"before": before, "after": snap()})
							before = snap()
						}
						// Verify: the RRset, the key AND the signature record itself stay as they were
						sigSnap := func() string {
							c := dns.Copy(sig)
							c.Header().Rdlength = 0
							return text(c)
						}
						if expandWildcard {
							// the answer synthesised from the wildcard: same records under the expanded owner
							for _, rr := range rrset {
								rr.Header().Name = expanded
							}
							sig.Hdr.Name = expanded // the RRSIG travels under the expanded owner as well
							before = snap()
						}
						sigBefore := sigSnap()
						verr := sig.Verify(key, rrset)
						if expandWildcard && verr != nil {
							st["wildcard_expansion_not_verified"]++
						}
						if snap() != before || sigSnap() != sigBefore {
							Viol("C16/readonly-mutates/Verify", "RRSIG.Verify changed the RRset, the key or the signature record", map[string]string{"before": before + sigBefore, "after": snap() + sigSnap()})
						}
					}
				}
			}
		}
	}
}

func toB64(b []byte) string {
	const tbl = "ABCDEFGHIJKLMNOPQRSTUVWXYZabcdefghijklmnopqrstuvwxyz0123456789+/"
	var sb strings.Builder
	for i := 0; i < len(b); i += 3 {
		var n uint32
		k := 0
		for j := 0; j < 3; j++ {
			n <<= 8
			if i+j < len(b) {
				n |= uint32(b[i+j])
				k++
			}
		}
		for j := 0; j < 4; j++ {
			if j <= k {
				sb.WriteByte(tbl[(n>>(18-6*uint(j)))&63])
			} else {
				sb.WriteByte('=')
			}
		}
	}
	return sb.String()
}

func run(r *Rng, tier string, n int) {
	per, nmsg := 8, 120
	if tier == "thorough" {
		per, nmsg = 200, 5000
	}
	if n > 0 {
		per = n
	}
	pool := &NamePool{R: r}
	types := AllTypes()
	emitted := map[string]bool{}
	for _, t := range types {
		for i := 0; i < per; i++ {
			rr, _ := GenRR(r, pool, t, false)
			// make sure the slices that can be aliased are not empty
			switch x := rr.(type) {
			case *dns.OPT:
				x.Option = append(x.Option,
					&dns.EDNS0_SUBNET{Code: dns.EDNS0SUBNET, Family: 1, SourceNetmask: 24, Address: net.IP{10, 1, 2, 0}.To16()},
					&dns.EDNS0_DAU{Code: dns.EDNS0DAU, AlgCode: []uint8{8, 13}}, &dns.EDNS0_DHU{Code: dns.EDNS0DHU, AlgCode: []uint8{2}},
					&dns.EDNS0_N3U{Code: dns.EDNS0N3U, AlgCode: []uint8{1}}, &dns.EDNS0_LOCAL{Code: 65001, Data: []byte{1, 2}},
					&dns.EDNS0_PADDING{Padding: []byte{0, 0}})
			case *dns.SVCB:
				if len(x.Value) == 0 {
					x.Value = []dns.SVCBKeyValue{&dns.SVCBIPv4Hint{Hint: []net.IP{{1, 2, 3, 4}}}, &dns.SVCBECHConfig{ECH: []byte{9}}}
				}
			case *dns.APL:
				if len(x.Prefixes) == 0 {
					x.Prefixes = []dns.APLPrefix{{Network: net.IPNet{IP: net.IP{10, 0, 0, 0}, Mask: net.CIDRMask(8, 32)}}}
				}
			}
			checkCopyRR(rr, emitted)
		}
	}
	// values that hold POINTERS to option / parameter / private-RDATA values whose content is empty at copy time
	// (a template that is filled in later): the pointed-to values must be fresh too, and a later write to one
	// side must not show through the other
	emptyContent(r)
	sectionCapacity()
	observedDuringPack()
	// option and parameter types on their own (the table has one row per type)
	opts := []dns.EDNS0{
		&dns.EDNS0_SUBNET{Code: dns.EDNS0SUBNET, Family: 2, SourceNetmask: 64, Address: net.ParseIP("2001:db8::")},
		&dns.EDNS0_DAU{AlgCode: []uint8{1, 2}}, &dns.EDNS0_DHU{AlgCode: []uint8{1}}, &dns.EDNS0_N3U{AlgCode: []uint8{1}},
		&dns.EDNS0_LOCAL{Code: 65001, Data: []byte{1}}, &dns.EDNS0_PADDING{Padding: []byte{1}}, &dns.EDNS0_NSID{Nsid: "aa"},
		&dns.EDNS0_COOKIE{Cookie: "0011223344556677"}, &dns.EDNS0_UL{Lease: 1}, &dns.EDNS0_LLQ{Id: 1}, &dns.EDNS0_EXPIRE{Expire: 1},
		&dns.EDNS0_TCP_KEEPALIVE{Timeout: 1}, &dns.EDNS0_EDE{InfoCode: 1, ExtraText: "x"}, &dns.EDNS0_ESU{Uri: "u"},
		&dns.EDNS0_REPORTING{AgentDomain: "a."}, &dns.EDNS0_ZONEVERSION{Version: "v"},
	}
	for _, o := range opts {
		c := dns.VerifOptCopy(o)
		var ma, mb []span
		memory(reflect.ValueOf(o), "", &ma)
		memory(reflect.ValueOf(c), "", &mb)
		kind := reflect.TypeOf(o).Elem().Name()
		if w, ok := overlaps(ma, mb); ok {
			Viol("C16/copy-shares-memory/"+kind, "copy() of an EDNS0 option shares memory: "+w, nil)
		}
		a, b := reflect.ValueOf(o).Elem(), reflect.ValueOf(c).Elem()
		var shared []string
		for i := 0; i < a.NumField(); i++ {
			var fa, fb []span
			memory(a.Field(i), "", &fa)
			memory(b.Field(i), "", &fb)
			if _, ok := overlaps(fa, fb); ok {
				shared = append(shared, a.Type().Field(i).Name)
			}
		}
		sort.Strings(shared)
		Emit("copy_shared", []string{kind}, strings.Join(shared, ","))
		st["option_types_checked"]++
	}
	kvs := []dns.SVCBKeyValue{
		&dns.SVCBMandatory{Code: []dns.SVCBKey{1, 2}}, &dns.SVCBAlpn{Alpn: []string{"h2"}}, &dns.SVCBNoDefaultAlpn{}, &dns.SVCBPort{Port: 1},
		&dns.SVCBIPv4Hint{Hint: []net.IP{{1, 2, 3, 4}}}, &dns.SVCBECHConfig{ECH: []byte{1}}, &dns.SVCBIPv6Hint{Hint: []net.IP{net.ParseIP("2001:db8::1")}},
		&dns.SVCBDoHPath{Template: "/x"}, &dns.SVCBOhttp{}, &dns.SVCBLocal{KeyCode: 65400, Data: []byte{1}},
	}
	for _, kv := range kvs {
		c := dns.VerifSVCBCopy(kv)
		var ma, mb []span
		memory(reflect.ValueOf(kv), "", &ma)
		memory(reflect.ValueOf(c), "", &mb)
		kind := reflect.TypeOf(kv).Elem().Name()
		if reflect.TypeOf(kv).Elem().Size() == 0 {
			ma, mb = nil, nil // zero-size structs share one address by the language definition
		}
		if w, ok := overlaps(ma, mb); ok {
			Viol("C16/copy-shares-memory/"+kind, "copy() of an SVCB parameter shares memory: "+w, nil)
		}
		a, b := reflect.ValueOf(kv).Elem(), reflect.ValueOf(c).Elem()
		var shared []string
		for i := 0; i < a.NumField(); i++ {
			var fa, fb []span
			memory(a.Field(i), "", &fa)
			memory(b.Field(i), "", &fb)
			if _, ok := overlaps(fa, fb); ok {
				shared = append(shared, a.Type().Field(i).Name)
			}
		}
		Emit("copy_shared", []string{kind}, strings.Join(shared, ","))
		st["param_types_checked"]++
	}
	for i := 0; i < nmsg; i++ {
		m, _ := GenMsg(r, pool, types, 1+r.Intn(2), r.Intn(5), r.Intn(3), r.Intn(3), r.Intn(2) == 0, false)
		checkMsg(m)
	}
	checkSignVerify(r)
	readonlyNonCanonical(r)
	readonlyFailing(r, pool, types)
	observedDuringSignVerify()
	unpackAliasingSweep(r)
	Stat(st)
}

// deepClone copies a value with everything it points to (independent of the library's own copy()).
// c16Priv is the RDATA of a private-use type registered with dns.PrivateHandle.
type c16Priv struct{ B []byte }

func (d *c16Priv) String() string { return Hx(d.B) }
func (d *c16Priv) Parse(s []string) error {
	d.B = []byte(strings.Join(s, ""))
	return nil
}
func (d *c16Priv) Pack(buf []byte) (int, error) {
	if len(buf) < len(d.B) {
		return 0, dns.ErrBuf
	}
	return copy(buf, d.B), nil
}
func (d *c16Priv) Unpack(buf []byte) (int, error) {
	d.B = append([]byte(nil), buf...)
	return len(buf), nil
}
func (d *c16Priv) Copy(dst dns.PrivateRdata) error {
	dst.(*c16Priv).B = append([]byte(nil), d.B...)
	return nil
}
func (d *c16Priv) Len() int { return len(d.B) }

// sectionCapacity: the sections of a message are slices of the caller's: Answer = zone[:2] of a longer array,
// Ns and Extra likewise. What lies beyond their length (within the capacity) is the caller's, not the
// message's: no read-only operation may write there.
func sectionCapacity() {
	mk := func(owner string, i int) dns.RR {
		return &dns.A{Hdr: dns.RR_Header{Name: owner, Rrtype: dns.TypeA, Class: 1, Ttl: 60}, A: []byte{192, 0, 2, byte(i)}}
	}
	for _, withOpt := range []bool{false, true} {
		zone := []dns.RR{mk("www.example.org.", 1), mk("www.example.org.", 2), mk("www.example.org.", 3), mk("www.example.org.", 4)}
		auth := []dns.RR{&dns.NS{Hdr: dns.RR_Header{Name: "example.org.", Rrtype: dns.TypeNS, Class: 1, Ttl: 60}, Ns: "ns1.example.org."}, mk("spare-ns.example.org.", 9)}
		extra := []dns.RR{mk("ns1.example.org.", 5), mk("spare-extra.example.org.", 6), mk("spare-extra.example.org.", 7)}
		if withOpt {
			extra[0] = &dns.OPT{Hdr: dns.RR_Header{Name: ".", Rrtype: dns.TypeOPT, Class: 1232}}
		}
		snap := func() string {
			var sb strings.Builder
			for _, l := range [][]dns.RR{zone, auth, extra} {
				for _, rr := range l {
					sb.WriteString(rr.String())
					sb.WriteByte('\n')
				}
				sb.WriteString("--\n")
			}
			return sb.String()
		}
		ops := map[string]func(m *dns.Msg){
			"Len":        func(m *dns.Msg) { _ = m.Len() },
			"Pack":       func(m *dns.Msg) { _, _ = m.Pack() },
			"PackBuffer": func(m *dns.Msg) { _, _ = m.PackBuffer(make([]byte, 4096)) },
			"String":     func(m *dns.Msg) { _ = m.String() },
			"Copy":       func(m *dns.Msg) { _ = m.Copy() },
			"IsEdns0":    func(m *dns.Msg) { _ = m.IsEdns0() },
		}
		for name, op := range ops {
			for _, compress := range []bool{false, true} {
				before := snap()
				m := new(dns.Msg)
				m.SetQuestion("www.example.org.", dns.TypeA)
				m.Response, m.Compress = true, compress
				m.Answer, m.Ns, m.Extra = zone[:2], auth[:1], extra[:1]
				if Protect(func() string { op(m); return "ok" }) != "ok" {
					continue
				}
				st["section_capacity_checked"]++
				if after := snap(); after != before {
					Viol("C16/readonly-mutates/beyond-section-length/"+name, name+" wrote into the caller's array beyond the length of a section slice of the message", map[string]string{"before": before, "after": after})
					return
				}
			}
		}
	}
}

// observedDuringPack: what the message's own fields are WHILE a read-only operation runs (a private-use RDATA is
// called back from inside Len / Pack and looks at the message): an operation that switches a field and
// restores it afterwards is visible to every concurrent reader of the message.
type c16Spy struct {
	B    []byte
	look func()
}

func (d *c16Spy) String() string         { return Hx(d.B) }
func (d *c16Spy) Parse(s []string) error { return nil }
func (d *c16Spy) Pack(buf []byte) (int, error) {
	if d.look != nil {
		d.look()
	}
	if len(buf) < len(d.B) {
		return 0, dns.ErrBuf
	}
	return copy(buf, d.B), nil
}
func (d *c16Spy) Unpack(buf []byte) (int, error) {
	d.B = append([]byte(nil), buf...)
	return len(buf), nil
}
func (d *c16Spy) Copy(dst dns.PrivateRdata) error {
	dst.(*c16Spy).B = append([]byte(nil), d.B...)
	dst.(*c16Spy).look = d.look // a private copy made INSIDE an operation calls back as well
	return nil
}
func (d *c16Spy) Len() int {
	if d.look != nil {
		d.look()
	}
	return len(d.B)
}

func observedDuringPack() {
	const code = 65317
	dns.PrivateHandle("VSPY", code, func() dns.PrivateRdata { return new(c16Spy) })
	defer dns.PrivateHandleRemove(code)
	for _, compress := range []bool{true, false} {
		m := new(dns.Msg)
		m.SetQuestion("www.example.org.", dns.TypeA)
		m.Response, m.Compress, m.Rcode = true, compress, dns.RcodeRefused
		spy := dns.TypeToRR[code]().(*dns.PrivateRR)
		spy.Hdr = dns.RR_Header{Name: "www.example.org.", Rrtype: code, Class: 1, Ttl: 5}
		spy.Data.(*c16Spy).B = []byte{1, 2, 3}
		m.Answer = []dns.RR{&dns.A{Hdr: dns.RR_Header{Name: "www.example.org.", Rrtype: dns.TypeA, Class: 1, Ttl: 60}, A: []byte{192, 0, 2, 1}}, spy}
		m.Ns = []dns.RR{&dns.NS{Hdr: dns.RR_Header{Name: "example.org.", Rrtype: dns.TypeNS, Class: 1, Ttl: 60}, Ns: "ns1.example.org."}}
		want := msgSnap(m)
		seen := map[string]string{}
		for name, op := range map[string]func(){
			"Len": func() { _ = m.Len() }, "Pack": func() { _, _ = m.Pack() }, "PackBuffer": func() { _, _ = m.PackBuffer(make([]byte, 4096)) },
			"String": func() { _ = m.String() }, "Copy": func() { _ = m.Copy() },
		} {
			cur := name
			spy.Data.(*c16Spy).look = func() {
				spy.Data.(*c16Spy).look = nil // no recursion through msgSnap
				if got := msgSnap(m); got != want && seen[cur] == "" {
					seen[cur] = got
				}
				spy.Data.(*c16Spy).look = func() {}
			}
			Protect(func() string { op(); return "ok" })
			spy.Data.(*c16Spy).look = nil
			st["observed_during_op_checked"]++
		}
		for name, got := range seen {
			Viol("C16/readonly-mutates/during/"+name, name+" changes a field of its argument while it runs (seen from a callback inside it), even if it restores it afterwards", map[string]string{"before": want, "during": got})
		}
	}
}

func emptyContent(r *Rng) {
	const code = 65316
	dns.PrivateHandle("VPRIVS", code, func() dns.PrivateRdata { return new(c16Priv) })
	defer dns.PrivateHandleRemove(code)
	mkPriv := func(n int) dns.RR {
		rr := dns.TypeToRR[code]()
		*rr.Header() = dns.RR_Header{Name: "p.example.", Rrtype: code, Class: dns.ClassINET, Ttl: 5}
		rr.(*dns.PrivateRR).Data.(*c16Priv).B = make([]byte, n)
		return rr
	}
	h := func(t uint16) dns.RR_Header {
		return dns.RR_Header{Name: "e.example.", Rrtype: t, Class: dns.ClassINET, Ttl: 5}
	}
	vals := []dns.RR{
		mkPriv(0), mkPriv(1), mkPriv(300),
		&dns.OPT{Hdr: dns.RR_Header{Name: ".", Rrtype: dns.TypeOPT, Class: 1232}, Option: []dns.EDNS0{&dns.EDNS0_LOCAL{Code: 65001}, &dns.EDNS0_PADDING{}, &dns.EDNS0_DAU{}, &dns.EDNS0_NSID{}, &dns.EDNS0_SUBNET{Code: dns.EDNS0SUBNET}, &dns.EDNS0_COOKIE{}}},
		&dns.SVCB{Hdr: h(dns.TypeSVCB), Priority: 1, Target: ".", Value: []dns.SVCBKeyValue{&dns.SVCBAlpn{}, &dns.SVCBIPv4Hint{}, &dns.SVCBIPv6Hint{}, &dns.SVCBECHConfig{}, &dns.SVCBMandatory{}, &dns.SVCBLocal{KeyCode: 65300}, &dns.SVCBDoHPath{}}},
		&dns.HTTPS{SVCB: dns.SVCB{Hdr: h(dns.TypeHTTPS), Priority: 1, Target: ".", Value: []dns.SVCBKeyValue{&dns.SVCBNoDefaultAlpn{}, &dns.SVCBOhttp{}, &dns.SVCBPort{}}}},
		&dns.APL{Hdr: h(dns.TypeAPL), Prefixes: []dns.APLPrefix{{}}},
	}
	check := func(what string, orig, cp dns.RR) {
		st["empty_content_copies_checked"]++
		var ma, mb []span
		memory(reflect.ValueOf(orig), "", &ma)
		memory(reflect.ValueOf(cp), "", &mb)
		if w, ok := overlaps(ma, mb); ok {
			Viol("C16/copy-shares-memory/empty-content/"+KindOf(orig), what+" of a record whose options / parameters / private RDATA are empty shares memory with it: "+w, map[string]string{"rr": Protect(func() string { return orig.String() })})
		}
	}
	for _, v := range vals {
		check("Copy", v, dns.Copy(v))
		m := new(dns.Msg)
		m.SetQuestion("e.example.", dns.TypeA)
		m.Answer, m.Ns, m.Extra = []dns.RR{v}, []dns.RR{v}, []dns.RR{v}
		mc := m.Copy()
		check("Msg.Copy (answer)", v, mc.Answer[0])
		check("Msg.Copy (authority)", v, mc.Ns[0])
		check("Msg.Copy (additional)", v, mc.Extra[0])
		var m2 dns.Msg
		m.CopyTo(&m2)
		check("Msg.CopyTo", v, m2.Extra[0])
		// the template pattern for private RDATA: fill in one side afterwards
		if p, ok := v.(*dns.PrivateRR); ok {
			cp := dns.Copy(v).(*dns.PrivateRR)
			before := p.String()
			cp.Data.(*c16Priv).B = append(cp.Data.(*c16Priv).B, 0xEE, 0xEE)
			if p.String() != before {
				Viol("C16/copy-write-visible/PrivateRR", "RDATA filled in on the copy of a private record shows in the original", map[string]string{"before": before, "after": p.String()})
			}
		}
	}
}

func deepClone(v reflect.Value) reflect.Value {
	switch v.Kind() {
	case reflect.Ptr:
		if v.IsNil() {
			return reflect.Zero(v.Type())
		}
		n := reflect.New(v.Type().Elem())
		n.Elem().Set(deepClone(v.Elem()))
		return n
	case reflect.Interface:
		if v.IsNil() {
			return reflect.Zero(v.Type())
		}
		n := reflect.New(v.Type()).Elem()
		n.Set(deepClone(v.Elem()))
		return n
	case reflect.Slice:
		if v.IsNil() {
			return reflect.Zero(v.Type())
		}
		n := reflect.MakeSlice(v.Type(), v.Len(), v.Len())
		for i := 0; i < v.Len(); i++ {
			n.Index(i).Set(deepClone(v.Index(i)))
		}
		return n
	case reflect.Struct:
		n := reflect.New(v.Type()).Elem()
		for i := 0; i < v.NumField(); i++ {
			if n.Field(i).CanSet() {
				n.Field(i).Set(deepClone(v.Field(i)))
			}
		}
		return n
	}
	return v
}

// readonlyNonCanonical: Len, String, PackRR, Copy and IsDuplicate must leave their arguments exactly
// as they were, also when the values are not in the form the packer emits: addresses with bits
// beyond the prefix, parameters and prefixes out of order, slices with spare capacity.
func readonlyNonCanonical(r *Rng) {
	ones := func(n int) net.IP {
		b := make(net.IP, n)
		for i := range b {
			b[i] = 0xff
		}
		return b
	}
	var recs []dns.RR
	hdr := func(t uint16) dns.RR_Header { return dns.RR_Header{Name: "x.example.", Rrtype: t, Class: 1, Ttl: 5} }
	for fam, bits := range map[uint16]int{1: 32, 2: 128} {
		for m := 0; m <= bits; m++ {
			addr := ones(bits / 8)
			if r.Bool() {
				addr = net.IP(r.Bytes(bits / 8))
			}
			o := &dns.OPT{Hdr: dns.RR_Header{Name: ".", Rrtype: dns.TypeOPT, Class: 1232}}
			o.Option = []dns.EDNS0{&dns.EDNS0_SUBNET{Code: dns.EDNS0SUBNET, Family: fam, SourceNetmask: uint8(m), SourceScope: uint8(r.Intn(m + 1)), Address: addr}}
			recs = append(recs, o)
		}
	}
	// option values written the way a program may write them (no trailing dot, upper-case hex, ...)
	for _, opts := range [][]dns.EDNS0{
		{&dns.EDNS0_REPORTING{Code: dns.EDNS0REPORTING, AgentDomain: "agent.example.org"}},
		{&dns.EDNS0_REPORTING{Code: dns.EDNS0REPORTING, AgentDomain: "Agent.Example.ORG."}},
		{&dns.EDNS0_NSID{Code: dns.EDNS0NSID, Nsid: "BEEF"}, &dns.EDNS0_COOKIE{Code: dns.EDNS0COOKIE, Cookie: "AABBCCDDEEFF0011"}},
		{&dns.EDNS0_ESU{Code: dns.EDNS0ESU, Uri: "SIP:+1@Example.com"}, &dns.EDNS0_EDE{InfoCode: 1, ExtraText: "Mixed Case"}},
		{&dns.EDNS0_ZONEVERSION{Code: dns.EDNS0ZONEVERSION, LabelCount: 1, Type: 0, Version: "AABBCCDD"}},
		{&dns.EDNS0_PADDING{Padding: append(make([]byte, 0, 16), 1, 2, 3)}, &dns.EDNS0_LOCAL{Code: 65001, Data: append(make([]byte, 0, 16), 9)}},
		{&dns.EDNS0_DAU{Code: dns.EDNS0DAU, AlgCode: append(make([]uint8, 0, 8), 15, 8, 13)}, &dns.EDNS0_N3U{Code: dns.EDNS0N3U, AlgCode: []uint8{1}}},
	} {
		recs = append(recs, &dns.OPT{Hdr: dns.RR_Header{Name: ".", Rrtype: dns.TypeOPT, Class: 1232}, Option: opts})
	}
	// every option and parameter type with EVERY field set to something other than its zero value (also fields
	// that never reach the wire, deprecated ones included): a read-only operation has no business writing any
	{
		var fill func(v reflect.Value)
		fill = func(v reflect.Value) {
			switch v.Kind() {
			case reflect.Ptr:
				if !v.IsNil() {
					fill(v.Elem())
				}
			case reflect.Struct:
				for i := 0; i < v.NumField(); i++ {
					if v.Field(i).CanSet() {
						fill(v.Field(i))
					}
				}
			case reflect.Bool:
				v.SetBool(true)
			case reflect.Uint8, reflect.Uint16, reflect.Uint32, reflect.Uint64, reflect.Uint:
				v.SetUint(2)
			case reflect.Int, reflect.Int32, reflect.Int64:
				v.SetInt(2)
			case reflect.String:
				v.SetString("abcd")
			case reflect.Slice:
				n := reflect.MakeSlice(v.Type(), 2, 4)
				for i := 0; i < 2; i++ {
					e := n.Index(i)
					if e.Kind() == reflect.Slice && e.Type().Elem().Kind() == reflect.Uint8 {
						e.Set(reflect.ValueOf([]byte{192, 0, 2, byte(i + 1)}).Convert(e.Type()))
					} else {
						fill(e)
					}
				}
				v.Set(n)
			}
		}
		optTypes := []dns.EDNS0{&dns.EDNS0_TCP_KEEPALIVE{}, &dns.EDNS0_LLQ{}, &dns.EDNS0_UL{}, &dns.EDNS0_EXPIRE{}, &dns.EDNS0_SUBNET{}, &dns.EDNS0_COOKIE{},
			&dns.EDNS0_NSID{}, &dns.EDNS0_DAU{}, &dns.EDNS0_DHU{}, &dns.EDNS0_N3U{}, &dns.EDNS0_LOCAL{}, &dns.EDNS0_PADDING{}, &dns.EDNS0_EDE{},
			&dns.EDNS0_ESU{}, &dns.EDNS0_REPORTING{}, &dns.EDNS0_ZONEVERSION{}}
		for _, o := range optTypes {
			fill(reflect.ValueOf(o))
			recs = append(recs, &dns.OPT{Hdr: dns.RR_Header{Name: ".", Rrtype: dns.TypeOPT, Class: 1232, Rdlength: 7}, Option: []dns.EDNS0{o}}) // (the extended-RCODE octet of the TTL is bookkeeping Pack may rewrite)
		}
		kvTypes := []dns.SVCBKeyValue{&dns.SVCBMandatory{}, &dns.SVCBAlpn{}, &dns.SVCBNoDefaultAlpn{}, &dns.SVCBPort{}, &dns.SVCBIPv4Hint{}, &dns.SVCBECHConfig{},
			&dns.SVCBIPv6Hint{}, &dns.SVCBDoHPath{}, &dns.SVCBOhttp{}, &dns.SVCBLocal{}}
		for _, kv := range kvTypes {
			fill(reflect.ValueOf(kv))
			recs = append(recs, &dns.SVCB{Hdr: hdr(dns.TypeSVCB), Priority: 1, Target: "svc.example.", Value: []dns.SVCBKeyValue{kv}})
		}
		st["all_fields_nonzero_values"] = len(optTypes) + len(kvTypes)
	}
	mkParams := func() []dns.SVCBKeyValue {
		return []dns.SVCBKeyValue{
			&dns.SVCBPort{Port: 8443}, &dns.SVCBAlpn{Alpn: append(make([]string, 0, 4), "h2", "h3")},
			&dns.SVCBIPv6Hint{Hint: []net.IP{net.ParseIP("2001:db8::1")}}, &dns.SVCBIPv4Hint{Hint: []net.IP{{192, 0, 2, 1}, {192, 0, 2, 2}}},
			&dns.SVCBMandatory{Code: []dns.SVCBKey{dns.SVCB_PORT, dns.SVCB_ALPN}}, &dns.SVCBLocal{KeyCode: 65400, Data: append(make([]byte, 0, 8), 1, 2)},
			&dns.SVCBDoHPath{Template: "/q{?dns}"}, &dns.SVCBECHConfig{ECH: []byte{1, 2, 3}},
		}
	}
	for k := 0; k < 12; k++ {
		ps := mkParams()
		for i := len(ps) - 1; i > 0; i-- {
			j := r.Intn(i + 1)
			ps[i], ps[j] = ps[j], ps[i]
		}
		ps = ps[:2+r.Intn(len(ps)-1)]
		recs = append(recs, &dns.SVCB{Hdr: hdr(dns.TypeSVCB), Priority: 1, Target: "svc.example.", Value: ps})
		recs = append(recs, &dns.HTTPS{SVCB: dns.SVCB{Hdr: hdr(dns.TypeHTTPS), Priority: 1, Target: ".", Value: append([]dns.SVCBKeyValue{}, ps...)}})
	}
	for k := 0; k < 8; k++ {
		a := &dns.APL{Hdr: hdr(dns.TypeAPL)}
		for j := 0; j < 1+r.Intn(3); j++ {
			if r.Bool() {
				a.Prefixes = append(a.Prefixes, dns.APLPrefix{Negation: r.Bool(), Network: net.IPNet{IP: net.IP(r.Bytes(4)), Mask: net.CIDRMask(r.Intn(33), 32)}})
			} else {
				a.Prefixes = append(a.Prefixes, dns.APLPrefix{Negation: r.Bool(), Network: net.IPNet{IP: net.IP(r.Bytes(16)), Mask: net.CIDRMask(r.Intn(129), 128)}})
			}
		}
		recs = append(recs, a)
	}
	recs = append(recs,
		&dns.TXT{Hdr: hdr(dns.TypeTXT), Txt: append(make([]string, 0, 4), "a")},
		&dns.NSEC{Hdr: hdr(dns.TypeNSEC), NextDomain: "Y.example.", TypeBitMap: append(make([]uint16, 0, 8), 1, 2, 46, 47)},
		&dns.HIP{Hdr: hdr(dns.TypeHIP), PublicKeyAlgorithm: 2, Hit: "AABB", HitLength: 2, PublicKey: "AQID", PublicKeyLength: 3, RendezvousServers: append(make([]string, 0, 3), "B.example.", "a.example.")},
		&dns.A{Hdr: hdr(dns.TypeA), A: net.ParseIP("192.0.2.1")}, // 16-octet form
		&dns.IPSECKEY{Hdr: hdr(dns.TypeIPSECKEY), GatewayType: 1, GatewayAddr: net.ParseIP("192.0.2.1"), PublicKey: "AQID"},
	)
	same := func(a, b dns.RR) bool {
		ra, rb := a.Header().Rdlength, b.Header().Rdlength
		a.Header().Rdlength, b.Header().Rdlength = 0, 0
		eq := reflect.DeepEqual(a, b)
		a.Header().Rdlength, b.Header().Rdlength = ra, rb
		return eq
	}
	for i, rr := range recs {
		other := recs[(i+1)%len(recs)]
		twin := deepClone(reflect.ValueOf(rr)).Interface().(dns.RR) // same data in independent memory
		ops := []struct {
			name string
			f    func()
		}{
			{"Len", func() { _ = dns.Len(rr) }},
			{"String", func() { _ = rr.String() }},
			{"PackRR", func() { _, _ = dns.PackRR(rr, make([]byte, 4096), 0, nil, false) }},
			{"PackRR-compress", func() { _, _ = dns.PackRR(rr, make([]byte, 4096), 0, map[string]int{}, true) }},
			{"Copy", func() { _ = dns.Copy(rr) }},
			{"IsDuplicate-1st", func() { dns.IsDuplicate(rr, twin); dns.IsDuplicate(rr, other) }},
			{"IsDuplicate-2nd", func() { dns.IsDuplicate(twin, rr); dns.IsDuplicate(other, rr) }},
			{"MsgPackLen", func() {
				m := new(dns.Msg)
				m.SetQuestion("x.example.", dns.TypeA)
				if rr.Header().Rrtype == dns.TypeOPT {
					m.Extra = []dns.RR{rr}
				} else {
					m.Answer = []dns.RR{rr}
				}
				_ = m.Len()
				_, _ = m.Pack()
				_ = m.String()
			}},
		}
		for _, op := range ops {
			before := deepClone(reflect.ValueOf(rr)).Interface().(dns.RR)
			twinBefore := deepClone(reflect.ValueOf(twin)).Interface().(dns.RR)
			if Protect(func() string { op.f(); return "ok" }) == "panic" {
				continue
			}
			st["readonly_noncanonical_checked"]++
			if !same(rr, before) || !same(twin, twinBefore) {
				Viol("C16/readonly-mutates/"+op.name, op.name+" changed its argument ("+dns.TypeToString[rr.Header().Rrtype]+")",
					map[string]string{"before": fmt.Sprintf("%v", before), "after": fmt.Sprintf("%v", rr)})
				break
			}
		}
	}
}

// unpackAliasingSweep: a decoded message shares no memory with the input buffer, for every EDNS0 option
// code and SVCB key with every value length 0..24 (so also the lengths at which a decoder could hand out
// a window of the buffer instead of a copy, e.g. a client-subnet option carrying all 16 address octets)
func unpackAliasingSweep(r *Rng) {
	check := func(w []byte, what string) {
		buf := append(make([]byte, 0, len(w)+64), w...) // spare capacity, like a pooled receive buffer
		var u dns.Msg
		if u.Unpack(buf) != nil {
			return
		}
		st["unpack_alias_sweep_checked"]++
		var mu []span
		memory(reflect.ValueOf(&u), "Msg", &mu)
		base := uintptr(unsafe.Pointer(unsafe.SliceData(buf)))
		if wv, ok := overlaps(mu, []span{{base, base + uintptr(cap(buf)), "buf"}}); ok {
			Viol("C16/unpack-aliases-buffer", "an unpacked message shares memory with the input buffer ("+what+"): "+wv, map[string]string{"wire": Hx(w)})
			return
		}
		s1 := msgSnap(&u)
		full := buf[:cap(buf)]
		for i := range full {
			full[i] ^= 0xff
		}
		if msgSnap(&u) != s1 {
			Viol("C16/unpack-aliases-buffer", "overwriting the input buffer changed the unpacked message ("+what+")", map[string]string{"wire": Hx(w)})
		}
	}
	hdr := func(an, ar int) []byte { return []byte{0, 1, 0x80, 0, 0, 0, 0, byte(an), 0, 0, 0, byte(ar)} }
	for code := 0; code <= 20; code++ {
		for l := 0; l <= 24; l++ {
			data := r.Bytes(l)
			if code == 8 && l >= 4 { // client subnet: a valid family / prefix for the address length present
				fam, bits := byte(1), 32
				if l-4 > 4 {
					fam, bits = 2, 128
				}
				plen := (l - 4) * 8
				if plen > bits {
					plen = bits
				}
				data[0], data[1], data[2], data[3] = 0, fam, byte(plen), 0
			}
			rd := append([]byte{byte(code >> 8), byte(code), 0, byte(l)}, data...)
			w := hdr(0, 1)
			w = append(w, 0, 0, 41, 0x10, 0, 0, 0, 0, 0, byte(len(rd)>>8), byte(len(rd)))
			w = append(w, rd...)
			check(w, "EDNS0 option "+Itoa(code)+" length "+Itoa(l))
		}
	}
	for _, key := range []int{0, 1, 2, 3, 4, 5, 6, 7, 8, 65400} {
		for l := 0; l <= 34; l++ {
			data := r.Bytes(l)
			if key == 1 && l > 0 { // alpn: one id filling the value
				data[0] = byte(l - 1)
			}
			if key == 0 { // mandatory: ascending keys
				for i := 0; i+1 < l; i += 2 {
					data[i], data[i+1] = 0, byte(1+i/2)
				}
			}
			rd := append([]byte{0, 1, 0, byte(key >> 8), byte(key), 0, byte(l)}, data...)
			w := hdr(1, 0)
			w = append(w, 1, 's', 0, 0, 64, 0, 1, 0, 0, 0, 0, byte(len(rd)>>8), byte(len(rd)))
			w = append(w, rd...)
			check(w, "SVCB key "+Itoa(key)+" length "+Itoa(l))
		}
	}
}

// fingerprint: an independent deep rendering of a value and everything it points to (reflection only: no
// method of the library is called, so it can be taken from INSIDE an operation). Left out, by the property
// text: RR_Header.Rdlength and the extended-RCODE octet of an OPT header's TTL (documented bookkeeping);
// func values (the generator of a private-use record) have no content.
func fingerprint(vs ...any) string {
	var sb strings.Builder
	for _, x := range vs {
		fpWalk(reflect.ValueOf(x), &sb)
		sb.WriteByte('\n')
	}
	return sb.String()
}

var hdrType = reflect.TypeOf(dns.RR_Header{})

func fpWalk(v reflect.Value, sb *strings.Builder) {
	switch v.Kind() {
	case reflect.Invalid:
		sb.WriteString("<invalid>")
	case reflect.Ptr:
		if v.IsNil() {
			sb.WriteString("nil")
			return
		}
		sb.WriteByte('&')
		fpWalk(v.Elem(), sb)
	case reflect.Interface:
		if v.IsNil() {
			sb.WriteString("nil")
			return
		}
		sb.WriteString(v.Elem().Type().String())
		fpWalk(v.Elem(), sb)
	case reflect.Struct:
		sb.WriteByte('{')
		for i := 0; i < v.NumField(); i++ {
			name := v.Type().Field(i).Name
			if v.Type() == hdrType && name == "Rdlength" {
				continue
			}
			sb.WriteString(name)
			sb.WriteByte(':')
			if v.Type() == hdrType && name == "Ttl" && v.FieldByName("Rrtype").Uint() == uint64(dns.TypeOPT) {
				sb.WriteString(strconv.FormatUint(v.Field(i).Uint()&0x00FFFFFF, 10))
			} else {
				fpWalk(v.Field(i), sb)
			}
			sb.WriteByte(' ')
		}
		sb.WriteByte('}')
	case reflect.Slice:
		if v.IsNil() {
			sb.WriteString("nil[]")
			return
		}
		fallthrough
	case reflect.Array:
		sb.WriteByte('[')
		for i := 0; i < v.Len(); i++ {
			fpWalk(v.Index(i), sb)
			sb.WriteByte(',')
		}
		sb.WriteByte(']')
	case reflect.String:
		sb.WriteString(strconv.Quote(v.String()))
	case reflect.Bool:
		sb.WriteString(strconv.FormatBool(v.Bool()))
	case reflect.Int, reflect.Int8, reflect.Int16, reflect.Int32, reflect.Int64:
		sb.WriteString(strconv.FormatInt(v.Int(), 10))
	case reflect.Uint, reflect.Uint8, reflect.Uint16, reflect.Uint32, reflect.Uint64, reflect.Uintptr:
		sb.WriteString(strconv.FormatUint(v.Uint(), 10))
	case reflect.Func:
		sb.WriteString("func")
	default:
		sb.WriteString("?" + v.Kind().String())
	}
}

// breakRR makes rr impossible to pack in one way chosen by k among the ways its fields offer (an address
// of 5 octets, a character-string above 255 octets, odd / non-hex digits, bad base64 / base32, a label above
// 63 octets or a name above 255 octets in the RDATA), or - for every type - through its owner name. The
// result is used only when PackRR really refuses it.
func breakRR(rr dns.RR, k int) (how string) {
	longLabel := strings.Repeat("L", 64) + ".Example.ORG."
	longName := strings.Repeat(strings.Repeat("n", 60)+".", 5) + "Example.ORG."
	v := Flatten(reflect.ValueOf(rr).Elem())
	t := v.Type()
	type way struct {
		how string
		f   func()
	}
	var ways []way
	for i := 0; i < t.NumField(); i++ {
		f, name, tag := v.Field(i), t.Field(i).Name, t.Field(i).Tag.Get("dns")
		if name == "Hdr" || !f.CanSet() {
			continue
		}
		add := func(how string, g func()) { ways = append(ways, way{name + ": " + how, g}) }
		switch {
		case f.Kind() == reflect.Slice && f.Type().Elem().Kind() == reflect.Uint8 && (tag == "a" || tag == "aaaa"):
			add("address of 5 octets", func() { f.SetBytes([]byte{1, 2, 3, 4, 5}) })
		case f.Kind() == reflect.Slice && f.Type().Elem().Kind() == reflect.String && strings.Contains(tag, "domain-name"):
			add("over-long label in a name list", func() { f.Set(reflect.Append(f, reflect.ValueOf(longLabel))) })
		case f.Kind() == reflect.Slice && f.Type().Elem().Kind() == reflect.String:
			add("character-string of 300 octets", func() { f.Set(reflect.Append(f, reflect.ValueOf(strings.Repeat("t", 300)))) })
		case f.Kind() != reflect.String:
		case strings.Contains(tag, "hex"):
			add("odd number of hex digits", func() { f.SetString(f.String() + "a") })
			add("non-hex digits", func() { f.SetString(f.String() + "zz") })
		case strings.Contains(tag, "base64"):
			add("bad base64", func() { f.SetString("!!!!") })
		case strings.Contains(tag, "base32"):
			add("bad base32", func() { f.SetString("!!!!!!!!") })
		case strings.Contains(tag, "domain-name"):
			add("label above 63 octets", func() { f.SetString(longLabel) })
			add("name above 255 octets", func() { f.SetString(longName) })
		default:
			add("character-string of 300 octets", func() { f.SetString(strings.Repeat("s", 300)) })
		}
	}
	if k < len(ways) {
		ways[k].f()
		return ways[k].how
	}
	switch k - len(ways) {
	case 0:
		rr.Header().Name = strings.Repeat("O", 64) + "." + rr.Header().Name
		return "owner: label above 63 octets"
	case 1:
		rr.Header().Name = strings.Repeat(strings.Repeat("o", 60)+".", 5) + rr.Header().Name
		return "owner: name above 255 octets"
	}
	return ""
}

func packFails(rr dns.RR) bool {
	c := deepClone(reflect.ValueOf(rr)).Interface().(dns.RR)
	return Protect(func() string {
		if _, err := dns.PackRR(c, make([]byte, 8192), 0, nil, false); err != nil {
			return "err"
		}
		return "ok"
	}) == "err"
}

// readonlyFailing: the read-only operations leave their arguments as they were ALSO when they fail, or fail
// part-way: a record that cannot be packed, on its own, inside a message (any section, any position) and
// inside an RRset that is signed / verified (first, middle, last), with headers that are not in canonical
// form (TTL other than the original TTL, upper case in the owner, an owner expanded from a wildcard), for
// every registered type and every way of breaking it that its fields offer.
func readonlyFailing(r *Rng, pool *NamePool, types []uint16) {
	_, priv, _ := ed25519.GenerateKey(nil)
	key := &dns.DNSKEY{Hdr: dns.RR_Header{Name: "example.org.", Rrtype: dns.TypeDNSKEY, Class: 1, Ttl: 3600}, Flags: 257, Protocol: 3, Algorithm: dns.ED25519}
	key.PublicKey = toB64(priv.Public().(ed25519.PublicKey))
	reported := map[string]bool{}
	viol := func(key, what string, in map[string]string) {
		if !reported[key] {
			reported[key] = true
			Viol(key, what, in)
		}
	}
	gen := func(t uint16, owner string, ttl uint32) dns.RR {
		rr, _ := GenRR(r, pool, t, false)
		h := rr.Header()
		h.Name, h.Class, h.Ttl = owner, dns.ClassINET, ttl
		return rr
	}
	// (owner as held by the caller, Labels of the signature, TTLs of the records, original TTL)
	forms := []struct {
		owner   string
		labels  uint8
		ttl     [3]uint32
		origTtl uint32
	}{
		{"Www.Example.ORG.", 3, [3]uint32{300, 300, 300}, 3600},       // upper case, a cached (decremented) TTL
		{"host.a.example.org.", 2, [3]uint32{3600, 3600, 3600}, 3600}, // expanded from *.example.org.
		{"Host.A.Example.org.", 2, [3]uint32{120, 60, 30}, 86400},
		{"*.Example.org.", 2, [3]uint32{300, 200, 100}, 300},
		{"www.example.org.", 3, [3]uint32{300, 300, 300}, 300}, // canonical already
	}
	for _, t := range types {
		if t == dns.TypeOPT {
			continue // not part of any RRset; as a message member it is covered below through GenMsg-like messages
		}
		tname := dns.TypeToString[t]
		for k := 0; ; k++ {
			probe := gen(t, "www.example.org.", 300)
			how := breakRR(probe, k)
			if how == "" {
				break
			}
			if !packFails(probe) {
				continue
			}
			st["failing_ways"]++
			form := forms[(k+int(t))%len(forms)]
			mkBad := func(i int) dns.RR {
				for tries := 0; tries < 8; tries++ {
					rr := gen(t, form.owner, form.ttl[i%3])
					breakRR(rr, k)
					rr.Header().Class, rr.Header().Ttl = dns.ClassINET, form.ttl[i%3]
					if packFails(rr) {
						return rr
					}
				}
				return nil
			}
			// 1. the record on its own
			if bad := mkBad(0); bad != nil {
				twin := deepClone(reflect.ValueOf(bad)).Interface().(dns.RR)
				good := gen(t, form.owner, 300)
				for _, op := range []struct {
					name string
					f    func()
				}{
					{"Len", func() { _ = dns.Len(bad) }},
					{"String", func() { _ = bad.String() }},
					{"PackRR", func() { _, _ = dns.PackRR(bad, make([]byte, 8192), 0, nil, false) }},
					{"PackRR-compress", func() { _, _ = dns.PackRR(bad, make([]byte, 8192), 0, map[string]int{}, true) }},
					{"PackRR-short-buffer", func() { _, _ = dns.PackRR(bad, make([]byte, 14), 0, nil, false) }},
					{"Copy", func() { _ = dns.Copy(bad) }},
					{"IsDuplicate", func() {
						dns.IsDuplicate(bad, twin)
						dns.IsDuplicate(twin, bad)
						dns.IsDuplicate(bad, good)
						dns.IsDuplicate(good, bad)
					}},
				} {
					before := fingerprint(bad, twin, good)
					if Protect(func() string { op.f(); return "ok" }) == "panic" {
						continue
					}
					st["failing_record_ops_checked"]++
					if after := fingerprint(bad, twin, good); after != before {
						viol("C16/readonly-mutates/failing/"+op.name, op.name+" changed a record it cannot pack ("+tname+", "+how+")", map[string]string{"before": before, "after": after})
					}
				}
			}
			// 2. inside a message: every section, first / middle / last
			for _, place := range []string{"an0", "an1", "an2", "ns0", "ns1", "ex0", "ex1"} {
				bad := mkBad(1)
				if bad == nil {
					break
				}
				if k > 1 && place != "an1" && place != "ex1" && r.Intn(3) != 0 {
					continue
				}
				m := new(dns.Msg)
				m.SetQuestion("Www.Example.ORG.", t)
				m.Response, m.Compress = true, r.Bool()
				m.Answer = []dns.RR{gen(t, form.owner, 30), gen(t, form.owner, 20), gen(t, form.owner, 10)}
				m.Ns = []dns.RR{gen(dns.TypeNS, "Example.ORG.", 60), gen(dns.TypeNS, "Example.ORG.", 60)}
				m.Extra = []dns.RR{gen(dns.TypeA, "NS1.Example.ORG.", 60), gen(dns.TypeAAAA, "NS1.Example.ORG.", 60)}
				if r.Bool() {
					m.Extra = append(m.Extra, &dns.OPT{Hdr: dns.RR_Header{Name: ".", Rrtype: dns.TypeOPT, Class: 1232}})
					m.Rcode = dns.RcodeBadVers
				}
				sec := map[byte]*[]dns.RR{'a': &m.Answer, 'n': &m.Ns, 'e': &m.Extra}[place[0]]
				(*sec)[int(place[2]-'0')] = bad
				for _, op := range []struct {
					name string
					f    func()
				}{
					{"Len", func() { _ = m.Len() }},
					{"Pack", func() { _, _ = m.Pack() }},
					{"PackBuffer", func() { _, _ = m.PackBuffer(make([]byte, 70000)) }},
					{"PackBuffer-short", func() { _, _ = m.PackBuffer(make([]byte, 40)) }},
					{"String", func() { _ = m.String() }},
					{"Copy", func() { _ = m.Copy() }},
					{"IsEdns0", func() { _ = m.IsEdns0() }},
					{"IsDuplicate", func() {
						all := append(append(append([]dns.RR{}, m.Answer...), m.Ns...), m.Extra...)
						for i := range all {
							dns.IsDuplicate(all[i], bad)
							dns.IsDuplicate(bad, all[i])
						}
					}},
				} {
					before := fingerprint(m)
					if Protect(func() string { op.f(); return "ok" }) == "panic" {
						continue
					}
					st["failing_message_ops_checked"]++
					if after := fingerprint(m); after != before {
						viol("C16/readonly-mutates/failing-message/"+op.name, op.name+" changed a message holding a record it cannot pack ("+tname+" at "+place+", "+how+")", map[string]string{"before": before, "after": after})
					}
				}
			}
			// 3. inside an RRset that is signed / verified: the failing record first, in the middle, last, alone
			for _, shape := range []string{"bgg", "gbg", "ggb", "b", "gb", "bb"} {
				if k > 1 && shape != "gbg" && r.Intn(3) != 0 {
					continue
				}
				var rrset []dns.RR
				for i, c := range shape {
					if c == 'b' {
						bad := mkBad(i)
						if bad == nil {
							break
						}
						rrset = append(rrset, bad)
					} else {
						rrset = append(rrset, gen(t, form.owner, form.ttl[i%3]))
					}
				}
				if len(rrset) != len(shape) {
					continue
				}
				owner := rrset[0].Header().Name // (the owner itself may be what is broken)
				for _, rr := range rrset {
					rr.Header().Name = owner
				}
				in := map[string]string{"type": tname, "how": how, "shape": shape, "owner": owner}
				// Sign, with the original TTL preset (a signer that publishes with a lower TTL) and not
				for _, preset := range []uint32{form.origTtl, 0} {
					sig := &dns.RRSIG{KeyTag: key.KeyTag(), SignerName: "Example.ORG.", Algorithm: dns.ED25519, Inception: 1700000000, Expiration: 1800000000, OrigTtl: preset}
					before := fingerprint(rrset, key)
					var err error
					if Protect(func() string { err = sig.Sign(priv, rrset); return "ok" }) == "panic" {
						continue
					}
					if err == nil {
						st["failing_sign_succeeded"]++ // (the signer may not look at what is broken)
					} else {
						st["failing_sign_checked"]++
					}
					if after := fingerprint(rrset, key); after != before {
						in["before"], in["after"] = before, after
						viol("C16/readonly-mutates/failing/Sign", "RRSIG.Sign, failing on a record it cannot pack, changed the RRset or the key", in)
					}
				}
				// Verify: a signature record as received (its RDATA need not be a valid signature: the call fails before)
				sig := &dns.RRSIG{Hdr: dns.RR_Header{Name: owner, Rrtype: dns.TypeRRSIG, Class: dns.ClassINET, Ttl: form.ttl[0]}, TypeCovered: t, Algorithm: dns.ED25519,
					Labels: form.labels, OrigTtl: form.origTtl, Inception: 1700000000, Expiration: 1800000000, KeyTag: key.KeyTag(), SignerName: "Example.ORG.", Signature: toB64(make([]byte, 64))}
				if strings.HasPrefix(how, "owner") {
					sig.Labels = uint8(dns.CountLabel(owner)) - 1
				}
				before := fingerprint(rrset, key, sig)
				var err error
				if Protect(func() string { err = sig.Verify(key, rrset); return "ok" }) == "panic" {
					continue
				}
				if err == dns.ErrRRset || err == dns.ErrKey {
					st["failing_verify_rejected_early"]++
				} else {
					st["failing_verify_checked"]++
				}
				if after := fingerprint(rrset, key, sig); after != before {
					in["before"], in["after"] = before, after
					viol("C16/readonly-mutates/failing/Verify", "RRSIG.Verify, failing on a record it cannot pack, changed the RRset, the key or the signature record", in)
				}
			}
		}
	}
}

// observedDuringSignVerify: what the caller's RRset, key and signature record look like WHILE Sign / Verify
// run - the view of any concurrent reader of a shared (cached) RRset - taken deterministically: the records
// are of a private-use type whose RDATA is called back from inside the operation (Len / Pack of the record
// itself or of the private copy the operation made) and fingerprints the caller's values. Putting a field
// back afterwards does not help a reader that looks in between.
func observedDuringSignVerify() {
	const code = 65318
	dns.PrivateHandle("VSPYSIG", code, func() dns.PrivateRdata { return new(c16Spy) })
	defer dns.PrivateHandleRemove(code)
	_, priv, _ := ed25519.GenerateKey(nil)
	key := &dns.DNSKEY{Hdr: dns.RR_Header{Name: "example.org.", Rrtype: dns.TypeDNSKEY, Class: 1, Ttl: 3600}, Flags: 257, Protocol: 3, Algorithm: dns.ED25519}
	key.PublicKey = toB64(priv.Public().(ed25519.PublicKey))
	for _, c := range []struct {
		owner, verifyOwner string
		ttl                uint32
		origTtl            uint32
	}{
		{"Www.Example.ORG.", "WWW.example.org.", 300, 3600},
		{"*.Example.org.", "Host.A.example.org.", 3600, 3600},
		{"www.example.org.", "www.example.org.", 60, 0},
		{"www.example.org.", "www.example.org.", 300, 300},
	} {
		for _, nrec := range []int{1, 3} {
			var rrset []dns.RR
			var spies []*c16Spy
			for i := 0; i < nrec; i++ {
				rr := dns.TypeToRR[code]().(*dns.PrivateRR)
				rr.Hdr = dns.RR_Header{Name: c.owner, Rrtype: code, Class: 1, Ttl: c.ttl}
				rr.Data.(*c16Spy).B = []byte{byte(3 - i), 2, 3}
				rrset = append(rrset, rr)
				spies = append(spies, rr.Data.(*c16Spy))
			}
			sig := &dns.RRSIG{KeyTag: key.KeyTag(), SignerName: "Example.ORG.", Algorithm: dns.ED25519, Inception: 1700000000, Expiration: 1800000000, OrigTtl: c.origTtl}
			var want, seen string
			looks := 0
			look := func() {
				looks++
				if got := fingerprint(rrset, key); got != want && seen == "" {
					seen = got
				}
			}
			arm := func(f func()) {
				for _, s := range spies {
					s.look = f
				}
			}
			want = fingerprint(rrset, key)
			arm(look)
			var err error
			Protect(func() string { err = sig.Sign(priv, rrset); return "ok" })
			arm(nil)
			st["observed_during_sign_callbacks"] += looks
			if seen != "" {
				Viol("C16/readonly-mutates/during/Sign", "RRSIG.Sign changes its RRset while it runs (seen from a callback inside it), even if it restores it afterwards", map[string]string{"before": want, "during": seen})
			} else if after := fingerprint(rrset, key); after != want {
				Viol("C16/readonly-mutates/Sign", "RRSIG.Sign changed the RRset or key (private-use type)", map[string]string{"before": want, "after": after})
			}
			if err != nil {
				continue
			}
			for _, rr := range rrset {
				rr.Header().Name = c.verifyOwner
				rr.Header().Ttl = c.ttl / 2 // as served from a cache
			}
			sig.Hdr.Name = c.verifyOwner
			sigWant := fingerprint(sig)
			want, seen, looks = fingerprint(rrset, key), "", 0
			sigSeen := ""
			arm(func() {
				look()
				if got := fingerprint(sig); got != sigWant && sigSeen == "" {
					sigSeen = got
				}
			})
			Protect(func() string { err = sig.Verify(key, rrset); return "ok" })
			arm(nil)
			st["observed_during_verify_callbacks"] += looks
			if err != nil {
				st["observed_during_verify_failed"]++
			}
			if seen != "" || sigSeen != "" {
				Viol("C16/readonly-mutates/during/Verify", "RRSIG.Verify changes its RRset or the signature record while it runs (seen from a callback inside it), even if it restores it afterwards", map[string]string{"before": want + sigWant, "during": seen + sigSeen})
			} else if after := fingerprint(rrset, key) + fingerprint(sig); after != want+sigWant {
				Viol("C16/readonly-mutates/Verify", "RRSIG.Verify changed the RRset, key or signature record (private-use type)", map[string]string{"before": want + sigWant, "after": after})
			}
		}
	}
}
