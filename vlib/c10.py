from .core import Check


class C10(Check):
    prop = "C10"
    props_rel = "Props/C10"
    corr_module = "Corr.C10"
    corr_rel = "Corr/C10"
    model_desc = ("Model/Dnssec.v: rawSignatureData (per-record canonical form: wildcard owner per Labels, owner and "
                  "RDATA-name lower-casing for the types of the code's switch, OrigTTL, uncompressed wire; sort by RDATA in "
                  "bytes.Compare order; adjacent duplicates dropped), packSigWire, the pre-checks of RRSIG.Verify in "
                  "order with their error classes, RRSIG.Sign field filling and signAsIs; records are owner labels, "
                  "type, class, TTL and RDATA as a list of name / opaque fields; Model/KeyEnc.v key decoders and key tag")
    rule = ("direct oracles: for every signable type of a 33-type table (all 20 types of the lower-casing switch, NXT, "
            "NSEC, TXT, DS, DNSKEY, SVCB ...) x RSASHA1/RSASHA1-NSEC3/RSASHA256/RSASHA512/ECDSA P-256/P-384/Ed25519 with "
            "fresh keys: Sign fills Labels/OrigTTL/owner/class/type per RFC 4034 3.1, the signature verifies with Go's "
            "crypto/* called directly on the RFC 4034 3.1.8.1/6.2/6.3 octets assembled by the harness from label lists, "
            "Verify accepts the Sign output and every re-ordering, repetition, TTL change, owner / signer / RDATA-name "
            "case change and wildcard expansion, and rejects every single-field alteration of RRset, RRSIG and DNSKEY "
            "(rdata bit, record added/removed, owner, type, class, signer, key tag, labels +-1, original TTL, "
            "expiration, inception, algorithm, signature bit/truncation, zone flag, protocol, flags, public key bit, "
            "key owner, mixed/empty RRset). Model cases: signed octets (model = hooked rawSignatureData + packSigWire "
            "= harness reference) on RRsets with arbitrary Labels, mixed spellings, names at the 63/255 limits; "
            "Verify error class given the verdict of Go's crypto on the reference octets; fields filled by Sign. "
            "Round 4: every name comparison of Verify (DNSKEY owner / signer, RRSIG owner / RRset owner, RRset members, "
            "signer / tail of the owner) on names that differ in exactly one octet, all 256 octets against their "
            "0x20 twin and all pairs around the letter ranges (accepted iff the same ASCII letter up to case); the same "
            "*RRSIG handed to several Sign calls (other owner, label count, type, class, TTL; untouched, OrigTtl cleared, "
            "re-read from text) compared with a fresh value and RFC 4034 3.1, Sign/Verify leave their arguments "
            "unchanged, model cases for both. "
            "Round 5: every other LENGTH of the Signature field for every algorithm (octets appended / prepended, cut at "
            "either end, halves, r and s of ECDSA padded or stripped separately and together) must be refused (RFC 8017 "
            "8.2.2, RFC 6605 4, RFC 8080 4: one length per key); sequences of Verify calls with several DNSKEYs of one "
            "owner, algorithm and key tag but different key material (a second real key whose flags make the Appendix B "
            "checksum collide, public keys with two words swapped or +1/-1 on two words), in every order of first use: "
            "success iff the key given made the signature; verify model cases for both. "
            "A case is non-trivial when the output is not an error; distinct by hash of (function, arguments, output).")
    partial = [
        "unforgeability / correctness of Go's crypto/* is an assumption: sign_verify is proved for every signature "
        "scheme with verify(pub, m, sign(priv, m)) = true, and 'any alteration fails' is proved as: two accepted "
        "(RRSIG, RRset) pairs with the same signature have the same signed octets, under the stated idealisation",
        "a change of the DNSKEY flags/protocol that keeps the key tag, and letter case of the signer name, are outside "
        "the signed octets; they are covered by the pre-check theorems (verify_sound) and the alteration oracles",
        "per-type RDATA layouts are not in the model (RDATA is a list of name/opaque fields); the harness builds the "
        "fields of each type itself and the correspondence compares the octets with the hooked rawSignatureData",
        "SignerName == \"\" (ErrKey in signAsIs) and a nil private key are not representable in the model",
    ]
    trusted = ["Go crypto/ed25519, crypto/ecdsa, crypto/rsa, crypto/sha* as independent verifier",
               "hook file /repo/verif_hooks_c10.go (add-only wrappers of rawSignatureData and packSigWire)"]
    shard_size = 200

    def nontrivial(self, c):
        return not c.get("out", "").startswith("err") and c.get("out") != "false"


CHECK = C10()
