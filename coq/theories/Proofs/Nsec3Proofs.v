(* Proofs/Nsec3Proofs.v — lemmas about Model/Nsec3.v *)
From Dns Require Import Base.ListX Model.Nsec3.
From Coq Require Import Lia ZifyN ZifyNat ZifyBool.
Open Scope N_scope.

(* ---------- Go string comparison is a strict total order on octet strings ---------- *)
Lemma lex_cmp_refl a : lex_cmp a a = Eq.
Proof. induction a as [|x a IH]; cbn; [reflexivity|]. now rewrite N.compare_refl. Qed.

Lemma lex_cmp_eq a b : lex_cmp a b = Eq <-> a = b.
Proof.
  split; [|intros ->; apply lex_cmp_refl].
  revert b; induction a as [|x a IH]; intros [|y b]; cbn; try discriminate; [reflexivity|].
  destruct (N.compare_spec x y) as [->| |]; try discriminate.
  intros Hc. now rewrite (IH b Hc).
Qed.

Lemma lex_cmp_antisym a b : lex_cmp b a = CompOpp (lex_cmp a b).
Proof.
  revert b; induction a as [|x a IH]; intros [|y b]; cbn; try reflexivity.
  rewrite (N.compare_antisym x y).
  destruct (x ?= y); cbn; [apply IH|reflexivity|reflexivity].
Qed.

Lemma lex_cmp_trans a b c : lex_cmp a b = Lt -> lex_cmp b c = Lt -> lex_cmp a c = Lt.
Proof.
  revert b c; induction a as [|x a IH]; intros [|y b] [|z c]; cbn; try discriminate; try reflexivity.
  destruct (N.compare_spec x y) as [->|Hxy|Hxy]; try discriminate.
  - destruct (N.compare_spec y z) as [->|Hyz|Hyz]; try discriminate; [apply IH|reflexivity].
  - intros _. destruct (N.compare_spec y z) as [->|Hyz|Hyz]; try discriminate.
    + intros _. destruct (N.compare_spec x z); try lia; reflexivity.
    + intros _. destruct (N.compare_spec x z); try lia; reflexivity.
Qed.

Lemma str_eq_iff a b : str_eq a b = true <-> a = b.
Proof.
  unfold str_eq. rewrite <- lex_cmp_eq. destruct (lex_cmp a b); split; congruence.
Qed.
Lemma str_lt_iff a b : str_lt a b = true <-> slt a b.
Proof. unfold str_lt, slt. destruct (lex_cmp a b); split; congruence. Qed.
Lemma str_gt_iff a b : str_gt a b = true <-> slt b a.
Proof.
  unfold str_gt, slt. rewrite (lex_cmp_antisym a b). destruct (lex_cmp a b); cbn; split; congruence.
Qed.

(* ---------- Cover ---------- *)
Ltac cmp_facts o n x :=
  pose proof (lex_cmp_antisym o n); pose proof (lex_cmp_antisym x o); pose proof (lex_cmp_antisym x n);
  pose proof (lex_cmp_eq o n); pose proof (lex_cmp_eq x o); pose proof (lex_cmp_eq x n);
  pose proof (lex_cmp_eq n o); pose proof (lex_cmp_eq o x); pose proof (lex_cmp_eq n x).

Lemma cover_chain_spec o n x :
  cover_chain o n x = true <-> strictly_between_circular o x n.
Proof.
  unfold cover_chain, strictly_between_circular, str_eq, str_gt, str_lt, slt.
  cmp_facts o n x.
  destruct (lex_cmp o n) eqn:Eon, (lex_cmp x o) eqn:Exo, (lex_cmp x n) eqn:Exn; cbn in *;
    intuition (try congruence; try discriminate);
    try (subst; rewrite ?lex_cmp_refl in *; congruence).
Qed.

(* ---------- RFC 5155 iterated hash = the loop of HashName ---------- *)
Section Hash.
  Variable H : bytes -> bytes.

  Lemma hash_loop_IH salt x j k :
    hash_loop H salt k (IH H salt x j) = IH H salt x (j + k).
  Proof.
    revert j; induction k as [|k IHk]; intros j; cbn.
    - now rewrite Nat.add_0_r.
    - change (H (IH H salt x j ++ salt)) with (IH H salt x (S j)).
      rewrite IHk. f_equal. lia.
  Qed.

  Lemma nsec3_hash_rfc salt iter name :
    nsec3_hash H salt iter name =
    IH H salt (wire_name (map lower_bytes name)) (N.to_nat iter).
  Proof.
    unfold nsec3_hash.
    change (H (wire_name (map lower_bytes name) ++ salt))
      with (IH H salt (wire_name (map lower_bytes name)) 0).
    now rewrite hash_loop_IH.
  Qed.

  (* ---------- case independence ---------- *)
  Lemma lower_lt256 b : (lower b <? 256) = (b <? 256).
  Proof. unfold lower. destruct ((65 <=? b) && (b <=? 90)) eqn:E; lia. Qed.

  Lemma wfbb_lower l : wfbb (lower_bytes l) = wfbb l.
  Proof.
    unfold wfbb, lower_bytes. induction l as [|b l IHl]; cbn; [reflexivity|].
    now rewrite lower_lt256, IHl.
  Qed.

  Lemma label_ok_lower l : label_ok (lower_bytes l) = label_ok l.
  Proof.
    unfold label_ok. rewrite wfbb_lower. unfold lenN, lower_bytes. now rewrite map_length.
  Qed.

  Lemma wire_labels_len_lower ls :
    length (wire_labels (map lower_bytes ls)) = length (wire_labels ls).
  Proof.
    unfold wire_labels. induction ls as [|l ls IHl]; cbn; [reflexivity|].
    rewrite !app_length, IHl. unfold lower_bytes. now rewrite map_length.
  Qed.

  Lemma valid_wire_lower ls : valid_wire (map lower_bytes ls) = valid_wire ls.
  Proof.
    unfold valid_wire, labels_ok, wire_len, wire_name, lenN.
    rewrite !app_length, wire_labels_len_lower. f_equal.
    induction ls as [|l ls IHl]; cbn; [reflexivity|]. now rewrite label_ok_lower, IHl.
  Qed.

  Lemma valid_wire_ci n1 n2 :
    map lower_bytes n1 = map lower_bytes n2 -> valid_wire n1 = valid_wire n2.
  Proof. intros E. now rewrite <- (valid_wire_lower n1), <- (valid_wire_lower n2), E. Qed.

  Lemma nsec3_hash_ci salt iter n1 n2 :
    map lower_bytes n1 = map lower_bytes n2 ->
    nsec3_hash H salt iter n1 = nsec3_hash H salt iter n2.
  Proof. unfold nsec3_hash. now intros ->. Qed.

  Lemma hash_name_ci n1 n2 ha iter salt :
    map lower_bytes n1 = map lower_bytes n2 ->
    hash_name H n1 ha iter salt = hash_name H n2 ha iter salt.
  Proof.
    intros E. unfold hash_name. rewrite (valid_wire_ci _ _ E).
    destruct (negb (ha =? 1)); [reflexivity|]. destruct salt as [s|]; [|reflexivity].
    now rewrite (nsec3_hash_ci s iter _ _ E).
  Qed.

  Lemma hash_name_value name iter s :
    valid_wire name = true ->
    hash_name H name 1 iter (Some s) =
    b32hex (IH H s (wire_name (map lower_bytes name)) (N.to_nat iter)).
  Proof. intros V. unfold hash_name. cbn. now rewrite V, nsec3_hash_rfc. Qed.

  (* ---------- in_zone ---------- *)
  Lemma bytes_eqb_eq a b : bytes_eqb a b = true <-> a = b.
  Proof.
    unfold bytes_eqb. revert b; induction a as [|x a IHa]; intros [|y b]; cbn; split; try congruence.
    - intros E. apply andb_prop in E as [E1 E2]. apply N.eqb_eq in E1. apply IHa in E2. congruence.
    - intros E. injection E as -> ->. rewrite N.eqb_refl. now apply IHa.
  Qed.

  Lemma list_eqb_ci a b :
    list_eqb label_eq_ci a b = true <-> map lower_bytes a = map lower_bytes b.
  Proof.
    revert b; induction a as [|x a IHa]; intros [|y b]; cbn; split; try congruence.
    - intros E. apply andb_prop in E as [E1 E2]. apply bytes_eqb_eq in E1. apply IHa in E2. congruence.
    - intros E. injection E as E1 E2. apply andb_true_intro. split.
      + now apply bytes_eqb_eq.
      + now apply IHa.
  Qed.

  Lemma in_zone_iff zone name :
    in_zone zone name = true <->
    exists pre suf, name = pre ++ suf /\ map lower_bytes suf = map lower_bytes zone.
  Proof.
    unfold in_zone. split.
    - intros E. apply andb_prop in E as [E1 E2]. apply list_eqb_ci in E2.
      exists (firstn (length name - length zone) name), (skipn (length name - length zone) name).
      split; [now rewrite firstn_skipn|now symmetry].
    - intros [pre [suf [-> E]]].
      assert (L : length suf = length zone).
      { transitivity (length (map lower_bytes suf)); [symmetry; apply map_length|rewrite E; apply map_length]. }
      rewrite app_length, L. apply andb_true_intro. split; [apply Nat.leb_le; lia|].
      replace (length pre + length zone - length zone)%nat with (length pre) by lia.
      rewrite skipn_app_exact. apply list_eqb_ci. now symmetry.
  Qed.

  (* ---------- Match ---------- *)
  Lemma match_iff r name oh z zs :
    n3_owner r = oh :: z :: zs ->
    in_zone (z :: zs) name = true ->
    (nsec3_match H r name = true <->
     hash_name H name (n3_alg r) (n3_iter r) (n3_salt r) = owner_hash_text oh).
  Proof.
    intros Ho Hz. unfold nsec3_match. rewrite Ho, Hz. unfold match_chain.
    rewrite str_eq_iff. split; congruence.
  Qed.

  Lemma match_outside r name oh zone :
    n3_owner r = oh :: zone -> in_zone zone name = false -> nsec3_match H r name = false.
  Proof.
    intros Ho Hz. unfold nsec3_match. rewrite Ho. destruct zone; [reflexivity|]. now rewrite Hz.
  Qed.

  (* ---------- Cover (record level) ---------- *)
  Lemma cover_iff r name oh z zs :
    n3_owner r = oh :: z :: zs ->
    in_zone (z :: zs) name = true ->
    hash_name H name (n3_alg r) (n3_iter r) (n3_salt r) <> [] ->
    (nsec3_cover H r name = true <->
     strictly_between_circular (owner_hash_text oh)
       (hash_name H name (n3_alg r) (n3_iter r) (n3_salt r)) (next_hash_text r)).
  Proof.
    intros Ho Hz Hne. unfold nsec3_cover. rewrite Ho, Hz.
    destruct (hash_name H name (n3_alg r) (n3_iter r) (n3_salt r)) as [|b xh]; [congruence|].
    apply cover_chain_spec.
  Qed.

  Lemma cover_outside r name oh zone :
    n3_owner r = oh :: zone -> in_zone zone name = false -> nsec3_cover H r name = false.
  Proof.
    intros Ho Hz. unfold nsec3_cover. rewrite Ho.
    destruct (hash_name H name (n3_alg r) (n3_iter r) (n3_salt r)); [reflexivity|].
    destruct zone; [reflexivity|]. now rewrite Hz.
  Qed.

  (* a name without hash (unsupported algorithm, undecodable salt, invalid name) is never covered *)
  Lemma cover_without_hash r name :
    hash_name H name (n3_alg r) (n3_iter r) (n3_salt r) = [] -> nsec3_cover H r name = false.
  Proof. intros E. unfold nsec3_cover. now rewrite E. Qed.

  Lemma hash_name_unsupported name ha iter salt : ha <> 1 -> hash_name H name ha iter salt = [].
  Proof. intros Ha. unfold hash_name. destruct (N.eqb_spec ha 1); [contradiction|reflexivity]. Qed.

  (* a name that matches is not covered *)
  Lemma match_not_cover r name oh z zs :
    n3_owner r = oh :: z :: zs ->
    nsec3_match H r name = true -> nsec3_cover H r name = false.
  Proof.
    intros Ho Hm. unfold nsec3_match in Hm. rewrite Ho in Hm.
    destruct (in_zone (z :: zs) name) eqn:Hz; [|discriminate].
    unfold match_chain in Hm. apply str_eq_iff in Hm.
    destruct (nsec3_cover H r name) eqn:Hc; [|reflexivity]. exfalso.
    assert (Hne : hash_name H name (n3_alg r) (n3_iter r) (n3_salt r) <> []).
    { intros E. rewrite (cover_without_hash r name E) in Hc. discriminate. }
    apply (cover_iff r name oh z zs Ho Hz Hne) in Hc. rewrite <- Hm in Hc.
    unfold strictly_between_circular, slt in Hc.
    destruct Hc as [[_ [A _]]|[[A [B|B]]|[A B]]].
    - rewrite lex_cmp_refl in A. discriminate.
    - rewrite lex_cmp_refl in B. discriminate.
    - rewrite (lex_cmp_antisym (next_hash_text r) (owner_hash_text oh)), A in B. discriminate.
    - congruence.
  Qed.
End Hash.

Lemma slt_snoc a b : slt a (a ++ [b]).
Proof. unfold slt. induction a as [|x a IHa]; cbn; [reflexivity|]. now rewrite N.compare_refl. Qed.

(* root zone: an owner name with a single label never matches or covers *)
Lemma root_zone_never (H : bytes -> bytes) r name oh :
  n3_owner r = [oh] -> nsec3_match H r name = false /\ nsec3_cover H r name = false.
Proof.
  intros Ho. unfold nsec3_match, nsec3_cover. rewrite Ho. split; [reflexivity|].
  now destruct (hash_name H name (n3_alg r) (n3_iter r) (n3_salt r)).
Qed.

(* ---------- Examples (non-vacuity) ---------- *)
Example in_zone_ex : in_zone [[69; 120]; [90]] [[97]; [101; 88]; [122]] = true.
Proof. reflexivity. Qed.
Example in_zone_ex_out : in_zone [[69; 120]; [90]] [[97]; [101; 88; 120]; [122]] = false.
Proof. reflexivity. Qed.
Example ci_ex : map lower_bytes [[69; 120]; [90]] = map lower_bytes [[101; 88]; [122]].
Proof. reflexivity. Qed.
Example sbc_ex_normal : strictly_between_circular [48] [49] [50].
Proof. left. repeat split. Qed.
Example sbc_ex_wrap : strictly_between_circular [50] [51] [48].
Proof. right. left. split; [reflexivity|left; reflexivity]. Qed.
Example sbc_ex_empty : strictly_between_circular [50] [51] [50].
Proof. right. right. split; [reflexivity|discriminate]. Qed.

(* with a toy hash (the identity) the whole chain HashName -> Match / Cover can
   be run on concrete records: hypotheses of the Props/C17.v theorems hold for
   non-trivial values *)
Definition toyH (m : bytes) : bytes := m.
Definition ex_name : list label := [[87]; [101; 88]].              (* W.eX. *)
Definition ex_hash : bytes := hash_name toyH ex_name 1 2 (Some [170]).
Definition ex_rec (next : bytes) : nsec3 :=
  {| n3_owner := [lower_bytes ex_hash; [69; 120]]; n3_alg := 1; n3_iter := 2; n3_salt := Some [170]; n3_next := next |}.
Example hash_name_ex :
  valid_wire ex_name = true /\
  ex_hash = b32hex (IH toyH [170] (wire_name [[119]; [101; 120]]) 2) /\
  ex_hash = hash_name toyH [[119]; [69; 88]] 1 2 (Some [170]) /\ ex_hash <> [].
Proof. vm_compute. repeat split. discriminate. Qed.
Example match_cover_ex :
  in_zone [[69; 120]] ex_name = true /\ owner_hash_text (lower_bytes ex_hash) = ex_hash /\
  nsec3_match toyH (ex_rec [86]) ex_name = true /\
  nsec3_cover toyH (ex_rec [86]) ex_name = false /\             (* hash = owner hash: matched, not covered *)
  nsec3_cover toyH (ex_rec [48]) ex_name = false /\
  nsec3_cover toyH {| n3_owner := [[48]; [69; 120]]; n3_alg := 1; n3_iter := 2; n3_salt := Some [170]; n3_next := [118] |} ex_name = true /\
  nsec3_cover toyH {| n3_owner := [[48]; [69; 120]]; n3_alg := 2; n3_iter := 2; n3_salt := Some [170]; n3_next := [118] |} ex_name = false /\
  nsec3_cover toyH {| n3_owner := [[48]; [69; 120]]; n3_alg := 1; n3_iter := 2; n3_salt := Some [170]; n3_next := [86] |} [[87]; [111]] = false.
Proof. vm_compute. repeat split. Qed.
