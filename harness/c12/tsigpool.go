package main

// C12, servers that still need the RAW octets of a datagram after they have
// decoded it: "... each handler sees exactly the request its client sent ... no
// mixing across requests, connections or recycled receive buffers".
//
// Class exercised here: a UDP server with TSIG configured (TsigSecret, or a
// TsigProvider of the application) receives histories of signed and unsigned
// requests. For a signed request the server goes over the receive buffer a
// second time after decoding it (it finds the TSIG record again, cuts it off,
// writes the original ID into the header, and computes the MAC over those
// octets); what the handler is told about the signature - TsigStatus() - and the
// MAC its reply is chained to are as much part of "the request its client sent"
// as the decoded records. All other histories of this harness run without TSIG,
// so the buffer is never looked at after the decode.
//
// Every request is parked at a chosen point of its way through the server until
// the serve loop has received two more datagrams (and the serve loop reads
// datagram k only after datagram k-1 has reached its parking point), so whatever
// has been handed back to the pool by then is what those reads get:
//   - "decode":  inside the first decode of the datagram (a record of a privately
//     registered type whose Unpack callback blocks, first call);
//   - "verify":  inside the second pass over the buffer, i.e. inside TSIG
//     verification (the same callback, second call);
//   - "provider": in TsigProvider.Verify, i.e. after the server has copied what
//     it signs out of the buffer (application provider only);
//   - "accept":  in MsgAcceptFunc (header decoded, body not yet);
//   - "handler": the handler keeps the request until the end of the run.
// Requests: rich ones (retain.go: every variable-length part unique to the
// request) plus the parking record anywhere in the answer / authority /
// additional section, signed with a per-request key and one of five HMAC
// algorithms; correctly signed; correctly signed and then forwarded (header ID
// differs from the TSIG original ID, so verification rewrites the first two
// octets of the buffer); signed with another secret, with a key the server does
// not have, with a time outside the fudge window; unsigned.
//
// Oracles, from the property text: the handler of request k (identified by its
// peer address) sees what client k sent, on entry and after having kept it; it is
// told TsigStatus() == nil exactly when client k's signature is right (a badly
// signed request must not pass on the strength of somebody else's datagram, a
// well signed one must not fail on it); client k receives exactly one reply, the
// echo of its own request, signed by the server in continuation of ITS request
// MAC when the handler answers a verified request. Directly on the pool (through
// DecorateReader, application provider): no read returns a buffer whose datagram
// the server has not finished verifying (has not reached TsigProvider.Verify;
// unsigned ones: has not left MsgAcceptFunc).

import (
	"bytes"
	"crypto/hmac"
	"crypto/sha1"
	"crypto/sha256"
	"crypto/sha512"
	"encoding/base64"
	"encoding/binary"
	"encoding/hex"
	"fmt"
	"hash"
	"net"
	"runtime"
	"strings"
	"sync"
	"sync/atomic"
	"time"

	"github.com/miekg/dns"
	. "verif/harness/common"
	"verif/harness/netfake"
)

const tsParkType = 65399 // private use

// tsParkRdata: RDATA of the parking record: "PK", the request number, filler.
type tsParkRdata struct{ b []byte }

var tsHook atomic.Pointer[tsRun]

func (p *tsParkRdata) String() string       { return hex.EncodeToString(p.b) }
func (p *tsParkRdata) Parse([]string) error { return nil }
func (p *tsParkRdata) Len() int             { return len(p.b) }
func (p *tsParkRdata) Pack(buf []byte) (int, error) {
	if len(buf) < len(p.b) {
		return 0, dns.ErrBuf
	}
	return copy(buf, p.b), nil
}
func (p *tsParkRdata) Copy(dst dns.PrivateRdata) error {
	dst.(*tsParkRdata).b = append([]byte(nil), p.b...)
	return nil
}
func (p *tsParkRdata) Unpack(buf []byte) (int, error) {
	p.b = append([]byte(nil), buf...)
	if run := tsHook.Load(); run != nil && len(buf) >= 6 && buf[0] == 'P' && buf[1] == 'K' {
		run.unpackCall(int(binary.BigEndian.Uint32(buf[2:])))
	}
	return len(buf), nil
}

type tsKind int

const (
	tkPlain     tsKind = iota // unsigned
	tkSigned                  // correctly signed
	tkForwarded               // correctly signed, header ID changed afterwards (original ID in the TSIG record)
	tkBadMac                  // signed with another secret
	tkBadKey                  // signed with a key the server does not know
	tkBadTime                 // signed a day ago
	tkKinds
)

var tsKindNames = []string{"unsigned", "signed", "signed-forwarded", "bad-mac", "unknown-key", "bad-time"}

const (
	tpNone     = iota
	tpDecode   // private Unpack, call 1
	tpVerify   // private Unpack, call 2
	tpProvider // TsigProvider.Verify
	tpAccept   // MsgAcceptFunc
)

var tsParkNames = []string{"none", "decode", "verify", "provider", "accept"}

type tsReq struct {
	kind   tsKind
	park   int
	keep   bool
	wire   []byte
	ref    *dns.Msg // independent decode of wire
	reply  []byte   // what the client must receive
	key    string
	secret string
	calls  atomic.Int32
}

func (q *tsReq) wantOK() bool { return q.kind <= tkForwarded }

type tsRun struct {
	n       int
	onep    bool
	reqs    []*tsReq
	pc      *netfake.PacketConn
	reached []chan struct{}
	rmu     sync.Mutex
	infra   atomic.Bool
	fl      *tsFlight
}

func (t *tsRun) reach(k int) {
	t.rmu.Lock()
	select {
	case <-t.reached[k]:
	default:
		close(t.reached[k])
	}
	t.rmu.Unlock()
}

// gate: request k has reached its parking point; it stays there until the serve
// loop has received two more datagrams.
func (t *tsRun) gate(k int) {
	t.reach(k)
	want := k + 3
	if want > t.n {
		want = t.n
	}
	for t0 := time.Now(); t.pc.Delivered() < want; {
		if time.Since(t0) > 10*time.Second {
			t.infra.Store(true)
			return
		}
		if t.onep {
			runtime.Gosched()
		} else {
			time.Sleep(50 * time.Microsecond)
		}
	}
}

func (t *tsRun) unpackCall(k int) {
	if k < 0 || k >= t.n {
		return
	}
	q := t.reqs[k]
	c := int(q.calls.Add(1))
	if (q.park == tpDecode && c == 1) || (q.park == tpVerify && c == 2) {
		t.gate(k)
	}
}

// tsFlight: a buffer is in flight from the read that returned it until the
// server has no more use for the octets in it (see the oracle above).
type tsFlight struct {
	dns.Reader
	mu       sync.Mutex
	n        int
	inFlight map[*byte]int
	bufOf    map[int]*byte
	shared   []string
	reused   int
}

func (f *tsFlight) ReadPacketConn(conn net.PacketConn, t time.Duration) ([]byte, net.Addr, error) {
	m, a, err := f.Reader.(dns.PacketConnReader).ReadPacketConn(conn, t)
	if err != nil {
		return m, a, err
	}
	f.mu.Lock()
	k := f.n
	f.n++
	if cap(m) > 0 {
		p := &m[:1][0]
		if j, busy := f.inFlight[p]; busy && len(f.shared) < 5 {
			f.shared = append(f.shared, fmt.Sprintf("datagram %d was read into the buffer that still holds datagram %d, which the server has not finished decoding and verifying", k, j))
		}
		for _, q := range f.bufOf {
			if q == p {
				f.reused++
				break
			}
		}
		f.inFlight[p] = k
		f.bufOf[k] = p
	}
	f.mu.Unlock()
	return m, a, err
}

func (f *tsFlight) left(k int) {
	f.mu.Lock()
	if p, ok := f.bufOf[k]; ok {
		if j, busy := f.inFlight[p]; busy && j == k {
			delete(f.inFlight, p)
		}
	}
	f.mu.Unlock()
}

func tsKeyIndex(name string) (int, bool) {
	name = strings.ToLower(name)
	if len(name) < 2 || (name[0] != 'k' && name[0] != 'u') || !strings.HasSuffix(name, ".tsig.c12.") {
		return 0, false
	}
	d := name[1 : len(name)-len(".tsig.c12.")]
	if d == "" || len(d) > 6 {
		return 0, false
	}
	k := 0
	for _, c := range []byte(d) {
		if c < '0' || c > '9' {
			return 0, false
		}
		k = 10*k + int(c-'0')
	}
	return k, true
}

// tsProvider: the application's own TSIG provider (HMAC by key name, written
// with crypto/hmac, independent of the library's).
type tsProvider struct{ run *tsRun }

func tsHMAC(alg string, secret string, msg []byte) ([]byte, error) {
	raw, err := base64.StdEncoding.DecodeString(secret)
	if err != nil {
		return nil, err
	}
	var h hash.Hash
	switch strings.ToLower(alg) {
	case dns.HmacSHA1:
		h = hmac.New(sha1.New, raw)
	case dns.HmacSHA224:
		h = hmac.New(sha256.New224, raw)
	case dns.HmacSHA256:
		h = hmac.New(sha256.New, raw)
	case dns.HmacSHA384:
		h = hmac.New(sha512.New384, raw)
	case dns.HmacSHA512:
		h = hmac.New(sha512.New, raw)
	default:
		return nil, dns.ErrKeyAlg
	}
	h.Write(msg)
	return h.Sum(nil), nil
}

func (p *tsProvider) secretOf(t *dns.TSIG) (string, int, bool) {
	k, ok := tsKeyIndex(t.Hdr.Name)
	if !ok || k < 0 || k >= p.run.n {
		return "", -1, false
	}
	if strings.HasPrefix(strings.ToLower(t.Hdr.Name), "u") {
		return "", k, false
	}
	return p.run.reqs[k].secret, k, true
}

func (p *tsProvider) Generate(msg []byte, t *dns.TSIG) ([]byte, error) {
	s, _, ok := p.secretOf(t)
	if !ok {
		return nil, dns.ErrSecret
	}
	return tsHMAC(t.Algorithm, s, msg)
}

func (p *tsProvider) Verify(msg []byte, t *dns.TSIG) error {
	s, k, ok := p.secretOf(t)
	if k >= 0 {
		// the octets to be verified have been copied out of the receive buffer
		p.run.fl.left(k)
		if p.run.reqs[k].park == tpProvider && p.run.reqs[k].calls.Add(100) < 200 {
			p.run.gate(k)
		}
	}
	if !ok {
		return dns.ErrSecret
	}
	want, err := tsHMAC(t.Algorithm, s, msg)
	if err != nil {
		return err
	}
	got, err := hex.DecodeString(t.MAC)
	if err != nil || !hmac.Equal(want, got) {
		return dns.ErrSig
	}
	return nil
}

// tsComparable replaces parking records (whose generator function makes them
// incomparable) by NULL records with the same header and the RDATA in hex.
func tsComparable(m *dns.Msg) *dns.Msg {
	c := *m
	conv := func(rs []dns.RR) []dns.RR {
		out := make([]dns.RR, len(rs))
		for i, rr := range rs {
			// the harness decodes while the type is not registered (RFC 3597 form), the
			// server while it is
			if p, ok := rr.(*dns.PrivateRR); ok {
				d, _ := p.Data.(*tsParkRdata)
				data := "?"
				if d != nil {
					data = hex.EncodeToString(d.b)
				}
				out[i] = &dns.NULL{Hdr: p.Hdr, Data: data}
			} else if u, ok := rr.(*dns.RFC3597); ok && u.Hdr.Rrtype == tsParkType {
				out[i] = &dns.NULL{Hdr: u.Hdr, Data: strings.ToLower(u.Rdata)}
			} else {
				out[i] = rr
			}
		}
		return out
	}
	c.Answer, c.Ns, c.Extra = conv(m.Answer), conv(m.Ns), conv(m.Extra)
	return &c
}

func tsDiff(want, got *dns.Msg) string { return msgDiff(tsComparable(want), tsComparable(got)) }

var tsAlgs = []string{dns.HmacSHA256, dns.HmacSHA1, dns.HmacSHA512, dns.HmacSHA224, dns.HmacSHA384}

// mkTsigReq builds request k (header ID k) of at most limit octets.
func mkTsigReq(r *Rng, k int, kind tsKind, park int, limit int) *tsReq {
	q := &tsReq{kind: kind, park: park}
	tag := sha1.Sum([]byte(fmt.Sprintf("tsig/%d/%d", k, r.Next())))
	q.secret = base64.StdEncoding.EncodeToString(tagBytes(tag[:], 's', 16+r.Intn(3)*8))
	q.key = fmt.Sprintf("k%d.tsig.c12.", k)
	if kind == tkBadKey {
		q.key = fmt.Sprintf("u%d.tsig.c12.", k)
	}
	for attempt := 0; attempt < 12; attempt++ {
		budget := (limit - 260) >> uint(attempt/3)
		var m *dns.Msg
		if budget >= 80 && attempt < 9 {
			if rq := mkRich(r, k, 0, budget, true, forcedType(r)); rq != nil {
				m = rq.ref.Copy()
			}
		}
		if m == nil {
			m = new(dns.Msg)
			m.SetQuestion(fmt.Sprintf("c%d.%s.plain.ts.", k, tagText(tag[:], 1, 10)), dns.TypeA)
		}
		m.Compress = r.Bool()
		m.Id = uint16(k)
		if park == tpDecode || park == tpVerify || r.Intn(3) == 0 {
			data := append([]byte{'P', 'K', 0, 0, 0, 0}, tagBytes(tag[:], 'p', r.Intn(40))...)
			binary.BigEndian.PutUint32(data[2:], uint32(k))
			rr := &dns.PrivateRR{Hdr: dns.RR_Header{Name: m.Question[0].Name, Rrtype: tsParkType, Class: dns.ClassINET, Ttl: uint32(k)}, Data: &tsParkRdata{b: data}}
			if r.Bool() {
				rr.Hdr.Name = fmt.Sprintf("pk%d.ts.", k)
			}
			sec := []*[]dns.RR{&m.Answer, &m.Ns, &m.Extra}[r.Intn(3)]
			pos := r.Intn(len(*sec) + 1)
			*sec = append((*sec)[:pos:pos], append([]dns.RR{rr}, (*sec)[pos:]...)...)
		}
		var wire []byte
		var err error
		if kind == tkPlain {
			wire, err = m.Pack()
		} else {
			now := time.Now().Unix()
			if kind == tkBadTime {
				now -= 86400
			}
			fudge := uint16(3000)
			if kind == tkForwarded {
				m.Id = uint16(k) + uint16(1+r.Intn(65534)) // the ID the original client used, never k
			}
			m.SetTsig(q.key, tsAlgs[r.Intn(len(tsAlgs))], fudge, now)
			secret := q.secret
			if kind == tkBadMac {
				secret = base64.StdEncoding.EncodeToString(tagBytes(tag[:], 'x', 16))
			}
			wire, _, err = dns.TsigGenerate(m, secret, "", false)
			if err == nil && kind == tkForwarded {
				binary.BigEndian.PutUint16(wire, uint16(k)) // what a forwarder does: new ID on the wire, original ID in the TSIG record
			}
		}
		if err != nil || len(wire) > limit {
			continue
		}
		ref, ref2 := new(dns.Msg), new(dns.Msg)
		if ref.Unpack(append([]byte(nil), wire...)) != nil || ref2.Unpack(append([]byte(nil), wire...)) != nil || len(ref.Question) != 1 {
			continue
		}
		rep := echoReply(ref2)
		var reply []byte
		if q.wantOK() && kind != tkPlain {
			reply, _, err = dns.TsigGenerate(rep, q.secret, ref.IsTsig().MAC, false)
		} else {
			if rep.IsTsig() != nil {
				rep.Extra = rep.Extra[:len(rep.Extra)-1]
			}
			reply, err = rep.Pack()
		}
		if err != nil || len(reply) > 60000 {
			continue
		}
		q.wire, q.ref, q.reply = wire, ref, reply
		return q
	}
	return nil
}

type tsigIn struct {
	Mode    string   `json:"mode"`
	History string   `json:"history"` // kind/parking point of the datagrams in order of arrival
	Request string   `json:"request_hex,omitempty"`
	What    []string `json:"what"`
}

func runTsigPoolOne(r *Rng, n int, onep bool, udpSize int, provider bool) {
	mode := fmt.Sprintf("scripted-udp,tsig=%s,onep=%v,udpsize=%d", map[bool]string{false: "TsigSecret", true: "TsigProvider"}[provider], onep, udpSize)
	if onep {
		old := runtime.GOMAXPROCS(1)
		defer runtime.GOMAXPROCS(old)
	}
	eff := udpSize
	if eff == 0 {
		eff = dns.MinMsgSize
	}
	run := &tsRun{n: n, onep: onep, reqs: make([]*tsReq, n), reached: make([]chan struct{}, n),
		fl: &tsFlight{inFlight: map[*byte]int{}, bufOf: map[int]*byte{}}}
	var in [][]byte
	history := ""
	secrets := map[string]string{}
	nkeep := 0
	for k := 0; k < n; k++ {
		run.reached[k] = make(chan struct{})
		kind := tsKind(r.Intn(int(tkKinds)))
		if r.Intn(2) == 0 {
			kind = []tsKind{tkSigned, tkSigned, tkForwarded}[r.Intn(3)]
		}
		park := tpNone
		switch {
		case kind == tkPlain:
			park = []int{tpNone, tpDecode, tpAccept}[r.Intn(3)]
		case provider:
			park = []int{tpVerify, tpVerify, tpVerify, tpDecode, tpProvider, tpAccept, tpNone}[r.Intn(7)]
		default:
			park = []int{tpVerify, tpVerify, tpVerify, tpDecode, tpAccept, tpNone}[r.Intn(6)]
		}
		limit := eff
		if r.Intn(3) == 0 && eff > 700 {
			limit = 512 + r.Intn(eff-512)
		}
		q := mkTsigReq(r, k, kind, park, limit)
		if q == nil {
			q = mkTsigReq(r, k, tkPlain, tpNone, eff)
		}
		if q == nil {
			stat["tsig_gen_failed"]++
			return
		}
		q.keep = k < n-8 && r.Intn(5) == 0
		if q.keep {
			nkeep++
		}
		run.reqs[k] = q
		in = append(in, q.wire)
		if q.kind != tkBadKey {
			secrets[q.key] = q.secret
		}
		if k < 60 {
			history += tsKindNames[q.kind] + "/" + tsParkNames[q.park] + " "
		}
	}
	pc := netfake.NewPacketConn(in, nil)
	run.pc = pc
	pc.Hold = func(k int) {
		if k >= 1 && !netfake.WaitChan(run.reached[k-1], 10*time.Second) {
			run.infra.Store(true)
		}
		// let released requests finish (verify, hand the buffer back, run the handler)
		// before the next read asks the pool for a buffer
		if onep {
			for i := 0; i < 8; i++ {
				runtime.Gosched()
			}
		} else {
			time.Sleep(100 * time.Microsecond)
		}
	}
	x := &badList{}
	add := func(q *tsReq, s string) {
		if q != nil {
			x.add(&richRequest{wire: q.wire, kinds: []string{tsKindNames[q.kind], "parked:" + tsParkNames[q.park]}}, s)
		} else {
			x.add(nil, s)
		}
	}
	release := make(chan struct{})
	var finished atomic.Int64
	var hmu sync.Mutex
	handled := make([]int, n)
	accept := func(dh dns.Header) dns.MsgAcceptAction {
		k := int(dh.Id)
		if k >= n {
			add(nil, fmt.Sprintf("the accept policy was asked about ID %d, which no client used", k))
			return dns.MsgIgnore
		}
		q := run.reqs[k]
		if q.park == tpAccept {
			run.gate(k)
		}
		if !(provider && q.kind != tkPlain) {
			// nothing later in the request's way is observable before the buffer goes back
			// to the pool: the weaker statement (still in flight until here) is all that
			// can be checked without risking a false alarm
			run.fl.left(k)
		}
		return dns.MsgAccept
	}
	h := func(w dns.ResponseWriter, req *dns.Msg) {
		defer finished.Add(1)
		status := w.TsigStatus()
		a, ok := w.RemoteAddr().(netfake.Addr)
		if !ok || a.N < 0 || a.N >= n {
			add(nil, fmt.Sprintf("handler called for unknown peer %v", w.RemoteAddr()))
			return
		}
		k := a.N
		q := run.reqs[k]
		run.reach(k)
		run.fl.left(k)
		hmu.Lock()
		handled[k]++
		hmu.Unlock()
		desc := fmt.Sprintf("request %d (%s, parked in %s)", k, tsKindNames[q.kind], tsParkNames[q.park])
		if d := tsDiff(q.ref, req); d != "" {
			add(q, fmt.Sprintf("%s on entry of its handler, which was given ID %d: %s", desc, req.Id, d))
		}
		if q.wantOK() && status != nil {
			add(q, fmt.Sprintf("%s: its client signed it correctly (or not at all), the handler is told TsigStatus() = %v", desc, status))
		}
		if !q.wantOK() && status == nil {
			add(q, fmt.Sprintf("%s: its client's signature is not valid, the handler is told TsigStatus() = nil", desc))
		}
		if q.keep {
			select {
			case <-release:
			case <-time.After(2 * infraWait):
				run.infra.Store(true)
			}
			if d := tsDiff(q.ref, req); d != "" {
				add(q, fmt.Sprintf("%s changed while its handler held it: %s", desc, d))
			}
			if s2 := w.TsigStatus(); (s2 == nil) != (status == nil) {
				add(q, fmt.Sprintf("%s: TsigStatus() changed from %v to %v while the handler held the request", desc, status, s2))
			}
		}
		rep := echoReply(req)
		if status != nil && rep.IsTsig() != nil {
			rep.Extra = rep.Extra[:len(rep.Extra)-1]
		}
		w.WriteMsg(rep)
	}
	srv := &dns.Server{PacketConn: pc, Handler: dns.HandlerFunc(h), UDPSize: udpSize, MsgAcceptFunc: accept,
		DecorateReader: func(in dns.Reader) dns.Reader { run.fl.Reader = in; return run.fl }}
	if provider {
		srv.TsigProvider = &tsProvider{run}
	} else {
		srv.TsigSecret = secrets
	}
	invalid := func(m []byte, err error) {
		if len(m) >= 2 && int(binary.BigEndian.Uint16(m)) < n {
			run.reach(int(binary.BigEndian.Uint16(m))) // never on the unchanged tree; keeps the serve loop going
		}
	}
	srv.MsgInvalidFunc = invalid
	// the parking type is registered only while the server runs: the generators above
	// walk through the registered types
	dns.PrivateHandle("C12PARK", tsParkType, func() dns.PrivateRdata { return new(tsParkRdata) })
	tsHook.Store(run)
	done := make(chan error, 1)
	go func() { done <- srv.ActivateAndServe() }()
	ok := netfake.WaitChan(pc.Drained, 2*infraWait)
	for t0 := time.Now(); ok && finished.Load() < int64(n-nkeep) && time.Since(t0) < 2*time.Second; {
		time.Sleep(time.Millisecond) // a lost request is reported below, not waited for for ever
	}
	close(release)
	sd := make(chan struct{})
	go func() { srv.Shutdown(); close(sd) }()
	if !netfake.WaitChan(sd, 3*infraWait) {
		stat["infra_timeout"]++
		tsHook.Store(nil)
		dns.PrivateHandleRemove(tsParkType)
		return
	}
	<-done
	tsHook.Store(nil)
	dns.PrivateHandleRemove(tsParkType)
	complete := ok && !run.infra.Load()
	if !complete {
		stat["infra_timeout"]++ // what the handlers saw stands whatever the timing; counts need the complete run
	}
	// the clients' side
	replies := make([][][]byte, n)
	for _, w := range pc.Writes() {
		k := w.To.(netfake.Addr).N
		replies[k] = append(replies[k], w.Data)
	}
	for k, q := range run.reqs {
		if !complete {
			break
		}
		desc := fmt.Sprintf("client %d (%s, parked in %s)", k, tsKindNames[q.kind], tsParkNames[q.park])
		if handled[k] != 1 {
			add(q, fmt.Sprintf("%s: its request reached a handler %d times", desc, handled[k]))
		}
		rs := replies[k]
		if len(rs) != 1 {
			add(q, fmt.Sprintf("%s received %d replies", desc, len(rs)))
			continue
		}
		if !bytes.Equal(rs[0], q.reply) {
			var rep, want dns.Msg
			why := "reply does not decode"
			if rep.Unpack(rs[0]) == nil {
				want.Unpack(q.reply)
				if why = tsDiff(&want, &rep); why == "" {
					why = "same records, other octets"
				}
			}
			add(q, fmt.Sprintf("%s received a reply that is not the (signed) echo of its own request: %s", desc, why))
		} else if q.wantOK() && q.kind != tkPlain {
			// independent of how the expectation was computed: the reply verifies with the
			// client's key in continuation of the client's own request MAC
			if err := dns.TsigVerify(append([]byte(nil), rs[0]...), q.secret, q.ref.IsTsig().MAC, false); err != nil {
				add(q, fmt.Sprintf("%s: the reply's signature does not verify against its request: %v", desc, err))
			}
		}
		stat["tsig_kind_"+tsKindNames[q.kind]]++
		stat["tsig_parked_"+tsParkNames[q.park]]++
	}
	stat["tsig_datagrams_checked"] += n
	stat["tsig_kept"] += nkeep
	run.fl.mu.Lock()
	shared := run.fl.shared
	distinct := map[*byte]bool{}
	for _, p := range run.fl.bufOf {
		distinct[p] = true
	}
	stat["tsig_buffers_distinct"] += len(distinct)
	stat["tsig_buffer_reuses"] += run.fl.reused
	run.fl.mu.Unlock()
	if len(shared) > 0 {
		Viol("C12/Pool/buffer-shared-in-flight", "a receive buffer was handed to a read while the server still needed the datagram in it (TSIG verification not finished)", tsigIn{mode, history, "", shared})
	}
	if len(x.bad) > 0 {
		Viol("C12/Crosstalk/udp-tsig", "on a UDP server with TSIG configured a handler did not see its client's request and the truth about its signature, or a client did not receive the signed echo of its own request",
			tsigIn{mode, history, x.wire, x.bad})
	}
}

func runTsigPool(r0 *Rng, tier string) {
	// a private generator: the histories of the other classes stay what they were
	r := &Rng{S: r0.S ^ 0x7516c12a5eed}
	k := 1
	if tier == "thorough" {
		k = 8
	}
	sizes := []int{0, 1232, 4096}
	for i := 0; i < 2*k; i++ {
		for _, provider := range []bool{false, true} {
			// one P: the buffer a request hands back is the one the next read gets
			runTsigPoolOne(r, 120, true, sizes[r.Intn(3)], provider)
		}
		// all Ps
		runTsigPoolOne(r, 200, false, sizes[r.Intn(3)], i%2 == 1)
	}
}
