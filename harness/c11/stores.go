package main

// C11, key stores: every receive path of session.go is run against every way
// the receiver's key material can be configured (nothing, an empty map, only
// other key names, the name with another secret, the name in another case or
// without the trailing dot, the right store, a TsigProvider with the right
// secret / another secret / one that returns errors) and every kind of message
// (signed by the peer's key, garbage MAC, unknown key name, unknown algorithm,
// no TSIG at all).
//
// Oracle (property text): a message is reported as verified only when its MAC
// is the RFC 8945 HMAC under the secret THIS store holds for the named key;
// every other combination of key name, secret and store yields an error. A
// receiver with any store configured, even an empty one, never reports "no
// error" for a message that carries a TSIG it cannot verify.

import (
	"encoding/binary"
	"errors"
	"strings"
	"time"

	"github.com/miekg/dns"
	. "verif/harness/common"
)

const unknownKeyName = "unknown-key.example."

type recvStore struct {
	name       string
	secrets    map[string]string // TsigSecret (nil: field left unset)
	prov       dns.TsigProvider  // TsigProvider (nil: field left unset)
	provSecret []byte            // secret of the harness HMAC provider
	provErr    bool              // the provider fails every call
	// lenient: the store holds the peer's secret under a name that differs from the
	// key name only in letter case or in the trailing dot. The library looks names up
	// literally (and documents that they must be canonical); a case-insensitive match
	// would verify under the same secret, so neither verdict contradicts the property.
	lenient bool
}

func (rs *recvStore) configured() bool { return rs.secrets != nil || rs.prov != nil }

var errProviderDown = errors.New("harness provider: key store unavailable")

type failingProvider struct{}

func (failingProvider) Generate([]byte, *dns.TSIG) ([]byte, error) { return nil, errProviderDown }
func (failingProvider) Verify([]byte, *dns.TSIG) error             { return errProviderDown }

// storesFor lists the receiver configurations for a peer that signs with k.key / k.b64.
func storesFor(r *Rng, k *sessKeys) []*recvStore {
	x, y := genSecret(r), genSecret(r)
	upper := strings.ToUpper(k.key)
	nodot := strings.TrimSuffix(k.key, ".")
	xs, _ := rawSecret(x)
	return []*recvStore{
		{name: "none"},
		{name: "empty-map", secrets: map[string]string{}},
		{name: "other-names", secrets: map[string]string{"other.example.": x, "third.": k.b64}},
		{name: "single-other-name-same-secret", secrets: map[string]string{"other.example.": k.b64}},
		{name: "name-other-secret", secrets: map[string]string{k.key: x, "other.example.": y}},
		{name: "name-upper-other-secret", secrets: map[string]string{upper: x}},
		{name: "name-nodot-other-secret", secrets: map[string]string{nodot: x}},
		{name: "name-upper-same-secret", secrets: map[string]string{upper: k.b64}, lenient: true},
		{name: "name-nodot-same-secret", secrets: map[string]string{nodot: k.b64}, lenient: true},
		{name: "undecodable-secret", secrets: map[string]string{k.key: "!!notbase64"}},
		{name: "right", secrets: map[string]string{k.key: k.b64, "other.example.": x}},
		{name: "provider-right", prov: harnessProvider{k.secret}, provSecret: k.secret},
		{name: "provider-other-secret", prov: harnessProvider{xs}, provSecret: xs},
		{name: "provider-failing", prov: failingProvider{}, provErr: true},
	}
}

var msgKinds = []string{"", "garbage-mac", "unknown-key", "unknown-alg", "no-tsig"}

// messagesOfKind turns the chain the peer signed into what it sends.
func messagesOfKind(kind string, c *chain) [][]byte {
	switch kind {
	case "no-tsig":
		return cloneEnvs(c.packed)
	case "garbage-mac", "unknown-alg":
		var out [][]byte
		for _, e := range c.envs {
			t, ok := refFindTsig(e)
			if !ok {
				out = append(out, e)
				continue
			}
			p := partsOf(t)
			if kind == "garbage-mac" {
				for i := range p.mac {
					p.mac[i] = 0xaa
				}
			} else {
				p.alg = nameWire("hmac-sha999.")
			}
			out = append(out, withTsig(e, t, p))
		}
		return out
	}
	return c.envs
}

func kindName(k string) string {
	if k == "" {
		return "signed"
	}
	return k
}

// checkStore compares, envelope by envelope, what the receiver reported with the
// verdict of the independent verifier under the receiver's own store.
func (s *scenario) checkStore(o *sessObs) {
	rs := s.k.rs
	ent := entryName[s.kind]
	key := "C11/" + ent + "/store-" + rs.name
	if o.setup != nil || o.c == nil || !o.applied {
		st["sess_setup_failed"]++
		if o.setup != nil {
			Viol("C11/"+ent+"/request", "the library could not send its request: "+o.setup.Error(), s.input(o, "store-"+rs.name, -1))
		}
		return
	}
	if o.infra != "" {
		st["sess_infra_timeout"]++
		return
	}
	in := func(detail string) sessIn {
		i := s.input(o, "store-"+rs.name+"/"+kindName(s.msgKind), -1)
		i.Detail = detail
		return i
	}
	byPos, _ := s.legit(o.c)
	stateless := s.pol() == polStateless
	// Conn always has a provider (tsigSecretProvider(nil) when nothing is set); Transfer
	// without TsigSecret and TsigProvider does not verify at all.
	verifies := rs.configured() || stateless
	for i, e := range o.tr.envs {
		prior := o.c.rm0
		if !stateless && i > 0 {
			prior = macOfEnv(o.tr.envs[i-1])
		}
		want := refVerify(e, s.k, prior, o.c.timers(i), s.now)
		_, carries := refFindTsig(e)
		if i >= len(o.items) {
			if want {
				Viol(key, kindName(s.msgKind)+" message "+Itoa(i)+" verifies under this store but was not delivered", in(""))
			} else if verifies {
				st["sess_ended_before_tampered"]++
			}
			return
		}
		d := o.items[i]
		st["sess_store_checked"]++
		switch {
		case want:
			if !d.verified {
				Viol(key, kindName(s.msgKind)+" message "+Itoa(i)+" is the RFC 8945 MAC under this store's secret but was not delivered as verified", in(""))
				return
			}
			if d.content != byPos[i] {
				Viol(key, "message "+Itoa(i)+" delivered as verified with other content than signed", in(d.content))
			}
			continue
		case rs.lenient && d.verified:
			st["sess_store_lenient_name_match_accepted"]++
			if d.content != byPos[i] {
				Viol(key, "message "+Itoa(i)+" delivered as verified with other content than signed", in(d.content))
			}
			continue
		case !verifies:
			if d.err == nil && carries {
				st["sess_unconfigured_receiver_tsig_not_verified"]++
			}
		case d.verified:
			Viol(key, kindName(s.msgKind)+" message "+Itoa(i)+" delivered as verified although this store has no secret that gives its MAC", in(""))
		case d.err == nil && (carries || !stateless):
			Viol(key, kindName(s.msgKind)+" message "+Itoa(i)+" that this store cannot verify was delivered without an error", in(""))
		}
		if !stateless && verifies {
			return // the transfer stops at the first error
		}
	}
}

// runServerStore: nq queries of one kind to a server configured with keys.rs.
func runServerStore(r *Rng, udp bool, keys *sessKeys, kind string, quota *int) {
	rs := keys.rs
	alg := &algs[r.Intn(len(algs))]
	now := uint64(time.Now().Unix())
	nq := 1 + r.Intn(3)
	c := &chain{k: keys, alg: alg, fudge: 300, now: now, libSign: r.Intn(3) == 0, pol: polStateless}
	if kind == "unknown-key" {
		k2 := *keys
		k2.key = unknownKeyName
		c.k = &k2
	}
	xfrAt := -1
	if !udp && r.Intn(2) == 0 {
		xfrAt = r.Intn(nq)
	}
	for i := 0; i < nq; i++ {
		q := new(dns.Msg)
		if i == xfrAt {
			q.SetAxfr(xfrZone)
		} else {
			q.SetQuestion(genOwner(r), dns.TypeA)
		}
		q.Id = uint16(2000 + i)
		c.msgs = append(c.msgs, q)
	}
	if !c.build(nil) {
		return
	}
	envs := messagesOfKind(kind, c)
	recs, written, ok := serveQueries(udp, envs, keys, 1+r.Intn(3))
	if !ok {
		return
	}
	key := "C11/Server/store-" + rs.name
	in := func(detail string) sessIn {
		i := sessIn{Entry: map[bool]string{true: "server-udp", false: "server-tcp"}[udp], Tamper: "store-" + rs.name + "/" + kindName(kind), Position: -1, Of: nq,
			Key: keys.key, Secret: keys.b64, Provider: rs.prov != nil, Alg: alg.name, Fudge: 300, Signed: now, Detail: detail}
		for _, e := range envs {
			i.Sent = append(i.Sent, Hx(e))
		}
		return i
	}
	st["sess_server_runs"]++
	ks := keys.store()
	for i, e := range envs {
		id := binary.BigEndian.Uint16(e)
		rec := recs[id]
		if rec == nil || rec.called != 1 {
			st["sess_server_query_not_handled"]++
			continue
		}
		st["sess_store_checked"]++
		want := refVerify(e, keys, nil, false, now)
		verified := rec.hasTsig && rec.status == nil
		switch {
		case want && !verified:
			Viol(key, kindName(kind)+" query "+Itoa(i)+" is the RFC 8945 MAC under this store's secret but TsigStatus is "+errClass(rec.status), in(""))
		case want:
		case rs.lenient && verified:
			st["sess_store_lenient_name_match_accepted"]++
		case !rs.configured():
			// neither TsigSecret nor TsigProvider: the server does not look at TSIG records
			if verified {
				st["sess_unconfigured_receiver_tsig_not_verified"]++
			}
		case verified:
			Viol(key, kindName(kind)+" query "+Itoa(i)+": TsigStatus nil for a request with a TSIG although this store has no secret that gives its MAC", in(""))
		}
		if quota != nil && rs.configured() && !rs.provErr && rec.hasTsig && tsigClasses[errClass(rec.status)] && allUnpack([][]byte{e}) &&
			queueCase(quota, "verify", []string{Hx(e), "", "false", u(now), "0", ks.desc(), hmacTableFor(ks, [][]byte{e}, nil, polStateless)}, errClass(rec.status)) {
			st["sess_model_verify"]++
		}
		if !want || !verified {
			continue
		}
		var resp [][]byte
		for _, w := range written {
			if len(w) >= 2 && binary.BigEndian.Uint16(w) == id {
				resp = append(resp, w)
			}
		}
		prior := macOfEnv(e)
		for j, w := range resp {
			t, ok := refFindTsig(w)
			if !ok || !refVerify(w, keys, prior, j > 0, t.time) {
				Viol("C11/Server/response-signature", "response "+Itoa(j)+" to query "+Itoa(i)+" is not the RFC 8945 chain MAC over the request MAC", in(Hx(w)))
				break
			}
			prior = clone(t.mac)
		}
		if len(resp) == 0 {
			Viol("C11/Server/response-signature", "no response to verified query "+Itoa(i), in(""))
		}
	}
}

// runStores is the key-store dimension of every receive path.
func runStores(r *Rng, tier string) {
	reps := 1
	if tier == "thorough" {
		reps = 4
	}
	quota := 60000
	if tier == "thorough" {
		quota = 400000
	}
	paths := []struct {
		kind string
		n    int
	}{{"axfr", 3}, {"ixfr", 2}, {"loop", 2}, {"conn", 2}, {"connudp", 2}, {"client", 1}, {"clientudp", 1}}
	for rep := 0; rep < reps; rep++ {
		for _, p := range paths {
			base := genScenario(r, p.kind, p.n, false)
			for _, rs := range storesFor(r, base.k) {
				for _, kind := range msgKinds {
					s := *base
					k := *base.k
					k.rs = rs
					s.k = &k
					s.msgKind = kind
					// a receiver that cannot sign sends its request unsigned
					s.signQuery = base.signQuery && (rs.name == "right" || rs.name == "provider-right")
					o := s.run(nil, -1, 0)
					s.checkStore(o)
					// Transfer without any store does not call the verifier: nothing to compare with the model
					if !rs.provErr && (rs.configured() || s.pol() == polStateless) && r.Intn(4) == 0 {
						s.emitSession(o, &quota)
					}
				}
			}
		}
		for _, udp := range []bool{false, true} {
			keys := genSessKeys(r, false)
			for _, rs := range storesFor(r, keys) {
				for _, kind := range msgKinds {
					k := *keys
					k.rs = rs
					var q *int
					if r.Intn(4) == 0 {
						q = &quota
					}
					runServerStore(r, udp, &k, kind, q)
				}
			}
		}
	}
}
