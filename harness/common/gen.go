package common

// Structured generators for records and messages of every registered type,
// driven by reflection over the struct fields and their `dns:"..."` tags, and
// boundary-biased (0, max, empty, 255-octet strings, 63-octet labels, shared
// name suffixes, escapes).  Everything is derived from the one *Rng.

import (
	"encoding/base32"
	"encoding/base64"
	"encoding/hex"
	"net"
	"reflect"
	"sort"
	"strings"

	"github.com/miekg/dns"
)

var b32 = base32.HexEncoding.WithPadding(base32.NoPadding)

// NamePool produces names that share suffixes, differ in case/escaping, and
// sometimes sit at the length limits.
type NamePool struct {
	R     *Rng
	Names []string
}

func ShowLabel(l []byte) string {
	var sb strings.Builder
	for _, b := range l {
		switch {
		case strings.IndexByte(`. '@;()"\`, b) >= 0:
			sb.WriteByte('\\')
			sb.WriteByte(b)
		case b < ' ' || b > '~':
			sb.WriteByte('\\')
			sb.WriteByte('0' + b/100)
			sb.WriteByte('0' + b/10%10)
			sb.WriteByte('0' + b%10)
		default:
			sb.WriteByte(b)
		}
	}
	return sb.String()
}

func (r *Rng) Label(maxLen int, exotic bool) []byte {
	n := 1 + r.Intn(maxLen)
	switch r.Intn(12) {
	case 0:
		n = 63
	case 1:
		n = 1
	}
	if n > maxLen {
		n = maxLen
	}
	alpha := "abcdefghijklmnopqrstuvwxyzABCDEFGHIJKLMNOPQRSTUVWXYZ0123456789-_"
	l := make([]byte, n)
	for i := range l {
		if exotic && r.Intn(6) == 0 {
			ex := []byte{'.', '\\', ' ', '"', ';', '(', ')', '@', '\'', '$', 0, 9, 10, 127, 200, 255}
			l[i] = ex[r.Intn(len(ex))]
		} else {
			l[i] = alpha[r.Intn(len(alpha))]
		}
	}
	return l
}

func flipCase(s string, r *Rng) string {
	b := []byte(s)
	for i := range b {
		if (b[i] >= 'a' && b[i] <= 'z' || b[i] >= 'A' && b[i] <= 'Z') && r.Intn(2) == 0 {
			// do not touch letters that are part of an escape (\x): keep it simple, only flip when not preceded by a backslash
			if i > 0 && b[i-1] == '\\' {
				continue
			}
			b[i] ^= 0x20
		}
	}
	return string(b)
}

// Name returns a valid fully-qualified presentation name.
func (p *NamePool) Name() string {
	r := p.R
	if len(p.Names) > 0 {
		switch r.Intn(10) {
		case 0, 1, 2: // reuse exactly
			return p.Names[r.Intn(len(p.Names))]
		case 3, 4, 5: // new labels in front of an existing name
			base := p.Names[r.Intn(len(p.Names))]
			if base == "." {
				base = ""
			}
			n := ShowLabel(r.Label(12, r.Intn(5) == 0)) + "." + base
			if _, ok := dns.IsDomainName(n); ok {
				p.Names = append(p.Names, n)
				return n
			}
		case 6: // same name, different case
			n := flipCase(p.Names[r.Intn(len(p.Names))], r)
			if _, ok := dns.IsDomainName(n); ok {
				return n
			}
		case 7: // a suffix of an existing name
			base := p.Names[r.Intn(len(p.Names))]
			idx := dns.Split(base)
			if len(idx) > 1 {
				return base[idx[1+r.Intn(len(idx)-1)]:]
			}
		}
	}
	if r.Intn(25) == 0 {
		return "."
	}
	nl := 1 + r.Intn(4)
	var sb strings.Builder
	tot := 1
	for i := 0; i < nl; i++ {
		l := r.Label(20, r.Intn(6) == 0)
		if tot+len(l)+1 > 255 {
			break
		}
		tot += len(l) + 1
		sb.WriteString(ShowLabel(l))
		sb.WriteByte('.')
	}
	n := sb.String()
	if n == "" {
		n = "."
	}
	p.Names = append(p.Names, n)
	return n
}

// LongName returns a valid name whose wire length is exactly total (<= 255).
func (p *NamePool) LongName(total int) string {
	rem := total - 1
	var sb strings.Builder
	for rem > 0 {
		l := 63
		if rem-1 < l {
			l = rem - 1
		}
		if l == 0 {
			break
		}
		lab := make([]byte, l)
		for i := range lab {
			lab[i] = byte('a' + p.R.Intn(26))
		}
		sb.Write(lab)
		sb.WriteByte('.')
		rem -= l + 1
	}
	return sb.String()
}

func (r *Rng) u(bits int) uint64 {
	max := uint64(1)<<uint(bits) - 1
	if bits == 64 {
		max = ^uint64(0)
	}
	switch r.Intn(8) {
	case 0:
		return 0
	case 1:
		return max
	case 2:
		return 1
	case 3:
		return max - 1
	}
	return r.Next() & max
}

// ShowTxt is the canonical presentation of a character-string (what unpackString prints).
func ShowTxt(b []byte) string {
	var sb strings.Builder
	for _, c := range b {
		switch {
		case c == '"' || c == '\\':
			sb.WriteByte('\\')
			sb.WriteByte(c)
		case c < ' ' || c > '~':
			sb.WriteByte('\\')
			sb.WriteByte('0' + c/100)
			sb.WriteByte('0' + c/10%10)
			sb.WriteByte('0' + c%10)
		default:
			sb.WriteByte(c)
		}
	}
	return sb.String()
}

func (r *Rng) strBytes(maxLen int) []byte {
	n := r.Intn(maxLen + 1)
	switch r.Intn(10) {
	case 0:
		n = 0
	case 1:
		n = maxLen
	case 2:
		n = 1
	}
	if r.Intn(16) == 0 { // the longest presentation form: maxLen octets that all need a \DDD escape
		b := make([]byte, maxLen)
		for i := range b {
			b[i] = []byte{0xff, 0x00, 0x80, 0x1f, 0x7f}[r.Intn(5)]
		}
		return b
	}
	b := make([]byte, n)
	plain := "abcXYZ019 -_./:"
	mode := r.Intn(3)
	for i := range b {
		switch {
		case mode == 0:
			b[i] = plain[r.Intn(len(plain))]
		case mode == 1 && r.Intn(4) == 0:
			ex := []byte{'"', '\\', ';', '(', ')', ' ', '\t', '\n', 0, 127, 128, 255, '\''}
			b[i] = ex[r.Intn(len(ex))]
		case mode == 2:
			b[i] = byte(r.Next())
		default:
			b[i] = plain[r.Intn(len(plain))]
		}
	}
	return b
}

// GenInfo says whether the generated record is in the round-trip domain.
type GenInfo struct {
	WellFormed bool   // canonical texts, consistent size fields, integers in range
	Note       string // why not
}

func genOptions(r *Rng) []dns.EDNS0 {
	n := r.Intn(4)
	var out []dns.EDNS0
	for i := 0; i < n; i++ {
		switch r.Intn(16) {
		case 0:
			out = append(out, &dns.EDNS0_NSID{Code: dns.EDNS0NSID, Nsid: hex.EncodeToString(r.strBytes(20))})
		case 1:
			fam := uint16(1 + r.Intn(2))
			mask := uint8(r.Intn(33))
			ip := net.IP(r.Bytes(4))
			if fam == 2 {
				mask = uint8(r.Intn(129))
				ip = net.IP(r.Bytes(16))
				ip[0] = 0x20 // make sure it is not a v4-mapped address
			}
			// canonical: address already masked
			if fam == 1 {
				ip = ip.Mask(net.CIDRMask(int(mask), 32)).To16()
			} else {
				ip = ip.Mask(net.CIDRMask(int(mask), 128))
			}
			out = append(out, &dns.EDNS0_SUBNET{Code: dns.EDNS0SUBNET, Family: fam, SourceNetmask: mask, SourceScope: uint8(r.Intn(int(mask) + 1)), Address: ip})
		case 2:
			l := 8
			if r.Bool() {
				l = 16 + r.Intn(17)
			}
			out = append(out, &dns.EDNS0_COOKIE{Code: dns.EDNS0COOKIE, Cookie: hex.EncodeToString(r.Bytes(l))})
		case 3:
			out = append(out, &dns.EDNS0_UL{Code: dns.EDNS0UL, Lease: uint32(r.u(32)), KeyLease: uint32(1 + r.Intn(1000))})
		case 4:
			out = append(out, &dns.EDNS0_LLQ{Code: dns.EDNS0LLQ, Version: uint16(r.u(16)), Opcode: uint16(r.u(16)), Error: uint16(r.u(16)), Id: r.u(64), LeaseLife: uint32(r.u(32))})
		case 5:
			out = append(out, &dns.EDNS0_DAU{Code: dns.EDNS0DAU, AlgCode: r.Bytes(1 + r.Intn(5))})
		case 6:
			out = append(out, &dns.EDNS0_DHU{Code: dns.EDNS0DHU, AlgCode: r.Bytes(1 + r.Intn(5))})
		case 7:
			out = append(out, &dns.EDNS0_N3U{Code: dns.EDNS0N3U, AlgCode: r.Bytes(1 + r.Intn(5))})
		case 8:
			if r.Bool() {
				out = append(out, &dns.EDNS0_EXPIRE{Code: dns.EDNS0EXPIRE, Expire: uint32(r.u(32))})
			} else {
				out = append(out, &dns.EDNS0_EXPIRE{Code: dns.EDNS0EXPIRE, Empty: true})
			}
		case 9:
			out = append(out, &dns.EDNS0_LOCAL{Code: uint16(65001 + r.Intn(500)), Data: r.Bytes(1 + r.Intn(30))})
		case 10:
			out = append(out, &dns.EDNS0_TCP_KEEPALIVE{Code: dns.EDNS0TCPKEEPALIVE, Timeout: uint16(1 + r.Intn(65535))})
		case 11:
			out = append(out, &dns.EDNS0_PADDING{Padding: r.Bytes(1 + r.Intn(40))})
		case 12:
			out = append(out, &dns.EDNS0_EDE{InfoCode: uint16(r.u(16)), ExtraText: string(r.strBytes(30))})
		case 13:
			out = append(out, &dns.EDNS0_ESU{Code: dns.EDNS0ESU, Uri: "sip:+" + string(r.strBytes(12))})
		case 14:
			out = append(out, &dns.EDNS0_LOCAL{Code: uint16(20 + r.Intn(40000)), Data: r.Bytes(r.Intn(10) + 1)})
		default:
			out = append(out, &dns.EDNS0_LOCAL{Code: uint16(65001 + r.Intn(500)), Data: r.Bytes(1 + r.Intn(300))})
		}
	}
	return out
}

func genSVCB(r *Rng) []dns.SVCBKeyValue {
	n := r.Intn(5)
	seen := map[dns.SVCBKey]bool{}
	var out []dns.SVCBKeyValue
	for i := 0; i < n; i++ {
		var kv dns.SVCBKeyValue
		switch r.Intn(9) {
		case 0:
			kv = &dns.SVCBAlpn{Alpn: []string{"h2", "h3-" + string('a'+byte(r.Intn(26)))}}
		case 1:
			kv = &dns.SVCBNoDefaultAlpn{}
		case 2:
			kv = &dns.SVCBPort{Port: uint16(r.u(16))}
		case 3:
			k := 1 + r.Intn(3)
			var ips []net.IP
			for j := 0; j < k; j++ {
				ips = append(ips, net.IP(r.Bytes(4)))
			}
			kv = &dns.SVCBIPv4Hint{Hint: ips}
		case 4:
			kv = &dns.SVCBECHConfig{ECH: r.Bytes(1 + r.Intn(40))}
		case 5:
			k := 1 + r.Intn(3)
			var ips []net.IP
			for j := 0; j < k; j++ {
				ip := net.IP(r.Bytes(16))
				ip[0] = 0x20
				ips = append(ips, ip)
			}
			kv = &dns.SVCBIPv6Hint{Hint: ips}
		case 6:
			kv = &dns.SVCBDoHPath{Template: "/dns-query{?dns}" + string('a'+byte(r.Intn(26)))}
		case 7:
			kv = &dns.SVCBLocal{KeyCode: dns.SVCBKey(65280 + r.Intn(200)), Data: r.Bytes(r.Intn(20))}
		default:
			kv = &dns.SVCBLocal{KeyCode: dns.SVCBKey(10 + r.Intn(60000)), Data: r.Bytes(r.Intn(20))}
		}
		if seen[kv.Key()] {
			continue
		}
		seen[kv.Key()] = true
		out = append(out, kv)
	}
	// mandatory must list keys that are present (not itself); keep it simple: sometimes add it
	if len(out) > 0 && r.Intn(4) == 0 && !seen[dns.SVCB_MANDATORY] {
		var ks []dns.SVCBKey
		for _, kv := range out {
			ks = append(ks, kv.Key())
		}
		sort.Slice(ks, func(i, j int) bool { return ks[i] < ks[j] })
		out = append(out, &dns.SVCBMandatory{Code: ks})
	}
	// canonical order (packDataSVCB sorts, so an unsorted list is not in the round-trip domain)
	sort.Slice(out, func(i, j int) bool { return out[i].Key() < out[j].Key() })
	return out
}

func genAPL(r *Rng) []dns.APLPrefix {
	n := r.Intn(4)
	var out []dns.APLPrefix
	for i := 0; i < n; i++ {
		if r.Bool() {
			p := r.Intn(33)
			ip := net.IP(r.Bytes(4)).Mask(net.CIDRMask(p, 32))
			out = append(out, dns.APLPrefix{Negation: r.Bool(), Network: net.IPNet{IP: ip, Mask: net.CIDRMask(p, 32)}})
		} else {
			p := r.Intn(129)
			ip := net.IP(r.Bytes(16)).Mask(net.CIDRMask(p, 128))
			out = append(out, dns.APLPrefix{Negation: r.Bool(), Network: net.IPNet{IP: ip, Mask: net.CIDRMask(p, 128)}})
		}
	}
	return out
}

func genBitmap(r *Rng) []uint16 {
	n := r.Intn(8)
	m := map[uint16]bool{}
	for i := 0; i < n; i++ {
		switch r.Intn(4) {
		case 0:
			m[uint16(r.Intn(60))] = true
		case 1:
			m[uint16(250+r.Intn(20))] = true
		case 2:
			m[uint16(r.u(16))] = true
		default:
			m[uint16(r.Intn(65536))] = true
		}
	}
	var out []uint16
	for k := range m {
		out = append(out, k)
	}
	sort.Slice(out, func(i, j int) bool { return out[i] < out[j] })
	return out
}

// GenRR builds a record of the given type with random, boundary-biased field
// values.  messy=false keeps it in the round-trip domain (well-formed, canonical).
func GenRR(r *Rng, p *NamePool, typ uint16, messy bool) (dns.RR, GenInfo) {
	info := GenInfo{WellFormed: true}
	newFn, ok := dns.TypeToRR[typ]
	if !ok {
		rr := &dns.RFC3597{Hdr: dns.RR_Header{Name: p.Name(), Rrtype: typ, Class: uint16(r.u(16)), Ttl: uint32(r.u(32))}, Rdata: hex.EncodeToString(r.strBytes(40))}
		return rr, info
	}
	rr := newFn()
	h := rr.Header()
	h.Name = p.Name()
	h.Rrtype = typ
	h.Class = dns.ClassINET
	if r.Intn(5) == 0 {
		h.Class = uint16(r.u(16))
	}
	h.Ttl = uint32(r.u(32))
	v := Flatten(reflect.ValueOf(rr).Elem())
	t := v.Type()
	sized := map[string]int{} // size field name -> length it must announce
	for i := 0; i < t.NumField(); i++ {
		f := t.Field(i)
		if f.Name == "Hdr" {
			continue
		}
		tag := f.Tag.Get("dns")
		fv := v.Field(i)
		switch f.Type.Kind() {
		case reflect.Uint8:
			fv.SetUint(r.u(8))
		case reflect.Uint16:
			fv.SetUint(r.u(16))
		case reflect.Uint32:
			fv.SetUint(r.u(32))
		case reflect.Uint64:
			if tag == "uint48" {
				fv.SetUint(r.u(48))
			} else {
				fv.SetUint(r.u(64))
			}
		case reflect.String:
			switch {
			case tag == "domain-name" || tag == "cdomain-name":
				fv.SetString(p.Name())
			case tag == "hex" || strings.HasPrefix(tag, "size-hex"):
				b := r.strBytes(40)
				if tag == "hex" && len(b) == 0 && typ != dns.TypeNSEC3PARAM {
					b = []byte{byte(r.Next())}
				}
				fv.SetString(hex.EncodeToString(b))
				if strings.HasPrefix(tag, "size-hex:") {
					sized[tag[9:]] = len(b)
				}
			case tag == "base64" || strings.HasPrefix(tag, "size-base64"):
				b := r.strBytes(60)
				if len(b) == 0 {
					b = []byte{1}
				}
				fv.SetString(base64.StdEncoding.EncodeToString(b))
				if strings.HasPrefix(tag, "size-base64:") {
					sized[tag[12:]] = len(b)
				}
			case strings.HasPrefix(tag, "size-base32"):
				b := r.Bytes(1 + r.Intn(32))
				fv.SetString(b32.EncodeToString(b))
				sized[tag[12:]] = len(b)
			case tag == "octet":
				// raw octets; a backslash would be read as an escape by the packer
				b := r.strBytes(60)
				fv.SetString(strings.ReplaceAll(string(b), "\\", "/"))
			case tag == "any":
				fv.SetString(string(r.strBytes(60)))
			case tag == "ipsechost" || tag == "amtrelayhost":
				// set together with the gateway type below
			default:
				fv.SetString(ShowTxt(r.strBytes(255)))
			}
		case reflect.Slice:
			switch {
			case f.Type == reflect.TypeOf(net.IP{}):
				if tag == "a" {
					fv.Set(reflect.ValueOf(net.IP(r.Bytes(4))))
				} else if tag == "aaaa" {
					fv.Set(reflect.ValueOf(net.IP(r.Bytes(16))))
				}
			case tag == "txt":
				n := 1 + r.Intn(3)
				var ss []string
				for j := 0; j < n; j++ {
					ss = append(ss, ShowTxt(r.strBytes(255)))
				}
				fv.Set(reflect.ValueOf(ss))
			case tag == "domain-name": // HIP rendezvous servers
				n := r.Intn(3)
				var ss []string
				for j := 0; j < n; j++ {
					ss = append(ss, p.Name())
				}
				fv.Set(reflect.ValueOf(ss))
			case tag == "nsec":
				fv.Set(reflect.ValueOf(genBitmap(r)))
			case tag == "opt":
				fv.Set(reflect.ValueOf(genOptions(r)))
			case tag == "pairs":
				fv.Set(reflect.ValueOf(genSVCB(r)))
			case tag == "apl":
				fv.Set(reflect.ValueOf(genAPL(r)))
			}
		}
	}
	for name, n := range sized {
		fv := v.FieldByName(name)
		if fv.IsValid() {
			if messy && r.Intn(4) == 0 {
				fv.SetUint(uint64(n + 1 + r.Intn(3)))
				info.WellFormed = false
				info.Note = "size field does not match"
			} else {
				fv.SetUint(uint64(n))
			}
		}
	}
	// gateway records
	switch x := rr.(type) {
	case *dns.IPSECKEY:
		x.GatewayType = uint8(r.Intn(4))
		setGateway(r, p, x.GatewayType, &x.GatewayAddr, &x.GatewayHost)
	case *dns.AMTRELAY:
		x.GatewayType = uint8(r.Intn(4))
		if r.Intn(3) == 0 {
			x.GatewayType |= 0x80 // discovery-optional bit (RFC 8777)
		}
		setGateway(r, p, x.GatewayType&0x7f, &x.GatewayAddr, &x.GatewayHost)
	case *dns.OPT:
		x.Hdr.Name = "."
		x.Hdr.Class = uint16(512 + r.Intn(4000))
	case *dns.NSEC3:
		if x.SaltLength == 0 && r.Bool() {
			x.Salt = "" // the parser's spelling of an empty salt is "-"; unpack gives ""
		}
	case *dns.LOC:
		x.Version = 0
	}
	if messy && r.Intn(3) == 0 {
		messUp(r, rr, &info)
	}
	if x, ok := rr.(*dns.SVCB); ok && messy && len(x.Value) > 1 && r.Bool() {
		x.Value[0], x.Value[len(x.Value)-1] = x.Value[len(x.Value)-1], x.Value[0]
		info.WellFormed = false
		info.Note = "SVCB keys not in increasing order"
	}
	return rr, info
}

func setGateway(r *Rng, p *NamePool, ty uint8, addr *net.IP, host *string) {
	*addr = nil
	*host = ""
	switch ty {
	case 1:
		*addr = net.IP(r.Bytes(4))
	case 2:
		*addr = net.IP(r.Bytes(16))
	case 3:
		*host = p.Name()
	}
}

// messUp makes a record ill-formed or non-canonical in one way.
func messUp(r *Rng, rr dns.RR, info *GenInfo) {
	v := Flatten(reflect.ValueOf(rr).Elem())
	t := v.Type()
	var idx []int
	for i := 0; i < t.NumField(); i++ {
		if t.Field(i).Name != "Hdr" && t.Field(i).Type.Kind() == reflect.String {
			idx = append(idx, i)
		}
	}
	if len(idx) == 0 {
		return
	}
	i := idx[r.Intn(len(idx))]
	tag := t.Field(i).Tag.Get("dns")
	s := v.Field(i).String()
	switch {
	case strings.Contains(tag, "hex"):
		switch r.Intn(3) {
		case 0:
			s = strings.ToUpper(s)
			info.Note = "upper-case hex"
		case 1:
			s += "0"
			info.Note = "odd hex"
		default:
			s += "zz"
			info.Note = "bad hex"
		}
	case strings.Contains(tag, "base64"):
		s = strings.TrimRight(s, "=")
		info.Note = "unpadded base64"
	case strings.Contains(tag, "domain-name"):
		switch r.Intn(3) {
		case 0:
			s = strings.TrimSuffix(s, ".")
			info.Note = "name not fully qualified"
		case 1:
			s = "a\\b" + s
			info.Note = "non-canonical escape"
		default:
			s = strings.Repeat("x", 64) + "." + s
			info.Note = "label too long"
		}
	case tag == "":
		switch r.Intn(3) {
		case 0:
			s += "\\a\\098"
			info.Note = "non-canonical escape in character-string"
		case 1:
			s = strings.Repeat("y", 256)
			info.Note = "character-string of 256 octets"
		default:
			s += "\\"
			info.Note = "dangling backslash"
		}
	default:
		return
	}
	v.Field(i).SetString(s)
	info.WellFormed = false
}

// AllTypes returns the registered type codes in increasing order.
func AllTypes() []uint16 {
	var ts []uint16
	for t := range dns.TypeToRR {
		ts = append(ts, t)
	}
	sort.Slice(ts, func(i, j int) bool { return ts[i] < ts[j] })
	return ts
}

// GenMsg builds a message with nq questions and the given section sizes.
func GenMsg(r *Rng, p *NamePool, types []uint16, nq, na, nn, ne int, withOpt bool, messy bool) (*dns.Msg, bool) {
	m := new(dns.Msg)
	wf := true
	m.Id = uint16(r.u(16))
	m.Response = r.Bool()
	m.Opcode = r.Intn(16)
	m.Authoritative = r.Bool()
	m.Truncated = r.Intn(8) == 0
	m.RecursionDesired = r.Bool()
	m.RecursionAvailable = r.Bool()
	m.Zero = r.Intn(8) == 0
	m.AuthenticatedData = r.Bool()
	m.CheckingDisabled = r.Bool()
	m.Rcode = r.Intn(16)
	m.Compress = r.Bool()
	for i := 0; i < nq; i++ {
		m.Question = append(m.Question, dns.Question{Name: p.Name(), Qtype: types[r.Intn(len(types))], Qclass: uint16(1 + r.Intn(4))})
	}
	add := func(n int, dst *[]dns.RR) {
		for i := 0; i < n; i++ {
			t := types[r.Intn(len(types))]
			if t == dns.TypeOPT || t == dns.TypeTSIG {
				t = dns.TypeA
			}
			rr, info := GenRR(r, p, t, messy)
			wf = wf && info.WellFormed
			*dst = append(*dst, rr)
		}
	}
	add(na, &m.Answer)
	add(nn, &m.Ns)
	add(ne, &m.Extra)
	if withOpt {
		o, info := GenRR(r, p, dns.TypeOPT, messy)
		wf = wf && info.WellFormed
		pos := r.Intn(len(m.Extra) + 1)
		m.Extra = append(m.Extra[:pos], append([]dns.RR{o}, m.Extra[pos:]...)...)
		if r.Intn(3) == 0 {
			m.Rcode = r.Intn(4096)
		}
	}
	return m, wf
}
