(* Proofs/DecodeNameProofs.v — UnpackDomainName on ARBITRARY octets: it never
   panics, always terminates within a fixed number of iterations whatever the
   pointers claim, and whatever it accepts is the presentation form of a valid
   wire name (labels 1..63, at most 255 octets). *)
From Dns Require Import Base.ListX Model.NameWire Proofs.EscapeProofs Proofs.LabelsProofs
  Proofs.NameWireProofs Proofs.NameRoundtripProofs.
From Coq Require Import Lia ZifyN ZifyNat ZifyBool.
Open Scope N_scope.

(* no Go panic: every index is guarded *)
Lemma un_go_no_panic fuel : forall msg off s off1 budget ptr,
  un_go fuel msg off s off1 budget ptr <> Panic.
Proof.
  induction fuel as [|f IH]; intros msg off s off1 budget ptr; cbn [un_go]; [discriminate|].
  destruct (lenN msg <=? off); [discriminate|].
  destruct (nthN msg off 0 <? 64).
  - destruct (nthN msg off 0 =? 0); [discriminate|].
    destruct (lenN msg <? off + 1 + nthN msg off 0); [discriminate|].
    destruct (_ <=? 0)%Z; [discriminate|]. apply IH.
  - destruct (192 <=? nthN msg off 0); [|discriminate].
    destruct (lenN msg <=? off + 1); [discriminate|].
    destruct (max_pointers <? ptr + 1); [discriminate|]. apply IH.
Qed.

(* termination: each iteration either spends at least two octets of the 255-octet
   budget or one of the 127 pointer hops *)
Lemma un_go_fuel fuel : forall msg off s off1 budget ptr,
  (0 <= budget)%Z -> ptr <= max_pointers ->
  (Z.to_nat budget + 2 * N.to_nat (max_pointers + 1 - ptr) < 2 * fuel)%nat ->
  un_go fuel msg off s off1 budget ptr <> OutOfFuel.
Proof.
  induction fuel as [|f IH]; intros msg off s off1 budget ptr Hb Hp Hf; [lia|]. cbn [un_go].
  destruct (lenN msg <=? off); [discriminate|].
  destruct (nthN msg off 0 <? 64) eqn:H64.
  - destruct (nthN msg off 0 =? 0) eqn:H0; [discriminate|].
    destruct (lenN msg <? off + 1 + nthN msg off 0); [discriminate|].
    destruct (_ <=? 0)%Z eqn:Hbud; [discriminate|].
    apply IH; unfold max_pointers in *; lia.
  - destruct (192 <=? nthN msg off 0); [|discriminate].
    destruct (lenN msg <=? off + 1); [discriminate|].
    destruct (max_pointers <? ptr + 1) eqn:Hmp; [discriminate|].
    apply IH; unfold max_pointers in *; lia.
Qed.

Theorem unpack_name_total msg off :
  unpack_name msg off <> Panic /\ unpack_name msg off <> OutOfFuel.
Proof.
  unfold unpack_name. split; [apply un_go_no_panic|].
  apply un_go_fuel; unfold max_name_wire, max_pointers, unpack_name_fuel; cbn; lia.
Qed.

Lemma wire_labels_snoc ls l : wire_labels (ls ++ [l]) = wire_labels ls ++ lenN l :: l.
Proof. unfold wire_labels. rewrite flat_map_app. cbn. now rewrite app_nil_r. Qed.

Lemma wfb_wfbb l : wfb l -> wfbb l = true.
Proof.
  unfold wfb, wfbb. intro H. apply forallb_forall. rewrite Forall_forall in H. intros b Hb. specialize (H b Hb). lia.
Qed.

(* what is accepted: the text of the labels collected so far, within budget *)
Lemma un_go_valid fuel : forall msg off s off1 budget ptr ls r,
  wfb msg ->
  s = show_labels ls -> labels_ok ls = true ->
  (budget = 255 - Z.of_N (lenN (wire_labels ls)))%Z -> (0 < budget)%Z ->
  (ptr = 0 \/ off1 <= lenN msg) ->
  un_go fuel msg off s off1 budget ptr = Ok r ->
  exists ls', valid_wire ls' = true /\ fst r = show_name ls' /\ snd r <= lenN msg.
Proof.
  induction fuel as [|f IH]; intros msg off s off1 budget ptr ls r Hm Hs Hok Hb Hpos Hoff1 H; [discriminate|].
  cbn [un_go] in H.
  destruct (lenN msg <=? off) eqn:Hlen; [discriminate|].
  destruct (nthN msg off 0 <? 64) eqn:H64.
  - destruct (nthN msg off 0 =? 0) eqn:H0.
    + injection H as <-. exists ls. cbn [fst snd]. split; [|split].
      * unfold valid_wire. rewrite Hok. cbn. unfold wire_len, wire_name. rewrite lenN_app. cbn. lia.
      * subst s. unfold show_name. destruct ls as [|l ls]; [reflexivity|].
        pose proof (show_labels_nonempty l ls) as Hn. destruct (show_labels (l :: ls)); [congruence|reflexivity].
      * destruct (ptr =? 0) eqn:Hp0; [lia|]. destruct Hoff1; lia.
    + destruct (lenN msg <? off + 1 + nthN msg off 0) eqn:Hov; [discriminate|].
      destruct (_ <=? 0)%Z eqn:Hbud; [discriminate|].
      set (c := nthN msg off 0) in *.
      set (lab := takeN c (dropN (off + 1) msg)) in *.
      assert (Hlablen : lenN lab = c).
      { unfold lab, takeN, dropN, lenN. rewrite firstn_length, skipn_length. unfold lenN in *. lia. }
      assert (Hw : wfbb lab = true).
      { apply wfb_wfbb. unfold lab, takeN, dropN. apply Forall_firstn', Forall_skipn', Hm. }
      eapply (IH msg (off + 1 + c) _ off1 _ ptr (ls ++ [lab])); [exact Hm| | | | | |exact H].
      * subst s. rewrite show_labels_app. cbn [show_labels flat_map]. now rewrite app_nil_r.
      * unfold labels_ok in *. rewrite forallb_app, Hok. cbn. unfold label_ok. rewrite Hlablen, Hw. lia.
      * rewrite wire_labels_snoc, lenN_app, lenN_cons, Hlablen. clearbody c lab. lia.
      * lia.
      * exact Hoff1.
  - destruct (192 <=? nthN msg off 0); [|discriminate].
    destruct (lenN msg <=? off + 1) eqn:Hl2; [discriminate|].
    destruct (max_pointers <? ptr + 1); [discriminate|].
    eapply (IH msg _ s _ budget (ptr + 1) ls); [exact Hm|exact Hs|exact Hok|exact Hb|exact Hpos| |exact H].
    right. destruct (ptr =? 0) eqn:E; [lia|]. destruct Hoff1; lia.
Qed.

(* keep the kernel from unfolding the 400-step recursion when it re-checks the proof *)
Local Opaque un_go.
Local Strategy opaque [unpack_name_fuel].

(* every name UnpackDomainName accepts respects the 63/255 limits, and the
   returned offset lies inside the message *)
Theorem unpack_name_accepts_only_valid msg off r :
  wfb msg -> unpack_name msg off = Ok r ->
  exists ls, valid_wire ls = true /\ fst r = show_name ls /\ snd r <= lenN msg.
Proof.
  intros Hm H. unfold unpack_name in H.
  eapply (un_go_valid unpack_name_fuel msg off [] 0 _ 0 []); [exact Hm|reflexivity|reflexivity| | | |exact H].
  - unfold max_name_wire. cbn. lia.
  - unfold max_name_wire. lia.
  - now left.
Qed.
