(* Props/C09.v — property C09: Truncate keeps section prefixes and the OPT record,
   sets TC exactly when a record was dropped (or it was set), leaves fitting
   messages and TSIG-signed messages alone.  Only statements; proofs in
   Proofs/TruncateProofs.v.

   [truncate m size] models Msg.Truncate; [msg_len_with m None] is the
   uncompressed length Len() predicts; [pop_edns0] is the removal of the last OPT
   record of the additional section; [has_tsig] is IsTsig() != nil.
   The clause "the packed message fits in max(size, 512)" rests on C08's
   Len() >= len(Pack()) and is stated there (see docs). *)
From Dns Require Import Model.Truncate Proofs.TruncateProofs Gen.Consts.
Open Scope N_scope.

(* a message with a TSIG record is left untouched *)
Theorem tsig_message_untouched :
  forall (m : msg) (size : Z), has_tsig m = true -> truncate m size = m.
Proof. exact truncate_tsig. Qed.

(* a message that already fits (uncompressed) keeps all its records, its TC bit,
   and is marked as not needing compression *)
Theorem fitting_message_keeps_everything :
  forall (m : msg) (size : Z),
    has_tsig m = false ->
    (Z.of_N (msg_len_with m None) <= Z.max size (Z.of_N c_MinMsgSize))%Z ->
    truncate m size = set_sections m (m_tc m) false (m_answer m) (m_ns m) (m_extra m).
Proof. exact truncate_fits. Qed.

(* otherwise: each section keeps a prefix (na, nn, ne records) in the original
   order, the OPT record (if any) is re-appended, compression is switched on, TC
   is set exactly when it was set or some section lost a record, and nothing of a
   later section is kept once an earlier section lost a record *)
Theorem truncation_keeps_prefixes_sets_tc_and_drops_later_sections :
  forall (m : msg) (size : Z),
    has_tsig m = false ->
    (Z.max size (Z.of_N c_MinMsgSize) < Z.of_N (msg_len_with m None))%Z ->
    exists na nn ne,
      let extra := snd (pop_edns0 (m_extra m)) in
      let opt := fst (pop_edns0 (m_extra m)) in
      truncate m size =
        set_sections m (m_tc m || Nat.ltb na (length (m_answer m)) || Nat.ltb nn (length (m_ns m))
                        || Nat.ltb ne (length extra))
                     true (firstn na (m_answer m)) (firstn nn (m_ns m))
                     (firstn ne extra ++ match opt with Some o => [o] | None => [] end) /\
      (na <= length (m_answer m))%nat /\ (nn <= length (m_ns m))%nat /\ (ne <= length extra)%nat /\
      ((na < length (m_answer m))%nat -> nn = 0%nat /\ ne = 0%nat) /\
      ((nn < length (m_ns m))%nat -> ne = 0%nat).
Proof. exact truncate_drop. Qed.

(* the OPT record set aside is the last OPT of the additional section and the
   remaining records keep their order *)
Theorem opt_record_is_set_aside_in_order :
  forall ex : list rr,
    (pop_edns0 ex = (None, ex) /\ forallb (fun r => negb (is_opt r)) ex = true) \/
    (exists pre o post, ex = pre ++ o :: post /\ is_opt o = true /\
                        forallb (fun r => negb (is_opt r)) post = true /\
                        pop_edns0 ex = (Some o, pre ++ post)).
Proof. exact pop_edns0_spec. Qed.


(* ---------------- the truncated message fits ---------------- *)
(* (proofs in Proofs/TruncateFitProofs.v, on top of C08's Len() >= len(Pack()))

   [msg_len] is Msg.Len() under the message's own compression setting;
   [trunc_size size] = max(size, MinMsgSize);
   [set_aside m] is the OPT record popEdns0 removes, [set_aside_ok m] asks of it
   that its len() walks no name but the owner's (true of the kind OPT) and that
   the owner name has no label start that is a lone backslash (true of the root);
   [fixed_part m] is what Truncate cannot drop: header + question section
   (measured with the compression set, as Truncate does) + Len(OPT). *)
From Dns Require Import Proofs.LenFieldProofs Proofs.LenMsgProofs Proofs.LenCompressMsgProofs Proofs.TruncateFitProofs.
Open Scope list_scope.

(* the length truncateLoop accumulates IS the Len() of what Truncate leaves:
   same folds over the kept prefixes, same offsets, same suffix set; the OPT is
   budgeted by its uncompressed Len, which its Len at the real offset never
   exceeds.  Hence Len() of the result is at most max(size, 512) — or the fixed
   part, when that alone is larger *)
Theorem truncated_len_is_bounded :
  forall (m : msg) (size : Z),
    has_tsig m = false -> set_aside_ok m = true ->
    (Z.of_N (msg_len (truncate m size)) <= Z.max (trunc_size size) (fixed_part m))%Z.
Proof. exact truncate_len_bound. Qed.
Print Assumptions truncated_len_is_bounded.

Theorem truncated_len_fits :
  forall (m : msg) (size : Z),
    has_tsig m = false -> set_aside_ok m = true -> (fixed_part m <= trunc_size size)%Z ->
    (Z.of_N (msg_len (truncate m size)) <= trunc_size size)%Z.
Proof. exact truncate_len_fits. Qed.
Print Assumptions truncated_len_fits.

(* the clause of C09: the packed message fits in max(size, 512)
   ([msg_okb2]: see Props/C08.v) *)
Theorem truncated_message_fits_when_packed :
  forall (m : msg) (size : Z) (w : bytes),
    has_tsig m = false -> set_aside_ok m = true -> (fixed_part m <= trunc_size size)%Z ->
    msg_okb2 (truncate m size) = true -> pack_msg (truncate m size) = Ok w ->
    (Z.of_N (lenN w) <= trunc_size size)%Z.
Proof. exact truncated_message_fits. Qed.
Print Assumptions truncated_message_fits_when_packed.

Theorem truncated_message_is_bounded_when_packed :
  forall (m : msg) (size : Z) (w : bytes),
    has_tsig m = false -> set_aside_ok m = true ->
    msg_okb2 (truncate m size) = true -> pack_msg (truncate m size) = Ok w ->
    (Z.of_N (lenN w) <= Z.max (trunc_size size) (fixed_part m))%Z.
Proof. exact truncated_message_bound. Qed.
Print Assumptions truncated_message_is_bounded_when_packed.

(* the hypothesis on the fixed part cannot be dropped: a question plus an OPT
   record with 500 octets of padding is 544 octets; Truncate(512) removes every
   answer and the message still measures and packs to 544 *)
Theorem truncate_cannot_always_fit :
  has_tsig t_padded = false /\ set_aside_ok t_padded = true /\ msg_okb2 (truncate t_padded 512) = true /\
  m_answer (truncate t_padded 512) = [] /\ fixed_part t_padded = 544%Z /\
  msg_len (truncate t_padded 512) = 544 /\
  (exists w, pack_msg (truncate t_padded 512) = Ok w /\ lenN w = 544).
Proof. exact truncate_len_fits_refuted. Qed.
Print Assumptions truncate_cannot_always_fit.

(* nor the one on the OPT owner name: with a lone backslash after the last dot
   the compressed estimate of a name exceeds the plain one *)
Theorem compressed_name_estimate_can_exceed_plain :
  fst (domain_name_len [97; 46; 92] 0 (Some [[92]]) true) = 4 /\ name_est [97; 46; 92] = 3.
Proof. exact dnl_le_plain_refuted. Qed.
Print Assumptions compressed_name_estimate_can_exceed_plain.

(* non-vacuity: three 200-octet TXT answers and an OPT, Truncate(512): one answer
   is lost, TC is set, Len() drops from 722 to 474 and Pack gives 474 octets *)
Example ex_truncate_three_answers :
  has_tsig t_three = false /\ set_aside_ok t_three = true /\ (fixed_part t_three <= trunc_size 512)%Z /\
  msg_len t_three = 722 /\
  length (m_answer (truncate t_three 512)) = 2%nat /\ length (m_extra (truncate t_three 512)) = 1%nat /\
  m_tc (truncate t_three 512) = true /\ msg_len (truncate t_three 512) = 474 /\
  msg_okb2 (truncate t_three 512) = true /\
  (exists w, pack_msg (truncate t_three 512) = Ok w /\ lenN w = 474).
Proof. exact t_three_facts. Qed.
