(* Model/Truncate.v — msg_truncate.go: Msg.Truncate and truncateLoop, and
   defaults.go popEdns0 / IsTsig.  Definitions only. *)
From Dns Require Export Model.Msg.
From Dns Require Import Gen.Consts.
Open Scope N_scope.

Definition is_tsig (r : rr) : bool := rr_type r =? c_TypeTSIG.
(* IsTsig: the last record of the additional section is a TSIG *)
Definition has_tsig (m : msg) : bool :=
  match rev (m_extra m) with r :: _ => is_tsig r | [] => false end.

Fixpoint remove_nth {A} (l : list A) (i : nat) : list A :=
  match l, i with
  | [], _ => []
  | _ :: r, O => r
  | x :: r, S k => x :: remove_nth r k
  end.
(* popEdns0: remove and return the last OPT of the additional section *)
Definition pop_edns0 (ex : list rr) : option rr * list rr :=
  match last_opt_index ex O None with
  | Some i => (nth_error ex i, remove_nth ex i)
  | None => (None, ex)
  end.

(* truncateLoop(rrs, size, l, compression) = (l', number of records kept) *)
Fixpoint truncate_loop (rrs : list rr) (size : Z) (l : Z) (c : option lset) (i : nat) : Z * nat * option lset :=
  match rrs with
  | [] => (l, i, c)
  | r :: t =>
    let '(n, c') := len_rr r (Z.to_N l) c in
    let l' := (l + Z.of_N n)%Z in
    if (size <? l')%Z then (size, i, c')
    else if (l' =? size)%Z then (l', S i, c')
    else truncate_loop t size l' c' (S i)
  end.

Definition set_sections (m : msg) (tc compress : bool) (an ns ex : list rr) : msg :=
  {| m_id := m_id m; m_response := m_response m; m_opcode := m_opcode m; m_aa := m_aa m; m_tc := tc;
     m_rd := m_rd m; m_ra := m_ra m; m_z := m_z m; m_ad := m_ad m; m_cd := m_cd m; m_rcode := m_rcode m;
     m_compress := compress; m_question := m_question m; m_answer := an; m_ns := ns; m_extra := ex |}.

(* length of header and question section, filling the compression set *)
Definition questions_len (qs : list question) : N * option lset :=
  fold_left (fun (a : N * option lset) q => let '(n, c') := len_question q (fst a) (snd a) in (fst a + n, c'))
            qs (12, Some []).
(* if l < size { l, num = truncateLoop(section, size, l, compression) } *)
Definition trunc_section (rrs : list rr) (size : Z) (st : Z * option lset) : Z * nat * option lset :=
  if (fst st <? size)%Z then truncate_loop rrs size (fst st) (snd st) O else (fst st, O, snd st).

Definition truncate (m : msg) (size0 : Z) : msg :=
  if has_tsig m then m
  else
    let size := if (size0 <? Z.of_N c_MinMsgSize)%Z then Z.of_N c_MinMsgSize else size0 in
    let l := Z.of_N (msg_len_with m None) in
    if (l <=? size)%Z then set_sections m (m_tc m) false (m_answer m) (m_ns m) (m_extra m)
    else
      let '(opt, extra) := pop_edns0 (m_extra m) in
      let size := match opt with Some o => (size - Z.of_N (rr_len o))%Z | None => size end in
      let a := questions_len (m_question m) in
      let '(l, na, c) := trunc_section (m_answer m) size (Z.of_N (fst a), snd a) in
      let '(l, nn, c) := trunc_section (m_ns m) size (l, c) in
      let '(l, ne, c) := trunc_section extra size (l, c) in
      let tc := m_tc m || Nat.ltb na (length (m_answer m)) || Nat.ltb nn (length (m_ns m))
                || Nat.ltb ne (length extra) in
      let ex' := firstn ne extra ++ match opt with Some o => [o] | None => [] end in
      set_sections m tc true (firstn na (m_answer m)) (firstn nn (m_ns m)) ex'.
