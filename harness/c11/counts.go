package main

// C11, header-count boundaries. TsigGenerate raises ARCOUNT by one when it
// appends the TSIG record, stripTsig (TsigVerify) lowers it by one, and the MAC
// covers the message with the ORIGINAL counts. All of this is arithmetic on
// two-octet big-endian header fields, so the interesting messages are those
// whose section counts sit at and around a carry between the low and the high
// octet (255/256/257, 511/512/513, ... 256k-1/256k) and at the top of the
// range (65535). The random messages of main.go and session.go have at most a
// handful of records per section and never get there.
//
// The messages here carry hundreds to thousands of tiny records (root owner,
// 11..15 octets each) so that they stay below 64 KiB. For every vector of
// (answer, authority, additional) counts:
//   - the octets TsigGenerate returns are compared with those of an independent
//     RFC 8945 signer (header with ID := OrigId and ARCOUNT+1 computed here,
//     the body Pack() produced, a TSIG record whose MAC is crypto/hmac over the
//     digest of the message with its original counts);
//   - TsigVerify accepts them (and the independent signer's octets) under the
//     same key, request MAC and timers-only flag;
//   - stripTsig gives back the message with the original counts and it re-parses
//     into sections of the original sizes;
//   - every single-bit and every carry-shaped alteration of the header counts
//     (and every shift of a section boundary that keeps the framing valid) of
//     the signed octets fails to verify;
//   - model cases (generate, strip, digest, verify) for the vectors small
//     enough for Coq.
// The same messages are then pushed through the receive and send paths of
// Transfer, Conn, Client and Server (session.go machinery): requests with
// 254..257 additional records, replies and envelopes with boundary counts.

import (
	"bytes"
	"encoding/binary"
	"encoding/hex"
	"strings"
	"time"

	"github.com/miekg/dns"
	. "verif/harness/common"
)

type countVec struct{ an, ns, ar int }

func (v countVec) total() int { return v.an + v.ns + v.ar }

const (
	tinyPrivate = iota // private-use type, empty RDATA: 11 octets
	tinyTXT            // TXT with one empty string: 12 octets
	tinyA              // A: 15 octets
	tinyNULL           // NULL with one octet (outside the Coq RDATA instance): 12 octets
	tinyMix            // record i is of kind (i+salt) mod 3
)

var tinyKindName = []string{"private-use type, empty RDATA", "TXT \"\"", "A", "NULL, one octet", "mix of private-use/TXT/A: kind (i+salt) mod 3"}

// tinyRR: record number i of a message (numbered across the sections); owner
// is the root, the TTL is i so that no two records of a message are equal.
func tinyRR(kind, salt, i int) dns.RR {
	if kind == tinyMix {
		kind = (i + salt) % 3
	}
	h := dns.RR_Header{Name: ".", Class: dns.ClassINET, Ttl: uint32(i)}
	switch kind {
	case tinyTXT:
		h.Rrtype = dns.TypeTXT
		return &dns.TXT{Hdr: h, Txt: []string{""}}
	case tinyA:
		h.Rrtype = dns.TypeA
		return &dns.A{Hdr: h, A: []byte{10, byte(i >> 16), byte(i >> 8), byte(i)}}
	case tinyNULL:
		h.Rrtype = dns.TypeNULL
		return &dns.NULL{Hdr: h, Data: string([]byte{byte(i)})}
	}
	h.Rrtype = uint16(65280 + (i+salt)%255)
	return &dns.RFC3597{Hdr: h, Rdata: ""}
}

func tinyRRs(kind, salt, from, n int) []dns.RR {
	rrs := make([]dns.RR, 0, n)
	for i := 0; i < n; i++ {
		rrs = append(rrs, tinyRR(kind, salt, from+i))
	}
	return rrs
}

type countMsgSpec struct {
	v        countVec
	kind     int
	salt     int
	question bool
	compress bool
	id       uint16
}

func (s countMsgSpec) msg() *dns.Msg {
	m := new(dns.Msg)
	m.Id = s.id
	m.Response = true
	m.Compress = s.compress
	if s.question {
		m.Question = []dns.Question{{Name: ".", Qtype: dns.TypeNS, Qclass: dns.ClassINET}}
	}
	if s.v.an > 0 {
		m.Answer = tinyRRs(s.kind, s.salt, 0, s.v.an)
	}
	if s.v.ns > 0 {
		m.Ns = tinyRRs(s.kind, s.salt, s.v.an, s.v.ns)
	}
	if s.v.ar > 0 {
		m.Extra = tinyRRs(s.kind, s.salt, s.v.an+s.v.ns, s.v.ar)
	}
	return m
}

func genCountSpec(r *Rng, v countVec) countMsgSpec {
	s := countMsgSpec{v: v, salt: r.Intn(255), question: r.Intn(4) != 0, compress: r.Bool(), id: uint16(r.Next())}
	switch {
	case v.total() > 4200: // 15-octet records would pass 64 KiB
		s.kind = tinyPrivate
	case r.Intn(8) == 0:
		s.kind = tinyNULL
	default:
		s.kind = []int{tinyPrivate, tinyTXT, tinyA, tinyMix, tinyMix}[r.Intn(5)]
	}
	return s
}

type countIn struct {
	Counts   [3]int `json:"answer_authority_additional"`
	Records  string `json:"records"`
	Salt     int    `json:"salt"`
	Question bool   `json:"question_root_NS"`
	Compress bool   `json:"compress"`
	MsgID    uint16 `json:"id"`
	OrigID   uint16 `json:"orig_id"`
	Key      string `json:"key"`
	Alg      string `json:"alg"`
	Secret   string `json:"secret_b64,omitempty"`
	Store    string `json:"key_store,omitempty"`
	ReqMAC   string `json:"request_mac,omitempty"`
	Timers   bool   `json:"timers_only"`
	Time     uint64 `json:"time_signed"`
	Fudge    uint16 `json:"fudge"`
	Class    uint16 `json:"tsig_class"`
	TTL      uint32 `json:"tsig_ttl"`
	Header   string `json:"signed_header_hex,omitempty"`
	Signed   string `json:"signed_hex,omitempty"`
	Detail   string `json:"detail,omitempty"`
}

func (s countMsgSpec) input(c signCfg, ks keyStore, origid uint16) countIn {
	in := countIn{Counts: [3]int{s.v.an, s.v.ns, s.v.ar}, Records: "root owner, class IN, TTL = index of the record in the message; " + tinyKindName[s.kind],
		Salt: s.salt, Question: s.question, Compress: s.compress, MsgID: s.id, OrigID: origid, Key: c.keyName, Alg: c.alg, ReqMAC: c.rm, Timers: c.timers,
		Time: c.time, Fudge: c.fudge, Class: c.class, TTL: c.ttl}
	if ks.single {
		in.Secret = ks.secret
	} else {
		in.Store = ks.desc()
	}
	return in
}

func hdrCounts(b []byte) string {
	if len(b) < 12 {
		return "short header"
	}
	return "QD=" + Itoa(int(binary.BigEndian.Uint16(b[4:]))) + " AN=" + Itoa(int(binary.BigEndian.Uint16(b[6:]))) +
		" NS=" + Itoa(int(binary.BigEndian.Uint16(b[8:]))) + " AR=" + Itoa(int(binary.BigEndian.Uint16(b[10:])))
}

// genCountCfg: a signing configuration with everything but the counts kept plain.
func genCountCfg(r *Rng, ks keyStore) signCfg {
	c := genCfg(r)
	c.errc, c.other = 0, ""
	c.time = 1700000000 + uint64(r.Intn(1000))
	c.fudge = []uint16{300, 300, 1, 65535}[r.Intn(4)]
	c.rm, c.timers = "", false
	if !ks.single {
		if _, ok := ks.secrets[c.keyName]; !ok {
			c.keyName = "key.example."
		}
	}
	return c
}

// rfcSigned builds, without tsig.go, the octets RFC 8945 prescribes for the
// packed message under configuration c: header with the original ID and the
// additional count raised by one (computed from the intended count, as an
// integer), the body, and the TSIG record with the HMAC over the digest of the
// message with its ORIGINAL counts.
func rfcSigned(packed []byte, ar int, origid uint16, c signCfg, secret []byte) (signed []byte, mac []byte, ok bool) {
	keyLabels, _, ok1 := refName(nameWire(c.keyName), 0)
	algLabels, _, ok2 := refName(nameWire(c.alg), 0)
	a := algByLabels(algLabels)
	if !ok1 || !ok2 || a == nil || len(packed) < 12 {
		return nil, nil, false
	}
	orig := clone(packed)
	binary.BigEndian.PutUint16(orig[0:], origid)
	rmb, _ := hex.DecodeString(c.rm)
	other, _ := hex.DecodeString(c.other)
	t := &refTsig{rr: refRR{name: keyLabels, class: c.class, ttl: c.ttl}, alg: algLabels, time: c.time, fudge: c.fudge,
		origid: origid, errc: c.errc, olen: uint16(len(other)), other: other, stripped: orig}
	mac = macOf(a, secret, refDigest(t, rmb, c.timers))
	p := tsigParts{name: nameWire(c.keyName), class: c.class, ttl: c.ttl, alg: nameWire(c.alg), time: c.time, fudge: c.fudge,
		mac: mac, origid: origid, errc: c.errc, other: other}
	signed = append(clone(orig), p.wire()...)
	n := ar + 1
	signed[10], signed[11] = byte(n>>8), byte(n)
	return signed, mac, true
}

type countAlt struct {
	what string
	b    []byte
}

// headerAlterations: the signed octets with the header altered, framing of the
// records untouched. None of them may verify: the digest covers the header.
func headerAlterations(env []byte) []countAlt {
	var alts []countAlt
	for bit := 16; bit < 96; bit++ {
		b := clone(env)
		b[bit/8] ^= 0x80 >> (bit % 8)
		alts = append(alts, countAlt{"header bit " + Itoa(bit), b})
	}
	names := map[int]string{4: "QDCOUNT", 6: "ANCOUNT", 8: "NSCOUNT", 10: "ARCOUNT"}
	for _, off := range []int{4, 6, 8, 10} {
		v := int(binary.BigEndian.Uint16(env[off:]))
		seen := map[int]bool{v: true}
		for _, w := range []int{v + 1, v - 1, v + 256, v - 256, v + 255, v - 255, v & 0xFF00, v & 0x00FF, (v&0xFF)<<8 | v>>8, 0, 1, 65535, v ^ 0x0100, v ^ 0x01FF} {
			if w < 0 || w > 65535 || seen[w] {
				continue
			}
			seen[w] = true
			b := clone(env)
			binary.BigEndian.PutUint16(b[off:], uint16(w))
			alts = append(alts, countAlt{names[off] + " " + Itoa(v) + " -> " + Itoa(w), b})
		}
	}
	// a section boundary moved by one record: the same records, other counts
	for _, mv := range [][2]int{{6, 8}, {8, 6}, {8, 10}, {10, 8}, {6, 10}, {10, 6}} {
		from, to := int(binary.BigEndian.Uint16(env[mv[0]:])), int(binary.BigEndian.Uint16(env[mv[1]:]))
		if from == 0 || to == 65535 {
			continue
		}
		b := clone(env)
		binary.BigEndian.PutUint16(b[mv[0]:], uint16(from-1))
		binary.BigEndian.PutUint16(b[mv[1]:], uint16(to+1))
		alts = append(alts, countAlt{names[mv[0]] + "-1 and " + names[mv[1]] + "+1", b})
	}
	return alts
}

// oracleCounts checks one count vector. Returns the MAC (hex) for chaining and
// the signed octets (nil when the library refused to sign).
// level: 0 no model cases, 1 generate and strip, 2 also digest, verify and the
// carry-shaped alterations of ARCOUNT (Coq spends about a second per 16 KB of
// case text, so the full set is kept for the vectors on the carry itself).
func oracleCounts(r *Rng, spec countMsgSpec, c signCfg, ks keyStore, level int, quota *int) (string, []byte) {
	m := spec.msg()
	v := spec.v
	packed, perr := m.Pack()
	stub := stubOf(m, c)
	in := spec.input(c, ks, stub.OrigId)
	big := len(packed) > 65535-200
	if perr != nil {
		st["counts_pack_failed"]++
		return "", nil
	}
	st["counts_vectors"]++
	if big {
		st["counts_vectors_above_64k"]++
	}
	// Pack() is the input of the signing step: its counts are the lengths of the sections
	wantHdr := []int{len(m.Question), v.an, v.ns, v.ar}
	for i, w := range wantHdr {
		if int(binary.BigEndian.Uint16(packed[4+2*i:])) != w&0xFFFF {
			in.Detail = hdrCounts(packed)
			Viol("C11/Counts/pack", "Pack() header counts are not the section lengths", in)
			return "", nil
		}
	}
	out, mac, _, err := sign(m, c, ks)
	if err != nil {
		if big {
			// beyond 64 KiB no DNS transport carries the message; refusing to sign is no violation
			st["counts_above_64k_refused"]++
			return "", nil
		}
		in.Detail = err.Error()
		Viol("C11/Counts/generate-error", "TsigGenerate failed on a message with boundary section counts", in)
		return "", nil
	}
	if len(out) >= 12 {
		in.Header = Hx(out[:12])
	}
	if len(out) <= 16384 {
		in.Signed = Hx(out)
	}
	// (a) header of the signed octets: ID := OrigId, flags and three counts unchanged, ARCOUNT + 1
	if len(out) < len(packed) {
		Viol("C11/Counts/generate-layout", "signed octets are shorter than the message", in)
		return mac, out
	}
	okHdr := true
	if got, want := int(binary.BigEndian.Uint16(out[10:])), (v.ar+1)&0xFFFF; got != want {
		in.Detail = "ARCOUNT of the signed octets is " + Itoa(got) + ", want " + Itoa(want) + " (" + Itoa(v.ar) + " additional records and the TSIG)"
		Viol("C11/Counts/arcount-raised-by-one", "TsigGenerate did not raise ARCOUNT by exactly one", in)
		okHdr = false
	}
	for i, nm := range []string{"QDCOUNT", "ANCOUNT", "NSCOUNT"} {
		if got := int(binary.BigEndian.Uint16(out[4+2*i:])); got != wantHdr[i] {
			in.Detail = nm + " of the signed octets is " + Itoa(got) + ", want " + Itoa(wantHdr[i])
			Viol("C11/Counts/other-counts-unchanged", "TsigGenerate changed a section count other than ARCOUNT", in)
			okHdr = false
		}
	}
	if binary.BigEndian.Uint16(out[0:]) != stub.OrigId || !bytes.Equal(out[2:4], packed[2:4]) || !bytes.Equal(out[12:len(packed)], packed[12:]) {
		in.Detail = ""
		Viol("C11/Counts/generate-layout", "signed octets do not start with the message (ID := OrigId, flags and body unchanged)", in)
		okHdr = false
	}
	// (b) the whole output against the independent signer
	sec, _ := ks.lookup(c.keyName)
	c2 := c
	if c2.fudge == 0 {
		c2.fudge = 300
	}
	want, wantMAC, ok := rfcSigned(packed, v.ar, stub.OrigId, c2, sec)
	if !ok {
		st["counts_reference_not_applicable"]++
		return mac, out
	}
	if v.ar+1 > 65535 {
		// ARCOUNT cannot hold the TSIG: there is no correct output; only recorded
		st["counts_arcount_not_representable"]++
		return mac, out
	}
	if mac != Hx(wantMAC) {
		in.Detail = "MAC " + mac + ", RFC 8945 HMAC over the message with ARCOUNT " + Itoa(v.ar) + ": " + Hx(wantMAC)
		Viol("C11/Counts/mac-covers-original-counts", "the MAC is not the HMAC over the message with its original section counts", in)
	} else if okHdr && !bytes.Equal(out, want) {
		d := 0
		for d < len(out) && d < len(want) && out[d] == want[d] {
			d++
		}
		in.Detail = "first difference at octet " + Itoa(d) + " of " + Itoa(len(out)) + " (reference has " + Itoa(len(want)) + ")"
		Viol("C11/Counts/generate-equals-rfc-signer", "signed octets differ from message ‖ TSIG record built independently", in)
	}
	in.Detail = ""
	// (c) generated octets verify; so do the independent signer's (the strip side on its own)
	envs := []countAlt{{"TsigGenerate output", out}}
	if !bytes.Equal(out, want) {
		envs = append(envs, countAlt{"independent RFC 8945 signer's octets", want})
	}
	for _, e := range envs {
		st["counts_verify_checked"]++
		if got := protectVerify(ks, e.b, c.rm, c.timers, c.time); got != "ok:" {
			in2 := in
			in2.Detail = e.what + " (" + hdrCounts(e.b) + "): " + got
			Viol("C11/Counts/signed-rejected", "a correctly signed message with boundary section counts does not verify", in2)
		}
		// (d) stripTsig: the message with its original counts, which re-parses into the original sections
		res := Protect(func() string {
			s, t, err := dns.VerifStripTsig(e.b)
			if err != nil {
				return "stripTsig: " + err.Error()
			}
			if t.Hdr.Rrtype != dns.TypeTSIG {
				return "stripTsig found no TSIG"
			}
			if len(s) != len(packed) || !bytes.Equal(s[2:], packed[2:]) {
				if len(s) >= 12 {
					return "stripped message differs from the original (stripped header: " + hdrCounts(s) + ", original: " + hdrCounts(packed) + ")"
				}
				return "stripped message differs from the original"
			}
			var um dns.Msg
			if err := um.Unpack(s); err != nil {
				return "stripped message does not unpack: " + err.Error()
			}
			if len(um.Answer) != v.an || len(um.Ns) != v.ns || len(um.Extra) != v.ar {
				return "stripped message re-parses into " + Itoa(len(um.Answer)) + "/" + Itoa(len(um.Ns)) + "/" + Itoa(len(um.Extra)) + " records"
			}
			for i, rr := range um.Extra {
				if !dns.IsDuplicate(rr, m.Extra[i]) || rr.Header().Ttl != m.Extra[i].Header().Ttl {
					return "additional record " + Itoa(i) + " of the stripped message differs"
				}
			}
			return ""
		})
		st["counts_strip_checked"]++
		if res != "" {
			in2 := in
			in2.Detail = e.what + ": " + res
			Viol("C11/Counts/strip-restores-counts", "stripping the TSIG does not give back the message with its original counts", in2)
		}
		// the signed message parses into the original sections plus the TSIG, last
		res = Protect(func() string {
			var um dns.Msg
			if err := um.Unpack(e.b); err != nil {
				return "does not unpack: " + err.Error()
			}
			if len(um.Answer) != v.an || len(um.Ns) != v.ns || len(um.Extra) != v.ar+1 || um.IsTsig() == nil {
				return "parses into " + Itoa(len(um.Answer)) + "/" + Itoa(len(um.Ns)) + "/" + Itoa(len(um.Extra)) + " records, TSIG last: " + Btoa(um.IsTsig() != nil)
			}
			return ""
		})
		if res != "" {
			in2 := in
			in2.Detail = e.what + ": " + res
			Viol("C11/Counts/signed-sections", "the signed message does not parse into the original sections followed by the TSIG", in2)
		}
	}
	// (e) no alteration of the header of the signed octets verifies
	alts := headerAlterations(want)
	for _, a := range alts {
		if big && !strings.HasPrefix(a.what, "ARCOUNT") {
			continue
		}
		st["counts_header_alterations_checked"]++
		if got := protectVerify(ks, a.b, c.rm, c.timers, c.time); got == "ok:" || got == "panic" {
			in2 := in
			in2.Detail = a.what + ": " + got
			in2.Header = Hx(a.b[:12])
			Viol("C11/Counts/header-alteration", "signed octets with an altered header: "+got, in2)
		}
	}
	// (f) model cases
	if level > 0 && quota != nil {
		cs := generateCase(m, c, ks)
		cs = append(cs, stripCase(out)...)
		if level > 1 {
			cs = append(cs, verifyCases(out, ks, c.rm, c.timers, c.time)...)
			// ARCOUNT of the signed octets one lower, without its high octet, one octet carry higher
			n := v.ar + 1
			seen := map[int]bool{n: true}
			for _, w := range []int{n - 1, n & 0xFF, n + 256} {
				if seen[w] || w > 65535 {
					continue
				}
				seen[w] = true
				b := clone(want)
				binary.BigEndian.PutUint16(b[10:], uint16(w))
				if vc := verifyCases(b, ks, c.rm, c.timers, c.time); len(vc) == 2 {
					cs = append(cs, vc[1])
				}
				cs = append(cs, stripCase(b)...)
			}
		}
		for _, cse := range cs {
			if queueCase(quota, cse.fn, cse.args, cse.out) {
				st["counts_model_"+cse.fn]++
			} else {
				st["counts_model_over_quota"]++
			}
		}
	}
	return mac, out
}

func countVectors(r *Rng, thorough bool) []countVec {
	small := func() int { return []int{0, 0, 1, 2, 3}[r.Intn(5)] }
	var vs []countVec
	ars := []int{0, 1, 2, 253, 254, 255, 256, 257, 258, 510, 511, 512, 513, 767, 768, 1023, 1024}
	maxK := 23 // 256*23-1 = 5887 records of 11 octets: 64.8 KB
	if thorough {
		ars = ars[:3]
		for k := 1; k <= maxK; k++ {
			ars = append(ars, 256*k-2, 256*k-1, 256*k, 256*k+1)
		}
	} else {
		for i := 0; i < 2; i++ {
			k := 5 + r.Intn(maxK-5)
			ars = append(ars, 256*k-1, 256*k)
		}
		ars = append(ars, 256*maxK-1)
	}
	for _, ar := range ars {
		v := countVec{small(), small(), ar}
		if v.total() > 5890 {
			v.an, v.ns = 0, 0
		}
		if v.total() > 5890 {
			continue
		}
		vs = append(vs, v)
	}
	// the other counts at a boundary, alone and together with the additional count
	bs := []int{255, 256, 257}
	for _, b := range bs {
		vs = append(vs, countVec{b, 0, small()}, countVec{0, b, small()}, countVec{b, b, 0})
	}
	vs = append(vs, countVec{255, 255, 255}, countVec{256, 256, 255}, countVec{255, 256, 256}, countVec{256, 255, 254}, countVec{257, 257, 257},
		countVec{511, 0, 255}, countVec{0, 512, 255}, countVec{512, 511, 511}, countVec{1, 255, 255}, countVec{255, 1, 256})
	if thorough {
		for k := 2; k <= 7; k++ {
			for _, d := range []int{-1, 0} {
				vs = append(vs, countVec{256*k + d, small(), 255}, countVec{small(), 256*k + d, 256*k - 1}, countVec{256*k + d, 256*k + d, 256*k + d})
			}
		}
		for i := 0; i < 40; i++ {
			pick := func() int {
				if r.Intn(3) == 0 {
					return small()
				}
				return 256*(1+r.Intn(6)) - 2 + r.Intn(4)
			}
			vs = append(vs, countVec{pick(), pick(), pick()})
		}
	}
	return vs
}

// runCounts: the direct oracles and model cases over all count vectors, then
// the sessions.
func runCounts(r *Rng, tier string, single, multi keyStore) {
	thorough := tier == "thorough"
	quota := 450000 // octets of case arguments
	if thorough {
		quota = 2500000
	}
	prevMAC := ""
	done := map[string]bool{}
	for i, v := range countVectors(r, thorough) {
		ks := single
		if i%3 == 1 {
			ks = multi
		}
		spec := genCountSpec(r, v)
		c := genCountCfg(r, ks)
		switch i % 4 {
		case 1:
			c.rm = Hx(r.Bytes(20 + r.Intn(45)))
		case 2: // a later envelope of a chain: over the previous MAC, timers only
			if prevMAC != "" {
				c.rm, c.timers = prevMAC, true
			}
		case 3:
			c.rm, c.timers = Hx(r.Bytes(32)), r.Bool()
		}
		// model cases: the full set on the carry itself (255 other additional records),
		// generate and strip next to it, one level up, and for the other two counts
		level, tag := 0, ""
		switch {
		case v.an+v.ns <= 6 && v.ar == 255:
			level, tag = 2, "ar255"
		case v.an+v.ns <= 6 && (v.ar == 254 || v.ar == 256 || v.ar == 257 || v.ar == 511 || v.ar == 512):
			level, tag = 1, "ar"+Itoa(v.ar)
		case v.ar <= 6 && (v.an == 0 || v.ns == 0) && (v.an+v.ns == 255 || v.an+v.ns == 256):
			level, tag = 1, "an"+Itoa(v.an)+"ns"+Itoa(v.ns)
		case thorough && v.total() < 700 && r.Intn(3) == 0:
			level, tag = 1+r.Intn(2), "t"+Itoa(i)
		}
		if done[tag] {
			level = 0
		}
		if level > 0 {
			done[tag] = true
			spec.kind, spec.question = tinyPrivate, false // 11 octets a record: the least case text
			if v.ar == 255 || thorough && r.Bool() {
				spec.kind, spec.question = tinyMix, true
			}
		}
		mac, _ := oracleCounts(r, spec, c, ks, level, &quota)
		if mac != "" {
			prevMAC = mac
		}
	}
	// the top of the range: 65534 other records and the TSIG make ARCOUNT 65535 (720 KB:
	// no transport carries it, but Pack and TsigGenerate take it); with 65535 other
	// records the count cannot be represented at all (recorded, not judged)
	for _, ar := range []int{65534, 65535} {
		spec := countMsgSpec{v: countVec{0, 0, ar}, kind: tinyPrivate, salt: r.Intn(255), question: true, id: uint16(r.Next())}
		oracleCounts(r, spec, genCountCfg(r, single), single, 0, nil)
	}
	runCountSessions(r, thorough)
}

// ---------------------------------------------------------------------------
// sessions with boundary counts
// ---------------------------------------------------------------------------

// countScenario: an exchange whose request carries qar additional records and
// whose replies / envelopes have the given section counts.
func countScenario(r *Rng, kind string, vecs []countVec, provider bool, qar int) *scenario {
	s := &scenario{kind: kind, k: genSessKeys(r, provider), alg: &algs[r.Intn(len(algs))], now: uint64(time.Now().Unix()),
		libSign: r.Bool(), signQuery: true, qid: uint16(r.Next()), serial: 100 + uint32(r.Intn(1000)), segSeed: r.Next()}
	s.fudge = []uint16{300, 3600, 65535}[r.Intn(3)]
	salt := r.Intn(255)
	recKind := []int{tinyPrivate, tinyTXT, tinyA, tinyMix}[r.Intn(4)]
	s.qExtra = tinyRRs(recKind, salt, 0, qar)
	q := s.query()
	for i, v := range vecs {
		m := new(dns.Msg)
		m.SetReply(q)
		m.Extra = nil
		m.Authoritative = true
		m.Compress = r.Bool()
		spec := countMsgSpec{v: v, kind: recKind, salt: salt}
		body := spec.msg()
		m.Answer, m.Ns, m.Extra = body.Answer, body.Ns, body.Extra
		if s.pol() == polXfr {
			// the answer sections form the stream SOA ... SOA
			if i == 0 {
				m.Answer[0] = soaRR(s.serial)
			}
			if i == len(vecs)-1 {
				m.Answer[len(m.Answer)-1] = soaRR(s.serial)
			}
		}
		s.msgs = append(s.msgs, m)
	}
	return s
}

func runCountSessions(r *Rng, thorough bool) {
	type plan struct {
		kind string
		vecs []countVec
		qar  int
	}
	plans := []plan{
		{"axfr", []countVec{{255, 0, 255}, {256, 1, 0}, {257, 0, 256}, {2, 255, 254}}, 255},
		{"loop", []countVec{{0, 0, 255}, {255, 255, 255}, {1, 256, 256}}, 256},
		{"conn", []countVec{{1, 0, 255}, {256, 0, 254}, {0, 0, 511}}, 255},
		{"connudp", []countVec{{1, 1, 255}, {0, 255, 256}}, 254},
		{"client", []countVec{{1, 0, 255}}, 255},
		{"client", []countVec{{255, 0, 256}}, 511},
		{"clientudp", []countVec{{0, 256, 255}}, 255},
	}
	if thorough {
		for k := 2; k <= 8; k++ {
			plans = append(plans,
				plan{"axfr", []countVec{{256*k - 1, 0, 256*k - 1}, {256 * k, 0, 256 * k}, {2, 1, 256*k - 2}}, 256*k - 1},
				plan{"loop", []countVec{{0, 0, 256*k - 1}, {1, 0, 256 * k}}, 256 * k},
				plan{"conn", []countVec{{0, 0, 256*k - 1}, {1, 256*k - 1, 256*k - 1}}, 256*k - 1},
				plan{"client", []countVec{{1, 0, 256*k - 1}}, 256*k - 1})
		}
	}
	quota := 40000
	for i, p := range plans {
		for rep := 0; rep < 2; rep++ {
			s := countScenario(r, p.kind, p.vecs, (i+rep)%2 == 1, p.qar)
			if rep == 1 {
				s.libSign = !s.libSign
			}
			st["counts_sessions"]++
			o := s.run(nil, -1, 0)
			s.check(o, nil, -1)
			if rep == 0 {
				s.emitSession(o, &quota)
			}
			if rep == 1 && !thorough {
				continue
			}
			for ti := range tampers {
				tm := &tampers[ti]
				if tm.chain && s.pol() == polStateless {
					continue
				}
				for _, k := range positionsFor(r, len(s.msgs), false) {
					if tm.name == "envelope-duplicated" && s.pol() == polXfr && k == len(s.msgs)-1 {
						continue
					}
					o := s.run(tm, k, r.Next())
					s.check(o, tm, k)
				}
			}
		}
	}
	// server: signed queries with 254..257 (and 511, 512) additional records over one TCP
	// connection; the handler returns them, so the responses sit on the same boundaries
	qars := []int{254, 255, 256, 257, 511}
	salt := r.Intn(255)
	srvQueryExtra = func(i int) []dns.RR { return tinyRRs(tinyMix, salt, 0, qars[i%len(qars)]) }
	defer func() { srvQueryExtra = nil }()
	nsrv := 2
	if thorough {
		nsrv = 8
	}
	for i := 0; i < nsrv; i++ {
		st["counts_server_runs"]++
		before, lost := st["sess_server_queries_checked"], st["sess_server_query_not_handled"]
		runServer(r, false, len(qars), i%2 == 1, nil, -1, nil)
		st["counts_server_queries_checked"] += st["sess_server_queries_checked"] - before
		st["counts_server_queries_not_handled"] += st["sess_server_query_not_handled"] - lost
		if thorough {
			qars = []int{256*(i+2) - 1, 256 * (i + 2), 255, 256*(i+2) - 2, 257}
		}
	}
	for ti := range tampers {
		tm := &tampers[ti]
		if tm.chain {
			continue
		}
		runServer(r, false, len(qars), ti%2 == 1, tm, r.Intn(len(qars)), nil)
	}
}
